import WfModel.Basic
