import WfModel.Model.RangeSet
