import WfModel.Lemmas.C06

/-!
# C06 — every literal form denotes its documented value; malformed forms are rejected

Property theorems only. Model: `WfModel/Model/Lit.lean` (`engine/src/rhs_types/{int,bytes,ip}.rs`,
`engine/src/scheme.rs:50-86`, `engine/src/lex.rs`). Renderers (`renderDec`, `renderQuoted`,
`hashes`, `renderPair`, …) are the *specification* side: they are defined in `Lemmas/C06*.lean`
by recursion on the value only and never mention a lexer.

`rest` is the input that follows the literal. Where the literal is not self-delimiting the
theorems carry an explicit decidable side condition on the first character of `rest`
(`NoHexDigitHead`, `NoXHead`, `NoSepHead`); each is exemplified at the end of the file.
-/
namespace WfModel.C06
open WfModel

/-! ## integers -/

/-- Decimal (optional `-`, no leading zeros): every `i64` value round-trips and exactly the
literal is consumed.  Decimal lexing swallows the maximal run of *hex* digits, hence
`NoHexDigitHead`; the literal `0` followed by `x` would be read as a hex prefix. -/
theorem int_roundtrip_dec (v : Int) (rest : Input) (hv : inI64 v = true)
    (hr : NoHexDigitHead rest = true) (hx : v = 0 → NoXHead rest = true) :
    lexInt (renderDec v ++ rest) = .ok (v, rest) := by
  rw [lexInt_renderDec v rest hr hx, hv]; rfl

/-- `0x` + hex digits, every non-negative `i64`. -/
theorem int_roundtrip_hex (v : Int) (rest : Input) (h0 : 0 ≤ v) (hv : inI64 v = true)
    (hr : NoHexDigitHead rest = true) :
    lexInt (renderHex v ++ rest) = .ok (v, rest) :=
  lexInt_renderInt .hex v rest (by simp [IntForm.admits, h0]) hv hr (fun h => nomatch h)

/-- leading `0` + octal digits, every non-negative `i64`. -/
theorem int_roundtrip_oct (v : Int) (rest : Input) (h0 : 0 ≤ v) (hv : inI64 v = true)
    (hr : NoHexDigitHead rest = true) :
    lexInt (renderOct v ++ rest) = .ok (v, rest) :=
  lexInt_renderInt .oct v rest (by simp [IntForm.admits, h0]) hv hr (fun h => nomatch h)

/-- Any integer outside the `i64` range, written in decimal, is a `ParseInt` error spanning
the literal. -/
theorem int_overflow (v : Int) (rest : Input) (hv : inI64 v = false)
    (hr : NoHexDigitHead rest = true) :
    lexInt (renderDec v ++ rest) = errSpan .parseInt (renderDec v ++ rest) rest := by
  have h0 : v = 0 → NoXHead rest = true := by
    intro h; subst h; exact absurd hv (by decide)
  rw [lexInt_renderDec v rest hr h0, hv]; rfl

/-- … and the same for hex and octal renderings of too-large values. -/
theorem int_overflow_hex (n : Nat) (rest : Input) (hv : inI64 (n : Int) = false)
    (hr : NoHexDigitHead rest = true) :
    lexInt (renderHex n ++ rest) = errSpan .parseInt (digits 16 n ++ rest) rest := by
  have := lexInt_renderHex n rest hr
  rw [hv] at this
  simpa [renderHex] using this

theorem int_overflow_oct (n : Nat) (rest : Input) (hv : inI64 (n : Int) = false)
    (hr : NoHexDigitHead rest = true) :
    lexInt (renderOct n ++ rest) = errSpan .parseInt (renderOct n ++ rest) rest := by
  have := lexInt_renderOct n rest hr
  rw [hv] at this
  simpa [renderOct] using this

/-- `a..b` with each bound in any of the three forms (`f`, `g`): accepted iff `a ≤ b`, and
then denotes exactly `(a, b)`. -/
theorem intRange_roundtrip (f g : IntForm) (a b : Int) (rest : Input)
    (haf : f.admits a = true) (hbg : g.admits b = true)
    (hia : inI64 a = true) (hib : inI64 b = true) (hab : a ≤ b)
    (hr : NoHexDigitHead rest = true) (hx : g = .dec → b = 0 → NoXHead rest = true) :
    lexIntRange (renderInt f a ++ "..".toList ++ renderInt g b ++ rest) = .ok ((a, b), rest) := by
  have := lexIntRange_render f g a b rest haf hbg hia hib hr hx
  rw [if_neg (by omega)] at this
  simpa using this

theorem intRange_reversed_rejected (f g : IntForm) (a b : Int) (rest : Input)
    (haf : f.admits a = true) (hbg : g.admits b = true)
    (hia : inI64 a = true) (hib : inI64 b = true) (hab : b < a)
    (hr : NoHexDigitHead rest = true) (hx : g = .dec → b = 0 → NoXHead rest = true) :
    lexIntRange (renderInt f a ++ "..".toList ++ renderInt g b ++ rest) =
      errSpan .incompatibleRangeBounds
        (renderInt f a ++ "..".toList ++ renderInt g b ++ rest) rest := by
  have := lexIntRange_render f g a b rest haf hbg hia hib hr hx
  rw [if_pos hab] at this
  simpa using this

/-- a single value is the one-point range -/
theorem intRange_single (f : IntForm) (a : Int) (rest : Input)
    (haf : f.admits a = true) (hia : inI64 a = true)
    (hr : NoHexDigitHead rest = true) (hx : f = .dec → a = 0 → NoXHead rest = true)
    (hdd : expect rest ".." = none) :
    lexIntRange (renderInt f a ++ rest) = .ok ((a, a), rest) :=
  lexIntRange_single f a rest haf hia hr hx hdd

/-! ## quoted strings -/

/-- For every byte string and every per-byte choice of escape form — `\xHH` (either case per
digit), `\OOO`, or (printable ASCII only) the character itself with `\"` / `\\` for those
two — the quoted literal denotes exactly those bytes and ends at its closing quote. -/
theorem quoted_roundtrip (items : List (Esc × UInt8)) (rest : Input)
    (hok : ∀ it ∈ items, escOk it = true) :
    lexQuoted (renderQuoted items ++ ['"'] ++ rest) = .ok (items.map (·.2), rest) := by
  have := lexQuoted_render items rest hok
  simpa using this

/-- the same through `BytesExpr::lex` (opening quote included; the format is recorded) -/
theorem quoted_roundtrip_bytes (items : List (Esc × UInt8)) (rest : Input)
    (hok : ∀ it ∈ items, escOk it = true) :
    lexBytes (['"'] ++ renderQuoted items ++ ['"'] ++ rest) =
      .ok ({ fmt := .quoted, data := items.map (·.2) }, rest) := by
  have := lexBytes_quoted items rest hok
  simpa using this

/-- After any valid prefix: `\x` not followed by exactly two hex digits (too few characters, a
non-hex character, a `+`/`-` sign) is an error; so is `\` + octal digit unless three octal
digits `000`–`377` follow; so is any other escape character. -/
theorem bad_escape_rejected (items : List (Esc × UInt8)) (hok : ∀ it ∈ items, escOk it = true) :
    (∀ r, TwoHex r = false → ∃ e, lexQuoted (renderQuoted items ++ '\\' :: 'x' :: r) = .error e) ∧
    (∀ c r, isOctDigit c = true → ThreeOct (c :: r) = false →
      ∃ e, lexQuoted (renderQuoted items ++ '\\' :: c :: r) = .error e) ∧
    (∀ c r, c ≠ '"' → c ≠ '\\' → c ≠ 'x' → isOctDigit c = false →
      lexQuoted (renderQuoted items ++ '\\' :: c :: r) =
        .error { kind := .invalidCharacterEscape, pos := c :: r, len := 1 }) :=
  ⟨fun r h => lexQuoted_bad_hex items r hok h,
   fun c r hc h => lexQuoted_bad_oct items c r hok hc h,
   fun c r h1 h2 h3 h4 => lexQuoted_unknown_escape items c r hok h1 h2 h3 h4⟩

/-- `TwoHex` is exact: two hex digits are always accepted by `fixed_byte`. -/
theorem two_hex_accepted (r : Input) (h : TwoHex r = true) :
    ∃ b r', fixedByte r 2 16 = .ok (b, r') := fixedByte_two_good r h

/-- A string that ends (possibly after a lone backslash) before its closing quote is a
`MissingEndingQuote` error. -/
theorem unterminated_rejected (items : List (Esc × UInt8)) (hok : ∀ it ∈ items, escOk it = true) :
    lexQuoted (renderQuoted items) = errAt .missingEndingQuote (renderQuoted items) ∧
    lexQuoted (renderQuoted items ++ ['\\']) =
      errAt .missingEndingQuote (renderQuoted items ++ ['\\']) :=
  ⟨lexQuoted_unterminated items hok, lexQuoted_unterminated_backslash items hok⟩

/-! ## raw strings -/

/-- `r#ᵏ"body"#ᵏ` for every `k ≤ 255` and every body in which no `"` is followed by `k` or
more `#` (bodies with quotes and with runs of `k-1` hashes after a quote are covered).  No
condition on `rest`: further `#` after the terminator are left unconsumed. -/
theorem raw_roundtrip (k : Nat) (hk : k ≤ 255) (body rest : Input) (hb : rawBodyOk k body = true) :
    lexRawStr (hashes k ++ ['"'] ++ body ++ ['"'] ++ hashes k ++ rest) = .ok ((body, k), rest) := by
  have := lexRawStr_render k hk body rest hb
  simpa using this

theorem raw_roundtrip_bytes (k : Nat) (hk : k ≤ 255) (body rest : Input)
    (hb : rawBodyOk k body = true) :
    lexBytes (['r'] ++ hashes k ++ ['"'] ++ body ++ ['"'] ++ hashes k ++ rest) =
      .ok ({ fmt := .raw k, data := utf8s body }, rest) := by
  have := lexBytes_raw k hk body rest hb
  simpa using this

/-- 256 or more `#` are rejected whatever follows. -/
theorem raw_hash_limit (k : Nat) (hk : 256 ≤ k) (t : Input) :
    lexRawStr (hashes k ++ t) = errAt .invalidRawStringHashCount (hashes k ++ t) :=
  lexRawStr_too_many k hk t

theorem raw_unterminated_rejected (k : Nat) (hk : k ≤ 255) (body : Input)
    (hb : rawBodyOk k body = true) :
    lexRawStr (hashes k ++ ['"'] ++ body) = errAt .missingEndingQuote (hashes k ++ ['"'] ++ body) := by
  have := lexRawStr_unterminated k hk body hb
  simpa using this

/-! ## hex pairs -/

/-- Two or more pairs (`p0`, then `it :: items`, each with its own separator among `: - .`
and its own letter case per digit) denote exactly their bytes.  The model's `fixed_byte`
takes exactly two characters, so only a *separator* after the last pair could extend the
literal. -/
theorem hexpairs_roundtrip (p0 : HexPair) (it : Char × HexPair) (items : List (Char × HexPair))
    (rest : Input) (hsep : ∀ x ∈ it :: items, isByteSep x.1 = true) (hr : NoSepHead rest = true) :
    lexByteString (renderPair p0 ++ renderPairsTail (it :: items) ++ rest) =
      .ok (p0.b :: (it :: items).map (·.2.b), rest) := by
  have := lexByteString_render p0 it items rest hsep hr
  simpa using this

theorem hexpairs_roundtrip_bytes (p0 : HexPair) (it : Char × HexPair)
    (items : List (Char × HexPair)) (rest : Input)
    (hsep : ∀ x ∈ it :: items, isByteSep x.1 = true) (hr : NoSepHead rest = true) :
    lexBytes (renderPair p0 ++ renderPairsTail (it :: items) ++ rest) =
      .ok ({ fmt := .byte, data := p0.b :: (it :: items).map (·.2.b) }, rest) := by
  have := lexBytes_hexpairs p0 it items rest hsep hr
  simpa using this

/-- a single pair is not a byte string -/
theorem hexpairs_single_rejected (p0 : HexPair) (rest : Input) (hr : NoSepHead rest = true) :
    ∃ e, lexByteString (renderPair p0 ++ rest) = .error e :=
  lexByteString_single p0 rest hr

/-- A pair that is not two hex digits — in particular one carrying a sign, `+1` or `-1` — is
rejected, in first position and after any number of good pairs.  (The unchanged engine
accepts `+`: finding F5; the model states the documented language.) -/
theorem hexpair_sign_rejected :
    (∀ r, TwoHex r = false → ∃ e, lexByteString r = .error e) ∧
    (∀ (p0 : HexPair) (items : List (Char × HexPair)) (sep : Char) (r : Input),
      (∀ x ∈ items, isByteSep x.1 = true) → isByteSep sep = true → TwoHex r = false →
      ∃ e, lexByteString (renderPair p0 ++ renderPairsTail items ++ sep :: r) = .error e) := by
  refine ⟨lexByteString_bad_first, ?_⟩
  intro p0 items sep r hsep hs h
  have := lexByteString_bad_later p0 items sep r hsep hs h
  simpa using this

/-! ## indexes and keys -/

/-- every `u32` written in decimal is that array index -/
theorem index_roundtrip (n : Nat) (rest : Input) (hn : n < 2 ^ 32)
    (hr : NoHexDigitHead rest = true) (hx : n = 0 → NoXHead rest = true) :
    lexFieldIndex (renderDec n ++ rest) = .ok (.arr n, rest) := by
  have := lexFieldIndex_renderDec (n : Int) rest hr (by intro h; exact hx (by omega))
  rw [if_pos (by omega)] at this
  simpa using this

/-- negative, ≥ 2³² and out-of-`i64` decimal indexes are rejected -/
theorem index_neg_or_big_rejected (v : Int) (rest : Input) (hv : v < 0 ∨ 2 ^ 32 ≤ v)
    (hr : NoHexDigitHead rest = true) :
    lexFieldIndex (renderDec v ++ rest) = errAt .expectedLiteral (renderDec v ++ rest) := by
  have := lexFieldIndex_renderDec v rest hr (by intro h; omega)
  rw [if_neg (by omega)] at this
  exact this

/-- A map key is a quoted string whose bytes are the UTF-8 encoding of the key, each byte in
any permitted escape form. -/
theorem key_roundtrip (cs : List Char) (items : List (Esc × UInt8)) (rest : Input)
    (hok : ∀ it ∈ items, escOk it = true) (hbytes : items.map (·.2) = utf8s cs) :
    lexFieldIndex (['"'] ++ renderQuoted items ++ ['"'] ++ rest) = .ok (.key cs, rest) := by
  have := lexFieldIndex_key items rest hok
  rw [hbytes, utf8Decode_utf8s] at this
  simpa using this

/-- A quoted index whose bytes are not the UTF-8 encoding of any string is rejected. -/
theorem key_non_utf8_rejected (items : List (Esc × UInt8)) (rest : Input)
    (hok : ∀ it ∈ items, escOk it = true) (hbad : ∀ cs, utf8s cs ≠ items.map (·.2)) :
    lexFieldIndex (['"'] ++ renderQuoted items ++ ['"'] ++ rest) =
      errAt .expectedLiteral (['"'] ++ renderQuoted items ++ ['"'] ++ rest) := by
  have := lexFieldIndex_key items rest hok
  cases hd : utf8Decode (items.map (·.2)) with
  | some cs => exact absurd (utf8Decode_sound _ _ hd) (hbad cs)
  | none =>
    rw [hd] at this
    simpa using this

/-- the strict decoder is exactly the inverse of the encoder -/
theorem utf8_decode_exact (b : Bytes) (cs : List Char) : utf8Decode b = some cs ↔ utf8s cs = b :=
  utf8Decode_eq_some_iff b cs

/-! ## IP addresses, CIDR blocks, address ranges

`dotted a` is the dotted quad of `a < 2³²`; `v6full a` the eight lower-case hex groups of
`a < 2¹²⁸` without leading zeros; `v6Str a` (`Model/Json.lean`) is std's `Display` form with `::`
compression of the longest zero run and `::ffff:a.b.c.d` for IPv4-mapped addresses.  The
continuation must not start with an address character (`isIpChar`). -/

/-- std `IpAddr::from_str` (model) on canonical renderings -/
theorem ip_roundtrip_v4 (a : Nat) (ha : a < 2 ^ 32) : parseIpAddr (dotted a) = some (.v4 a) :=
  WfModel.ip_roundtrip_v4 ha

theorem ip_roundtrip_v6 (a : Nat) (ha : a < 2 ^ 128) : parseIpAddr (v6full a) = some (.v6 a) :=
  WfModel.ip_roundtrip_v6 ha

/-- the canonical (std `Display`) text of every IPv6 address — compressed, IPv4-mapped or plain —
is read back as that address, also through the lexer -/
theorem ip_roundtrip_v6_display (a : Nat) (ha : a < 2 ^ 128) :
    parseIpAddr (v6Str a).toList = some (.v6 a) ∧
    ∀ rest, headNot isIpChar rest = true →
      lexIpAddr ((v6Str a).toList ++ rest) = .ok (.v6 a, rest) :=
  ⟨parseIpAddr_v6Str a ha, fun _ hr => lexIpAddr_v6Str ha hr⟩

/-- … and through `impl Lex for IpAddr`, consuming exactly the literal -/
theorem ip_lex_roundtrip (rest : Input) (hr : headNot isIpChar rest = true) :
    (∀ a, a < 2 ^ 32 → lexIpAddr (dotted a ++ rest) = .ok (.v4 a, rest)) ∧
    (∀ a, a < 2 ^ 128 → lexIpAddr (v6full a ++ rest) = .ok (.v6 a, rest)) :=
  ⟨fun _ ha => lexIpAddr_roundtrip_v4 ha hr, fun _ ha => lexIpAddr_roundtrip_v6 ha hr⟩

/-- A CIDR whose host bits are not all zero is rejected by the `cidr` parser (model): for any
address text `addr` the parser accepts and any prefix length. -/
theorem cidr_hostbits (addr lenDigits : Input) (len : Nat) (hl : parseU8 lenDigits = some len) :
    (∀ a, parseCidrAddr addr = some (.v4 a) → a % 2 ^ (32 - len) ≠ 0 →
      parseCidr (addr ++ '/' :: lenDigits) = none) ∧
    (∀ a, parseCidrAddr addr = some (.v6 a) → a % 2 ^ (128 - len) ≠ 0 →
      parseCidr (addr ++ '/' :: lenDigits) = none) :=
  ⟨fun _ ha hb => cidr_hostbits_v4 ha hl hb, fun _ ha hb => cidr_hostbits_v6 ha hl hb⟩

/-- `a/len` on rendered addresses, all prefix lengths: accepted (and denotes the block)
exactly when `len` is within the family's width and the host bits are zero; a bare address is
the full-length block. -/
theorem cidr_roundtrip_v4 (a len : Nat) (rest : Input) (ha : a < 2 ^ 32)
    (hr : headNot isIpChar rest = true) :
    (len ≤ 32 → a % 2 ^ (32 - len) = 0 →
      lexIpRange (dotted a ++ '/' :: digits 10 len ++ rest) = .ok (.cidr false a len, rest)) ∧
    (len ≤ 255 → a % 2 ^ (32 - len) ≠ 0 →
      lexIpRange (dotted a ++ '/' :: digits 10 len ++ rest) =
        errSpan .parseNetwork (dotted a ++ '/' :: digits 10 len ++ rest) rest) ∧
    (32 < len → len ≤ 255 →
      lexIpRange (dotted a ++ '/' :: digits 10 len ++ rest) =
        errSpan .parseNetwork (dotted a ++ '/' :: digits 10 len ++ rest) rest) ∧
    lexIpRange (dotted a ++ rest) = .ok (.cidr false a 32, rest) :=
  ⟨fun hl hb => cidr_dotted_ok ha hl hb hr, fun hl hb => cidr_dotted_hostbits ha hl hb hr,
   fun h32 hl => cidr_dotted_len_too_big ha h32 hl hr, cidr_dotted_bare ha hr⟩

theorem cidr_roundtrip_v6 (a len : Nat) (rest : Input) (ha : a < 2 ^ 128)
    (hr : headNot isIpChar rest = true) :
    (len ≤ 128 → a % 2 ^ (128 - len) = 0 →
      lexIpRange (v6full a ++ '/' :: digits 10 len ++ rest) = .ok (.cidr true a len, rest)) ∧
    (len ≤ 255 → a % 2 ^ (128 - len) ≠ 0 →
      lexIpRange (v6full a ++ '/' :: digits 10 len ++ rest) =
        errSpan .parseNetwork (v6full a ++ '/' :: digits 10 len ++ rest) rest) :=
  ⟨fun hl hb => cidr_v6full_ok ha hl hb hr, fun hl hb => cidr_v6full_hostbits ha hl hb hr⟩

/-- Explicit ranges `x..y`, whatever spellings `x`, `y` the address parser accepts: bounds of
different families, or of one family in descending order, are an `IncompatibleRangeBounds`
error; same family ascending denotes `(lo, hi)`. -/
theorem iprange_family_order (x y rest : Input) (A B : Ip)
    (hx : ∀ c ∈ x, isIpChar c = true) (hy : ∀ c ∈ y, isIpChar c = true)
    (hr : headNot isIpChar rest = true)
    (hdd : findDotDot (x ++ '.' :: '.' :: y) 0 = some x.length)
    (hA : parseIpAddr x = some A) (hB : parseIpAddr y = some B) :
    ((∃ a b, A = .v4 a ∧ B = .v6 b) ∨ (∃ a b, A = .v6 a ∧ B = .v4 b) ∨
      (∃ a b, A = .v4 a ∧ B = .v4 b ∧ b < a) ∨ (∃ a b, A = .v6 a ∧ B = .v6 b ∧ b < a) →
      lexIpRange (x ++ '.' :: '.' :: y ++ rest) =
        errSpan .incompatibleRangeBounds (x ++ '.' :: '.' :: y ++ rest) rest) ∧
    (∀ a b, A = .v4 a → B = .v4 b → a ≤ b →
      lexIpRange (x ++ '.' :: '.' :: y ++ rest) = .ok (.explicit false a b, rest)) ∧
    (∀ a b, A = .v6 a → B = .v6 b → a ≤ b →
      lexIpRange (x ++ '.' :: '.' :: y ++ rest) = .ok (.explicit true a b, rest)) := by
  refine ⟨fun hbad => iprange_pair_bad hx hy hr hdd hA hB hbad, ?_, ?_⟩
  · intro a b ea eb hab; subst ea eb
    exact iprange_pair_ok_v4 hx hy hr hdd hA hB hab
  · intro a b ea eb hab; subst ea eb
    exact iprange_pair_ok_v6 hx hy hr hdd hA hB hab

/-- … instantiated on rendered addresses (the `findDotDot` hypothesis is discharged). -/
theorem iprange_rendered (rest : Input) (hr : headNot isIpChar rest = true) :
    (∀ a b, a < 2 ^ 32 → b < 2 ^ 32 → a ≤ b →
      lexIpRange (dotted a ++ '.' :: '.' :: dotted b ++ rest) = .ok (.explicit false a b, rest)) ∧
    (∀ a b, a < 2 ^ 32 → b < 2 ^ 32 → b < a →
      lexIpRange (dotted a ++ '.' :: '.' :: dotted b ++ rest) =
        errSpan .incompatibleRangeBounds (dotted a ++ '.' :: '.' :: dotted b ++ rest) rest) ∧
    (∀ a b, a < 2 ^ 128 → b < 2 ^ 128 → a ≤ b →
      lexIpRange (v6full a ++ '.' :: '.' :: v6full b ++ rest) = .ok (.explicit true a b, rest)) ∧
    (∀ a b, a < 2 ^ 128 → b < 2 ^ 128 → b < a →
      lexIpRange (v6full a ++ '.' :: '.' :: v6full b ++ rest) =
        errSpan .incompatibleRangeBounds (v6full a ++ '.' :: '.' :: v6full b ++ rest) rest) ∧
    (∀ a b, a < 2 ^ 32 → b < 2 ^ 128 →
      lexIpRange (dotted a ++ '.' :: '.' :: v6full b ++ rest) =
        errSpan .incompatibleRangeBounds (dotted a ++ '.' :: '.' :: v6full b ++ rest) rest) ∧
    (∀ a b, a < 2 ^ 128 → b < 2 ^ 32 →
      lexIpRange (v6full a ++ '.' :: '.' :: dotted b ++ rest) =
        errSpan .incompatibleRangeBounds (v6full a ++ '.' :: '.' :: dotted b ++ rest) rest) :=
  ⟨fun _ _ ha hb hab => iprange_dotted_ok ha hb hab hr,
   fun _ _ ha hb hab => iprange_dotted_order ha hb hab hr,
   fun _ _ ha hb hab => iprange_v6full_ok ha hb hab hr,
   fun _ _ ha hb hab => iprange_v6full_order ha hb hab hr,
   fun _ _ ha hb => iprange_mixed_v4_v6 ha hb hr,
   fun _ _ ha hb => iprange_mixed_v6_v4 ha hb hr⟩

/-! ## brace lists -/

/-- `{ ws₀ item₁ ws₁ … itemₙ wsₙ }` (items separated by at least one space, `wsₙ` optional)
denotes the list of the items' values and ends after `}`, for any item lexer whose round
trip holds under a continuation condition `C` that a space or `}` satisfies. -/
theorem brace_list_roundtrip {α} (item : Input → LexRes α) (C : Input → Bool)
    (hC : ∀ t, SpaceOrCloseHead t = true → C t = true)
    (entries : List (BraceEntry α)) (rest : Input) (ws0 : List Char)
    (hws0 : ∀ c ∈ ws0, isSpace c = true)
    (hws : ∀ e ∈ entries, ∀ c ∈ e.ws, isSpace c = true)
    (hhead : ∀ e ∈ entries, itemHeadOk e.text = true)
    (hsep : sepOk entries = true)
    (hitem : ∀ e ∈ entries, ∀ tail, C tail = true → item (e.text ++ tail) = .ok (e.val, tail)) :
    lexBrace item (['{'] ++ ws0 ++ renderBraceBody entries ++ ['}'] ++ rest) =
      .ok (entries.map (·.val), rest) := by
  have := lexBrace_render item C hC entries rest ws0 hws0 hws hhead hsep hitem
  simpa using this

/-- instance: any list of `i64` values written in decimal, one space after each -/
theorem int_list_roundtrip (vs : List Int) (hv : ∀ v ∈ vs, inI64 v = true) (ws0 rest : Input)
    (hws0 : ∀ c ∈ ws0, isSpace c = true) :
    lexBrace lexIntRange (['{'] ++ ws0 ++ renderBraceBody (intEntries vs) ++ ['}'] ++ rest) =
      .ok (vs.map fun v => (v, v), rest) := by
  have := lexBrace_int_list vs hv ws0 rest hws0
  simpa using this

/-! ## non-vacuity: the side conditions are satisfiable, on non-trivial instances -/

example : NoHexDigitHead " and".toList = true := by decide
example : NoHexDigitHead [] = true := by decide
example : NoXHead ")".toList = true := by decide
example : NoSepHead " }".toList = true := by decide
example : inI64 (-9223372036854775808) = true ∧ inI64 9223372036854775807 = true ∧
    inI64 9223372036854775808 = false := by decide
example : lexInt (renderDec (-9223372036854775808) ++ " or".toList) =
    .ok (-9223372036854775808, " or".toList) :=
  int_roundtrip_dec _ _ (by decide) (by decide) (by intro h; cases h)
example : rawBodyOk 2 "a\"#b\"".toList = true := by decide
example : rawBodyOk 2 "a\"##b".toList = false := by decide
example : escOk (.lit, 65) = true ∧ escOk (.lit, 200) = false ∧ escOk (.oct, 200) = true := by
  decide
example : TwoHex "+1".toList = false ∧ TwoHex "-1".toList = false ∧ TwoHex "1".toList = false ∧
    TwoHex "fF".toList = true := by decide
example : ThreeOct "400".toList = false ∧ ThreeOct "+77".toList = false ∧
    ThreeOct "377".toList = true := by decide
example : ∀ x ∈ [(':', (⟨false, true, 171⟩ : HexPair)), ('-', ⟨true, false, 0⟩)],
    isByteSep x.1 = true := by decide
example : headNot isIpChar " }".toList = true := by decide
example : (167772161 : Nat) % 2 ^ (32 - 8) ≠ 0 := by decide   -- 10.0.0.1/8 has host bits
/-- every string has a permitted rendering as a key -/
example (cs : List Char) (rest : Input) :
    lexFieldIndex (['"'] ++ renderQuoted (hexItems (utf8s cs)) ++ ['"'] ++ rest) = .ok (.key cs, rest) :=
  key_roundtrip cs _ rest (hexItems_ok _) (hexItems_bytes _)
/-- a byte string that no key encodes to: a continuation byte in lead position -/
example : ∀ cs, utf8s cs ≠ (hexItems [0x80]).map (·.2) := by
  intro cs h
  have := (utf8Decode_eq_some_iff _ _).mpr h
  rw [hexItems_bytes, utf8Decode_invalid_lead 0x80 [] (by decide)] at this
  cases this

end WfModel.C06
