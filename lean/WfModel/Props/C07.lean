import WfModel.Lemmas.C07
import WfModel.Generated

/-!
# C07 — the AST and its JSON are a canonical image of filter structure

Property theorems only.  Model: `Model/Lex.lean` (`lexEnum`, `skipSpace`), `Model/Parse.lean`
(the `lex_enum!` tables `logicalOps`, `unaryOps`, `quantOps`, `orderingOps`, `comparisonOps`,
`lexCombiningOp`), `Model/Json.lean` (`lexprJ` … = the `Serialize` impls, `fnv1a64`).
Definitions used in the statements (`norm`, `stripParens`, `okL`, `SameLitKinds`,
`NamesDistinct`, `V6InjOn`) are in `Lemmas/C07/Defs.lean`.

Three groups:
* **aliases** — which variant each spelling of each table lexes to, for *every* continuation
  of the input, including the order hazards of the tables;
* **layout** — `skip_space` and the operator lookahead do not depend on the particular spaces;
* **JSON** — parentheses are transparent, chains are one node, the document is a function of
  `norm` (the AST minus parentheses and minus what the serializers deliberately drop) and is
  *injective* on `norm` under explicit side conditions; the hash is a function of the text.
-/
namespace WfModel.C07

open WfModel WfModel.C07L

/-! ## 1. `lex_enum!` tables: aliases -/

/-- **alias_sound** (any table): whatever `lex_enum!`'s lexer returns is a table entry, and the
consumed text is exactly that entry's spelling. -/
theorem alias_sound {α} (tbl : List (String × α)) (input rest : Input) (v : α)
    (h : lexEnum tbl input = some (v, rest)) :
    ∃ sp, (sp, v) ∈ tbl ∧ input = sp.toList ++ rest :=
  lexEnum_sound h

/-- **alias_complete** (any table): an entry lexes to its own variant, leaving exactly `rest`,
unless an *earlier* entry's spelling is a prefix of the input. -/
theorem alias_complete {α} (pre : List (String × α)) (sp : String) (v : α)
    (post : List (String × α)) (rest : Input)
    (h : ∀ e ∈ pre, ¬ e.1.toList <+: sp.toList ++ rest) :
    lexEnum (pre ++ (sp, v) :: post) (sp.toList ++ rest) = some (v, rest) :=
  lexEnum_complete pre sp v post rest h

/-- Exact characterisation (any table): the result is the *first* entry, in table order, whose
spelling is a prefix of the input. -/
theorem alias_first_match {α} (tbl : List (String × α)) (input rest : Input) (v : α) :
    lexEnum tbl input = some (v, rest) ↔
      ∃ pre sp post, tbl = pre ++ (sp, v) :: post ∧ input = sp.toList ++ rest ∧
        ∀ e ∈ pre, ¬ e.1.toList <+: input :=
  lexEnum_eq_some tbl input v rest

/-- … and it fails iff no spelling is a prefix of the input. -/
theorem alias_none {α} (tbl : List (String × α)) (input : Input) :
    lexEnum tbl input = none ↔ ∀ e ∈ tbl, ¬ e.1.toList <+: input :=
  lexEnum_eq_none tbl input

/-- `LogicalOp` (`or`/`||`, `xor`/`^^`, `and`/`&&`): no order hazard — every spelling lexes to
its variant for every continuation. -/
theorem alias_complete_logical : ∀ e ∈ logicalOps, ∀ rest : Input,
    lexEnum logicalOps (e.1.toList ++ rest) = some (e.2, rest) :=
  logicalOps_complete

/-- `UnaryOp` (`not`/`!`): no order hazard. -/
theorem alias_complete_unary : ∀ e ∈ unaryOps, ∀ rest : Input,
    lexEnum unaryOps (e.1.toList ++ rest) = some (e.2, rest) :=
  unaryOps_complete

/-- `QuantifierOp` (`any`, `all`): no order hazard. -/
theorem alias_complete_quant : ∀ e ∈ quantOps, ∀ rest : Input,
    lexEnum quantOps (e.1.toList ++ rest) = some (e.2, rest) :=
  quantOps_complete

/-- `OrderingOp`: every spelling lexes to its variant for every continuation, with one
exception that is inherent to the table order: `>` / `<` immediately followed by `=` is the
earlier entry `>=` / `<=` (see `ordering_gt_eq_is_ge`). -/
theorem alias_complete_ordering : ∀ e ∈ orderingOps, ∀ rest : Input,
    ((e.1 = ">" ∨ e.1 = "<") → rest.head? ≠ some '=') →
    lexEnum orderingOps (e.1.toList ++ rest) = some (e.2, rest) :=
  orderingOps_complete

/-- `ComparisonOp` (`in`, then `OrderingOp`, `IntOp`, `BytesOp` in source order — twenty
spellings): the same single exception; in particular `in`, `&`, `~`, `matches`, `wildcard`,
`strict wildcard` are never shadowed. -/
theorem alias_complete_comparison : ∀ e ∈ comparisonOps, ∀ rest : Input,
    ((e.1 = ">" ∨ e.1 = "<") → rest.head? ≠ some '=') →
    lexEnum comparisonOps (e.1.toList ++ rest) = some (e.2, rest) :=
  comparisonOps_complete

/-- the hazard, resolved by the source order: `>=` is `GreaterThanEqual`, `<=` is
`LessThanEqual`, never `>`/`<` followed by a stray `=`. -/
theorem ordering_gt_eq_is_ge (r : Input) :
    lexEnum orderingOps (">".toList ++ '=' :: r) = some (.ge, r) ∧
    lexEnum orderingOps ("<".toList ++ '=' :: r) = some (.le, r) ∧
    lexEnum comparisonOps (">".toList ++ '=' :: r) = some (.ord .ge, r) ∧
    lexEnum comparisonOps ("<".toList ++ '=' :: r) = some (.ord .le, r) := by
  simp [comparisonOps_eq, orderingOps, lexEnum, expect, stripPrefix]

/-- aliases of one logical operator give the same variant and the same rest -/
theorem alias_same_variant_logical (r : Input) :
    (lexEnum logicalOps ("and".toList ++ r) = some (.and, r) ∧
     lexEnum logicalOps ("&&".toList ++ r) = some (.and, r)) ∧
    (lexEnum logicalOps ("or".toList ++ r) = some (.or, r) ∧
     lexEnum logicalOps ("||".toList ++ r) = some (.or, r)) ∧
    (lexEnum logicalOps ("xor".toList ++ r) = some (.xor, r) ∧
     lexEnum logicalOps ("^^".toList ++ r) = some (.xor, r)) := by
  simp [logicalOps, lexEnum, expect, stripPrefix]

/-- `not` / `!` -/
theorem alias_same_variant_unary (r : Input) :
    lexEnum unaryOps ("not".toList ++ r) = some ((), r) ∧
    lexEnum unaryOps ("!".toList ++ r) = some ((), r) := by
  simp [unaryOps, lexEnum, expect, stripPrefix]

/-- `eq`/`==`, `ne`/`!=`, `ge`/`>=`, `le`/`<=` for every continuation; `gt`/`>` and `lt`/`<`
for every continuation not starting with `=` (the word forms `gt`, `lt` need no condition).
Stated on `ComparisonOp`, the table the parser uses after a left-hand side. -/
theorem alias_same_variant_comparison (r : Input) :
    (lexEnum comparisonOps ("eq".toList ++ r) = some (.ord .eq, r) ∧
     lexEnum comparisonOps ("==".toList ++ r) = some (.ord .eq, r)) ∧
    (lexEnum comparisonOps ("ne".toList ++ r) = some (.ord .ne, r) ∧
     lexEnum comparisonOps ("!=".toList ++ r) = some (.ord .ne, r)) ∧
    (lexEnum comparisonOps ("ge".toList ++ r) = some (.ord .ge, r) ∧
     lexEnum comparisonOps (">=".toList ++ r) = some (.ord .ge, r)) ∧
    (lexEnum comparisonOps ("le".toList ++ r) = some (.ord .le, r) ∧
     lexEnum comparisonOps ("<=".toList ++ r) = some (.ord .le, r)) ∧
    (lexEnum comparisonOps ("gt".toList ++ r) = some (.ord .gt, r) ∧
     (r.head? ≠ some '=' → lexEnum comparisonOps (">".toList ++ r) = some (.ord .gt, r))) ∧
    (lexEnum comparisonOps ("lt".toList ++ r) = some (.ord .lt, r) ∧
     (r.head? ≠ some '=' → lexEnum comparisonOps ("<".toList ++ r) = some (.ord .lt, r))) ∧
    (lexEnum comparisonOps ("matches".toList ++ r) = some (.matches_, r) ∧
     lexEnum comparisonOps ("~".toList ++ r) = some (.matches_, r)) ∧
    (lexEnum comparisonOps ("bitwise_and".toList ++ r) = some (.bitAnd, r) ∧
     lexEnum comparisonOps ("&".toList ++ r) = some (.bitAnd, r)) := by
  have h := comparisonOps_complete
  simp only [comparisonOps_eq, List.mem_cons, List.not_mem_nil, or_false, forall_eq_or_imp,
    forall_eq] at h
  obtain ⟨_, h1, h2, h3, h4, h5, h6, h7, h8, h9, h10, h11, h12, h13, h14, _, h16, h17, _, _⟩ := h
  refine ⟨⟨h1 r (by simp), h2 r (by simp)⟩, ⟨h3 r (by simp), h4 r (by simp)⟩,
    ⟨h5 r (by simp), h6 r (by simp)⟩, ⟨h7 r (by simp), h8 r (by simp)⟩,
    ⟨h9 r (by simp), fun hr => h10 r (fun _ => hr)⟩,
    ⟨h11 r (by simp), fun hr => h12 r (fun _ => hr)⟩,
    ⟨h17 r (by simp), h16 r (by simp)⟩, ⟨h14 r (by simp), h13 r (by simp)⟩⟩

/-- the same on `OrderingOp` alone -/
theorem alias_same_variant_ordering (r : Input) :
    (lexEnum orderingOps ("eq".toList ++ r) = some (.eq, r) ∧
     lexEnum orderingOps ("==".toList ++ r) = some (.eq, r)) ∧
    (lexEnum orderingOps ("ne".toList ++ r) = some (.ne, r) ∧
     lexEnum orderingOps ("!=".toList ++ r) = some (.ne, r)) ∧
    (lexEnum orderingOps ("ge".toList ++ r) = some (.ge, r) ∧
     lexEnum orderingOps (">=".toList ++ r) = some (.ge, r)) ∧
    (lexEnum orderingOps ("le".toList ++ r) = some (.le, r) ∧
     lexEnum orderingOps ("<=".toList ++ r) = some (.le, r)) ∧
    (lexEnum orderingOps ("gt".toList ++ r) = some (.gt, r) ∧
     (r.head? ≠ some '=' → lexEnum orderingOps (">".toList ++ r) = some (.gt, r))) ∧
    (lexEnum orderingOps ("lt".toList ++ r) = some (.lt, r) ∧
     (r.head? ≠ some '=' → lexEnum orderingOps ("<".toList ++ r) = some (.lt, r))) := by
  have h := orderingOps_complete
  simp only [orderingOps, List.mem_cons, List.not_mem_nil, or_false, forall_eq_or_imp,
    forall_eq] at h
  obtain ⟨h1, h2, h3, h4, h5, h6, h7, h8, h9, h10, h11, h12⟩ := h
  exact ⟨⟨h1 r (by simp), h2 r (by simp)⟩, ⟨h3 r (by simp), h4 r (by simp)⟩,
    ⟨h5 r (by simp), h6 r (by simp)⟩, ⟨h7 r (by simp), h8 r (by simp)⟩,
    ⟨h9 r (by simp), fun hr => h10 r (fun _ => hr)⟩,
    ⟨h11 r (by simp), fun hr => h12 r (fun _ => hr)⟩⟩

/-- `&&` vs `&` and `!=` vs `!` live in different tables; which one applies is decided by the
parser position, not by table order: after a left-hand side `&&` is `&` followed by `&`, at an
expression start `!=` is `!` followed by `=`. -/
example (r : Input) :
    lexEnum comparisonOps ("&&".toList ++ r) = some (.bitAnd, '&' :: r) ∧
    lexEnum unaryOps ("!=".toList ++ r) = some ((), '=' :: r) := by
  simp [comparisonOps_eq, unaryOps, lexEnum, expect, stripPrefix]

/-- keywords are prefix-matched: `orx` lexes as `or` followed by `x` -/
example : lexEnum logicalOps "orx".toList = some (.or, ['x']) := by
  simp [logicalOps, lexEnum, expect, stripPrefix]

/-! ## 2. layout -/

/-- `skip_space` trims exactly the characters of `SPACE_CHARS` extracted from `lex.rs`. -/
theorem space_chars_pinned (c : Char) : isSpace c = true ↔ c ∈ Generated.c07SpaceChars := by
  simp [isSpace, Generated.c07SpaceChars, or_assoc]

/-- **skip_space_layout**: leading layout of any length and composition is invisible. -/
theorem skip_space_layout (ws s : Input) (h : ∀ c ∈ ws, isSpace c = true) :
    skipSpace (ws ++ s) = skipSpace s :=
  skipSpace_append_spaces ws s h

theorem skipSpace_idempotent (s : Input) : skipSpace (skipSpace s) = skipSpace s :=
  skipSpace_idem s

/-- `skip_space` removes only layout, and all of it: the input is `ws ++ skipSpace s` with `ws`
made of space characters, and the result does not start with one. -/
theorem skipSpace_exact (s : Input) :
    (∃ ws, s = ws ++ skipSpace s ∧ ∀ c ∈ ws, isSpace c = true) ∧
    ∀ c, (skipSpace s).head? = some c → isSpace c = false :=
  ⟨skipSpace_spec s, skipSpace_head s⟩

/-- **lexCombiningOp_layout**: the operator lookahead of the precedence climber, on
`ws₁ op ws₂ s` (`s` not starting with a space), returns the variant and `s` — it depends
neither on the spaces nor on the spelling.  (`logicalOps` has no order hazard, so there is no
condition on `s` beyond not starting with a space; `s` may even continue the keyword,
e.g. `orx`.) -/
theorem lexCombiningOp_layout (sp : String) (op : LogicalOp) (hmem : (sp, op) ∈ logicalOps)
    (ws₁ ws₂ s : Input) (h₁ : ∀ c ∈ ws₁, isSpace c = true) (h₂ : ∀ c ∈ ws₂, isSpace c = true)
    (hs : ∀ c, s.head? = some c → isSpace c = false) :
    lexCombiningOp (ws₁ ++ sp.toList ++ ws₂ ++ s) = (some op, s) :=
  C07L.lexCombiningOp_layout sp op hmem ws₁ ws₂ s h₁ h₂ hs

/-- two spellings of the same operator in two different layouts give the same lookahead -/
theorem lexCombiningOp_alias_layout (sp sp' : String) (op : LogicalOp)
    (hmem : (sp, op) ∈ logicalOps) (hmem' : (sp', op) ∈ logicalOps)
    (ws₁ ws₂ ws₁' ws₂' s : Input)
    (h₁ : ∀ c ∈ ws₁, isSpace c = true) (h₂ : ∀ c ∈ ws₂, isSpace c = true)
    (h₁' : ∀ c ∈ ws₁', isSpace c = true) (h₂' : ∀ c ∈ ws₂', isSpace c = true)
    (hs : ∀ c, s.head? = some c → isSpace c = false) :
    lexCombiningOp (ws₁ ++ sp.toList ++ ws₂ ++ s) =
      lexCombiningOp (ws₁' ++ sp'.toList ++ ws₂' ++ s) := by
  rw [C07L.lexCombiningOp_layout sp op hmem ws₁ ws₂ s h₁ h₂ hs,
    C07L.lexCombiningOp_layout sp' op hmem' ws₁' ws₂' s h₁' h₂' hs]

example : lexCombiningOp " \r\n&&\n\n x".toList = lexCombiningOp "and x".toList := by
  simp [lexCombiningOp, skipSpace, isSpace, logicalOps, lexEnum, expect, stripPrefix]

/-! ## 3. the JSON document -/

/-- **paren_transparent**: parentheses are visible only as nesting. -/
theorem paren_transparent (s : Scheme) (e : LExpr) : lexprJ s (.paren e) = lexprJ s e := by
  simp only [lexprJ]

/-- **flatten_visible**: a same-operator chain is ONE node carrying all its operands … -/
theorem flatten_visible (s : Scheme) (op : LogicalOp) (xs : List LExpr) :
    lexprJ s (.combining op xs) =
      .obj [("op", .str op.name), ("items", .arr (lexprsJ s xs))] := by
  simp only [lexprJ]

/-- … one JSON item per operand. -/
theorem flatten_items_length (s : Scheme) (xs : List LExpr) :
    (lexprsJ s xs).length = xs.length :=
  lexprsJ_length s xs

/-- **json_deterministic**: true by construction — the document is a *function* of the scheme
names and the AST (no state, no address, no iteration over a hash map), so re-serialising
gives the same document and the same text.  Stated as the (trivial) congruence. -/
theorem json_deterministic (s : Scheme) (a b : LExpr) (h : a = b) :
    lexprJ s a = lexprJ s b ∧ astJsonText s a = astJsonText s b := by
  subst h; exact ⟨rfl, rfl⟩

/-- The JSON does not show what `norm` forgets: parentheses, the format of a byte literal
among forms that print alike (quoted/raw; byte-form when not UTF-8), the regex literal
format, the per-call context, the list index of `in $name`. -/
theorem json_norm_invariant (s : Scheme) (e : LExpr) : lexprJ s (norm e) = lexprJ s e :=
  lexprJ_norm s e

theorem json_stripParens_invariant (s : Scheme) (e : LExpr) :
    lexprJ s (stripParens e) = lexprJ s e :=
  lexprJ_strip s e

/-- `stripParens` and `norm` produce parenthesis-free trees, and `norm` factors through
`stripParens`. -/
theorem stripParens_spec (e : LExpr) :
    noParens (stripParens e) = true ∧ noParens (norm e) = true ∧
      norm (stripParens e) = norm e :=
  ⟨noParens_strip e, noParens_norm e, norm_strip e⟩

/-- operator names are injective … -/
theorem op_name_injective :
    (∀ a b : LogicalOp, a.name = b.name → a = b) ∧
    (∀ a b : OrdOp, a.name = b.name → a = b) ∧
    (∀ a b : QOp, a.name = b.name → a = b) :=
  ⟨fun _ _ => logicalName_inj, fun _ _ => ordName_inj, fun _ _ => qName_inj⟩

/-- … the node heads `Not` / `Any` / `All` / `Or` / `Xor` / `And` are pairwise distinct, and the
`"op"` strings of comparison nodes determine the constructor (`opTag`). -/
theorem node_heads_distinct :
    (∀ (o : LogicalOp) (q : QOp), o.name ≠ "Not" ∧ q.name ≠ "Not" ∧ o.name ≠ q.name) ∧
    (∀ o o' : CmpOp, (cmpOpFields o).head? = (cmpOpFields o').head? → opTag o = opTag o') := by
  refine ⟨fun o q => ?_, fun o o' h => ?_⟩
  · cases o <;> cases q <;> simp [LogicalOp.name, QOp.name]
  · rw [cmpOpFields_head, cmpOpFields_head] at h
    exact opName_tag (by simpa using h)

/-- **json_injective_on** — general form.  Two ASTs with the same JSON document have the same
`norm`, i.e. they differ at most in parentheses and in what the serializers deliberately do
not show.  Side conditions, all explicit:
1. `NamesDistinct s`: field names pairwise distinct, function names pairwise distinct
   (`SchemeBuilder` guarantees it);
2. `okL S s a`, `okL S s b`: field / function indices are in range for `s` (out of range the
   model prints `"?"`), IPv4 values are `< 2^32`, IPv6 values lie in `S`;
3. `SameLitKinds a b`: literals at corresponding positions have the same kind — in the
   engine the kind is fixed by the (equal) left-hand side / parameter type, and the JSON does
   not record it (`1.2.3.4` vs `"1.2.3.4"`; `in {}` prints `[]` for every type);
4. `V6InjOn S`: the IPv6 printer is injective on `S` (proved for `S = in128`, all 128-bit
   values: `v6Str_injective`).
-/
theorem json_injective_on (S : Nat → Bool) (h6 : V6InjOn S) (s : Scheme)
    (hs : NamesDistinct s) (a b : LExpr) (ha : okL S s a = true) (hb : okL S s b = true)
    (hk : SameLitKinds a b) (h : lexprJ s a = lexprJ s b) : norm a = norm b :=
  injL s hs h6 a b ha hb hk h

/-- Side condition (4) holds for all 128-bit values: the parser model reads the printed text
back (`parseIpAddr (v6Str a) = v6 a`, proved in `Lemmas/C06V6.lean` for the `::`-compressed,
IPv4-mapped and plain forms), so the IPv6 printer is injective. -/
theorem v6Str_injective : V6StrInjective := v6StrInjective

/-- **json_injective**: for all ASTs whose IP literals are in range (`okL in128`), under the
side conditions (1)–(3) of `json_injective_on`; (4) is discharged by `v6Str_injective`.
Contrapositive: structurally different filters (`norm a ≠ norm b`) serialize differently. -/
theorem json_injective (s : Scheme) (hs : NamesDistinct s)
    (a b : LExpr) (ha : okL in128 s a = true) (hb : okL in128 s b = true)
    (hk : SameLitKinds a b) (h : lexprJ s a = lexprJ s b) : norm a = norm b :=
  injL s hs v6StrInjective a b ha hb hk h

/-- **json_injective_noV6**: the special case without IPv6 literals (`okL noV6` rejects them),
which does not depend on `v6Str_injective`; everything else (names, integers, IPv4 addresses,
CIDRs, UTF-8 / byte-array literals, indexes, operators, shapes) is proved. -/
theorem json_injective_noV6 (s : Scheme) (hs : NamesDistinct s)
    (a b : LExpr) (ha : okL noV6 s a = true) (hb : okL noV6 s b = true)
    (hk : SameLitKinds a b) (h : lexprJ s a = lexprJ s b) : norm a = norm b :=
  injL s hs V6InjOn_noV6 a b ha hb hk h

/-- Exact characterisation: under the side conditions, equal JSON ⇔ equal `norm`. -/
theorem json_eq_iff_norm_eq (S : Nat → Bool) (h6 : V6InjOn S) (s : Scheme)
    (hs : NamesDistinct s) (a b : LExpr) (ha : okL S s a = true) (hb : okL S s b = true)
    (hk : SameLitKinds a b) : lexprJ s a = lexprJ s b ↔ norm a = norm b :=
  ⟨injL s hs h6 a b ha hb hk, fun h => by
    rw [← lexprJ_norm s a, ← lexprJ_norm s b, h]⟩

/-- the other printing facts used: IPv4 printing is injective on 32-bit values, an IPv4 text
is never an IPv6 text, and the strict UTF-8 decoder is injective. -/
theorem print_injective_proved :
    (∀ a b : Nat, a < 4294967296 → b < 4294967296 → v4Str a = v4Str b → a = b) ∧
    (∀ a b : Nat, v4Str a ≠ v6Str b) ∧
    (∀ (d d' : Bytes) (cs : List Char), utf8Decode d = some cs → utf8Decode d' = some cs →
      d = d') :=
  ⟨fun _ _ ha hb h => v4Str_inj ha hb h, v4Str_ne_v6Str, fun _ _ _ h h' => utf8Decode_inj h h'⟩

/-! ### the hash -/

/-- **hash_congr**: `wirefilter_get_filter_hash` is FNV-1a (64 bit) of the UTF-8 bytes of the
JSON text (as the driver computes it), hence a function of the text. -/
theorem hash_congr (s : Scheme) (a b : LExpr) (h : astJsonText s a = astJsonText s b) :
    fnv1a64 (astJsonText s a).toUTF8.toList = fnv1a64 (astJsonText s b).toUTF8.toList := by
  rw [h]

/-- equal `norm` (in particular equal ASTs, or ASTs differing only in parentheses or in
alias/layout choices, which do not reach the AST at all) ⇒ equal text ⇒ equal hash -/
theorem hash_of_norm_eq (s : Scheme) (a b : LExpr) (h : norm a = norm b) :
    astJsonText s a = astJsonText s b ∧
    fnv1a64 (astJsonText s a).toUTF8.toList = fnv1a64 (astJsonText s b).toUTF8.toList := by
  have : lexprJ s a = lexprJ s b := by rw [← lexprJ_norm s a, ← lexprJ_norm s b, h]
  simp only [astJsonText, this, and_self]

/-! ### tie to the serializers in `field_expr.rs` -/

/-- The `"op"` strings of the hand-written serializers, extracted with their variant names
from the source in source order, are exactly the model's, constructor by constructor.  The one
extracted variant without a model constructor is `ContainsOneOf`, which no parser path
constructs (`field_expr.rs` only serializes / compiles it). -/
theorem serializer_ops_pinned :
    Generated.c07SerializerOps.filter (fun p => p.1 != "ContainsOneOf") = modelSerializerOps ∧
    ("ContainsOneOf", "ContainsOneOf") ∈ Generated.c07SerializerOps := by
  decide

/-- the op string printed for a constructor does not depend on its arguments (so the list in
`serializer_ops_pinned`, built from default arguments, covers all nodes), and is the first
entry after `"lhs"`; the keys are `op` (+ `rhs` except for `IsTrue`), as in the extracted
struct-like variants `Ordering {op, rhs}` / `Int {op, rhs}` and in `serialize_op_rhs`. -/
theorem cmp_op_document_shape :
    (∀ o : CmpOp, (cmpOpFields o).head? = some ("op", .str (opName o))) ∧
    (∀ o o' : CmpOp, opTag o = opTag o' → opTag o ≠ 1 → opName o = opName o') ∧
    (∀ o : CmpOp, (cmpOpFields o).map Prod.fst = if opTag o = 0 then ["op"] else ["op", "rhs"]) ∧
    Generated.c07StructVariants.map (fun v => (v.1, v.2.map Prod.fst)) =
      [("Ordering", ["op", "rhs"]), ("Int", ["op", "rhs"])] ∧
    "Serialize" ∈ Generated.c07LexEnumDerives :=
  ⟨cmpOpFields_head, fun _ _ h h1 => opName_of_tag h h1, cmpOpFields_keys, by decide, by decide⟩

/-! ### a concrete instance: the hypotheses are satisfiable and the theorem bites -/

section Example

-- `exScheme`, `exA`, `exB` are defined in `Lemmas/C07.lean`:
-- `(ip.src == 1.2.3.4) && !(lower(name) contains r#"x"#) && n in {1..5}` with a call context
-- vs `ip.src eq 1.2.3.4 and not lower(name) contains "x" and n in {1..5}`.

example : NamesDistinct exScheme := by decide
example : okL noV6 exScheme exA = true ∧ okL noV6 exScheme exB = true := by decide
example : SameLitKinds exA exB := by decide +kernel
example : exA ≠ exB := by simp [exA, exB]
example : lexprJ exScheme exA = lexprJ exScheme exB := by rfl

/-- `json_injective_noV6` applied: the two differ only in parentheses, alias-independent
content, raw vs quoted literal format and the call context -/
example : norm exA = norm exB :=
  json_injective_noV6 exScheme (by decide) exA exB (by decide) (by decide) (by decide +kernel)
    (by rfl)

/-- without side condition (3) the statement is false: an address and a string that print
alike -/
example :
    lexprJ exScheme (.comparison (.field 0 []) (.ordering .eq (.ip (.v4 16909060)))) =
    lexprJ exScheme (.comparison (.field 0 [])
      (.ordering .eq (.bytes ⟨.quoted, [49, 46, 50, 46, 51, 46, 52]⟩))) := by
  rfl

/-- … and so do the empty sets of every type -/
example :
    lexprJ exScheme (.comparison (.field 2 []) (.oneOf (.int []))) =
    lexprJ exScheme (.comparison (.field 2 []) (.oneOf (.bytes []))) := by
  rfl

end Example

end WfModel.C07
