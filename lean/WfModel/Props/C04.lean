import WfModel.Lemmas.C04Eval
import WfModel.Lemmas.C04Extract
import WfModel.Lemmas.C04Example

/-!
# C04 — parsing accepts exactly the well-typed filters; accepted ones never fail later

Property theorems only.  Model: `Model/Parse.lean` (every `lex_with` of `engine/src/ast/*.rs`
with its type checks), `Model/Eval.lean` (every `compile_with_compiler` + `execute`, each
`unreachable!()/unwrap()/cast_value!/assert!` an explicit `Stuck` outcome).
Specification: `Spec.allowed`, `Spec.indexRule`, `Spec.logicalRule` (Lemmas/C04Matrix) and the
declarative judgment `Spec.WT/WTI/WTA/WTQ/WTArgs/WTItems` (Lemmas/C04WT), written from the
documented rules.

Implementation quirks the judgment mirrors (each noted at its rule in Lemmas/C04WT):
`IsTrue` is admitted on `Map(Bool)` and typed `Map(Bool)`; a call / quantifier argument
`x[*]…` is typed by its element type (a quantifier index argument may not contain `[*]`).
-/
namespace WfModel.C04
open WfModel WfModel.Spec

/-! ## 1. the finite typing matrices -/

/-- **Operator admissibility.** The (lhs type, operator) decision the model's
`lex_with_lhs` makes (`cmpWithLhs_decision`) is the documented table, for every type head and
every operator. -/
theorem admissible_matrix (t : Ty) (op : CompOp) : admits t op = Spec.allowed t op :=
  admits_eq_allowed t op

/-- `admits` *is* the decision of `cmpWithLhs`: the function is equal to its refactoring
through `admits` (bare-`IsTrue` guards first, then `UnsupportedOp` iff `¬ admits`). -/
theorem cmpWithLhs_decision (env : PEnv) (lhs : IExpr) (t : Ty) (input : Input) :
    cmpWithLhs env lhs t input = cmpWithLhs' env lhs t input :=
  cmpWithLhs_factored env lhs t input

/-- Rejection side: an operator that lexes and is not allowed for the lhs type yields
`UnsupportedOp` spanning the operator. -/
theorem admissible_reject (env : PEnv) (lhs : IExpr) (t : Ty) (input afterOp : Input)
    (op : CompOp) (hT : isTrueLhs t = false)
    (hlex : lexEnum comparisonOps (skipSpace input) = some (op, afterOp))
    (hna : Spec.allowed t op = false) :
    cmpWithLhs env lhs t input = errSpan .unsupportedOp (skipSpace input) afterOp :=
  cmpWithLhs_unsupported env lhs t input afterOp op hT hlex hna

/-- Acceptance side: a comparison node is produced only for a bare `Bool` / container-of-`Bool`
lhs (no operator consumed), or through an allowed cell of the table. -/
theorem admissible_accept (env : PEnv) (lhs : IExpr) (t : Ty) (input rest : Input)
    (e : Typed LExpr) (h : cmpWithLhs env lhs t input = .ok (e, rest)) :
    (isTrueLhs t = true ∧ e.node = .comparison lhs .isTrue ∧ rest = input) ∨
    (isTrueLhs t = false ∧ ∃ op afterOp,
      lexEnum comparisonOps (skipSpace input) = some (op, afterOp) ∧ Spec.allowed t op = true) :=
  cmpWithLhs_ok_allowed env lhs t input rest e h

/-- `Bool` and containers of `Bool` take no operator at all. -/
theorem bool_lhs_no_operator (t : Ty) (op : CompOp) (h : isTrueLhs t = true) :
    Spec.allowed t op = false :=
  isTrueLhs_not_allowed t op h

/-- **Index typing**: 3 index kinds × 6 type heads. -/
theorem index_matrix (t : Ty) (ix : FieldIndex) (t' : Ty) :
    indexStep t ix = some t' ↔ Spec.indexRule t ix t' :=
  WfModel.index_matrix t ix t'

/-- **Logical operands**: both plain booleans or both arrays. -/
theorem logical_matrix (l r : Ty) : logicalTypesOk l r = true ↔ Spec.logicalRule l r :=
  WfModel.logical_matrix l r

/-- **Quantifier argument**: `any(…)`/`all(…)` accept only an argument of type `Array(Bool)`
that is an index expression without `[*]` or a logical expression. -/
theorem quantifier_arg (env : PEnv) (lower : Option Level) (inp rest : Input) (q : QArg)
    (h : quantArgL env lower inp = .ok (q, rest)) :
    ∃ a, argL env lower inp = .ok (a, rest) ∧ a.ty = .array .bool ∧
      ((∃ e, a.node = .index e ∧ q = .index e ∧ mapEachCount e.indexes = 0) ∨
       (∃ e, a.node = .logical e ∧ q = .logical e)) :=
  quantArgL_accepts_only_bool_array h

/-! ## 5. translator tie: the arms of `match (&lhs_type, op)` in `lex_with_lhs` -/

/-- Every allowed (type, operator) cell is an arm of the Rust match, and every arm is an
allowed cell. -/
theorem cmpArms_exact (t : Ty) (op : CompOp) :
    Spec.allowed t op = true ↔ (tyName t, classOf op) ∈ Generated.cmpArms :=
  WfModel.cmpArms_exact t op

theorem cmpArms_real : ∀ p ∈ Generated.cmpArms,
    ∃ t op, p = (tyName t, classOf op) ∧ Spec.allowed t op = true :=
  WfModel.cmpArms_real

theorem cmpBytesOps_exact (op : CompOp) :
    classOf op = "Bytes" ↔ ∃ n, bytesOpName op = some n ∧ n ∈ Generated.cmpBytesOps :=
  WfModel.cmpBytesOps_exact op

/-- the fallback arm is `UnsupportedOp`, and the `IsTrue` guards are in place -/
theorem cmp_fallback_and_guards :
    Generated.cmpFallback = "UnsupportedOp" ∧ Generated.cmpIsTrueGuards = [true, true, true] :=
  ⟨rfl, rfl⟩

/-! ## 3. parse soundness -/

/-- **Every entry point of every nesting level** returns nodes derivable in the declarative
judgment at the type it reports. -/
theorem parse_sound (env : PEnv) (n : Nat) : LevelOk env (level env n) :=
  level_ok env n

/-- … in particular `LogicalExpr::lex_with`; the reported type is the one `get_type`
recomputes from the node. -/
theorem parse_sound_logical (env : PEnv) (n : Nat) (input rest : Input) (e : Typed LExpr)
    (h : (level env n).logical input = .ok (e, rest)) :
    WT env.scheme e.node e.ty ∧ tyL env.scheme e.node = e.ty :=
  have hw := (level_ok env n).logical _ _ _ h
  ⟨hw, WT.tyL_eq _ hw⟩

/-- `FilterParser::parse`: an accepted filter is well-typed at `Bool`. -/
theorem parseFilter_sound (env : PEnv) (src : Input) (e : LExpr)
    (h : parseFilter env src = .ok e) : WT env.scheme e .bool :=
  WfModel.parseFilter_sound h

/-- `FilterParser::parse_value`: an accepted value expression is well-typed at the reported
type, the reported type is its `get_type`, and it contains no `[*]`. -/
theorem parseValue_sound (env : PEnv) (src : Input) (e : Typed IExpr)
    (h : parseValue env src = .ok e) :
    WTI env.scheme e.node e.ty ∧ tyI env.scheme e.node = e.ty ∧
      mapEachCount e.node.indexes = 0 :=
  have hw := WfModel.parseValue_sound h
  ⟨hw.1, WTI.tyI_eq _ hw.1, hw.2⟩

/-- well-typed logical expressions only have the types `Bool`, `Array(Bool)`, `Map(Bool)` -/
theorem wt_types (s : Scheme) (e : LExpr) (t : Ty) (h : WT s e t) :
    t = .bool ∨ t = .array .bool ∨ t = .map .bool :=
  WT.ty_shape e h

/-! ## 4. type soundness -/

/-- **Type soundness.** A well-typed expression evaluates on every admissible context
without reaching any `Stuck` site (`cast_value!`, `unreachable!()`, `unwrap()`, `assert!`,
and not the model's own fuel limit either): a `Bool`-typed expression yields one boolean,
an `Array(Bool)`/`Map(Bool)`-typed one a vector. -/
theorem type_soundness (s : Scheme) (c : Ctx) (hc : CtxOk s c) (hf : FuncsOk s) (e : LExpr)
    (t : Ty) (h : WT s e t) :
    ∃ r, evalL s c e = .ok r ∧ (t = .bool → ∃ b, r = .one b) ∧ (t ≠ .bool → ∃ bs, r = .vec bs) :=
  evalL_sound hc hf h

/-- Value expressions: a value of the static type (well-formed), or an absence tagged with
it. With `[*]` in the index list the value is the container of the elements. -/
theorem value_soundness (s : Scheme) (c : Ctx) (hc : CtxOk s c) (hf : FuncsOk s) (e : IExpr)
    (t : Ty) (h : WTI s e t) :
    ∃ r, evalI s c e = .ok r ∧ ValRes r (mapEachCount e.indexes) t :=
  evalI_sound hc hf h

/-- The map-each iterator on a typed value and a well-typed path terminates within its fuel
and yields values of the path's type. -/
theorem mapEach_typed (t tf : Ty) (ixs : List FieldIndex) (hi : IdxOk t ixs tf) (hne : ixs ≠ [])
    (v : Val) (hv : HasTy v t) :
    ∃ items, mapEachRun ixs v = .ok items ∧ ∀ x ∈ items, HasTy x tf :=
  mapEachRun_typed hi hne hv

/-- **Accepted filters never fail later**: parse ⇒ execute returns a boolean. -/
theorem accepted_filter_executes (env : PEnv) (src : Input) (e : LExpr) (c : Ctx)
    (hp : parseFilter env src = .ok e) (hc : CtxOk env.scheme c) (hf : FuncsOk env.scheme) :
    ∃ b, execFilter env.scheme c e = .ok b :=
  execFilter_sound hc hf (WfModel.parseFilter_sound hp)

/-- **Accepted value expressions** yield a well-formed value of their static type or an
absence tagged with that type. -/
theorem accepted_value_evaluates (env : PEnv) (src : Input) (e : Typed IExpr) (c : Ctx)
    (hp : parseValue env src = .ok e) (hc : CtxOk env.scheme c) (hf : FuncsOk env.scheme) :
    (∃ v, evalI env.scheme c e.node = .ok (.ok v) ∧ v.typeOf = e.ty ∧ v.wf = true) ∨
    evalI env.scheme c e.node = .ok (.error e.ty) := by
  obtain ⟨hw, hm⟩ := WfModel.parseValue_sound hp
  obtain ⟨r, hr, hv⟩ := evalI_sound hc hf hw
  cases r with
  | ok v =>
    simp only [ValRes, hm, if_true] at hv
    exact Or.inl ⟨v, hr, hv.1, hv.2⟩
  | error ty =>
    simp only [ValRes, hm, if_true] at hv
    subst hv
    exact Or.inr hr

/-! ## the hypotheses are satisfiable (instance: `Lemmas/C04Example`); the two former
counterexamples -/

example : CtxOk exScheme exCtx where
  mandatory := by
    intro f fd hf ho
    match f, hf with
    | 0, _ => exact ⟨_, rfl⟩
    | 1, hf => simp [exScheme] at hf; subst hf; simp at ho
    | 2, _ => exact ⟨_, rfl⟩
    | 3, _ => exact ⟨_, rfl⟩
    | n + 4, hf => simp [exScheme] at hf
  typed := by
    intro f v hf hv
    match f, hf, hv with
    | 0, _, hv => simp [exCtx] at hv; subst hv; exact ⟨rfl, rfl⟩
    | 1, _, hv => simp [exCtx] at hv
    | 2, _, hv => simp [exCtx] at hv; subst hv; exact ⟨rfl, rfl⟩
    | 3, _, hv => simp [exCtx] at hv; subst hv; exact ⟨rfl, rfl⟩
    | n + 4, hf, _ => simp [exScheme] at hf; omega
  lists := Nat.le_refl _

example : FuncsOk exScheme := by
  intro fn name ps os ret id h
  match fn, h with
  | 0, h =>
    simp only [exScheme, List.getElem?_cons_zero, Option.some.injEq, Prod.mk.injEq,
      FuncSig.simple.injEq] at h
    obtain ⟨_, rfl, rfl, rfl, rfl⟩ := h
    refine ⟨by simp, ?_⟩
    intro args hlen hargs
    match args, hlen with
    | [r], _ =>
      have := hargs 0 .field .bytes r rfl rfl
      cases r with
      | error e => exact ⟨none, rfl, fun v hv => by cases hv⟩
      | ok v =>
        obtain ⟨hw, hty | ⟨hm, _⟩⟩ := this
        · obtain ⟨b, rfl⟩ := HasTy.bytes_inv ⟨hty, hw⟩
          exact ⟨_, rfl, fun v hv => by injection hv with hv; subst hv; exact ⟨rfl, rfl⟩⟩
        · cases hm
  | 1, h => simp [exScheme] at h
  | n + 2, h => simp [exScheme] at h

/-- (A) `any(x[*])` over `x : Array(Array(Bool))` — formerly accepted (typed by the element
type) and stuck at `bool::try_from(..).unwrap()` — is rejected; `any(x[0])` is accepted. -/
theorem quantifier_each_arg_rejected :
    (match parseFilter exEnv "any(aab[*])".toList with | .ok _ => true | .error _ => false) = false ∧
    (match parseFilter exEnv "any(aab[0])".toList with | .ok _ => true | .error _ => false) = true := by
  decide

/-- (B) the map-each call on an empty array is typed by the function's return type:
`len(ay[*])` on `ay = []` is `Array(Int) []` (formerly `Array(Bytes) []`, which made
`concat(len(ay[*]), ai)` fail in `Array::try_from_vec(..).unwrap()`). -/
theorem mapped_call_empty_has_static_type :
    evalI exScheme exCtx (.call 0 [.index (.field 0 [.each])] none []) =
      .ok (.ok (.array .int [])) ∧
    tyI exScheme (.call 0 [.index (.field 0 [.each])] none []) = .array .int := by
  refine ⟨?_, rfl⟩
  unfold evalI
  rw [evalBase_call]
  simp [exScheme, evalA, evalI, evalBase, Ctx.fieldVal, exCtx, indexValue, mapEachCount, getNested,
    AExpr.mapEachCount, IExpr.indexes, evalAs, mappedResult, retOf]

end WfModel.C04
