import WfModel.Lemmas.C05

/-!
# C05 — parsing is total; every error is well-formed (model side; the property is claimed
partial: stack bytes, byte/char boundaries and allocation are seen only by the
correspondence run)

Property theorems only. Models: `Model/Lex.lean`, `Model/Lit.lean`, `Model/Parse.lean`
(total functions on `List Char`; termination kernel-checked; loops take fuel and return the
model-only error kind `outOfFuel` when it runs out), `Model/ParseErr.lean`
(`ParseError::new` / `Display`, generic in the unit type: bytes or characters).

Vocabulary (`Lemmas/Suffix.lean`, `Lemmas/C05Level.lean`):
`ErrOk i e` = `e.pos <:+ i ∧ e.len ≤ e.pos.length`;
`ResOk i r` = a returned rest is a suffix of `i`, a returned error is `ErrOk i`;
`NoFuel r` = the error kind is not `outOfFuel`;
`Good i r` = `ResOk` ∧ `NoFuel` ∧ a returned rest is strictly shorter than `i`.
-/
namespace WfModel.C05
open WfModel.ParseErr

/-! ### totality -/

/-- Every input yields an AST or an error (the model functions are total; the statement is
trivial by construction — the content is in the kernel-checked termination of every
definition in `Lex`, `Lit`, `Parse`). -/
theorem parse_total (env : PEnv) (src : Input) :
    (∃ e, parseFilter env src = .ok e) ∨ (∃ err, parseFilter env src = .error err) := by
  cases parseFilter env src with
  | ok e => exact Or.inl ⟨e, rfl⟩
  | error err => exact Or.inr ⟨err, rfl⟩

theorem parse_value_total (env : PEnv) (src : Input) :
    (∃ e, parseValue env src = .ok e) ∨ (∃ err, parseValue env src = .error err) := by
  cases parseValue env src with
  | ok e => exact Or.inl ⟨e, rfl⟩
  | error err => exact Or.inr ⟨err, rfl⟩

/-- **fuel_never_exhausted.** The loop fuel of the model (identifier, index, brace-list,
quoted-string, byte-string, argument and operator loops) always suffices: the model-only
error `outOfFuel` is unreachable from `parseFilter`, for every scheme, setting and input. -/
theorem fuel_never_exhausted (env : PEnv) (src : Input) (e : LexErr)
    (h : parseFilter env src = .error e) : e.kind ≠ .outOfFuel :=
  (parseFilter_error h).2

theorem fuel_never_exhausted_value (env : PEnv) (src : Input) (e : LexErr)
    (h : parseValue env src = .error e) : e.kind ≠ .outOfFuel :=
  (parseValue_error h).2

/-! ### rests are suffixes, spans are inside the input -/

/-- **rest_is_suffix, parser.** At every nesting budget, each of the four recursive entry
points returns a rest that is a *strictly shorter suffix* of its input, or an error whose
span lies inside its input and is not `outOfFuel`. (The strict decrease is what bounds the
Rust loops; the suffix property is what `span()` and the `&input[..]` slices rely on.) -/
theorem rest_is_suffix_level (env : PEnv) (n : Nat) : (level env n).Good :=
  level_good env n

theorem rest_is_suffix_logical (env : PEnv) (n : Nat) (i : Input) (e : Typed LExpr)
    (rest : Input) (h : (level env n).logical i = .ok (e, rest)) :
    (∃ pre, i = pre ++ rest) ∧ rest.length < i.length := by
  obtain ⟨⟨pre, hp⟩, hl⟩ := ((level_good env n).logical i).ok h
  exact ⟨⟨pre, hp.symm⟩, hl⟩

/-- **rest_is_suffix, literal lexers.** -/
theorem rest_is_suffix_literals (i : Input) :
    ResOk i (lexInt i) ∧ ResOk i (lexIntRange i) ∧ ResOk i (lexBytes i) ∧
    ResOk i (lexQuotedOrRaw i) ∧ ResOk i (lexQuoted i) ∧ ResOk i (lexRawStr i) ∧
    ResOk i (lexByteString i) ∧ ResOk i (lexIpAddr i) ∧ ResOk i (lexIpRange i) ∧
    ResOk i (lexListName i) ∧ ResOk i (lexFieldIndex i) :=
  ⟨lexInt_resOk i, lexIntRange_resOk i, lexBytes_resOk i, lexQuotedOrRaw_resOk i,
   lexQuoted_resOk i, lexRawStr_resOk i, lexByteString_resOk i, lexIpAddr_resOk i,
   lexIpRange_resOk i, lexListName_resOk i, lexFieldIndex_resOk i⟩

theorem rest_is_suffix_brace_lists (ty : Ty) (i : Input) (r : LexRes RhsVals)
    (h : lexRhsVals ty i = some r) : ResOk i r := lexRhsVals_resOk h

theorem rest_is_suffix_scanners (p : Char → Bool) (i : Input) (n : Nat) :
    ResOk i (takeWhile1 p i) ∧ ResOk i (take i n) ∧ skipSpace i <:+ i ∧
    (spanWhile p i).2 <:+ i :=
  ⟨takeWhile1_resOk p i, take_resOk i n, skipSpace_suffix i, spanWhile_suffix p i⟩

theorem rest_is_suffix_identifier_and_ops (env : PEnv) (s : Scheme) (i : Input) (f : Nat)
    (ty : Ty) (acc : List FieldIndex) (lhs : IExpr) :
    ResOk i (lexIdentifier s i) ∧ ResOk i (lexIndexes f i ty acc) ∧
    ResOk i (cmpWithLhs env lhs ty i) ∧ (lexCombiningOp i).2 <:+ i :=
  ⟨lexIdentifier_resOk s i, lexIndexes_resOk f i ty acc, cmpWithLhs_resOk env lhs ty i,
   lexCombiningOp_suffix i⟩

/-- The literal lexers' internal loops never run out of fuel either. -/
theorem literals_fuel (i : Input) :
    NoFuel (lexInt i) ∧ NoFuel (lexIntRange i) ∧ NoFuel (lexBytes i) ∧ NoFuel (lexIpAddr i) ∧
    NoFuel (lexIpRange i) ∧ NoFuel (lexListName i) ∧ NoFuel (lexFieldIndex i) :=
  ⟨lexInt_noFuel i, lexIntRange_noFuel i, lexBytes_noFuel i, lexIpAddr_noFuel i,
   lexIpRange_noFuel i, lexListName_noFuel i, lexFieldIndex_noFuel i⟩

/-- **error_span_in_input.** Every error of `FilterParser::parse` designates a span of the
trimmed input: `pos` is a suffix of `trim src` and `len` does not run past its end. -/
theorem error_span_in_input (env : PEnv) (src : Input) (e : LexErr)
    (h : parseFilter env src = .error e) :
    ∃ pre, trim src = pre ++ e.pos ∧ e.len ≤ e.pos.length := by
  obtain ⟨⟨pre, hp⟩, hl⟩ := (parseFilter_error h).1
  exact ⟨pre, hp.symm, hl⟩

theorem error_span_in_input_value (env : PEnv) (src : Input) (e : LexErr)
    (h : parseValue env src = .error e) :
    ∃ pre, trim src = pre ++ e.pos ∧ e.len ≤ e.pos.length := by
  obtain ⟨⟨pre, hp⟩, hl⟩ := (parseValue_error h).1
  exact ⟨pre, hp.symm, hl⟩

/-- … and therefore a span of the *untrimmed* source handed to `ParseError::new`, at
offset `errOffset src e` (= characters removed by `trim_start` + position in the trimmed
input). -/
theorem error_span_in_source (env : PEnv) (src : Input) (e : LexErr)
    (h : parseFilter env src = .error e) :
    ∃ A post, src = A ++ e.pos ++ post ∧ A.length = errOffset src e ∧
      errOffset src e + e.len ≤ src.length :=
  parseFilter_error_in_src h

theorem error_span_in_source_value (env : PEnv) (src : Input) (e : LexErr)
    (h : parseValue env src = .error e) :
    ∃ A post, src = A ++ e.pos ++ post ∧ A.length = errOffset src e ∧
      errOffset src e + e.len ≤ src.length :=
  parseValue_error_in_src h

/-! ### `ParseError::new` and `Display` -/

/-- **parseError_wf.** For any input and any span inside it, the error built by
`ParseError::new` designates a line that *is* a line of the input (the `lineNumber`-th piece
of `split('\n')`), with at most as many newlines before it as the input has, and a column
range inside that line. Generic in the unit type (bytes for the real offsets). -/
theorem parseError_wf {α : Type} (nl : α → Bool) (s : List α) (off len : Nat)
    (h : off + len ≤ s.length) :
    let e := ParseErr.mk nl s off len
    e.lineNumber ≤ (s.filter nl).length ∧
    (lines nl s)[e.lineNumber]? = some e.lineText ∧
    e.spanStart + e.spanLen ≤ e.lineText.length :=
  ParseErr.parseError_wf nl s off len h

/-- The two subtractions of `ParseError::new` never underflow: `span_start -= line_start`
and `line_end - span_start`. -/
theorem parseError_no_underflow {α : Type} (nl : α → Bool) (s : List α) (off len : Nat)
    (h : off + len ≤ s.length) :
    (scanLines nl (s.take off)).2 ≤ off ∧
    ∀ le, findNl nl (s.drop (scanLines nl (s.take off)).2) = some le →
      off - (scanLines nl (s.take off)).2 ≤ le :=
  ⟨lineStart_le_off nl s off, fun le hle => span_start_le_line_end nl s off len h le hle⟩

/-- The designated line and span are the text of the input at those positions; a span that
does not cross a newline is not clipped. -/
theorem parseError_reconstruct {α : Type} (nl : α → Bool) (s : List α) (off len : Nat)
    (h : off + len ≤ s.length) :
    let e := ParseErr.mk nl s off len
    e.lineText <+: s.drop (scanLines nl (s.take off)).2 ∧
    (e.lineText.drop e.spanStart).take e.spanLen = (s.drop off).take e.spanLen ∧
    e.spanLen ≤ len ∧
    ((∀ c ∈ (s.drop off).take len, nl c = false) → e.spanLen = len) :=
  ⟨(reconstruct nl s off len h).1, (reconstruct nl s off len h).2, spanLen_le nl s off len,
   spanLen_eq_of_no_newline nl s off len h⟩

/-- `Display` writes at least one caret. -/
theorem display_has_caret {α : Type} (e : PErr α) : 1 ≤ caretCount e := caret_pos e

/-- **Every error the parser can produce passes the `assert!` of `ParseError::new`** and gets
a well-formed location — for every scheme, setting and input (offsets in characters; the
byte-offset version is the same theorem at `α := UInt8`, tied by the correspondence run). -/
theorem error_location_wf (env : PEnv) (src : Input) (e : LexErr) (nl : Char → Bool)
    (h : parseFilter env src = .error e) :
    ∃ pe, ParseErr.mkChecked nl src (errOffset src e) e.len = some pe ∧
      pe.lineNumber ≤ (src.filter nl).length ∧
      (lines nl src)[pe.lineNumber]? = some pe.lineText ∧
      pe.spanStart + pe.spanLen ≤ pe.lineText.length ∧
      1 ≤ caretCount pe := by
  obtain ⟨_, _, _, _, hle⟩ := parseFilter_error_in_src h
  refine ⟨ParseErr.mk nl src (errOffset src e) e.len, mkChecked_eq_some nl src _ _ hle, ?_⟩
  obtain ⟨h1, h2, h3⟩ := ParseErr.parseError_wf nl src (errOffset src e) e.len hle
  exact ⟨h1, h2, h3, caret_pos _⟩

theorem error_location_wf_value (env : PEnv) (src : Input) (e : LexErr) (nl : Char → Bool)
    (h : parseValue env src = .error e) :
    ∃ pe, ParseErr.mkChecked nl src (errOffset src e) e.len = some pe ∧
      pe.lineNumber ≤ (src.filter nl).length ∧
      (lines nl src)[pe.lineNumber]? = some pe.lineText ∧
      pe.spanStart + pe.spanLen ≤ pe.lineText.length ∧
      1 ≤ caretCount pe := by
  obtain ⟨_, _, _, _, hle⟩ := parseValue_error_in_src h
  refine ⟨ParseErr.mk nl src (errOffset src e) e.len, mkChecked_eq_some nl src _ _ hle, ?_⟩
  obtain ⟨h1, h2, h3⟩ := ParseErr.parseError_wf nl src (errOffset src e) e.len hle
  exact ⟨h1, h2, h3, caret_pos _⟩

/-! ### concrete instances -/

/-- the multi-line case of the Rust unit tests (`scheme.rs`): span clipped at the line end -/
example :
    ParseErr.mk (· == '\n') "num == 10 or\nnum == true or\nnum == 20\n".toList 20 18 =
      { lineNumber := 1, lineText := "num == true or".toList, spanStart := 7, spanLen := 7 } := by
  decide

example : ParseErr.mkChecked (· == '\n') "xyz".toList 2 2 = none := by decide

/-- a span outside the input is exactly what the assert rejects -/
example (nl : Char → Bool) (s : Input) (off len : Nat) (h : s.length < off + len) :
    ParseErr.mkChecked nl s off len = none := mkChecked_eq_none nl s off len h

end WfModel.C05
