import WfModel.Lemmas.Interleave
import WfModel.Props.C10
/-!
# C18 — compiled filters are deterministic and safe to execute concurrently (partial)

Model: `WfModel/Model/Interleave.lean` — threads take steps `execute(filterᵢ, ctxⱼ)` in an
arbitrary interleaving; a step reads immutable data and the process-wide `USE_AVX2` latch.
What no theorem about this model exhibits (and is only *explored* by the `threads` stream):
data races, the regex engine's internal cache pool, the allocator and the OS scheduler.
-/
namespace WfModel.C18
open WfModel WfModel.Interleave

/-- **Execution is a function of the compiled filter and the context only**: two executions
of the same job agree, whatever else has run in between and on whichever thread. -/
theorem exec_pure (w : World) (j : Job) (e : LExpr) (c : Ctx)
    (he : w.filters[j.f]? = some e) (hc : w.ctxs[j.c]? = some c) :
    runJob w j = some (execFilter w.scheme c e) := by
  simp [runJob, he, hc]

/-- **Interleaving invariance.** For every schedule (any number of threads, any
interleaving, threads sharing filters and contexts freely), what thread `t` has observed so
far is exactly what it observes running alone: the sequential results of its first `pc` jobs. -/
theorem interleaving_invariant (w : World) (progs : List (List Job)) (env : Nat → Bool)
    (sched : List Nat) (t : Nat) (prog : List Job) (pc : Nat)
    (hp : progs[t]? = some prog) (hpc : (run w progs env sched).pcs[t]? = some pc) :
    (run w progs env sched).outs[t]? = some (sequential w prog pc) ∧ pc ≤ prog.length :=
  (inv_run w progs env sched).outs t prog hp pc hpc

/-- … in particular a thread that has finished has exactly its sequential result vector. -/
theorem finished_thread_sequential (w : World) (progs : List (List Job)) (env : Nat → Bool)
    (sched : List Nat) (t : Nat) (prog : List Job)
    (hp : progs[t]? = some prog) (hpc : (run w progs env sched).pcs[t]? = some prog.length) :
    (run w progs env sched).outs[t]? = some (prog.map (runJob w)) := by
  have := (interleaving_invariant w progs env sched t prog prog.length hp hpc).1
  simpa [sequential] using this

/-- **The latch is set once**: whatever the environment switch reads as at different times
and whichever thread gets there first, every execution in a run observes the same value of
`USE_AVX2` — the one the first reader computed. -/
theorem latch_once (w : World) (progs : List (List Job)) (env : Nat → Bool) (sched : List Nat) :
    ∀ v, (run w progs env sched).latch = some v → ∀ x ∈ (run w progs env sched).seen, x = v := by
  have h0 : LatchInv (init progs.length) := ⟨fun _ => rfl, fun v hv => by simp [init] at hv⟩
  exact (latch_run_aux w progs env sched _ h0).2

/-- **Recompilation, the latch value and the random anchor are unobservable**: however a
`contains` comparison was compiled (`USE_AVX2` on or off, any admissible anchor), executing
it gives what the reference evaluator of the core model (`containsBytes`, used by
`compareVal`) gives. With `interleaving_invariant` this is why repeated executions and
recompilations always agree. -/
theorem recompile_irrelevant (p h : Bytes) (avx : Bool) (k : Nat)
    (hk : 2 ≤ p.length → avx = true → k < p.length) :
    Search.containsOp p avx k h = some (containsBytes h p) := by
  unfold Search.containsOp
  rw [C10.dispatch_total_and_correct p h avx k hk, naive_eq_containsBytes]

/-! Non-vacuity: a two-thread world sharing one filter and one context, a complete schedule. -/
def exWorld : World :=
  { scheme := { fields := [{ name := ['i'], ty := .int, optional := false }], funcs := [], lists := [] },
    filters := [.comparison (.field 0 []) (.ordering .eq (.int 5))],
    ctxs := [{ values := [some (.int 5)], lists := [] }] }

example : (run exWorld [[⟨0, 0⟩, ⟨0, 0⟩], [⟨0, 0⟩]] (fun k => k % 2 == 0) [1, 0, 0]).pcs = [2, 1] := by
  decide
example : (run exWorld [[⟨0, 0⟩, ⟨0, 0⟩], [⟨0, 0⟩]] (fun k => k % 2 == 0) [1, 0, 0]).seen = [true, true, true] := by
  decide

end WfModel.C18
