import WfModel.Lemmas.Atoms.Resolve

/-!
# C16 (with C01) — identifiers are resolved by their COMPLETE dotted name, also when the name
begins with the word `not`

F13 (C16): `UnaryOp::lex` looks for no word boundary, so `notes == "x"` was lexed as
`not es == "x"` — a registered field whose name begins with `not` could not be used at the start
of an operand or function argument, and with `es` registered ANOTHER field was evaluated. The fix
(`LogicalExpr::lex_unary_op`, used by `lex_simple_expr` and `FunctionCallArgExpr::lex_with`) is
modelled by `lexUnary` in the main parser model (`Model/Parse.lean`) and by `unaryPrefix` in the
small-scale model of `Props/C16.lean`. This module states, over the MAIN parser model:

* `lex_unary_op_declines_iff` / `lex_unary_op_takes_iff` — the exact rule;
* `unary_declines_registered_name` — every registered valid name other than `not` itself is
  declined, whatever follows it;
* `registered_bool_field_resolves`, `registered_field_cmp_resolves(_level)` — the WHOLE filter
  `n` / `n op literal` for a registered field `n` is the node of exactly field `n`;
* `arg_registered_not_name` — the same at the start of a function argument.

Definitions: `nameOk` (`Lemmas/Atoms/Ident.lean`: `seg(.seg)*`, `seg` a non-empty run of
`[A-Za-z0-9_]`), `fieldHasTy s n t` / `fieldIx s n` (`Lemmas/Atoms.lean`: the scheme has a field
called exactly `n`, of type `t` / its index), `Lit` (literals with their renderings, C06),
`ordAlias` (the two spellings of an ordering operator), `IdStop` (what ends an identifier).

Property theorems only.
-/
namespace WfModel.C16Ident

open WfModel WfModel.Render WfModel.Atoms

/-! ## 1. The rule of `lex_unary_op` -/

/-- **When `lex_unary_op` declines**: no operator spelling at the start (`UnaryOp::lex` fails),
or the word `not` directly followed by an identifier character or `.` such that
`Identifier::lex_with` succeeds on the input starting at the `n`. -/
theorem lex_unary_op_declines_iff (env : PEnv) (input : Input) :
    lexUnary env input = none ↔
      lexEnum unaryOps input = none ∨
      ∃ x, input = "not".toList ++ x ∧ gluedTo x = true ∧
        isRegistered env.scheme input = true :=
  lexUnary_eq_none_iff env input

/-- **When `lex_unary_op` returns the operator** (and then exactly what `UnaryOp::lex` returns):
`!` always; the word `not` when nothing name-like is glued to it, or when the maximal dotted
name starting at the `n` is not registered (`nott` with no field `nott` is `not t`). -/
theorem lex_unary_op_takes_iff (env : PEnv) (input rest : Input) :
    lexUnary env input = some ((), rest) ↔
      input = "!".toList ++ rest ∨
      (input = "not".toList ++ rest ∧
        (gluedTo rest = false ∨ isRegistered env.scheme input = false)) :=
  lexUnary_eq_some_iff env input rest ()

/-- what `Identifier::lex_with` looks up when it succeeds is the maximal run of name characters
(identifier characters and dots) — so "registered" above means: that run is a name of the
scheme -/
theorem registered_means_maximal_run (s : Scheme) (input : Input)
    (h : isRegistered s input = true) : (s.get (nameRun input)).isSome = true := by
  unfold isRegistered at h
  split at h
  · rename_i p hp
    obtain ⟨id, r⟩ := p
    rw [lexIdentifier_ok_nameRun hp]; rfl
  · cases h

/-- **Every registered valid name other than the word `not` is declined by `lex_unary_op`**,
before every continuation that ends an identifier (`IdStop`: end of input, or a character that
is neither an identifier character nor `.` nor `[`) — in particular the names that begin with
`not`. -/
theorem unary_declines_registered_name (env : PEnv) (name more : Input)
    (hname : nameOk name = true) (hreg : (env.scheme.get name).isSome = true)
    (hne : name ≠ "not".toList) (hmore : IdStop more = true) :
    lexUnary env (name ++ more) = none :=
  name_noUnary env hname hreg hne hmore

/-- the bare word `not` is the operator even when a field is called `not` -/
theorem bare_not_is_operator (env : PEnv) (more : Input) (hmore : gluedTo more = false) :
    lexUnary env ("not".toList ++ more) = some ((), more) :=
  (lexUnary_eq_some_iff env _ more ()).mpr (.inr ⟨rfl, .inl hmore⟩)

/-! ## 2. Whole filters -/

/-- **registered_bool_field_resolves**: for every registered `Bool` field with a valid name `n`
other than `not` (and other than `any`/`all`: those followed by `(` are quantifier calls),
`FilterParser::parse` on the text `n` returns the bare-field node of EXACTLY field `n` — also
when `n` begins with `not` (`not_b`, `notes`, `not.x`, `nothing`). -/
theorem registered_bool_field_resolves (env : PEnv) (n : List Char)
    (hname : nameOk n = true) (hnot : n ≠ "not".toList)
    (hany : n ≠ "any".toList) (hall : n ≠ "all".toList)
    (hfield : fieldHasTy env.scheme n .bool = true) :
    ∃ i, env.scheme.get n = some (.field i) ∧
      parseFilter env n = .ok (.comparison (.field i []) .isTrue) :=
  ⟨fieldIx env.scheme n, (fieldHasTy_spec hfield).1, filter_boolField env hname hnot hany hall hfield⟩

/-- **registered_field_cmp_resolves** (parser level, any continuation): `n ws₁ op ws₂ literal`
for a registered field `n ≠ not` of the literal's type — any ordering operator in either
spelling, any layout around it, any literal form of `Lit` — is read by `LogicalExpr::lex_with`
to the comparison on EXACTLY field `n`, at every nesting budget, leaving every admissible
continuation. -/
theorem registered_field_cmp_resolves_level (env : PEnv) (n : List Char) (ws₁ ws₂ : Input)
    (op : OrdOp) (sym : Bool) (lit : Lit)
    (hname : nameOk n = true) (hnot : n ≠ "not".toList)
    (hfield : fieldHasTy env.scheme n lit.ty = true)
    (h₁ : Layout ws₁ = true) (h₂ : Layout ws₂ = true) (hsep : sym = true ∨ ws₁ ≠ [])
    (hlit : lit.ok = true) (tight : Bool) (budget : Nat) (rest : Input)
    (hrest : Stop tight rest = true ∧ NoOp rest = true) :
    ∃ i, env.scheme.get n = some (.field i) ∧
      (level env budget).logical
          (n ++ (ws₁ ++ ((ordAlias op sym).toList ++ (ws₂ ++ lit.txt))) ++ rest) =
        .ok ({ node := .comparison (.field i []) (.ordering op lit.val), ty := .bool }, rest) :=
  ⟨fieldIx env.scheme n, (fieldHasTy_spec hfield).1,
    logical_on env (atoms env.scheme) tight (CAtom.ok env.scheme)
      (fun a h => goodAtom env tight a h) (.atom (.cmp n ws₁ op sym ws₂ lit))
      (by simpa [allAtoms] using CAtom.ok_cmp hname hnot hfield h₁ h₂ hsep hlit)
      _ budget (.simple (.atom _)) (Nat.zero_le _) rest ⟨fun _ => hrest.1, hrest.2⟩⟩

/-- **registered_field_cmp_resolves** (whole filter): `FilterParser::parse` on
`n ws₁ op ws₂ literal`. `htrim` says the text has no leading/trailing white space — decidable on
a given text; it starts with an identifier character, so this is about the last character of
the literal. -/
theorem registered_field_cmp_resolves (env : PEnv) (n : List Char) (ws₁ ws₂ : Input)
    (op : OrdOp) (sym : Bool) (lit : Lit)
    (hname : nameOk n = true) (hnot : n ≠ "not".toList)
    (hfield : fieldHasTy env.scheme n lit.ty = true)
    (h₁ : Layout ws₁ = true) (h₂ : Layout ws₂ = true) (hsep : sym = true ∨ ws₁ ≠ [])
    (hlit : lit.ok = true)
    (htrim : trim (n ++ (ws₁ ++ ((ordAlias op sym).toList ++ (ws₂ ++ lit.txt)))) =
      n ++ (ws₁ ++ ((ordAlias op sym).toList ++ (ws₂ ++ lit.txt)))) :
    ∃ i, env.scheme.get n = some (.field i) ∧
      parseFilter env (n ++ (ws₁ ++ ((ordAlias op sym).toList ++ (ws₂ ++ lit.txt)))) =
        .ok (.comparison (.field i []) (.ordering op lit.val)) :=
  ⟨fieldIx env.scheme n, (fieldHasTy_spec hfield).1,
    filter_atom env (.cmp n ws₁ op sym ws₂ lit)
      (CAtom.ok_cmp hname hnot hfield h₁ h₂ hsep hlit) htrim⟩

/-! ## 3. Function arguments -/

/-- **arg_registered_not_name**: at the start of a function argument a registered field whose
name begins with `not` is lexed as that field followed by an optional comparison
(`argAfterIndex`) — `FunctionCallArgExpr::lex_with` asks `lex_unary_op`, not `UnaryOp::lex`,
whether the argument is a logical expression. -/
theorem arg_registered_not_name (env : PEnv) (lower : Option Level) (n more : Input) (i : Nat)
    (hname : nameOk n = true) (hpre : "not".toList <+: n) (hne : n ≠ "not".toList)
    (hget : env.scheme.get n = some (.field i)) (hmore : IdStop more = true) :
    argL env lower (n ++ more) =
      argAfterIndex env { node := .field i [], ty := env.scheme.fieldTy i } more :=
  argL_not_prefixed env lower hname hpre hne hget hmore

/-! ## Non-vacuity -/

section Examples

/-- scheme: `notes : Bytes` (0), `es : Bytes` (1), `not_b : Bool` (2), `_b : Bool` (3),
`not.x : Int` (4), `len(Bytes) -> Int` -/
def nEnv : PEnv :=
  { scheme :=
      { fields := [⟨"notes".toList, .bytes, false⟩, ⟨"es".toList, .bytes, false⟩,
                   ⟨"not_b".toList, .bool, false⟩, ⟨"_b".toList, .bool, false⟩,
                   ⟨"not.x".toList, .int, false⟩],
        funcs := [("len".toList, .simple [(.field, .bytes)] [] .int 0)], lists := [] },
    st := {} }

/-- the hypotheses hold of `not_b`, `notes`, `not.x` in that scheme -/
example : nameOk "not_b".toList = true ∧ fieldHasTy nEnv.scheme "not_b".toList .bool = true ∧
    nameOk "notes".toList = true ∧ fieldHasTy nEnv.scheme "notes".toList .bytes = true ∧
    nameOk "not.x".toList = true ∧ fieldHasTy nEnv.scheme "not.x".toList .int = true := by
  decide

/-- `not_b` is field 2 (by the theorem), `not _b` and `! _b` negate field 3, and the
unregistered glued form `not_bb` is an error (unknown identifier `_bb`), as before -/
example : parseFilter nEnv "not_b".toList = .ok (.comparison (.field 2 []) .isTrue) ∧
    parseFilter nEnv "not _b".toList = .ok (.unaryNot (.comparison (.field 3 []) .isTrue)) ∧
    parseFilter nEnv "!_b".toList = .ok (.unaryNot (.comparison (.field 3 []) .isTrue)) ∧
    (match parseFilter nEnv "not_bb".toList with | .ok _ => true | .error _ => false) = false :=
  ⟨by
    obtain ⟨i, hi, h⟩ := registered_bool_field_resolves nEnv "not_b".toList (by decide) (by decide)
      (by decide) (by decide) (by decide)
    have : i = 2 := by
      have h2 : nEnv.scheme.get "not_b".toList = some (.field 2) := by decide
      rw [h2] at hi; injection hi with hi; injection hi with hi; exact hi.symm
    subst this; exact h,
   rfl, rfl, by decide⟩

/-- `notes == "x"` compares field 0 (`notes`), not field 1 (`es`); `not.x>=5` is field 4;
`notnot_b` is `not not_b` (`notnot_b` is no registered name; then `not_b` is one) -/
example :
    parseFilter nEnv "notes == \"x\"".toList =
      .ok (.comparison (.field 0 []) (.ordering .eq (.bytes { fmt := .quoted, data := [120] }))) ∧
    parseFilter nEnv "not.x>=5".toList =
      .ok (.comparison (.field 4 []) (.ordering .ge (.int 5))) ∧
    parseFilter nEnv "notnot_b".toList =
      .ok (.unaryNot (.comparison (.field 2 []) .isTrue)) :=
  ⟨rfl, rfl, rfl⟩

/-- inside a function call: `len(notes) == 5` takes the field `notes` as the argument
(it used to be `not es`, a type error), `len(es) == 5` is unchanged -/
example :
    parseFilter nEnv "len(notes) == 5".toList =
      .ok (.comparison (.call 0 [.index (.field 0 [])] none []) (.ordering .eq (.int 5))) ∧
    parseFilter nEnv "len(es) == 5".toList =
      .ok (.comparison (.call 0 [.index (.field 1 [])] none []) (.ordering .eq (.int 5))) :=
  ⟨rfl, rfl⟩

end Examples

end WfModel.C16Ident
