import WfModel.Lemmas.PanicCatcherSim

/-!
# C19 — the panic catcher returns results or panic text and never leaks state

Property theorems only. Model: `WfModel/Model/PanicCatcher.lean` (`engine/src/panic.rs`).
`exec`/`execList`/`runTop` are the big-step semantics of one thread, `tstep`/`Sys` the
small-step machine used for interleavings; `small_step_agrees` ties the two together.
-/
namespace WfModel.C19
open WfModel.PanicCatcher

/-- **catch_panic returns the value or the panic text.** With the catcher's hook installed and
catching enabled, at *any* current nesting level and for *any* closure body (which may itself
enable/disable, install the hook again, change the fallback mode, nest further `catch_panic`
calls and panic inside them): the body never aborts the process, and the call returns
`Ok(v)` when the body returns and `Err(text containing m)` when the body panics with message
`m` — `m` being exactly the message of the panic that left the body, never a stale one.
(`hN`: fewer than 2^64 nested frames, the `checked_add` abort.) -/
theorem catch_result (s : St) (body : List Op) (v : Nat)
    (hI : Installed s) (hE : s.loc.enabled = true)
    (hN : s.loc.level + nestingList body + 1 < levelLimit) :
    ((execList (enter s) body).2.2 = .done ∧
      exec s (.catch_ body v) =
        (leave (execList (enter s) body).1,
          (execList (enter s) body).2.1 ++ [.caught (.ok v)], .done)) ∨
    (∃ m, (execList (enter s) body).2.2 = .panicked m ∧
      exec s (.catch_ body v) =
        (leave (execList (enter s) body).1,
          (execList (enter s) body).2.1 ++ [.caught (.err (some m))], .done)) := by
  have hL : s.loc.level + 1 < levelLimit := by omega
  have hI' : Installed (enter s) := by simpa [Installed, enter] using hI
  have ih := execList_inside (enter s) hI' (by simp [enter]) body (by simp [enter]; omega)
  have hb := execList_level (enter s) body ih.1
  rw [exec_catch_on body v hE hL]
  revert ih hb
  generalize execList (enter s) body = r
  obtain ⟨s1, tr, out⟩ := r
  intro ih hb
  have h1 : s1.loc.level ≠ 0 := by simp [enter] at hb; omega
  cases out with
  | aborted => exact absurd rfl ih.1
  | done => left; simp [finishCatch, h1]
  | panicked m =>
    right
    refine ⟨m, rfl, ?_⟩
    have hm : s1.loc.lastMsg = some m := ih.2 m rfl
    simp [finishCatch, h1, leave, hm]

/-- The hypotheses of `catch_result` on a concrete nested history: the inner catch reports
message 1, the outer one message 2, and the level is back to 0. -/
example :
    exec { loc := { enabled := true }, hook := .catcher .sentinel, hookSet := true }
      (.catch_ [.catch_ [.panic 1] 0, .disable, .setHook, .panic 2] 1) =
    ({ loc := { enabled := false, level := 0, lastMsg := some 2 },
       hook := .catcher .sentinel, hookSet := true },
     [.caught (.err (some 1)), .caught (.err (some 2))], .done) := by
  decide

/-- **Disabled ⇒ transparent.** With catching disabled `catch_panic(f)` is `Ok(f())`: same
state changes, same events, and a panic of `f` passes through unchanged. -/
theorem catch_transparent (s : St) (body : List Op) (v : Nat) (hE : s.loc.enabled = false) :
    exec s (.catch_ body v) =
      match execList s body with
      | (s1, tr, .done) => (s1, tr ++ [.caught (.ok v)], .done)
      | r => r := by
  rw [exec_catch_off body v hE]
  generalize execList s body = r
  obtain ⟨s1, tr, out⟩ := r
  cases out <;> rfl

/-- **The nesting level is balanced on every path** — one op, a closure body, or a whole
top-level history (where panics arriving at the outermost level are swallowed by the caller):
unless the process aborted, the level afterwards is the level before.  No assumption on the
hook, the enabled flag or the fallback mode. -/
theorem level_balanced (s : St) :
    (∀ op, (exec s op).2.2 ≠ .aborted → (exec s op).1.loc.level = s.loc.level) ∧
    (∀ ops, (execList s ops).2.2 ≠ .aborted → (execList s ops).1.loc.level = s.loc.level) ∧
    (∀ ops, (runTop s ops).2.2 = false → (runTop s ops).1.loc.level = s.loc.level) :=
  ⟨exec_level s, execList_level s, runTop_level s⟩

/-- A panicking path really passes through `stop_catching`: after the inner catch caught
message 7 the level is back to 0, so the outside panic 8 reaches the sentinel. -/
example :
    (runTop { loc := { enabled := true }, hook := .catcher .sentinel, hookSet := true }
      [.catch_ [.catch_ [.panic 7] 0] 1, .panic 8]).2.1 =
    [.caught (.err (some 7)), .caught (.ok 1), .sentinel 8, .unwound 8] := by
  decide

/-- **A panic outside `catch_panic` still reaches the previously installed hook and unwinds
normally**, after any history (any ops, any nesting, hook installed before, during or never),
provided the thread is at level 0 in fallback mode Continue and the process did not abort:
the catcher records nothing, the sentinel is called with the message, and the panic
propagates. -/
theorem outside_panic_reaches_previous_hook (s : St) (ops : List Op) (m : Nat)
    (h0 : s.loc.level = 0) (hk : s.hook.reachesSentinel = true)
    (ha : (runTop s ops).2.2 = false) (hf : (runTop s ops).1.loc.fallback = .cont) :
    exec (runTop s ops).1 (.panic m) = ((runTop s ops).1, [.sentinel m], .panicked m) := by
  have hl := (runTop_level s ops ha).trans h0
  have hr := runTop_reaches s ops hk
  simp [exec, raise, runHook_outside _ _ m hr hl hf]

example :
    let s : St := { hook := .sentinel }
    let r := runTop s [.enable, .catch_ [.setHook, .panic 1] 0, .setFallback .cont]
    r.2.2 = false ∧ r.1.loc.fallback = .cont ∧ r.1.hook = .catcher .sentinel := by
  decide

/-- **Thread non-interference**, at step granularity (an op, entering `catch_panic`, returning
from it are separate steps; an API call is a block of such steps of one thread, so this covers
API-call granularity). With the hook installed, for every number of threads, every thread
state and every schedule that does not abort the process: each thread `j` ends with exactly
the thread-locals `(enabled, level, lastMsg, fallback)`, remaining program and event trace —
hence every `catch_panic` result — it gets running alone for as many steps as it was
scheduled. Steps of the other threads change nothing of `j`. -/
theorem thread_noninterference (y : Sys) (σ : List Nat) (hS : y.hookSet = true)
    (hA : (y.run σ).dead = false) (j : Nat) :
    (y.run σ).threads[j]? = (y.threads[j]?).map (Thread.solo y.hook (σ.count j)) :=
  (Sys.run_frame σ y hS hA).2.2 j

/-- … and the process-wide hook is not disturbed by any of it. -/
theorem hook_stable (y : Sys) (σ : List Nat) (hS : y.hookSet = true)
    (hA : (y.run σ).dead = false) : (y.run σ).hook = y.hook ∧ (y.run σ).hookSet = true :=
  ⟨(Sys.run_frame σ y hS hA).1, (Sys.run_frame σ y hS hA).2.1⟩

/-- Two threads, interleaved inside each other's `catch_panic`: B's result is its own. -/
example :
    let tA : Thread := { loc := { enabled := true }, code := { cur := [.catch_ [.panic 1] 0] } }
    let tB : Thread := { loc := { enabled := true }, code := { cur := [.catch_ [.panic 2] 1, .query] } }
    let y : Sys := { threads := [tA, tB], hook := .catcher .sentinel, hookSet := true }
    ((y.run [0, 1, 0, 1, 1, 0]).threads.map (·.tr)) =
      [[.caught (.err (some 1))], [.caught (.err (some 2)), .backtrace (some 2)]] := by
  decide

/-- **The two semantics of the model agree**: the small-step machine (one step per op / enter
/ return; the one the interleaving theorems are about) run to completion on a history computes
exactly the big-step result (the one `catch_result`, `level_balanced`, … are about): same
final thread-locals and hook, same events, same abort flag — for every history. -/
theorem small_step_agrees (s : St) (ops : List Op) : runSmall s ops = runTop s ops :=
  runSmall_eq_runTop s ops

/-- **Non-interference, in terms of results.** With the hook installed, in any schedule that
does not abort the process and gives thread `j` enough steps to finish its program `ops`, the
events of `j` — every `catch_panic` return value, every sentinel observation — and its final
thread-locals are exactly those of running `ops` sequentially on its own (`runTop`), whatever
the other threads do in between. -/
theorem scheduled_thread_is_sequential (y : Sys) (σ : List Nat) (hS : y.hookSet = true)
    (hA : (y.run σ).dead = false) (j : Nat) (l : Local) (ops : List Op)
    (ht : y.threads[j]? = some { loc := l, code := { cur := ops }, tr := [] })
    (hfair : stepsList ops ≤ σ.count j)
    (hNA : (runTop { loc := l, hook := y.hook, hookSet := true } ops).2.2 = false) :
    ∃ t', (y.run σ).threads[j]? = some t' ∧
      t'.tr = (runTop { loc := l, hook := y.hook, hookSet := true } ops).2.1 ∧
      t'.loc = (runTop { loc := l, hook := y.hook, hookSet := true } ops).1.loc := by
  have hrun := run_ge_eq_runTop { loc := l, hook := y.hook, hookSet := true } ops (σ.count j) hfair
  have hsolo := solo_eq_run y.hook (σ.count j)
    { st := { loc := l, hook := y.hook, hookSet := true }, code := { cur := ops } } rfl rfl rfl
    (by rw [hrun]; exact hNA)
  rw [hrun] at hsolo
  refine ⟨{ loc := (finalCfg (runTop { loc := l, hook := y.hook, hookSet := true } ops) []).st.loc,
            code := (finalCfg (runTop { loc := l, hook := y.hook, hookSet := true } ops) []).code,
            tr := (finalCfg (runTop { loc := l, hook := y.hook, hookSet := true } ops) []).tr }, ?_, ?_, ?_⟩
  · rw [thread_noninterference y σ hS hA j, ht]
    simp only [Option.map_some]
    exact congrArg some hsolo
  · simp [finalCfg]
  · simp [finalCfg]

/-- **F7 (sub-call granularity).**
`panic_catcher_set_hook` is `load; take_hook; set_hook; store`. The code now holds a lock around
these four actions (a `fix:` commit in /repo: without it two racing first calls were replayed on
real threads through cfg-guarded pause points and a third party's `catch_panic` lost its
message), so the call is atomic, which is what the model's `doSetHook` is.
As one atomic call it keeps the previous hook reachable … -/
theorem setHook_atomic_keeps_previous (s : St) (h : s.hook.reachesSentinel = true) :
    (doSetHook s).hook.reachesSentinel = true := by
  unfold doSetHook
  split <;> simp [Hook.reachesSentinel, h]

/-- … whereas two first calls interleaved at the level of those four actions (the code before
the fix) lose it: the second
`take_hook` takes std's default hook that the first `take_hook` left behind, and its
`set_hook` overwrites the first thread's closure — the sentinel is no longer called. -/
theorem setHook_not_atomic_loses_previous :
    let y : HookSys := { hook := .sentinel, hookSet := false, regs := [{}, {}] }
    let y' := y.runSub [(0, .load), (1, .load), (0, .take), (1, .take),
                         (0, .set), (1, .set), (0, .store), (1, .store)]
    y.hook.reachesSentinel = true ∧ y'.hookSet = true ∧ y'.hook = .catcher .default ∧
      y'.hook.reachesSentinel = false := by
  decide

end WfModel.C19
