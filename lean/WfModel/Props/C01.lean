import WfModel.Lemmas.C01
import WfModel.Generated
import WfModel.Lemmas.Render.Example

/-!
# C01 — scalar comparisons and boolean logic evaluate per the reference semantics

Property theorems only. Model: `Model/Parse.lean` (`climb`, `climbInner`, `combine`, `simpleL`,
operator tables), `Model/Eval.lean` (`compareVal`, `compareWith`, `nilDefault`, `evalL`,
`evalOnes`). Definitions used in the statements (`OrdOp.denote`, `LexLt`, `layered`,
`Unfolds`, …) are in `Lemmas/C01Ops.lean` and `Lemmas/C01Climb.lean`.
-/
namespace WfModel.C01
open WfModel

/-! ## 1. Operators have their mathematical meaning -/

/-- `OrderingOp::matches` through the bit masks is the textbook reading of each operator on
the outcome of a three-way comparison. -/
theorem ordOp_meaning (op : OrdOp) (o : Ordering) : op.matchesOrd o = true ↔ op.denote o :=
  matchesOrd_iff op o

/-- Integers: `lhs op rhs` on `Int` (no wrap-around, any magnitude), every operator. -/
theorem int_cmp (c : Ctx) (op : OrdOp) (a b : Int) :
    compareVal c (.ordering op (.int b)) (.int a) = .ok (decide (op.intRel a b)) := by
  simp only [compareVal, matchesOrd_cmpInt]

/-- The three-way byte comparison says `Less` exactly for the textbook strict lexicographic
order (proper prefix, or first differing byte smaller). -/
theorem bytes_cmp_lex (a b : Bytes) : cmpBytes a b = .lt ↔ LexLt a b := cmpBytes_lt_iff a b

theorem bytes_cmp_eq (a b : Bytes) : cmpBytes a b = .eq ↔ a = b := cmpBytes_eq_iff a b

/-- antisymmetry of the three-way comparison -/
theorem bytes_cmp_antisymm (a b : Bytes) : cmpBytes a b = .gt ↔ cmpBytes b a = .lt :=
  cmpBytes_gt_iff a b

/-- the lexicographic order is a strict total order: exactly one of the three holds -/
theorem bytes_trichotomy (a b : Bytes) :
    (LexLt a b ∨ a = b ∨ LexLt b a) ∧ ¬ (LexLt a b ∧ a = b) ∧ ¬ (LexLt a b ∧ LexLt b a) ∧
      ¬ (a = b ∧ LexLt b a) :=
  ⟨lexLt_trichotomy a b, fun ⟨h, e⟩ => lexLt_irrefl a (e ▸ h), fun ⟨h, h'⟩ => lexLt_asymm h h',
    fun ⟨e, h⟩ => lexLt_irrefl a (e ▸ h)⟩

/-- Bytes: every operator means its relation w.r.t. lexicographic order. -/
theorem bytes_cmp (c : Ctx) (op : OrdOp) (l : Bytes) (r : BytesLit) :
    ∃ b, compareVal c (.ordering op (.bytes r)) (.bytes l) = .ok b ∧
      (b = true ↔ op.bytesRel l r.data) :=
  ⟨_, rfl, (matchesOrd_iff _ _).trans (denote_cmpBytes op l r.data)⟩

/-- IP, different families: unordered — only `!=` holds. -/
theorem ip_cmp_mixed (c : Ctx) (op : OrdOp) (a b : Ip) (h : a.isV6 ≠ b.isV6) :
    compareVal c (.ordering op (.ip b)) (.ip a) = .ok (op == .ne) := by
  simp only [compareVal, cmpIp_mixed a b h, OrdOp.matchesOpt]

/-- IP, same family: numeric order of the address. -/
theorem ip_cmp_same (c : Ctx) (op : OrdOp) (a b : Ip) (h : a.isV6 = b.isV6) :
    compareVal c (.ordering op (.ip b)) (.ip a) = .ok (decide (op.natRel a.num b.num)) := by
  simp only [compareVal, cmpIp_same a b h, OrdOp.matchesOpt, matchesOrd_cmpNat]

/-- `&`: some bit position is set in both 64-bit two's complement representations. -/
theorem bitand_meaning (a b : Int) :
    bitAndNonZero a b = true ↔
      ∃ i, i < 64 ∧ (BitVec.ofInt 64 a).getLsbD i = true ∧ (BitVec.ofInt 64 b).getLsbD i = true :=
  bitAndNonZero_iff a b

theorem bitand_cmp (c : Ctx) (a b : Int) :
    compareVal c (.bitAnd b) (.int a) = .ok (bitAndNonZero a b) := rfl

/-- a bare boolean field is its value -/
theorem isTrue_cmp (c : Ctx) (b : Bool) : compareVal c .isTrue (.bool b) = .ok b := rfl

/-! ## 2. The nil rule -/

/-- A comparison whose left side has no value (absent field / `Err` from a call, or an index
that is not there) and no `[*]` evaluates to the default of its operator … -/
theorem nil_rule (s : Scheme) (c : Ctx) (base : Option Val) (ixs : List FieldIndex) (op : CmpOp)
    (hm : mapEachCount ixs = 0)
    (hb : base = none ∨ ∃ v, base = some v ∧ getNested v ixs = .ok none) :
    compareWith c base ixs (nilDefault s op) op = .ok (.one (nilDefault s op)) :=
  compareWith_absent c base ixs _ op hm hb

/-- … and that default is true only for `!=` under the scheme's nil-not-equal setting
(every other operator: `==`, `<`, …, `&`, `in`, `contains`, `matches`, `wildcard`: false). -/
theorem nil_default_iff (s : Scheme) (op : CmpOp) :
    nilDefault s op = true ↔ (∃ rhs, op = .ordering .ne rhs) ∧ s.nilNe = true :=
  nilDefault_iff s op

/-- The same at the level of filter evaluation: an optional field without a value. -/
theorem nil_rule_eval (s : Scheme) (c : Ctx) (f : Nat) (fd : FieldDef) (ixs : List FieldIndex)
    (op : CmpOp) (hv : ∀ v, c.values[f]? ≠ some (some v)) (hf : s.fields[f]? = some fd)
    (ho : fd.optional = true) (hm : mapEachCount ixs = 0) (hop : op ≠ .isTrue) :
    evalL s c (.comparison (.field f ixs) op) = .ok (.one (nilDefault s op)) :=
  evalL_comparison_absent s c f ixs op (fieldVal_absent c s f fd hv hf ho) hm hop

/-- a bare absent boolean field is false -/
theorem nil_rule_eval_isTrue (s : Scheme) (c : Ctx) (f : Nat) (fd : FieldDef)
    (ixs : List FieldIndex) (hv : ∀ v, c.values[f]? ≠ some (some v))
    (hf : s.fields[f]? = some fd) (ho : fd.optional = true) (hm : mapEachCount ixs = 0)
    (ht : tyI s (.field f ixs) = .bool) :
    evalL s c (.comparison (.field f ixs) .isTrue) = .ok (.one false) :=
  evalL_isTrue_absent s c f ixs (fieldVal_absent c s f fd hv hf ho) hm ht

/-! ## 3. Boolean folds (any number of items) -/

theorem and_fold (s : Scheme) (c : Ctx) (acc : Bool) (items : List LExpr) (bs : List Bool)
    (h : EvalsTo s c items bs) :
    evalOnes s c .and acc items = .ok (.one (acc && bs.all id)) := evalOnes_and s c acc items bs h

theorem or_fold (s : Scheme) (c : Ctx) (acc : Bool) (items : List LExpr) (bs : List Bool)
    (h : EvalsTo s c items bs) :
    evalOnes s c .or acc items = .ok (.one (acc || bs.any id)) := evalOnes_or s c acc items bs h

theorem xor_fold (s : Scheme) (c : Ctx) (acc : Bool) (items : List LExpr) (bs : List Bool)
    (h : EvalsTo s c items bs) :
    evalOnes s c .xor acc items = .ok (.one (acc != parity bs)) := evalOnes_xor s c acc items bs h

/-- `a and b and …` is true iff all operands are -/
theorem and_is_all (s : Scheme) (c : Ctx) (e : LExpr) (es : List LExpr) (b : Bool) (bs : List Bool)
    (h : EvalsTo s c (e :: es) (b :: bs)) :
    evalL s c (.combining .and (e :: es)) = .ok (.one ((b :: bs).all id)) := by
  rw [evalL_combining_ones s c .and e es b h.1, evalOnes_and s c b es bs h.2]; rfl

/-- `a or b or …` is true iff some operand is -/
theorem or_is_any (s : Scheme) (c : Ctx) (e : LExpr) (es : List LExpr) (b : Bool) (bs : List Bool)
    (h : EvalsTo s c (e :: es) (b :: bs)) :
    evalL s c (.combining .or (e :: es)) = .ok (.one ((b :: bs).any id)) := by
  rw [evalL_combining_ones s c .or e es b h.1, evalOnes_or s c b es bs h.2]; rfl

/-- `a xor b xor …` is true iff an odd number of operands is -/
theorem xor_is_parity (s : Scheme) (c : Ctx) (e : LExpr) (es : List LExpr) (b : Bool)
    (bs : List Bool) (h : EvalsTo s c (e :: es) (b :: bs)) :
    evalL s c (.combining .xor (e :: es)) = .ok (.one (decide ((b :: bs).count true % 2 = 1))) := by
  rw [evalL_combining_ones s c .xor e es b h.1, evalOnes_xor s c b es bs h.2,
    ← parity_eq_count (b :: bs)]; rfl

theorem not_is_neg (s : Scheme) (c : Ctx) (e : LExpr) (b : Bool)
    (he : evalL s c e = .ok (.one b)) : evalL s c (.unaryNot e) = .ok (.one (!b)) :=
  evalL_not_one s c e b he

theorem paren_is_id (s : Scheme) (c : Ctx) (e : LExpr) : evalL s c (.paren e) = evalL s c e :=
  evalL_paren s c e

/-! ## 4. Precedence climbing is the layered grammar -/

/-- **Main theorem.** For any `simple`-expression lexer, if the input after the first
operand `e₀` reads `o₁ e₁ … oₙ eₙ` (any `n`, any mix of operators and spellings) and then no
further combining operator, the operands are of one logical type and are not themselves bare
`combining` nodes, and the fuel is at least `2n+1`, then `lex_more_with_precedence` returns
exactly the layered tree: the sequence split at `or`, every chunk split at `xor`, every chunk
of that at `and`; single chunks stand for themselves, several chunks form ONE flat node
(`and` binds tighter than `xor` binds tighter than `or`; same-operator chains are flattened);
and the rest of the input is what follows the last operand. -/
theorem climb_layered (simple : Input → LexRes (Typed LExpr)) (fuel : Nat) (e₀ : Typed LExpr)
    (items : List Item) (rest₀ finalRest : Input)
    (hnc₀ : isCombining e₀.node = false)
    (hnc : ∀ it ∈ items, isCombining it.2.node = false)
    (hty : ∀ it ∈ items, logicalTypesOk e₀.ty it.2.ty = true)
    (hU : Unfolds simple rest₀ items finalRest)
    (hfuel : 2 * items.length + 1 ≤ fuel) :
    climb simple fuel e₀ none (lexCombiningOp rest₀) =
      .ok ({ node := layered e₀.node (nodesOf items), ty := e₀.ty }, finalRest) := by
  rw [climb_Lv simple fuel e₀ items rest₀ finalRest hnc₀ hnc hty hU hfuel, Lv_zero_eq_layered]

/-- the result does not depend on the fuel once there is enough of it -/
theorem climb_fuel_independent (simple : Input → LexRes (Typed LExpr)) (f₁ f₂ : Nat)
    (e₀ : Typed LExpr) (items : List Item) (rest₀ finalRest : Input)
    (hnc₀ : isCombining e₀.node = false)
    (hnc : ∀ it ∈ items, isCombining it.2.node = false)
    (hty : ∀ it ∈ items, logicalTypesOk e₀.ty it.2.ty = true)
    (hU : Unfolds simple rest₀ items finalRest)
    (h₁ : 2 * items.length + 1 ≤ f₁) (h₂ : 2 * items.length + 1 ≤ f₂) :
    climb simple f₁ e₀ none (lexCombiningOp rest₀) = climb simple f₂ e₀ none (lexCombiningOp rest₀) := by
  rw [climb_layered simple f₁ e₀ items rest₀ finalRest hnc₀ hnc hty hU h₁,
    climb_layered simple f₂ e₀ items rest₀ finalRest hnc₀ hnc hty hU h₂]

/-- The fuel `logicalL` passes is enough: every combining operator consumes at least its own
two characters, so it suffices that `simple` never returns more input than it was given
(in particular if every success consumes at least one character). -/
theorem fuel_suffices (simple : Input → LexRes (Typed LExpr))
    (hsimple : ∀ inp e r', simple inp = .ok (e, r') → r'.length ≤ inp.length)
    (rest finalRest : Input) (items : List Item) (hU : Unfolds simple rest items finalRest) :
    2 * items.length + 1 ≤ 2 * rest.length + 8 := by
  have := unfolds_length hsimple hU
  omega

/-- `fuel_suffices` under the hypothesis "each `simple` success consumes ≥ 1 character" -/
theorem fuel_suffices_strict (simple : Input → LexRes (Typed LExpr))
    (hsimple : ∀ inp e r', simple inp = .ok (e, r') → r'.length < inp.length)
    (rest finalRest : Input) (items : List Item) (hU : Unfolds simple rest items finalRest) :
    2 * items.length + 1 ≤ 2 * rest.length + 8 :=
  fuel_suffices simple (fun inp e r' h => Nat.le_of_lt (hsimple inp e r' h)) rest finalRest items hU

/-- `LogicalExpr::lex_with` at any nesting level: first operand, then the layered tree. -/
theorem logical_layered (env : PEnv) (lower : Option Level) (input rest₀ finalRest : Input)
    (e₀ : Typed LExpr) (items : List Item)
    (hsimple : ∀ inp e r', simpleL env lower inp = .ok (e, r') → r'.length ≤ inp.length)
    (h₀ : simpleL env lower input = .ok (e₀, rest₀))
    (hnc₀ : isCombining e₀.node = false)
    (hnc : ∀ it ∈ items, isCombining it.2.node = false)
    (hty : ∀ it ∈ items, logicalTypesOk e₀.ty it.2.ty = true)
    (hU : Unfolds (simpleL env lower) rest₀ items finalRest) :
    logicalL env lower input =
      .ok ({ node := layered e₀.node (nodesOf items), ty := e₀.ty }, finalRest) := by
  unfold logicalL
  simp only [h₀]
  exact climb_layered _ _ e₀ items rest₀ finalRest hnc₀ hnc hty hU
    (fuel_suffices _ hsimple rest₀ finalRest items hU)

/-! ## 5. `not` binds tightest -/

/-- `not x …` / `! x …`: the operand of `not` is exactly the next *simple* expression (one
nesting level down); whatever follows it is left for the caller. For the WORD `not` this holds
whenever it is the operator in the sense of `LogicalExpr::lex_unary_op`: nothing name-like is
glued to it (`gluedTo x = false`: a space, `(`, `!`, end of input … follows), or the maximal
dotted name starting at the `n` is not registered (`nott` with no field `nott` is `not t`).
The remaining case is `not_prefixed_name_is_identifier` below. (Before the fix of `lex_unary_op`
the statement held without the hypothesis, and registered names beginning with `not` were
unusable at the start of an operand.) -/
theorem not_binds_tightest (env : PEnv) (lw : Level) (x : Input)
    (hop : gluedTo x = false ∨ isRegistered env.scheme ("not".toList ++ x) = false) :
    simpleL env (some lw) ("not".toList ++ x) =
      match lw.simple (skipSpace x) with
      | .error e => .error e
      | .ok (e, r) => .ok ({ node := .unaryNot e.node, ty := e.ty }, r) :=
  simpleL_not env lw x hop

/-- `not` followed by layout, `(`, `!` or the end of the input is always the operator -/
theorem not_binds_tightest_spaced (env : PEnv) (lw : Level) (x : Input)
    (hx : gluedTo x = false) :
    simpleL env (some lw) ("not".toList ++ x) =
      match lw.simple (skipSpace x) with
      | .error e => .error e
      | .ok (e, r) => .ok ({ node := .unaryNot e.node, ty := e.ty }, r) :=
  simpleL_not env lw x (.inl hx)

theorem bang_binds_tightest (env : PEnv) (lw : Level) (x : Input) :
    simpleL env (some lw) ("!".toList ++ x) =
      match lw.simple (skipSpace x) with
      | .error e => .error e
      | .ok (e, r) => .ok ({ node := .unaryNot e.node, ty := e.ty }, r) :=
  simpleL_bang env lw x

/-- **a registered name that begins with the word `not` is an identifier** (`lex_unary_op`):
when name characters are glued to `not` and `Identifier::lex_with` finds the maximal dotted name
in the scheme, `lex_simple_expr` does not descend: it reads the comparison that starts with
that identifier, at the SAME nesting level (`notes == "x"` is the field `notes`, never
`not es == "x"`). -/
theorem not_prefixed_name_is_identifier (env : PEnv) (lower : Option Level) (x : Input)
    (hg : gluedTo x = true) (hr : isRegistered env.scheme ("not".toList ++ x) = true) :
    simpleL env lower ("not".toList ++ x) = comparisonL env lower ("not".toList ++ x) :=
  simpleL_not_registered env lower x hg hr

/-! ## 5b. Precedence at CHARACTER level, for whole filters (`parse_render_logical`, **S**)

Definitions (`Lemmas/Render/Defs.lean`): `Sk α` = logical skeleton over abstract atoms
(`atom`, `not`, `paren`, `chain first [(o₁,e₁),…]`); `Renders env A tight sk s` = `s` is one of the
spellings of `sk` (any alias of `logicalOps` / `unaryOps` per occurrence, any layout; a space is
mandatory only between an operand ending with an atom and the next combining operator, and not
even there for symbolic operators when `tight`; the word `not` may be glued to its operand
wherever `glueOk env` holds — always, unless the glued text spells a registered name, which
`lex_unary_op` reads as that identifier); `GoodAtom` = the comparison lexer reads the
atom's text to the atom's `Bool` node before every continuation the atom stops at (`Stop`), the
text is not a unary operator (`lex_unary_op`) / quantifier call, the node is not `combining`; `canon` = the
declarative meaning (`layered` for chains); `Admissible` = no combining operator follows (and an
atom at the end is followed by something it stops at). The same theorem is the base of the
alias/layout invariance of C07 (`Props/C07Render.lean`). -/

open WfModel.Render in
/-- **parse_render_logical (S).** Every rendering `s` of every skeleton `sk` whose parentheses
and `not`s fit the nesting budget `n` is read by `LogicalExpr::lex_with` to exactly the
declarative meaning `canon sk` (type `Bool`), leaving any admissible continuation `rest`. -/
theorem parse_render_logical {α : Type} (env : PEnv) (A : Atoms α) (tight : Bool)
    (hA : ∀ a, GoodAtom env A tight a) (sk : Sk α) (s : Input) (n : Nat)
    (hr : Renders env A tight sk s) (hn : depth sk ≤ n)
    (rest : Input) (hrest : Admissible tight sk rest) :
    (level env n).logical (s ++ rest) = .ok ({ node := canon A sk, ty := .bool }, rest) := by
  rw [level_logical]
  exact (all_ok hA (s.length + 1)).2 sk s (Nat.lt_succ_self _) hr n hn rest hrest

open WfModel.Render in
/-- **precedence_whole_filter**: the AST read from ANY rendering of the chain
`first o₁ e₁ … oₙ eₙ` (any `n`, any mix of operators, aliases and layout; operands are atoms,
`not …` or `( … )`, recursively) is the `layered` tree of the operands' meanings — split at
`or`, every chunk at `xor`, every chunk of that at `and`, same-operator chains ONE flat node:
`and` > `xor` > `or` at the character level. -/
theorem precedence_whole_filter {α : Type} (env : PEnv) (A : Atoms α) (tight : Bool)
    (hA : ∀ a, GoodAtom env A tight a) (first : Sk α) (ops : List (LogicalOp × Sk α))
    (s : Input) (n : Nat) (hr : Renders env A tight (.chain first ops) s)
    (hn : depth (.chain first ops) ≤ n)
    (rest : Input) (hrest : Admissible tight (.chain first ops) rest) :
    (level env n).logical (s ++ rest) =
      .ok ({ node := layered (canon A first) (canonRest A ops), ty := .bool }, rest) :=
  parse_render_logical env A tight hA (.chain first ops) s n hr hn rest hrest

open WfModel.Render in
/-- **not binds tightest, whole filter**: in any rendering of `not x o₁ e₁ … oₙ eₙ` the `not`
applies to `x` alone — the first operand of the layered tree is `unaryNot (canon x)`. -/
theorem not_binds_tightest_whole_filter {α : Type} (env : PEnv) (A : Atoms α) (tight : Bool)
    (hA : ∀ a, GoodAtom env A tight a) (x : Sk α) (ops : List (LogicalOp × Sk α))
    (s : Input) (n : Nat) (hr : Renders env A tight (.chain (.not x) ops) s)
    (hn : depth (.chain (.not x) ops) ≤ n)
    (rest : Input) (hrest : Admissible tight (.chain (.not x) ops) rest) :
    (level env n).logical (s ++ rest) =
      .ok ({ node := layered (.unaryNot (canon A x)) (canonRest A ops), ty := .bool }, rest) :=
  parse_render_logical env A tight hA (.chain (.not x) ops) s n hr hn rest hrest

open WfModel.Render in
/-- whole filters: `FilterParser::parse` of a rendering (no leading/trailing whitespace, nesting
within `max_nesting_depth`) is `canon sk` -/
theorem parse_render_filter {α : Type} (env : PEnv) (A : Atoms α) (tight : Bool)
    (hA : ∀ a, GoodAtom env A tight a) (sk : Sk α) (s : Input)
    (hr : Renders env A tight sk s) (hd : depth sk ≤ env.st.maxDepth) (htrim : trim s = s) :
    parseFilter env s = .ok (canon A sk) := by
  have h := parse_render_logical env A tight hA sk s env.st.maxDepth hr hd []
    ⟨fun _ => rfl, rfl⟩
  rw [List.append_nil] at h
  simp [parseFilter, htrim, h, complete]

/-! ## 6. Translator tie: the tables of the model are the tables of the source -/

/-- `lex_enum!(LogicalOp)`: spellings, lexing order, variants. -/
theorem logicalOps_source :
    Generated.logicalOpTable = logicalOps.map (fun p => (p.1, p.2.rustName)) := by decide

/-- `LogicalOp` derives `Ord`, i.e. declaration order, and the model's `prec` is strictly
increasing along the declaration order (`Or < Xor < And`); the two comparisons of
`lex_more_with_precedence` are the ones in `climbInner` (`≤`) and `climb` (`<`). -/
theorem logicalOp_order_source :
    "Ord" ∈ Generated.logicalOpDerives ∧
    (Generated.logicalOpTable.map (·.2)).eraseDups = [LogicalOp.or, .xor, .and].map (·.rustName) ∧
    LogicalOp.or.prec < LogicalOp.xor.prec ∧ LogicalOp.xor.prec < LogicalOp.and.prec ∧
    0 < LogicalOp.or.prec ∧
    Generated.climbComparisons = ["<=", "<"] := by decide

theorem unaryOps_source :
    Generated.unaryOpTable = unaryOps.map (fun p => (p.1, "Not")) := by decide

/-- `lex_enum!(OrderingOp)`: spellings, lexing order, variants and their `#[repr(u8)]` masks
(evaluated from the extracted `LESS`, `GREATER`, `EQUAL`). -/
theorem orderingOps_source :
    Generated.orderingOpTable = orderingOps.map (fun p => (p.1, p.2.rustName, p.2.mask)) := by
  decide

/-- `OrderingOp::matches`: the flag of each `Ordering` and the test `mask & flag != 0`;
`matches_opt(None)` is `self == NotEqual`. -/
theorem ordering_matches_source :
    Generated.ordFlags = [Ordering.lt, .gt, .eq].map (fun o => (flagName o, orderingFlag o)) ∧
    Generated.orderingMatches = [Ordering.lt, .gt, .eq].map (fun o => (orderingName o, flagName o)) ∧
    Generated.orderingMatchesTest = ["&", "!="] ∧
    Generated.orderingMatchesOptNone = ["==", OrdOp.ne.rustName] := by decide

theorem comparisonOps_source :
    comparisonOps.map (fun p => (p.1, p.2.rustName)) =
      [("in", "In")] ++ Generated.orderingOpTable.map (fun p => (p.1, p.2.1)) ++
        Generated.intOpTable ++ Generated.bytesOpTable ∧
    Generated.comparisonOpOrder =
      [("in", "In"), ("<OrderingOp>", "Ordering"), ("<IntOp>", "Int"), ("<BytesOp>", "Bytes")] := by
  decide

/-- `gen_ordering!`: every `OrderingOp` variant has exactly one arm; the arm of variant `X`
expands to the Rust operator of `X` itself and passes `nil_not_equal_behavior` as the
absent-value default for `NotEqual` only (`false` otherwise); the macro forwards that
default to `compile_with` for every right-hand-side type. -/
theorem gen_ordering_agrees :
    Generated.orderingArms =
      [OrdOp.ne, .eq, .ge, .le, .gt, .lt].map (fun o => (o.rustName, o.rustTok, o.nilDefaultSrc)) ∧
    (∀ o, o ∈ [OrdOp.ne, .eq, .ge, .le, .gt, .lt]) ∧
    (∀ arm ∈ Generated.orderingArms,
      (arm.2.1, arm.1) ∈ Generated.orderingOpTable.map (fun p => (p.1, p.2.1))) ∧
    Generated.genOrderingDefaults = [("Bytes", "$def"), ("Int", "$def"), ("Ip", "$def")] := by
  refine ⟨by decide, fun o => by cases o <;> decide, by decide, by decide⟩

/-- the model's nil default is what those source expressions denote -/
theorem nilDefault_source (s : Scheme) (o : OrdOp) (rhs : RhsVal) :
    nilDefault s (.ordering o rhs) =
      (if o.nilDefaultSrc = "nil_not_equal_behavior" then s.nilNe else false) := by
  cases o <;> rfl

/-! ## Non-vacuity: concrete instances of the hypotheses -/

section Examples

/-- `a or b && c and d or e ^^ f and g || h` (the suite's eight-operand example) unfolds … -/
example : Unfolds toySimple " or b && c and d or e ^^ f and g || h".toList
    [(.or, atom 'b'), (.and, atom 'c'), (.and, atom 'd'), (.or, atom 'e'), (.xor, atom 'f'),
     (.and, atom 'g'), (.or, atom 'h')] [] :=
  .step rfl rfl <| .step rfl rfl <| .step rfl rfl <| .step rfl rfl <| .step rfl rfl <|
  .step rfl rfl <| .step rfl rfl <| .done rfl

/-- … and its layered meaning is the tree the suite expects:
`or[a, and[b,c,d], xor[e, and[f,g]], h]`. -/
example :
    layered (atom 'a').node (nodesOf
      [(.or, atom 'b'), (.and, atom 'c'), (.and, atom 'd'), (.or, atom 'e'), (.xor, atom 'f'),
       (.and, atom 'g'), (.or, atom 'h')]) =
    .combining .or [(atom 'a').node,
      .combining .and [(atom 'b').node, (atom 'c').node, (atom 'd').node],
      .combining .xor [(atom 'e').node, .combining .and [(atom 'f').node, (atom 'g').node]],
      (atom 'h').node] := rfl

/-- character level: `GoodAtom` holds for the boolean fields `a`, `b` of a concrete scheme … -/
example (tight : Bool) : ∀ x : Render.AB, Render.GoodAtom Render.exEnv Render.exAtoms tight x :=
  Render.exAtoms_good tight

/-- … `a or b && a and b or a ^^ b and a || b` is a rendering of the eight-operand chain … -/
example : Render.Renders Render.exEnv Render.exAtoms false Render.exSk8
    "a or b && a and b or a ^^ b and a || b".toList := Render.exRenders8

/-- … so the real parser entry point returns `or[a, and[b,a,b], xor[a, and[b,a]], b]` on it -/
example : parseFilter Render.exEnv "a or b && a and b or a ^^ b and a || b".toList =
    .ok (.combining .or
      [.comparison (.field 0 []) .isTrue,
       .combining .and [.comparison (.field 1 []) .isTrue, .comparison (.field 0 []) .isTrue,
         .comparison (.field 1 []) .isTrue],
       .combining .xor [.comparison (.field 0 []) .isTrue,
         .combining .and [.comparison (.field 1 []) .isTrue, .comparison (.field 0 []) .isTrue]],
       .comparison (.field 1 []) .isTrue]) :=
  parse_render_filter Render.exEnv Render.exAtoms false (Render.exAtoms_good false) Render.exSk8 _
    Render.exRenders8 (by decide) (by decide)

/-- `nota  and( b ||a)⏎  xorb` is `xor[and[not a, (or[b,a])], b]`: `not` binds to `a` only -/
example : parseFilter Render.exEnv "nota  and( b ||a)\r\n  xorb".toList =
    .ok (.combining .xor
      [.combining .and
        [.unaryNot (.comparison (.field 0 []) .isTrue),
         .paren (.combining .or [.comparison (.field 1 []) .isTrue,
                                 .comparison (.field 0 []) .isTrue])],
       .comparison (.field 1 []) .isTrue]) :=
  parse_render_filter Render.exEnv Render.exAtoms true (Render.exAtoms_good true) Render.exSk _
    Render.exRenders₃ (by decide) (by decide)

example : OrdOp.ge.intRel (-9223372036854775808) 9223372036854775807 = False := by
  simp [OrdOp.intRel]
example : LexLt [1, 2] [1, 2, 0] := Or.inl ⟨0, [], rfl⟩
example : LexLt [1, 2, 255] [1, 3] := Or.inr ⟨[1], 2, 3, [255], [], rfl, rfl, by decide⟩
example : (Ip.v4 5).isV6 ≠ (Ip.v6 5).isV6 := by decide
example : bitAndNonZero (-1) 4 = true :=
  (bitand_meaning _ _).mpr ⟨2, by decide, by decide, by decide⟩
example : nilDefault { fields := [], funcs := [], lists := [] } (.ordering .ne (.int 0)) = true :=
  (nil_default_iff _ _).mpr ⟨⟨_, rfl⟩, rfl⟩
/-- an absent optional field: `f != 1` is the nil-not-equal setting, `f == 1` is false -/
example :
    EvalsTo { fields := [⟨['f'], .int, true⟩], funcs := [], lists := [] } ⟨[none], []⟩
      [.comparison (.field 0 []) (.ordering .ne (.int 1)),
       .comparison (.field 0 []) (.ordering .eq (.int 1))] [true, false] :=
  ⟨nil_rule_eval _ _ 0 ⟨['f'], .int, true⟩ [] _ (by simp) rfl rfl rfl (by simp),
   nil_rule_eval _ _ 0 ⟨['f'], .int, true⟩ [] _ (by simp) rfl rfl rfl (by simp), trivial⟩

end Examples

end WfModel.C01
