import WfModel.Lemmas.CtxSerdeTree

/-!
# C14 — execution contexts survive serialization and reject bad JSON safely

Property theorems only. Model: `WfModel/Model/CtxSerde.lean`
(`engine/src/execution_context.rs:293-535`, `types.rs:780-828`, `lhs_types/{bytes,array,map}.rs`,
`list_matcher.rs`); helper lemmas: `WfModel/Lemmas/CtxSerde*.lean`.

Conventions. `T : IpText` is `std::net`'s address formatter/parser (abstract, with its round
trip `T.RoundTrip` as a hypothesis); the list matchers are abstract (`ListDef M`: `ser`, `de`,
`new`), their own round trip on the states at hand is the hypothesis `matchersRoundTrip`.
`CtxTyped` = "every stored value has its field's declared type and is a well-formed value";
`CtxRepr` = "integers fit `i64`, addresses fit 32/128 bits" (what Rust can hold at all).
-/
namespace WfModel.C14
open WfModel WfModel.CtxSerde

/-! ## UTF-8: the switch between the two encodings of `Bytes` / map keys is lossless -/

/-- encoding text and decoding it gives the text back (so a JSON string always denotes
exactly its UTF-8 bytes) -/
theorem utf8_dec_enc (cs : List Char) : utf8Decode? (utf8Encode cs) = some cs :=
  CtxSerde.utf8_dec_enc cs

/-- bytes that `from_utf8` accepts are recovered from the decoded text (so emitting a string
for them loses nothing); everything else takes the integer-array form -/
theorem utf8_enc_dec (bs : List UInt8) (cs : List Char) (h : utf8Decode? bs = some cs) :
    utf8Encode cs = bs :=
  CtxSerde.utf8_enc_dec bs cs h

/-- the string form is chosen exactly for valid UTF-8, the integer array otherwise, and both
read back to the same bytes -/
theorem bytes_roundtrip (b : Bytes) : deBytes (serBytes b) = .ok b :=
  deBytes_serBytes b

/-! ## values -/

/-- **Value round trip**: any well-formed value — nested containers to any depth, empty ones,
maps in object form (all keys UTF-8) or in pair-array form (some key not UTF-8) at every
level independently, byte strings in either form, `i64` extremes, v4/v6 addresses —
deserializes, seeded with its own type, to itself. -/
theorem value_roundtrip (T : IpText) (hT : T.RoundTrip) (v : Val)
    (hw : v.wf = true) (hr : valInRange v = true) :
    deVal T v.typeOf (serVal T v) = .ok v :=
  rt_val T hT v hw hr

/-- … and the same after a detour through `serde_json::Value` (objects re-sorted by key). -/
theorem value_roundtrip_valueTree (T : IpText) (hT : T.RoundTrip) (v : Val)
    (hw : v.wf = true) (hr : valInRange v = true) :
    deVal T v.typeOf (serVal T v).sortKeys = .ok v :=
  vt_val T hT v hw hr

/-- **Whatever the JSON**, a value produced by the seeded deserializer has exactly the seed
type and is well formed (homogeneous containers all the way down, strictly ascending keys). -/
theorem value_de_typed (T : IpText) (t : Ty) (j : J) (v : Val) (h : deVal T t j = .ok v) :
    v.typeOf = t ∧ v.wf = true :=
  ty_val T j t v h

/-! ## contexts -/

/-- **Round trip.** A typed context serialized and read back into a fresh context of the
same scheme is the same context: all fields (set and unset), all matcher states. -/
theorem serde_roundtrip {M : Type} (T : IpText) (s : Scheme M) (c : Ctx M)
    (hT : T.RoundTrip) (hs : s.WF) (ht : CtxTyped s c) (hr : CtxRepr c)
    (hm : matchersRoundTrip s.lists c.matchers) :
    deCtx T s (serCtx T s c) (Ctx.new s) = .ok c := by
  obtain ⟨hnd, hl, hlnd, hly⟩ := hs
  obtain ⟨htv, hml⟩ := ht
  have hf := deEntries_fields T id s (fun v hw hr => rt_val T hT v hw hr) hnd hl
    s.fields [] [] c.values (s.lists.map (·.new)) rfl rfl htv hr
  rw [serFieldsG_id] at hf
  simp only [List.nil_append] at hf
  simp only [deCtx, serCtx, Ctx.new, deEntries_append, hf]
  cases hmc : c.matchers with
  | nil =>
    have : s.lists = [] := by
      rw [hmc] at hml
      exact List.eq_nil_of_length_eq_zero hml.symm
    simp only [List.isEmpty_nil, if_true, deEntries, this, List.map_nil]
    cases c
    simp_all
  | cons m ms =>
    have hll := deListEntries_lists s hlnd hly s.lists [] [] c.matchers c.values rfl rfl hml hm
    simp only [List.nil_append] at hll
    rw [hmc] at hll
    simp only [List.isEmpty_cons, Bool.false_eq_true, if_false, deEntries, if_true, deLists, hll]
    cases c
    simp_all

/-- **Corollary (filters agree).** Anything computed from the context — in particular every
filter's result — is the same on the deserialized context. -/
theorem filters_agree {M α : Type} (T : IpText) (s : Scheme M) (c c' : Ctx M)
    (hT : T.RoundTrip) (hs : s.WF) (ht : CtxTyped s c) (hr : CtxRepr c)
    (hm : matchersRoundTrip s.lists c.matchers)
    (h : deCtx T s (serCtx T s c) (Ctx.new s) = .ok c') (eval : Ctx M → α) :
    eval c' = eval c := by
  rw [serde_roundtrip T s c hT hs ht hr hm] at h
  cases h
  rfl

/-- **No ill-typed value is ever stored.** Whatever the document, whatever the context it is
read into: if deserialization succeeds, every stored value still has its field's declared
type (and is well formed). -/
theorem de_typed {M : Type} (T : IpText) (s : Scheme M) (j : J) (c₀ c : Ctx M)
    (h : deCtx T s j c₀ = .ok c) (ht : CtxTyped s c₀) : CtxTyped s c := by
  unfold deCtx at h
  split at h
  · exact deEntries_typed _ ht h
  · simp at h

/-- **Bad input is an error, never a stuck state**: the one `unreachable!()` of the context
deserializer (`SchemeMismatch`) is indeed unreachable, for every document. (The `Type` tag of
a `$lists` entry with more than 33 layers is an `error` in the model — finding F3: the
unfixed code panics there; the correspondence run reports it.) -/
theorem de_never_stuck {M : Type} (T : IpText) (s : Scheme M) (j : J) (c₀ : Ctx M) :
    deCtx T s j c₀ ≠ .error .stuck :=
  deCtx_ne_stuck T s j c₀

/-- unknown field name ⇒ error, before the value is looked at -/
theorem unknown_field_rejected {M : Type} (T : IpText) (s : Scheme M) (k : String) (j : J)
    (rest : List (String × J)) (c₀ : Ctx M) (hk : k ≠ "$lists") (hf : findField k s.fields = none) :
    deCtx T s (.obj ((k, j) :: rest)) c₀ = .error .unknownField := by
  simp [deCtx, deEntries, hk, hf]

/-- a member whose value does not deserialize at its field's type ⇒ that error -/
theorem wrong_type_rejected {M : Type} (T : IpText) (s : Scheme M) (k : String) (j : J)
    (rest : List (String × J)) (c₀ : Ctx M) (i : Nat) (ty : Ty) (e : E) (hk : k ≠ "$lists")
    (hf : findField k s.fields = some (i, ty)) (hd : deVal T ty j = .error e) :
    deCtx T s (.obj ((k, j) :: rest)) c₀ = .error e := by
  simp [deCtx, deEntries, hk, hf, hd]

/-! ## the `serde_json::Value` entry point -/

/-- **Partial**: through a value tree (object keys sorted, at every level) the round trip
holds for schemes **without lists**. Missing for the general claim: `$lists` entries are read
as `type` *then* `data`, and sorting puts `data` first — see `valueTree_general_fails`
(finding F6; the implementation behaves as the model does). -/
theorem serde_roundtrip_valueTree_partial {M : Type} (T : IpText) (s : Scheme M) (c : Ctx M)
    (hT : T.RoundTrip) (hs : s.WF) (ht : CtxTyped s c) (hr : CtxRepr c) (hl : s.lists = []) :
    deCtx T s (serCtx T s c).sortKeys (Ctx.new s) = .ok c := by
  obtain ⟨hnd, hls, _, _⟩ := hs
  obtain ⟨htv, hml⟩ := ht
  have hmc : c.matchers = [] := by
    rw [hl] at hml
    exact List.eq_nil_of_length_eq_zero hml
  have hf := deEntries_fields T J.sortKeys s (fun v hw hr => vt_val T hT v hw hr) hnd hls
    s.fields [] [] c.values (s.lists.map (·.new)) rfl rfl htv hr
  simp only [List.nil_append] at hf
  simp only [deCtx, serCtx, hmc, List.isEmpty_nil, if_true, List.append_nil, J.sortKeys,
    sortKeysObj_eq, serFieldsG_map]
  have hne : (serFieldsG T J.sortKeys s.fields c.values).Pairwise (fun a b => a.1 ≠ b.1) :=
    serFieldsG_nodup hnd
  have hp := strInsertAll_perm (acc := []) (by simpa using hne)
  have hno : ∀ x ∈ serFieldsG T J.sortKeys s.fields c.values, x.1 ≠ "$lists" := by
    intro x hx heq
    exact hls (heq ▸ serFieldsG_keys hx)
  have := deEntries_perm (by simpa using hp.symm) hno hne _ _ hf
  unfold Ctx.new
  rw [this, hl]
  cases c
  simp_all

/-- one list whose matcher has no state at all -/
def unitList : ListDef Unit := { ty := .int, new := (), ser := fun _ => .obj [], de := fun _ => .ok () }

/-- **Negation witness for the general value-tree claim** (F6): the smallest scheme with a
list — no fields, one `Int` list whose matcher serializes to `{}` and accepts anything. The
context is typed, its matcher round-trips, the string/slice/reader form reads back
(`serde_roundtrip`), but the key-sorted tree is rejected because `data` now precedes `type`. -/
theorem valueTree_general_fails (T : IpText) :
    let s : Scheme Unit := { fields := [], lists := [unitList] }
    let c : Ctx Unit := { values := [], matchers := [()] }
    s.WF ∧ CtxTyped s c ∧ CtxRepr c ∧ matchersRoundTrip s.lists c.matchers ∧
      deCtx T s (serCtx T s c) (Ctx.new s) = .ok c ∧
      deCtx T s (serCtx T s c).sortKeys (Ctx.new s) = .error .listKey := by
  refine ⟨⟨by simp, by simp, by simp, ?_⟩, ⟨rfl, rfl⟩, rfl, ⟨rfl, trivial⟩, rfl, rfl⟩
  intro d hd
  simp only [List.mem_singleton] at hd
  subst hd
  decide

/-! ## the hypotheses are satisfiable on a non-trivial instance -/

/-- a concrete (unary) address syntax with a provable round trip -/
def unaryIp : IpText where
  toStr
    | .v4 n => String.ofList ('4' :: List.replicate n 'x')
    | .v6 n => String.ofList ('6' :: List.replicate n 'x')
  ofStr s :=
    match s.toList with
    | '4' :: r => some (.v4 r.length)
    | '6' :: r => some (.v6 r.length)
    | _ => none

example : unaryIp.RoundTrip := by
  intro a _
  cases a <;> simp [unaryIp, String.toList_ofList]

def exScheme : Scheme Unit :=
  { fields := [⟨"m", .map (.array .bytes), false⟩, ⟨"o", .int, true⟩, ⟨"ip", .ip, false⟩],
    lists := [unitList] }

/-- a map with a non-UTF-8 key (pair-array form) holding arrays of byte strings in both forms,
an unset optional field, an address -/
def exCtx : Ctx Unit :=
  { values := [some (.map (.array .bytes)
                 [([0x61], .array .bytes [.bytes [0xff, 0x00], .bytes [0x68, 0x69]]),
                  ([0xc3], .array .bytes [])]),
               none,
               some (.ip (.v4 3))],
    matchers := [()] }

example : exScheme.WF := by
  refine ⟨by decide, by decide, by decide, ?_⟩
  intro d hd
  simp only [exScheme, List.mem_singleton] at hd
  subst hd
  decide
example : CtxTyped exScheme exCtx := ⟨by decide, rfl⟩
example : CtxRepr exCtx := by unfold CtxRepr; decide
example : matchersRoundTrip exScheme.lists exCtx.matchers := ⟨rfl, trivial⟩
example : serCtx unaryIp exScheme exCtx =
    .obj [("m", .arr [.arr [.str "a", .arr [.arr [.int 255, .int 0], .str "hi"]],
                      .arr [.arr [.int 195], .arr []]]),
          ("ip", .str "4xxx"),
          ("$lists", .arr [.obj [("type", .str "Int"), ("data", .obj [])]])] := by rfl

end WfModel.C14
