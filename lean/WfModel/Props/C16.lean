import WfModel.Lemmas.Scheme

/-!
# C16 — a scheme is a consistent registry of uniquely named fields, functions and lists

Property theorems only. Model: `WfModel/Model/Scheme.lean` (`engine/src/scheme.rs:628-960`
builder/registry/lookups, `:428-452` identifier lexing, `:773-785` equality by `Arc`
pointer). Abstract registry `Spec`, invariants `Inv`/`Abs`/`Mono`: `WfModel/Lemmas/Scheme.lean`.

`reach ops` below is the builder reached from `SchemeBuilder::new()` by an arbitrary call
history `ops`; every statement quantifies over all histories.
-/
namespace WfModel.C16
open WfModel WfModel.Scheme

/-- the builder after an arbitrary history of `add_*` calls on `SchemeBuilder::new()` -/
abbrev reach (ops : List Op) : Builder := (Builder.new.run ops).1

/-- **Consistency.** After any history the five containers index each other consistently:
every `items` entry points at the field/function vector slot that carries exactly that
name and vice versa, keys are unique, and likewise `list_types`/`lists`. -/
theorem registry_consistent (ops : List Op) : Inv (reach ops) :=
  inv_run ops _ inv_new

/-- **One namespace.** After any history, `add_field`/`add_optional_field` of `n` succeeds
exactly when no field *or function* is registered under exactly `n`. -/
theorem add_ok_iff_fresh (ops : List Op) (n : Name) (ty : Ty) (o : Bool) :
    (∃ b', (reach ops).addFieldFull n ty o = .ok b') ↔ n ∉ (reach ops).names := by
  rw [← find_items_none_iff _ (registry_consistent ops)]
  unfold Builder.addFieldFull
  cases h : find (reach ops).items n with
  | none => simp
  | some it => cases it <;> simp

/-- … and symmetrically for `add_function`. -/
theorem add_function_ok_iff_fresh (ops : List Op) (n : Name) :
    (∃ b', (reach ops).addFunction n = .ok b') ↔ n ∉ (reach ops).names := by
  rw [← find_items_none_iff _ (registry_consistent ops)]
  unfold Builder.addFunction
  cases h : find (reach ops).items n with
  | none => simp
  | some it => cases it <;> simp

/-- **The error names the holder.** A rejected field registration reports `Field` exactly
when a *field* of that name exists and `Function` exactly when a *function* does; the error
carries the name. -/
theorem add_fail_reports_holder (ops : List Op) (n : Name) (ty : Ty) (o : Bool) (e : Err)
    (h : (reach ops).addFieldFull n ty o = .error e) :
    (e = .fieldRedef n ∧ n ∈ (reach ops).fields.map (·.name)) ∨
    (e = .functionRedef n ∧ n ∈ (reach ops).functions) := by
  have inv := registry_consistent ops
  unfold Builder.addFieldFull at h
  cases hf : find (reach ops).items n with
  | none => rw [hf] at h; simp at h
  | some it =>
    rw [hf] at h
    cases it with
    | field i =>
      simp only [Except.error.injEq] at h
      obtain ⟨d, hd, hn⟩ := inv.field_of_item n i hf
      exact Or.inl ⟨h.symm, List.mem_map.mpr ⟨d, List.mem_of_getElem? hd, hn⟩⟩
    | function i =>
      simp only [Except.error.injEq] at h
      exact Or.inr ⟨h.symm, List.mem_of_getElem? (inv.fn_of_item n i hf)⟩

theorem add_function_fail_reports_holder (ops : List Op) (n : Name) (e : Err)
    (h : (reach ops).addFunction n = .error e) :
    (e = .fieldRedef n ∧ n ∈ (reach ops).fields.map (·.name)) ∨
    (e = .functionRedef n ∧ n ∈ (reach ops).functions) := by
  have inv := registry_consistent ops
  unfold Builder.addFunction at h
  cases hf : find (reach ops).items n with
  | none => rw [hf] at h; simp at h
  | some it =>
    rw [hf] at h
    cases it with
    | field i =>
      simp only [Except.error.injEq] at h
      obtain ⟨d, hd, hn⟩ := inv.field_of_item n i hf
      exact Or.inl ⟨h.symm, List.mem_map.mpr ⟨d, List.mem_of_getElem? hd, hn⟩⟩
    | function i =>
      simp only [Except.error.injEq] at h
      exact Or.inr ⟨h.symm, List.mem_of_getElem? (inv.fn_of_item n i hf)⟩

/-- **A failure changes nothing.** A history containing a rejected call reaches the same
builder, and gives the same later results, as the history without it. -/
theorem add_fail_noop (b : Builder) (op : Op) (e : Err) (rest : List Op)
    (h : b.apply op = .error e) :
    (b.run (op :: rest)).1 = (b.run rest).1 ∧
    (b.run (op :: rest)).2 = some e :: (b.run rest).2 := by
  simp [Builder.run, h]

/-- **At most one list per type.** After any history, `add_list ty` succeeds exactly when
no list is registered for `ty`, and the registered list types never repeat. -/
theorem list_once_per_type (ops : List Op) (ty : Ty) :
    ((∃ b', (reach ops).addList ty = .ok b') ↔ ty ∉ (reach ops).lists) ∧
    (reach ops).lists.Nodup := by
  have inv := registry_consistent ops
  constructor
  · rw [← find_listTypes_none_iff _ inv]
    unfold Builder.addList
    cases h : find (reach ops).listTypes ty <;> simp
  · rw [List.Nodup, List.pairwise_iff_getElem]
    intro i j hi hj hij heq
    have h1 := inv.type_of_list i _ (List.getElem?_eq_getElem hi)
    have h2 := inv.type_of_list j _ (List.getElem?_eq_getElem hj)
    rw [heq, h2] at h1
    simp only [Option.some.injEq] at h1
    omega

/-- **Refinement.** For every history the concrete registry and the abstract registry
(`Name → Option (Kind × Index)`, `Index → registration`, `Ty → Option Index`) return the
same result for every call, and end in related states: every lookup table of the builder
is pointwise the abstract map. -/
theorem registry_refines (ops : List Op) :
    (Builder.new.run ops).2 = (Spec.empty.run ops).2 ∧
    Abs (reach ops) (Spec.empty.run ops).1 :=
  abs_run ops _ _ abs_empty

/-- **Indexes are insertion order.** After any history the field vector is exactly the
successful field registrations in call order (so the k-th successful one has index k),
each field's name resolves to its own position, and the same for functions and lists. -/
theorem index_is_insertion_order (ops : List Op) :
    (reach ops).fields = okFields ops (Builder.new.run ops).2 ∧
    (reach ops).functions = okFunctions ops (Builder.new.run ops).2 ∧
    (reach ops).lists = okLists ops (Builder.new.run ops).2 ∧
    (∀ (i : Nat) d k, (reach ops).fields[i]? = some d → (build (reach ops) k).getField d.name = some i) ∧
    (∀ (i : Nat) n k, (reach ops).functions[i]? = some n → (build (reach ops) k).getFunction n = some i) ∧
    (∀ (i : Nat) t k, (reach ops).lists[i]? = some t → (build (reach ops) k).getList t = some i) := by
  have hv := run_vectors ops Builder.new
  have inv := registry_consistent ops
  refine ⟨by simpa [Builder.new, reach] using hv.1, by simpa [Builder.new, reach] using hv.2.1,
    by simpa [Builder.new, reach] using hv.2.2, ?_, ?_, ?_⟩
  · intro i d k h
    simp [Scheme.getField, Scheme.get, build, inv.item_of_field i d h]
  · intro i n k h
    simp [Scheme.getFunction, Scheme.get, build, inv.item_of_fn i n h]
  · intro i t k h
    simp [Scheme.getList, build, inv.type_of_list i t h]

/-- **A field is reported as registered.** If, after any history `pre`, a field
registration succeeds, then whatever is registered afterwards (`post`), the built scheme
resolves that exact name to the index it got (the number of fields before it) and reports
the type and optionality it was registered with; the count only grows. -/
theorem field_reports_registration (pre post : List Op) (n : Name) (ty : Ty) (o : Bool)
    (b' : Builder) (k : Nat)
    (h : (reach pre).addFieldFull n ty o = .ok b') :
    let s := build (b'.run post).1 k
    s.getField n = some (reach pre).fields.length ∧
    s.fieldDef? (reach pre).fields.length = some ⟨n, ty, o⟩ ∧
    s.getFunction n = none ∧
    (reach pre).fields.length < s.fieldCount := by
  intro s
  have hm := mono_run post b'
  have hitem : find b'.items n = some (.field (reach pre).fields.length) := by
    unfold Builder.addFieldFull at h
    cases hf : find (reach pre).items n with
    | some it => rw [hf] at h; cases it <;> simp at h
    | none =>
      rw [hf] at h; simp only [Except.ok.injEq] at h; subst h
      simp [find_cons]
  have hfield : b'.fields[(reach pre).fields.length]? = some ⟨n, ty, o⟩ := by
    unfold Builder.addFieldFull at h
    cases hf : find (reach pre).items n with
    | some it => rw [hf] at h; cases it <;> simp at h
    | none =>
      rw [hf] at h; simp only [Except.ok.injEq] at h; subst h
      simp
  have h1 := hm.items n _ hitem
  have h2 := hm.fields _ _ hfield
  refine ⟨by simp [s, Scheme.getField, Scheme.get, build, h1], by simpa [s, Scheme.fieldDef?, build] using h2,
    by simp [s, Scheme.getFunction, Scheme.get, build, h1], ?_⟩
  rcases List.getElem?_eq_some_iff.mp h2 with ⟨hi, _⟩
  exact hi

/-- **Lookup is exact.** On a scheme built after any history, `get n` returns an item iff
that very pair is in `items`; `get_field n = i` iff field `i` was registered under exactly
`n` (equality of the whole name: no prefix, suffix or case folding is involved), and the
same for functions. -/
theorem lookup_exact (ops : List Op) (k : Nat) (n : Name) :
    let s := build (reach ops) k
    (∀ it, s.get n = some it ↔ (n, it) ∈ s.b.items) ∧
    (∀ i, s.getField n = some i ↔ ∃ d, s.b.fields[i]? = some d ∧ d.name = n) ∧
    (∀ i, s.getFunction n = some i ↔ s.b.functions[i]? = some n) := by
  intro s
  have inv := registry_consistent ops
  refine ⟨?_, ?_, ?_⟩
  · intro it
    exact ⟨find_some_mem _ _ _, mem_find_of_nodup _ _ _ inv.keys⟩
  · intro i
    constructor
    · intro h
      simp only [Scheme.getField, Scheme.get, s, build] at h
      cases hf : find (reach ops).items n with
      | none => rw [hf] at h; simp at h
      | some it =>
        rw [hf] at h
        cases it with
        | field j =>
          simp only [Option.some.injEq] at h; subst h
          exact inv.field_of_item n j hf
        | function j => simp at h
    · rintro ⟨d, hd, rfl⟩
      simp [Scheme.getField, Scheme.get, s, build, inv.item_of_field i d hd]
  · intro i
    constructor
    · intro h
      simp only [Scheme.getFunction, Scheme.get, s, build] at h
      cases hf : find (reach ops).items n with
      | none => rw [hf] at h; simp at h
      | some it =>
        rw [hf] at h
        cases it with
        | field j => simp at h
        | function j =>
          simp only [Option.some.injEq] at h; subst h
          exact inv.fn_of_item n j hf
    · intro h
      simp [Scheme.getFunction, Scheme.get, s, build, inv.item_of_fn i n h]

/-- **Fields and functions are not interchangeable**: a name never resolves as both, so
`get_field` of a function name and `get_function` of a field name fail. -/
theorem field_function_disjoint (s : Scheme.Scheme) (n : Name) :
    (∀ i, s.getField n = some i → s.getFunction n = none) ∧
    (∀ i, s.getFunction n = some i → s.getField n = none) := by
  constructor <;> intro i h <;>
    simp only [Scheme.getField, Scheme.getFunction] at h ⊢ <;>
    cases hg : s.get n with
    | none => simp_all
    | some it => cases it <;> simp_all

/-- **The identifier token is the maximal dotted name.** `Identifier::lex_with` succeeds
with name `n` and rest `r` exactly when the input is `n ++ r`, `n` is one or more non-empty
runs of `[A-Za-z0-9_]` joined by single dots, and `r` is empty or starts with a character
that is neither an identifier character nor `.` (so `n` cannot be extended, and a dangling
or doubled dot is a lex error, not a shorter name). -/
theorem identifier_maximal (input n r : List Char) :
    identifierSpan input = some (n, r) ↔
      ∃ segs, segs ≠ [] ∧ (∀ g ∈ segs, IdentRun g) ∧ n = joinDots segs ∧ input = n ++ r ∧ Stops r := by
  constructor
  · intro h
    obtain ⟨g, segs, hg, hne, hsegs, hn, hs, hst⟩ := identGo_sound input true n r h
    refine ⟨g :: segs, by simp, ?_, by simp [joinDots, hn], hs, hst⟩
    intro g' hg'
    rcases List.mem_cons.mp hg' with rfl | hg'
    · exact ⟨hne rfl, hg⟩
    · exact hsegs g' hg'
  · rintro ⟨segs, hne, hsegs, rfl, rfl, hst⟩
    cases segs with
    | nil => exact absurd rfl hne
    | cons g gs =>
      have hg : IdentRun g := hsegs g List.mem_cons_self
      exact identGo_complete gs g r true hg.2 (fun _ => hg.1)
        (fun g' hg' => hsegs g' (List.mem_cons_of_mem _ hg')) hst

/-- **Resolution uses only the complete name.** For a dotted name `n` followed by a
stopping rest, resolving `n ++ r` is the single exact lookup of `n`: whether shorter
(`x` for `x.y`), longer or differently-cased names are registered is irrelevant. -/
theorem resolve_complete_name (s : Scheme.Scheme) (segs : List (List Char)) (r : List Char)
    (hne : segs ≠ []) (hsegs : ∀ g ∈ segs, IdentRun g) (hst : Stops r) :
    resolve s (joinDots segs ++ r) =
      match s.get (joinDots segs) with
      | none => .unknown (joinDots segs)
      | some it => .found it (joinDots segs) r := by
  have := (identifier_maximal (joinDots segs ++ r) (joinDots segs) r).mpr
    ⟨segs, hne, hsegs, rfl, rfl, hst⟩
  simp only [resolve, this]
  cases s.get (joinDots segs) <;> rfl

/-- **Scheme identity.** Among the schemes produced by any sequence of `build()` calls, two
compare equal (`Arc::ptr_eq`) exactly when they come from the same `build()` — even when
the builders are structurally identical; a clone (same value) compares equal. -/
theorem scheme_eq_iff_same_build (bs : List Builder) (k i j : Nat) (s t : Scheme.Scheme)
    (hs : (buildAll k bs)[i]? = some s) (ht : (buildAll k bs)[j]? = some t) :
    s.same t = true ↔ i = j := by
  have h1 := (buildAll_getElem? bs k i s hs).1
  have h2 := (buildAll_getElem? bs k j t ht).1
  simp only [Scheme.same, beq_iff_eq, h1, h2]
  omega

theorem scheme_same_refl (s : Scheme.Scheme) : s.same s = true := by simp [Scheme.same]

theorem scheme_same_is_id (s t : Scheme.Scheme) : s.same t = true ↔ s.id = t.id := by
  simp [Scheme.same]

/-! ### Non-vacuity: concrete histories over the colliding name pool -/

private def nm (s : String) : Name := s.toList

/-- `x` (field), `x.y` (function), `X` (optional field), then three rejected calls and a
list: results, holders and indexes are as the theorems say. -/
example :
    (Builder.new.run
      [.addField (nm "x") .int, .addFunction (nm "x.y"), .addOptionalField (nm "X") .bool,
       .addFunction (nm "x"), .addField (nm "x.y") .bytes, .addList .int, .addList .int]).2
    = [none, none, none, some (.fieldRedef (nm "x")), some (.functionRedef (nm "x.y")), none,
       some (.listRedef .int)] := by decide

example :
    let s := build (reach [.addField (nm "x") .int, .addFunction (nm "x.y"),
      .addOptionalField (nm "X") .bool]) 0
    s.getField (nm "X") = some 1 ∧ s.getField (nm "x.y") = none ∧ s.getFunction (nm "x.y") = some 0 ∧
    resolve s (nm "x.y.z == 1") = .unknown (nm "x.y.z") ∧
    resolve s (nm "x.y(1)") = .found (.function 0) (nm "x.y") (nm "(1)") ∧
    resolve s (nm "x. y") = .lexError := by decide

example : (∃ b', (reach [.addFunction (nm "x")]).addFieldFull (nm "x.y") .int false = .ok b') :=
  (add_ok_iff_fresh _ _ _ _).mpr (by decide)

example : IdentRun (nm "x_1") ∧ Stops (nm " == 1") ∧ Stops [] := by
  refine ⟨⟨by decide, by decide⟩, ?_, ?_⟩
  · intro c hc; simp [nm] at hc; subst hc; decide
  · intro c hc; cases hc

example : (build Builder.new 0).same (build Builder.new 1) = false := by decide

end WfModel.C16
