import WfModel.Lemmas.Atoms.Example
import WfModel.Lemmas.Atoms.Extra
import WfModel.Model.Json

/-!
# C01-S / C07-S — the whole-filter theorem made CONCRETE: real comparison atoms

`parse_render_logical` (`Props/C07Render.lean`) is stated over abstract atoms assumed to satisfy
`GoodAtom`. Here `GoodAtom` is PROVED for a syntax of concrete atoms (`CAtom`,
`Lemmas/Atoms.lean`), so that "render a filter, parse it, get exactly the intended AST" holds end
to end — logical operators, comparison operators, aliases, layout, literals, index suffixes,
integer sets and `contains`:

A concrete atom is `name path tail` (`CAtom`, a structure):

* `path : List Ix` — index suffixes as WRITTEN, possibly none: `Ix.arr ws₁ k ws₂ form` is
  `[ws₁ k ws₂]` with `k < 2^32` in decimal / `0x` hex / `0` octal (`FieldIndex::lex` goes through
  the integer lexer), `Ix.key ws₁ items ws₂` is `[ws₁ "…" ws₂]` with the quoted-string rendering
  of C06 (any escape per byte; the bytes must be UTF-8), `Ix.plainKey ws₁ key ws₂` the escape-free
  special case `["key"]` (`plain_key_suffix`). Layout is allowed after `[` and before `]` — exactly
  where `IndexExpr::lex_with` calls `skip_space` — and nowhere else: not between the name and
  `[`, not between `]` and `[`. No `[*]`.
* `tail : Tail` — `isTrue` (nothing: a `Bool` left-hand side), `ord ws₁ op sym ws₂ lit`
  (`ws₁ op ws₂ lit`, `op` any of the six ordering operators as a word `eq ne ge le gt lt` or a
  symbol `== != >= <= > <`, `lit : Lit` an integer dec/hex/oct, quoted byte string with any escape
  per byte, raw string `r#"…"#`, IPv4 dotted quad, IPv6 full or std `Display` form),
  `inInts ws₁ ws₂ ws₀ items` (`ws₁ in ws₂ { ws₀ item ws … item ws }`, every item `a` or `a..b` with
  its own integer forms and the layout after it), `contains ws₁ ws₂ lit` (`lit` quoted or raw),
  `inBytes ws₁ ws₂ ws₀ items` (the same set syntax with quoted / raw string items),
  `inIps ws₁ ws₂ ws₀ items` (IPv4 items `a.b.c.d`, `a.b.c.d..e.f.g.h`, `a.b.c.d/len`),
  `bitAnd ws₁ sym ws₂ form v` (`ws₁ & ws₂ v` / `ws₁ bitwise_and ws₂ v`),
  `inList ws₁ ws₂ ty list name` (`ws₁ in ws₂ $name` on a left-hand side of type `ty` whose list
  in the scheme is `list`).
* `CAtom.boolField name`, `CAtom.cmp name ws₁ op sym ws₂ lit` (and `intCmp`, `bytesCmp`, `rawCmp`,
  `ipCmp`, `ip6Cmp`), `CAtom.inSet`, `CAtom.containsCmp` are the atoms with EMPTY path.
* `CAtom.txt` = name ++ suffixes ++ tail text; `CAtom.node s` = the intended node
  `.comparison (.field i indexes) op` with `i` the index of `name` in the scheme, `indexes` the
  `FieldIndex` values of the suffixes and `op` = `isTrue` / `ordering op value` /
  `oneOf (int ranges)` (the ranges in the order written, `a` as `(a, a)`: nothing is merged or
  sorted at parse time) / `contains bytes` / `oneOf (bytes strings)` / `oneOf (ip ranges)` (a single
  address as its `/32` block) / `bitAnd v` / `inList list name`;
* side conditions (`CAtom.ok`, decidable; spelled out in the hypotheses below): `nameOk` — the
  name is a dotted identifier `seg(.seg)*`; it is not the word `not` itself (a name that merely
  BEGINS with `not` — `notes`, `not_b`, `not.x` — is fine: `LogicalExpr::lex_unary_op` reads a
  registered name as that identifier, see `Props/C16Ident.lean`); the scheme has a field of
  exactly that name, the path is WELL-TYPED for its declared type and ENDS in the tail's type
  (`fieldPathTy`: `Bool` for a bare atom, the literal's type, the item type for `in {…}`, `Bytes`
  for `contains`, `Int` for `&`, the list's type for `in $name`; by recursion on the type:
  `path_typing_by_type`); for `in $name` the scheme has a list registered for that type and the
  name is a run of `a-z 0-9 _ .` not beginning or ending with `.` (`Tail.schemeOk`, `listNameOk`); every suffix is well-formed
  (`Ix.ok`: layout is layout, `k < 2^32`, unescaped key bytes printable ASCII, key bytes UTF-8);
  the tail is (`Tail.ok`: layout is layout; `Lit.ok` — the integer is an `i64`, non-negative for
  hex/octal, unescaped bytes printable ASCII, ≤ 255 hashes and no early terminator in a raw body,
  the address fits its family; set items: both bounds `i64`, `a ≤ b`, every item but the last
  followed by ≥ 1 layout character); where the tail meets a BARE name (empty path) a word
  operator is separated from it (`ws₁ ≠ []`: `ieq 5`, `iin {1}` are identifiers; a symbol need
  not be: `i==5`) and a bare `Bool` field is not called `any`/`all`. After `]` nothing is
  needed (`a[0]eq 5`, `a[0]in{1}`, a field `any : Array Bool` as `any[0]`).
  Nothing is asked of the continuation beyond `Stop` (end of input, a space, `)`, with
  `tight` also `&`, `|`, `^`): none of these extends a digit run, an address, an identifier or an
  index chain.

Section 1d treats the map-each suffix `[*]` and quantifier calls `any( … )` / `all( … )` over such
comparisons SEPARATELY (`EAtom`, `quantifier_parses`, `quantifier_filter_parses`): they cannot be
`GoodAtom`s (`each_atom_not_goodAtom`, `quantifier_not_goodAtom`), so they are not atoms of
`parse_render_concrete`.

Property theorems only.
-/
namespace WfModel.C01Atoms

open WfModel WfModel.Render WfModel.Atoms

/-! ## 1. `GoodAtom` for concrete atoms -/

/-- **goodAtom_boolField** (generalises `boolField_parses` from one-letter names): a bare boolean
field with any valid name. `any`/`all` are excluded because `any (`…  is a quantifier call; the
name `not` itself is excluded because `lex_simple_expr` tries the unary operator first and the
bare word `not` always is that operator. A name that merely begins with `not` is NOT excluded
(it was, before `lex_unary_op`): the scheme has it, so the lexer reads the identifier. -/
theorem goodAtom_boolField (env : PEnv) (tight : Bool) (name : List Char)
    (hname : nameOk name = true) (hnot : name ≠ "not".toList)
    (hany : name ≠ "any".toList) (hall : name ≠ "all".toList)
    (hfield : fieldHasTy env.scheme name .bool = true) :
    GoodAtom env (atoms env.scheme) tight (.boolField name) :=
  goodAtom env tight _ (CAtom.ok_boolField hname hnot hany hall hfield)

/-- **goodAtom_intCmp**: `name ws₁ op ws₂ v` — all six ordering operators, both spellings, any
layout on both sides of the operator, the three radices. -/
theorem goodAtom_intCmp (env : PEnv) (tight : Bool) (name : List Char) (ws₁ ws₂ : Input)
    (op : OrdOp) (sym : Bool) (v : Int) (form : IntForm)
    (hname : nameOk name = true) (hnot : name ≠ "not".toList)
    (hfield : fieldHasTy env.scheme name .int = true)
    (h₁ : Layout ws₁ = true) (h₂ : Layout ws₂ = true) (hsep : sym = true ∨ ws₁ ≠ [])
    (hform : form.admits v = true) (hv : inI64 v = true) :
    GoodAtom env (atoms env.scheme) tight (.intCmp name ws₁ op sym ws₂ v form) :=
  goodAtom env tight _
    (CAtom.ok_cmp hname hnot hfield h₁ h₂ hsep (by simp [Lit.ok, hform, hv]))

/-- the first clause of `goodAtom_intCmp` with text and node spelled out: at every nesting
budget, before every continuation the atom stops at, `ComparisonExpr::lex_with` reads
`name ws₁ op ws₂ v` to `field op Int(v) : Bool` and leaves the continuation -/
theorem intCmp_parses (env : PEnv) (tight : Bool) (name : List Char) (ws₁ ws₂ : Input)
    (op : OrdOp) (sym : Bool) (v : Int) (form : IntForm)
    (hname : nameOk name = true) (hnot : name ≠ "not".toList)
    (hfield : fieldHasTy env.scheme name .int = true)
    (h₁ : Layout ws₁ = true) (h₂ : Layout ws₂ = true) (hsep : sym = true ∨ ws₁ ≠ [])
    (hform : form.admits v = true) (hv : inI64 v = true)
    (n : Nat) (rest : Input) (hstop : Stop tight rest = true) :
    comparisonL env (lowerOf env n)
        (name ++ (ws₁ ++ ((ordAlias op sym).toList ++ (ws₂ ++ renderInt form v))) ++ rest) =
      .ok ({ node := .comparison (.field (fieldIx env.scheme name) []) (.ordering op (.int v)),
             ty := .bool }, rest) :=
  (goodAtom_intCmp env tight name ws₁ ws₂ op sym v form hname hnot hfield h₁ h₂ hsep hform hv).parses
    n rest hstop

/-- **goodAtom_bytesCmp**: a `Bytes` field against a quoted string, every byte written as `\xHH`
(either case per digit), `\OOO`, or itself if printable ASCII (`\"`, `\\` for those two) -/
theorem goodAtom_bytesCmp (env : PEnv) (tight : Bool) (name : List Char) (ws₁ ws₂ : Input)
    (op : OrdOp) (sym : Bool) (items : List (Esc × UInt8))
    (hname : nameOk name = true) (hnot : name ≠ "not".toList)
    (hfield : fieldHasTy env.scheme name .bytes = true)
    (h₁ : Layout ws₁ = true) (h₂ : Layout ws₂ = true) (hsep : sym = true ∨ ws₁ ≠ [])
    (hitems : ∀ it ∈ items, escOk it = true) :
    GoodAtom env (atoms env.scheme) tight (.bytesCmp name ws₁ op sym ws₂ items) :=
  goodAtom env tight _
    (CAtom.ok_cmp hname hnot hfield h₁ h₂ hsep (by simpa [Lit.ok, List.all_eq_true] using hitems))

/-- a `Bytes` field against a raw string `r#…#"body"#…#` -/
theorem goodAtom_rawCmp (env : PEnv) (tight : Bool) (name : List Char) (ws₁ ws₂ : Input)
    (op : OrdOp) (sym : Bool) (k : Nat) (body : List Char)
    (hname : nameOk name = true) (hnot : name ≠ "not".toList)
    (hfield : fieldHasTy env.scheme name .bytes = true)
    (h₁ : Layout ws₁ = true) (h₂ : Layout ws₂ = true) (hsep : sym = true ∨ ws₁ ≠ [])
    (hk : k ≤ 255) (hbody : rawBodyOk k body = true) :
    GoodAtom env (atoms env.scheme) tight (.rawCmp name ws₁ op sym ws₂ k body) :=
  goodAtom env tight _
    (CAtom.ok_cmp hname hnot hfield h₁ h₂ hsep (by simp [Lit.ok, hk, hbody]))

/-- **goodAtom_ipCmp**: an `Ip` field against a dotted quad -/
theorem goodAtom_ipCmp (env : PEnv) (tight : Bool) (name : List Char) (ws₁ ws₂ : Input)
    (op : OrdOp) (sym : Bool) (a : Nat)
    (hname : nameOk name = true) (hnot : name ≠ "not".toList)
    (hfield : fieldHasTy env.scheme name .ip = true)
    (h₁ : Layout ws₁ = true) (h₂ : Layout ws₂ = true) (hsep : sym = true ∨ ws₁ ≠ [])
    (ha : a < 2 ^ 32) :
    GoodAtom env (atoms env.scheme) tight (.ipCmp name ws₁ op sym ws₂ a) :=
  goodAtom env tight _ (CAtom.ok_cmp hname hnot hfield h₁ h₂ hsep (by simpa [Lit.ok] using ha))

/-- an `Ip` field against an IPv6 address in full form (`ip6Cmp`: eight groups) or as std's
`Display` prints it (`Lit.ip6std`: `::` compression, `::ffff:a.b.c.d`) -/
theorem goodAtom_ip6Cmp (env : PEnv) (tight : Bool) (name : List Char) (ws₁ ws₂ : Input)
    (op : OrdOp) (sym : Bool) (a : Nat)
    (hname : nameOk name = true) (hnot : name ≠ "not".toList)
    (hfield : fieldHasTy env.scheme name .ip = true)
    (h₁ : Layout ws₁ = true) (h₂ : Layout ws₂ = true) (hsep : sym = true ∨ ws₁ ≠ [])
    (ha : a < 2 ^ 128) :
    GoodAtom env (atoms env.scheme) tight (.ip6Cmp name ws₁ op sym ws₂ a) ∧
    GoodAtom env (atoms env.scheme) tight (.cmp name ws₁ op sym ws₂ (.ip6std a)) :=
  ⟨goodAtom env tight _ (CAtom.ok_cmp hname hnot hfield h₁ h₂ hsep (by simpa [Lit.ok] using ha)),
   goodAtom env tight _ (CAtom.ok_cmp hname hnot hfield h₁ h₂ hsep (by simpa [Lit.ok] using ha))⟩

/-! ## 1b. Index suffixes, `in { … }`, `contains` -/

/-- **path_typing_by_type**: the typing condition on index paths (`pathTy`, the fold of
`IndexExpr::get_type`'s step) is the recursion on the declared TYPE: an array takes an array
index, a map takes a key, a primitive type takes nothing -/
theorem path_typing_by_type (t : Ty) (p : List FieldIndex) : pathTy t p = tyAt t p :=
  pathTy_eq_tyAt p t

/-- **plain_key_suffix**: the escape-free key suffix `[ws₁ "key" ws₂]` — printable ASCII without
`"` and `\` — has that text, denotes `MapKey(key)` and meets its side conditions -/
theorem plain_key_suffix (ws₁ ws₂ : Input) (key : List Char) (h₁ : Layout ws₁ = true)
    (h₂ : Layout ws₂ = true) (hkey : key.all keyChar = true) :
    (Ix.plainKey ws₁ key ws₂).txt = '[' :: (ws₁ ++ ('"' :: (key ++ '"' :: (ws₂ ++ [']'])))) ∧
    (Ix.plainKey ws₁ key ws₂).val = .key key ∧ (Ix.plainKey ws₁ key ws₂).ok = true :=
  plainKey_spec h₁ h₂ hkey

/-- **index_path_parses**: `IndexExpr::lex_with` on `name` followed by a written path that is
well-typed for the field's declared type returns the field with exactly the path's indexes and
the type the path leads to, and stops there — before everything that does not go on with `[`
(and, after a bare name, with a name character) -/
theorem index_path_parses (env : PEnv) (lower : Option Level) (name : List Char) (path : List Ix)
    (t : Ty) (more : Input)
    (hname : nameOk name = true) (hpath : path.all Ix.ok = true)
    (hfield : fieldPathTy env.scheme name (path.map Ix.val) t = true)
    (hmore : expect more "[" = none) (hbare : path = [] → NameStop more = true) :
    indexExprL env lower (name ++ (pathTxt path ++ more)) =
      .ok ({ node := .field (fieldIx env.scheme name) (path.map Ix.val), ty := t }, more) :=
  indexExprL_path env lower hname (fieldPathTy_spec hfield).1 hpath (fieldPathTy_spec hfield).2
    ⟨hmore, hbare⟩

/-- **index_path_illtyped_rejected** (the typing side condition is necessary): when the written
path does NOT fit the field's declared type, `ComparisonExpr::lex_with` fails with
`InvalidIndexAccess` whatever follows -/
theorem index_path_illtyped_rejected (env : PEnv) (lower : Option Level) (name : List Char)
    (i : Nat) (path : List Ix) (more : Input)
    (hname : nameOk name = true) (hget : env.scheme.get name = some (.field i))
    (hpath : path.all Ix.ok = true)
    (hty : pathTy (env.scheme.fieldTy i) (path.map Ix.val) = none) :
    ∃ e, comparisonL env lower (name ++ (pathTxt path ++ more)) = .error e ∧
      e.kind = .invalidIndexAccess :=
  comparisonL_illtyped env lower hname hget hpath hty

/-- **goodAtom_indexedBool**: `name path` of type `Bool` as a bare atom (`flags["x"]`,
`bits[3]`); with a non-empty path the names `any`/`all` are fine -/
theorem goodAtom_indexedBool (env : PEnv) (tight : Bool) (name : List Char) (path : List Ix)
    (hname : nameOk name = true) (hnot : name ≠ "not".toList)
    (hpath : path.all Ix.ok = true)
    (hfield : fieldPathTy env.scheme name (path.map Ix.val) .bool = true)
    (hj : path ≠ [] ∨ (name ≠ "any".toList ∧ name ≠ "all".toList)) :
    GoodAtom env (atoms env.scheme) tight ⟨name, path, .isTrue⟩ :=
  goodAtom env tight _ (CAtom.ok_of hname hnot hpath rfl hfield
    (hj.imp id fun h => ⟨rfl, fun _ => h⟩))

/-- **goodAtom_indexedCmp**: `name path ws₁ op ws₂ literal` — the comparisons of section 1 on
an indexed left-hand side. A word operator needs no layout after `]`. -/
theorem goodAtom_indexedCmp (env : PEnv) (tight : Bool) (name : List Char) (path : List Ix)
    (ws₁ ws₂ : Input) (op : OrdOp) (sym : Bool) (lit : Lit)
    (hname : nameOk name = true) (hnot : name ≠ "not".toList)
    (hpath : path.all Ix.ok = true)
    (hfield : fieldPathTy env.scheme name (path.map Ix.val) lit.ty = true)
    (h₁ : Layout ws₁ = true) (h₂ : Layout ws₂ = true) (hlit : lit.ok = true)
    (hsep : path ≠ [] ∨ sym = true ∨ ws₁ ≠ []) :
    GoodAtom env (atoms env.scheme) tight ⟨name, path, .ord ws₁ op sym ws₂ lit⟩ :=
  goodAtom env tight _ (CAtom.ok_of hname hnot hpath (by simp [Tail.ok, h₁, h₂, hlit]) hfield
    (hsep.imp id fun h => ⟨by
      rcases h with h | h
      · simp [Tail.sepFromName, h]
      · cases ws₁ with
        | nil => exact absurd rfl h
        | cons _ _ => simp [Tail.sepFromName], fun ht => by cases ht⟩))

/-- the first clause of `goodAtom_indexedCmp` with text and node spelled out -/
theorem indexedCmp_parses (env : PEnv) (tight : Bool) (name : List Char) (path : List Ix)
    (ws₁ ws₂ : Input) (op : OrdOp) (sym : Bool) (lit : Lit)
    (hname : nameOk name = true) (hnot : name ≠ "not".toList)
    (hpath : path.all Ix.ok = true)
    (hfield : fieldPathTy env.scheme name (path.map Ix.val) lit.ty = true)
    (h₁ : Layout ws₁ = true) (h₂ : Layout ws₂ = true) (hlit : lit.ok = true)
    (hsep : path ≠ [] ∨ sym = true ∨ ws₁ ≠ [])
    (n : Nat) (rest : Input) (hstop : Stop tight rest = true) :
    comparisonL env (lowerOf env n)
        (name ++ (pathTxt path ++ (ws₁ ++ ((ordAlias op sym).toList ++ (ws₂ ++ lit.txt)))) ++ rest) =
      .ok ({ node := .comparison (.field (fieldIx env.scheme name) (path.map Ix.val))
               (.ordering op lit.val), ty := .bool }, rest) :=
  (goodAtom_indexedCmp env tight name path ws₁ ws₂ op sym lit hname hnot hpath hfield h₁ h₂ hlit
    hsep).parses n rest hstop

/-- **goodAtom_inSet**: `name path ws₁ in ws₂ { ws₀ item ws … item ws }` for a left-hand side of
type `Int`; every item `a` or `a..b` (`a ≤ b`, each bound in its own radix), every item but the
last followed by at least one layout character, optional layout after `{` and before `}` -/
theorem goodAtom_inSet (env : PEnv) (tight : Bool) (name : List Char) (path : List Ix)
    (ws₁ ws₂ ws₀ : Input) (items : List IntItem)
    (hname : nameOk name = true) (hnot : name ≠ "not".toList)
    (hpath : path.all Ix.ok = true)
    (hfield : fieldPathTy env.scheme name (path.map Ix.val) .int = true)
    (h₁ : Layout ws₁ = true) (h₂ : Layout ws₂ = true) (h₀ : Layout ws₀ = true)
    (hitems : ∀ it ∈ items, it.ok = true) (hsepi : itemsSep items = true)
    (hsep : path ≠ [] ∨ ws₁ ≠ []) :
    GoodAtom env (atoms env.scheme) tight ⟨name, path, .inInts ws₁ ws₂ ws₀ items⟩ :=
  goodAtom env tight _ (CAtom.ok_of hname hnot hpath
    (by simp only [Tail.ok, h₁, h₂, h₀, hsepi, Bool.true_and, Bool.and_true, List.all_eq_true]
        exact hitems) hfield
    (hsep.imp id fun h => ⟨by
      cases ws₁ with
      | nil => exact absurd rfl h
      | cons _ _ => simp [Tail.sepFromName], fun ht => by cases ht⟩))

/-- the first clause of `goodAtom_inSet` with text and node spelled out: the node is
`OneOf(RhsValues::Int(ranges))` with the ranges in the order written (`set_ranges_in_order`) -/
theorem inSet_parses (env : PEnv) (tight : Bool) (name : List Char) (path : List Ix)
    (ws₁ ws₂ ws₀ : Input) (items : List IntItem)
    (hname : nameOk name = true) (hnot : name ≠ "not".toList)
    (hpath : path.all Ix.ok = true)
    (hfield : fieldPathTy env.scheme name (path.map Ix.val) .int = true)
    (h₁ : Layout ws₁ = true) (h₂ : Layout ws₂ = true) (h₀ : Layout ws₀ = true)
    (hitems : ∀ it ∈ items, it.ok = true) (hsepi : itemsSep items = true)
    (hsep : path ≠ [] ∨ ws₁ ≠ [])
    (n : Nat) (rest : Input) (hstop : Stop tight rest = true) :
    comparisonL env (lowerOf env n)
        (name ++ (pathTxt path ++ (ws₁ ++ ("in".toList ++
          (ws₂ ++ ('{' :: (ws₀ ++ (itemsTxt items ++ ['}']))))))) ++ rest) =
      .ok ({ node := .comparison (.field (fieldIx env.scheme name) (path.map Ix.val))
               (.oneOf (.int (itemsVal items))), ty := .bool }, rest) :=
  (goodAtom_inSet env tight name path ws₁ ws₂ ws₀ items hname hnot hpath hfield h₁ h₂ h₀ hitems
    hsepi hsep).parses n rest hstop

/-- **set_ranges_in_order**: the value of a written set, item by item — a single value `a` is
the range `(a, a)`, `a..b` is `(a, b)`; order and duplicates are kept, nothing is merged -/
theorem set_ranges_in_order :
    itemsVal [] = [] ∧
    (∀ f a ws r, itemsVal (.single f a ws :: r) = (a, a) :: itemsVal r) ∧
    (∀ f a g b ws r, itemsVal (.range f a g b ws :: r) = (a, b) :: itemsVal r) ∧
    (∀ r, itemsTxt [] = [] ∧
      (∀ f a ws, itemsTxt (.single f a ws :: r) = renderInt f a ++ (ws ++ itemsTxt r)) ∧
      (∀ f a g b ws, itemsTxt (.range f a g b ws :: r) =
        (renderInt f a ++ ('.' :: '.' :: renderInt g b)) ++ (ws ++ itemsTxt r))) :=
  ⟨rfl, fun _ _ _ _ => rfl, fun _ _ _ _ _ _ => rfl, fun _ => ⟨rfl, fun _ _ _ => rfl,
    fun _ _ _ _ _ => rfl⟩⟩

/-- **goodAtom_contains**: `name path ws₁ contains ws₂ literal` for a left-hand side of type
`Bytes` and a quoted or raw literal -/
theorem goodAtom_contains (env : PEnv) (tight : Bool) (name : List Char) (path : List Ix)
    (ws₁ ws₂ : Input) (lit : Lit)
    (hname : nameOk name = true) (hnot : name ≠ "not".toList)
    (hpath : path.all Ix.ok = true)
    (hfield : fieldPathTy env.scheme name (path.map Ix.val) .bytes = true)
    (h₁ : Layout ws₁ = true) (h₂ : Layout ws₂ = true) (hlit : lit.ok = true)
    (hty : lit.ty = .bytes) (hsep : path ≠ [] ∨ ws₁ ≠ []) :
    GoodAtom env (atoms env.scheme) tight ⟨name, path, .contains ws₁ ws₂ lit⟩ :=
  goodAtom env tight _ (CAtom.ok_of hname hnot hpath (by simp [Tail.ok, h₁, h₂, hlit, hty]) hfield
    (hsep.imp id fun h => ⟨by
      cases ws₁ with
      | nil => exact absurd rfl h
      | cons _ _ => simp [Tail.sepFromName], fun ht => by cases ht⟩))

/-- the first clause of `goodAtom_contains` with text and node spelled out -/
theorem contains_parses (env : PEnv) (tight : Bool) (name : List Char) (path : List Ix)
    (ws₁ ws₂ : Input) (lit : Lit)
    (hname : nameOk name = true) (hnot : name ≠ "not".toList)
    (hpath : path.all Ix.ok = true)
    (hfield : fieldPathTy env.scheme name (path.map Ix.val) .bytes = true)
    (h₁ : Layout ws₁ = true) (h₂ : Layout ws₂ = true) (hlit : lit.ok = true)
    (hty : lit.ty = .bytes) (hsep : path ≠ [] ∨ ws₁ ≠ [])
    (n : Nat) (rest : Input) (hstop : Stop tight rest = true) :
    comparisonL env (lowerOf env n)
        (name ++ (pathTxt path ++ (ws₁ ++ ("contains".toList ++ (ws₂ ++ lit.txt)))) ++ rest) =
      .ok ({ node := .comparison (.field (fieldIx env.scheme name) (path.map Ix.val))
               (.contains lit.bytes), ty := .bool }, rest) :=
  (goodAtom_contains env tight name path ws₁ ws₂ lit hname hnot hpath hfield h₁ h₂ hlit hty
    hsep).parses n rest hstop

/-! ## 1c. `in {…}` on `Bytes` and `Ip`, `&` / `bitwise_and`, `in $list` -/

/-- **goodAtom_inBytesSet**: `name path ws₁ in ws₂ { ws₀ item ws … item ws }` for a left-hand side
of type `Bytes`; every item a quoted (any escape per byte) or raw literal, every item but the last
followed by at least one layout character -/
theorem goodAtom_inBytesSet (env : PEnv) (tight : Bool) (name : List Char) (path : List Ix)
    (ws₁ ws₂ ws₀ : Input) (items : List (Lit × Input))
    (hname : nameOk name = true) (hnot : name ≠ "not".toList)
    (hpath : path.all Ix.ok = true)
    (hfield : fieldPathTy env.scheme name (path.map Ix.val) .bytes = true)
    (h₁ : Layout ws₁ = true) (h₂ : Layout ws₂ = true) (h₀ : Layout ws₀ = true)
    (hitems : ∀ it ∈ items, it.1.ok = true ∧ it.1.ty = .bytes ∧ Layout it.2 = true)
    (hsepi : bytesItemsSep items = true) (hsep : path ≠ [] ∨ ws₁ ≠ []) :
    GoodAtom env (atoms env.scheme) tight ⟨name, path, .inBytes ws₁ ws₂ ws₀ items⟩ :=
  goodAtom env tight _ (CAtom.ok_of hname hnot hpath
    (by simp only [Tail.ok, h₁, h₂, h₀, hsepi, Bool.true_and, Bool.and_true, List.all_eq_true,
          bytesItemOk, Bool.and_eq_true, beq_iff_eq]
        exact fun it hit => ⟨⟨(hitems it hit).1, (hitems it hit).2.1⟩, (hitems it hit).2.2⟩)
    hfield
    (hsep.imp id fun h => ⟨by
      cases ws₁ with
      | nil => exact absurd rfl h
      | cons _ _ => simp [Tail.sepFromName], fun ht => by cases ht⟩))

/-- the first clause of `goodAtom_inBytesSet` with text and node spelled out: the node is
`OneOf(RhsValues::Bytes(strings))`, the strings in the order written (`bytesItemsVal`) -/
theorem inBytesSet_parses (env : PEnv) (tight : Bool) (name : List Char) (path : List Ix)
    (ws₁ ws₂ ws₀ : Input) (items : List (Lit × Input))
    (hname : nameOk name = true) (hnot : name ≠ "not".toList)
    (hpath : path.all Ix.ok = true)
    (hfield : fieldPathTy env.scheme name (path.map Ix.val) .bytes = true)
    (h₁ : Layout ws₁ = true) (h₂ : Layout ws₂ = true) (h₀ : Layout ws₀ = true)
    (hitems : ∀ it ∈ items, it.1.ok = true ∧ it.1.ty = .bytes ∧ Layout it.2 = true)
    (hsepi : bytesItemsSep items = true) (hsep : path ≠ [] ∨ ws₁ ≠ [])
    (n : Nat) (rest : Input) (hstop : Stop tight rest = true) :
    comparisonL env (lowerOf env n)
        (name ++ (pathTxt path ++ (ws₁ ++ ("in".toList ++
          (ws₂ ++ ('{' :: (ws₀ ++ (bytesItemsTxt items ++ ['}']))))))) ++ rest) =
      .ok ({ node := .comparison (.field (fieldIx env.scheme name) (path.map Ix.val))
               (.oneOf (.bytes (bytesItemsVal items))), ty := .bool }, rest) :=
  (goodAtom_inBytesSet env tight name path ws₁ ws₂ ws₀ items hname hnot hpath hfield h₁ h₂ h₀
    hitems hsepi hsep).parses n rest hstop

/-- **goodAtom_inIpSet**: `name path ws₁ in ws₂ { ws₀ item ws … item ws }` for a left-hand side of
type `Ip`; every item an IPv4 dotted quad `a.b.c.d`, an explicit range `a.b.c.d..e.f.g.h` (first
≤ last) or a block `a.b.c.d/len` (`len ≤ 32`, no host bit set) -/
theorem goodAtom_inIpSet (env : PEnv) (tight : Bool) (name : List Char) (path : List Ix)
    (ws₁ ws₂ ws₀ : Input) (items : List IpItem)
    (hname : nameOk name = true) (hnot : name ≠ "not".toList)
    (hpath : path.all Ix.ok = true)
    (hfield : fieldPathTy env.scheme name (path.map Ix.val) .ip = true)
    (h₁ : Layout ws₁ = true) (h₂ : Layout ws₂ = true) (h₀ : Layout ws₀ = true)
    (hitems : ∀ it ∈ items, it.ok = true) (hsepi : ipItemsSep items = true)
    (hsep : path ≠ [] ∨ ws₁ ≠ []) :
    GoodAtom env (atoms env.scheme) tight ⟨name, path, .inIps ws₁ ws₂ ws₀ items⟩ :=
  goodAtom env tight _ (CAtom.ok_of hname hnot hpath
    (by simp only [Tail.ok, h₁, h₂, h₀, hsepi, Bool.true_and, Bool.and_true, List.all_eq_true]
        exact hitems) hfield
    (hsep.imp id fun h => ⟨by
      cases ws₁ with
      | nil => exact absurd rfl h
      | cons _ _ => simp [Tail.sepFromName], fun ht => by cases ht⟩))

/-- the first clause of `goodAtom_inIpSet` with text and node spelled out: the node is
`OneOf(RhsValues::Ip(ranges))` with the ranges in the order written (`ip_set_items_in_order`) -/
theorem inIpSet_parses (env : PEnv) (tight : Bool) (name : List Char) (path : List Ix)
    (ws₁ ws₂ ws₀ : Input) (items : List IpItem)
    (hname : nameOk name = true) (hnot : name ≠ "not".toList)
    (hpath : path.all Ix.ok = true)
    (hfield : fieldPathTy env.scheme name (path.map Ix.val) .ip = true)
    (h₁ : Layout ws₁ = true) (h₂ : Layout ws₂ = true) (h₀ : Layout ws₀ = true)
    (hitems : ∀ it ∈ items, it.ok = true) (hsepi : ipItemsSep items = true)
    (hsep : path ≠ [] ∨ ws₁ ≠ [])
    (n : Nat) (rest : Input) (hstop : Stop tight rest = true) :
    comparisonL env (lowerOf env n)
        (name ++ (pathTxt path ++ (ws₁ ++ ("in".toList ++
          (ws₂ ++ ('{' :: (ws₀ ++ (ipItemsTxt items ++ ['}']))))))) ++ rest) =
      .ok ({ node := .comparison (.field (fieldIx env.scheme name) (path.map Ix.val))
               (.oneOf (.ip (ipItemsVal items))), ty := .bool }, rest) :=
  (goodAtom_inIpSet env tight name path ws₁ ws₂ ws₀ items hname hnot hpath hfield h₁ h₂ h₀ hitems
    hsepi hsep).parses n rest hstop

/-- **ip_set_items_in_order**: the value and the text of a written address set, item by item — a
single address is the `/32` block (`IpCidr::from_str` on a string without `/`), `a..b` the explicit
range, `a/len` the block; order and duplicates are kept, nothing is merged -/
theorem ip_set_items_in_order :
    ipItemsVal [] = [] ∧
    (∀ a ws r, ipItemsVal (.single a ws :: r) = .cidr false a 32 :: ipItemsVal r) ∧
    (∀ a b ws r, ipItemsVal (.range a b ws :: r) = .explicit false a b :: ipItemsVal r) ∧
    (∀ a len ws r, ipItemsVal (.cidr a len ws :: r) = .cidr false a len :: ipItemsVal r) ∧
    (∀ r, ipItemsTxt [] = [] ∧
      (∀ a ws, ipItemsTxt (.single a ws :: r) = dotted a ++ (ws ++ ipItemsTxt r)) ∧
      (∀ a b ws, ipItemsTxt (.range a b ws :: r) =
        (dotted a ++ ('.' :: '.' :: dotted b)) ++ (ws ++ ipItemsTxt r)) ∧
      (∀ a len ws, ipItemsTxt (.cidr a len ws :: r) =
        (dotted a ++ ('/' :: digits 10 len)) ++ (ws ++ ipItemsTxt r))) :=
  ⟨rfl, fun _ _ _ => rfl, fun _ _ _ _ => rfl, fun _ _ _ _ => rfl,
    fun _ => ⟨rfl, fun _ _ => rfl, fun _ _ _ => rfl, fun _ _ _ => rfl⟩⟩

/-- **ip6_set_items_in_order**: IPv6 items written in full (eight hex groups, `v6full`): a single
address is the `/128` block, `a..b` the explicit range, `a/len` the block (`len ≤ 128`, no host bit
set); IPv4 and IPv6 items may be mixed in one set -/
theorem ip6_set_items_in_order :
    (∀ a ws r, ipItemsVal (.single6 a ws :: r) = .cidr true a 128 :: ipItemsVal r) ∧
    (∀ a b ws r, ipItemsVal (.range6 a b ws :: r) = .explicit true a b :: ipItemsVal r) ∧
    (∀ a len ws r, ipItemsVal (.cidr6 a len ws :: r) = .cidr true a len :: ipItemsVal r) ∧
    (∀ r, (∀ a ws, ipItemsTxt (.single6 a ws :: r) = v6full a ++ (ws ++ ipItemsTxt r)) ∧
      (∀ a b ws, ipItemsTxt (.range6 a b ws :: r) =
        (v6full a ++ ('.' :: '.' :: v6full b)) ++ (ws ++ ipItemsTxt r)) ∧
      (∀ a len ws, ipItemsTxt (.cidr6 a len ws :: r) =
        (v6full a ++ ('/' :: digits 10 len)) ++ (ws ++ ipItemsTxt r))) ∧
    (∀ a ws, (IpItem.single6 a ws).ok = (decide (a < 2 ^ 128) && Layout ws)) ∧
    (∀ a b ws, (IpItem.range6 a b ws).ok =
      (decide (a < 2 ^ 128) && decide (b < 2 ^ 128) && decide (a ≤ b) && Layout ws)) ∧
    (∀ a len ws, (IpItem.cidr6 a len ws).ok =
      (decide (a < 2 ^ 128) && decide (len ≤ 128) && decide (a % 2 ^ (128 - len) = 0) &&
        Layout ws)) :=
  ⟨fun _ _ _ => rfl, fun _ _ _ _ => rfl, fun _ _ _ _ => rfl,
    fun _ => ⟨fun _ _ => rfl, fun _ _ _ => rfl, fun _ _ _ => rfl⟩,
    fun _ _ => rfl, fun _ _ _ => rfl, fun _ _ _ => rfl⟩

/-- **bytes_set_items_in_order**: the same for byte-string sets -/
theorem bytes_set_items_in_order :
    bytesItemsVal [] = [] ∧
    (∀ l ws r, bytesItemsVal ((l, ws) :: r) = l.bytes :: bytesItemsVal r) ∧
    bytesItemsTxt [] = [] ∧
    (∀ l ws r, bytesItemsTxt ((l, ws) :: r) = l.txt ++ (ws ++ bytesItemsTxt r)) :=
  ⟨rfl, fun _ _ _ => rfl, rfl, fun _ _ _ => rfl⟩

/-- **goodAtom_bitAnd**: `name path ws₁ & ws₂ v` and `name path ws₁ bitwise_and ws₂ v` for a
left-hand side of type `Int`, the mask an `i64` in decimal / `0x` hex / `0` octal. The symbol may
be glued to a bare name (`i&1`), the word may not (`ibitwise_and 1` is an identifier). -/
theorem goodAtom_bitAnd (env : PEnv) (tight : Bool) (name : List Char) (path : List Ix)
    (ws₁ ws₂ : Input) (sym : Bool) (form : IntForm) (v : Int)
    (hname : nameOk name = true) (hnot : name ≠ "not".toList)
    (hpath : path.all Ix.ok = true)
    (hfield : fieldPathTy env.scheme name (path.map Ix.val) .int = true)
    (h₁ : Layout ws₁ = true) (h₂ : Layout ws₂ = true)
    (hform : form.admits v = true) (hv : inI64 v = true)
    (hsep : path ≠ [] ∨ sym = true ∨ ws₁ ≠ []) :
    GoodAtom env (atoms env.scheme) tight ⟨name, path, .bitAnd ws₁ sym ws₂ form v⟩ :=
  goodAtom env tight _ (CAtom.ok_of hname hnot hpath (by simp [Tail.ok, h₁, h₂, hform, hv]) hfield
    (hsep.imp id fun h => ⟨by
      rcases h with h | h
      · simp [Tail.sepFromName, h]
      · cases ws₁ with
        | nil => exact absurd rfl h
        | cons _ _ => simp [Tail.sepFromName], fun ht => by cases ht⟩))

/-- the first clause of `goodAtom_bitAnd` with text and node spelled out: the node is
`ComparisonOpExpr::Int { op: BitwiseAnd, rhs: v }` of type `Bool` -/
theorem bitAnd_parses (env : PEnv) (tight : Bool) (name : List Char) (path : List Ix)
    (ws₁ ws₂ : Input) (sym : Bool) (form : IntForm) (v : Int)
    (hname : nameOk name = true) (hnot : name ≠ "not".toList)
    (hpath : path.all Ix.ok = true)
    (hfield : fieldPathTy env.scheme name (path.map Ix.val) .int = true)
    (h₁ : Layout ws₁ = true) (h₂ : Layout ws₂ = true)
    (hform : form.admits v = true) (hv : inI64 v = true)
    (hsep : path ≠ [] ∨ sym = true ∨ ws₁ ≠ [])
    (n : Nat) (rest : Input) (hstop : Stop tight rest = true) :
    comparisonL env (lowerOf env n)
        (name ++ (pathTxt path ++ (ws₁ ++ ((if sym then "&" else "bitwise_and").toList ++
          (ws₂ ++ renderInt form v)))) ++ rest) =
      .ok ({ node := .comparison (.field (fieldIx env.scheme name) (path.map Ix.val))
               (.bitAnd v), ty := .bool }, rest) :=
  (goodAtom_bitAnd env tight name path ws₁ ws₂ sym form v hname hnot hpath hfield h₁ h₂ hform hv
    hsep).parses n rest hstop

/-- the two spellings are exactly the `lex_enum!` entries of `IntOp` -/
theorem bitwise_and_aliases_exact :
    (∀ sym, (andAlias sym, CompOp.bitAnd) ∈ comparisonOps) ∧
    (∀ e ∈ comparisonOps, e.2 = CompOp.bitAnd → ∃ sym, e.1 = andAlias sym) := by
  refine ⟨fun sym => by cases sym <;> decide, ?_⟩
  intro e he h2
  simp only [comparisonOps, orderingOps, List.map_cons, List.map_nil, List.cons_append,
    List.nil_append, List.mem_cons, List.not_mem_nil, or_false] at he
  rcases he with rfl | rfl | rfl | rfl | rfl | rfl | rfl | rfl | rfl | rfl | rfl | rfl | rfl |
    rfl | rfl | rfl | rfl | rfl | rfl | rfl <;>
    first | exact ⟨true, rfl⟩ | exact ⟨false, rfl⟩ | cases h2

/-- **goodAtom_inList**: `name path ws₁ in ws₂ $listname` for a left-hand side of type `ty` ∈
{`Int`, `Ip`, `Bytes`} for which the scheme has a list registered (`Scheme::get_list`, index
`list`); the list name is a non-empty run of `a-z 0-9 _ .` that neither begins nor ends with `.`
(`listNameOk`; the alphabet of `impl Lex for ListName`) -/
theorem goodAtom_inList (env : PEnv) (tight : Bool) (name : List Char) (path : List Ix)
    (ws₁ ws₂ : Input) (ty : Ty) (list : Nat) (listName : List Char)
    (hname : nameOk name = true) (hnot : name ≠ "not".toList)
    (hpath : path.all Ix.ok = true)
    (hfield : fieldPathTy env.scheme name (path.map Ix.val) ty = true)
    (h₁ : Layout ws₁ = true) (h₂ : Layout ws₂ = true)
    (hty : ty = .int ∨ ty = .ip ∨ ty = .bytes)
    (hlist : env.scheme.getList ty = some list)
    (hln : listNameOk listName = true)
    (hsep : path ≠ [] ∨ ws₁ ≠ []) :
    GoodAtom env (atoms env.scheme) tight ⟨name, path, .inList ws₁ ws₂ ty list listName⟩ :=
  goodAtom env tight _ (CAtom.ok_of hname hnot hpath
    (by rcases hty with h | h | h <;> simp [Tail.ok, h₁, h₂, hln, h]) hfield
    (hsep.imp id fun h => ⟨by
      cases ws₁ with
      | nil => exact absurd rfl h
      | cons _ _ => simp [Tail.sepFromName], fun ht => by cases ht⟩)
    (by simp [Tail.schemeOk, hlist]))

/-- the first clause of `goodAtom_inList` with text and node spelled out: the node is
`ComparisonOpExpr::InList { list, name }` with `list` the scheme's list for the type -/
theorem inList_parses (env : PEnv) (tight : Bool) (name : List Char) (path : List Ix)
    (ws₁ ws₂ : Input) (ty : Ty) (list : Nat) (listName : List Char)
    (hname : nameOk name = true) (hnot : name ≠ "not".toList)
    (hpath : path.all Ix.ok = true)
    (hfield : fieldPathTy env.scheme name (path.map Ix.val) ty = true)
    (h₁ : Layout ws₁ = true) (h₂ : Layout ws₂ = true)
    (hty : ty = .int ∨ ty = .ip ∨ ty = .bytes)
    (hlist : env.scheme.getList ty = some list)
    (hln : listNameOk listName = true)
    (hsep : path ≠ [] ∨ ws₁ ≠ [])
    (n : Nat) (rest : Input) (hstop : Stop tight rest = true) :
    comparisonL env (lowerOf env n)
        (name ++ (pathTxt path ++ (ws₁ ++ ("in".toList ++ (ws₂ ++ ('$' :: listName))))) ++ rest) =
      .ok ({ node := .comparison (.field (fieldIx env.scheme name) (path.map Ix.val))
               (.inList list listName), ty := .bool }, rest) :=
  (goodAtom_inList env tight name path ws₁ ws₂ ty list listName hname hnot hpath hfield h₁ h₂ hty
    hlist hln hsep).parses n rest hstop

/-- **in_list_needs_registered_list**: without a list registered for the field's type, `in $name`
is rejected (`UnsupportedOp`-style error of `lex_with_lhs`), whatever the name -/
theorem in_list_needs_registered_list (env : PEnv) (lhs : IExpr) (ty : Ty)
    (hty : ty = .int ∨ ty = .ip ∨ ty = .bytes) (hnone : env.scheme.getList ty = none)
    (ws₁ ws₂ : Input) (h₁ : Layout ws₁ = true) (h₂ : Layout ws₂ = true) (listName rest : Input) :
    ∃ e, cmpWithLhs env lhs ty (ws₁ ++ ("in".toList ++ (ws₂ ++ ('$' :: (listName ++ rest))))) =
      .error e :=
  Atoms.inList_unregistered env lhs ty hty hnone ws₁ ws₂ h₁ h₂ listName rest

/-! ## 1d. The map-each suffix `[*]` and quantifier calls

`EAtom` (`Lemmas/Atoms/Each.lean`) is `name path tail` where `path : List EIx` may contain
`[ws₁ * ws₂]` next to the suffixes of `Ix`, and contains at least one. These are NOT `GoodAtom`s and
quantifier calls are not either (`each_atom_not_goodAtom`, `quantifier_not_goodAtom`): they are
stated on their own, not as atoms of `parse_render_concrete`. -/

/-- **each_atom_is_array_of_bool**: `ComparisonExpr::lex_with` reads `name path tail` with `[*]` in
a path that is well-typed for the field (`[*]` on an array or a map steps to the element type) to
the comparison on the indexed field — of type `Array(Bool)`: the comparison is mapped over the
elements. Side conditions `EAtom.ok`: valid name other than `not`, well-formed suffixes and tail,
the scheme has the field, the path ends in the tail's type, ≥ 1 `[*]`. -/
theorem each_atom_is_array_of_bool (env : PEnv) (n : Nat) (tight : Bool) (a : EAtom)
    (hok : a.ok env.scheme = true) (rest : Input) (hstop : Stop tight rest = true) :
    comparisonL env (lowerOf env n) (a.name ++ (epathTxt a.path ++ a.tail.txt) ++ rest) =
      .ok ({ node := .comparison (.field (fieldIx env.scheme a.name) (a.path.map EIx.val))
               a.tail.op, ty := .array .bool }, rest) :=
  eachAtom_comparison env (lowerOf env n) tight a hok rest hstop

/-- **quantifier_parses**: `any ws₀ ( ws₁ name path tail ws₂ )` and `all …` — `tail` a proper
comparison (not the bare `Bool` case: `any(flags[*])` is rejected, an index expression with `[*]`
never is an `Array(Bool)` argument) — are read by `LogicalExpr::lex_simple_expr` to
`Quantifier { op, arg: Logical(comparison) }` of type `Bool`, at every nesting budget ≥ 1,
whatever follows the closing parenthesis -/
theorem quantifier_parses (env : PEnv) (n : Nat) (q : QOp) (ws₀ ws₁ ws₂ : Input) (a : EAtom)
    (h₀ : Layout ws₀ = true) (h₁ : Layout ws₁ = true) (h₂ : Layout ws₂ = true)
    (hok : a.ok env.scheme = true) (hcmp : a.tail ≠ .isTrue) (rest : Input) :
    simpleL env (lowerOf env (n + 1))
        ((match q with | .any => "any" | .all => "all").toList ++ (ws₀ ++ '(' :: (ws₁ ++
          ((a.name ++ (epathTxt a.path ++ a.tail.txt)) ++ (ws₂ ++ ')' :: rest))))) =
      .ok ({ node := .quantifier q (.logical
               (.comparison (.field (fieldIx env.scheme a.name) (a.path.map EIx.val)) a.tail.op)),
             ty := .bool }, rest) := by
  have := quantifier_simple env n q ws₀ ws₁ ws₂ a h₀ h₁ h₂ hok hcmp rest
  cases q <;> exact this

/-- **quantifier_filter_parses**: the same as a whole filter through `FilterParser::parse`
(nesting budget ≥ 1; `htrim`: the text is what `str::trim` leaves — decidable on a given text) -/
theorem quantifier_filter_parses (env : PEnv) (q : QOp) (ws₀ ws₁ ws₂ : Input) (a : EAtom)
    (h₀ : Layout ws₀ = true) (h₁ : Layout ws₁ = true) (h₂ : Layout ws₂ = true)
    (hok : a.ok env.scheme = true) (hcmp : a.tail ≠ .isTrue) (hd : 1 ≤ env.st.maxDepth)
    (htrim : trim ((quantWord q).toList ++ (ws₀ ++ '(' :: (ws₁ ++ (a.txt ++ (ws₂ ++ [')']))))) =
      (quantWord q).toList ++ (ws₀ ++ '(' :: (ws₁ ++ (a.txt ++ (ws₂ ++ [')']))))) :
    parseFilter env ((quantWord q).toList ++ (ws₀ ++ '(' :: (ws₁ ++ (a.txt ++ (ws₂ ++ [')']))))) =
      .ok (.quantifier q (.logical (a.node env.scheme))) :=
  quantifier_filter env q ws₀ ws₁ ws₂ a h₀ h₁ h₂ hok hcmp hd htrim

/-- **each_atom_not_goodAtom**: no choice of intended node makes an atom with `[*]` a `GoodAtom`
(its comparison has type `Array(Bool)`, `GoodAtom.parses` asks for `Bool`) -/
theorem each_atom_not_goodAtom {α : Type} (env : PEnv) (A : Atoms α) (tight : Bool) (x : α)
    (a : EAtom) (hok : a.ok env.scheme = true) (htxt : A.txt x = a.txt) :
    ¬ GoodAtom env A tight x :=
  eachAtom_not_goodAtom env A tight x a hok htxt

/-- **quantifier_not_goodAtom**: no text `any ws₀ ( …` / `all ws₀ ( …` is the text of a `GoodAtom`
(`GoodAtom.noQuant` asks that it is NOT taken for a quantifier call): `parse_render_logical` as
stated cannot have quantifier calls among its atoms -/
theorem quantifier_not_goodAtom {α : Type} (env : PEnv) (A : Atoms α) (tight : Bool) (x : α)
    (q : QOp) (ws₀ t : Input) (h₀ : Layout ws₀ = true)
    (htxt : A.txt x = (quantWord q).toList ++ (ws₀ ++ '(' :: t)) : ¬ GoodAtom env A tight x :=
  Atoms.quantifier_not_goodAtom env A tight x q ws₀ t h₀ htxt

/-- **all of them at once**, on the decidable side condition `CAtom.ok` -/
theorem goodAtom_concrete (env : PEnv) (tight : Bool) (a : CAtom)
    (hok : a.ok env.scheme = true) : GoodAtom env (atoms env.scheme) tight a :=
  goodAtom env tight a hok

/-- the alias choice `sym` covers the `lex_enum!` table of `OrderingOp` exactly: both spellings
of every operator are entries, and every entry is one of them -/
theorem ordering_aliases_exact :
    (∀ op sym, (ordAlias op sym, op) ∈ orderingOps) ∧
    (∀ e ∈ orderingOps, ∃ sym, e.1 = ordAlias e.2 sym) :=
  ⟨ordAlias_mem, ordAlias_covers⟩

/-! ## 2. Whole filters over concrete atoms -/

/-- **parse_render_concrete** (parser level): for every skeleton `sk` over concrete atoms all of
which meet their side conditions, every rendering `s` (any alias at every logical operator, any
layout there; inside the atoms whatever spelling / layout / literal form the atoms carry), every
budget covering its nesting and every admissible continuation: `LogicalExpr::lex_with` reads
exactly `s` and returns the intended AST. -/
theorem parse_render_concrete_level (env : PEnv) (tight : Bool) (sk : Sk CAtom)
    (hok : allAtoms (CAtom.ok env.scheme) sk = true) (s : Input) (n : Nat)
    (hr : Renders env (atoms env.scheme) tight sk s) (hn : depth sk ≤ n)
    (rest : Input) (hrest : Admissible tight sk rest) :
    (level env n).logical (s ++ rest) =
      .ok ({ node := canon (atoms env.scheme) sk, ty := .bool }, rest) :=
  logical_on env (atoms env.scheme) tight (CAtom.ok env.scheme)
    (fun a h => goodAtom env tight a h) sk hok s n hr hn rest hrest

/-- **parse_render_concrete** (whole filter): `FilterParser::parse` on a rendering returns
exactly `canon sk` — the `layered` tree (and > xor > or, flat) over the nodes
`field op value` / bare field. -/
theorem parse_render_concrete (env : PEnv) (tight : Bool) (sk : Sk CAtom)
    (hok : allAtoms (CAtom.ok env.scheme) sk = true) (s : Input)
    (hr : Renders env (atoms env.scheme) tight sk s) (hd : depth sk ≤ env.st.maxDepth)
    (htrim : trim s = s) :
    parseFilter env s = .ok (canon (atoms env.scheme) sk) :=
  filter_concrete env tight sk hok s hr hd htrim

/-- the intended AST depends only on the *cores* of the atoms (field, operator, value): not on
the operator spelling, not on the layout, not on how the literal is written -/
theorem meaning_depends_on_cores (s : Scheme) (sk₁ sk₂ : Sk CAtom)
    (h : mapSk CAtom.core sk₁ = mapSk CAtom.core sk₂) :
    canon (atoms s) sk₁ = canon (atoms s) sk₂ := by
  rw [canon_core, canon_core, h]

/-- **alias_layout_invariance_concrete**: two texts that spell the same filter — same logical
structure, same fields, operators and VALUES (`mapSk core`), but different aliases of the logical
operators, different aliases of the comparison operators, different layout between all tokens
(also around comparison operators), different literal forms (radix, escapes, `::`) — parse to
the SAME AST, hence the same JSON document, JSON text and FNV-1a hash. -/
theorem alias_layout_invariance_concrete (env : PEnv) (tight₁ tight₂ : Bool)
    (sk₁ sk₂ : Sk CAtom)
    (hok₁ : allAtoms (CAtom.ok env.scheme) sk₁ = true)
    (hok₂ : allAtoms (CAtom.ok env.scheme) sk₂ = true)
    (hsame : mapSk CAtom.core sk₁ = mapSk CAtom.core sk₂)
    (s₁ s₂ : Input)
    (h₁ : Renders env (atoms env.scheme) tight₁ sk₁ s₁) (h₂ : Renders env (atoms env.scheme) tight₂ sk₂ s₂)
    (hd : depth sk₁ ≤ env.st.maxDepth) (ht₁ : trim s₁ = s₁) (ht₂ : trim s₂ = s₂) :
    ∃ e₁ e₂ : LExpr, parseFilter env s₁ = .ok e₁ ∧ parseFilter env s₂ = .ok e₂ ∧
      e₁ = e₂ ∧ e₁ = canon (coreAtoms env.scheme) (mapSk CAtom.core sk₁) ∧
      lexprJ env.scheme e₁ = lexprJ env.scheme e₂ ∧
      astJsonText env.scheme e₁ = astJsonText env.scheme e₂ ∧
      fnv1a64 (astJsonText env.scheme e₁).toUTF8.toList =
        fnv1a64 (astJsonText env.scheme e₂).toUTF8.toList := by
  have hd₂ : depth sk₂ ≤ env.st.maxDepth := by
    rw [← depth_mapSk CAtom.core sk₂, ← hsame, depth_mapSk]; exact hd
  have e := meaning_depends_on_cores env.scheme sk₁ sk₂ hsame
  refine ⟨canon (atoms env.scheme) sk₁, canon (atoms env.scheme) sk₂,
    parse_render_concrete env tight₁ sk₁ hok₁ s₁ h₁ hd ht₁,
    parse_render_concrete env tight₂ sk₂ hok₂ s₂ h₂ hd₂ ht₂, e, canon_core _ _, ?_, ?_, ?_⟩ <;>
    rw [e]

/-- the form used on outcomes -/
theorem alias_layout_same_outcome_concrete (env : PEnv) (tight₁ tight₂ : Bool)
    (sk₁ sk₂ : Sk CAtom)
    (hok₁ : allAtoms (CAtom.ok env.scheme) sk₁ = true)
    (hok₂ : allAtoms (CAtom.ok env.scheme) sk₂ = true)
    (hsame : mapSk CAtom.core sk₁ = mapSk CAtom.core sk₂)
    (s₁ s₂ : Input)
    (h₁ : Renders env (atoms env.scheme) tight₁ sk₁ s₁) (h₂ : Renders env (atoms env.scheme) tight₂ sk₂ s₂)
    (hd : depth sk₁ ≤ env.st.maxDepth) (ht₁ : trim s₁ = s₁) (ht₂ : trim s₂ = s₂) :
    parseFilter env s₁ = parseFilter env s₂ := by
  obtain ⟨e₁, e₂, p₁, p₂, e, _⟩ := alias_layout_invariance_concrete env tight₁ tight₂ sk₁ sk₂
    hok₁ hok₂ hsame s₁ s₂ h₁ h₂ hd ht₁ ht₂
  rw [p₁, p₂, e]

/-! ## Non-vacuity: a concrete scheme, concrete texts -/

section Examples

/-- scheme `i : Int`, `b : Bool`, `tcp.port : Int`, `ip.src : Ip`, `http.host : Bytes`: the side
conditions hold of the atoms `tcp.port ge 80`, `tcp.port>=80`, `tcp.port  >= 0x50`, `i ==  -5`,
`i eq -5`, `b`, `http.host eq "a\x2E\"z"`, `ip.src!=10.0.0.1` -/
example : ∀ a ∈ [aPortWord, aPortSym, aPortHex, aISym, aIWord, aB, aHost, aSrc],
    a.ok cScheme = true := by decide

/-- so each of them is a `GoodAtom` (both settings of `tight`) -/
example (tight : Bool) : GoodAtom cEnv (atoms cScheme) tight aPortSym ∧
    GoodAtom cEnv (atoms cScheme) tight aISym ∧ GoodAtom cEnv (atoms cScheme) tight aHost :=
  ⟨goodAtom_concrete cEnv tight _ (by decide), goodAtom_concrete cEnv tight _ (by decide),
    goodAtom_concrete cEnv tight _ (by decide)⟩

/-- their texts -/
example : (atoms cScheme).txt aPortWord = "tcp.port ge 80".toList ∧
    (atoms cScheme).txt aPortSym = "tcp.port>=80".toList ∧
    (atoms cScheme).txt aPortHex = "tcp.port  >= 0x50".toList ∧
    (atoms cScheme).txt aISym = "i ==  -5".toList ∧
    (atoms cScheme).txt aIWord = "i eq -5".toList ∧
    (atoms cScheme).txt aHost = "http.host eq \"a\\x2E\\\"z\"".toList ∧
    (atoms cScheme).txt aSrc = "ip.src!=10.0.0.1".toList :=
  ⟨txt_aPortWord, txt_aPortSym, txt_aPortHex, txt_aISym, txt_aIWord, txt_aHost, txt_aSrc⟩

/-- three spellings of one filter: the skeletons differ only inside the atoms (alias, layout,
radix) — same cores; and each text is a rendering of its skeleton -/
example : mapSk CAtom.core cSk₁ = mapSk CAtom.core cSk₂ ∧
    mapSk CAtom.core cSk₂ = mapSk CAtom.core cSk₃ := ⟨rfl, rfl⟩

example : Renders cEnv (atoms cScheme) true cSk₁ "tcp.port ge 80 and not (i ==  -5 or b)".toList ∧
    Renders cEnv (atoms cScheme) true cSk₂ "tcp.port>=80&&!(i eq -5||b)".toList ∧
    Renders cEnv (atoms cScheme) true cSk₃ "tcp.port  >= 0x50\n&& not( i eq -5 or b )".toList :=
  ⟨cRenders₁, cRenders₂, cRenders₃⟩

/-- **the worked example**: `tcp.port ge 80 and not (i ==  -5 or b)` and
`tcp.port>=80&&!(i eq -5||b)` parse to the same explicit AST
`and[ tcp.port >= 80, not (or[ i == -5, b ]) ]` (fields by index: `i` 0, `b` 1, `tcp.port` 2) … -/
example : parseFilter cEnv "tcp.port ge 80 and not (i ==  -5 or b)".toList = .ok cAst ∧
    parseFilter cEnv "tcp.port>=80&&!(i eq -5||b)".toList = .ok cAst :=
  ⟨parse_render_concrete cEnv true cSk₁ (by decide) _ cRenders₁ (by decide) (by decide),
   parse_render_concrete cEnv true cSk₂ (by decide) _ cRenders₂ (by decide) (by decide)⟩

example : cAst =
    .combining .and
      [.comparison (.field 2 []) (.ordering .ge (.int 80)),
       .unaryNot (.paren (.combining .or
         [.comparison (.field 0 []) (.ordering .eq (.int (-5))),
          .comparison (.field 1 []) .isTrue]))] := rfl

/-- … and so does the spelling with a hexadecimal literal, a newline and `not(`; by the
invariance theorem also JSON and hash agree -/
example : parseFilter cEnv cText₁ = parseFilter cEnv cText₃ :=
  alias_layout_same_outcome_concrete cEnv true true cSk₁ cSk₃ (by decide) (by decide) rfl _ _
    cRenders₁ cRenders₃ (by decide) (by decide) (by decide)

/-- a byte string with three kinds of escapes and an address -/
example : parseFilter cEnv "http.host eq \"a\\x2E\\\"z\" or ip.src!=10.0.0.1".toList = .ok cAst₄ :=
  parse_render_concrete cEnv false cSk₄ (by decide) _ cRenders₄ (by decide) (by decide)

/-- the side condition `ws₁ ≠ []` for word spellings is sharp (`ieq` is ONE identifier) … -/
example : (match parseFilter cEnv "ieq 5".toList with | .ok _ => true | .error _ => false) = false := by
  decide

/-- … no space is needed after the operator (`lex_enum!` looks for no word boundary), nor
around a symbol -/
example : parseFilter cEnv "i eq5".toList =
      .ok (.comparison (.field 0 []) (.ordering .eq (.int 5))) ∧
    parseFilter cEnv "i==5".toList = .ok (.comparison (.field 0 []) (.ordering .eq (.int 5))) :=
  ⟨parse_render_concrete cEnv false (.atom aI5Word) (by decide) _ cRenders₅ (by decide) (by decide),
   parse_render_concrete cEnv false (.atom aI5Sym) (by decide) _ cRenders₆ (by decide) (by decide)⟩

/-- **names beginning with `not`** (`lex_unary_op`). (a) With a field `not_b : Bool` registered,
the filter `not_b` is the bare field node (it used to be `not` applied to the unknown `_b`) … -/
example :
    let env : PEnv :=
      { scheme := { fields := [⟨"not_b".toList, .bool, false⟩], funcs := [], lists := [] }, st := {} }
    parseFilter env "not_b".toList = .ok (.comparison (.field 0 []) .isTrue) := rfl

/-- … by the general theorem: `not_b` meets the side conditions of a bare boolean field -/
example :
    let env : PEnv :=
      { scheme := { fields := [⟨"not_b".toList, .bool, false⟩], funcs := [], lists := [] }, st := {} }
    GoodAtom env (atoms env.scheme) true (.boolField "not_b".toList) :=
  goodAtom_boolField _ true _ (by decide) (by decide) (by decide) (by decide) (by decide)

/-- (b) with only `_b` registered, `not_b` still is `not _b`: the glued word is the operator
whenever the glued text is no registered name … -/
example :
    let env : PEnv :=
      { scheme := { fields := [⟨"_b".toList, .bool, false⟩], funcs := [], lists := [] }, st := {} }
    parseFilter env "not_b".toList = .ok (.unaryNot (.comparison (.field 0 []) .isTrue)) := rfl

/-- … and with BOTH registered the complete name wins: `not_b` is field 1, `not _b` is `not`
applied to field 0 -/
example :
    let env : PEnv :=
      { scheme := { fields := [⟨"_b".toList, .bool, false⟩, ⟨"not_b".toList, .bool, false⟩],
                    funcs := [], lists := [] }, st := {} }
    parseFilter env "not_b".toList = .ok (.comparison (.field 1 []) .isTrue) ∧
    parseFilter env "not _b".toList = .ok (.unaryNot (.comparison (.field 0 []) .isTrue)) :=
  ⟨rfl, rfl⟩

/-- (c) `notes == "x"` with the `Bytes` fields `notes` (0) and `es` (1) compares the field
`notes` (it used to be `not es == "x"`); `not es == "x"` still negates the comparison on `es` -/
example :
    let env : PEnv :=
      { scheme := { fields := [⟨"notes".toList, .bytes, false⟩, ⟨"es".toList, .bytes, false⟩],
                    funcs := [], lists := [] }, st := {} }
    parseFilter env "notes == \"x\"".toList =
        .ok (.comparison (.field 0 []) (.ordering .eq (.bytes { fmt := .quoted, data := [120] }))) ∧
    parseFilter env "not es == \"x\"".toList =
        .ok (.unaryNot
          (.comparison (.field 1 []) (.ordering .eq (.bytes { fmt := .quoted, data := [120] })))) :=
  ⟨rfl, rfl⟩

/-- the remaining side condition `name ≠ not` is sharp: a field literally called `not` cannot
be written as an operand — the bare word is the operator (nothing is glued to it) -/
example :
    let env : PEnv :=
      { scheme := { fields := [⟨"not".toList, .bool, false⟩], funcs := [], lists := [] }, st := {} }
    (match parseFilter env "not".toList with | .ok _ => true | .error _ => false) = false := by
  decide

/-! ### index suffixes, `in { … }`, `contains`

the scheme also has `tcp.ports : Array Int` (5), `http.headers : Map Bytes` (6),
`m : Map (Array Bytes)` (7), `flags : Map Bool` (8) -/

/-- the side conditions hold of `tcp.ports[0] == 80`, `tcp.ports[ 0x0⏎]eq 0x50`,
`http.headers["host"] contains "x"`, `http.headers[ "ho\x73t" ]contains"\x78"`,
`m["a"][0] == "v"`, `flags["x"]`, `tcp.port in {80 443 8000..8100}`,
`tcp.port in{ 0x50 443⏎8000..8100 }` -/
example : ∀ a ∈ [aPorts0, aPorts0Alt, aHdr, aHdrAlt, aM, aFlag, aIn, aInAlt],
    a.ok cScheme = true := by decide

/-- their texts -/
example : (atoms cScheme).txt aPorts0 = "tcp.ports[0] == 80".toList ∧
    (atoms cScheme).txt aPorts0Alt = "tcp.ports[ 0x0\n]eq 0x50".toList ∧
    (atoms cScheme).txt aHdr = "http.headers[\"host\"] contains \"x\"".toList ∧
    (atoms cScheme).txt aHdrAlt = "http.headers[ \"ho\\x73t\" ]contains\"\\x78\"".toList ∧
    (atoms cScheme).txt aM = "m[\"a\"][0] == \"v\"".toList ∧
    (atoms cScheme).txt aFlag = "flags[\"x\"]".toList ∧
    (atoms cScheme).txt aIn = "tcp.port in {80 443 8000..8100}".toList ∧
    (atoms cScheme).txt aInAlt = "tcp.port in{ 0x50 443\n8000..8100 }".toList :=
  ⟨txt_aPorts0, txt_aPorts0Alt, txt_aHdr, txt_aHdrAlt, txt_aM, txt_aFlag, txt_aIn, txt_aInAlt⟩

/-- their nodes: field by index, the `FieldIndex` values of the suffixes, the operator; a set is
the list of its ranges in the order written -/
example : (atoms cScheme).node aM =
      .comparison (.field 7 [.key "a".toList, .arr 0])
        (.ordering .eq (.bytes { fmt := .quoted, data := [118] })) ∧
    (atoms cScheme).node aFlag = .comparison (.field 8 [.key "x".toList]) .isTrue ∧
    (atoms cScheme).node aInAlt =
      .comparison (.field 2 []) (.oneOf (.int [(80, 80), (443, 443), (8000, 8100)])) ∧
    (atoms cScheme).node aHdrAlt =
      .comparison (.field 6 [.key "host".toList]) (.contains { fmt := .quoted, data := [120] }) :=
  ⟨rfl, rfl, rfl, rfl⟩

/-- **the worked example**: two spellings of
`tcp.port in {80 443 8000..8100} and http.headers["host"] contains "x" or m["a"][0] == "v"`
(the second with `in{`, a hexadecimal item, a newline inside the braces, layout inside the
brackets, an escaped key and needle, symbolic `&&`/`||` without spaces) parse to the same AST
`or[ and[ tcp.port in {…}, http.headers["host"] contains "x" ], m["a"][0] == "v" ]` -/
example : parseFilter cEnv cText₇ = .ok (canon (atoms cScheme) cSk₇) ∧
    parseFilter cEnv cText₈ = .ok (canon (atoms cScheme) cSk₈) ∧
    canon (atoms cScheme) cSk₇ = cAst₇ ∧ canon (atoms cScheme) cSk₈ = cAst₇ :=
  ⟨parse_render_concrete cEnv true cSk₇ (by decide) _ cRenders₇ (by decide) (by decide),
   parse_render_concrete cEnv true cSk₈ (by decide) _ cRenders₈ (by decide) (by decide),
   rfl, rfl⟩

/-- `tcp.ports[0] == 80 and not flags["x"]` = `tcp.ports[ 0x0⏎]eq 0x50&&!flags["x"]` -/
example : parseFilter cEnv cText₉ = .ok (canon (atoms cScheme) cSk₉) ∧
    parseFilter cEnv cText₁₀ = .ok (canon (atoms cScheme) cSk₁₀) ∧
    canon (atoms cScheme) cSk₉ = cAst₉ ∧ canon (atoms cScheme) cSk₁₀ = cAst₉ :=
  ⟨parse_render_concrete cEnv true cSk₉ (by decide) _ cRenders₉ (by decide) (by decide),
   parse_render_concrete cEnv true cSk₁₀ (by decide) _ cRenders₁₀ (by decide) (by decide),
   rfl, rfl⟩

/-- … by the invariance theorem also JSON and hash agree: the cores are equal (same indexes,
same key, same ranges, same needle) -/
example : parseFilter cEnv cText₇ = parseFilter cEnv cText₈ :=
  alias_layout_same_outcome_concrete cEnv true true cSk₇ cSk₈ (by decide) (by decide)
    rfl _ _ cRenders₇ cRenders₈ (by decide) (by decide) (by decide)

/-- the typing side condition is sharp: a key on an array, an index on a map, a second index on
`Array Int`, a comparison of the intermediate `Array Bytes` are all rejected … -/
example : ∀ t ∈ ["tcp.ports[\"a\"] == 1", "http.headers[0] == \"x\"", "tcp.ports[0][0] == 1",
      "m[\"a\"] == \"v\"", "m[0][\"a\"] == \"v\""],
    (match parseFilter cEnv t.toList with | .ok _ => true | .error _ => false) = false := by
  decide

/-- … by the general theorem: `tcp.ports["a"]` is ill-typed, so `ComparisonExpr::lex_with` fails
with `InvalidIndexAccess` whatever follows -/
example (more : Input) : ∃ e, comparisonL cEnv none
      ("tcp.ports".toList ++ (pathTxt [.plainKey [] "a".toList []] ++ more)) = .error e ∧
    e.kind = .invalidIndexAccess :=
  index_path_illtyped_rejected cEnv none _ 5 _ more (by decide) (by decide) (by decide)
    (by decide)

/-- layout is allowed INSIDE the brackets only: not between the name and `[`, not between `]`
and `[`; the index is a `u32` -/
example : ∀ t ∈ ["tcp.ports [0] == 1", "m[\"a\"] [0] == \"v\"", "tcp.ports[4294967296] == 1",
      "tcp.ports[-1] == 1"],
    (match parseFilter cEnv t.toList with | .ok _ => true | .error _ => false) = false := by
  decide

/-- a word operator must be separated from a bare NAME (`iin {1}`, `http.hostcontains "a"` are
identifiers) — not from `]` and not from what follows it -/
example : (∀ t ∈ ["iin {1}", "http.hostcontains \"a\""],
      (match parseFilter cEnv t.toList with | .ok _ => true | .error _ => false) = false) ∧
    parseFilter cEnv "tcp.ports[0]in{1}".toList =
      .ok (.comparison (.field 5 [.arr 0]) (.oneOf (.int [(1, 1)]))) ∧
    parseFilter cEnv "http.headers[\"a\"]contains\"x\"".toList =
      .ok (.comparison (.field 6 [.key "a".toList])
        (.contains { fmt := .quoted, data := [120] })) :=
  ⟨by decide, rfl, rfl⟩

/-- set items must be separated (`{1 2}` is two values, `{12}` one), a range needs `a ≤ b`,
and layout is not allowed around `..` -/
example : parseFilter cEnv "i in {1 2}".toList =
      .ok (.comparison (.field 0 []) (.oneOf (.int [(1, 1), (2, 2)]))) ∧
    parseFilter cEnv "i in {12}".toList =
      .ok (.comparison (.field 0 []) (.oneOf (.int [(12, 12)]))) ∧
    (∀ t ∈ ["i in {3..1}", "i in {1 ..2}", "i in {1.. 2}", "i in {1,2}"],
      (match parseFilter cEnv t.toList with | .ok _ => true | .error _ => false) = false) :=
  ⟨rfl, rfl, by decide⟩

/-- nothing is merged or sorted at parse time: overlapping, duplicate and descending items stay
as written; the empty set is a set -/
example : parseFilter cEnv "i in {5..9 7 7 1..6}".toList =
      .ok (.comparison (.field 0 []) (.oneOf (.int [(5, 9), (7, 7), (7, 7), (1, 6)]))) ∧
    parseFilter cEnv "i in {}".toList = .ok (.comparison (.field 0 []) (.oneOf (.int []))) :=
  ⟨rfl, rfl⟩

/-- the element type must fit the operator: `contains` on an `Int`, `in {ints}` on `Bytes` -/
example : ∀ t ∈ ["i contains \"a\"", "http.host in {1}", "tcp.ports[0] contains \"a\""],
    (match parseFilter cEnv t.toList with | .ok _ => true | .error _ => false) = false := by
  decide

/-- with an index suffix a field may be called `any` (`any[0]` is no quantifier call); the bare
name cannot stand alone before ` (` — and `any [0]` is not an index expression -/
example :
    let env : PEnv :=
      { scheme := { fields := [⟨"any".toList, .array .bool, false⟩], funcs := [], lists := [] },
        st := {} }
    GoodAtom env (atoms env.scheme) true ⟨"any".toList, [.arr [] 0 []], .isTrue⟩ ∧
    (match parseFilter env "any [0]".toList with | .ok _ => true | .error _ => false) = false :=
  ⟨goodAtom_indexedBool _ true _ _ (by decide) (by decide) (by decide) (by decide)
    (.inl (by decide)), by decide⟩

/-! ### `in {…}` on `Bytes` / `Ip`, `&` / `bitwise_and`, `in $list`

the scheme has lists registered for `Int` (list 0) and `Ip` (list 1), none for `Bytes` -/

/-- the side conditions hold of `http.host in {"a" r#"b"#}`, `http.host in{ "\x61"⏎r"b" }`,
`ip.src in {10.0.0.1 10.0.0.0..10.0.0.255 192.168.0.0/16}` (and with other layout), `i & 0x10`,
`i&16`, `i bitwise_and 16`, `tcp.port in $bad.ports`, `tcp.port in$bad.ports`,
`ip.src in $nets_1` -/
example : ∀ a ∈ [aHostIn, aHostInAlt, aSrcIn, aSrcInAlt, aMask, aMaskSym, aMaskWord, aList,
      aListAlt, aListIp], a.ok cScheme = true := by decide

/-- their texts -/
example : (atoms cScheme).txt aHostIn = "http.host in {\"a\" r#\"b\"#}".toList ∧
    (atoms cScheme).txt aHostInAlt = "http.host in{ \"\\x61\"\nr\"b\" }".toList ∧
    (atoms cScheme).txt aSrcIn =
      "ip.src in {10.0.0.1 10.0.0.0..10.0.0.255 192.168.0.0/16}".toList ∧
    (atoms cScheme).txt aSrcInAlt =
      "ip.src in{ 10.0.0.1\n10.0.0.0..10.0.0.255 192.168.0.0/16 }".toList ∧
    (atoms cScheme).txt aMask = "i & 0x10".toList ∧
    (atoms cScheme).txt aMaskSym = "i&16".toList ∧
    (atoms cScheme).txt aMaskWord = "i bitwise_and 16".toList ∧
    (atoms cScheme).txt aList = "tcp.port in $bad.ports".toList ∧
    (atoms cScheme).txt aListAlt = "tcp.port in$bad.ports".toList ∧
    (atoms cScheme).txt aListIp = "ip.src in $nets_1".toList :=
  ⟨txt_aHostIn, txt_aHostInAlt, txt_aSrcIn, txt_aSrcInAlt, txt_aMask, txt_aMaskSym, txt_aMaskWord,
    txt_aList, txt_aListAlt, txt_aListIp⟩

/-- their nodes: the byte strings keep their format (quoted / raw with its hash count), a single
address is the `/32` block, the mask is the integer, the list is the scheme's list for the type -/
example : (atoms cScheme).node aHostIn =
      .comparison (.field 4 [])
        (.oneOf (.bytes [{ fmt := .quoted, data := [97] }, { fmt := .raw 1, data := [98] }])) ∧
    (atoms cScheme).node aSrcInAlt =
      .comparison (.field 3 [])
        (.oneOf (.ip [.cidr false 167772161 32, .explicit false 167772160 167772415,
          .cidr false 3232235520 16])) ∧
    (atoms cScheme).node aMask = .comparison (.field 0 []) (.bitAnd 16) ∧
    (atoms cScheme).node aMaskWord = .comparison (.field 0 []) (.bitAnd 16) ∧
    (atoms cScheme).node aListAlt = .comparison (.field 2 []) (.inList 0 "bad.ports".toList) ∧
    (atoms cScheme).node aListIp = .comparison (.field 3 []) (.inList 1 "nets_1".toList) :=
  ⟨rfl, rfl, rfl, rfl, rfl, rfl⟩

/-- **the worked example**: two spellings of
`i & 0x10 and ip.src in {10.0.0.1 10.0.0.0..10.0.0.255 192.168.0.0/16} or tcp.port in $bad.ports`
(the second `i&16&&ip.src in{ 10.0.0.1⏎10.0.0.0..10.0.0.255 192.168.0.0/16 }||tcp.port in$bad.ports`:
the mask in decimal glued to `&`, which is glued to `&&`; a newline inside the braces; `in$`)
parse to the same AST -/
example : parseFilter cEnv cText₁₁ = .ok (canon (atoms cScheme) cSk₁₁) ∧
    parseFilter cEnv cText₁₂ = .ok (canon (atoms cScheme) cSk₁₂) ∧
    canon (atoms cScheme) cSk₁₁ = cAst₁₁ ∧ canon (atoms cScheme) cSk₁₂ = cAst₁₁ :=
  ⟨parse_render_concrete cEnv true cSk₁₁ (by decide) _ cRenders₁₁ (by decide) (by decide),
   parse_render_concrete cEnv true cSk₁₂ (by decide) _ cRenders₁₂ (by decide) (by decide),
   rfl, rfl⟩

/-- … and by the invariance theorem: the cores are equal (same mask, same ranges, same list) -/
example : parseFilter cEnv cText₁₁ = parseFilter cEnv cText₁₂ :=
  alias_layout_same_outcome_concrete cEnv true true cSk₁₁ cSk₁₂ (by decide) (by decide)
    rfl _ _ cRenders₁₁ cRenders₁₂ (by decide) (by decide) (by decide)

/-- `http.host in {"a" r#"b"#} and i bitwise_and 16` and
`http.host in{ "\x61"⏎r"b" }&&i&16` both parse to their intended ASTs; these DIFFER in the second
string's format (`r#"b"#` has one hash, `r"b"` none: `BytesFormat::Raw(n)` is part of the AST) -/
example : parseFilter cEnv cText₁₃ = .ok (canon (atoms cScheme) cSk₁₃) ∧
    parseFilter cEnv cText₁₄ = .ok (canon (atoms cScheme) cSk₁₄) ∧
    canon (atoms cScheme) cSk₁₃ =
      .combining .and
        [.comparison (.field 4 [])
          (.oneOf (.bytes [{ fmt := .quoted, data := [97] }, { fmt := .raw 1, data := [98] }])),
         .comparison (.field 0 []) (.bitAnd 16)] ∧
    canon (atoms cScheme) cSk₁₄ =
      .combining .and
        [.comparison (.field 4 [])
          (.oneOf (.bytes [{ fmt := .quoted, data := [97] }, { fmt := .raw 0, data := [98] }])),
         .comparison (.field 0 []) (.bitAnd 16)] :=
  ⟨parse_render_concrete cEnv true cSk₁₃ (by decide) _ cRenders₁₃ (by decide) (by decide),
   parse_render_concrete cEnv true cSk₁₄ (by decide) _ cRenders₁₄ (by decide) (by decide),
   rfl, rfl⟩

/-- IPv6 items (full form) and a mixed set:
`ip.src in {0:0:0:0:0:0:0:1 0:0:0:0:0:0:0:0..0:0:0:0:0:0:0:1 0:0:0:0:0:0:0:0/127 10.0.0.1}` -/
example : aSrc6In.ok cScheme = true ∧
    parseFilter cEnv
      "ip.src in {0:0:0:0:0:0:0:1 0:0:0:0:0:0:0:0..0:0:0:0:0:0:0:1 0:0:0:0:0:0:0:0/127 10.0.0.1}".toList =
      .ok (.comparison (.field 3 [])
        (.oneOf (.ip [.cidr true 1 128, .explicit true 0 1, .cidr true 0 127,
          .cidr false 167772161 32]))) := by
  refine ⟨by decide, ?_⟩
  have e : (atoms cEnv.scheme).txt aSrc6In = _ := txt_aSrc6In
  have := parse_render_concrete cEnv true (.atom aSrc6In) (by decide) _
    (.simple (.atom aSrc6In)) (by decide) (by rw [e]; decide)
  rw [e] at this
  exact this

/-- sharpness, `in {…}`: the item type must be the field's (`Ip` items on `Bytes`, strings on
`Ip`, addresses on `Int`); a range needs first ≤ last; a block must have no host bit set and
`len ≤ 32`; layout is not allowed around `..` or `/` -/
example : ∀ t ∈ ["http.host in {10.0.0.1}", "ip.src in {\"a\"}", "i in {10.0.0.1}",
      "ip.src in {10.0.0.2..10.0.0.1}", "ip.src in {10.0.0.1/8}", "ip.src in {10.0.0.0/33}",
      "ip.src in {10.0.0.1 ..10.0.0.2}", "ip.src in {10.0.0.0 /8}", "ip.src in {10.0.0.1,10.0.0.2}"],
    (match parseFilter cEnv t.toList with | .ok _ => true | .error _ => false) = false := by
  decide

/-- sharpness, `&`: the left-hand side must be an `Int` (not `Bytes`, not `Ip`, not the array);
the word must be separated from a bare name, the symbol need not be; the mask is an `i64` -/
example : (∀ t ∈ ["http.host & 1", "ip.src & 1", "tcp.ports & 1", "ibitwise_and 1",
        "i & 9223372036854775808", "i & \"a\""],
      (match parseFilter cEnv t.toList with | .ok _ => true | .error _ => false) = false) ∧
    parseFilter cEnv "i&1".toList = .ok (.comparison (.field 0 []) (.bitAnd 1)) ∧
    parseFilter cEnv "tcp.ports[0]bitwise_and 0x7fffffffffffffff".toList =
      .ok (.comparison (.field 5 [.arr 0]) (.bitAnd 9223372036854775807)) :=
  ⟨by decide, rfl, rfl⟩

/-- sharpness, `in $name`: `Bytes` has no list in this scheme, so `http.host in $x` is rejected
(by the general theorem too); the name is lower-case letters, digits, `_`, `.`, not beginning or
ending with `.`, not empty; the word `in` must be separated from a bare name -/
example : (∀ t ∈ ["http.host in $x", "tcp.port in $", "tcp.port in $.a", "tcp.port in $a.",
        "tcp.port in $Bad", "tcp.port in $ a", "tcp.portin $a", "b in $a"],
      (match parseFilter cEnv t.toList with | .ok _ => true | .error _ => false) = false) ∧
    (∃ e, cmpWithLhs cEnv (.field 4 []) .bytes (" in $x".toList) = .error e) ∧
    parseFilter cEnv "tcp.ports[0]in$a.b_0".toList =
      .ok (.comparison (.field 5 [.arr 0]) (.inList 0 "a.b_0".toList)) :=
  ⟨by decide,
   in_list_needs_registered_list cEnv _ .bytes (.inr (.inr rfl)) (by decide) [' '] [' '] rfl rfl
     "x".toList [],
   rfl⟩

/-! ### `[*]` and quantifier calls -/

/-- the side conditions hold of `http.headers[ * ] contains "x"`, `m["a"][*] in {"v" r"w"}`,
`tcp.ports[*] == 80`, `m[*][*]=="v"` -/
example : ∀ a ∈ [eHdr, eM, ePorts, eMM], a.ok cScheme = true := by decide

example : eHdr.txt = "http.headers[ * ] contains \"x\"".toList ∧
    eM.txt = "m[\"a\"][*] in {\"v\" r\"w\"}".toList ∧
    ePorts.txt = "tcp.ports[*] == 80".toList ∧ eMM.txt = "m[*][*]==\"v\"".toList :=
  ⟨txt_eHdr, txt_eM, txt_ePorts, txt_eMM⟩

/-- `all ( http.headers[ * ] contains "x" )`, `any(m["a"][*] in {"v" r"w"})`,
`any(tcp.ports[*] == 80)`, `all\n(m[*][*]=="v" )` by the general theorem -/
example : parseFilter cEnv "all ( http.headers[ * ] contains \"x\" )".toList =
      .ok (.quantifier .all (.logical (.comparison (.field 6 [.each])
        (.contains { fmt := .quoted, data := [120] })))) ∧
    parseFilter cEnv "any(m[\"a\"][*] in {\"v\" r\"w\"})".toList =
      .ok (.quantifier .any (.logical (.comparison (.field 7 [.key "a".toList, .each])
        (.oneOf (.bytes [{ fmt := .quoted, data := [118] }, { fmt := .raw 0, data := [119] }]))))) ∧
    parseFilter cEnv "any(tcp.ports[*] == 80)".toList =
      .ok (.quantifier .any (.logical (.comparison (.field 5 [.each])
        (.ordering .eq (.int 80))))) ∧
    parseFilter cEnv "all\n(m[*][*]==\"v\" )".toList =
      .ok (.quantifier .all (.logical (.comparison (.field 7 [.each, .each])
        (.ordering .eq (.bytes { fmt := .quoted, data := [118] }))))) := by
  refine ⟨?_, ?_, ?_, ?_⟩
  · have := quantifier_filter_parses cEnv .all [' '] [' '] [' '] eHdr rfl rfl rfl (by decide)
      (by decide) (by decide) (by rw [txt_eHdr]; decide)
    rw [txt_eHdr] at this
    exact this
  · have := quantifier_filter_parses cEnv .any [] [] [] eM rfl rfl rfl (by decide)
      (by decide) (by decide) (by rw [txt_eM]; decide)
    rw [txt_eM] at this
    exact this
  · have := quantifier_filter_parses cEnv .any [] [] [] ePorts rfl rfl rfl (by decide)
      (by decide) (by decide) (by rw [txt_ePorts]; decide)
    rw [txt_ePorts] at this
    exact this
  · have := quantifier_filter_parses cEnv .all ['\n'] [] [' '] eMM rfl rfl rfl (by decide)
      (by decide) (by decide) (by rw [txt_eMM]; decide)
    rw [txt_eMM] at this
    exact this

/-- sharpness: a bare `[*]` expression is no quantifier argument (`any(flags[*])`,
`any(tcp.ports[*])`), an argument without `[*]` is a `Bool`, not an `Array(Bool)`; an atom with
`[*]` is no filter by itself (type `Array(Bool)`); `[*]` needs an array or a map; no layout
between the name and `[`; `anyy` is an unknown identifier; a field called `not` cannot be written
first (`not[*] == 1` is `not` applied to `[*] == 1`) -/
example : (∀ t ∈ ["any(flags[*])", "any(tcp.ports[*])", "any(tcp.ports[0] == 1)",
        "tcp.ports[*] == 80", "any(i[*] == 1)", "any(tcp.ports [*] == 80)",
        "anyy(tcp.ports[*] == 80)", "any(tcp.ports[*] == 80", "any tcp.ports[*] == 80"],
      (match parseFilter cEnv t.toList with | .ok _ => true | .error _ => false) = false) ∧
    (let env : PEnv :=
      { scheme := { fields := [⟨"not".toList, .array .int, false⟩], funcs := [], lists := [] },
        st := {} }
     (match parseFilter env "any(not[*] == 1)".toList with
      | .ok _ => true | .error _ => false) = false) :=
  ⟨by decide, by decide⟩

/-- a quantifier call is an operand like any other for the combining operators (by evaluation;
the skeleton theorem does not cover it, see `quantifier_not_goodAtom`) -/
example : parseFilter cEnv "any (tcp.ports[*]==1)and b".toList =
    .ok (.combining .and
      [.quantifier .any (.logical (.comparison (.field 5 [.each]) (.ordering .eq (.int 1)))),
       .comparison (.field 1 []) .isTrue]) := rfl

/-- neither `tcp.ports[*] == 80` nor `any(tcp.ports[*] == 80)` is the text of a `GoodAtom` -/
example (A : Atoms Unit) (tight : Bool) :
    (A.txt () = ePorts.txt → ¬ GoodAtom cEnv A tight ()) ∧
    (A.txt () = "any(tcp.ports[*] == 80)".toList → ¬ GoodAtom cEnv A tight ()) :=
  ⟨fun h => each_atom_not_goodAtom cEnv A tight () ePorts (by decide) h,
   fun h => quantifier_not_goodAtom cEnv A tight () .any [] "tcp.ports[*] == 80)".toList rfl h⟩

end Examples

end WfModel.C01Atoms
