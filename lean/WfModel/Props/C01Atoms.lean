import WfModel.Lemmas.Atoms.Example
import WfModel.Model.Json

/-!
# C01-S / C07-S — the whole-filter theorem made CONCRETE: real comparison atoms

`parse_render_logical` (`Props/C07Render.lean`) is stated over abstract atoms assumed to satisfy
`GoodAtom`. Here `GoodAtom` is PROVED for a syntax of concrete atoms (`CAtom`,
`Lemmas/Atoms.lean`), so that "render a filter, parse it, get exactly the intended AST" holds end
to end — logical operators, comparison operators, aliases, layout AND literals:

* `CAtom.boolField name` — a bare `Bool` field;
* `CAtom.cmp name ws₁ op sym ws₂ lit` — `name ws₁ op ws₂ lit` with `op` any of the six ordering
  operators, spelled as a word (`sym = false`: `eq ne ge le gt lt`) or a symbol (`sym = true`:
  `== != >= <= > <`), `ws₁`/`ws₂` any layout (`SPACE_CHARS`), and `lit : Lit` one of: integer in
  decimal / `0x` hexadecimal / `0` octal (`renderInt`), quoted byte string with any escape choice
  per byte (`renderQuoted` of C06), raw string `r#"…"#`, IPv4 dotted quad, IPv6 in full form or in
  the form std's `Display` prints (`::` compression). Abbreviations `CAtom.intCmp`, `bytesCmp`,
  `rawCmp`, `ipCmp`, `ip6Cmp`.
* `CAtom.txt` = name ++ ws₁ ++ spelling ++ ws₂ ++ literal; `CAtom.node s` = the intended node
  `.comparison (.field i []) (.ordering op value)` with `i` the index of `name` in the scheme;
* side conditions (`CAtom.ok`, decidable; spelled out in the hypotheses below): `nameOk` — the
  name is a dotted identifier `seg(.seg)*`; it is not the word `not` itself (a name that merely
  BEGINS with `not` — `notes`, `not_b`, `not.x` — is fine: `LogicalExpr::lex_unary_op` reads a
  registered name as that identifier; the earlier hypothesis "does not start with `not`" is
  gone, see `Props/C16Ident.lean`); the scheme has a field
  of exactly that name and of the literal's type; a word spelling is separated from the name
  (`ws₁ ≠ []`: `ieq 5` is the identifier `ieq`), a symbol need not be (`i==5`); `Lit.ok` — the
  integer is an `i64` (non-negative for hex/octal), unescaped bytes are printable ASCII, at most
  255 hashes and no early terminator in a raw body, the address fits its family.
  Nothing is asked of the continuation beyond `Stop` (end of input, a space, `)`, with
  `tight` also `&`, `|`, `^`): none of these extends a digit run, an address or an identifier.

Property theorems only.
-/
namespace WfModel.C01Atoms

open WfModel WfModel.Render WfModel.Atoms

/-! ## 1. `GoodAtom` for concrete atoms -/

/-- **goodAtom_boolField** (generalises `boolField_parses` from one-letter names): a bare boolean
field with any valid name. `any`/`all` are excluded because `any (`…  is a quantifier call; the
name `not` itself is excluded because `lex_simple_expr` tries the unary operator first and the
bare word `not` always is that operator. A name that merely begins with `not` is NOT excluded
(it was, before `lex_unary_op`): the scheme has it, so the lexer reads the identifier. -/
theorem goodAtom_boolField (env : PEnv) (tight : Bool) (name : List Char)
    (hname : nameOk name = true) (hnot : name ≠ "not".toList)
    (hany : name ≠ "any".toList) (hall : name ≠ "all".toList)
    (hfield : fieldHasTy env.scheme name .bool = true) :
    GoodAtom env (atoms env.scheme) tight (.boolField name) :=
  goodAtom env tight _ (CAtom.ok_boolField hname hnot hany hall hfield)

/-- **goodAtom_intCmp**: `name ws₁ op ws₂ v` — all six ordering operators, both spellings, any
layout on both sides of the operator, the three radices. -/
theorem goodAtom_intCmp (env : PEnv) (tight : Bool) (name : List Char) (ws₁ ws₂ : Input)
    (op : OrdOp) (sym : Bool) (v : Int) (form : IntForm)
    (hname : nameOk name = true) (hnot : name ≠ "not".toList)
    (hfield : fieldHasTy env.scheme name .int = true)
    (h₁ : Layout ws₁ = true) (h₂ : Layout ws₂ = true) (hsep : sym = true ∨ ws₁ ≠ [])
    (hform : form.admits v = true) (hv : inI64 v = true) :
    GoodAtom env (atoms env.scheme) tight (.intCmp name ws₁ op sym ws₂ v form) :=
  goodAtom env tight _
    (CAtom.ok_cmp hname hnot hfield h₁ h₂ hsep (by simp [Lit.ok, hform, hv]))

/-- the first clause of `goodAtom_intCmp` with text and node spelled out: at every nesting
budget, before every continuation the atom stops at, `ComparisonExpr::lex_with` reads
`name ws₁ op ws₂ v` to `field op Int(v) : Bool` and leaves the continuation -/
theorem intCmp_parses (env : PEnv) (tight : Bool) (name : List Char) (ws₁ ws₂ : Input)
    (op : OrdOp) (sym : Bool) (v : Int) (form : IntForm)
    (hname : nameOk name = true) (hnot : name ≠ "not".toList)
    (hfield : fieldHasTy env.scheme name .int = true)
    (h₁ : Layout ws₁ = true) (h₂ : Layout ws₂ = true) (hsep : sym = true ∨ ws₁ ≠ [])
    (hform : form.admits v = true) (hv : inI64 v = true)
    (n : Nat) (rest : Input) (hstop : Stop tight rest = true) :
    comparisonL env (lowerOf env n)
        (name ++ (ws₁ ++ ((ordAlias op sym).toList ++ (ws₂ ++ renderInt form v))) ++ rest) =
      .ok ({ node := .comparison (.field (fieldIx env.scheme name) []) (.ordering op (.int v)),
             ty := .bool }, rest) :=
  (goodAtom_intCmp env tight name ws₁ ws₂ op sym v form hname hnot hfield h₁ h₂ hsep hform hv).parses
    n rest hstop

/-- **goodAtom_bytesCmp**: a `Bytes` field against a quoted string, every byte written as `\xHH`
(either case per digit), `\OOO`, or itself if printable ASCII (`\"`, `\\` for those two) -/
theorem goodAtom_bytesCmp (env : PEnv) (tight : Bool) (name : List Char) (ws₁ ws₂ : Input)
    (op : OrdOp) (sym : Bool) (items : List (Esc × UInt8))
    (hname : nameOk name = true) (hnot : name ≠ "not".toList)
    (hfield : fieldHasTy env.scheme name .bytes = true)
    (h₁ : Layout ws₁ = true) (h₂ : Layout ws₂ = true) (hsep : sym = true ∨ ws₁ ≠ [])
    (hitems : ∀ it ∈ items, escOk it = true) :
    GoodAtom env (atoms env.scheme) tight (.bytesCmp name ws₁ op sym ws₂ items) :=
  goodAtom env tight _
    (CAtom.ok_cmp hname hnot hfield h₁ h₂ hsep (by simpa [Lit.ok, List.all_eq_true] using hitems))

/-- a `Bytes` field against a raw string `r#…#"body"#…#` -/
theorem goodAtom_rawCmp (env : PEnv) (tight : Bool) (name : List Char) (ws₁ ws₂ : Input)
    (op : OrdOp) (sym : Bool) (k : Nat) (body : List Char)
    (hname : nameOk name = true) (hnot : name ≠ "not".toList)
    (hfield : fieldHasTy env.scheme name .bytes = true)
    (h₁ : Layout ws₁ = true) (h₂ : Layout ws₂ = true) (hsep : sym = true ∨ ws₁ ≠ [])
    (hk : k ≤ 255) (hbody : rawBodyOk k body = true) :
    GoodAtom env (atoms env.scheme) tight (.rawCmp name ws₁ op sym ws₂ k body) :=
  goodAtom env tight _
    (CAtom.ok_cmp hname hnot hfield h₁ h₂ hsep (by simp [Lit.ok, hk, hbody]))

/-- **goodAtom_ipCmp**: an `Ip` field against a dotted quad -/
theorem goodAtom_ipCmp (env : PEnv) (tight : Bool) (name : List Char) (ws₁ ws₂ : Input)
    (op : OrdOp) (sym : Bool) (a : Nat)
    (hname : nameOk name = true) (hnot : name ≠ "not".toList)
    (hfield : fieldHasTy env.scheme name .ip = true)
    (h₁ : Layout ws₁ = true) (h₂ : Layout ws₂ = true) (hsep : sym = true ∨ ws₁ ≠ [])
    (ha : a < 2 ^ 32) :
    GoodAtom env (atoms env.scheme) tight (.ipCmp name ws₁ op sym ws₂ a) :=
  goodAtom env tight _ (CAtom.ok_cmp hname hnot hfield h₁ h₂ hsep (by simpa [Lit.ok] using ha))

/-- an `Ip` field against an IPv6 address in full form (`ip6Cmp`: eight groups) or as std's
`Display` prints it (`Lit.ip6std`: `::` compression, `::ffff:a.b.c.d`) -/
theorem goodAtom_ip6Cmp (env : PEnv) (tight : Bool) (name : List Char) (ws₁ ws₂ : Input)
    (op : OrdOp) (sym : Bool) (a : Nat)
    (hname : nameOk name = true) (hnot : name ≠ "not".toList)
    (hfield : fieldHasTy env.scheme name .ip = true)
    (h₁ : Layout ws₁ = true) (h₂ : Layout ws₂ = true) (hsep : sym = true ∨ ws₁ ≠ [])
    (ha : a < 2 ^ 128) :
    GoodAtom env (atoms env.scheme) tight (.ip6Cmp name ws₁ op sym ws₂ a) ∧
    GoodAtom env (atoms env.scheme) tight (.cmp name ws₁ op sym ws₂ (.ip6std a)) :=
  ⟨goodAtom env tight _ (CAtom.ok_cmp hname hnot hfield h₁ h₂ hsep (by simpa [Lit.ok] using ha)),
   goodAtom env tight _ (CAtom.ok_cmp hname hnot hfield h₁ h₂ hsep (by simpa [Lit.ok] using ha))⟩

/-- **all of them at once**, on the decidable side condition `CAtom.ok` -/
theorem goodAtom_concrete (env : PEnv) (tight : Bool) (a : CAtom)
    (hok : a.ok env.scheme = true) : GoodAtom env (atoms env.scheme) tight a :=
  goodAtom env tight a hok

/-- the alias choice `sym` covers the `lex_enum!` table of `OrderingOp` exactly: both spellings
of every operator are entries, and every entry is one of them -/
theorem ordering_aliases_exact :
    (∀ op sym, (ordAlias op sym, op) ∈ orderingOps) ∧
    (∀ e ∈ orderingOps, ∃ sym, e.1 = ordAlias e.2 sym) :=
  ⟨ordAlias_mem, ordAlias_covers⟩

/-! ## 2. Whole filters over concrete atoms -/

/-- **parse_render_concrete** (parser level): for every skeleton `sk` over concrete atoms all of
which meet their side conditions, every rendering `s` (any alias at every logical operator, any
layout there; inside the atoms whatever spelling / layout / literal form the atoms carry), every
budget covering its nesting and every admissible continuation: `LogicalExpr::lex_with` reads
exactly `s` and returns the intended AST. -/
theorem parse_render_concrete_level (env : PEnv) (tight : Bool) (sk : Sk CAtom)
    (hok : allAtoms (CAtom.ok env.scheme) sk = true) (s : Input) (n : Nat)
    (hr : Renders env (atoms env.scheme) tight sk s) (hn : depth sk ≤ n)
    (rest : Input) (hrest : Admissible tight sk rest) :
    (level env n).logical (s ++ rest) =
      .ok ({ node := canon (atoms env.scheme) sk, ty := .bool }, rest) :=
  logical_on env (atoms env.scheme) tight (CAtom.ok env.scheme)
    (fun a h => goodAtom env tight a h) sk hok s n hr hn rest hrest

/-- **parse_render_concrete** (whole filter): `FilterParser::parse` on a rendering returns
exactly `canon sk` — the `layered` tree (and > xor > or, flat) over the nodes
`field op value` / bare field. -/
theorem parse_render_concrete (env : PEnv) (tight : Bool) (sk : Sk CAtom)
    (hok : allAtoms (CAtom.ok env.scheme) sk = true) (s : Input)
    (hr : Renders env (atoms env.scheme) tight sk s) (hd : depth sk ≤ env.st.maxDepth)
    (htrim : trim s = s) :
    parseFilter env s = .ok (canon (atoms env.scheme) sk) :=
  filter_concrete env tight sk hok s hr hd htrim

/-- the intended AST depends only on the *cores* of the atoms (field, operator, value): not on
the operator spelling, not on the layout, not on how the literal is written -/
theorem meaning_depends_on_cores (s : Scheme) (sk₁ sk₂ : Sk CAtom)
    (h : mapSk CAtom.core sk₁ = mapSk CAtom.core sk₂) :
    canon (atoms s) sk₁ = canon (atoms s) sk₂ := by
  rw [canon_core, canon_core, h]

/-- **alias_layout_invariance_concrete**: two texts that spell the same filter — same logical
structure, same fields, operators and VALUES (`mapSk core`), but different aliases of the logical
operators, different aliases of the comparison operators, different layout between all tokens
(also around comparison operators), different literal forms (radix, escapes, `::`) — parse to
the SAME AST, hence the same JSON document, JSON text and FNV-1a hash. -/
theorem alias_layout_invariance_concrete (env : PEnv) (tight₁ tight₂ : Bool)
    (sk₁ sk₂ : Sk CAtom)
    (hok₁ : allAtoms (CAtom.ok env.scheme) sk₁ = true)
    (hok₂ : allAtoms (CAtom.ok env.scheme) sk₂ = true)
    (hsame : mapSk CAtom.core sk₁ = mapSk CAtom.core sk₂)
    (s₁ s₂ : Input)
    (h₁ : Renders env (atoms env.scheme) tight₁ sk₁ s₁) (h₂ : Renders env (atoms env.scheme) tight₂ sk₂ s₂)
    (hd : depth sk₁ ≤ env.st.maxDepth) (ht₁ : trim s₁ = s₁) (ht₂ : trim s₂ = s₂) :
    ∃ e₁ e₂ : LExpr, parseFilter env s₁ = .ok e₁ ∧ parseFilter env s₂ = .ok e₂ ∧
      e₁ = e₂ ∧ e₁ = canon (coreAtoms env.scheme) (mapSk CAtom.core sk₁) ∧
      lexprJ env.scheme e₁ = lexprJ env.scheme e₂ ∧
      astJsonText env.scheme e₁ = astJsonText env.scheme e₂ ∧
      fnv1a64 (astJsonText env.scheme e₁).toUTF8.toList =
        fnv1a64 (astJsonText env.scheme e₂).toUTF8.toList := by
  have hd₂ : depth sk₂ ≤ env.st.maxDepth := by
    rw [← depth_mapSk CAtom.core sk₂, ← hsame, depth_mapSk]; exact hd
  have e := meaning_depends_on_cores env.scheme sk₁ sk₂ hsame
  refine ⟨canon (atoms env.scheme) sk₁, canon (atoms env.scheme) sk₂,
    parse_render_concrete env tight₁ sk₁ hok₁ s₁ h₁ hd ht₁,
    parse_render_concrete env tight₂ sk₂ hok₂ s₂ h₂ hd₂ ht₂, e, canon_core _ _, ?_, ?_, ?_⟩ <;>
    rw [e]

/-- the form used on outcomes -/
theorem alias_layout_same_outcome_concrete (env : PEnv) (tight₁ tight₂ : Bool)
    (sk₁ sk₂ : Sk CAtom)
    (hok₁ : allAtoms (CAtom.ok env.scheme) sk₁ = true)
    (hok₂ : allAtoms (CAtom.ok env.scheme) sk₂ = true)
    (hsame : mapSk CAtom.core sk₁ = mapSk CAtom.core sk₂)
    (s₁ s₂ : Input)
    (h₁ : Renders env (atoms env.scheme) tight₁ sk₁ s₁) (h₂ : Renders env (atoms env.scheme) tight₂ sk₂ s₂)
    (hd : depth sk₁ ≤ env.st.maxDepth) (ht₁ : trim s₁ = s₁) (ht₂ : trim s₂ = s₂) :
    parseFilter env s₁ = parseFilter env s₂ := by
  obtain ⟨e₁, e₂, p₁, p₂, e, _⟩ := alias_layout_invariance_concrete env tight₁ tight₂ sk₁ sk₂
    hok₁ hok₂ hsame s₁ s₂ h₁ h₂ hd ht₁ ht₂
  rw [p₁, p₂, e]

/-! ## Non-vacuity: a concrete scheme, concrete texts -/

section Examples

/-- scheme `i : Int`, `b : Bool`, `tcp.port : Int`, `ip.src : Ip`, `http.host : Bytes`: the side
conditions hold of the atoms `tcp.port ge 80`, `tcp.port>=80`, `tcp.port  >= 0x50`, `i ==  -5`,
`i eq -5`, `b`, `http.host eq "a\x2E\"z"`, `ip.src!=10.0.0.1` -/
example : ∀ a ∈ [aPortWord, aPortSym, aPortHex, aISym, aIWord, aB, aHost, aSrc],
    a.ok cScheme = true := by decide

/-- so each of them is a `GoodAtom` (both settings of `tight`) -/
example (tight : Bool) : GoodAtom cEnv (atoms cScheme) tight aPortSym ∧
    GoodAtom cEnv (atoms cScheme) tight aISym ∧ GoodAtom cEnv (atoms cScheme) tight aHost :=
  ⟨goodAtom_concrete cEnv tight _ (by decide), goodAtom_concrete cEnv tight _ (by decide),
    goodAtom_concrete cEnv tight _ (by decide)⟩

/-- their texts -/
example : (atoms cScheme).txt aPortWord = "tcp.port ge 80".toList ∧
    (atoms cScheme).txt aPortSym = "tcp.port>=80".toList ∧
    (atoms cScheme).txt aPortHex = "tcp.port  >= 0x50".toList ∧
    (atoms cScheme).txt aISym = "i ==  -5".toList ∧
    (atoms cScheme).txt aIWord = "i eq -5".toList ∧
    (atoms cScheme).txt aHost = "http.host eq \"a\\x2E\\\"z\"".toList ∧
    (atoms cScheme).txt aSrc = "ip.src!=10.0.0.1".toList :=
  ⟨txt_aPortWord, txt_aPortSym, txt_aPortHex, txt_aISym, txt_aIWord, txt_aHost, txt_aSrc⟩

/-- three spellings of one filter: the skeletons differ only inside the atoms (alias, layout,
radix) — same cores; and each text is a rendering of its skeleton -/
example : mapSk CAtom.core cSk₁ = mapSk CAtom.core cSk₂ ∧
    mapSk CAtom.core cSk₂ = mapSk CAtom.core cSk₃ := ⟨rfl, rfl⟩

example : Renders cEnv (atoms cScheme) true cSk₁ "tcp.port ge 80 and not (i ==  -5 or b)".toList ∧
    Renders cEnv (atoms cScheme) true cSk₂ "tcp.port>=80&&!(i eq -5||b)".toList ∧
    Renders cEnv (atoms cScheme) true cSk₃ "tcp.port  >= 0x50\n&& not( i eq -5 or b )".toList :=
  ⟨cRenders₁, cRenders₂, cRenders₃⟩

/-- **the worked example**: `tcp.port ge 80 and not (i ==  -5 or b)` and
`tcp.port>=80&&!(i eq -5||b)` parse to the same explicit AST
`and[ tcp.port >= 80, not (or[ i == -5, b ]) ]` (fields by index: `i` 0, `b` 1, `tcp.port` 2) … -/
example : parseFilter cEnv "tcp.port ge 80 and not (i ==  -5 or b)".toList = .ok cAst ∧
    parseFilter cEnv "tcp.port>=80&&!(i eq -5||b)".toList = .ok cAst :=
  ⟨parse_render_concrete cEnv true cSk₁ (by decide) _ cRenders₁ (by decide) (by decide),
   parse_render_concrete cEnv true cSk₂ (by decide) _ cRenders₂ (by decide) (by decide)⟩

example : cAst =
    .combining .and
      [.comparison (.field 2 []) (.ordering .ge (.int 80)),
       .unaryNot (.paren (.combining .or
         [.comparison (.field 0 []) (.ordering .eq (.int (-5))),
          .comparison (.field 1 []) .isTrue]))] := rfl

/-- … and so does the spelling with a hexadecimal literal, a newline and `not(`; by the
invariance theorem also JSON and hash agree -/
example : parseFilter cEnv cText₁ = parseFilter cEnv cText₃ :=
  alias_layout_same_outcome_concrete cEnv true true cSk₁ cSk₃ (by decide) (by decide) rfl _ _
    cRenders₁ cRenders₃ (by decide) (by decide) (by decide)

/-- a byte string with three kinds of escapes and an address -/
example : parseFilter cEnv "http.host eq \"a\\x2E\\\"z\" or ip.src!=10.0.0.1".toList = .ok cAst₄ :=
  parse_render_concrete cEnv false cSk₄ (by decide) _ cRenders₄ (by decide) (by decide)

/-- the side condition `ws₁ ≠ []` for word spellings is sharp (`ieq` is ONE identifier) … -/
example : (match parseFilter cEnv "ieq 5".toList with | .ok _ => true | .error _ => false) = false := by
  decide

/-- … no space is needed after the operator (`lex_enum!` looks for no word boundary), nor
around a symbol -/
example : parseFilter cEnv "i eq5".toList =
      .ok (.comparison (.field 0 []) (.ordering .eq (.int 5))) ∧
    parseFilter cEnv "i==5".toList = .ok (.comparison (.field 0 []) (.ordering .eq (.int 5))) :=
  ⟨parse_render_concrete cEnv false (.atom aI5Word) (by decide) _ cRenders₅ (by decide) (by decide),
   parse_render_concrete cEnv false (.atom aI5Sym) (by decide) _ cRenders₆ (by decide) (by decide)⟩

/-- **names beginning with `not`** (`lex_unary_op`). (a) With a field `not_b : Bool` registered,
the filter `not_b` is the bare field node (it used to be `not` applied to the unknown `_b`) … -/
example :
    let env : PEnv :=
      { scheme := { fields := [⟨"not_b".toList, .bool, false⟩], funcs := [], lists := [] }, st := {} }
    parseFilter env "not_b".toList = .ok (.comparison (.field 0 []) .isTrue) := rfl

/-- … by the general theorem: `not_b` meets the side conditions of a bare boolean field -/
example :
    let env : PEnv :=
      { scheme := { fields := [⟨"not_b".toList, .bool, false⟩], funcs := [], lists := [] }, st := {} }
    GoodAtom env (atoms env.scheme) true (.boolField "not_b".toList) :=
  goodAtom_boolField _ true _ (by decide) (by decide) (by decide) (by decide) (by decide)

/-- (b) with only `_b` registered, `not_b` still is `not _b`: the glued word is the operator
whenever the glued text is no registered name … -/
example :
    let env : PEnv :=
      { scheme := { fields := [⟨"_b".toList, .bool, false⟩], funcs := [], lists := [] }, st := {} }
    parseFilter env "not_b".toList = .ok (.unaryNot (.comparison (.field 0 []) .isTrue)) := rfl

/-- … and with BOTH registered the complete name wins: `not_b` is field 1, `not _b` is `not`
applied to field 0 -/
example :
    let env : PEnv :=
      { scheme := { fields := [⟨"_b".toList, .bool, false⟩, ⟨"not_b".toList, .bool, false⟩],
                    funcs := [], lists := [] }, st := {} }
    parseFilter env "not_b".toList = .ok (.comparison (.field 1 []) .isTrue) ∧
    parseFilter env "not _b".toList = .ok (.unaryNot (.comparison (.field 0 []) .isTrue)) :=
  ⟨rfl, rfl⟩

/-- (c) `notes == "x"` with the `Bytes` fields `notes` (0) and `es` (1) compares the field
`notes` (it used to be `not es == "x"`); `not es == "x"` still negates the comparison on `es` -/
example :
    let env : PEnv :=
      { scheme := { fields := [⟨"notes".toList, .bytes, false⟩, ⟨"es".toList, .bytes, false⟩],
                    funcs := [], lists := [] }, st := {} }
    parseFilter env "notes == \"x\"".toList =
        .ok (.comparison (.field 0 []) (.ordering .eq (.bytes { fmt := .quoted, data := [120] }))) ∧
    parseFilter env "not es == \"x\"".toList =
        .ok (.unaryNot
          (.comparison (.field 1 []) (.ordering .eq (.bytes { fmt := .quoted, data := [120] })))) :=
  ⟨rfl, rfl⟩

/-- the remaining side condition `name ≠ not` is sharp: a field literally called `not` cannot
be written as an operand — the bare word is the operator (nothing is glued to it) -/
example :
    let env : PEnv :=
      { scheme := { fields := [⟨"not".toList, .bool, false⟩], funcs := [], lists := [] }, st := {} }
    (match parseFilter env "not".toList with | .ok _ => true | .error _ => false) = false := by
  decide

end Examples

end WfModel.C01Atoms
