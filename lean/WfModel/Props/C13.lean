import WfModel.Lemmas.C13
import WfModel.Generated

/-!
# C13 — the configurable nesting limit bounds every accepted filter

Property theorems only. Model: `WfModel/Model/Parse.lean` (the parser is defined by
structural recursion on the remaining nesting budget: `level env n`; the budget-exhausted
level is `mkLevel env none`; `parseFilter env` starts at `env.st.maxDepth`).
`Spec.nesting` (`Lemmas/C13Spec.lean`) counts enclosing parentheses, `not`, quantifiers and
function-call argument lists along the deepest path of an AST.
`env.withDepth d` is `env` with `max_nesting_depth := d`.
-/
namespace WfModel.C13
open WfModel.Spec

/-! ### the measure, on small shapes -/

example (e : LExpr) : nesting (.paren (.unaryNot e)) = nesting e + 2 := by
  simp [nestL]
example (op : LogicalOp) (a b : LExpr) :
    nesting (.combining op [a, b]) = max (nesting a) (nesting b) := by
  simp [nestL, nestLs]
example (f : Nat) (a : LExpr) (v : RhsVal) (o : CmpOp) :
    nesting (.comparison (.call f [.logical a, .literal v] none []) o) = nesting a + 1 := by
  simp [nestL, nestI, nestAs, nestA]

/-! ### accepted ⇒ nesting ≤ limit -/

/-- **accepted_le.** Every filter the parser accepts has nesting at most the configured
`max_nesting_depth` — for every scheme, every setting and every input. -/
theorem accepted_le (env : PEnv) (src : Input) (e : LExpr)
    (h : parseFilter env src = .ok e) : nesting e ≤ env.st.maxDepth :=
  parseFilter_bound h

/-- … and the same for value expressions (`FilterParser::parse_value`). -/
theorem accepted_le_value (env : PEnv) (src : Input) (e : Typed IExpr)
    (h : parseValue env src = .ok e) : nestI e.node ≤ env.st.maxDepth :=
  parseValue_bound h

/-- The invariant behind it, for all four recursive entry points at once: with `n` levels of
budget left, every returned AST has nesting ≤ `n`. -/
theorem level_accepted_le (env : PEnv) (n : Nat) : (level env n).Bounded n :=
  level_bounded env n

/-! ### monotonicity and completeness in the limit -/

/-- **limit_monotone.** One more level of budget never changes an accepted parse: same AST,
same rest — at all four entry points (`logical`, `simple`, `quantArg`, `callBody`).
No assumption on the scheme (function names may look like literals; see `Lemmas/C13Tok`). -/
theorem limit_monotone (env : PEnv) (n : Nat) : (level env n).Le (level env (n + 1)) :=
  level_le_succ env n

theorem limit_monotone_logical (env : PEnv) (n : Nat) (input : Input)
    (r : Typed LExpr × Input) (h : (level env n).logical input = .ok r) :
    (level env (n + 1)).logical input = .ok r :=
  (level_le_succ env n).logical _ _ h

/-- A filter accepted under limit `d` is accepted, with the same AST, under any `d' ≥ d`. -/
theorem limit_monotone_filter (env : PEnv) (d d' : Nat) (hle : d ≤ d') (src : Input)
    (e : LExpr) (h : parseFilter (env.withDepth d) src = .ok e) :
    parseFilter (env.withDepth d') src = .ok e :=
  parseFilter_mono hle h

theorem limit_monotone_value (env : PEnv) (d d' : Nat) (hle : d ≤ d') (src : Input)
    (e : Typed IExpr) (h : parseValue (env.withDepth d) src = .ok e) :
    parseValue (env.withDepth d') src = .ok e :=
  parseValue_mono hle h

/-- **limit_complete.** A parse obtained with budget `D` whose AST has nesting ≤ `d ≤ D` is
obtained unchanged with budget `d` — at all four entry points. -/
theorem limit_complete (env : PEnv) (d D : Nat) (hle : d ≤ D) :
    (level env D).Down (level env d) d :=
  level_down env d D hle

theorem limit_complete_filter (env : PEnv) (d D : Nat) (hle : d ≤ D) (src : Input) (e : LExpr)
    (h : parseFilter (env.withDepth D) src = .ok e) (hn : nesting e ≤ d) :
    parseFilter (env.withDepth d) src = .ok e :=
  parseFilter_down hle h hn

theorem limit_complete_value (env : PEnv) (d D : Nat) (hle : d ≤ D) (src : Input)
    (e : Typed IExpr) (h : parseValue (env.withDepth D) src = .ok e) (hn : nestI e.node ≤ d) :
    parseValue (env.withDepth d) src = .ok e :=
  parseValue_down hle h hn

/-- **Main theorem.** A filter that is accepted under some limit `D` (e.g. "without limit":
any `D` ≥ its nesting) is accepted under `d ≤ D` exactly when its nesting is at most `d`. -/
theorem accepted_iff_nesting_le (env : PEnv) (d D : Nat) (hle : d ≤ D) (src : Input)
    (e : LExpr) (h : parseFilter (env.withDepth D) src = .ok e) :
    parseFilter (env.withDepth d) src = .ok e ↔ nesting e ≤ d :=
  ⟨fun hd => by simpa using accepted_le _ _ _ hd, fun hn => parseFilter_down hle h hn⟩

/-- … and otherwise it is rejected with an error (never accepted as a different AST). -/
theorem rejected_of_nesting_gt (env : PEnv) (d D : Nat) (hle : d ≤ D) (src : Input)
    (e : LExpr) (h : parseFilter (env.withDepth D) src = .ok e) (hn : d < nesting e) :
    ∃ err, parseFilter (env.withDepth d) src = .error err := by
  cases hd : parseFilter (env.withDepth d) src with
  | error err => exact ⟨err, rfl⟩
  | ok e' =>
    exfalso
    have h' := parseFilter_mono hle hd
    rw [h] at h'
    cases h'
    have := accepted_le _ _ _ hd
    simp only [PEnv.withDepth_maxDepth] at this
    omega

theorem accepted_iff_nesting_le_value (env : PEnv) (d D : Nat) (hle : d ≤ D) (src : Input)
    (e : Typed IExpr) (h : parseValue (env.withDepth D) src = .ok e) :
    parseValue (env.withDepth d) src = .ok e ↔ nestI e.node ≤ d :=
  ⟨fun hd => by simpa using accepted_le_value _ _ _ hd, fun hn => parseValue_down hle h hn⟩

/-! ### the error at an exhausted budget

`limit_error_kind_*`: at each of the model's `with_increased_nesting` sites an exhausted
budget yields `NestingLimitExceeded`, with the span the Rust code passes. (The *reported*
kind of a rejected filter may differ: inside a function argument the "blind parsing"
fallback of `FunctionCallArgExpr::lex_with` swallows the error and reports its own.)
The unary-operator site is the one guarded by `LogicalExpr::lex_unary_op` (`lexUnary`): a
registered name that merely begins with `not` does not descend and costs no nesting level. -/

theorem limit_error_kind_paren (env : PEnv) (input rest : Input)
    (h : expect input "(" = some rest) :
    (level env 0).simple input = errAt .nestingLimitExceeded input :=
  exhausted_paren h

theorem limit_error_kind_not (env : PEnv) (input rest : Input) (u : Unit)
    (h0 : expect input "(" = none) (h : lexUnary env input = some (u, rest)) :
    (level env 0).simple input = errAt .nestingLimitExceeded input :=
  exhausted_not h0 h

theorem limit_error_kind_quantifier (env : PEnv) (input rest : Input) (op : QOp)
    (h0 : expect input "(" = none) (h1 : lexUnary env input = none)
    (h : lexQuantCall input = some (op, rest)) :
    (level env 0).simple input = errAt .nestingLimitExceeded (skipSpace rest) :=
  exhausted_quant h0 h1 h

theorem limit_error_kind_call (env : PEnv) (input rest : Input) (i : Nat) (nm : List Char)
    (sig : FuncSig) (h : lexIdentifier env.scheme input = .ok (.func i, rest))
    (hf : env.scheme.funcs[i]? = some (nm, sig)) :
    indexExprL env (lowerOf env 0) input = errAt .nestingLimitExceeded (skipSpace rest) :=
  exhausted_call h hf

/-- With limit 0 a parenthesised filter is rejected with `NestingLimitExceeded`. -/
theorem limit_zero_paren (env : PEnv) (src rest : Input)
    (h : expect (trim src) "(" = some rest) :
    ∃ err, parseFilter (env.withDepth 0) src = .error err ∧
      err.kind = .nestingLimitExceeded := by
  have hs : (level (env.withDepth 0) 0).simple (trim src) =
      errAt .nestingLimitExceeded (trim src) := exhausted_paren h
  refine ⟨{ kind := .nestingLimitExceeded, pos := trim src, len := (trim src).length }, ?_, rfl⟩
  unfold parseFilter
  dsimp only
  have : (level (env.withDepth 0) (env.withDepth 0).st.maxDepth).logical (trim src) =
      errAt .nestingLimitExceeded (trim src) := by
    show logicalL _ none (trim src) = _
    unfold logicalL
    have hs' : simpleL (env.withDepth 0) none (trim src) =
        errAt .nestingLimitExceeded (trim src) := hs
    rw [hs']; rfl
  rw [this]; rfl

/-! ### pinned constants -/

/-- **default_128.** The model's default limit is the constant extracted from
`ParserSettings::default()` … -/
theorem default_extracted : ({} : Settings).maxDepth = Generated.defaultMaxNesting := rfl

/-- … which is 128. -/
theorem default_128 : ({} : Settings).maxDepth = 128 ∧ Generated.defaultMaxNesting = 128 :=
  ⟨rfl, rfl⟩

/-- `with_increased_nesting` refuses when `current >= max` with `NestingLimitExceeded`
(so budget `max - current = 0` is the exhausted level of the model). -/
theorem guard_pinned : Generated.nestingGuard = (">=", "NestingLimitExceeded") := rfl

/-- The `with_increased_nesting(` call sites: three in `logical_expr.rs` (parenthesis, unary
`not`, quantifier — the three `nestErr` of `simpleL`), one in `field_expr.rs` (function call
via identifier — the `nestErr` of `indexExprL`), one in `function_expr.rs`
(`FunctionCallExpr::lex_with`, not reachable from `FilterParser::parse`), none elsewhere. -/
theorem nesting_sites_pinned :
    Generated.nestingSites =
      [("engine/src/ast/logical_expr.rs", 3), ("engine/src/ast/field_expr.rs", 1),
       ("engine/src/ast/function_expr.rs", 1), ("engine/src/ast/index_expr.rs", 0)] := rfl

/-! ### a concrete instance (hypotheses are satisfiable, limits bite) -/

/-- scheme with a Bool field `t` and an array-of-Int field `n` -/
def exScheme : Scheme :=
  { fields := [{ name := "t".toList, ty := .bool, optional := false },
               { name := "n".toList, ty := .array .int, optional := false }],
    funcs := [], lists := [] }

def exEnv (d : Nat) : PEnv := ({ scheme := exScheme, st := {} } : PEnv).withDepth d

example : (parseFilter (exEnv 2) "(not t)".toList).toOption.map nesting = some 2 := by decide +kernel
example : (parseFilter (exEnv 1) "(not t)".toList).toOption.map nesting = none := by decide +kernel
example : (parseFilter (exEnv 1) "t and any(n[*] == 1)".toList).toOption.map nesting = some 1 := by
  decide +kernel
example : (parseFilter (exEnv 0) "t and any(n[*] == 1)".toList).toOption.map nesting = none := by
  decide +kernel

end WfModel.C13
