import WfModel.Lemmas.Search
import WfModel.Generated

/-!
# C10 — `contains` is exact substring search on every code path (partial)

Property theorems only. Model: `WfModel/Model/Search.lean`
(`engine/src/ast/field_expr.rs:542-687`, `engine/src/searcher.rs`, scalar skeleton of
`sliceslice::x86::Avx2Searcher`).

*Partial*: the theorems cover the dispatch and the anchor-filtered candidate search for
every needle, haystack, anchor and `USE_AVX2` value; the vector-lane grouping, overlapping
last chunk and mask inside `sliceslice`, and `memchr`/`memmem`'s own SIMD code, are
third-party `unsafe` code that this skeleton does not represent — they are sampled by the
correspondence stream `contains` only.
-/
namespace WfModel.C10
open WfModel.Search

/-- The reference search is the declarative statement of the property: `p` occurs in `h`
as a contiguous block at some offset `i`. -/
theorem naive_spec (h p : Bytes) :
    naive h p = true ↔ ∃ i, i + p.length ≤ h.length ∧ (h.drop i).take p.length = p :=
  naive_spec_aux p h

/-- The empty pattern occurs in every haystack, the empty one included. -/
theorem empty_always (h : Bytes) (avx : Bool) (k : Nat) :
    naive h [] = true ∧ containsOp [] avx k h = some true :=
  ⟨naive_nil h, rfl⟩

/-- A needle longer than the haystack never occurs. -/
theorem longer_needle_false (h p : Bytes) (hl : h.length < p.length) : naive h p = false :=
  naive_longer h p hl

/-- **Every anchor.** Pre-filtering the candidate offsets by the first byte and by byte `k`
of the needle, then comparing the rest, finds exactly what the reference search finds —
for every valid anchor position (the engine draws `1 ≤ k`; `k = 0` is also fine), needle
and haystack, including `|h| ≤ |p|` (the whole-haystack comparison shortcut). -/
theorem anchored_eq_spec (k : Nat) (h p : Bytes) (hk : k < p.length) :
    anchoredSearch k h p = naive h p :=
  anchoredSearch_eq k h p hk

/-- The single-byte shortcut (with its empty-haystack early exit) is the reference search
for a one-byte needle. -/
theorem memchr_eq_spec (b : UInt8) (h : Bytes) : memchrSearch b h = naive h [b] :=
  memchrSearch_eq b h

/-- The scalar fallback: `Finder::find(..).is_some()` under memmem's contract (first
occurrence) is the reference search. -/
theorem memmem_eq_spec (p h : Bytes) : (memmemFind p h).isSome = naive h p :=
  memmemFind_isSome p h

/-- The anchor the engine draws (`random_range(1..len)`, or a forced in-range position) never
trips `Avx2Searcher::with_position`'s assertion: no panic on any path. -/
theorem dispatch_never_panics (p h : Bytes) (avx : Bool) (k : Nat)
    (hk : 2 ≤ p.length → avx = true → k < p.length) :
    (containsOp p avx k h).isSome = true := by
  unfold containsOp dispatch
  split
  · rfl
  · rfl
  · next hne hns =>
    have h2 : 2 ≤ p.length := by
      match p, hne, hns with
      | [], hne, _ => exact absurd rfl hne
      | [b], _, hns => exact absurd rfl (hns b)
      | _ :: _ :: _, _, _ => simp
    cases avx with
    | false => rfl
    | true => simp [run, hk h2 rfl]

/-- **Main theorem.** For every needle `p`, haystack `h`, value of the `USE_AVX2` latch and
anchor position the engine can draw or be forced to, the compiled searcher answers exactly
the reference search. In particular the answer does not depend on `WIREFILTER_USE_AVX2`, on
the anchor, or on which compilation of the filter is executed. -/
theorem dispatch_total_and_correct (p h : Bytes) (avx : Bool) (k : Nat)
    (hk : 2 ≤ p.length → avx = true → k < p.length) :
    run (dispatch p avx k) h = some (naive h p) := by
  unfold dispatch
  split
  · simp [run, naive_nil]
  · next b => simp [run, memchrSearch_eq]
  · next hne hns =>
    have h2 : 2 ≤ p.length := by
      match p, hne, hns with
      | [], hne, _ => exact absurd rfl hne
      | [b], _, hns => exact absurd rfl (hns b)
      | _ :: _ :: _, _, _ => simp
    cases avx with
    | false => simp [run, memmemFind_isSome]
    | true =>
      have hk' := hk h2 rfl
      simp [run, hk', anchoredSearch_eq k h p hk']

/-- Path independence, stated directly: two compilations of the same `contains` expression
under different latch values and different anchors agree on every haystack. -/
theorem path_independent (p h : Bytes) (avx₁ avx₂ : Bool) (k₁ k₂ : Nat)
    (h₁ : 1 ≤ k₁ ∧ k₁ < p.length ∨ p.length < 2) (h₂ : 1 ≤ k₂ ∧ k₂ < p.length ∨ p.length < 2) :
    containsOp p avx₁ k₁ h = containsOp p avx₂ k₂ h := by
  unfold containsOp
  rw [dispatch_total_and_correct p h avx₁ k₁ (by omega),
    dispatch_total_and_correct p h avx₂ k₂ (by omega)]

/-- An out-of-range anchor would be a panic in `with_position`, not a wrong answer (the
model does not totalise it away). -/
theorem bad_anchor_is_panic (p h : Bytes) (k : Nat) (h2 : 2 ≤ p.length) (hk : p.length ≤ k) :
    containsOp p true k h = none := by
  unfold containsOp dispatch
  split
  · simp at h2
  · simp at h2
  · simp [run]; omega

/-- Translator tie: the engine draws the anchor from `1..len`, specialises exactly the
lengths 2..=16 with `N = len`, and the SIMD path is switched off by exactly these values of
`WIREFILTER_USE_AVX2`. -/
theorem source_shape :
    Generated.containsAnchorLo = 1 ∧
    Generated.containsArrayArms = (List.range 15).map (fun i => (i + 2, i + 2)) ∧
    Generated.containsNoValues = ["0", "no", "false"] := by decide

/-! Non-vacuity: concrete instances of the hypotheses with false candidates (first byte and
anchor byte match, full comparison fails) before the real occurrence. -/
example : anchoredSearch 2 [1, 2, 1, 1, 1, 2, 1, 2] [1, 2, 1, 2] = true := by decide
example : anchoredAt 2 [1, 2, 1, 2] [1, 1, 1, 2, 1, 2] = false ∧
    ([1, 1, 1, 2, 1, 2] : Bytes)[0]? = ([1, 2, 1, 2] : Bytes)[0]? ∧
    ([1, 1, 1, 2, 1, 2] : Bytes)[2]? = ([1, 2, 1, 2] : Bytes)[2]? := by decide
example : containsOp [1, 2, 1, 2] true 3 [1, 2, 1, 1, 1, 2, 1, 2] = some true :=
  (dispatch_total_and_correct _ _ _ _ (by decide)).trans (by decide)
example : containsOp [1, 2, 1, 2] false 0 [1, 2, 1, 1, 1, 2, 1] = some false :=
  (dispatch_total_and_correct _ _ _ _ (by decide)).trans (by decide)

end WfModel.C10
