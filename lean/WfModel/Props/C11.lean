import WfModel.Lemmas.Wild
import WfModel.Lemmas.RxScan
import WfModel.Generated

/-!
# C11 — regex and wildcard operators match with the documented semantics (partial)

Property theorems only. Models: `WfModel/Model/Wild.lean` (`rhs_types/wildcard.rs`, the
`wildcard` crate's parser as configured, operator wiring of `field_expr.rs`) and
`WfModel/Model/RxScan.lean` (`lex_regex_from_literal`, `rhs_types/regex/mod.rs:70-113`).

*Partial*: `regex-automata` (regex syntax, matching, size accounting) and the backtracking
loop of `wildcard::Wildcard::is_match` are third-party code. Here the wildcard *contract*
(reference matcher = split specification, parser, validation order) and the engine's own
quoted-regex scanner are proved; the third-party matchers are compared by the correspondence
streams `wild` (exhaustive small alphabet) and `rx` (generated subset vs. a reference matcher
and quoted/raw agreement) only. No derivative-based regex matcher is proved (`deriv_correct`
of DESIGN.md is not claimed).
-/
namespace WfModel.C11
open WfModel.Wild WfModel.RxScan

/-! ## Wildcard patterns -/

/-- The parser accepts exactly the grammar: `*` is the metasymbol, `\*` and `\\` are the
only escapes (so `\?`, `\a` and a trailing `\` are errors), every other byte — `?`
included — is a literal. -/
theorem wild_parse_grammar (s : Bytes) (t : List Tok) : parse s = .ok t ↔ Denotes s t :=
  parse_iff_denotes s t

/-- Every token sequence has a spelling, and the parser reads it back. -/
theorem wild_render_roundtrip (t : List Tok) : parse (render t) = .ok t :=
  parse_of_denotes (denotes_render t)

/-- **Matching = split specification.** A value matches iff it can be cut into one piece per
token, a `*` taking any byte sequence (possibly empty) and a literal taking exactly one byte
equal to it (up to ASCII case when case-insensitive). The pieces concatenate to the *whole*
value: there is no partial / substring match. -/
theorem wild_spec (ci : Bool) (toks : List Tok) (v : Bytes) :
    matchToks ci toks v = true ↔ ∃ ws : List Bytes, ws.flatten = v ∧ Pieces ci toks ws :=
  matchToks_iff ci toks v

/-- Whole-value matching, concretely: without `*` the value has exactly one byte per token. -/
theorem wild_whole_value (ci : Bool) (toks : List Tok) (v : Bytes)
    (hn : ∀ t ∈ toks, t ≠ Tok.star) (hm : matchToks ci toks v = true) : v.length = toks.length :=
  no_star_length ci toks v hn hm

/-- `*` alone matches everything; `\*` only a literal star. -/
theorem star_any_escaped_star_literal (ci : Bool) (v : Bytes) :
    matchToks ci [.star] v = true ∧ (matchToks ci [.lit cStar] v = true ↔ v = [cStar]) :=
  ⟨(wild_spec ci _ v).mpr ⟨[v], by simp, .cons trivial .nil⟩,
   matchToks_single ci cStar (by decide) v⟩

/-- **Operator wiring and case.** For a pattern without `*` and `\`: `strict wildcard` holds
iff the value *is* the pattern, `wildcard` iff they are equal after ASCII lower-casing —
whatever the star limit. -/
theorem strict_case (lim : Nat) (p v : Bytes) (hp : Plain p) :
    wildcardOp true lim p v = .ok (decide (v = p)) ∧
    wildcardOp false lim p v = .ok (decide (v.map lower = p.map lower)) := by
  have hparse : parse p = .ok (lits p) := parse_of_denotes (denotes_plain p hp)
  have hs : starCount (lits p) = 0 := starCount_lits p
  have hd : hasDoubleStar (lits p) = false := hasDoubleStar_lits p
  have hacc : accept lim p = .ok (lits p) :=
    (accept_ok_iff lim p _).mpr ⟨hparse, by omega, hd⟩
  constructor
  · simp only [wildcardOp, hacc, Except.map, caseInsensitive, Bool.not_true]
    congr 1
    rw [Bool.eq_iff_iff, matchToks_lits_strict]; simp
  · simp only [wildcardOp, hacc, Except.map, caseInsensitive, Bool.not_false]
    congr 1
    rw [Bool.eq_iff_iff, matchToks_lits_fold]; simp

/-- Case folding is ASCII only: a non-ASCII byte (≥ 0x80) and every non-letter equals only
itself in either mode; `a`–`z` / `A`–`Z` pair up when case-insensitive. -/
theorem fold_ascii_only (a b : UInt8) :
    (eqByte false a b = true ↔ a = b) ∧
    (eqByte true a b = true ↔ lower a = lower b) ∧
    (a ≥ 0x80 → lower a = a) := by
  refine ⟨eqByte_strict a b, by simp [eqByte], ?_⟩
  intro h
  apply lower_of_not_upper
  right
  have h2 : 0x80 ≤ a.toNat := by simpa [UInt8.le_iff_toNat_le, GE.ge] using h
  omega

/-- **`?` is an ordinary character**: it parses as a literal, it matches exactly the byte
`?` in both modes, and it cannot be escaped (`\?` is a syntax error). -/
theorem question_literal (s : Bytes) (ci : Bool) (v : Bytes) :
    parse (cQuestion :: s) = (parse s).map (Tok.lit cQuestion :: ·) ∧
    (matchToks ci [.lit cQuestion] v = true ↔ v = [cQuestion]) ∧
    parse (cEsc :: cQuestion :: s) = .error .invalidEscape := by
  refine ⟨?_, ?_, ?_⟩
  · cases s with
    | nil => simp [parse, cQuestion, cEsc, cStar, Except.map]
    | cons d rest => rw [parse]; simp [cQuestion, cEsc, cStar]
  · exact matchToks_single ci cQuestion (by decide) v
  · rw [parse]; simp [cQuestion, cEsc, cStar]

/-- **Validation.** A pattern is accepted under star limit `lim` iff it is in the grammar,
has at most `lim` stars and no two adjacent stars. -/
theorem wild_validate (lim : Nat) (s : Bytes) (t : List Tok) :
    accept lim s = .ok t ↔ Denotes s t ∧ starCount t ≤ lim ∧ ¬ AdjacentStars t := by
  rw [accept_ok_iff, parse_iff_denotes, ← hasDoubleStar_iff]
  simp

/-- … and which error is reported, in the order the Rust code checks: the crate's syntax
error first, then the star limit, then the double star. -/
theorem wild_reject_order (lim : Nat) (s : Bytes) (e : Reject) :
    accept lim s = .error e ↔
      parse s = .error e ∨
      ∃ t, Denotes s t ∧
        ((lim < starCount t ∧ e = .tooManyStars) ∨
         (starCount t ≤ lim ∧ AdjacentStars t ∧ e = .doubleStar)) := by
  rw [accept_error_iff]
  simp only [parse_iff_denotes, hasDoubleStar_iff]

/-- Rejection happens at parse time and never depends on the value. -/
theorem reject_is_parse_time (strict : Bool) (lim : Nat) (p v₁ v₂ : Bytes) (e : Reject)
    (h : wildcardOp strict lim p v₁ = .error e) : wildcardOp strict lim p v₂ = .error e := by
  unfold wildcardOp at *
  cases ha : accept lim p with
  | error e' => simpa [ha, Except.map] using h
  | ok t => simp [ha, Except.map] at h

/-! ## Quoted-regex scanner -/

/-- **Scanner law.** Take any pattern `p` that has a quoted spelling (`escapeForQuoted`
writes a quote outside a character class as `\"` and leaves everything else alone). Its
spelling followed by the closing `"` and any rest scans back to exactly `p` and that rest. -/
theorem scan_quoted_law (p src rest : List Char) (h : escapeForQuoted p = some src) :
    scanQuoted (src ++ cQuote :: rest) = some (p, rest) :=
  scan_escape false p src rest h

/-- Conversely, whenever the scanner succeeds, the text it consumed is exactly the quoted
spelling of the pattern it returns, plus the closing quote (so the scanner changes nothing
but `\"` → `"` outside classes, and stops at the first unescaped quote outside a class). -/
theorem scan_quoted_inverse (s p rest : List Char) (h : scanQuoted s = some (p, rest)) :
    ∃ src, escapeForQuoted p = some src ∧ s = src ++ cQuote :: rest :=
  escape_scan false s p rest h

/-- **Only `\"` outside a class is un-escaped.** Every other escape pair reaches the regex
engine verbatim (backslash included), also `\"` inside a class; an unescaped quote inside
a class neither ends the literal nor is altered; a backslash as last character makes the
literal unterminated. -/
theorem scan_only_unescapes_quote (cls : Bool) (d : Char) (s : List Char) :
    scan false (cBackslash :: cQuote :: s) = push [cQuote] (scan false s) ∧
    (¬ (d = cQuote ∧ cls = false) →
      scan cls (cBackslash :: d :: s) = push [cBackslash, d] (scan cls s)) ∧
    scan true (cQuote :: s) = push [cQuote] (scan true s) ∧
    scan cls [cBackslash] = none := by
  refine ⟨?_, ?_, ?_, scan_bs_nil cls⟩
  · rw [scan_bs, escOut_quote]
  · intro h; rw [scan_bs, escOut_other cls d h]
  · rw [scan_ne _ _ _ quote_ne_bs]; simp [cQuote, cOpen, cClose]

/-- Without any `"` the literal is unterminated (`MissingEndingQuote`). -/
theorem scan_missing_quote : ∀ (cls : Bool) (s : List Char), cQuote ∉ s → scan cls s = none
  | _, [], _ => rfl
  | cls, [c], h => by
    by_cases hc : c = cBackslash
    · subst hc; exact scan_bs_nil cls
    · have hq : c ≠ cQuote := fun e => h (by simp [e])
      rw [scan_ne _ _ _ hc]; simp [hq, scan, push]
  | cls, c :: d :: s, h => by
    have hs : cQuote ∉ s := fun m => h (List.mem_cons_of_mem _ (List.mem_cons_of_mem _ m))
    have hds : cQuote ∉ d :: s := fun m => h (List.mem_cons_of_mem _ m)
    by_cases hc : c = cBackslash
    · subst hc; rw [scan_bs, scan_missing_quote cls s hs]; rfl
    · have hq : c ≠ cQuote := fun e => h (by simp [e])
      rw [scan_ne _ _ _ hc]
      simp only [hq, false_and, if_false]
      split
      · rw [scan_missing_quote true _ hds]; rfl
      · split
        · rw [scan_missing_quote false _ hds]; rfl
        · rw [scan_missing_quote cls _ hds]; rfl

/-- Translator tie: the builder flags and the operator wiring the model assumes are the ones
in the source (`without_one_metasymbol`, `case_insensitive(!STRICT)`, `wildcard` ↦
`Wildcard<false>`, `strict wildcard` ↦ `Wildcard<true>`, checks in the order star limit then
double star; regex built with `unicode(false)`, `utf8(false)`). -/
theorem source_shape :
    Generated.wildcardBuilder = ["without_one_metasymbol", "case_insensitive(!STRICT)"] ∧
    Generated.wildcardValidateOrder = ["star_count > wildcard_star_limit", "has_double_star"] ∧
    Generated.wildcardOpWiring = [("Wildcard", "false"), ("StrictWildcard", "true")] ∧
    Generated.regexSyntaxFlags = [("unicode", "false"), ("utf8", "false")] := by decide

/-! Non-vacuity. -/
example : parse [0x61, cEsc, cStar, cStar, cQuestion] =
    .ok [.lit 0x61, .lit cStar, .star, .lit cQuestion] := rfl
example : accept 1 [cStar, 0x61, cStar] = .error .tooManyStars := rfl
example : accept 5 [cStar, cStar] = .error .doubleStar := rfl
example : accept 1 [cStar, cStar] = .error .tooManyStars := rfl
example : accept 5 [cStar, cEsc, cStar, cStar] = .ok [.star, .lit cStar, .star] := rfl
example : Plain [0x61, 0x42] := by unfold Plain; decide
example : wildcardOp false 0 [0x61, 0x42] [0x41, 0x62] = .ok true := rfl
example : wildcardOp true 0 [0x61, 0x42] [0x41, 0x62] = .ok false := rfl
example : matchToks true [.lit 0x61, .star, .lit 0x42] [0x41, 0xff, 0x62, 0x62] = true := by decide
/-- the Rust unit test's literal: a class holding a quote and an escaped bracket, then `\"` -/
example : escapeForQuoted ['[', 'a', '-', 'z', '"', '\\', ']', ']', '+', '\\', 'd', '{', '1', ',', '1', '0', '}', '"'] = some ['[', 'a', '-', 'z', '"', '\\', ']', ']', '+', '\\', 'd', '{', '1', ',', '1', '0', '}', '\\', '"'] := by
  decide
example : scanQuoted ['[', 'a', '-', 'z', '"', '\\', ']', ']', '+', '\\', 'd', '{', '1', ',', '1', '0', '}', '\\', '"', '"', ';'] =
    some (['[', 'a', '-', 'z', '"', '\\', ']', ']', '+', '\\', 'd', '{', '1', ',', '1', '0', '}', '"'], [';']) := by decide

end WfModel.C11
