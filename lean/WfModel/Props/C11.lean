import WfModel.Lemmas.Wild
import WfModel.Lemmas.RxScan
import WfModel.Lemmas.Rx
import WfModel.Generated

/-!
# C11 — regex and wildcard operators match with the documented semantics (partial)

Property theorems only. Models: `WfModel/Model/Wild.lean` (`rhs_types/wildcard.rs`, the
`wildcard` crate's parser as configured, operator wiring of `field_expr.rs`) and
`WfModel/Model/RxScan.lean` (`lex_regex_from_literal`, `rhs_types/regex/mod.rs:70-113`).

*Partial*: `regex-automata` (regex syntax, matching, size accounting) and the backtracking
loop of `wildcard::Wildcard::is_match` are third-party code. Here the wildcard *contract*
(reference matcher = split specification, parser, validation order) and the engine's own
quoted-regex scanner are proved; the third-party matchers are compared by the correspondence
streams `wild` (exhaustive small alphabet) and `rx`.

Regex matching (`WfModel/Model/Rx.lean`): for a documented subset of the syntax the model
contains a parser and a position-aware Brzozowski-derivative matcher; it is proved here to
decide a declarative language semantics (`deriv_correct`, anchors `^` `$` included, for all
regexes and words) and to be an unanchored search (`search_unanchored`); "byte-oriented,
non-Unicode" is made precise (`dot_is_any_byte_but_newline`, `class_is_byte_set`,
`hex_escape_is_byte`, `literal_char_utf8`, `perl_classes_ascii`) and plain literal patterns
denote substring search (`parse_literal`). The driver answers the `rxm` lines of stream `rx`
with this proved matcher, so the real engine (regex-automata, third party, *not* modelled)
is compared with it on every generated pattern inside the subset; patterns outside the
subset (`Rx.parse = none`) are `skip`. NOT proved: that `Rx.parse` agrees with
`regex-syntax` on the subset (tied by the correspondence only).
-/
namespace WfModel.C11
open WfModel.Wild WfModel.RxScan

/-! ## Wildcard patterns -/

/-- The parser accepts exactly the grammar: `*` is the metasymbol, `\*` and `\\` are the
only escapes (so `\?`, `\a` and a trailing `\` are errors), every other byte — `?`
included — is a literal. -/
theorem wild_parse_grammar (s : Bytes) (t : List Tok) : parse s = .ok t ↔ Denotes s t :=
  parse_iff_denotes s t

/-- Every token sequence has a spelling, and the parser reads it back. -/
theorem wild_render_roundtrip (t : List Tok) : parse (render t) = .ok t :=
  parse_of_denotes (denotes_render t)

/-- **Matching = split specification.** A value matches iff it can be cut into one piece per
token, a `*` taking any byte sequence (possibly empty) and a literal taking exactly one byte
equal to it (up to ASCII case when case-insensitive). The pieces concatenate to the *whole*
value: there is no partial / substring match. -/
theorem wild_spec (ci : Bool) (toks : List Tok) (v : Bytes) :
    matchToks ci toks v = true ↔ ∃ ws : List Bytes, ws.flatten = v ∧ Pieces ci toks ws :=
  matchToks_iff ci toks v

/-- Whole-value matching, concretely: without `*` the value has exactly one byte per token. -/
theorem wild_whole_value (ci : Bool) (toks : List Tok) (v : Bytes)
    (hn : ∀ t ∈ toks, t ≠ Tok.star) (hm : matchToks ci toks v = true) : v.length = toks.length :=
  no_star_length ci toks v hn hm

/-- `*` alone matches everything; `\*` only a literal star. -/
theorem star_any_escaped_star_literal (ci : Bool) (v : Bytes) :
    matchToks ci [.star] v = true ∧ (matchToks ci [.lit cStar] v = true ↔ v = [cStar]) :=
  ⟨(wild_spec ci _ v).mpr ⟨[v], by simp, .cons trivial .nil⟩,
   matchToks_single ci cStar (by decide) v⟩

/-- **Operator wiring and case.** For a pattern without `*` and `\`: `strict wildcard` holds
iff the value *is* the pattern, `wildcard` iff they are equal after ASCII lower-casing —
whatever the star limit. -/
theorem strict_case (lim : Nat) (p v : Bytes) (hp : Plain p) :
    wildcardOp true lim p v = .ok (decide (v = p)) ∧
    wildcardOp false lim p v = .ok (decide (v.map lower = p.map lower)) := by
  have hparse : parse p = .ok (lits p) := parse_of_denotes (denotes_plain p hp)
  have hs : starCount (lits p) = 0 := starCount_lits p
  have hd : hasDoubleStar (lits p) = false := hasDoubleStar_lits p
  have hacc : accept lim p = .ok (lits p) :=
    (accept_ok_iff lim p _).mpr ⟨hparse, by omega, hd⟩
  constructor
  · simp only [wildcardOp, hacc, Except.map, caseInsensitive, Bool.not_true]
    congr 1
    rw [Bool.eq_iff_iff, matchToks_lits_strict]; simp
  · simp only [wildcardOp, hacc, Except.map, caseInsensitive, Bool.not_false]
    congr 1
    rw [Bool.eq_iff_iff, matchToks_lits_fold]; simp

/-- Case folding is ASCII only: a non-ASCII byte (≥ 0x80) and every non-letter equals only
itself in either mode; `a`–`z` / `A`–`Z` pair up when case-insensitive. -/
theorem fold_ascii_only (a b : UInt8) :
    (eqByte false a b = true ↔ a = b) ∧
    (eqByte true a b = true ↔ lower a = lower b) ∧
    (a ≥ 0x80 → lower a = a) := by
  refine ⟨eqByte_strict a b, by simp [eqByte], ?_⟩
  intro h
  apply lower_of_not_upper
  right
  have h2 : 0x80 ≤ a.toNat := by simpa [UInt8.le_iff_toNat_le, GE.ge] using h
  omega

/-- **`?` is an ordinary character**: it parses as a literal, it matches exactly the byte
`?` in both modes, and it cannot be escaped (`\?` is a syntax error). -/
theorem question_literal (s : Bytes) (ci : Bool) (v : Bytes) :
    parse (cQuestion :: s) = (parse s).map (Tok.lit cQuestion :: ·) ∧
    (matchToks ci [.lit cQuestion] v = true ↔ v = [cQuestion]) ∧
    parse (cEsc :: cQuestion :: s) = .error .invalidEscape := by
  refine ⟨?_, ?_, ?_⟩
  · cases s with
    | nil => simp [parse, cQuestion, cEsc, cStar, Except.map]
    | cons d rest => rw [parse]; simp [cQuestion, cEsc, cStar]
  · exact matchToks_single ci cQuestion (by decide) v
  · rw [parse]; simp [cQuestion, cEsc, cStar]

/-- **Validation.** A pattern is accepted under star limit `lim` iff it is in the grammar,
has at most `lim` stars and no two adjacent stars. -/
theorem wild_validate (lim : Nat) (s : Bytes) (t : List Tok) :
    accept lim s = .ok t ↔ Denotes s t ∧ starCount t ≤ lim ∧ ¬ AdjacentStars t := by
  rw [accept_ok_iff, parse_iff_denotes, ← hasDoubleStar_iff]
  simp

/-- … and which error is reported, in the order the Rust code checks: the crate's syntax
error first, then the star limit, then the double star. -/
theorem wild_reject_order (lim : Nat) (s : Bytes) (e : Reject) :
    accept lim s = .error e ↔
      parse s = .error e ∨
      ∃ t, Denotes s t ∧
        ((lim < starCount t ∧ e = .tooManyStars) ∨
         (starCount t ≤ lim ∧ AdjacentStars t ∧ e = .doubleStar)) := by
  rw [accept_error_iff]
  simp only [parse_iff_denotes, hasDoubleStar_iff]

/-- Rejection happens at parse time and never depends on the value. -/
theorem reject_is_parse_time (strict : Bool) (lim : Nat) (p v₁ v₂ : Bytes) (e : Reject)
    (h : wildcardOp strict lim p v₁ = .error e) : wildcardOp strict lim p v₂ = .error e := by
  unfold wildcardOp at *
  cases ha : accept lim p with
  | error e' => simpa [ha, Except.map] using h
  | ok t => simp [ha, Except.map] at h

/-! ## Quoted-regex scanner -/

/-- **Scanner law.** Take any pattern `p` that has a quoted spelling (`escapeForQuoted`
writes a quote outside a character class as `\"` and leaves everything else alone). Its
spelling followed by the closing `"` and any rest scans back to exactly `p` and that rest. -/
theorem scan_quoted_law (p src rest : List Char) (h : escapeForQuoted p = some src) :
    scanQuoted (src ++ cQuote :: rest) = some (p, rest) :=
  scan_escape false p src rest h

/-- Conversely, whenever the scanner succeeds, the text it consumed is exactly the quoted
spelling of the pattern it returns, plus the closing quote (so the scanner changes nothing
but `\"` → `"` outside classes, and stops at the first unescaped quote outside a class). -/
theorem scan_quoted_inverse (s p rest : List Char) (h : scanQuoted s = some (p, rest)) :
    ∃ src, escapeForQuoted p = some src ∧ s = src ++ cQuote :: rest :=
  escape_scan false s p rest h

/-- **Only `\"` outside a class is un-escaped.** Every other escape pair reaches the regex
engine verbatim (backslash included), also `\"` inside a class; an unescaped quote inside
a class neither ends the literal nor is altered; a backslash as last character makes the
literal unterminated. -/
theorem scan_only_unescapes_quote (cls : Bool) (d : Char) (s : List Char) :
    scan false (cBackslash :: cQuote :: s) = push [cQuote] (scan false s) ∧
    (¬ (d = cQuote ∧ cls = false) →
      scan cls (cBackslash :: d :: s) = push [cBackslash, d] (scan cls s)) ∧
    scan true (cQuote :: s) = push [cQuote] (scan true s) ∧
    scan cls [cBackslash] = none := by
  refine ⟨?_, ?_, ?_, scan_bs_nil cls⟩
  · rw [scan_bs, escOut_quote]
  · intro h; rw [scan_bs, escOut_other cls d h]
  · rw [scan_ne _ _ _ quote_ne_bs]; simp [cQuote, cOpen, cClose]

/-- Without any `"` the literal is unterminated (`MissingEndingQuote`). -/
theorem scan_missing_quote : ∀ (cls : Bool) (s : List Char), cQuote ∉ s → scan cls s = none
  | _, [], _ => rfl
  | cls, [c], h => by
    by_cases hc : c = cBackslash
    · subst hc; exact scan_bs_nil cls
    · have hq : c ≠ cQuote := fun e => h (by simp [e])
      rw [scan_ne _ _ _ hc]; simp [hq, scan, push]
  | cls, c :: d :: s, h => by
    have hs : cQuote ∉ s := fun m => h (List.mem_cons_of_mem _ (List.mem_cons_of_mem _ m))
    have hds : cQuote ∉ d :: s := fun m => h (List.mem_cons_of_mem _ m)
    by_cases hc : c = cBackslash
    · subst hc; rw [scan_bs, scan_missing_quote cls s hs]; rfl
    · have hq : c ≠ cQuote := fun e => h (by simp [e])
      rw [scan_ne _ _ _ hc]
      simp only [hq, false_and, if_false]
      split
      · rw [scan_missing_quote true _ hds]; rfl
      · split
        · rw [scan_missing_quote false _ hds]; rfl
        · rw [scan_missing_quote cls _ hds]; rfl

/-- Translator tie: the builder flags and the operator wiring the model assumes are the ones
in the source (`without_one_metasymbol`, `case_insensitive(!STRICT)`, `wildcard` ↦
`Wildcard<false>`, `strict wildcard` ↦ `Wildcard<true>`, checks in the order star limit then
double star; regex built with `unicode(false)`, `utf8(false)`). -/
theorem source_shape :
    Generated.wildcardBuilder = ["without_one_metasymbol", "case_insensitive(!STRICT)"] ∧
    Generated.wildcardValidateOrder = ["star_count > wildcard_star_limit", "has_double_star"] ∧
    Generated.wildcardOpWiring = [("Wildcard", "false"), ("StrictWildcard", "true")] ∧
    Generated.regexSyntaxFlags = [("unicode", "false"), ("utf8", "false")] := by decide

/-! Non-vacuity. -/
example : parse [0x61, cEsc, cStar, cStar, cQuestion] =
    .ok [.lit 0x61, .lit cStar, .star, .lit cQuestion] := rfl
example : accept 1 [cStar, 0x61, cStar] = .error .tooManyStars := rfl
example : accept 5 [cStar, cStar] = .error .doubleStar := rfl
example : accept 1 [cStar, cStar] = .error .tooManyStars := rfl
example : accept 5 [cStar, cEsc, cStar, cStar] = .ok [.star, .lit cStar, .star] := rfl
example : Plain [0x61, 0x42] := by unfold Plain; decide
example : wildcardOp false 0 [0x61, 0x42] [0x41, 0x62] = .ok true := rfl
example : wildcardOp true 0 [0x61, 0x42] [0x41, 0x62] = .ok false := rfl
example : matchToks true [.lit 0x61, .star, .lit 0x42] [0x41, 0xff, 0x62, 0x62] = true := by decide
/-- the Rust unit test's literal: a class holding a quote and an escaped bracket, then `\"` -/
example : escapeForQuoted ['[', 'a', '-', 'z', '"', '\\', ']', ']', '+', '\\', 'd', '{', '1', ',', '1', '0', '}', '"'] = some ['[', 'a', '-', 'z', '"', '\\', ']', ']', '+', '\\', 'd', '{', '1', ',', '1', '0', '}', '\\', '"'] := by
  decide
example : scanQuoted ['[', 'a', '-', 'z', '"', '\\', ']', ']', '+', '\\', 'd', '{', '1', ',', '1', '0', '}', '\\', '"', '"', ';'] =
    some (['[', 'a', '-', 'z', '"', '\\', ']', ']', '+', '\\', 'd', '{', '1', ',', '1', '0', '}', '"'], [';']) := by decide

/-! ## Regex matching on the modelled subset: a proved matcher

`Rx.Matches r w s e` (declarative, `WfModel/Lemmas/Rx.lean`): the word `w` is in the language
of `r` when `w` begins at the haystack start iff `s` and ends at the haystack end iff `e`. -/

/-- **S `deriv_correct`.** The derivative matcher decides the declarative language — for
every regex (anchors included), every word and every placement of the word in a haystack. -/
theorem deriv_correct (r : Rx) (w : List UInt8) (s e : Bool) :
    Rx.matchesFrom r w s e = true ↔ Rx.Matches r w s e :=
  Rx.matchesFrom_iff r w s e

/-- … in particular for a word that is the whole haystack. -/
theorem deriv_correct_whole (r : Rx) (w : List UInt8) :
    Rx.matchesWhole r w = true ↔ Rx.Matches r w true true :=
  Rx.matchesFrom_iff r w true true

/-- The two laws behind it: `nullable` is "accepts the empty word here", and the derivative
by `b` read at a position with start flag `s` is the left quotient of the language (after a
byte the position is not the start any more; the end flag is untouched). -/
theorem deriv_laws (r : Rx) (s e : Bool) (b : UInt8) (w : List UInt8) :
    (Rx.nullable r s e = true ↔ Rx.Matches r [] s e) ∧
    (Rx.Matches (Rx.deriv s b r) w false e ↔ Rx.Matches r (b :: w) s e) :=
  ⟨Rx.nullable_iff r s e, Rx.deriv_iff s b r w e⟩

/-- `star` is a concatenation of NON-EMPTY matches of its body (empty iterations, possible
with anchors or nullable bodies, add nothing), and only the first of them can begin at the
haystack start. -/
theorem star_nonempty_pieces (r : Rx) (w : List UInt8) (s e : Bool)
    (h : Rx.Matches (.star r) w s e) :
    w = [] ∨ ∃ b u v, w = b :: u ++ v ∧ Rx.Matches r (b :: u) s (e && v.isEmpty) ∧
      Rx.Matches (.star r) v false e :=
  Rx.star_cases h

/-- **`matches` is an unanchored search.** `Rx.search` (= `Regex::is_match`) holds iff SOME
substring `mid` of the haystack is in the language, the anchors seeing the true haystack
boundaries: `mid` begins at the start iff nothing precedes it and ends at the end iff
nothing follows it. -/
theorem search_unanchored (r : Rx) (h : List UInt8) :
    Rx.search r h = true ↔
      ∃ pre mid post, h = pre ++ mid ++ post ∧ Rx.Matches r mid pre.isEmpty post.isEmpty :=
  Rx.search_iff r h

/-- `^r` must match at the very beginning, `r$` up to the very end (no multi-line mode: a
trailing `\n` is not skipped), `^r$` = the whole value is in the language of `r`. -/
theorem anchors_pin_the_ends (r : Rx) (h : List UInt8) :
    (Rx.search (.cat .bol r) h = true ↔
      ∃ mid post, h = mid ++ post ∧ Rx.Matches r mid true post.isEmpty) ∧
    (Rx.search (.cat r .eol) h = true ↔
      ∃ pre mid, h = pre ++ mid ∧ Rx.Matches r mid pre.isEmpty true) ∧
    (Rx.search (.cat .bol (.cat r .eol)) h = true ↔ Rx.Matches r h true true) :=
  ⟨Rx.search_bol_iff r h, Rx.search_eol_iff r h, Rx.search_bol_eol_iff r h⟩

/-- **Byte-oriented `.`**: the pattern `.` denotes exactly the one-BYTE words other than
`\n` — so it matches the lone byte `0xff` and never a two-byte UTF-8 character as a unit. -/
theorem dot_is_any_byte_but_newline (w : List UInt8) (s e : Bool) :
    Rx.parse ['.'] = some Rx.dot ∧
    (Rx.Matches Rx.dot w s e ↔ ∃ b : UInt8, w = [b] ∧ b ≠ 10) := by
  refine ⟨by decide, ?_⟩
  simp only [Rx.dot, Rx.matches_set, Rx.setMem_dot]

/-- **Classes are byte sets**: a class denotes one-byte words; the byte lies in one of the
listed ranges iff the class is not negated. Nothing is decoded: `[^a]` contains every byte
≥ 0x80 and `\n`. -/
theorem class_is_byte_set (neg : Bool) (rs : Rx.Ranges) (w : List UInt8) (s e : Bool) :
    Rx.Matches (.set neg rs) w s e ↔
      ∃ b : UInt8, w = [b] ∧ ((∃ r ∈ rs, r.1 ≤ b ∧ b ≤ r.2) ↔ neg = false) := by
  simp only [Rx.matches_set, Rx.setMem_iff]

/-- `\xHH` is the single byte `HH` for every `HH` (0x80–0xff too: not the code point U+00HH
in UTF-8). -/
theorem hex_escape_is_byte (h1 h2 : Char) (x y : Nat) (hx : Rx.hexVal h1 = some x)
    (hy : Rx.hexVal h2 = some y) (w : List UInt8) (s e : Bool) :
    Rx.parse ['\\', 'x', h1, h2] = some (Rx.lit (UInt8.ofNat (x * 16 + y))) ∧
    (Rx.Matches (Rx.lit (UInt8.ofNat (x * 16 + y))) w s e ↔ w = [UInt8.ofNat (x * 16 + y)]) :=
  ⟨Rx.parse_hex_escape h1 h2 x y hx hy, Rx.matches_lit⟩

/-- A literal character of the pattern (ASCII or not) denotes exactly its UTF-8 bytes. -/
theorem literal_char_utf8 (c : Char) (hc : Rx.isMeta c = false) (w : List UInt8) (s e : Bool) :
    Rx.parse [c] = some (Rx.litChar c) ∧
    (Rx.Matches (Rx.litChar c) w s e ↔ w = String.utf8EncodeChar c) := by
  refine ⟨?_, Rx.matches_litChar c w s e⟩
  have := Rx.parse_plain [c] (by simpa using hc)
  simpa [Rx.catList] using this

/-- `\d \w \s` are the ASCII classes (no byte ≥ 0x80 is a word character, digit or space),
`\D \W \S` their complements within the 256 bytes. -/
theorem perl_classes_ascii (b : UInt8) :
    Rx.perl 'd' = some [(48, 57)] ∧
    Rx.perl 'w' = some [(48, 57), (65, 90), (95, 95), (97, 122)] ∧
    Rx.perl 's' = some [(9, 13), (32, 32)] ∧
    (Rx.inRanges [(48, 57)] b = true ↔ 48 ≤ b.toNat ∧ b.toNat ≤ 57) ∧
    (Rx.inRanges [(48, 57), (65, 90), (95, 95), (97, 122)] b = true ↔
      (48 ≤ b.toNat ∧ b.toNat ≤ 57) ∨ (65 ≤ b.toNat ∧ b.toNat ≤ 90) ∨ b.toNat = 95 ∨
        (97 ≤ b.toNat ∧ b.toNat ≤ 122)) ∧
    (Rx.inRanges [(9, 13), (32, 32)] b = true ↔ (9 ≤ b.toNat ∧ b.toNat ≤ 13) ∨ b.toNat = 32) ∧
    (∀ rs, Rx.perl 'D' = some rs → Rx.inRanges rs b = !Rx.inRanges [(48, 57)] b) ∧
    (∀ rs, Rx.perl 'W' = some rs →
      Rx.inRanges rs b = !Rx.inRanges [(48, 57), (65, 90), (95, 95), (97, 122)] b) ∧
    (∀ rs, Rx.perl 'S' = some rs → Rx.inRanges rs b = !Rx.inRanges [(9, 13), (32, 32)] b) := by
  refine ⟨by decide, by decide, by decide, Rx.perl_d b, Rx.perl_w b, Rx.perl_s b, ?_, ?_, ?_⟩
  · intro rs h
    have : rs = [(0, 47), (58, 255)] := by
      have h' : Rx.perl 'D' = some [(0, 47), (58, 255)] := by decide
      rw [h'] at h; exact (Option.some.inj h).symm
    subst this; exact Rx.perl_D b
  · intro rs h
    have : rs = [(0, 47), (58, 64), (91, 94), (96, 96), (123, 255)] := by
      have h' : Rx.perl 'W' = some [(0, 47), (58, 64), (91, 94), (96, 96), (123, 255)] := by decide
      rw [h'] at h; exact (Option.some.inj h).symm
    subst this; exact Rx.perl_W b
  · intro rs h
    have : rs = [(0, 8), (14, 31), (33, 255)] := by
      have h' : Rx.perl 'S' = some [(0, 8), (14, 31), (33, 255)] := by decide
      rw [h'] at h; exact (Option.some.inj h).symm
    subst this; exact Rx.perl_S b

/-- **Plain literal patterns are substring search.** A pattern without metacharacters
(`\ . ^ $ ( ) | * + ? { [`) is accepted, and `matches` then is exactly the reference
substring search of C10 (`Search.naive`) for the pattern's UTF-8 bytes — over the raw bytes
of the value, valid UTF-8 or not. -/
theorem parse_literal (p : List Char) (hp : ∀ c ∈ p, Rx.isMeta c = false) (h : List UInt8) :
    Rx.matchesOp p h = some (Search.naive h (p.flatMap String.utf8EncodeChar)) := by
  simp only [Rx.matchesOp, Rx.parse_plain p hp, Option.map_some, Option.some.injEq]
  rw [Bool.eq_iff_iff, Rx.search_iff, Rx.naive_iff]
  simp only [Rx.matches_catList_litChars]
  constructor
  · rintro ⟨pre, mid, post, rfl, rfl⟩; exact ⟨pre, post, rfl⟩
  · rintro ⟨pre, post, rfl⟩; exact ⟨pre, _, post, rfl, rfl⟩

/-- Translator tie for the search call: `Regex::is_match` forwards to
`regex_automata::meta::Regex::is_match` (an unanchored search) on the raw input bytes. -/
theorem regex_source_shape :
    Generated.regexSearchCall = "self.regex.is_match(input)" := by decide

/-! Non-vacuity / the documented corner cases, through parser and matcher. -/
-- `.` matches the lone byte 0xff but not a newline
example : Rx.matchesOp ['.'] [0xff] = some true := by decide
example : Rx.matchesOp ['.'] [10] = some false := by decide
-- `^.$` does not match `é` (two bytes), `^..$` does
example : Rx.matchesOp ['^', '.', '$'] [0xc3, 0xa9] = some false := by decide
example : Rx.matchesOp ['^', '.', '.', '$'] [0xc3, 0xa9] = some true := by decide
-- the literal `é` is its two UTF-8 bytes; `\xe9` is the single byte 0xe9
example : String.utf8EncodeChar 'é' = [0xc3, 0xa9] := by decide
example : Rx.matchesOp ['é'] [0x78, 0xc3, 0xa9, 0x79] = some true := by decide
example : Rx.matchesOp ['\\', 'x', 'e', '9'] [0xc3, 0xa9] = some false := by decide
example : Rx.matchesOp ['\\', 'x', 'e', '9'] [0xe9] = some true := by decide
-- `\w` is ASCII: no byte of `é` is a word byte
example : Rx.matchesOp ['\\', 'w'] [0xc3, 0xa9] = some false := by decide
example : Rx.matchesOp ['\\', 'W'] [0xc3, 0xa9] = some true := by decide
-- unanchored; anchors; no multi-line
example : Rx.matchesOp ['b'] [0x61, 0x62, 0x63] = some true := by decide
example : Rx.matchesOp ['^', 'b'] [0x61, 0x62, 0x63] = some false := by decide
example : Rx.matchesOp ['^', 'a', 'b', 'c', '$'] [0x61, 0x62, 0x63, 10] = some false := by decide
example : Rx.matchesOp ['(', '^', 'a', '|', 'b', ')', '*', 'c', '$'] [0x61, 0x62, 0x63] = some true := by decide
example : Rx.matchesOp ['(', '^', 'a', '|', 'b', ')', '+', 'c', '$'] [0x62, 0x61, 0x63] = some false := by decide
-- a class with a quote, a range over high bytes and a negation
example : Rx.matchesOp ['[', 'a', '"', ']', '+', '$'] [0x22, 0x61, 0x22] = some true := by decide
example : Rx.matchesOp ['[', '^', '\\', 'x', '8', '0', '-', '\\', 'x', 'f', 'f', ']'] [0x80, 0xfe] = some false := by decide
-- outside the subset
example : Rx.parse ['a', '{', '2', '}'] = none := by decide
example : Rx.parse ['(', '?', 'i', ')', 'a'] = none := by decide
example : Rx.parse ['a', '*', '?'] = none := by decide
example : Rx.parse ['\\', 'b'] = none := by decide
example : Rx.parse ['\\', 'p', 'L'] = none := by decide
example : Rx.parse ['(', 'a'] = none := by decide
example : Rx.parse ['[', 'é', ']'] = none := by decide

end WfModel.C11
