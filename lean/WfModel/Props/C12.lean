import WfModel.Lemmas.C12

/-!
# C12 — `uses()` and `uses_list()` report field usage exactly

Property theorems only. Model: `WfModel/Model/Visitor.lean` (`engine/src/ast/visitor.rs`
`UsesVisitor` / `UsesListVisitor` with their early-exit flag, walking the AST as the `walk`
implementations of `logical_expr.rs`, `field_expr.rs`, `index_expr.rs`, `function_expr.rs`
forward; `FilterAst::uses` / `uses_list` of `ast/mod.rs`).  Specification:
`Spec.fieldsL/I/A/Q` (plain recursive collection over *all* children), `Spec.comparisonsL`
(all comparison nodes at any depth), in `WfModel/Lemmas/C12.lean`.
-/
namespace WfModel.C12
open WfModel WfModel.Spec

/-- **Early exit loses nothing, no child is skipped**, for every incoming value of the
visitor's flag: the walk answers `flag ∨ (f occurs somewhere in e)`. -/
theorem uses_flag (f : Nat) (u : Bool) (e : LExpr) :
    usesL f u e = (u || decide (f ∈ fieldsL e)) :=
  usesL_eq f u e

/-- `uses(field)` is true exactly when the field occurs as an identifier anywhere in the
expression: left-hand sides, bases of index expressions, every function argument at any
depth, quantifier arguments. -/
theorem uses_iff_mem (f : Nat) (e : LExpr) :
    usesL f false e = true ↔ f ∈ fieldsL e := by
  rw [usesL_eq]; simp

/-- the same for a value expression (`FilterValueAst::uses` walks an `IndexExpr`) -/
theorem uses_value_iff_mem (f : Nat) (e : IExpr) :
    usesI f false e = true ↔ f ∈ fieldsI e := by
  rw [usesI_eq]; simp

/-- `uses_list(field)` for every incoming flag. -/
theorem usesList_flag (f : Nat) (u : Bool) (e : LExpr) :
    usesListL f u e = (u || decide (f ∈ inListLhsFields e)) :=
  usesListL_eq f u e

/-- `uses_list(field)` is true exactly when the field occurs in the left-hand side
(including nested call arguments of that left-hand side) of some `in $list` comparison at
any depth. -/
theorem usesList_iff (f : Nat) (e : LExpr) :
    usesListL f false e = true ↔ f ∈ inListLhsFields e := by
  rw [usesListL_eq]; simp

/-- … spelled out over the comparison nodes of the tree: there is a comparison node
(anywhere: under logical operators, `not`, parentheses, quantifiers, inside function
arguments) whose operator is `in $list` and whose left-hand side mentions the field. -/
theorem usesList_iff_exists (f : Nat) (e : LExpr) :
    usesListL f false e = true ↔
      ∃ c ∈ comparisonsL e, isInList c.2 = true ∧ f ∈ fieldsI c.1 := by
  rw [usesList_iff, mem_inListL]; rfl

theorem usesList_value_iff (f : Nat) (e : IExpr) :
    usesListI f false e = true ↔
      ∃ c ∈ comparisonsI e, isInList c.2 = true ∧ f ∈ fieldsI c.1 := by
  rw [usesListI_eq, Bool.false_or, decide_eq_true_iff, mem_inListI]; rfl

/-- a field used by a list comparison is used -/
theorem usesList_imp_uses (f : Nat) (e : LExpr) (h : usesListL f false e = true) :
    usesL f false e = true := by
  rw [uses_iff_mem]
  rw [usesList_iff] at h
  exact inList_subset_fields f e h

/-- A name that is not a field of the scheme gives an error, for both queries. -/
theorem unknown_name_error (s : Scheme) (e : LExpr) (name : List Char)
    (h : s.getField name = none) :
    astUses s e name = none ∧ astUsesList s e name = none := by
  simp [astUses, astUsesList, h]

/-- … and only then: a field name always gets an answer, the exact one. -/
theorem known_name_answer (s : Scheme) (e : LExpr) (name : List Char) (i : Nat)
    (h : s.get name = some (.field i)) :
    astUses s e name = some (decide (i ∈ fieldsL e)) ∧
      astUsesList s e name = some (decide (i ∈ inListLhsFields e)) := by
  have hf : s.getField name = some i := (getField_some_iff s name i).mpr h
  simp [astUses, astUsesList, hf, usesL_eq, usesListL_eq]

/-- Functions are not fields: the name of a registered function is an error. -/
theorem function_name_error (s : Scheme) (e : LExpr) (name : List Char) (i : Nat)
    (h : s.get name = some (.func i)) :
    astUses s e name = none ∧ astUsesList s e name = none :=
  unknown_name_error s e name (getField_none_of_func s name i h)

/-! ### Structural laws (every tree): the answer is the disjunction over children, and
parentheses / `not` are transparent. -/

theorem mem_fieldsLs (f : Nat) (es : List LExpr) :
    f ∈ fieldsLs es ↔ ∃ e ∈ es, f ∈ fieldsL e := by
  induction es with
  | nil => simp [fieldsLs]
  | cons a as ih => simp [fieldsLs, ih]

/-- a chain `a op b op …` uses a field exactly when one of its operands does (in any
position, not only the first) -/
theorem uses_combining (f : Nat) (op : LogicalOp) (es : List LExpr) :
    usesL f false (.combining op es) = true ↔ ∃ e ∈ es, usesL f false e = true := by
  rw [uses_iff_mem]
  simp only [uses_iff_mem, fieldsL]
  exact mem_fieldsLs f es

theorem uses_paren (f : Nat) (e : LExpr) : usesL f false (.paren e) = usesL f false e := by
  apply Bool.eq_iff_iff.mpr
  rw [uses_iff_mem, uses_iff_mem]; simp [fieldsL]

theorem uses_not (f : Nat) (e : LExpr) : usesL f false (.unaryNot e) = usesL f false e := by
  apply Bool.eq_iff_iff.mpr
  rw [uses_iff_mem, uses_iff_mem]; simp [fieldsL]

/-- a plain field on the left-hand side is used by its comparison, whatever the operator
and whatever the index path -/
theorem uses_field_lhs (f : Nat) (ix : List FieldIndex) (op : CmpOp) :
    usesL f false (.comparison (.field f ix) op) = true := by
  rw [uses_iff_mem]; simp [fieldsL, fieldsI]

/-- … and no other field is -/
theorem uses_field_lhs_only (f g : Nat) (ix : List FieldIndex) (op : CmpOp)
    (h : usesL g false (.comparison (.field f ix) op) = true) : g = f := by
  rw [uses_iff_mem] at h; simpa [fieldsL, fieldsI] using h

/-! Non-vacuity: a field used only deep inside a nested call inside a quantifier; a field
used only outside list comparisons; early exit with the flag already set. -/
example : usesL 7 false
    (.quantifier .any (.logical (.comparison
      (.call 0 [.literal (.int 1), .index (.call 1 [.index (.field 7 [.each])] none [])] none [])
      (.inList 0 ['a'])))) = true := by decide
example : usesListL 7 false
    (.combining .and [.comparison (.field 7 []) (.ordering .eq (.int 1)),
      .comparison (.field 3 []) (.inList 0 ['a'])]) = false := by decide
example : usesListL 3 false
    (.combining .and [.comparison (.field 7 []) (.ordering .eq (.int 1)),
      .comparison (.field 3 []) (.inList 0 ['a'])]) = true := by decide

end WfModel.C12
