import WfModel.Lemmas.TyEnc
import WfModel.Generated

/-!
# C15 — type and scheme encodings round-trip; over-deep or duplicate input is refused

Property theorems only.  Model: `WfModel/Model/TyEnc.lean`
(`engine/src/types.rs:901-1038`, `ffi/src/lib.rs:38-131,248-265`, `engine/src/scheme.rs:787-851`).

Every statement quantifies over *all* types / packed values / JSON trees / field lists;
nothing here is a `decide` over samples (the only `decide`s are `source_constants`, which is
a comparison of finite tables, and the non-vacuity `example`s).

`Ty` is the fully recursive form.  A Rust `Type` is `prim | Array(CompoundType) |
Map(CompoundType)`, so the Rust values of type `Type` are exactly the `t : Ty` with
`t.layers ≤ 33`; those that all three encodings can represent are the `t` with
`t.layers ≤ 32 = maxLayers`.
-/
namespace WfModel.C15
open WfModel WfModel.TyEnc

/-! ## The packed form -/

/-- Bit level: `(layers << 1) | bit` on `u32` is `layers * 2 + bit` modulo `2^32` … -/
theorem push_bits_arith (layers bit : Nat) (h : bit < 2) :
    ((layers <<< 1) % 4294967296) ||| bit = (layers * 2 + bit) % 4294967296 :=
  pushBits_arith layers bit h

/-- … and `layers & 1`, `layers >> 1` undo it. -/
theorem pop_bits_arith (layers bit : Nat) (h : bit < 2) :
    (layers * 2 + bit) &&& 1 = bit ∧ (layers * 2 + bit) >>> 1 = layers :=
  ⟨and_one_push layers bit h, shr_one_push layers bit h⟩

/-- `push` refuses exactly at the limit. -/
theorem push_refuses_iff (p : Packed) (l : Layer) : push p l = none ↔ p.len ≥ 32 :=
  push_none_iff p l

/-- The representation invariant is preserved by `push`. -/
theorem push_preserves_valid (p q : Packed) (l : Layer) (hv : Valid p) (h : push p l = some q) :
    Valid q :=
  push_valid p q l hv h

/-- **`pop (push p l) = (p, l)`** for every valid `p` below the limit and either layer. -/
theorem pop_push (p : Packed) (l : Layer) (hv : Valid p) (hl : p.len < 32) :
    (push p l).map pop = some (p, some l) := by
  rw [push_eq p l hv hl, Option.map_some, pop_pushed]

/-- `push` undoes `pop`. -/
theorem push_pop (p q : Packed) (l : Layer) (hv : Valid p) (h : pop p = (q, some l)) :
    push q l = some p := by
  obtain ⟨b, n, pr⟩ := p
  cases n with
  | zero => simp [pop] at h
  | succ n =>
    rw [pop_succ] at h
    simp only [Prod.mk.injEq, Option.some.injEq] at h
    obtain ⟨rfl, rfl⟩ := h
    have hb : b < 2 ^ (n + 1) := hv.2
    have hn : n + 1 ≤ 32 := hv.1
    have hb2 : b / 2 < 2 ^ n := by rw [Nat.pow_succ] at hb; omega
    rw [push_eq _ _ ⟨by show n ≤ 32; omega, hb2⟩ (by show n < 32; omega)]
    by_cases h0 : b % 2 = 0
    · simp only [h0, ↓reduceIte, Layer.bit, Option.some.injEq, Packed.mk.injEq, and_true]; omega
    · simp only [h0, ↓reduceIte, Layer.bit, Option.some.injEq, Packed.mk.injEq, and_true]; omega

/-- Packing succeeds exactly up to 32 layers and yields a valid value whose `len` is the
number of layers. -/
theorem packed_valid (t : Ty) (p : Packed) (h : fromType t = some p) :
    Valid p ∧ p.len = t.layers ∧ p.prim = primOf t := by
  have hl := (fromType_len t p h).2
  rw [fromType_spec t hl] at h
  cases h
  exact ⟨⟨hl, by simpa [layerString_length] using bitsOf_lt (layerString t)⟩, rfl, rfl⟩

/-- The packed `layers` word is the binary numeral of the layer string, outermost layer in
the lowest bit, Array = 0, Map = 1. -/
theorem packed_is_layer_string (t : Ty) (h : t.layers ≤ 32) :
    fromType t = some ⟨bitsOf (layerString t), t.layers, primOf t⟩ :=
  fromType_spec t h

/-- **Recursive → packed → recursive is the identity** for every type with ≤ 32 layers. -/
theorem packed_roundtrip (t : Ty) (h : t.layers ≤ 32) : (fromType t).map intoType = some t :=
  intoType_fromType t h

/-- **Packed → recursive → packed is the identity** for every valid packed value. -/
theorem packed_roundtrip' (p : Packed) (h : Valid p) : fromType (intoType p) = some p :=
  fromType_intoType p h

/-- **More than 32 layers cannot be packed** (`none` is the `panic!` site of `from_type`). -/
theorem too_deep (t : Ty) (h : t.layers > 32) : fromType t = none :=
  fromType_none t h

/-- Packing is injective: the derived `Eq`/`Hash`/`Ord` on the packed form identify no two
distinct types. -/
theorem packed_injective (t u : Ty) (p : Packed) (ht : fromType t = some p) (hu : fromType u = some p) :
    t = u := by
  have h1 := packed_roundtrip t (fromType_len t p ht).2
  have h2 := packed_roundtrip u (fromType_len u p hu).2
  rw [ht] at h1; rw [hu] at h2
  simp only [Option.map_some, Option.some.injEq] at h1 h2
  rw [← h1, ← h2]

/-! ## The C twin -/

/-- **Engine packing and C packing agree**: same `layers` word, same `len`, primitive
replaced by its `CPrimitiveType` code — for every type with ≤ 32 layers. -/
theorem ctype_agrees (t : Ty) (h : t.layers ≤ 32) : CType.ofType t = (fromType t).map asC :=
  cOfType_eq t h

/-- … and so do the inverses: reading a C struct that mirrors a valid `CompoundType` gives
the type `into_type` gives. -/
theorem ctype_agrees_back (p : Packed) (h : Valid p) : (asC p).toType = some (intoType p) :=
  cToType_asC p h

/-- `Type → CType → Type` is the identity up to 32 layers. -/
theorem ctype_roundtrip (t : Ty) (h : t.layers ≤ 32) : (CType.ofType t).bind CType.toType = some t := by
  rw [ctype_agrees t h, fromType_spec t h, Option.map_some, Option.bind_some]
  have hv : Valid ⟨bitsOf (layerString t), t.layers, primOf t⟩ :=
    ⟨h, by simpa [layerString_length] using bitsOf_lt (layerString t)⟩
  rw [ctype_agrees_back _ hv]
  have := packed_roundtrip t h
  rw [fromType_spec t h] at this
  exact this

/-- `CType → Type → CType` is the identity on (the C mirror of) valid packed values. -/
theorem ctype_roundtrip' (p : Packed) (h : Valid p) :
    ((asC p).toType).bind CType.ofType = some (asC p) := by
  rw [ctype_agrees_back p h, Option.bind_some,
    ctype_agrees _ (by rw [intoType, intoTypeAux_layers]; exact h.1), packed_roundtrip' p h]
  rfl

/-- The primitive codes are a bijection with their decoder (a C struct never names another
primitive than the one packed). -/
theorem cprim_codes (a b : Prim) :
    cPrimOfCode (cPrimCode a) = some a ∧ (cPrimCode a = cPrimCode b → a = b) :=
  ⟨cPrimOfCode_code a, cPrimCode_injective a b⟩

/-! ## The JSON form of a type -/

/-- **`tyOfJ (tyToJ t) = ok t`** for every type all three encodings represent. -/
theorem json_roundtrip (t : Ty) (h : t.layers ≤ 32) : tyOfJ (tyToJ t) = .ok t :=
  tyOfJ_tyToJ t (by unfold maxLayers; omega)

/-- The boundary: a descriptor with exactly 33 layers reads as *that* 33-layer type (a Rust
`Type::Array(CompoundType)` holding a full 32-layer inner type) — accepted, never a different
type — and the result is refused by packing, so it cannot reach the packed or C form. -/
theorem json_boundary_33 (t : Ty) (h : t.layers = 33) :
    tyOfJ (tyToJ t) = .ok t ∧ fromType t = none ∧ compoundOfJ (tyToJ t) = .error := by
  have h1 : tyOfJ (tyToJ t) = .ok t := tyOfJ_tyToJ t (by unfold maxLayers; omega)
  have h2 : fromType t = none := fromType_none t (by unfold maxLayers; omega)
  exact ⟨h1, h2, by simp [compoundOfJ, h1, h2]⟩

/-- **Exact characterisation**: the deserializer accepts precisely the descriptors
(`"Int"`, `{"Int":null}`, `{"Array":d}`, `{"Map":d}`) of types with at most 33 layers, and
returns the described type — never another one. -/
theorem json_exact (j : J) (t : Ty) : tyOfJ j = .ok t ↔ Describes j t ∧ t.layers ≤ 33 := by
  constructor
  · intro h; exact describes_of_tyOfJWith _ j t h (by intro u; simp)
  · rintro ⟨hd, hl⟩; exact tyOfJWith_of_describes _ hd hl

/-- The deserializer has no panic outcome, whatever the JSON. -/
theorem json_never_panics (j : J) : tyOfJ j ≠ .stuck ∧ compoundOfJ j ≠ .stuck := by
  refine ⟨tyOfJ_not_stuck j, ?_⟩
  unfold compoundOfJ
  split
  · split <;> simp
  · simp
  · rename_i h; exact absurd h (tyOfJ_not_stuck j)

/-- **Too deep is an error**: any JSON with more than 33 container wrappers — whatever is
at its core — is rejected with an error by `Type`'s deserializer, and with more than 32 by
`CompoundType`'s (the form stored in `Type::Array/Map`, in `$lists`, in the C API). -/
theorem json_too_deep_is_error (j : J) :
    (jLayers j > 33 → tyOfJ j = .error) ∧ (jLayers j > 32 → ∀ p, compoundOfJ j ≠ .ok p) := by
  constructor
  · intro h
    cases hj : tyOfJ j with
    | error => rfl
    | stuck => exact absurd hj (tyOfJ_not_stuck j)
    | ok t =>
      have ⟨hd, hl⟩ := (json_exact j t).mp hj
      have := describes_layers hd
      omega
  · intro h p hp
    unfold compoundOfJ at hp
    cases hj : tyOfJ j with
    | error => simp [hj] at hp
    | stuck => simp [hj] at hp
    | ok t =>
      have ⟨hd, _⟩ := (json_exact j t).mp hj
      have hl := describes_layers hd
      rw [hj] at hp
      simp only [fromType_none t (by unfold maxLayers; omega)] at hp
      cases hp

/-- What the unchanged source does instead (finding F3): with `.map(Self::from)` in
`Deserialize for CompoundType`, the canonical descriptor of every type with ≥ 34 layers
drives the deserializer into the `panic!` of `from_type`. -/
theorem unchanged_source_panics (t : Ty) (h : t.layers ≥ 34) : tyOfJPanicking (tyToJ t) = .stuck :=
  tyOfJPanicking_deep t (by unfold maxLayers; omega)

/-! ## Schemes -/

/-- `add_field_full`: an occupied name is refused and nothing changes; a fresh name is
appended at the end. -/
theorem builder_add (s : List Field) (f : Field) :
    (f.name ∈ s.map Field.name → addField s f = none) ∧
    (f.name ∉ s.map Field.name → addField s f = some (s ++ [f])) := by
  constructor
  · intro h
    cases ha : addField s f with
    | none => rfl
    | some s' => exact absurd h ((addField_some s f s').mp ha).1
  · intro h; exact (addField_some s f _).mpr ⟨h, rfl⟩

/-- **Scheme JSON round trip**: names, order, types and optionality all survive, for every
field list with distinct names (any strings) and every Rust-representable field type. -/
theorem scheme_json_roundtrip (s : List Field) (hn : (s.map Field.name).Nodup)
    (ht : ∀ f ∈ s, f.ty.layers ≤ 33) : schemeOfJ (schemeToJ s) = .ok s := by
  unfold schemeOfJ schemeToJ
  rw [schemeLoop_ok]
  refine ⟨s, by simp, forall₂_entries s ht, by simp, ?_⟩
  simpa [List.map_map, Function.comp_def] using hn

/-- **Exact characterisation of `Deserialize for Scheme`**: a document is accepted iff its
keys are pairwise distinct and every entry is a well-formed field; the result lists the
fields in document order with exactly the entry's name, type and optionality. -/
theorem scheme_exact (kvs : List (String × J)) (s : List Field) :
    schemeOfJ (.obj kvs) = .ok s ↔ EntriesGive kvs s ∧ (kvs.map Prod.fst).Nodup := by
  unfold schemeOfJ
  rw [schemeLoop_ok]
  constructor
  · rintro ⟨fs, rfl, hf, _, hnd⟩; exact ⟨by simpa using hf, hnd⟩
  · rintro ⟨hf, hnd⟩; exact ⟨s, by simp, hf, by simp, hnd⟩

/-- **Duplicates are rejected**: an accepted scheme has pairwise distinct field names … -/
theorem dup_rejected (j : J) (s : List Field) (h : schemeOfJ j = .ok s) :
    (s.map Field.name).Nodup := by
  cases j with
  | obj kvs =>
    have ⟨hf, hnd⟩ := (scheme_exact kvs s).mp h
    rw [forall₂_names hf]; exact hnd
  | _ => simp [schemeOfJ] at h

/-- … and a document that repeats a key is an error (not "last wins", not "first wins"). -/
theorem dup_is_error (kvs : List (String × J)) (h : ¬ (kvs.map Prod.fst).Nodup) :
    schemeOfJ (.obj kvs) = .error := by
  cases hs : schemeOfJ (.obj kvs) with
  | error => rfl
  | stuck => exact absurd hs (schemeLoop_not_stuck [] kvs)
  | ok s => exact absurd ((scheme_exact kvs s).mp hs).2 h

/-- Field order is document order. -/
theorem scheme_order_preserved (kvs : List (String × J)) (s : List Field)
    (h : schemeOfJ (.obj kvs) = .ok s) : s.map Field.name = kvs.map Prod.fst :=
  forall₂_names ((scheme_exact kvs s).mp h).1

/-- **The value-tree route** (`serde_json::Value`, whose objects are key-sorted maps): names,
types and optionality of every field survive `to_value` → `from_value`; the order is the
tree's own (sorted) order, hence a permutation of the original field list. -/
theorem scheme_value_roundtrip (s : List Field) (hn : (s.map Field.name).Nodup)
    (ht : ∀ f ∈ s, f.ty.layers ≤ 33) :
    ∃ s', schemeOfJ (valueNorm (schemeToJ s)) = .ok s' ∧ s'.Perm s := by
  have hp : (s.foldl (fun a f => insertField f a) []).Perm s := by
    simpa using foldl_insertField_perm s [] (by simpa using hn)
  refine ⟨_, ?_, hp⟩
  have hm := valueNormEntries_map s []
  rw [List.map_nil] at hm
  simp only [schemeToJ, valueNorm]
  rw [hm, scheme_exact]
  refine ⟨entriesGive_valueEntries _ (fun f hf => ht f (hp.mem_iff.mp hf)), ?_⟩
  have : (List.map Field.valueEntry (s.foldl (fun a f => insertField f a) [])).map Prod.fst =
      (s.foldl (fun a f => insertField f a) []).map Field.name := by
    simp [List.map_map, Function.comp_def, Field.valueEntry]
  rw [this]
  exact (hp.map Field.name).nodup_iff.mpr hn

/-- Scheme deserialization has no panic outcome (over-deep field types are errors). -/
theorem scheme_never_panics (j : J) : schemeOfJ j ≠ .stuck := by
  cases j with
  | obj kvs => exact schemeLoop_not_stuck [] kvs
  | _ => simp [schemeOfJ]

/-! ## Translator tie -/

/-- The constants `bin/extract_c15.py` reads out of `types.rs`, `ffi/src/lib.rs` and
`scheme.rs` are the ones the model is written with: the refusal test `len >= 32`, Array = 0 /
Map = 1 in both `push`es, shift by one, `(layers & 1) == 0 ⇒ Array` in both `pop`s, the
`u32`/`u8` field widths, the `PrimitiveType` names, the `CPrimitiveType` codes, the JSON keys
of a scheme field. -/
theorem source_constants :
    Generated.compoundPushLimit = (">=", maxLayers) ∧
    Generated.compoundLayerBits = [Layer.array, Layer.map].map (fun l => (l.name, l.bit)) ∧
    Generated.cLayerBits = [Layer.array, Layer.map].map (fun l => (l.name, l.bit)) ∧
    Generated.compoundPushShift = (1, 1) ∧ Generated.cPushShift = (1, 1) ∧
    Generated.compoundPop = ([1, 0, 1, 1], Layer.array.name, Layer.map.name) ∧
    Generated.cPop = ([1, 0, 1, 1], Layer.array.name, Layer.map.name) ∧
    Generated.compoundStruct = ["u32", "u8", "PrimitiveType"] ∧
    Generated.cTypeStruct = ["u32", "u8", "u8"] ∧
    Generated.primitiveTypeVariants = [Prim.bool, .bytes, .int, .ip].map Prim.name ∧
    Generated.cPrimCodes = [Prim.ip, .bytes, .int, .bool].map (fun p => (p.name, cPrimCode p)) ∧
    Generated.serdeFieldKeys = ["type", "optional"] := by
  decide

/-! ## Non-vacuity: concrete, non-trivial instances of the hypotheses -/

example : deep32.layers = 32 := by decide
example : fromType deep32 = some ⟨2863311530, 32, .ip⟩ := by decide
example : Valid ⟨2863311530, 32, .ip⟩ := by decide
example : (Ty.array deep32).layers > 32 := by decide
example : fromType (.array (.map .int)) = some ⟨2, 2, .int⟩ := by decide
example : CType.ofType (.array (.map .int)) = some ⟨2, 2, 3⟩ := by decide
example : Valid ⟨5, 3, .bytes⟩ ∧ (⟨5, 3, .bytes⟩ : Packed).len < 32 := by decide
example : pop ⟨5, 3, .bytes⟩ = (⟨2, 2, .bytes⟩, some .map) := by decide
example : jLayers (tyToJ (.array (.array deep32))) > 33 := by decide
example : Describes (.obj [("Array", .obj [("Int", .null)])]) (.array .int) :=
  .layer .array _ _ (.unitObj .int)
example : (([⟨"a.b", .array .int, true⟩, ⟨"é\"\n", deep32, false⟩] : List Field).map Field.name).Nodup := by
  decide
example : ¬ ([("a", J.null), ("b", J.null), ("a", J.null)].map Prod.fst).Nodup := by decide

end WfModel.C15
