import WfModel.Lemmas.Render.Example
import WfModel.Lemmas.Render.Std
import WfModel.Model.Json

/-!
# C07-S / C01-S — `parse_render_logical`: alias, layout and precedence at CHARACTER level,
for whole filters

Property theorems only. Definitions used in the statements are in `Lemmas/Render/Defs.lean`:

* `Sk α` — the logical *skeleton* of a filter over abstract atoms: `atom a`, `not s`, `paren s`,
  `chain first [(o₁,e₁),…,(oₙ,eₙ)]`;
* `Renders env A tight sk s` — `s` is ONE OF THE SPELLINGS of `sk`: at every operator occurrence any
  alias of the model's `lex_enum!` tables (`logicalOps`: `or`/`||`, `xor`/`^^`, `and`/`&&`;
  `unaryOps`: `not`/`!`), and any amount (also none) of layout (`SPACE_CHARS`) after every
  operator, after `(`, before `)` and before every combining operator. The single place where a
  space is mandatory (`sepOk`): between an operand that ends with an atom and the next combining
  operator — unless `tight = true` (atoms are assumed to stop before `&`, `|`, `^`) and the
  operator is spelled symbolically. No space is needed after `not`/`and`/`or`/`xor` even before
  a letter: like the Rust `lex_enum!` lexers the model does not look for a word boundary after an
  operator (`a andb` is `a and b`; `nota` is `not a`). One exception, from
  `LogicalExpr::lex_unary_op`: the word `not` glued to name characters is NOT the operator when
  the maximal dotted name starting at the `n` is registered (`notes` is the field `notes`). So
  a rendering may omit the layout after the word `not` only where `glueOk env al ws t` holds
  (decidable: layout follows, or the operand starts with no name character, or that maximal
  name-character run is not a name of the scheme) — this is the only place where `Renders`
  depends on `env`; for a scheme without names beginning with `not` the condition is vacuous
  and `Renders` is what it was before that fix.
* `GoodAtom env A tight a` — the hypothesis on atoms: before every continuation the atom *stops*
  at (`Stop tight`: end of input, a space, `)`, with `tight` also `&`, `|`, `^`) and at every
  nesting budget, `comparisonL` reads exactly the text `A.txt a`, returns `A.node a : Bool` and
  leaves the continuation; the text is not taken for a unary operator (by `lex_unary_op`, i.e.
  `lexUnary env`: weaker than before — a registered name beginning with `not` qualifies) or a
  quantifier call; the node is not a bare `combining` node.
* `canon A sk` — the declarative meaning: atoms ↦ nodes, `not` ↦ `unaryNot`, `paren` ↦ `paren`,
  chain ↦ `layered` (C01: split at `or`, chunks at `xor`, chunks of those at `and`; flattened).
* `Admissible tight sk rest` — what may follow: no combining operator (`NoOp`), and something an
  atom stops at if the rendering ends with an atom.

Skeletons in which a chain operand or the argument of `not` is itself a bare `chain` have no
rendering (the grammar has none: write `paren`); the theorems quantify over renderings.
-/
namespace WfModel.C07Render

open WfModel WfModel.Render

variable {α : Type}

/-! ## 1. The character-level theorem -/

/-- **parse_render_logical (S).** For atoms satisfying `GoodAtom`, every skeleton `sk`, every
rendering `s` of it (any alias per operator occurrence, any layout), every nesting budget `n`
that covers its parentheses and `not`s, and every admissible continuation `rest`:
`LogicalExpr::lex_with` at budget `n` reads exactly `s`, returns the declarative meaning
`canon sk` with type `Bool`, and leaves `rest`. -/
theorem parse_render_logical (env : PEnv) (A : Atoms α) (tight : Bool)
    (hA : ∀ a, GoodAtom env A tight a) (sk : Sk α) (s : Input) (n : Nat)
    (hr : Renders env A tight sk s) (hn : depth sk ≤ n)
    (rest : Input) (hrest : Admissible tight sk rest) :
    (level env n).logical (s ++ rest) = .ok ({ node := canon A sk, ty := .bool }, rest) := by
  rw [level_logical]
  exact (all_ok hA (s.length + 1)).2 sk s (Nat.lt_succ_self _) hr n hn rest hrest

/-- the same for `lex_simple_expr` (operands: atom, `not …`, `( … )`); whatever follows is left
for the caller — only an atom at the end needs a continuation it stops at -/
theorem parse_render_simple (env : PEnv) (A : Atoms α) (tight : Bool)
    (hA : ∀ a, GoodAtom env A tight a) (sk : Sk α) (s : Input) (n : Nat)
    (hr : RendersSimple env A tight sk s) (hn : depth sk ≤ n)
    (rest : Input) (hrest : endsAtom sk = true → Stop tight rest = true) :
    (level env n).simple (s ++ rest) = .ok ({ node := canon A sk, ty := .bool }, rest) := by
  rw [level_simple]
  exact (all_ok hA (s.length + 1)).1 sk s (Nat.lt_succ_self _) hr n hn rest hrest

/-- **Whole filters**: `FilterParser::parse` on a rendering (without leading/trailing
whitespace: `trim s = s`, decidable on a given string) whose nesting is within
`max_nesting_depth` returns exactly `canon sk`. -/
theorem parse_render_filter (env : PEnv) (A : Atoms α) (tight : Bool)
    (hA : ∀ a, GoodAtom env A tight a) (sk : Sk α) (s : Input)
    (hr : Renders env A tight sk s) (hd : depth sk ≤ env.st.maxDepth) (htrim : trim s = s) :
    parseFilter env s = .ok (canon A sk) := by
  have h := parse_render_logical env A tight hA sk s env.st.maxDepth hr hd []
    ⟨fun _ => rfl, rfl⟩
  rw [List.append_nil] at h
  simp [parseFilter, htrim, h, complete]

/-- the side condition `glueOk` of `Renders` (may the word `not` be glued to its operand?) is
vacuous for a scheme none of whose names begins with `not`: there `Renders` allows every
spelling it allowed before `lex_unary_op` -/
theorem glueOk_vacuous (env : PEnv)
    (h : ∀ name, (env.scheme.get name).isSome = true → "not".toList.isPrefixOf name = false)
    (al : String) (ws t : Input) : glueOk env al ws t = true :=
  glueOk_of_no_not_names env h al ws t

/-- **Every well-formed skeleton has a rendering** (`WF`, decidable: chain operands and `not`
arguments are `atom` / `not` / `paren`): the canonical one, `renderStd` — word aliases, single
spaces. So the theorems above are about all well-formed skeletons, of any size. -/
theorem render_exists (env : PEnv) (A : Atoms α) (tight : Bool) (sk : Sk α) (hwf : WF sk = true) :
    Renders env A tight sk (renderStd A sk) := renders_std env A tight sk hwf

/-- **parse ∘ render = meaning**, in functional form -/
theorem parse_render_std (env : PEnv) (A : Atoms α) (tight : Bool)
    (hA : ∀ a, GoodAtom env A tight a) (sk : Sk α) (hwf : WF sk = true) (n : Nat)
    (hn : depth sk ≤ n) (rest : Input) (hrest : Admissible tight sk rest) :
    (level env n).logical (renderStd A sk ++ rest) =
      .ok ({ node := canon A sk, ty := .bool }, rest) :=
  parse_render_logical env A tight hA sk _ n (renders_std env A tight sk hwf) hn rest hrest

/-- every rendering parses like the canonical one -/
theorem parse_render_eq_std (env : PEnv) (A : Atoms α) (tight : Bool)
    (hA : ∀ a, GoodAtom env A tight a) (sk : Sk α) (hwf : WF sk = true) (s : Input) (n : Nat)
    (hr : Renders env A tight sk s) (hn : depth sk ≤ n)
    (rest : Input) (hrest : Admissible tight sk rest) :
    ∃ e : Typed LExpr, (level env n).logical (s ++ rest) = .ok (e, rest) ∧
      (level env n).logical (renderStd A sk ++ rest) = .ok (e, rest) :=
  ⟨_, parse_render_logical env A tight hA sk s n hr hn rest hrest,
    parse_render_std env A tight hA sk hwf n hn rest hrest⟩

/-! ## 2. Alias / layout invariance of whole filters -/

/-- **alias_layout_invariance** (parser level): two renderings of the SAME skeleton — different
alias at every operator occurrence, different layout everywhere — are read to the SAME typed
AST, each leaving its own continuation. -/
theorem alias_layout_invariance_level (env : PEnv) (A : Atoms α) (tight : Bool)
    (hA : ∀ a, GoodAtom env A tight a) (sk : Sk α) (s₁ s₂ : Input) (n : Nat)
    (h₁ : Renders env A tight sk s₁) (h₂ : Renders env A tight sk s₂) (hn : depth sk ≤ n)
    (rest₁ rest₂ : Input) (hr₁ : Admissible tight sk rest₁) (hr₂ : Admissible tight sk rest₂) :
    ∃ e : Typed LExpr, (level env n).logical (s₁ ++ rest₁) = .ok (e, rest₁) ∧
      (level env n).logical (s₂ ++ rest₂) = .ok (e, rest₂) :=
  ⟨_, parse_render_logical env A tight hA sk s₁ n h₁ hn rest₁ hr₁,
    parse_render_logical env A tight hA sk s₂ n h₂ hn rest₂ hr₂⟩

/-- **alias_layout_invariance** (whole filter): two renderings of the same skeleton parse to the
same AST (namely `canon sk`), hence to the same JSON document, the same JSON text and the same
FNV-1a hash (`wirefilter_get_filter_hash`). -/
theorem alias_layout_invariance (env : PEnv) (A : Atoms α) (tight : Bool)
    (hA : ∀ a, GoodAtom env A tight a) (sk : Sk α) (s₁ s₂ : Input)
    (h₁ : Renders env A tight sk s₁) (h₂ : Renders env A tight sk s₂)
    (hd : depth sk ≤ env.st.maxDepth) (ht₁ : trim s₁ = s₁) (ht₂ : trim s₂ = s₂) :
    ∃ e₁ e₂ : LExpr, parseFilter env s₁ = .ok e₁ ∧ parseFilter env s₂ = .ok e₂ ∧
      e₁ = e₂ ∧ e₁ = canon A sk ∧
      lexprJ env.scheme e₁ = lexprJ env.scheme e₂ ∧
      astJsonText env.scheme e₁ = astJsonText env.scheme e₂ ∧
      fnv1a64 (astJsonText env.scheme e₁).toUTF8.toList =
        fnv1a64 (astJsonText env.scheme e₂).toUTF8.toList :=
  ⟨canon A sk, canon A sk, parse_render_filter env A tight hA sk s₁ h₁ hd ht₁,
    parse_render_filter env A tight hA sk s₂ h₂ hd ht₂, rfl, rfl, rfl, rfl, rfl⟩

/-- the form used on outcomes: whatever the two parses return, it is the same -/
theorem alias_layout_same_outcome (env : PEnv) (A : Atoms α) (tight : Bool)
    (hA : ∀ a, GoodAtom env A tight a) (sk : Sk α) (s₁ s₂ : Input)
    (h₁ : Renders env A tight sk s₁) (h₂ : Renders env A tight sk s₂)
    (hd : depth sk ≤ env.st.maxDepth) (ht₁ : trim s₁ = s₁) (ht₂ : trim s₂ = s₂) :
    parseFilter env s₁ = parseFilter env s₂ := by
  rw [parse_render_filter env A tight hA sk s₁ h₁ hd ht₁,
    parse_render_filter env A tight hA sk s₂ h₂ hd ht₂]

/-! ## 3. Precedence of whole filters -/

/-- **precedence_whole_filter**: the AST read from ANY rendering of the chain
`first o₁ e₁ … oₙ eₙ` is the `layered` tree of the operands' meanings: split at `or`, every chunk
at `xor`, every chunk of that at `and`, same-operator chains flat — binding strength
`not` > `and` > `xor` > `or` at character level (`not` belongs to the operand it precedes:
operands are simple expressions). -/
theorem precedence_whole_filter (env : PEnv) (A : Atoms α) (tight : Bool)
    (hA : ∀ a, GoodAtom env A tight a) (first : Sk α) (ops : List (LogicalOp × Sk α))
    (s : Input) (n : Nat) (hr : Renders env A tight (.chain first ops) s)
    (hn : depth (.chain first ops) ≤ n)
    (rest : Input) (hrest : Admissible tight (.chain first ops) rest) :
    (level env n).logical (s ++ rest) =
      .ok ({ node := layered (canon A first) (canonRest A ops), ty := .bool }, rest) :=
  parse_render_logical env A tight hA (.chain first ops) s n hr hn rest hrest

/-! ## Non-vacuity: a concrete scheme, concrete atoms, concrete renderings -/

section Examples

/-- `GoodAtom` holds for the boolean fields `a`, `b` of a concrete scheme (both settings of
`tight`): `a` followed by end of input, a space, `)`, `&`, `|` or `^` is read as the bare field. -/
example (tight : Bool) : ∀ x : AB, GoodAtom exEnv exAtoms tight x := exAtoms_good tight

/-- its meaning: `xor[ and[ not a, (or[b, a]) ], b ]` -/
example : canon exAtoms exSk =
    .combining .xor
      [.combining .and
        [.unaryNot (.comparison (.field 0 []) .isTrue),
         .paren (.combining .or [.comparison (.field 1 []) .isTrue,
                                 .comparison (.field 0 []) .isTrue])],
       .comparison (.field 1 []) .isTrue] := rfl

/-- three spellings of `exSk` (`Lemmas/Render/Example.lean`): `not a and (b or a) xor b`,
`!a&&(⏎ b||a )^^b` (symbolic aliases, no spaces around them: `tight`), and
`nota  and( b ||a)⏎  xorb` (no space after the word operators, mixed aliases, CR LF) -/
example : Renders exEnv exAtoms true exSk "not a and (b or a) xor b".toList ∧
    Renders exEnv exAtoms true exSk "!a&&(\n b||a )^^b".toList ∧
    Renders exEnv exAtoms true exSk "nota  and( b ||a)\r\n  xorb".toList :=
  ⟨exRenders₁, exRenders₂, exRenders₃⟩

example : WF exSk = true ∧ depth exSk = 1 ∧
    renderStd exAtoms exSk = "not a and (b or a) xor b".toList := ⟨rfl, rfl, rfl⟩

/-- the three texts parse to one AST … -/
example : parseFilter exEnv exText₁ = parseFilter exEnv exText₂ ∧
    parseFilter exEnv exText₂ = parseFilter exEnv exText₃ :=
  ⟨alias_layout_same_outcome exEnv exAtoms true (exAtoms_good true) exSk _ _ exRenders₁ exRenders₂
      (by decide) (by decide) (by decide),
   alias_layout_same_outcome exEnv exAtoms true (exAtoms_good true) exSk _ _ exRenders₂ exRenders₃
      (by decide) (by decide) (by decide)⟩

/-- … namely the layered tree (precedence `not` > `and` > `xor` > `or`; parentheses kept) -/
example : parseFilter exEnv exText₃ = .ok (canon exAtoms exSk) :=
  parse_render_filter exEnv exAtoms true (exAtoms_good true) exSk _ exRenders₃ (by decide) (by decide)

/-- the side condition `sepOk` is sharp: without the space between an atom and a word operator
the text is no filter at all (`aand` is lexed as ONE identifier) … -/
example : (match parseFilter exEnv "aand b".toList with | .ok _ => true | .error _ => false) = false := by
  decide

/-- … whereas no space is needed AFTER a word operator (`lex_enum!` looks for no word boundary) -/
example : (match parseFilter exEnv "a andb".toList with | .ok _ => true | .error _ => false) = true := by
  decide

/-- the side condition `glueOk` is sharp: with a field `nota` registered next to `a`, the text
`nota` is the field `nota` (index 1), not `not a` — `glueOk` fails for gluing `not` to `a`, and
holds again as soon as a space follows (`not a` is `unaryNot a`) -/
example :
    let env : PEnv :=
      { scheme := { fields := [⟨"a".toList, .bool, false⟩, ⟨"nota".toList, .bool, false⟩],
                    funcs := [], lists := [] }, st := {} }
    parseFilter env "nota".toList = .ok (.comparison (.field 1 []) .isTrue) ∧
    glueOk env "not" [] "a".toList = false ∧
    glueOk env "not" [' '] "a".toList = true ∧
    parseFilter env "not a".toList = .ok (.unaryNot (.comparison (.field 0 []) .isTrue)) :=
  ⟨rfl, rfl, rfl, rfl⟩

end Examples

end WfModel.C07Render
