import WfModel.Lemmas.C02Logic

/-!
# C02 — indexing, map-each, boolean-array logic and any/all follow the reference semantics

Property theorems only.  Model: `WfModel/Model/Eval.lean` (`engine/src/ast/index_expr.rs`,
`engine/src/ast/logical_expr.rs`, `engine/src/types.rs` `get_nested`), values
`WfModel/Model/Ty.lean`.  Reference: `C02.pathSpec` (what an index path selects, row-major) and
`C02.PathOk` (the typing the parser's `indexStep` enforces), in `WfModel/Lemmas/C02.lean`.
-/
namespace WfModel.C02

/-! ## 1. `[*]` flattening: the stack machine is the row-major reference -/

/-- **Main theorem.** On a well-formed value and a well-typed, non-empty index path — any
number of `[*]`, at any positions, any depth — draining `MapEachIterator` yields exactly the
values the reference selects, in row-major order (arrays by index, maps by ascending key).
The outcome is never `Stuck` (no `unwrap` on a failed `FieldIndexIterator::new`, no
`unreachable`), and the fuel `mapEachRun` picks is sufficient. -/
theorem mapEach_rowMajor (v : Val) (path : List FieldIndex) (hwf : Val.wf v = true)
    (hp : PathOk v.typeOf path) (hne : path ≠ []) :
    mapEachRun path v = .ok (pathSpec path v) := by
  obtain ⟨ix, r, rfl⟩ := List.exists_cons_of_ne_nil hne
  obtain ⟨t', hstep, _⟩ := pathOk_cons.mp hp
  simp only [mapEachRun, indexIterItems_eq hstep]
  exact run_spec_fuel ix r v hwf hp _ _ (by omega) (by omega)

/-- The fuel is immaterial (the Rust loop has none): every fuel pair of at least
`2 * valNodes v` gives the same, reference, answer.  `mapEachRun` uses
`2 * valNodes v + 2 * path.length + 4`. -/
theorem mapEach_fuel_irrelevant (v : Val) (ix : FieldIndex) (r : List FieldIndex)
    (hwf : Val.wf v = true) (hp : PathOk v.typeOf (ix :: r)) (fuel n : Nat)
    (hf : 2 * valNodes v ≤ fuel) (hn : 2 * valNodes v ≤ n) :
    mapEachCollect (ix :: r) fuel n [stepSpec ix v] [] = .ok (pathSpec (ix :: r) v) :=
  run_spec_fuel ix r v hwf hp fuel n hf hn

/-- A single `next()` from any reachable (well-typed) iterator state `rs` (top of stack
first): it returns `None` exactly when nothing remains, otherwise the first remaining value,
leaving a state whose remaining output is the rest. -/
theorem mapEach_next_step (ixs : List FieldIndex) (f : Nat) (rs : List (List Val))
    (hok : StackOk ixs rs) (hf : stackCost rs < f) :
    (stackOut ixs rs = [] ∧ mapEachNext ixs f rs.reverse = .ok (none, [])) ∨
    (∃ y rs', mapEachNext ixs f rs.reverse = .ok (some y, rs'.reverse) ∧ StackOk ixs rs' ∧
      stackOut ixs rs = y :: stackOut ixs rs' ∧ stackCost rs' < stackCost rs) :=
  next_spec ixs f rs hok hf

/-- Several `[*]` flatten: a path splits anywhere into prefix and suffix, the result being
the suffix's selections concatenated in the order of the prefix's selections. -/
theorem flatten_rowMajor (p q : List FieldIndex) (v : Val) :
    pathSpec (p ++ q) v = (pathSpec p v).flatMap (pathSpec q) :=
  pathSpec_append p q v

/-- Every selected value is well-formed and has the type `IndexExpr::get_type` computes. -/
theorem selected_typed (v : Val) (path : List FieldIndex) (hwf : Val.wf v = true)
    (hp : PathOk v.typeOf path) :
    ∀ x ∈ pathSpec path v, x.typeOf = applyIndexes v.typeOf path ∧ Val.wf x = true :=
  pathSpec_typed hwf hp

/-- `PathOk` is what the parser enforces: the index loop of `IndexExpr::lex_with`, started on
the identifier's type, only ever returns paths that are `PathOk` for it, together with the
type `applyIndexes` computes. -/
theorem parser_paths_ok (f : Nat) (input : Input) (ty : Ty) (ixs : List FieldIndex) (ty' : Ty)
    (rest : Input) (h : lexIndexes f input ty [] = .ok ((ixs, ty'), rest)) :
    PathOk ty ixs ∧ applyIndexes ty ixs = ty' := by
  obtain ⟨suffix, h1, h2, h3⟩ := lexIndexes_pathOk f input ty [] ixs ty' rest h
  simp only [List.nil_append] at h1
  subst h1
  exact ⟨h2, h3⟩

/-! ## 2. plain indexing and the three compile strategies -/

/-- `get_nested` on a `[*]`-free well-typed path: never `Stuck`; returns the single value
the reference selects, or `None` when it selects nothing. -/
theorem getNested_ref (v : Val) (path : List FieldIndex) (hwf : Val.wf v = true)
    (hp : PathOk v.typeOf path) (hm : mapEachCount path = 0) :
    ∃ o : Option Val, getNested v path = .ok o ∧ pathSpec path v = o.toList :=
  getNested_spec hwf hp hm

/-- No `[*]` (`compile_one_with`): compare the selected value, or give the default when there
is none. -/
theorem one_strategy (c : Ctx) (v : Val) (path : List FieldIndex) (d : Bool) (op : CmpOp)
    (hwf : Val.wf v = true) (hp : PathOk v.typeOf path) (hm : mapEachCount path = 0) :
    compareWith c (some v) path d op =
      match pathSpec path v with
      | [] => .ok (.one d)
      | x :: _ => (compareVal c op x).map .one := by
  obtain ⟨o, hg, hs⟩ := getNested_spec hwf hp hm
  rw [compareWith_one_branch c v path d op hm, hg, hs]
  cases o <;> rfl

/-- Exactly one, trailing, `[*]`: the `compile_vec_with` shortcut (pop the `[*]`,
`get_nested`, iterate the container) gives what the general iterator strategy
`compile_iter_with` would give on the same path. -/
theorem vec_eq_iter (c : Ctx) (v : Val) (path : List FieldIndex) (op : CmpOp)
    (hwf : Val.wf v = true) (hp : PathOk v.typeOf path) (h1 : mapEachCount path = 1)
    (hl : path.getLast? = some .each) :
    compareVecDirect c (some v) path op = iterStrategy c v path op := by
  obtain ⟨q, rfl, hq⟩ := trailing_each_split h1 hl
  rw [compareVecDirect_spec c hwf hp hq _ (popTrailingEach_snoc q) op]
  simp only [iterStrategy, mapEach_rowMajor v _ hwf hp (by simp), cmpSpec]

/-- **The strategy choice is unobservable.** For every well-typed path with at least one
`[*]`, whatever branch `compile_with` takes, the result is the comparison mapped over the
reference selection, in order. -/
theorem strategies_agree (c : Ctx) (v : Val) (path : List FieldIndex) (d : Bool) (op : CmpOp)
    (hwf : Val.wf v = true) (hp : PathOk v.typeOf path) (hm : 0 < mapEachCount path) :
    compareWith c (some v) path d op
      = (mapM' (compareVal c op) (pathSpec path v)).map .vec := by
  have hne : path ≠ [] := by rintro rfl; simp [mapEachCount] at hm
  by_cases h : mapEachCount path = 1 ∧ path.getLast? = some .each
  · rw [compareWith_vec_branch c _ path d op h.1 h.2, vec_eq_iter c v path op hwf hp h.1 h.2]
    simp only [iterStrategy, mapEach_rowMajor v path hwf hp hne]
  · rw [compareWith_iter_branch c v path d op (by omega) h]
    simp only [iterStrategy, mapEach_rowMajor v path hwf hp hne]

/-- `IsTrue` on a container of booleans calls `compile_vec_with` directly, with or without a
written trailing `[*]`: both are the comparison over the container's elements. -/
theorem vecDirect_ref (c : Ctx) (v : Val) (q : List FieldIndex) (op : CmpOp)
    (hwf : Val.wf v = true) (hp : PathOk v.typeOf (q ++ [.each])) (hq : mapEachCount q = 0) :
    compareVecDirect c (some v) q op = cmpSpec c v (q ++ [.each]) op ∧
    compareVecDirect c (some v) (q ++ [.each]) op = cmpSpec c v (q ++ [.each]) op :=
  ⟨compareVecDirect_spec c hwf hp hq q (popTrailingEach_noEach hq) op,
   compareVecDirect_spec c hwf hp hq _ (popTrailingEach_snoc q) op⟩

/-- Value expressions (`IndexExpr::compile_with_compiler`), general strategy: the array of the
reference selection; `Array::try_from_iter(..).unwrap()` cannot fail. -/
theorem value_iter_ref (v : Val) (path : List FieldIndex) (hwf : Val.wf v = true)
    (hp : PathOk v.typeOf path) (h0 : mapEachCount path ≠ 0)
    (h : ¬ (mapEachCount path = 1 ∧ path.getLast? = some .each)) :
    indexValue (.ok v) path (applyIndexes v.typeOf path)
      = .ok (.ok (.array (applyIndexes v.typeOf path) (pathSpec path v))) :=
  indexValue_iter v hwf path hp h0 h

/-- Value expressions, trailing-`[*]` strategy: the container itself is handed over (its
elements are the reference selection), or the value is absent when there is no container. -/
theorem value_vec_ref (v : Val) (q : List FieldIndex) (ty : Ty) (hwf : Val.wf v = true)
    (hp : PathOk v.typeOf (q ++ [.each])) (hq : mapEachCount q = 0) :
    (∃ x, indexValue (.ok v) (q ++ [.each]) ty = .ok (.ok x) ∧
        Val.elements x = pathSpec (q ++ [.each]) v ∧ pathSpec q v = [x]) ∨
    (indexValue (.ok v) (q ++ [.each]) ty = .ok (.error (.array ty)) ∧ pathSpec q v = []) :=
  indexValue_vec v hwf q hp hq ty

/-! ## 3. missing things are absent, absent containers are empty -/

/-- out-of-range array index (any rest of path) -/
theorem missing_index (t : Ty) (xs : List Val) (n : Nat) (r : List FieldIndex)
    (h : xs.length ≤ n) : getNested (.array t xs) (.arr n :: r) = .ok none := by
  simp [getNested, Val.get, List.getElem?_eq_none h]

/-- absent map key (any rest of path) -/
theorem missing_key (t : Ty) (kvs : List (Bytes × Val)) (k : List Char) (r : List FieldIndex)
    (h : ∀ kv ∈ kvs, kv.1 ≠ utf8s k) : getNested (.map t kvs) (.key k :: r) = .ok none := by
  simp [getNested, Val.get, mapGet_none_of_absent h]

/-- a miss anywhere along the path makes the whole access absent; a hit continues from the
value reached -/
theorem missing_propagates (v : Val) (p r : List FieldIndex) :
    (getNested v p = .ok none → getNested v (p ++ r) = .ok none) ∧
    (∀ x, getNested v p = .ok (some x) → getNested v (p ++ r) = getNested x r) :=
  ⟨getNested_append_none r, fun _ => getNested_append_some r⟩

/-- absent field / function result: the default without `[*]`, the empty array with `[*]`
(no hypotheses at all) -/
theorem missing_base (c : Ctx) (path : List FieldIndex) (d : Bool) (op : CmpOp) :
    compareWith c none path d op
      = if mapEachCount path = 0 then .ok (.one d) else .ok (.vec []) := by
  unfold compareWith
  by_cases h0 : mapEachCount path = 0
  · simp [h0]
  · by_cases h1 : (mapEachCount path = 1 && path.getLast? = some FieldIndex.each) = true
    · simp only [h0, if_false, h1, if_true]
    · simp only [h0, if_false, h1]; rfl

/-- without `[*]`: a missing step gives the default -/
theorem missing_is_absent (c : Ctx) (v : Val) (path : List FieldIndex) (d : Bool) (op : CmpOp)
    (hm : mapEachCount path = 0) (h : getNested v path = .ok none) :
    compareWith c (some v) path d op = .ok (.one d) := by
  rw [compareWith_one_branch c v path d op hm, h]

/-- with `[*]`: when the reference selects nothing (empty containers, or a missing step
before or between the `[*]`s), the result is the empty array -/
theorem empty_selection_empty (c : Ctx) (v : Val) (path : List FieldIndex) (d : Bool)
    (op : CmpOp) (hwf : Val.wf v = true) (hp : PathOk v.typeOf path)
    (hm : 0 < mapEachCount path) (h : pathSpec path v = []) :
    compareWith c (some v) path d op = .ok (.vec []) := by
  rw [strategies_agree c v path d op hwf hp hm, h]; rfl

/-- "an absent container gives an empty result": the container to iterate is missing -/
theorem absent_container_empty (c : Ctx) (v : Val) (p q : List FieldIndex) (d : Bool)
    (op : CmpOp) (hwf : Val.wf v = true) (hp : PathOk v.typeOf (p ++ q))
    (hpm : mapEachCount p = 0) (hq : 0 < mapEachCount q) (h : getNested v p = .ok none) :
    compareWith c (some v) (p ++ q) d op = .ok (.vec []) := by
  apply empty_selection_empty c v (p ++ q) d op hwf hp (by rw [mec_append]; omega)
  obtain ⟨o, hg, hs⟩ := getNested_spec hwf (pathOk_append hp) hpm
  rw [h] at hg
  cases hg
  rw [pathSpec_append, hs]; rfl

/-! ## 4. element-wise `not` / `and` / `or` / `xor` -/

/-- two operands: zip, combine, truncate to the shorter -/
theorem zip_truncates (f : Bool → Bool → Bool) (as bs : List Bool) :
    (zipTrunc f as bs).length = min as.length bs.length ∧
    ∀ (i : Nat) a b, as[i]? = some a → bs[i]? = some b → (zipTrunc f as bs)[i]? = some (f a b) :=
  ⟨zipTrunc_length f as bs, fun i a b => zipTrunc_getElem? f as bs i a b⟩

/-- `a op b op …` over boolean arrays, any number of operands: if the operands evaluate to
`b0, bss…` then the result is an array whose length is the minimum of the operand lengths
and whose `i`-th element is the left fold of `op` over the operands' `i`-th elements. -/
theorem vec_logic (s : Scheme) (c : Ctx) (op : LogicalOp) (first : LExpr) (rest : List LExpr)
    (b0 : List Bool) (bss : List (List Bool))
    (h0 : evalL s c first = .ok (.vec b0))
    (h : All₂ (fun e bs => evalL s c e = .ok (.vec bs)) rest bss) :
    ∃ res, evalL s c (.combining op (first :: rest)) = .ok (.vec res) ∧
      res.length = bss.foldl (fun n bs => min n bs.length) b0.length ∧
      (∀ i, i < res.length ↔ i < b0.length ∧ ∀ bs ∈ bss, i < bs.length) ∧
      (∀ (i : Nat) a col, b0[i]? = some a → All₂ (fun bs b => bs[i]? = some b) bss col →
        res[i]? = some (col.foldl (opFn op) a)) :=
  ⟨_, combining_vec s c op first b0 rest bss h0 h, vecFold_length _ _ _,
    fun i => vecFold_lt_iff _ _ _ i, fun i a col => vecFold_getElem? _ _ _ i a col⟩

/-- every position of the result has a column to fold (so the previous statement describes
all of `res`) -/
theorem vec_logic_total (bss : List (List Bool)) (i : Nat) (h : ∀ bs ∈ bss, i < bs.length) :
    ∃ col, All₂ (fun bs b => bs[i]? = some b) bss col :=
  column_exists bss i h

/-- `not` on a boolean array is pointwise (and length-preserving) -/
theorem vec_not (s : Scheme) (c : Ctx) (e : LExpr) (bs : List Bool)
    (h : evalL s c e = .ok (.vec bs)) :
    evalL s c (.unaryNot e) = .ok (.vec (bs.map (!·))) :=
  unaryNot_vec s c e bs h

/-! ## 5. `any` / `all` -/

theorem any_iff_exists (s : Scheme) (c : Ctx) (e : LExpr) (bs : List Bool)
    (h : evalL s c e = .ok (.vec bs)) :
    ∃ r, evalL s c (.quantifier .any (.logical e)) = .ok (.one r) ∧
      (r = true ↔ ∃ b ∈ bs, b = true) :=
  ⟨_, quantifier_logical s c .any e bs h, by simp [qFn]⟩

theorem all_iff_forall (s : Scheme) (c : Ctx) (e : LExpr) (bs : List Bool)
    (h : evalL s c e = .ok (.vec bs)) :
    ∃ r, evalL s c (.quantifier .all (.logical e)) = .ok (.one r) ∧
      (r = true ↔ ∀ b ∈ bs, b = true) :=
  ⟨_, quantifier_logical s c .all e bs h, by simp [qFn]⟩

/-- `all` of an empty result is true, `any` of it false -/
theorem all_nil (s : Scheme) (c : Ctx) (e : LExpr) (h : evalL s c e = .ok (.vec [])) :
    evalL s c (.quantifier .all (.logical e)) = .ok (.one true) ∧
    evalL s c (.quantifier .any (.logical e)) = .ok (.one false) :=
  ⟨quantifier_logical s c .all e [] h, quantifier_logical s c .any e [] h⟩

/-- end to end over an index path: `any(path op)` holds iff the comparison holds for some
selected value, `all(path op)` iff for every one (whenever the comparison itself is defined
on the selected values, i.e. the vector was produced) -/
theorem any_all_over_path (c : Ctx) (v : Val) (path : List FieldIndex) (d : Bool) (op : CmpOp)
    (bs : List Bool) (hwf : Val.wf v = true) (hp : PathOk v.typeOf path)
    (hm : 0 < mapEachCount path) (h : compareWith c (some v) path d op = .ok (.vec bs)) :
    (bs.any id = true ↔ ∃ x ∈ pathSpec path v, compareVal c op x = .ok true) ∧
    (bs.all id = true ↔ ∀ x ∈ pathSpec path v, compareVal c op x = .ok true) := by
  rw [strategies_agree c v path d op hwf hp hm] at h
  cases hm' : mapM' (compareVal c op) (pathSpec path v) with
  | error e => simp [hm', Except.map] at h
  | ok bs' =>
    simp only [hm', Except.map, Except.ok.injEq, BV.vec.injEq] at h
    subst h
    have := (mapM'_ok_iff _ _ _).mp hm'
    exact ⟨any_of_forall₂ _ this, all_of_forall₂ _ this⟩

/-- `any` / `all` applied directly (`QuantifierArgExpr::IndexExpr`) to an absent
boolean-array value are **false** (`Err(_) => false`) — also `all`. -/
theorem quantifier_absent_false (s : Scheme) (c : Ctx) (q : QOp) (e : IExpr) (t : Ty)
    (h : evalI s c e = .ok (.error t)) :
    evalL s c (.quantifier q (.index e)) = .ok (.one false) :=
  quantifier_index_absent s c q e t h

/-- … in particular when the identifier itself is absent (optional field without a value,
function call yielding nothing), whatever the indexes -/
theorem quantifier_absent_base_false (s : Scheme) (c : Ctx) (q : QOp) (e : IExpr) (t : Ty)
    (h : evalBase s c e = .ok (.error t)) :
    evalL s c (.quantifier q (.index e)) = .ok (.one false) := by
  obtain ⟨t', ht⟩ := evalI_absent s c e t h
  exact quantifier_index_absent s c q e t' ht

/-- … while a present (possibly empty) direct boolean array is reduced like any other -/
theorem quantifier_present (s : Scheme) (c : Ctx) (q : QOp) (e : IExpr) (t : Ty)
    (bs : List Bool) (h : evalI s c e = .ok (.ok (.array t (bs.map .bool)))) :
    evalL s c (.quantifier q (.index e)) = .ok (.one (qFn q bs)) :=
  quantifier_index_present s c q e t bs h

/-! ## 6. map iteration order -/

/-- A well-formed map lists its values in strictly ascending key order: the keys are
pairwise strictly increasing (hence distinct), `elements` follows the stored order, lookup
finds exactly the stored entries, and two well-formed maps with the same entries are
identical lists — the iteration order is determined by the keys alone. -/
theorem map_order (t : Ty) (kvs : List (Bytes × Val)) (h : Val.wf (.map t kvs) = true) :
    (kvs.map (·.1)).Pairwise (fun a b => Val.bytesLt a b = true) ∧
    Val.elements (.map t kvs) = kvs.map (·.2) ∧
    (∀ k x, mapGet kvs k = some x ↔ (k, x) ∈ kvs) ∧
    (∀ kvs', Val.wf (.map t kvs') = true → kvs.Perm kvs' → kvs = kvs') := by
  simp only [Val.wf, Bool.and_eq_true] at h
  refine ⟨keysAscending_pairwise h.2, rfl, mapGet_eq_some_iff h.2, ?_⟩
  intro kvs' h' hp
  simp only [Val.wf, Bool.and_eq_true] at h'
  exact sorted_perm_eq h.2 h'.2 hp

/-- the key order is a strict total order's `<` on byte strings: irreflexive, transitive -/
theorem key_order_strict :
    (∀ a, Val.bytesLt a a = false) ∧
    (∀ a b c, Val.bytesLt a b = true → Val.bytesLt b c = true → Val.bytesLt a c = true) :=
  ⟨bytesLt_irrefl, bytesLt_trans⟩

/-! ## Non-vacuity: concrete nested, ragged, partly empty containers -/

section Examples

example : Val.wf exV = true := by decide
example : PathOk exV.typeOf [.each, .each, .each] := by decide
example : PathOk exV.typeOf [.key ['a'], .arr 0, .each] := by decide
example : PathOk exV.typeOf [.each, .arr 0, .each] := by decide
example : ¬ PathOk exV.typeOf [.arr 0] := by decide
example : pathSpec [.each, .each, .each] exV = [.int 1, .int 2, .int 3, .int 4] := rfl
example : pathSpec [.each, .arr 0, .each] exV = [.int 1, .int 2, .int 4] := rfl
example : mapEachRun [.each, .arr 0, .each] exV = .ok [.int 1, .int 2, .int 4] :=
  mapEach_rowMajor exV _ (by decide) (by decide) (by simp)
example : pathSpec [.key ['a', '\x00'], .each, .each] exV = [] := rfl
example : getNested exV [.key ['z'], .arr 0] = .ok none :=
  missing_key _ _ _ _ (by decide)
example : zipTrunc (· && ·) [true, true, false] [true, false] = [true, false] := rfl
example : All₂ (fun (bs : List Bool) b => bs[1]? = some b) [[true, false], [false, true, true]]
    [false, true] := .cons rfl (.cons rfl .nil)

end Examples

end WfModel.C02
