import WfModel.Lemmas.C17
import WfModel.Generated

/-!
# C17 — `in $list` delegates exactly to the context's list matcher

Property theorems only. Model: `Model/Eval.lean` (`listMatch`, `compareVal … (.inList l name)`,
`compareWith`; `engine/src/ast/field_expr.rs` InList arm, `execution_context.rs`
`get_list_matcher_unchecked`), `Model/Parse.lean` `cmpWithLhs` (the `in $` arm of
`ComparisonExpr::lex_with_lhs`), `Model/Lit.lean` `lexListName` (`rhs_types/list.rs`),
`Scheme.getList` (`scheme.rs`).  Helper definitions (`ListState.answer`, `eachItems`,
`ListNameOk`, `Ctx.clear`, `CtxFor`) in `Lemmas/C17.lean`.
-/
namespace WfModel.C17
open WfModel

/-! ### execution -/

/-- **Delegation, no `[*]`.** `lhs in $name` is: stuck/absent exactly as the value expression
`lhs` is; `false` when `lhs` has no value; otherwise exactly the answer of matcher `l`
queried with `name` and the value of `lhs` — for fields, index paths and calls alike. -/
theorem inlist_delegates (s : Scheme) (c : Ctx) (lhs : IExpr) (l : Nat) (name : List Char)
    (h0 : mapEachCount lhs.indexes = 0) :
    evalL s c (.comparison lhs (.inList l name)) =
      match evalI s c lhs with
      | .error e => .error e
      | .ok (.error _) => .ok (.one false)
      | .ok (.ok v) => (listMatch c l name v).map .one := by
  rw [evalL_inList]
  unfold evalI
  cases evalBase s c lhs with
  | error e => rfl
  | ok base =>
    simp only []
    rw [compareWith_zero _ _ _ _ _ h0, indexValue_zero _ _ _ h0]
    cases base with
    | error t => rfl
    | ok v =>
      simp only [resOpt]
      cases getNested v lhs.indexes with
      | error e => rfl
      | ok o =>
        cases o with
        | none => rfl
        | some x => simp only [compareVal_inList]

/-- The matcher consulted is `c.lists[l]`, and it is asked exactly `(name, v)`. -/
theorem matcher_answer (c : Ctx) (l : Nat) (name : List Char) (v : Val) (st : ListState)
    (h : c.lists[l]? = some st) : listMatch c l name v = .ok (st.answer name v) :=
  listMatch_some c l name v st h

/-- **Delegation under `[*]`.** The comparison is evaluated through `compareWith` on the
identifier's value; absent identifier ⇒ empty array; otherwise the result is the array of
the matcher's answers on the selected elements, in order. -/
theorem inlist_delegates_each (s : Scheme) (c : Ctx) (lhs : IExpr) (l : Nat) (name : List Char)
    (h1 : mapEachCount lhs.indexes > 0) :
    evalL s c (.comparison lhs (.inList l name)) =
      match evalBase s c lhs with
      | .error e => .error e
      | .ok (.error _) => .ok (.vec [])
      | .ok (.ok v) =>
        match eachItems lhs.indexes v with
        | .error e => .error e
        | .ok items => (mapM' (listMatch c l name) items).map .vec := by
  rw [evalL_inList]
  cases evalBase s c lhs with
  | error e => rfl
  | ok base =>
    cases base with
    | error t => exact compareWith_each_none c _ _ _ h1
    | ok v =>
      simp only [resOpt]
      rw [compareWith_each c v _ _ _ h1]
      cases eachItems lhs.indexes v with
      | error e => rfl
      | ok items =>
        simp only []
        rw [mapM'_congr _ _ items (fun x _ => compareVal_inList c l name x)]

/-- … with the matcher `st` installed at index `l`: exactly `items.map (answer)`. -/
theorem inlist_each_answers (s : Scheme) (c : Ctx) (lhs : IExpr) (l : Nat) (name : List Char)
    (st : ListState) (v : Val) (items : List Val)
    (h1 : mapEachCount lhs.indexes > 0) (hst : c.lists[l]? = some st)
    (hb : evalBase s c lhs = .ok (.ok v)) (hi : eachItems lhs.indexes v = .ok items) :
    evalL s c (.comparison lhs (.inList l name)) = .ok (.vec (items.map (st.answer name))) := by
  rw [inlist_delegates_each s c lhs l name h1, hb]
  simp only [hi]
  rw [mapM'_congr _ (fun x => .ok (st.answer name x)) items
    (fun x _ => listMatch_some c l name x st hst), mapM'_ok]
  rfl

/-- **`x[*] in $name`** (one trailing `[*]`): per element of the value of `x`, in iteration
order (array order / ascending map keys) — stated through the value expression `evalI`. -/
theorem inlist_each_elements (s : Scheme) (c : Ctx) (lhs : IExpr) (l : Nat) (name : List Char)
    (x : Val) (h1 : mapEachCount lhs.indexes = 1) (hl : lhs.indexes.getLast? = some .each)
    (hv : evalI s c lhs = .ok (.ok x)) :
    evalL s c (.comparison lhs (.inList l name)) =
      match containerItems x with
      | .error e => .error e
      | .ok items => (mapM' (listMatch c l name) items).map .vec := by
  obtain ⟨v, hb, hi⟩ := eachItems_of_value s c lhs x h1 hl hv
  rw [inlist_delegates_each s c lhs l name (by omega), hb]
  simp only [hi]

/-- `compareWith` itself, for any base value: the vec result is the per-element matcher
answers (`compile_vec_with` / `compile_iter_with` with the `InList` comparator). -/
theorem compareWith_inlist_each (c : Ctx) (v : Val) (ixs : List FieldIndex) (d : Bool)
    (l : Nat) (name : List Char) (h1 : mapEachCount ixs > 0) :
    compareWith c (some v) ixs d (.inList l name) =
      match eachItems ixs v with
      | .error e => .error e
      | .ok items => (mapM' (listMatch c l name) items).map .vec := by
  rw [compareWith_each c v ixs d _ h1]
  cases eachItems ixs v with
  | error e => rfl
  | ok items =>
    simp only []
    rw [mapM'_congr _ _ items (fun x _ => compareVal_inList c l name x)]

/-! ### built-in lists, clear -/

/-- the always-list matches every value under every name -/
theorem always_true (c : Ctx) (l : Nat) (st : ListState) (name : List Char) (v : Val)
    (h : c.lists[l]? = some st) (hk : st.kind = .always) : listMatch c l name v = .ok true := by
  rw [listMatch_some c l name v st h]; simp [ListState.answer, hk]

/-- the never-list matches nothing -/
theorem never_false (c : Ctx) (l : Nat) (st : ListState) (name : List Char) (v : Val)
    (h : c.lists[l]? = some st) (hk : st.kind = .never) : listMatch c l name v = .ok false := by
  rw [listMatch_some c l name v st h]; simp [ListState.answer, hk]

/-- Translator tie: the literals `bin/extract_c17.py` reads out of
`AlwaysListMatcher::match_value` and `NeverListMatcher::match_value` (list_matcher.rs) are
the answers the model gives. (Fails to build when `/repo` answers differently.) -/
theorem builtin_answers_pinned :
    Generated.alwaysAnswer = true ∧ Generated.neverAnswer = false := by decide

/-- the model's built-in matchers answer what the extracted source literals say -/
theorem builtin_answers_source (c : Ctx) (l : Nat) (st : ListState) (name : List Char) (v : Val)
    (h : c.lists[l]? = some st) :
    (st.kind = .always → listMatch c l name v = .ok Generated.alwaysAnswer) ∧
      (st.kind = .never → listMatch c l name v = .ok Generated.neverAnswer) := by
  rw [builtin_answers_pinned.1, builtin_answers_pinned.2]
  exact ⟨always_true c l st name v h, never_false c l st name v h⟩

/-- a set matcher finds exactly the members of the named set (first set of that name) -/
theorem sets_answer (st : ListState) (name : List Char) (v : Val) (hk : st.kind = .sets) :
    st.answer name v = true ↔
      ∃ e, st.sets.find? (fun s => s.1 == name) = some e ∧ e.2.any (· == v) = true := by
  unfold ListState.answer
  rw [hk]
  simp only []
  cases st.sets.find? (fun s => s.1 == name) with
  | none => simp
  | some e => cases e; simp

/-- **`ExecutionContext::clear` empties the matchers**: after it, every `.sets` matcher
answers `false` for every name and value … -/
theorem clear_empties_matchers (c : Ctx) (l : Nat) (st : ListState) (name : List Char) (v : Val)
    (h : c.lists[l]? = some st) (hk : st.kind = .sets) :
    listMatch c.clear l name v = .ok false := by
  have : c.clear.lists[l]? = some st.clear := by rw [clear_lists_get, h]; rfl
  rw [listMatch_some _ l name v _ this, answer_clear_sets st name v hk]

/-- … the built-ins are unaffected, and no matcher disappears or moves. -/
theorem clear_keeps_builtins (c : Ctx) (l : Nat) (st : ListState) (name : List Char) (v : Val)
    (h : c.lists[l]? = some st) (hk : st.kind ≠ .sets) :
    listMatch c.clear l name v = listMatch c l name v := by
  have : c.clear.lists[l]? = some st.clear := by rw [clear_lists_get, h]; rfl
  rw [listMatch_some _ l name v _ this, listMatch_some _ l name v _ h,
    answer_clear_builtin st name v hk]

/-- and every field value is unset -/
theorem clear_unsets_values (c : Ctx) (f : Nat) (v : Val) : c.clear.values[f]? ≠ some (some v) := by
  simp [Ctx.clear]

/-! ### parse side -/

/-- **Routing (parse).** The parser produces an `InList` node only from `lhs in $name`, with
the name the list-name lexer returned, on an `Ip`/`Bytes`/`Int` left-hand side, and with
`l` = what `get_list(lhs_type)` answered. -/
theorem routing (env : PEnv) (lhs lhs' : IExpr) (lhsTy : Ty) (input rest : Input)
    (t : Typed LExpr) (l : Nat) (name : List Char)
    (h : cmpWithLhs env lhs lhsTy input = .ok (t, rest))
    (hn : t.node = .comparison lhs' (.inList l name)) :
    lhs' = lhs ∧ env.scheme.getList lhsTy = some l ∧
      (lhsTy = .ip ∨ lhsTy = .bytes ∨ lhsTy = .int) ∧
      ∃ afterOp, lexEnum comparisonOps (skipSpace input) = some (.in_, afterOp) ∧
        lexListName (skipSpace afterOp) = .ok (name, rest) :=
  cmpWithLhs_inList env lhs lhsTy input rest t lhs' l name h hn

/-- `get_list(ty)` is the registration index of the list registered for `ty` — lists are
indexed by registration order and looked up by type, whatever the order. -/
theorem getList_index (s : Scheme) (t : Ty) (l : Nat) :
    s.getList t = some l ↔
      (∃ k, s.lists[l]? = some (t, k)) ∧ ∀ j < l, ∀ x, s.lists[j]? = some x → x.1 ≠ t :=
  getList_some_iff s t l

/-- With one list per type (the builder rejects duplicates), *every* registration slot is
reached by its own type: for any registration order, `(t, k)` registered at slot `l` ⇒
`x in $n` on a `t`-typed lhs is routed to slot `l`. -/
theorem routing_any_order (s : Scheme) (hd : s.ListsDistinct) (t : Ty) (k : ListKind) (l : Nat)
    (h : s.lists[l]? = some (t, k)) : s.getList t = some l :=
  getList_of_registered s hd t k l h

/-- **Routing (end to end).** In a context whose matchers were created from the scheme's
list definitions in registration order, the matcher consulted for a `t`-typed lhs is the
one made from the definition registered for `t`. -/
theorem routing_exec (s : Scheme) (c : Ctx) (hc : CtxFor s c) (t : Ty) (l : Nat)
    (name : List Char) (v : Val) (h : s.getList t = some l) :
    ∃ st k, s.lists[l]? = some (t, k) ∧ c.lists[l]? = some st ∧ st.kind = k ∧
      listMatch c l name v = .ok (st.answer name v) := by
  obtain ⟨⟨k, hk⟩, _⟩ := (getList_some_iff s t l).mp h
  obtain ⟨st, hst, hkind⟩ := ctxFor_get s c hc l t k hk
  exact ⟨st, k, hk, hst, hkind, listMatch_some c l name v st hst⟩

/-- **Accepted with a registered list, rejected (`UnsupportedOp`) without**: on an
admissible lhs type, after `in` and a well-formed `$name`. -/
theorem parse_inlist (env : PEnv) (lhs : IExpr) (lhsTy : Ty) (input afterOp rest : Input)
    (name : List Char)
    (hty : lhsTy = .ip ∨ lhsTy = .bytes ∨ lhsTy = .int)
    (hop : lexEnum comparisonOps (skipSpace input) = some (.in_, afterOp))
    (hname : lexListName (skipSpace afterOp) = .ok (name, rest)) :
    cmpWithLhs env lhs lhsTy input =
      match env.scheme.getList lhsTy with
      | some l => .ok ({ node := .comparison lhs (.inList l name), ty := cmpTy lhs }, rest)
      | none => errSpan .unsupportedOp (skipSpace input) rest :=
  cmpWithLhs_in_dollar env lhs lhsTy input afterOp rest name hty hop hname

/-- no list registered for the type ⇒ `UnsupportedOp` -/
theorem unregistered_rejected (env : PEnv) (lhs : IExpr) (lhsTy : Ty) (input afterOp rest : Input)
    (name : List Char)
    (hty : lhsTy = .ip ∨ lhsTy = .bytes ∨ lhsTy = .int)
    (hop : lexEnum comparisonOps (skipSpace input) = some (.in_, afterOp))
    (hname : lexListName (skipSpace afterOp) = .ok (name, rest))
    (hno : ∀ x ∈ env.scheme.lists, x.1 ≠ lhsTy) :
    ∃ e, cmpWithLhs env lhs lhsTy input = .error e ∧ e.kind = .unsupportedOp := by
  rw [parse_inlist env lhs lhsTy input afterOp rest name hty hop hname,
    (getList_none_iff _ _).mpr hno]
  exact ⟨_, rfl, rfl⟩

/-- a malformed list name after `in $` is rejected with the list-name lexer's error -/
theorem badname_rejected (env : PEnv) (lhs : IExpr) (lhsTy : Ty) (input afterOp r : Input)
    (e : LexErr)
    (hty : lhsTy = .ip ∨ lhsTy = .bytes ∨ lhsTy = .int)
    (hop : lexEnum comparisonOps (skipSpace input) = some (.in_, afterOp))
    (hexp : expect (skipSpace afterOp) "$" = some r)
    (hname : lexListName (skipSpace afterOp) = .error e) :
    cmpWithLhs env lhs lhsTy input = .error e :=
  cmpWithLhs_in_dollar_badname env lhs lhsTy input afterOp r e hty hop hexp hname

/-- on any other non-boolean lhs type `in` is rejected outright -/
theorem other_type_rejected (env : PEnv) (lhs : IExpr) (lhsTy : Ty) (input afterOp : Input)
    (hb : lhsTy ≠ .bool) (hnb : lhsTy.next ≠ some .bool)
    (hty : ¬ (lhsTy = .ip ∨ lhsTy = .bytes ∨ lhsTy = .int))
    (hop : lexEnum comparisonOps (skipSpace input) = some (.in_, afterOp)) :
    cmpWithLhs env lhs lhsTy input = errSpan .unsupportedOp (skipSpace input) afterOp :=
  cmpWithLhs_in_other env lhs lhsTy input afterOp hb hnb hty hop

/-- **The list-name alphabet** (both directions): `ListName::lex` succeeds with `(name,
rest)` iff the input is `$` followed by `name` followed by `rest`, where `name` is non-empty,
made of `a-z 0-9 _ .`, neither starts nor ends with `.`, and `rest` does not start with a
list-name character (maximal munch). -/
theorem listname_alphabet (input : Input) (name rest : List Char) :
    lexListName input = .ok (name, rest) ↔
      (input = '$' :: (name ++ rest) ∧
        (name ≠ [] ∧ name.all isListNameChar = true ∧ name.head? ≠ some '.' ∧
          name.getLast? ≠ some '.') ∧
        ∀ c, rest.head? = some c → isListNameChar c = false) :=
  lexListName_ok_iff input name rest

/-- the alphabet itself -/
theorem listname_chars (c : Char) :
    isListNameChar c = true ↔
      (('a' ≤ c ∧ c ≤ 'z') ∨ ('0' ≤ c ∧ c ≤ '9') ∨ c = '_' ∨ c = '.') :=
  isListNameChar_iff c

/-! Non-vacuity. -/
example : (lexListName "$a.b_9)".toList).toOption = some ("a.b_9".toList, ")".toList) := by decide
example : (lexListName "$.a".toList).toOption = none := by decide
example : (lexListName "$a. ".toList).toOption = none := by decide
example : (lexListName "$A".toList).toOption = none := by decide
example : ({ fields := [], funcs := [], lists := [(.ip, .never), (.int, .sets), (.bytes, .always)] }
    : Scheme).getList .int = some 1 := by decide
example : ({ fields := [], funcs := [], lists := [(.ip, .never), (.int, .sets)] } : Scheme).ListsDistinct := by
  simp [Scheme.ListsDistinct]
example : CtxFor { fields := [], funcs := [], lists := [(.ip, .never), (.int, .sets)] }
    { values := [], lists := [{ kind := .never, sets := [] },
      { kind := .sets, sets := [(['a'], [.int 3])] }] } := rfl

end WfModel.C17
