import WfModel.Lemmas.C03

/-!
# C03 — function calls get the evaluated arguments; map-each and concat as specified

Property theorems only. Model: `Model/Eval.lean` (`evalBase` `.call` arm, `callImpl`,
`simpleImpl`, `concatImpl`, `evalA`, `evalAs`; `engine/src/ast/function_expr.rs`,
`functions/mod.rs`, `functions/concat.rs`), `Model/Parse.lean` (`callArgsLoop`, `callBodyL`:
`FunctionCallExpr::lex_with_function` with the definition context threaded through
`check_param`).  Helper definitions (`callRet`, `isMapped`, `wrapRes`, `filterMapM`,
`finishMapped`, `simpleArgs`, `cmpOnBase`, `present`) in `Lemmas/C03.lean`.
-/
namespace WfModel.C03
open WfModel

/-! ### non-mapped calls -/

/-- **The implementation receives exactly the evaluated arguments, in source order.**
For a call whose first argument has no `[*]`: the arguments are evaluated left to right
(`evalAs`), the compiled implementation is applied to that vector, and its optional result
becomes a value or a typed absence of the declared return type. -/
theorem call_args (s : Scheme) (c : Ctx) (fn : Nat) (args : List AExpr) (ctx : Option Nat)
    (ixs : List FieldIndex) (nm : List Char) (sig : FuncSig)
    (hf : s.funcs[fn]? = some (nm, sig)) (hm : isMapped args = false) :
    evalBase s c (.call fn args ctx ixs) =
      match evalAs s c args with
      | .error e => .error e
      | .ok vs => wrapRes (callRet s sig args) (callImpl sig args.length ctx vs) :=
  evalBase_call_plain s c fn args ctx ixs nm sig hf hm

/-- `evalAs` is the left-to-right evaluation of each argument (`mapM'` = first failure in
source order wins, otherwise the list of results in order). -/
theorem args_in_order (s : Scheme) (c : Ctx) (as : List AExpr) :
    evalAs s c as = mapM' (evalA s c) as :=
  evalAs_eq_mapM' s c as

/-- … so the vector has one entry per written argument. -/
theorem args_length (s : Scheme) (c : Ctx) (as : List AExpr) (vs : List VRes)
    (h : evalAs s c as = .ok vs) : vs.length = as.length := by
  rw [evalAs_eq_mapM'] at h
  exact mapM'_length _ _ _ h

/-- **Omitted optional parameters are replaced by their declared defaults**, appended after
the supplied arguments: `defaults.drop (k - |params|)`. -/
theorem call_args_defaults (ps : List (ArgKindSpec × Ty)) (os : List (ArgKindSpec × Val))
    (r : Ty) (id : Nat) (ctx : Option Nat) (vs : List VRes) :
    callImpl (.simple ps os r id) vs.length ctx vs =
      simpleImpl id (vs ++ (os.drop (vs.length - ps.length)).map (fun o => .ok o.2)) :=
  callImpl_simple ps os r id ctx vs

/-- the implementation always sees the full parameter vector (arity admitted by the parser) -/
theorem full_vector (ps : List (ArgKindSpec × Ty)) (os : List (ArgKindSpec × Val))
    (vs : List VRes) (h1 : ps.length ≤ vs.length) (h2 : vs.length ≤ ps.length + os.length) :
    (vs ++ (os.drop (vs.length - ps.length)).map (fun o => (.ok o.2 : VRes))).length =
      ps.length + os.length :=
  simpleArgs_length ps os vs h1 h2

/-- a mismatch between the number of compiled arguments and evaluated values is the
`assert!` of the compiled closure, not a silent truncation -/
theorem arity_mismatch_stuck (ps : List (ArgKindSpec × Ty)) (os : List (ArgKindSpec × Val))
    (r : Ty) (id n : Nat) (ctx : Option Nat) (vs : List VRes) (h : vs.length ≠ n) :
    callImpl (.simple ps os r id) n ctx vs = .error .assertArgs := by
  simp [callImpl, h]

/-- **Literals are passed as written.** -/
theorem literal_as_written (s : Scheme) (c : Ctx) (v : RhsVal) :
    evalA s c (.literal v) = .ok (.ok v.toVal) :=
  evalA_literal s c v

/-- **An argument without a value is passed as a typed absence** `Err(type of the
argument)`: absent identifier, or a path that leads nowhere. -/
theorem absent_arg_typed (s : Scheme) (c : Ctx) (e : IExpr) (h0 : mapEachCount e.indexes = 0) :
    evalA s c (.index e) =
      match evalBase s c e with
      | .error x => .error x
      | .ok (.error _) => .ok (.error (tyI s e))
      | .ok (.ok v) =>
        match getNested v e.indexes with
        | .error x => .error x
        | .ok none => .ok (.error (tyI s e))
        | .ok (some x) => .ok (.ok x) := by
  rw [evalA_index, evalI_zero s c e h0]
  cases evalBase s c e with
  | error x => rfl
  | ok b =>
    cases b with
    | error t => rfl
    | ok v =>
      simp only []
      cases getNested v e.indexes with
      | error x => rfl
      | ok o => cases o <;> rfl

/-! ### absent results -/

/-- An absent result (`None`) is a typed absence of the declared return type … -/
theorem absent_result (s : Scheme) (c : Ctx) (fn : Nat) (args : List AExpr) (ctx : Option Nat)
    (ixs : List FieldIndex) (nm : List Char) (sig : FuncSig) (vs : List VRes)
    (hf : s.funcs[fn]? = some (nm, sig)) (hm : isMapped args = false)
    (hv : evalAs s c args = .ok vs) (hn : callImpl sig args.length ctx vs = .ok none) :
    evalBase s c (.call fn args ctx ixs) = .ok (.error (callRet s sig args)) := by
  rw [call_args s c fn args ctx ixs nm sig hf hm, hv]
  simp only [hn, wrapRes]

/-- … exactly what an absent optional field is … -/
theorem absent_field (s : Scheme) (c : Ctx) (f : Nat) (ixs : List FieldIndex)
    (h : c.fieldVal s f = .ok none) :
    evalBase s c (.field f ixs) = .ok (.error (s.fieldTy f)) := by
  rw [evalBase, h]

/-- … and **a comparison on it behaves like on an absent field**: the result is the one
`compile_with` gives for a missing identifier (`compareWith c none …`), which depends on
the left-hand side only through its static type and indexes. -/
theorem absent_result_like_absent_field (s : Scheme) (c : Ctx) (lhs : IExpr) (op : CmpOp) (t : Ty)
    (hb : evalBase s c lhs = .ok (.error t)) :
    evalL s c (.comparison lhs op) = cmpOnBase s c (tyI s lhs) lhs.indexes op none := by
  rw [evalL_comparison, hb]
  rfl

/-- spelled out for every operator but the implicit `IsTrue`: the operator's nil default
(`true` only for `!=` under the scheme's setting), or the empty array under `[*]` -/
theorem absent_result_comparison (s : Scheme) (c : Ctx) (lhs : IExpr) (op : CmpOp) (t : Ty)
    (hb : evalBase s c lhs = .ok (.error t)) (hop : op ≠ .isTrue) :
    evalL s c (.comparison lhs op) =
      if mapEachCount lhs.indexes = 0 then .ok (.one (nilDefault s op)) else .ok (.vec []) := by
  rw [absent_result_like_absent_field s c lhs op t hb]
  have : (op == CmpOp.isTrue) = false := by simpa using hop
  simp only [cmpOnBase, this, Bool.false_eq_true, if_false]
  exact compareWith_none c _ _ _

/-- two left-hand sides without a value (say a call with an absent result and an absent
field) with the same static type and indexes are indistinguishable to every comparison -/
theorem absent_indistinguishable (s : Scheme) (c : Ctx) (lhs lhs' : IExpr) (op : CmpOp)
    (t t' : Ty) (hb : evalBase s c lhs = .ok (.error t)) (hb' : evalBase s c lhs' = .ok (.error t'))
    (hty : tyI s lhs = tyI s lhs') (hix : lhs.indexes = lhs'.indexes) :
    evalL s c (.comparison lhs op) = evalL s c (.comparison lhs' op) := by
  rw [absent_result_like_absent_field s c lhs op t hb,
    absent_result_like_absent_field s c lhs' op t' hb', hty, hix]

/-! ### map-each application -/

/-- **Mapped call.** When the first argument has `[*]` and evaluates to an array or a map
`first`, the remaining arguments are evaluated **once** (`extra`), the implementation is
applied to each element of `first` in iteration order with `extra` appended, absent results
are dropped (`filterMapM` = `filter_map` with stuck outcomes propagated), and the outcome is
an array of the declared return type. (Uniform: an empty `first` gives the empty array of
the return type.) -/
theorem mapped_call (s : Scheme) (c : Ctx) (fn : Nat) (a0 : AExpr) (rest : List AExpr)
    (ctx : Option Nat) (ixs : List FieldIndex) (nm : List Char) (sig : FuncSig)
    (first : Val) (extra : List VRes)
    (hf : s.funcs[fn]? = some (nm, sig)) (hm : a0.mapEachCount > 0)
    (h0 : evalA s c a0 = .ok (.ok first)) (hr : evalAs s c rest = .ok extra)
    (hc : first.isContainer = true) :
    evalBase s c (.call fn (a0 :: rest) ctx ixs) =
      finishMapped (callRet s sig (a0 :: rest)) (mappedStuck first)
        (filterMapM (fun e => callImpl sig (rest.length + 1) ctx (.ok e :: extra))
          first.elements) := by
  rw [evalBase_call_mapped s c fn a0 rest ctx ixs nm sig hf hm, h0]
  simp only [hr]
  exact mappedResult_eq _ _ first hc

/-- … in closed form when no application is stuck and the results have the declared type:
`array ret ((elements first).filterMap (fun e => impl (ok e :: extra)))`. -/
theorem mapped_call_filterMap (s : Scheme) (c : Ctx) (fn : Nat) (a0 : AExpr) (rest : List AExpr)
    (ctx : Option Nat) (ixs : List FieldIndex) (nm : List Char) (sig : FuncSig)
    (first : Val) (extra : List VRes) (g : Val → Option Val)
    (hf : s.funcs[fn]? = some (nm, sig)) (hm : a0.mapEachCount > 0)
    (h0 : evalA s c a0 = .ok (.ok first)) (hr : evalAs s c rest = .ok extra)
    (hc : first.isContainer = true)
    (hg : ∀ e ∈ first.elements, callImpl sig (rest.length + 1) ctx (.ok e :: extra) = .ok (g e))
    (hty : ∀ r ∈ first.elements.filterMap g, r.typeOf = callRet s sig (a0 :: rest)) :
    evalBase s c (.call fn (a0 :: rest) ctx ixs) =
      .ok (.ok (.array (callRet s sig (a0 :: rest)) (first.elements.filterMap g))) := by
  rw [mapped_call s c fn a0 rest ctx ixs nm sig first extra hf hm h0 hr hc,
    filterMapM_pure _ g _ hg]
  have : (first.elements.filterMap g).all (fun x => x.typeOf == callRet s sig (a0 :: rest)) = true := by
    rw [List.all_eq_true]
    intro x hx
    simpa using hty x hx
  simp [finishMapped, this]

/-- the empty case is the uniform one: the empty array *of the return type* -/
theorem mapped_call_empty (s : Scheme) (c : Ctx) (fn : Nat) (a0 : AExpr) (rest : List AExpr)
    (ctx : Option Nat) (ixs : List FieldIndex) (nm : List Char) (sig : FuncSig)
    (t : Ty) (extra : List VRes)
    (hf : s.funcs[fn]? = some (nm, sig)) (hm : a0.mapEachCount > 0)
    (h0 : evalA s c a0 = .ok (.ok (.array t []))) (hr : evalAs s c rest = .ok extra) :
    evalBase s c (.call fn (a0 :: rest) ctx ixs) =
      .ok (.ok (.array (callRet s sig (a0 :: rest)) [])) := by
  rw [mapped_call s c fn a0 rest ctx ixs nm sig _ extra hf hm h0 hr rfl]
  rfl

/-- **Absent first argument ⇒ typed absence `Array ret`** (not an empty array). -/
theorem mapped_call_absent_first (s : Scheme) (c : Ctx) (fn : Nat) (a0 : AExpr)
    (rest : List AExpr) (ctx : Option Nat) (ixs : List FieldIndex) (nm : List Char)
    (sig : FuncSig) (t : Ty)
    (hf : s.funcs[fn]? = some (nm, sig)) (hm : a0.mapEachCount > 0)
    (h0 : evalA s c a0 = .ok (.error t)) :
    evalBase s c (.call fn (a0 :: rest) ctx ixs) =
      .ok (.error (.array (callRet s sig (a0 :: rest)))) := by
  rw [evalBase_call_mapped s c fn a0 rest ctx ixs nm sig hf hm, h0]

/-- **Memoised = inline.** Re-evaluating the remaining arguments for every element (the
engine's non-memoising strategy) applies the implementation to the same vectors as
evaluating them once. -/
theorem memo_eq_inline (s : Scheme) (c : Ctx) (sig : FuncSig) (n : Nat) (ctx : Option Nat)
    (rest : List AExpr) (extra : List VRes) (elems : List Val)
    (hr : evalAs s c rest = .ok extra) :
    filterMapM (fun e =>
        match evalAs s c rest with
        | .error x => .error x
        | .ok ex => callImpl sig n ctx (.ok e :: ex)) elems =
      filterMapM (fun e => callImpl sig n ctx (.ok e :: extra)) elems := by
  apply filterMapM_congr
  intro e _
  rw [hr]

/-! ### concat -/

/-- `concat` is absent exactly when all its arguments are. -/
theorem concat_none_iff (args : List VRes) :
    concatImpl args = .ok none ↔ ∀ a ∈ args, ∃ t, a = .error t := by
  rw [concatImpl_none_iff, present_nil_iff]

/-- **Bytes**: first present argument is a byte string ⇒ the present arguments joined in
order. -/
theorem concat_spec_bytes (args : List VRes) (b : Bytes) (rest : List Val)
    (h : present args = .bytes b :: rest) :
    concatImpl args = .ok (some (.bytes ((present args).flatMap Val.bytesOf))) := by
  rw [concatImpl_eq, h]
  simp [Val.bytesOf]

/-- **Arrays**: first present argument is an array ⇒ the elements of the present arguments
joined in order, with the element type of the first one. -/
theorem concat_spec_arrays (args : List VRes) (t : Ty) (xs : List Val) (rest : List Val)
    (h : present args = .array t xs :: rest) (ha : ∀ v ∈ rest, v.isArray = true)
    (ht : ∀ x ∈ (present args).flatMap Val.elements, x.typeOf = t) :
    concatImpl args = .ok (some (.array t ((present args).flatMap Val.elements))) := by
  rw [concatImpl_eq]
  rw [h] at ht ⊢
  simp only [foldl_arrays rest ha xs]
  have e : xs ++ rest.flatMap Val.elements = (Val.array t xs :: rest).flatMap Val.elements := by
    simp [Val.elements]
  rw [e]
  have : ((Val.array t xs :: rest).flatMap Val.elements).all (fun x => x.typeOf == t) = true := by
    rw [List.all_eq_true]
    intro x hx
    simpa using ht x hx
  simp only [this, if_true]

/-- the kind is fixed by the first present argument: anything else first is the Rust
`unreachable!()` (excluded by `check_param`) -/
theorem concat_other_first_stuck (args : List VRes) (v : Val) (rest : List Val)
    (h : present args = v :: rest) (hv : v.isArray = false) (hb : ∀ b, v ≠ .bytes b) :
    concatImpl args = .error .unreachable := by
  rw [concatImpl_eq, h]
  cases v with
  | array t xs => simp [Val.isArray] at hv
  | bytes b => exact absurd rfl (hb b)
  | _ => rfl

/-! ### the per-call definition context -/

/-- **The context is threaded**: after the argument loop has accepted `k` further arguments
of `ctxfn`, the context it returns is the counter advanced `k` times — every
`check_param` saw and mutated the same object. -/
theorem ctx_threaded (env : PEnv) (lower : Option Level) (f : Nat) (inp : Input)
    (args : List AExpr) (params : List ParamInfo) (n : Nat)
    (res : List AExpr × List ParamInfo × Option Nat) (rest : Input)
    (h : callArgsLoop env lower .ctxCounter f inp args params (some n) = .ok (res, rest)) :
    args.length ≤ res.1.length ∧ res.2.2 = some (n + (res.1.length - args.length)) :=
  callArgsLoop_ctx env lower f inp args params n res rest h

/-- the call node stores the context after the last `check_param`: `some k` for `k`
arguments -/
theorem ctx_stored (env : PEnv) (lower : Option Level) (fn : Nat) (input rest : Input)
    (args : List AExpr) (ctx : Option Nat) (ty : Ty)
    (h : callBodyL env lower fn .ctxCounter input = .ok ((args, ctx, ty), rest)) :
    ctx = some args.length :=
  callBodyL_ctx env lower fn input rest args ctx ty h

/-- … also through the parser's entry point for identifiers, at every nesting level -/
theorem ctx_stored_parse (env : PEnv) (n : Nat) (input rest : Input) (t : Typed IExpr)
    (i : Nat) (args : List AExpr) (ctx : Option Nat) (ixs : List FieldIndex) (nm : List Char)
    (h : indexExprL env (lowerOf env n) input = .ok (t, rest))
    (hn : t.node = .call i args ctx ixs)
    (hf : env.scheme.funcs[i]? = some (nm, .ctxCounter)) :
    ctx = some args.length :=
  indexExprL_ctx env n input rest t i args ctx ixs nm h hn hf

/-- and `compile` reads that same value back -/
theorem ctx_read_back (n k : Nat) (vs : List VRes) :
    callImpl .ctxCounter n (some k) vs = .ok (some (.int k)) := rfl

/-- end to end: a parsed `ctxfn(a₁,…,aₖ)` whose arguments evaluate yields `k` -/
theorem ctx_end_to_end (s : Scheme) (c : Ctx) (fn : Nat) (args : List AExpr)
    (ixs : List FieldIndex) (nm : List Char) (vs : List VRes)
    (hf : s.funcs[fn]? = some (nm, .ctxCounter)) (hm : isMapped args = false)
    (hv : evalAs s c args = .ok vs) :
    evalBase s c (.call fn args (some args.length) ixs) = .ok (.ok (.int args.length)) := by
  rw [call_args s c fn args _ ixs nm _ hf hm, hv]
  rfl

/-! Non-vacuity. -/
example : callImpl (.simple [(.both, .bytes)] [(.literal, .int 7), (.literal, .bytes [65])] .bytes 4)
    2 none [.ok (.bytes [66]), .ok (.int 1)] =
    .ok (some (.bytes ([66] ++ [124] ++ intBytes 1 ++ [124] ++ [65]))) := rfl
example : concatImpl [.error .bytes, .ok (.bytes [1]), .error .bytes, .ok (.bytes [2, 3])] =
    .ok (some (.bytes [1, 2, 3])) := rfl
example : concatImpl [.error .bytes, .error (.array .int)] = .ok none := rfl
example : concatImpl [.ok (.array .int [.int 1]), .error (.array .int), .ok (.array .int [.int 2])] =
    .ok (some (.array .int [.int 1, .int 2])) := rfl

end WfModel.C03
