import WfModel.Lemmas.Ctx

/-!
# C08 — execution contexts are typed field maps bound to one scheme

Property theorems only. Model: `WfModel/Model/Ctx.lean` (`execution_context.rs:49-291`,
checked constructors of `lhs_types/array.rs`/`map.rs`, scheme check of `filter.rs:203-237`)
over the scheme model of C16. Abstract typed field map `ASt`/`astep`, invariants
`CtxOk`/`Good`: `WfModel/Lemmas/Ctx.lean`.

Histories (`run e (St.init e) ops`) act on one original context, a guard on it, and a clone;
`e.other` is a second, structurally identical scheme (`EnvOk e`: it is another build).
-/
namespace WfModel.C08
open WfModel WfModel.Scheme WfModel.Ctx

/-- **Arrays can only be built homogeneous.** The checked constructor succeeds exactly
when every element has the declared element type (full nested type equality), and then
yields exactly those elements. -/
theorem homogeneous (t : Ty) (xs : List Val) (a : Val) :
    arrayTryFromVec t xs = .ok a ↔ (∀ x ∈ xs, x.typeOf = t) ∧ a = .array t xs :=
  arrayTryFromVec_ok_iff t xs a

/-- … and maps likewise (entries collected into ascending key order, later duplicates win). -/
theorem homogeneous_map (t : Ty) (kvs : List (Bytes × Val)) (m : Val) :
    mapTryFromIter t kvs = .ok m ↔
      (∀ kv ∈ kvs, kv.2.typeOf = t) ∧ m = .map t (collectMap [] kvs) :=
  mapTryFromIter_ok_iff t kvs m

/-- Every value that can be built through the checked constructors, at any depth, is
well-formed: each container holds only elements of its declared element type, recursively,
and map keys are strictly ascending. -/
theorem constructible_wf (r v : Val) (h : construct r = .ok v) : v.wf = true :=
  construct_wf r v h

/-- **Set succeeds exactly when** the field belongs to the context's scheme (same `Arc`)
and the value's full nested type equals the field's declared type.
(`hlen`: the context has one slot per field, as `new` creates it; `hco`: pointer-equal
schemes are the same scheme.) -/
theorem set_ok_iff (c : Ctx) (f : FieldRef) (v : Val)
    (hlen : c.values.length = c.scheme.fieldCount)
    (hco : c.scheme.same f.scheme = true → c.scheme = f.scheme) :
    (∃ p c', c.setByField f v = .ok (p, c')) ↔
      (c.scheme.same f.scheme = true ∧ f.scheme.fieldTy? f.index = some v.typeOf) := by
  unfold Ctx.setByField
  cases hs : c.scheme.same f.scheme with
  | false => simp
  | true =>
    have heq := hco hs
    simp only [if_true, true_and]
    cases hft : f.scheme.fieldTy? f.index with
    | none => simp
    | some ft =>
      have hi : f.index < c.values.length := by
        rw [hlen, heq]
        have := fieldTy?_eq_none_iff f.scheme f.index
        rw [hft] at this; simp at this; exact this
      constructor
      · rintro ⟨p, c', h⟩
        rw [(setAt_ok_inv c c' f.index ft v p h).1]
      · intro h
        simp only [Option.some.injEq] at h
        exact setAt_ok_of c f.index ft v hi h

/-- The two refusals are distinguished: a foreign `FieldRef` is a scheme mismatch whatever
the value; a `FieldRef` of the own scheme with a value of any other type (other primitive,
other element type, other depth) is a type mismatch naming both types. -/
theorem set_error_kinds (c : Ctx) (f : FieldRef) (v : Val) (ft : Ty)
    (hlen : c.values.length = c.scheme.fieldCount)
    (hco : c.scheme.same f.scheme = true → c.scheme = f.scheme) :
    (c.scheme.same f.scheme = false → c.setByField f v = .error .schemeMismatch) ∧
    (c.scheme.same f.scheme = true → f.scheme.fieldTy? f.index = some ft → ft ≠ v.typeOf →
      c.setByField f v = .error (.typeMismatch ft v.typeOf)) := by
  constructor
  · intro hs; simp [Ctx.setByField, hs]
  · intro hs hft hne
    simp only [Ctx.setByField, hs, if_true, hft]
    have hi : f.index < c.values.length := by
      rw [hlen, hco hs]
      have := fieldTy?_eq_none_iff f.scheme f.index
      rw [hft] at this; simp at this; exact this
    cases h : c.setAt f.index ft v with
    | ok pc => exact absurd (setAt_ok_inv c pc.2 f.index ft v pc.1 h).1 hne
    | error er => rw [(setAt_err c f.index ft v er hi h).2]

/-- By name: succeeds exactly when the exact name is a field of the context's scheme whose
declared type is the value's type. -/
theorem set_by_name_ok_iff (c : Ctx) (n : Name) (v : Val)
    (hlen : c.values.length = c.scheme.fieldCount) :
    (∃ p c', c.setByName n v = .ok (p, c')) ↔
      ∃ i, c.scheme.getField n = some i ∧ c.scheme.fieldTy? i = some v.typeOf := by
  cases hn : c.scheme.getField n with
  | none => simp [Ctx.setByName, hn]
  | some i =>
    cases hft : c.scheme.fieldTy? i with
    | none => simp [Ctx.setByName, hn, hft]
    | some ft =>
      have hi : i < c.values.length := by
        rw [hlen]
        have := fieldTy?_eq_none_iff c.scheme i
        rw [hft] at this; simp at this; exact this
      simp only [Ctx.setByName, hn, hft]
      constructor
      · rintro ⟨p, c', h⟩
        exact ⟨i, rfl, by rw [hft, (setAt_ok_inv c c' i ft v p h).1]⟩
      · rintro ⟨j, hj, h⟩
        simp only [Option.some.injEq] at hj
        rw [← hj, hft] at h
        simp only [Option.some.injEq] at h
        exact setAt_ok_of c i ft v hi h

/-- **Set returns the previous value** and stores the new one: the returned value is what
`get` saw before, `get` now sees the new value, every other slot, the scheme and the size
are untouched. -/
theorem set_returns_previous (c c' : Ctx) (f : FieldRef) (v : Val) (p : Option Val)
    (h : c.setByField f v = .ok (p, c')) :
    c.get f = some p ∧ c'.get f = some (some v) ∧ c'.scheme = c.scheme ∧
    c'.values.length = c.values.length ∧ ∀ j, j ≠ f.index → c'.values[j]? = c.values[j]? := by
  unfold Ctx.setByField at h
  cases hs : c.scheme.same f.scheme with
  | false => simp [hs] at h
  | true =>
    simp only [hs, if_true] at h
    cases hft : f.scheme.fieldTy? f.index with
    | none => simp [hft] at h
    | some ft =>
      simp only [hft] at h
      obtain ⟨_, hprev, rfl⟩ := setAt_ok_inv c c' f.index ft v p h
      have hi : f.index < c.values.length := by
        rcases List.getElem?_eq_some_iff.mp hprev with ⟨hi, _⟩; exact hi
      refine ⟨by simp [Ctx.get, hs, hprev], by simp [Ctx.get, hs, hi], rfl, by simp, ?_⟩
      intro j hj
      simp [Ne.symm hj]

/-- **A failed operation is a no-op.** Whatever the history so far, an operation that
reports a refusal (type mismatch, scheme mismatch, unknown field, constructor refusal, or
a panic outcome) leaves the original, the guard and the clone exactly as they were. -/
theorem set_fail_noop (e : Env) (st : St) (op : WfModel.Ctx.Op)
    (h : (step e st op).2.isFailure = true) : (step e st op).1 = st := by
  cases op with
  | setField t sel i v =>
    simp only [step] at h ⊢
    cases ht : st.tgt t with
    | none => rfl
    | some c =>
      simp only [ht] at h ⊢
      cases hv : construct v with
      | error er => rfl
      | ok v' => simp only [hv] at h ⊢; exact setRes_fail _ _ _ h
  | setName t n v =>
    simp only [step] at h ⊢
    cases ht : st.tgt t with
    | none => rfl
    | some c =>
      simp only [ht] at h ⊢
      cases hv : construct v with
      | error er => rfl
      | ok v' => simp only [hv] at h ⊢; exact setRes_fail _ _ _ h
  | get t sel i =>
    simp only [step]
    cases st.tgt t with
    | none => rfl
    | some c => simp only []; split <;> rfl
  | clear t =>
    simp only [step] at h ⊢
    cases ht : st.tgt t with
    | none => rfl
    | some c => simp [ht, Res.isFailure] at h
  | clone => simp [step, Res.isFailure] at h
  | borrow =>
    simp only [step] at h ⊢
    cases hg : st.g with
    | some g => rfl
    | none => simp [hg, Res.isFailure] at h
  | drop =>
    simp only [step] at h ⊢
    cases hg : st.g with
    | none => rfl
    | some g => simp [hg, Res.isFailure] at h
  | take t =>
    simp only [step] at h ⊢
    cases ht : st.tgt t with
    | none => rfl
    | some c => simp [ht, Res.isFailure] at h
  | exec t sel =>
    simp only [step]
    cases st.tgt t with
    | none => rfl
    | some c => simp only []; split <;> rfl

/-- **Type invariant over all histories.** After any sequence of operations, every context
that exists (the one visible through the original or its guard, the clone, and the original
after the guard's scope ends) is bound to the scheme, has one slot per field, and every
stored value has exactly the field's declared type and is well-formed at every depth: no
history can make an ill-typed value visible to a compiled filter. -/
theorem ctx_typed_invariant (e : Env) (he : EnvOk e) (ops : List WfModel.Ctx.Op) :
    let st := (run e (St.init e) ops).1
    CtxOk e st.vis ∧ (∀ c, st.b = some c → CtxOk e c) ∧ CtxOk e (finish st).a := by
  intro st
  have hg : Good e st := (run_refines e he ops _ (good_init e)).1
  refine ⟨hg.vis, hg.b, ?_⟩
  unfold finish
  cases hgs : st.g with
  | none =>
    have : st.vis = st.a := by simp [St.vis, hgs]
    exact this ▸ hg.vis
  | some gn =>
    have : st.vis = gn := by simp [St.vis, hgs]
    have hok : CtxOk e gn := this ▸ hg.vis
    exact ⟨hg.a, hok.len, hok.typed⟩

/-- **Refinement.** For every history, the real contexts behave as the abstract typed field
map (`astep`): a partial map from field index to value per context, where a set succeeds
iff the field is the scheme's own and the value's type is the declared type, returns the
map's previous entry and overrides it (so a read returns the last successful set), clear
resets the map, clone copies it, and a guard is transparent. Every operation returns the
same result and the final states correspond. -/
theorem ctx_refines_map (e : Env) (he : EnvOk e) (ops : List WfModel.Ctx.Op) :
    arun e ⟨fun _ => none, none, false⟩ ops =
      (abs (run e (St.init e) ops).1, (run e (St.init e) ops).2) := by
  rw [← abs_init e]
  exact (run_refines e he ops _ (good_init e)).2

/-- **Clear empties every field** (and nothing else changes). -/
theorem clear_empties (c : Ctx) :
    c.clear.scheme = c.scheme ∧ c.clear.values.length = c.values.length ∧
    (∀ i, i < c.values.length → c.clear.values[i]? = some none) ∧
    absCtx c.clear = fun _ => none := by
  refine ⟨rfl, by simp [Ctx.clear], ?_, ?_⟩
  · intro i hi
    simp [Ctx.clear, List.getElem?_map, List.getElem?_eq_getElem hi]
  · funext i
    simp only [absCtx, Ctx.clear, List.getElem?_map]
    cases c.values[i]? <;> rfl

/-- **Clones are independent.** The clone starts as a copy of what the original shows; from
then on no operation on the clone changes what the original (or its guard) holds, and no
operation on the original, its guard included, changes the clone. -/
theorem clone_independent (e : Env) (st : St) (op : WfModel.Ctx.Op) :
    ((step e st WfModel.Ctx.Op.clone).1.b = some st.vis) ∧
    (op.writes = some Target.clone → (step e st op).1.vis = st.vis) ∧
    (op.writes ≠ some Target.clone → (step e st op).1.b = st.b) := by
  refine ⟨rfl, ?_, ?_⟩
  · intro hw
    cases op with
    | setField t sel i v =>
      simp only [Op.writes, Option.some.injEq] at hw; subst hw
      simp only [step]
      cases st.tgt .clone with
      | none => rfl
      | some c =>
        cases construct v with
        | error er => rfl
        | ok v' =>
          simp only []
          cases c.setByField ⟨e.pick sel, i⟩ v' with
          | error er => rfl
          | ok pc => rfl
    | setName t n v =>
      simp only [Op.writes, Option.some.injEq] at hw; subst hw
      simp only [step]
      cases st.tgt .clone with
      | none => rfl
      | some c =>
        cases construct v with
        | error er => rfl
        | ok v' =>
          simp only []
          cases c.setByName n v' with
          | error er => rfl
          | ok pc => rfl
    | clear t =>
      simp only [Op.writes, Option.some.injEq] at hw; subst hw
      simp only [step]
      cases st.tgt .clone <;> rfl
    | take t =>
      simp only [Op.writes, Option.some.injEq] at hw; subst hw
      simp only [step]
      cases st.tgt .clone <;> rfl
    | clone => rfl
    | get t sel i => simp [Op.writes] at hw
    | exec t sel => simp [Op.writes] at hw
    | borrow => simp [Op.writes] at hw
    | drop => simp [Op.writes] at hw
  · intro hw
    cases op with
    | setField t sel i v =>
      have ht : t = .orig := by cases t <;> simp_all [Op.writes]
      subst ht
      simp only [step, St.tgt]
      cases construct v with
      | error er => rfl
      | ok v' =>
        simp only []
        cases st.vis.setByField ⟨e.pick sel, i⟩ v' with
        | error er => rfl
        | ok pc => exact setVis_b st pc.2
    | setName t n v =>
      have ht : t = .orig := by cases t <;> simp_all [Op.writes]
      subst ht
      simp only [step, St.tgt]
      cases construct v with
      | error er => rfl
      | ok v' =>
        simp only []
        cases st.vis.setByName n v' with
        | error er => rfl
        | ok pc => exact setVis_b st pc.2
    | clear t =>
      have ht : t = .orig := by cases t <;> simp_all [Op.writes]
      subst ht
      exact setVis_b st _
    | take t =>
      have ht : t = .orig := by cases t <;> simp_all [Op.writes]
      subst ht
      exact setVis_b st _
    | clone => simp [Op.writes] at hw
    | get t sel i =>
      simp only [step]
      cases st.tgt t with
      | none => rfl
      | some c => simp only []; split <;> rfl
    | exec t sel =>
      simp only [step]
      cases st.tgt t with
      | none => rfl
      | some c => simp only []; split <;> rfl
    | borrow => simp only [step]; cases st.g <;> rfl
    | drop => simp only [step]; cases st.g <;> rfl

/-- **A temporary borrow writes through.** Dropping a guard puts the guard's final values
into the original (`borrow` then `drop` is the identity; in general the original ends with
whatever the guard held), and for every history the final original, the clone and the
result of every non-guard operation are the same as in the history with all `borrow_with` /
`drop` removed. -/
theorem guard_writes_through (e : Env) (he : EnvOk e) (ops : List WfModel.Ctx.Op) (c : Ctx) (g : Guard) :
    Guard.drop c.borrow = c ∧
    (g.drop.values = g.new.values ∧ g.drop.scheme = g.old.scheme) ∧
    (let r := run e (St.init e) ops
     let r' := run e (St.init e) (ops.filter fun o => !o.isGuardOp)
     absCtx (finish r'.1).a = absCtx (finish r.1).a ∧
     r'.1.b.map absCtx = r.1.b.map absCtx ∧
     r'.2 = nonGuardRes ops r.2) := by
  refine ⟨rfl, ⟨rfl, rfl⟩, ?_⟩
  intro r r'
  have h1 := (run_refines e he ops _ (good_init e)).2
  have h2 := (run_refines e he (ops.filter fun o => !o.isGuardOp) _ (good_init e)).2
  have hs := arun_strip e ops (abs (St.init e)) (abs (St.init e)).borrowed
  simp only [h1] at hs
  have hsame : ({ abs (St.init e) with borrowed := (abs (St.init e)).borrowed } : ASt) = abs (St.init e) := rfl
  rw [hsame, h2] at hs
  simp only [abs] at hs
  rw [absCtx_finish, absCtx_finish]
  exact hs

/-- **Execution is bound to the scheme.** A filter (or value expression) parsed with
another scheme is refused with a scheme mismatch and its evaluation is never run; with the
context's own scheme the evaluation runs on the context. -/
theorem execute_scheme_mismatch {α} (c : Ctx) (fs : Scheme.Scheme) (eval : Ctx → α) :
    (c.scheme.same fs = false → c.execute fs eval = none) ∧
    (c.scheme.same fs = true → c.execute fs eval = some (eval c)) := by
  constructor <;> intro h <;> simp [Ctx.execute, h]

/-- … in particular for a structurally identical scheme built separately. -/
theorem execute_twin_mismatch {α} (b : Builder) (k : Nat) (eval : Ctx → α) :
    (Ctx.new (build b k)).execute (build b (k + 1)) eval = none ∧
    ∀ v i, (Ctx.new (build b k)).setByField ⟨build b (k + 1), i⟩ v = .error .schemeMismatch := by
  constructor
  · simp [Ctx.execute, Ctx.new, Scheme.same, build]
  · intro v i; simp [Ctx.setByField, Ctx.new, Scheme.same, build]

/-! ### Non-vacuity: a concrete environment and history -/

private def demoBuilder : Builder :=
  (Builder.new.run [.addField "n".toList .int, .addField "a".toList (.array .bytes),
    .addOptionalField "m".toList (.map (.array .int))]).1

private def demoEnv : Env := { own := build demoBuilder 0, other := build demoBuilder 1 }

example : EnvOk demoEnv := by
  show demoEnv.own.same demoEnv.other = false
  decide

/-- set, ill-typed set (wrong element type), borrow, set through the guard, foreign
FieldRef, drop, get: the refused sets change nothing and the guard's write is visible. -/
example :
    (run demoEnv (St.init demoEnv)
      [.setField .orig .own 1 (.array .bytes [.bytes [97]]),
       .setField .orig .own 1 (.array .int [.int 1]),
       .setField .orig .own 1 (.array .bytes [.bytes [97], .int 1]),
       .borrow,
       .setField .orig .own 0 (.int 5),
       .setField .orig .other 0 (.int 6),
       .drop,
       .exec .orig .other]).2.map (fun r => match r with
        | .prev none => 0 | .prev (some _) => 1 | .errType => 2 | .errScheme => 3
        | .ctorErr => 4 | .done => 5 | _ => 9)
    = [0, 2, 4, 5, 0, 3, 5, 3] := by decide

example : construct (.map .int [([2], .int 1), ([1], .int 2), ([2], .int 3)]) =
    .ok (.map .int [([1], .int 2), ([2], .int 3)]) := by rfl

example : ∃ e, construct (.array (.array .bytes) [.array .bytes [.bytes []], .array .int []]) = .error e :=
  ⟨_, rfl⟩

end WfModel.C08
