import WfModel.Lemmas.RangeSet
import WfModel.Generated

/-!
# C09 — set membership `in {…}` is exact

Property theorems only. Model: `WfModel/Model/RangeSet.lean`
(`engine/src/range_set.rs`, `engine/src/ast/field_expr.rs` OneOf arm, `rhs_types/ip.rs`).
-/
namespace WfModel.C09
open WfModel.RangeSet

/-- The `dedup_by` pass leaves a list the binary search can be run on
(ascending, pairwise disjoint), for any start-sorted input. -/
theorem merge_sorted_disjoint (l : List Rng) (hs : SortedLo l) : Asc (dedup l) :=
  dedup_asc l hs

/-- … and it does not change which points are covered. -/
theorem merge_preserves_union (l : List Rng) (hs : SortedLo l) (x : Int) :
    Covers (dedup l) x ↔ Covers l x :=
  dedup_covers l hs x

/-- The halving search with `RangeSet::contains`' comparator decides coverage on any
ascending disjoint list. -/
theorem bsearch_exact (m : List Rng) (h : Asc m) (x : Int) :
    contains m x = true ↔ Covers m x :=
  bsearch_correct x m h

/-- **Main theorem.** Whatever start-sorted permutation `sort_unstable_by_key` produces
(it is unspecified among equal starts), `RangeSet::from` followed by `contains` is true
exactly when some listed range contains `x`: any length, order, duplicates, overlapping,
nested, touching or extreme ranges. -/
theorem inset_exact (l p : List Rng) (hp : p.Perm l) (hs : SortedLo p) (x : Int) :
    contains (dedup p) x = true ↔ ∃ r ∈ l, r.lo ≤ x ∧ x ≤ r.hi := by
  rw [bsearch_exact _ (dedup_asc p hs), dedup_covers p hs, covers_perm hp]
  rfl

/-- The executable model (`sortByLo` is one admissible sort) is an instance. -/
theorem inSetInt_exact (l : List Rng) (x : Int) :
    inSetInt l x = true ↔ ∃ r ∈ l, r.lo ≤ x ∧ x ≤ r.hi :=
  inset_exact l (sortByLo l) (sortByLo_perm l) (sortByLo_sorted l) x

theorem empty_list_false (x : Int) : inSetInt [] x = false := by
  have := inSetInt_exact [] x
  simp at this
  simpa using this

/-- A CIDR block, defined by prefix equality, is the interval first..=last that the engine
converts it to. -/
theorem cidr_as_range (f : Fam) (a n x : Nat) :
    x / 2 ^ (f.width - n) = a / 2 ^ (f.width - n) ↔
      cidrFirst f a n ≤ x ∧ x ≤ cidrLast f a n := by
  have hp : 0 < 2 ^ (f.width - n) := Nat.two_pow_pos _
  unfold cidrLast cidrFirst
  generalize 2 ^ (f.width - n) = p at hp ⊢
  have hdm := Nat.div_add_mod a p
  have hfirst : a - a % p = a / p * p := by
    rw [Nat.mul_comm]; omega
  rw [hfirst, Nat.div_eq_iff hp]
  omega

/-- An item as a range denotes the same set of addresses as the item. -/
theorem item_range (it : IpItem) (x : Nat) :
    it.Has it.fam x ↔ (it.toRng.lo ≤ (x : Int) ∧ (x : Int) ≤ it.toRng.hi) := by
  cases it with
  | explicit f lo hi => simp [IpItem.Has, IpItem.fam, IpItem.toRng]
  | cidr f a n =>
    simp only [IpItem.Has, IpItem.fam, IpItem.toRng, true_and]
    rw [cidr_as_range]
    omega

/-- **IP lists.** `x in {…}` holds exactly when some listed item of `x`'s own family
contains `x`; in particular an IPv4 address never belongs to an IPv6 item and vice versa. -/
theorem inSetIp_exact (items : List IpItem) (f : Fam) (x : Nat) :
    inSetIp items f x = true ↔ ∃ it ∈ items, it.Has f x := by
  unfold inSetIp
  rw [show contains (build _) (x : Int) = inSetInt _ (x : Int) from rfl, inSetInt_exact]
  constructor
  · rintro ⟨r, hr, hx⟩
    rcases List.mem_map.mp hr with ⟨it, hit, rfl⟩
    have hf := List.mem_filter.mp hit
    have hfam : it.fam = f := by simpa using hf.2
    refine ⟨it, hf.1, ?_⟩
    have := (item_range it x).mpr hx
    rwa [hfam] at this
  · rintro ⟨it, hit, hh⟩
    have hfam : it.fam = f := hh.1
    refine ⟨it.toRng, List.mem_map.mpr ⟨it, List.mem_filter.mpr ⟨hit, by simpa using hfam⟩, rfl⟩, ?_⟩
    apply (item_range it x).mp
    rwa [hfam]

theorem family_split (items : List IpItem) (f : Fam) (x : Nat)
    (h : ∀ it ∈ items, it.fam ≠ f) : inSetIp items f x = false := by
  have := inSetIp_exact items f x
  cases hb : inSetIp items f x with
  | false => rfl
  | true =>
    rcases this.mp hb with ⟨it, hit, hh⟩
    exact absurd hh.1 (h it hit)

theorem bytes_inset (items : List (List UInt8)) (x : List UInt8) :
    inSetBytes items x = true ↔ x ∈ items := by
  simp [inSetBytes]

/-- Translator tie: the comparison operators and `Ordering` results that `bin/extract.py`
reads out of `RangeSet::from` / `RangeSet::contains` are the ones `merge` and `bsearch`
are written with (`b.lo ≤ cur.hi`, `b.hi > cur.hi`; `m.lo > x ⇒ Greater` (go left),
`m.hi ≥ x ⇒ Equal`, else `Less`). -/
theorem source_shape :
    Generated.rangeSetShape = ["<=", ">", ">", "Greater", ">=", "Equal", "Less"] := by decide

/-! Non-vacuity: concrete lists meeting the hypotheses, with overlap, nesting, touching,
duplicates and the i64 extremes. -/
example : SortedLo (sortByLo [⟨5, 9⟩, ⟨1, 3⟩, ⟨2, 7⟩, ⟨4, 4⟩, ⟨1, 3⟩, ⟨10, 12⟩]) :=
  sortByLo_sorted _
example : inSetInt [⟨5, 9⟩, ⟨1, 3⟩, ⟨2, 7⟩, ⟨4, 4⟩, ⟨1, 3⟩, ⟨11, 12⟩] 10 = false :=
  Bool.eq_false_iff.mpr fun h => absurd ((inSetInt_exact _ _).mp h) (by decide)
example : inSetInt [⟨-9223372036854775808, 9223372036854775807⟩, ⟨3, 4⟩] 9223372036854775807 = true :=
  (inSetInt_exact _ _).mpr (by decide)
example : inSetIp [.cidr .v4 0x0A000000 8, .cidr .v6 0 0] .v4 0x0AFFFFFF = true :=
  (inSetIp_exact _ _ _).mpr ⟨_, List.mem_cons_self, rfl, by decide⟩
example : inSetIp [.cidr .v6 0 0] .v4 5 = false :=
  family_split _ _ _ (by decide)

end WfModel.C09
