import WfModel.Lemmas.RangeSet
import WfModel.Generated

/-!
# C09 — set membership `in {…}` is exact

Property theorems only. Model: `WfModel/Model/RangeSet.lean`
(`engine/src/range_set.rs`, `engine/src/ast/field_expr.rs` OneOf arm, `rhs_types/ip.rs`).
-/
namespace WfModel.C09
open WfModel.RangeSet

/-- The `dedup_by` pass leaves a list the binary search can be run on
(ascending, pairwise disjoint), for any start-sorted input. -/
theorem merge_sorted_disjoint (l : List Rng) (hs : SortedLo l) : Asc (dedup l) :=
  dedup_asc l hs

/-- … and it does not change which points are covered. -/
theorem merge_preserves_union (l : List Rng) (hs : SortedLo l) (x : Int) :
    Covers (dedup l) x ↔ Covers l x :=
  dedup_covers l hs x

/-- The halving search with `RangeSet::contains`' comparator decides coverage on any
ascending disjoint list. -/
theorem bsearch_exact (m : List Rng) (h : Asc m) (x : Int) :
    contains m x = true ↔ Covers m x :=
  bsearch_correct x m h

/-- **Main theorem.** Whatever start-sorted permutation `sort_unstable_by_key` produces
(it is unspecified among equal starts), `RangeSet::from` followed by `contains` is true
exactly when some listed range contains `x`: any length, order, duplicates, overlapping,
nested, touching or extreme ranges. -/
theorem inset_exact (l p : List Rng) (hp : p.Perm l) (hs : SortedLo p) (x : Int) :
    contains (dedup p) x = true ↔ ∃ r ∈ l, r.lo ≤ x ∧ x ≤ r.hi := by
  rw [bsearch_exact _ (dedup_asc p hs), dedup_covers p hs, covers_perm hp]
  rfl

/-- The executable model (`sortByLo` is one admissible sort) is an instance. -/
theorem inSetInt_exact (l : List Rng) (x : Int) :
    inSetInt l x = true ↔ ∃ r ∈ l, r.lo ≤ x ∧ x ≤ r.hi :=
  inset_exact l (sortByLo l) (sortByLo_perm l) (sortByLo_sorted l) x

theorem empty_list_false (x : Int) : inSetInt [] x = false := by
  have := inSetInt_exact [] x
  simp at this
  simpa using this

/-- A CIDR block, defined by prefix equality, is the interval first..=last that the engine
converts it to. -/
theorem cidr_as_range (f : Fam) (a n x : Nat) :
    x / 2 ^ (f.width - n) = a / 2 ^ (f.width - n) ↔
      cidrFirst f a n ≤ x ∧ x ≤ cidrLast f a n := by
  have hp : 0 < 2 ^ (f.width - n) := Nat.two_pow_pos _
  unfold cidrLast cidrFirst
  generalize 2 ^ (f.width - n) = p at hp ⊢
  have hdm := Nat.div_add_mod a p
  have hfirst : a - a % p = a / p * p := by
    rw [Nat.mul_comm]; omega
  rw [hfirst, Nat.div_eq_iff hp]
  omega

/-- An item as a range denotes the same set of addresses as the item. -/
theorem item_range (it : IpItem) (x : Nat) :
    it.Has it.fam x ↔ (it.toRng.lo ≤ (x : Int) ∧ (x : Int) ≤ it.toRng.hi) := by
  cases it with
  | explicit f lo hi => simp [IpItem.Has, IpItem.fam, IpItem.toRng]
  | cidr f a n =>
    simp only [IpItem.Has, IpItem.fam, IpItem.toRng, true_and]
    rw [cidr_as_range]
    omega

/-- **IP lists.** `x in {…}` holds exactly when some listed item of `x`'s own family
contains `x`; in particular an IPv4 address never belongs to an IPv6 item and vice versa. -/
theorem inSetIp_exact (items : List IpItem) (f : Fam) (x : Nat) :
    inSetIp items f x = true ↔ ∃ it ∈ items, it.Has f x := by
  unfold inSetIp
  rw [show contains (build _) (x : Int) = inSetInt _ (x : Int) from rfl, inSetInt_exact]
  constructor
  · rintro ⟨r, hr, hx⟩
    rcases List.mem_map.mp hr with ⟨it, hit, rfl⟩
    have hf := List.mem_filter.mp hit
    have hfam : it.fam = f := by simpa using hf.2
    refine ⟨it, hf.1, ?_⟩
    have := (item_range it x).mpr hx
    rwa [hfam] at this
  · rintro ⟨it, hit, hh⟩
    have hfam : it.fam = f := hh.1
    refine ⟨it.toRng, List.mem_map.mpr ⟨it, List.mem_filter.mpr ⟨hit, by simpa using hfam⟩, rfl⟩, ?_⟩
    apply (item_range it x).mp
    rwa [hfam]

theorem family_split (items : List IpItem) (f : Fam) (x : Nat)
    (h : ∀ it ∈ items, it.fam ≠ f) : inSetIp items f x = false := by
  have := inSetIp_exact items f x
  cases hb : inSetIp items f x with
  | false => rfl
  | true =>
    rcases this.mp hb with ⟨it, hit, hh⟩
    exact absurd hh.1 (h it hit)

theorem bytes_inset (items : List (List UInt8)) (x : List UInt8) :
    inSetBytes items x = true ↔ x ∈ items := by
  simp [inSetBytes]

/-! ### Algebraic laws of the brace list (all lengths, all orders)

Consequences of `inSetInt_exact` / `inSetIp_exact` that state, for *every* list, what the
normalisation (`sort`, `dedup_by`, binary search) must not change: the order of items, the
presence of duplicates or nested items, splitting a list in two, re-normalising an already
normalised set. -/

/-- **Order independence**: any reordering of the brace list gives the same answer. -/
theorem inSetInt_perm (l l' : List Rng) (h : l.Perm l') (x : Int) :
    inSetInt l x = inSetInt l' x := by
  apply Bool.eq_iff_iff.mpr
  rw [inSetInt_exact, inSetInt_exact]
  exact ⟨fun ⟨r, hr, hx⟩ => ⟨r, h.mem_iff.mp hr, hx⟩, fun ⟨r, hr, hx⟩ => ⟨r, h.mem_iff.mpr hr, hx⟩⟩

/-- **Union**: a list is the disjunction of its parts, whatever merging happens across the
seam (overlapping, touching, nested ranges). -/
theorem inSetInt_append (l₁ l₂ : List Rng) (x : Int) :
    inSetInt (l₁ ++ l₂) x = (inSetInt l₁ x || inSetInt l₂ x) := by
  apply Bool.eq_iff_iff.mpr
  rw [Bool.or_eq_true, inSetInt_exact, inSetInt_exact, inSetInt_exact]
  constructor
  · rintro ⟨r, hr, hx⟩
    rcases List.mem_append.mp hr with h | h
    · exact Or.inl ⟨r, h, hx⟩
    · exact Or.inr ⟨r, h, hx⟩
  · rintro (⟨r, hr, hx⟩ | ⟨r, hr, hx⟩)
    · exact ⟨r, List.mem_append.mpr (Or.inl hr), hx⟩
    · exact ⟨r, List.mem_append.mpr (Or.inr hr), hx⟩

/-- one more item: its own interval, or the rest of the list -/
theorem inSetInt_cons (r : Rng) (l : List Rng) (x : Int) :
    inSetInt (r :: l) x = (decide (r.lo ≤ x ∧ x ≤ r.hi) || inSetInt l x) := by
  apply Bool.eq_iff_iff.mpr
  rw [Bool.or_eq_true, inSetInt_exact, inSetInt_exact, decide_eq_true_iff]
  constructor
  · rintro ⟨q, hq, hx⟩
    rcases List.mem_cons.mp hq with rfl | h
    · exact Or.inl hx
    · exact Or.inr ⟨q, h, hx⟩
  · rintro (hx | ⟨q, hq, hx⟩)
    · exact ⟨r, List.mem_cons_self, hx⟩
    · exact ⟨q, List.mem_cons_of_mem _ hq, hx⟩

/-- a single value or single range -/
theorem inSetInt_single (r : Rng) (x : Int) :
    inSetInt [r] x = decide (r.lo ≤ x ∧ x ≤ r.hi) := by
  rw [inSetInt_cons, empty_list_false, Bool.or_false]

/-- **Duplicates and nested items are absorbed**: an item contained in a listed item
changes nothing. -/
theorem inSetInt_absorb (l : List Rng) (r r' : Rng) (hr : r ∈ l)
    (hsub : r.lo ≤ r'.lo ∧ r'.hi ≤ r.hi) (x : Int) :
    inSetInt (r' :: l) x = inSetInt l x := by
  rw [inSetInt_cons]
  cases hd : decide (r'.lo ≤ x ∧ x ≤ r'.hi) with
  | false => simp
  | true =>
    have hx := of_decide_eq_true hd
    have : inSetInt l x = true := (inSetInt_exact l x).mpr ⟨r, hr, by omega, by omega⟩
    simp [this]

theorem inSetInt_dup (l : List Rng) (r : Rng) (hr : r ∈ l) (x : Int) :
    inSetInt (r :: l) x = inSetInt l x :=
  inSetInt_absorb l r r hr ⟨Int.le_refl _, Int.le_refl _⟩ x

/-- **Monotone**: adding items never removes a member. -/
theorem inSetInt_mono (l l' : List Rng) (hsub : ∀ r ∈ l, r ∈ l') (x : Int)
    (h : inSetInt l x = true) : inSetInt l' x = true := by
  rcases (inSetInt_exact l x).mp h with ⟨r, hr, hx⟩
  exact (inSetInt_exact l' x).mpr ⟨r, hsub r hr, hx⟩

/-- **Touching ranges** `a..b` and `b+1..c` behave as `a..c`, in either order. -/
theorem inSetInt_touching (a b c x : Int) (hab : a ≤ b) (hbc : b + 1 ≤ c) :
    inSetInt [⟨b + 1, c⟩, ⟨a, b⟩] x = decide (a ≤ x ∧ x ≤ c) := by
  rw [inSetInt_cons, inSetInt_single]
  apply Bool.eq_iff_iff.mpr
  simp only [Bool.or_eq_true, decide_eq_true_iff]
  omega

/-- **Re-normalising is a no-op**: the merged set, fed back as a list, denotes the same
set (`RangeSet::from` is idempotent up to membership). -/
theorem inSetInt_build_idem (l : List Rng) (x : Int) :
    inSetInt (build l) x = inSetInt l x := by
  apply Bool.eq_iff_iff.mpr
  rw [inSetInt_exact, inSetInt_exact]
  have h1 : Covers (build l) x ↔ Covers l x := by
    unfold build
    rw [dedup_covers _ (sortByLo_sorted l), covers_perm (sortByLo_perm l)]
  exact h1

/-- the full range covers every `i64` (and the answer does not depend on what else is
listed) -/
theorem inSetInt_full (l : List Rng) (x : Int)
    (hx : -9223372036854775808 ≤ x ∧ x ≤ 9223372036854775807) :
    inSetInt (⟨-9223372036854775808, 9223372036854775807⟩ :: l) x = true := by
  rw [inSetInt_cons]
  simp [hx.1, hx.2]

/-- IP lists: order independence. -/
theorem inSetIp_perm (l l' : List IpItem) (h : l.Perm l') (f : Fam) (x : Nat) :
    inSetIp l f x = inSetIp l' f x := by
  apply Bool.eq_iff_iff.mpr
  rw [inSetIp_exact, inSetIp_exact]
  exact ⟨fun ⟨r, hr, hx⟩ => ⟨r, h.mem_iff.mp hr, hx⟩, fun ⟨r, hr, hx⟩ => ⟨r, h.mem_iff.mpr hr, hx⟩⟩

/-- IP lists: union, including across families (a mixed list is the union of its IPv4 part
and its IPv6 part). -/
theorem inSetIp_append (l₁ l₂ : List IpItem) (f : Fam) (x : Nat) :
    inSetIp (l₁ ++ l₂) f x = (inSetIp l₁ f x || inSetIp l₂ f x) := by
  apply Bool.eq_iff_iff.mpr
  rw [Bool.or_eq_true, inSetIp_exact, inSetIp_exact, inSetIp_exact]
  constructor
  · rintro ⟨r, hr, hx⟩
    rcases List.mem_append.mp hr with h | h
    · exact Or.inl ⟨r, h, hx⟩
    · exact Or.inr ⟨r, h, hx⟩
  · rintro (⟨r, hr, hx⟩ | ⟨r, hr, hx⟩)
    · exact ⟨r, List.mem_append.mpr (Or.inl hr), hx⟩
    · exact ⟨r, List.mem_append.mpr (Or.inr hr), hx⟩

/-- items of the other family can be dropped from the list without changing the answer -/
theorem inSetIp_filter_family (l : List IpItem) (f : Fam) (x : Nat) :
    inSetIp (l.filter (fun it => it.fam = f)) f x = inSetIp l f x := by
  apply Bool.eq_iff_iff.mpr
  rw [inSetIp_exact, inSetIp_exact]
  constructor
  · rintro ⟨it, hit, hh⟩
    exact ⟨it, (List.mem_filter.mp hit).1, hh⟩
  · rintro ⟨it, hit, hh⟩
    exact ⟨it, List.mem_filter.mpr ⟨hit, by simpa using hh.1⟩, hh⟩

/-- **`0.0.0.0/0` and `::/0`** contain every address of their family, for any base
address written before the slash, and none of the other family. -/
theorem inSetIp_slash_zero (l : List IpItem) (f : Fam) (a x : Nat)
    (ha : a < 2 ^ f.width) (hx : x < 2 ^ f.width) :
    inSetIp (.cidr f a 0 :: l) f x = true := by
  rw [inSetIp_exact]
  refine ⟨_, List.mem_cons_self, rfl, ?_⟩
  show x / 2 ^ (f.width - 0) = a / 2 ^ (f.width - 0)
  rw [Nat.sub_zero, Nat.div_eq_of_lt hx, Nat.div_eq_of_lt ha]

/-- a full-length prefix (`/32`, `/128`) is the single address -/
theorem inSetIp_host (f : Fam) (a x : Nat) :
    inSetIp [.cidr f a f.width] f x = decide (x = a) := by
  apply Bool.eq_iff_iff.mpr
  rw [inSetIp_exact, decide_eq_true_iff]
  constructor
  · rintro ⟨it, hit, hh⟩
    rcases List.mem_singleton.mp hit with rfl
    have := hh.2
    simpa [Nat.sub_self] using this
  · rintro rfl
    exact ⟨_, List.mem_cons_self, rfl, rfl⟩

/-- byte-string sets: order, duplicates and shared prefixes are irrelevant -/
theorem bytes_inset_perm (l l' : List (List UInt8)) (h : l.Perm l') (x : List UInt8) :
    inSetBytes l x = inSetBytes l' x := by
  apply Bool.eq_iff_iff.mpr
  rw [bytes_inset, bytes_inset]
  exact h.mem_iff

theorem bytes_inset_prefix_distinct (p s : List UInt8) (hs : s ≠ []) :
    inSetBytes [p ++ s] p = false := by
  apply Bool.eq_false_iff.mpr
  intro h
  have := List.mem_singleton.mp ((bytes_inset _ _).mp h)
  have hl := congrArg List.length this
  simp at hl
  exact hs hl

/-- Translator tie: the comparison operators and `Ordering` results that `bin/extract.py`
reads out of `RangeSet::from` / `RangeSet::contains` are the ones `merge` and `bsearch`
are written with (`b.lo ≤ cur.hi`, `b.hi > cur.hi`; `m.lo > x ⇒ Greater` (go left),
`m.hi ≥ x ⇒ Equal`, else `Less`). -/
theorem source_shape :
    Generated.rangeSetShape = ["<=", ">", ">", "Greater", ">=", "Equal", "Less"] := by decide

/-! Non-vacuity: concrete lists meeting the hypotheses, with overlap, nesting, touching,
duplicates and the i64 extremes. -/
example : SortedLo (sortByLo [⟨5, 9⟩, ⟨1, 3⟩, ⟨2, 7⟩, ⟨4, 4⟩, ⟨1, 3⟩, ⟨10, 12⟩]) :=
  sortByLo_sorted _
example : inSetInt [⟨5, 9⟩, ⟨1, 3⟩, ⟨2, 7⟩, ⟨4, 4⟩, ⟨1, 3⟩, ⟨11, 12⟩] 10 = false :=
  Bool.eq_false_iff.mpr fun h => absurd ((inSetInt_exact _ _).mp h) (by decide)
example : inSetInt [⟨-9223372036854775808, 9223372036854775807⟩, ⟨3, 4⟩] 9223372036854775807 = true :=
  (inSetInt_exact _ _).mpr (by decide)
example : inSetIp [.cidr .v4 0x0A000000 8, .cidr .v6 0 0] .v4 0x0AFFFFFF = true :=
  (inSetIp_exact _ _ _).mpr ⟨_, List.mem_cons_self, rfl, by decide⟩
example : inSetIp [.cidr .v6 0 0] .v4 5 = false :=
  family_split _ _ _ (by decide)

end WfModel.C09
