import WfModel.Lemmas.CApi
import WfModel.Generated

/-!
# C20 — the C API reports failures via status and last-error

Property theorems only. Model: `WfModel/Model/CApi.lean` (`ffi/src/cstring.rs`,
`ffi/src/lib.rs`). Agreement of the C API with the Rust API on the same engine (same parse
outcome and error text, JSON, hash, match, uses) is checked by the `capi` correspondence
stream, not here; the theorems cover the part of the property that is the C layer's own
logic: the error string, the status mapping and its thread-locality.
-/
namespace WfModel.C20
open WfModel.CApi

/-! ## the constants the model uses are the ones in the source -/

/-- `SUBSTITUTE_BYTE`, the `Status` discriminants, `MatchingResult::{ERROR,PANIC}`,
`UsingResult::{ERROR,PANIC}`, the status in every wrapper's panic arm, and the list of wrappers
that end in `.is_ok()` — as extracted from `/repo` on this run — are what the model says.
(`UsingResult::PANIC` carrying `Error` is note F8, see `Wrapper.panicStatus`.) -/
theorem generated_pins :
    Generated.substituteByte = substByte.toNat ∧
    Generated.statusDiscriminants =
      [Status.success, Status.error, Status.panic].map (fun s => (s.name, s.toNat)) ∧
    Generated.matchingResultError = (Status.error.name, false) ∧
    Generated.matchingResultPanic = (Status.panic.name, false) ∧
    Generated.usingResultError = (Status.error.name, false) ∧
    Generated.usingResultPanic = (Wrapper.uses.panicStatus.name, false) ∧
    Generated.panicArmStatus =
      [Wrapper.parse, .compile, .match_, .uses, .usesList].map
        (fun w => (w.cName, w.panicStatus.name)) ∧
    Generated.utf8ArmStatus =
      [(Wrapper.parse.cName, Status.error.name), (Wrapper.uses.cName, Status.error.name),
       (Wrapper.usesList.cName, Status.error.name)] ∧
    Generated.silentBoolWrappers = [] := by
  decide

/-! ## the error string -/

/-- **Invariant of `LAST_ERROR`.** After any history of writes (any bytes, NULs included),
clears and `write_last_error!` calls, the vector is empty (→ `wirefilter_get_last_error()`
returns NULL) or ends in NUL and has no NUL before that. -/
theorem cstr_invariant (h : List COp) :
    let b := ((⟨[]⟩ : CStr).run h).buf
    b = [] ∨ (b.getLast? = some 0 ∧ (0 : UInt8) ∉ b.dropLast) :=
  CStr.run_wf h ⟨[]⟩ (Or.inl rfl)

/-- … and it is preserved from any well-formed starting point (induction step). -/
theorem cstr_invariant_step (c : CStr) (op : COp) (h : WellFormed c.buf) :
    WellFormed (c.apply op).buf :=
  CStr.apply_wf c op h

/-- **Content.** The pointer is NULL iff nothing was written since the last clear; otherwise
the string is the concatenation of the writes since the last clear with every NUL replaced by
0x1a, followed by the terminator — and that is also exactly what a C caller reading up to the
first NUL sees. -/
theorem cstr_content (h : List COp) :
    ((⟨[]⟩ : CStr).run h).cView = specContent h ∧
    ((⟨[]⟩ : CStr).run h).buf =
      match specContent h with
      | none => []
      | some s => s ++ [0] := by
  have hb : ((⟨[]⟩ : CStr).run h).buf = bufOf (writesSinceClear h) := by
    rw [run_expand]
    exact run_prim (expand h) (expand_prim h)
  have h2 : ((⟨[]⟩ : CStr).run h).buf =
      match specContent h with
      | none => []
      | some s => s ++ [0] := by
    rw [hb]
    unfold bufOf specContent
    split <;> rfl
  refine ⟨?_, h2⟩
  cases hs : specContent h with
  | none =>
    rw [hs] at h2
    simp [CStr.cView, CStr.asPtr, h2]
  | some s =>
    rw [hs] at h2
    have hwf := cstr_invariant h
    have hne : ((⟨[]⟩ : CStr).run h).buf ≠ [] := by rw [h2]; simp
    rw [cView_of_wf _ hwf hne]
    simp [CStr.content, h2]

example :
    ((⟨[]⟩ : CStr).run [.write [65, 0], .clear, .setError [[66, 0, 67], []], .write [0]]).buf
      = [66, 0x1a, 67, 0x1a, 0] := by
  decide

/-- `write!` hands the text to `append` piece by piece (empty pieces never arrive); how the
text is cut into pieces does not matter. -/
theorem write_chunks_irrelevant (c : CStr) (chunks : List (List UInt8)) :
    c.apply (.setError chunks) = c.apply (.setError [chunks.flatten]) := by
  simp only [CStr.apply]
  by_cases hne : nonEmpty chunks = []
  · have hf : chunks.flatten = [] := by rw [← flatten_nonEmpty, hne]; rfl
    have h2 : nonEmpty [chunks.flatten] = [] := by simp [nonEmpty, hf]
    rw [hne, h2]
  · rw [CStr.foldl_append_flat _ _ hne, flatten_nonEmpty]
    cases hf : chunks.flatten with
    | nil =>
      exfalso
      apply hne
      have : (nonEmpty chunks).flatten = [] := by rw [flatten_nonEmpty, hf]
      cases hc : nonEmpty chunks with
      | nil => rfl
      | cons a rest =>
        have ha : a ∈ nonEmpty chunks := by rw [hc]; simp
        have hane : a ≠ [] := by
          have := (List.mem_filter.mp ha).2
          intro e; simp [e] at this
        rw [hc] at this
        simp at this
        exact absurd this.1 hane
    | cons x t => simp [nonEmpty]

/-! ## the status mapping -/

/-- **Total.** Every outcome a wrapper can have is mapped; `wrap` declines (`none`) exactly the
combinations the wrapper has no layer for (e.g. a UTF-8 error in `wirefilter_match`). -/
theorem status_mapping_total (w : Wrapper) (o : Nested) :
    (w.admits o = true → ∃ r, wrap w o = some r) ∧ (w.admits o = false → wrap w o = none) := by
  unfold wrap
  cases h : w.admits o <;> simp

/-- **UTF-8 failure ⇒ Error / false, last-error := the UTF-8 error text.** -/
theorem status_mapping_utf8 (w : Wrapper) (m : Msg) (h : w.hasUtf8 = true) :
    wrap w (.error m) = some (w.fail .error, .set m) ∧
      (w.fail .error = .bool false ∨ w.fail .error = .status .error false) := by
  constructor
  · simp [wrap, Wrapper.admits, h]
  · unfold Wrapper.fail; split <;> simp

/-- **Engine error ⇒ Error / false, last-error := the error's `Display` text** — for every
wrapper that reports the error at all. -/
theorem status_mapping_err (w : Wrapper) (m : Msg) (h : w.fallible = true)
    (hs : w.silentOnErr = false) :
    wrap w (.ok (.ok (.error m))) = some (w.fail .error, .set m) := by
  simp [wrap, Wrapper.admits, h, hs]

/-- No wrapper drops an engine error silently: every fallible call that fails writes the
error's text to last-error (the `.is_ok()` setters were repaired in /repo). -/
theorem no_silent_setters (w : Wrapper) : w.silentOnErr = false := by
  cases w <;> rfl

/-- **Panic ⇒ Panic status for parse, compile and match** (and `uses_list`), never a success
and never unwinding (the outcome is a value), last-error := the catcher's text. For
`wirefilter_filter_uses` the code returns `UsingResult::PANIC`, whose status is `Error` (F8). -/
theorem status_mapping_panic (m : Msg) :
    wrap .parse (.ok (.error m)) = some (.status .panic false, .set m) ∧
    wrap .compile (.ok (.error m)) = some (.status .panic false, .set m) ∧
    wrap .match_ (.ok (.error m)) = some (.status .panic false, .set m) ∧
    wrap .usesList (.ok (.error m)) = some (.status .panic false, .set m) ∧
    wrap .uses (.ok (.error m)) = some (.status .error false, .set m) := by
  simp [wrap, Wrapper.admits, Wrapper.catches, Wrapper.fail, Wrapper.returnsBool,
    Wrapper.panicStatus]

/-- **Success leaves last-error untouched** and reports Success / true (with the computed
`matched` / `used`). -/
theorem status_mapping_ok (w : Wrapper) (b : Bool) :
    wrap w (.ok (.ok (.ok b))) = some (w.ok b, .untouched) ∧
      (w.ok b = .bool true ∨ ∃ f, w.ok b = .status .success f) := by
  constructor
  · simp [wrap, Wrapper.admits]
  · cases w <;> simp [Wrapper.ok, Wrapper.returnsBool]

/-- **No failure is reported as success**, and apart from the `.is_ok()` setters every failure
sets last-error. -/
theorem failure_is_reported (w : Wrapper) (o : Nested) (r : Ret) (e : LeEffect)
    (h : wrap w o = some (r, e)) (hf : ∀ b, o ≠ .ok (.ok (.ok b))) :
    (r = .bool false ∨ ∃ s, s ≠ Status.success ∧ r = .status s false) ∧
      (w.silentOnErr = false → ∃ m, e = .set m) := by
  unfold wrap at h
  split at h
  · cases o with
    | error m =>
      simp only [Option.some.injEq, Prod.mk.injEq] at h
      obtain ⟨rfl, rfl⟩ := h
      refine ⟨?_, fun _ => ⟨m, rfl⟩⟩
      unfold Wrapper.fail; split <;> simp
    | ok o1 =>
      cases o1 with
      | error m =>
        simp only [Option.some.injEq, Prod.mk.injEq] at h
        obtain ⟨rfl, rfl⟩ := h
        refine ⟨?_, fun _ => ⟨m, rfl⟩⟩
        unfold Wrapper.fail
        split
        · simp
        · right; exact ⟨w.panicStatus, by cases w <;> simp [Wrapper.panicStatus], rfl⟩
      | ok o2 =>
        cases o2 with
        | error m =>
          simp only [Option.some.injEq, Prod.mk.injEq] at h
          obtain ⟨rfl, rfl⟩ := h
          refine ⟨?_, fun hs => ⟨m, by simp [hs]⟩⟩
          unfold Wrapper.fail; split <;> simp
        | ok b => exact absurd rfl (hf b)
  · cases h

/-- The effect `set m` makes the C caller see exactly `m` with NULs replaced, whatever was
there before; `untouched` changes nothing. (`m ≠ []`: an *empty* error text would leave the
pointer NULL — `write_all` never calls `write` for it; no `Display` involved is empty.) -/
theorem effect_content (c : CStr) (m : Msg) (hm : m ≠ []) :
    (c.run (LeEffect.set m).op).cView = some (m.map subst) ∧
    c.run LeEffect.untouched.op = c := by
  constructor
  · have hb : (c.run (LeEffect.set m).op).buf = m.map subst ++ [0] := by
      cases m with
      | nil => exact absurd rfl hm
      | cons x t => simp [LeEffect.op, CStr.run, CStr.apply, CStr.clear, CStr.append, nonEmpty]
    have hwf : WellFormed (c.run (LeEffect.set m).op).buf := by
      rw [hb]; right
      refine ⟨by simp, ?_⟩
      rw [List.dropLast_concat]
      exact zero_not_mem_map_subst m
    rw [cView_of_wf _ hwf (by rw [hb]; simp)]
    simp [CStr.content, hb]
  · rfl

/-! ## last-error belongs to the calling thread -/

/-- **Thread-locality.** For any number of threads and any interleaving of their calls, the
last-error string of thread `j` is what `j`'s own calls (in order) produce; calls of other
threads — failing, succeeding or clearing — do not touch it. -/
theorem last_error_thread_local (y : LeSys) (σ : List (Nat × COp)) (j : Nat) :
    (y.run σ)[j]? = (y[j]?).map (fun c => c.run (opsOf j σ)) :=
  LeSys.run_frame σ y j

example :
    (LeSys.run [⟨[]⟩, ⟨[]⟩] [(0, .setError [[65]]), (1, .setError [[66, 0]]), (0, .clear)])
      = [⟨[]⟩, ⟨[66, 0x1a, 0]⟩] := by
  decide

/-! ## the hash -/

/-- FNV-1a test vectors (the empty input and "a"), so that the constants are the standard
ones; `wirefilter_get_filter_hash` = `fnv1a64 (json bytes)` is checked by correspondence. -/
theorem fnv_vectors :
    fnv1a64 [] = 0xcbf29ce484222325 ∧ fnv1a64 [0x61] = 0xaf63dc4c8601ec8c := by
  decide


end WfModel.C20
