/-
Shared helpers for the line-protocol driver (import-free).
-/
namespace WfModel

def hexDigitVal (c : Char) : Option Nat :=
  if '0' ≤ c ∧ c ≤ '9' then some (c.toNat - '0'.toNat)
  else if 'a' ≤ c ∧ c ≤ 'f' then some (c.toNat - 'a'.toNat + 10)
  else if 'A' ≤ c ∧ c ≤ 'F' then some (c.toNat - 'A'.toNat + 10)
  else none

def hexDecodeChars : List Char → Option (List UInt8)
  | [] => some []
  | [_] => none
  | a :: b :: rest => do
    let x ← hexDigitVal a
    let y ← hexDigitVal b
    let r ← hexDecodeChars rest
    pure (UInt8.ofNat (x * 16 + y) :: r)

/-- Decode a hex payload; `-` stands for the empty payload. -/
def hexDecode (s : String) : Option (List UInt8) :=
  if s == "-" then some [] else hexDecodeChars s.toList

def hexNibble (n : Nat) : Char :=
  if n < 10 then Char.ofNat ('0'.toNat + n) else Char.ofNat ('a'.toNat + (n - 10))

def hexEncode (bs : List UInt8) : String :=
  if bs.isEmpty then "-" else
  String.ofList (bs.flatMap fun b => [hexNibble (b.toNat / 16), hexNibble (b.toNat % 16)])

def boolStr (b : Bool) : String := if b then "true" else "false"

/-- split on a separator character, keeping empty pieces -/
def splitOnChar (s : String) (c : Char) : List String :=
  (s.splitOn (String.singleton c))

def parseInt? (s : String) : Option Int := s.toInt?
def parseNat? (s : String) : Option Nat := s.toNat?

/-- `Option`-valued `mapM` for lists (core's works, this is for readability). -/
def allSome {α} : List (Option α) → Option (List α)
  | [] => some []
  | none :: _ => none
  | some a :: rest => (allSome rest).map (a :: ·)

end WfModel
