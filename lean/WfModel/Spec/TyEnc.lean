import WfModel.Model.TyEnc
/-!
Declarative specifications for C15, in the words of the property: what it means for a JSON
tree to *describe* a type, and for a scheme document to *give* a field list.  The theorems
of `Props/C15.lean` (`json_exact`, `scheme_exact`) state that the executable deserializers
accept exactly these and return exactly what is described.
-/
namespace WfModel.TyEnc
open WfModel

/-- Declarative reading of the derived serde form of `Type`: `j` is a descriptor of `t`.
A primitive is its variant name (`"Int"`) or the single-entry object `{"Int": null}`; a
container is a single-entry object `{"Array": d}` / `{"Map": d}` around a descriptor of its
element type. -/
inductive Describes : J → Ty → Prop
  | unit (p : Prim) : Describes (.str p.name) p.toTy
  | unitObj (p : Prim) : Describes (.obj [(p.name, .null)]) p.toTy
  | layer (l : Layer) (j : J) (t : Ty) : Describes j t → Describes (.obj [(l.name, j)]) (l.wrap t)

/-- Relation between a document entry `name: body` and the field it produces: same name,
and the body deserializes (as `SerdeField`) to the field's type and optionality. -/
def EntryGives (kv : String × J) (f : Field) : Prop :=
  f.name = kv.1 ∧ fieldOfJ kv.2 = .ok (f.ty, f.optional)

/-- pointwise `EntryGives` along a document and a field list (same length, same order) -/
inductive EntriesGive : List (String × J) → List Field → Prop
  | nil : EntriesGive [] []
  | cons {kv f kvs fs} : EntryGives kv f → EntriesGive kvs fs → EntriesGive (kv :: kvs) (f :: fs)

end WfModel.TyEnc
