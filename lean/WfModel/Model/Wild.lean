/-
Model of the `wildcard` / `strict wildcard` operators:
`engine/src/rhs_types/wildcard.rs` (`Wildcard::<STRICT>::new`, `validate_wildcard`,
`has_double_star`), the operator wiring in `engine/src/ast/field_expr.rs:99-104,379-386`
(`wildcard` ⇒ `Wildcard<false>` ⇒ `case_insensitive(true)`; `strict wildcard` ⇒
`Wildcard<true>` ⇒ `case_insensitive(false)`), and the `wildcard` crate 0.3.0 as configured
by `WildcardBuilder::from_owned(..).without_one_metasymbol().case_insensitive(!STRICT)`:
`validate_syntax` + `Wildcard::parsed` (parser) and the contract of `is_match` (a reference
matcher; the crate's backtracking loop itself is third party and only sampled).

Import-free (core Lean only) so that the driver links as a `lean_exe`.
-/
namespace WfModel.Wild

abbrev Bytes := List UInt8

/-- `*` -/
def cStar : UInt8 := 0x2a
/-- `\` -/
def cEsc : UInt8 := 0x5c
/-- `?` (an ordinary symbol: `without_one_metasymbol()`) -/
def cQuestion : UInt8 := 0x3f

/-- `wildcard::WildcardToken` with `MetasymbolOne` disabled. -/
inductive Tok
  | star
  | lit (b : UInt8)
deriving Repr, DecidableEq, Inhabited

/-- Why a pattern is rejected, in the order the Rust code checks. -/
inductive Reject
  /-- `wildcard::WildcardError::Syntax { message: "invalid escape sequence" }` -/
  | invalidEscape
  /-- `… "incomplete escape sequence at the end of the wildcard"` -/
  | incompleteEscape
  /-- `WildcardError::TooManyStarMetacharacters` -/
  | tooManyStars
  /-- `WildcardError::DoubleStar` -/
  | doubleStar
deriving Repr, DecidableEq, Inhabited

/-- `validate_syntax` followed by `parsed()`: after the escape symbol only `*` and `\` may
follow (`?` may not: `metasymbol_one = None`); an unescaped `*` is the metasymbol; every other
byte, `?` included, is a literal. -/
def parse : Bytes → Except Reject (List Tok)
  | [] => .ok []
  | [c] =>
    if c = cEsc then .error .incompleteEscape
    else if c = cStar then .ok [.star]
    else .ok [.lit c]
  | c :: d :: rest =>
    if c = cEsc then
      if d = cStar ∨ d = cEsc then (parse rest).map (Tok.lit d :: ·)
      else .error .invalidEscape
    else if c = cStar then (parse (d :: rest)).map (Tok.star :: ·)
    else (parse (d :: rest)).map (Tok.lit c :: ·)

/-- `Wildcard::metasymbol_count()`. -/
def starCount : List Tok → Nat
  | [] => 0
  | .star :: ts => starCount ts + 1
  | .lit _ :: ts => starCount ts

/-- `has_double_star`: two adjacent `MetasymbolAny` tokens (an escaped `\*` between two
stars separates them). -/
def hasDoubleStar : List Tok → Bool
  | .star :: .star :: _ => true
  | _ :: ts => hasDoubleStar ts
  | [] => false

/-- `Wildcard::new(pattern, wildcard_star_limit)`: the crate's syntax check first, then
the star limit, then the double-star check. -/
def accept (limit : Nat) (pattern : Bytes) : Except Reject (List Tok) :=
  match parse pattern with
  | .error e => .error e
  | .ok toks =>
    if starCount toks > limit then .error .tooManyStars
    else if hasDoubleStar toks then .error .doubleStar
    else .ok toks

/-- `u8::to_ascii_lowercase`. -/
def lower (b : UInt8) : UInt8 := if 0x41 ≤ b ∧ b ≤ 0x5a then b + 0x20 else b

/-- Symbol comparison: `u8::eq_ignore_ascii_case` when case-insensitive, `==` otherwise. -/
def eqByte (ci : Bool) (a b : UInt8) : Bool :=
  if ci then lower a == lower b else a == b

/-- `f` holds for some suffix of the value (what a `*` leaves over). -/
def starAny (f : Bytes → Bool) : Bytes → Bool
  | [] => f []
  | b :: v => f (b :: v) || starAny f v

/-- Reference matcher (contract of `wildcard::Wildcard::is_match`): the whole value must be
consumed; `*` takes any byte sequence; a literal takes one equal (up to folding) byte. -/
def matchToks (ci : Bool) : List Tok → Bytes → Bool
  | [], v => v.isEmpty
  | .lit c :: ts, v =>
    match v with
    | [] => false
    | b :: v' => eqByte ci c b && matchToks ci ts v'
  | .star :: ts, v => starAny (matchToks ci ts) v

/-- The operator as the engine wires it: `strict = false` is the `wildcard` operator
(`Wildcard<false>`, case-insensitive), `strict = true` is `strict wildcard`. -/
def caseInsensitive (strict : Bool) : Bool := !strict

/-- `value wildcard pattern` / `value strict wildcard pattern` with the parser's star limit:
`error` = rejected at parse time, `ok b` = result of executing the filter. -/
def wildcardOp (strict : Bool) (limit : Nat) (pattern value : Bytes) : Except Reject Bool :=
  (accept limit pattern).map (fun toks => matchToks (caseInsensitive strict) toks value)

/-- Pattern text of a token list (escaping `*` and `\`). -/
def render : List Tok → Bytes
  | [] => []
  | .star :: ts => cStar :: render ts
  | .lit c :: ts => if c = cStar ∨ c = cEsc then cEsc :: c :: render ts else c :: render ts

/-! ### String literal forms (driver side only; the laws about them belong to C06)

`lex_quoted_or_raw_string` of `rhs_types/bytes.rs` on ASCII source text, as bytes. -/

def hexVal (c : UInt8) : Option Nat :=
  if 0x30 ≤ c ∧ c ≤ 0x39 then some (c.toNat - 0x30)
  else if 0x61 ≤ c ∧ c ≤ 0x66 then some (c.toNat - 0x61 + 10)
  else if 0x41 ≤ c ∧ c ≤ 0x46 then some (c.toNat - 0x41 + 10)
  else none

def octVal (c : UInt8) : Option Nat :=
  if 0x30 ≤ c ∧ c ≤ 0x37 then some (c.toNat - 0x30) else none

/-- `lex_quoted_string_as_vec` on the text after the opening quote: `(bytes, rest)`. -/
def lexQuoted : Bytes → Option (Bytes × Bytes)
  | [] => none
  | c :: s =>
    if c = 0x5c then
      match s with
      | [] => none
      | d :: s' =>
        if d = 0x22 ∨ d = 0x5c then (lexQuoted s').map (fun (p, r) => (d :: p, r))
        else if d = 0x78 then
          match s' with
          | h1 :: h2 :: s'' =>
            -- `u8::from_str_radix` also accepts a leading `+` (finding F5 of C06; mirrored)
            match (if h1 = 0x2b then some 0 else hexVal h1), hexVal h2 with
            | some a, some b => (lexQuoted s'').map (fun (p, r) => (UInt8.ofNat (a * 16 + b) :: p, r))
            | _, _ => none
          | _ => none
        else
          match octVal d, s' with
          | some a, o2 :: o3 :: s'' =>
            match octVal o2, octVal o3 with
            | some b, some c3 =>
              let n := a * 64 + b * 8 + c3
              if n < 256 then (lexQuoted s'').map (fun (p, r) => (UInt8.ofNat n :: p, r)) else none
            | _, _ => none
          | _, _ => none
    else if c = 0x22 then some ([], s)
    else (lexQuoted s).map (fun (p, r) => (c :: p, r))

/-- number of leading `#` -/
def countHashes : Bytes → Nat
  | 0x23 :: s => countHashes s + 1
  | _ => 0

/-- body of a raw string up to the first `"` followed by at least `n` hashes -/
def rawBody (n : Nat) : Bytes → Option (Bytes × Bytes)
  | [] => none
  | c :: s =>
    if c = 0x22 then
      let k := countHashes s
      if n ≤ k then some ([], s.drop n)
      else (rawBody n (s.drop k)).map (fun (p, r) => (c :: (s.take k ++ p), r))
    else (rawBody n s).map (fun (p, r) => (c :: p, r))
termination_by s => s.length
decreasing_by all_goals simp_wf <;> omega

/-- `lex_raw_string_as_str` on the text after the `r`. -/
def lexRaw (s : Bytes) : Option (Bytes × Bytes) :=
  let n := countHashes s
  if n ≥ 256 then none else
  match s.drop n with
  | 0x22 :: s' => rawBody n s'
  | _ => none

/-- `lex_quoted_or_raw_string`. -/
def lexQuotedOrRaw : Bytes → Option (Bytes × Bytes)
  | 0x22 :: s => lexQuoted s
  | 0x72 :: s => lexRaw s
  | _ => none

end WfModel.Wild
