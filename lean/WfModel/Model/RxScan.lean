/-
Model of the quoted-regex scanner `lex_regex_from_literal`
(`engine/src/rhs_types/regex/mod.rs:70-113`): given the source text after the opening `"`,
it produces the pattern string handed to the regex engine and the rest of the input.

The scanner works on `char`s. It tracks whether it is inside a `[...]` character class:
* `\c` : both characters are copied, except that `\"` *outside* a class yields just `"`;
  a backslash that is the last character of the input copies nothing and the scan then
  fails with `MissingEndingQuote`;
* `"` outside a class ends the literal; inside a class it is an ordinary character;
* `[` outside a class enters a class, `]` inside a class leaves it (so `[]a]` leaves the
  class at the first `]`, unlike the regex syntax proper — mirrored, not "fixed").

Import-free (core Lean only) so that the driver links as a `lean_exe`.
-/
namespace WfModel.RxScan

def cBackslash : Char := '\\'
def cQuote : Char := '"'
def cOpen : Char := '['
def cClose : Char := ']'

/-- What one escape pair `\c` contributes to the pattern. -/
def escOut (cls : Bool) (c : Char) : List Char :=
  if cls || c != cQuote then [cBackslash, c] else [c]

def push (pre : List Char) (r : Option (List Char × List Char)) : Option (List Char × List Char) :=
  r.map (fun (p, rest) => (pre ++ p, rest))

/-- The scanner loop; `cls` = `in_char_class`. `none` = `LexErrorKind::MissingEndingQuote`. -/
def scan : Bool → List Char → Option (List Char × List Char)
  | _, [] => none
  | cls, c :: s =>
    if c = cBackslash then
      match s with
      | [] => none
      | d :: s' => push (escOut cls d) (scan cls s')
    else if c = cQuote ∧ cls = false then some ([], s)
    else if c = cOpen ∧ cls = false then push [c] (scan true s)
    else if c = cClose ∧ cls = true then push [c] (scan false s)
    else push [c] (scan cls s)

/-- `lex_regex_from_literal` on the text after the opening quote. -/
def scanQuoted (s : List Char) : Option (List Char × List Char) := scan false s

/-- The source spelling of a pattern inside a quoted regex literal: the inverse walk. A
quote outside a class is written `\"`; everything else is written as it is. `none` when the
pattern has no quoted spelling: it contains the pair `\"` outside a class (the scanner
would drop that backslash), ends in a lone backslash, or ends inside a class. -/
def escape : Bool → List Char → Option (List Char)
  | cls, [] => if cls then none else some []
  | cls, c :: p =>
    if c = cBackslash then
      match p with
      | [] => none
      | d :: p' =>
        if d = cQuote ∧ cls = false then none
        else (escape cls p').map ([c, d] ++ ·)
    else if c = cQuote ∧ cls = false then (escape cls p).map ([cBackslash, c] ++ ·)
    else if c = cOpen ∧ cls = false then (escape true p).map (c :: ·)
    else if c = cClose ∧ cls = true then (escape false p).map (c :: ·)
    else (escape cls p).map (c :: ·)

def escapeForQuoted (p : List Char) : Option (List Char) := escape false p

end WfModel.RxScan
