/-
Model of regex MATCHING for a documented subset of the syntax accepted by `regex-syntax`
0.8 as configured in `engine/src/rhs_types/regex/imp_real.rs`
(`syntax::Config::new().unicode(false).utf8(false)`, no multi-line, `Regex::is_match` =
unanchored search over the raw bytes of the value).

* `Rx`        regex AST over BYTES: `empty`, `eps`, a byte set (list of inclusive ranges,
              possibly complemented), `cat`, `alt`, `star`, and the two anchors `bol` / `eol`
              (`^` / `$` without multi-line: start / end of the haystack).
* `Rx.parse`  pattern text (`List Char`) → `Option Rx`; `none` = outside the subset (which
              includes everything `regex-syntax` rejects *and* valid syntax this model does
              not cover: counted repetition, flags, lazy or stacked quantifiers, named
              groups, Unicode classes, word boundaries, nested classes / class set
              operations, …).
* matching by Brzozowski derivatives made position-aware for the anchors: `nullable r s e`
  asks whether `r` accepts the empty word when the current position is the haystack start
  (`s`) / end (`e`); `deriv s b r` is the derivative by byte `b` read from a position whose
  "at start" flag is `s` (after reading a byte the position is never the start again).
* `Rx.search` unanchored search = `is_match`.

Import-free (core Lean only) so that the driver links as a `lean_exe`.
-/
namespace WfModel

abbrev Rx.Bytes := List UInt8
/-- inclusive byte ranges -/
abbrev Rx.Ranges := List (UInt8 × UInt8)

/-- Regex over bytes. `set neg rs` is the set of bytes lying in one of the ranges `rs`
(`neg = false`) or in none of them (`neg = true`). -/
inductive Rx
  | empty
  | eps
  | set (neg : Bool) (rs : Rx.Ranges)
  | cat (r q : Rx)
  | alt (r q : Rx)
  | star (r : Rx)
  | bol
  | eol
deriving Repr, DecidableEq, Inhabited

namespace Rx

def inRanges (rs : Ranges) (b : UInt8) : Bool := rs.any (fun r => r.1 ≤ b && b ≤ r.2)

/-- membership in the byte set `set neg rs` -/
def setMem (neg : Bool) (rs : Ranges) (b : UInt8) : Bool := inRanges rs b != neg

/-! ## Matching -/

/-- Does `r` accept the empty word at a position with the given "at start of haystack" /
"at end of haystack" flags? -/
def nullable : Rx → Bool → Bool → Bool
  | .empty, _, _ => false
  | .eps, _, _ => true
  | .set _ _, _, _ => false
  | .cat r q, s, e => nullable r s e && nullable q s e
  | .alt r q, s, e => nullable r s e || nullable q s e
  | .star _, _, _ => true
  | .bol, s, _ => s
  | .eol, _, e => e

/-- simplifying constructors (keep derivatives small; `empty` is absorbing / neutral) -/
def mkAlt : Rx → Rx → Rx
  | .empty, q => q
  | r, .empty => r
  | r, q => .alt r q

def mkCat : Rx → Rx → Rx
  | .empty, _ => .empty
  | .eps, q => q
  | r, q => .cat r q

/-- Derivative by the byte `b`, read at a position whose "at start" flag is `s`. The
residual is to be matched from the next position, which is not the start. In `cat r q` the
second factor may begin at the current position only if `r` accepts the empty word *here*:
at start flag `s` and certainly not at the end (a byte follows). -/
def deriv (s : Bool) (b : UInt8) : Rx → Rx
  | .empty => .empty
  | .eps => .empty
  | .set neg rs => if setMem neg rs b then .eps else .empty
  | .cat r q =>
    mkAlt (mkCat (deriv s b r) q) (if nullable r s false then deriv s b q else .empty)
  | .alt r q => mkAlt (deriv s b r) (deriv s b q)
  | .star r => mkCat (deriv s b r) (.star r)
  | .bol => .empty
  | .eol => .empty

/-- Does `r` match exactly the word `w`, `w` starting at a position with start flag `s` and
ending at a position with end flag `e`? -/
def matchesFrom : Rx → Bytes → Bool → Bool → Bool
  | r, [], s, e => nullable r s e
  | r, b :: w, s, e => matchesFrom (deriv s b r) w false e

/-- `r` matches the whole haystack `w`. -/
def matchesWhole (r : Rx) (w : Bytes) : Bool := matchesFrom r w true true

def isEmpty : Rx → Bool
  | .empty => true
  | _ => false

/-- Does `r` match some prefix of `h` (`h` = the rest of the haystack, so a prefix ends at
the haystack end iff it is all of `h`)? -/
def prefixMatch : Rx → Bytes → Bool → Bool
  | r, [], s => nullable r s true
  | r, b :: t, s =>
    nullable r s false || (!(deriv s b r).isEmpty && prefixMatch (deriv s b r) t false)

/-- Is there a match starting at some position of `h` (`s` = `h` begins at the haystack
start)? -/
def searchFrom : Rx → Bytes → Bool → Bool
  | r, [], s => prefixMatch r [] s
  | r, b :: t, s => prefixMatch r (b :: t) s || searchFrom r t false

/-- Unanchored search: `regex_automata::meta::Regex::is_match`. -/
def search (r : Rx) (h : Bytes) : Bool := searchFrom r h true

/-! ## Syntax -/

def lit (b : UInt8) : Rx := .set false [(b, b)]

def catList : List Rx → Rx
  | [] => .eps
  | [r] => r
  | r :: rs => .cat r (catList rs)

def altList : List Rx → Rx
  | [] => .empty
  | [r] => r
  | r :: rs => .alt r (altList rs)

/-- one pattern character as a literal: its UTF-8 bytes in sequence (a quantifier after a
non-ASCII character applies to the whole character) -/
def litChar (c : Char) : Rx := catList ((String.utf8EncodeChar c).map lit)

/-- `.` with `unicode(false)` and without `(?s)`: any byte but `\n` -/
def dot : Rx := .set true [(10, 10)]

def plus (r : Rx) : Rx := .cat r (.star r)
def opt (r : Rx) : Rx := .alt r .eps

/-- ASCII Perl classes (`unicode(false)`), the negated ones as explicit ranges -/
def perl (c : Char) : Option Ranges :=
  if c = 'd' then some [(48, 57)]
  else if c = 'w' then some [(48, 57), (65, 90), (95, 95), (97, 122)]
  else if c = 's' then some [(9, 13), (32, 32)]
  else if c = 'D' then some [(0, 47), (58, 255)]
  else if c = 'W' then some [(0, 47), (58, 64), (91, 94), (96, 96), (123, 255)]
  else if c = 'S' then some [(0, 8), (14, 31), (33, 255)]
  else none

def hexVal (c : Char) : Option Nat :=
  let n := c.toNat
  if 48 ≤ n ∧ n ≤ 57 then some (n - 48)
  else if 97 ≤ n ∧ n ≤ 102 then some (n - 87)
  else if 65 ≤ n ∧ n ≤ 70 then some (n - 55)
  else none

def isAlnum (c : Char) : Bool :=
  let n := c.toNat
  (48 ≤ n && n ≤ 57) || (65 ≤ n && n ≤ 90) || (97 ≤ n && n ≤ 122)

/-- `regex_syntax::is_escapeable_character` restricted to printable ASCII: every
punctuation character except `<` and `>` (those are word-boundary assertions). -/
def isEscapablePunct (c : Char) : Bool :=
  let n := c.toNat
  32 ≤ n && n ≤ 126 && !isAlnum c && c != '<' && c != '>'

inductive Esc
  | byte (b : UInt8)
  | cls (rs : Ranges)

/-- `\c` for a single character `c ≠ x` -/
def escape1 (c : Char) : Option Esc :=
  if isEscapablePunct c then some (.byte c.toNat.toUInt8)
  else if c = 'n' then some (.byte 10)
  else if c = 't' then some (.byte 9)
  else if c = 'r' then some (.byte 13)
  else if c = 'f' then some (.byte 12)
  else if c = 'v' then some (.byte 11)
  else if c = 'a' then some (.byte 7)
  else (perl c).map .cls

inductive Tok
  | atom (r : Rx)
  | lpar
  | rpar
  | bar
  | star
  | plus
  | quest
deriving Repr, DecidableEq

/-- what precedes the cursor inside a class: nothing usable as a range start, a single
byte (already counted, may still become the low end of a range), or `lo-` -/
inductive Pend
  | none
  | one (b : UInt8)
  | dash (lo : UInt8)

structure ClsSt where
  neg : Bool
  acc : Ranges
  pend : Pend

def ClsSt.addByte (cs : ClsSt) (b : UInt8) : Option ClsSt :=
  match cs.pend with
  | .dash lo => if lo ≤ b then some { cs with acc := cs.acc ++ [(lo, b)], pend := .none } else none
  | .one p => some { cs with acc := cs.acc ++ [(p, p)], pend := .one b }
  | .none => some { cs with pend := .one b }

def ClsSt.addCls (cs : ClsSt) (rs : Ranges) : Option ClsSt :=
  match cs.pend with
  | .dash _ => none
  | .one p => some { cs with acc := cs.acc ++ (p, p) :: rs, pend := .none }
  | .none => some { cs with acc := cs.acc ++ rs, pend := .none }

def ClsSt.addDash (cs : ClsSt) : Option ClsSt :=
  match cs.pend with
  | .one p => some { cs with pend := .dash p }
  | _ => none

def ClsSt.close (cs : ClsSt) : Option Rx :=
  match cs.pend with
  | .dash _ => none
  | .one p => some (.set cs.neg (cs.acc ++ [(p, p)]))
  | .none => if cs.acc.isEmpty then none else some (.set cs.neg cs.acc)

def consTok (t : Tok) (r : Option (List Tok)) : Option (List Tok) := r.map (t :: ·)

/-- characters that are not literals outside a class (`]` and `}` are) -/
def isMeta (c : Char) : Bool :=
  c = '\\' || c = '.' || c = '^' || c = '$' || c = '(' || c = ')' || c = '|' || c = '*' ||
  c = '+' || c = '?' || c = '{' || c = '['

/-- Lexer. `none` in the first argument = outside a class. Inside a class only this is
accepted: an optional leading `^`, then items `x` or `x-y` with `x ≤ y`, where `x`, `y` are
ASCII characters other than `[ ] \ ^ - & ~`, escapes, or `\xHH`; Perl classes as items.
(`regex-syntax` gives a meaning to more spellings: a leading `]` or `-`, a trailing `-`,
`^` later on, single `&` `~`, nested and POSIX classes, `&&` `--` `~~`; all `none` here.) -/
def lex : Option ClsSt → List Char → Option (List Tok)
  | none, [] => some []
  | some _, [] => none
  | none, c :: rest =>
    if c = '\\' then
      match rest with
      | [] => none
      | d :: rest' =>
        if d = 'x' then
          match rest' with
          | h1 :: h2 :: rest'' =>
            match hexVal h1, hexVal h2 with
            | some x, some y => consTok (.atom (lit (UInt8.ofNat (x * 16 + y)))) (lex none rest'')
            | _, _ => none
          | _ => none
        else
          match escape1 d with
          | some (.byte b) => consTok (.atom (lit b)) (lex none rest')
          | some (.cls rs) => consTok (.atom (.set false rs)) (lex none rest')
          | none => none
    else if c = '.' then consTok (.atom dot) (lex none rest)
    else if c = '^' then consTok (.atom .bol) (lex none rest)
    else if c = '$' then consTok (.atom .eol) (lex none rest)
    else if c = '(' then
      match rest with
      | '?' :: ':' :: rest' => consTok .lpar (lex none rest')
      | '?' :: _ => none
      | rest0 => consTok .lpar (lex none rest0)
    else if c = ')' then consTok .rpar (lex none rest)
    else if c = '|' then consTok .bar (lex none rest)
    else if c = '*' then consTok .star (lex none rest)
    else if c = '+' then consTok .plus (lex none rest)
    else if c = '?' then consTok .quest (lex none rest)
    else if c = '{' then none
    else if c = '[' then
      match rest with
      | '^' :: rest' => lex (some ⟨true, [], .none⟩) rest'
      | rest0 => lex (some ⟨false, [], .none⟩) rest0
    else consTok (.atom (litChar c)) (lex none rest)
  | some cs, c :: rest =>
    if c = ']' then
      match cs.close with
      | some r => consTok (.atom r) (lex none rest)
      | none => none
    else if c = '\\' then
      match rest with
      | [] => none
      | d :: rest' =>
        if d = 'x' then
          match rest' with
          | h1 :: h2 :: rest'' =>
            match hexVal h1, hexVal h2 with
            | some x, some y =>
              match cs.addByte (UInt8.ofNat (x * 16 + y)) with
              | some cs' => lex (some cs') rest''
              | none => none
            | _, _ => none
          | _ => none
        else
          match escape1 d with
          | some (.byte b) =>
            match cs.addByte b with
            | some cs' => lex (some cs') rest'
            | none => none
          | some (.cls rs) =>
            match cs.addCls rs with
            | some cs' => lex (some cs') rest'
            | none => none
          | none => none
    else if c = '-' then
      match cs.addDash with
      | some cs' => lex (some cs') rest
      | none => none
    else if c = '[' || c = '^' || c = '&' || c = '~' || 128 ≤ c.toNat then none
    else
      match cs.addByte c.toNat.toUInt8 with
      | some cs' => lex (some cs') rest
      | none => none

/-- one group level under construction: finished alternatives and the items of the current
alternative, both in reverse order -/
structure Frame where
  alts : List Rx
  items : List Rx

def Frame.close (f : Frame) : Rx := altList ((catList f.items.reverse :: f.alts).reverse)

/-- Token-level parser with an explicit stack of open groups. `q` = a postfix operator may
follow (the previous token completed an atom or group and was not itself a postfix
operator: `a*?`, `a**`, `*a`, `(|*)` are all outside the subset). -/
def build : List Tok → Frame → Bool → List Frame → Option Rx
  | [], f, _, [] => some f.close
  | [], _, _, _ :: _ => none
  | .atom r :: ts, f, _, st => build ts { f with items := r :: f.items } true st
  | .lpar :: ts, f, _, st => build ts ⟨[], []⟩ false (f :: st)
  | .rpar :: _, _, _, [] => none
  | .rpar :: ts, f, _, g :: st => build ts { g with items := f.close :: g.items } true st
  | .bar :: ts, f, _, st => build ts ⟨catList f.items.reverse :: f.alts, []⟩ false st
  | .star :: ts, ⟨alts, r :: items⟩, true, st => build ts ⟨alts, .star r :: items⟩ false st
  | .plus :: ts, ⟨alts, r :: items⟩, true, st => build ts ⟨alts, plus r :: items⟩ false st
  | .quest :: ts, ⟨alts, r :: items⟩, true, st => build ts ⟨alts, opt r :: items⟩ false st
  | _, _, _, _ => none

/-- Pattern text → regex; `none` = outside the modelled subset. -/
def parse (p : List Char) : Option Rx :=
  match lex none p with
  | some ts => build ts ⟨[], []⟩ false []
  | none => none

/-- `field matches <pattern>` on a value, when the pattern is in the subset -/
def matchesOp (p : List Char) (v : Bytes) : Option Bool := (parse p).map (search · v)

end Rx
end WfModel
