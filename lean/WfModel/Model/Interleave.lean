import WfModel.Model.Eval
import WfModel.Model.Search
/-
C18: an abstract multi-thread executor over immutable compiled filters.  A step of thread `t`
executes its next job `execute(filter, context)`: it reads only immutable data and the
process-wide `USE_AVX2` latch (a `LazyLock`: the first reader computes the value from the
environment as it is at that moment, every later reader sees that value).  Import-free.
-/
namespace WfModel.Interleave
open WfModel

structure World where
  scheme : Scheme
  filters : List LExpr
  ctxs : List Ctx

structure Job where
  f : Nat
  c : Nat
deriving Repr, DecidableEq

/-- `Filter::execute(ctx)` of job `j`: a function of the (immutable) filter and context only -/
def runJob (w : World) (j : Job) : Option (EM Bool) :=
  match w.filters[j.f]?, w.ctxs[j.c]? with
  | some e, some c => some (execFilter w.scheme c e)
  | _, _ => none

structure St where
  /-- `LazyLock<bool>`: `none` until the first reader -/
  latch : Option Bool := none
  /-- number of steps taken so far (time) -/
  clock : Nat := 0
  /-- per-thread program counters -/
  pcs : List Nat
  /-- per-thread results so far -/
  outs : List (List (Option (EM Bool)))
  /-- the latch value each executed step observed, in step order -/
  seen : List Bool := []

def init (n : Nat) : St := { pcs := List.replicate n 0, outs := List.replicate n [] }

/-- one step of thread `t`; `env k` is what the environment switch reads as at time `k` -/
def step (w : World) (progs : List (List Job)) (env : Nat → Bool) (s : St) (t : Nat) : St :=
  match progs[t]?, s.pcs[t]? with
  | some prog, some pc =>
    match prog[pc]? with
    | none => { s with clock := s.clock + 1 }
    | some j =>
      let lv := match s.latch with
        | some v => v
        | none => env s.clock
      { latch := some lv, clock := s.clock + 1, pcs := s.pcs.set t (pc + 1),
        outs := s.outs.modify t (· ++ [runJob w j]), seen := s.seen ++ [lv] }
  | _, _ => { s with clock := s.clock + 1 }

def run (w : World) (progs : List (List Job)) (env : Nat → Bool) (sched : List Nat) : St :=
  sched.foldl (step w progs env) (init progs.length)

/-- what thread `t` obtains running alone, for its first `k` jobs -/
def sequential (w : World) (prog : List Job) (k : Nat) : List (Option (EM Bool)) :=
  (prog.take k).map (runJob w)

end WfModel.Interleave
