/-
A JSON *tree* (what serde hands to / receives from the text layer). Objects keep their
entries in document order (serde_json streaming order); `serde_json::Value` without
`preserve_order` sorts object keys, modelled by `J.sortKeys`.  Import-free.
-/
namespace WfModel

inductive J
  | null
  | bool (b : Bool)
  | int (i : Int)
  | str (s : String)
  | arr (xs : List J)
  | obj (kvs : List (String × J))
deriving Repr, Inhabited

namespace J

mutual
def beq : J → J → Bool
  | null, null => true
  | bool a, bool b => a == b
  | int a, int b => a == b
  | str a, str b => a == b
  | arr a, arr b => beqList a b
  | obj a, obj b => beqKvs a b
  | _, _ => false
def beqList : List J → List J → Bool
  | [], [] => true
  | x :: xs, y :: ys => beq x y && beqList xs ys
  | _, _ => false
def beqKvs : List (String × J) → List (String × J) → Bool
  | [], [] => true
  | (k, x) :: xs, (l, y) :: ys => k == l && beq x y && beqKvs xs ys
  | _, _ => false
end

instance : BEq J := ⟨beq⟩

end J
end WfModel
