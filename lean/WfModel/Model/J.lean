/-
A JSON *tree* (what serde hands to / receives from the text layer). Objects keep their
entries in document order (serde_json streaming order); `serde_json::Value` without
`preserve_order` sorts object keys, modelled by `J.sortKeys`.  Import-free.
-/
namespace WfModel

inductive J
  | null
  | bool (b : Bool)
  | int (i : Int)
  | str (s : String)
  | arr (xs : List J)
  | obj (kvs : List (String × J))
deriving Repr, Inhabited

namespace J

mutual
def beq : J → J → Bool
  | null, null => true
  | bool a, bool b => a == b
  | int a, int b => a == b
  | str a, str b => a == b
  | arr a, arr b => beqList a b
  | obj a, obj b => beqKvs a b
  | _, _ => false
def beqList : List J → List J → Bool
  | [], [] => true
  | x :: xs, y :: ys => beq x y && beqList xs ys
  | _, _ => false
def beqKvs : List (String × J) → List (String × J) → Bool
  | [], [] => true
  | (k, x) :: xs, (l, y) :: ys => k == l && beq x y && beqKvs xs ys
  | _, _ => false
end

instance : BEq J := ⟨beq⟩

end J
end WfModel

namespace WfModel
namespace J

def hexDigitLower (n : Nat) : Char :=
  if n < 10 then Char.ofNat (48 + n) else Char.ofNat (87 + n)

/-- serde_json's string escaping (`format_escaped_str_contents`) -/
def escapeChar (c : Char) : List Char :=
  if c = '"' then ['\\', '"']
  else if c = '\\' then ['\\', '\\']
  else if c.toNat = 8 then ['\\', 'b']
  else if c.toNat = 12 then ['\\', 'f']
  else if c = '\n' then ['\\', 'n']
  else if c = '\r' then ['\\', 'r']
  else if c = '\t' then ['\\', 't']
  else if c.toNat < 32 then ['\\', 'u', '0', '0', hexDigitLower (c.toNat / 16), hexDigitLower (c.toNat % 16)]
  else [c]

def renderStr (s : String) : List Char := '"' :: (s.toList.flatMap escapeChar ++ ['"'])

mutual
/-- serde_json compact writer -/
def renderChars : J → List Char
  | null => "null".toList
  | bool b => (if b then "true" else "false").toList
  | int i => (toString i).toList
  | str s => renderStr s
  | arr xs => '[' :: (renderList xs ++ [']'])
  | obj kvs => '{' :: (renderKvs kvs ++ ['}'])
def renderList : List J → List Char
  | [] => []
  | [x] => renderChars x
  | x :: xs => renderChars x ++ ',' :: renderList xs
def renderKvs : List (String × J) → List Char
  | [] => []
  | [(k, x)] => renderStr k ++ ':' :: renderChars x
  | (k, x) :: xs => renderStr k ++ ':' :: renderChars x ++ ',' :: renderKvs xs
end

def render (j : J) : String := String.ofList (renderChars j)

end J
end WfModel
