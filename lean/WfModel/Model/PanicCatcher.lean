/-
The panic catcher of `engine/src/panic.rs` as a state machine.  Import-free.

Rust state (panic.rs:18-31)                         model
  thread_local PANIC_CATCHER_ENABLED   : bool       `Local.enabled`
  thread_local PANIC_CATCHER_LEVEL     : u64        `Local.level`   (Nat, overflow explicit)
  thread_local PANIC_CATCHER_BACKTRACE : String     `Local.lastMsg` (which panic message the
                                                     recorded text contains; `none` = "")
  thread_local PANIC_CATCHER_FALLBACK_MODE          `Local.fallback`
  static PANIC_CATCHER_HOOK_SET : AtomicBool        `St.hookSet`
  the process panic hook (std::panic::set_hook)     `St.hook` (a chain: the catcher's hook
                                                     closes over the hook it replaced)

Two semantics over the same op trees:
  * big-step `exec` / `execList` / `runTop`       — one thread, mirrors the control flow of
    `catch_panic`, `panic_catcher_start_catching`, `panic_catcher_stop_catching` and the hook;
  * small-step `tstep` with an explicit frame stack — one step per API action (an op, entering
    `catch_panic`, returning from it; a `panic!` step includes the hook and the unwinding up
    to the nearest catching frame), lifted to N threads in `Sys` for interleavings.
`Lemmas/PanicCatcher.lean` proves that the two agree.
-/
namespace WfModel.PanicCatcher

/-- `PanicCatcherFallbackMode`. -/
inductive Fallback
  | cont
  | abort
deriving DecidableEq, Repr, Inhabited

/-- The thread-locals of one thread. -/
structure Local where
  enabled : Bool := false
  level : Nat := 0
  lastMsg : Option Nat := none
  fallback : Fallback := .cont
deriving DecidableEq, Repr, Inhabited

/-- What is installed as the process panic hook.  `sentinel` is the hook that was installed
before the catcher's (the "previous hook" of the property), `default` is std's own hook (what
`take_hook` leaves behind), `catcher next` is the closure built by `panic_catcher_set_hook`
holding the hook it took. -/
inductive Hook
  | default
  | sentinel
  | catcher (next : Hook)
deriving DecidableEq, Repr, Inhabited

/-- One thread's view: its thread-locals plus the two process-wide items. -/
structure St where
  loc : Local := {}
  hook : Hook := .sentinel
  hookSet : Bool := false
deriving DecidableEq, Repr, Inhabited

/-- `u64::MAX + 1`: `checked_add(1)` fails when the result would reach this. -/
def levelLimit : Nat := 2 ^ 64

/-- API actions. `catch_ body v` is `catch_panic(|| { body; v })`; `panic m` is `panic!` with
the (unique) message number `m`. -/
inductive Op
  | enable
  | disable
  | setHook
  | setFallback (f : Fallback)
  | query
  | catch_ (body : List Op) (v : Nat)
  | panic (m : Nat)
deriving Repr, Inhabited

/-- Return value of one `catch_panic` call. `err (some m)`: the error text contains message
`m`; `err none`: it is the fixed `'<unknown>'` text (nothing was ever recorded). -/
inductive CatchRes
  | ok (v : Nat)
  | err (m : Option Nat)
deriving DecidableEq, Repr, Inhabited

/-- Observable events of a run, in program order of the thread. -/
inductive Ev
  | caught (r : CatchRes)          -- a `catch_panic` call returned `r`
  | sentinel (m : Nat)             -- the previously installed hook was called for panic `m`
  | stdhook (m : Nat)              -- std's default hook was called for panic `m`
  | unwound (m : Nat)              -- panic `m` unwound out of the outermost frame
  | backtrace (m : Option Nat)     -- `panic_catcher_get_backtrace()` returned this
  | prevFallback (f : Fallback)    -- `panic_catcher_set_fallback_mode` returned this
  | abort                          -- `std::process::abort()`
deriving DecidableEq, Repr, Inhabited

inductive Outcome
  | done
  | panicked (m : Nat)
  | aborted
deriving DecidableEq, Repr, Inhabited

/-- Result of calling the installed hook for a panic with message `m`. -/
inductive HookRes
  | recorded (l : Local)           -- the catcher's hook wrote the backtrace text, returned
  | fellThrough (ev : Ev)          -- reached a non-catcher hook (`sentinel m` / `stdhook m`)
  | abort                          -- fallback mode Abort
deriving DecidableEq, Repr, Inhabited

/-- The hook closure of `panic_catcher_set_hook` (panic.rs:133-150), chained. -/
def runHook : Hook → Local → Nat → HookRes
  | .default, _, m => .fellThrough (.stdhook m)
  | .sentinel, _, m => .fellThrough (.sentinel m)
  | .catcher next, l, m =>
    if l.level > 0 then .recorded { l with lastMsg := some m }
    else match l.fallback with
      | .cont => runHook next l m
      | .abort => .abort

/-- `panic!(m)`: the hook runs first, then unwinding starts (or the process is gone). -/
def raise (s : St) (m : Nat) : St × List Ev × Outcome :=
  match runHook s.hook s.loc m with
  | .recorded l => ({ s with loc := l }, [], .panicked m)
  | .fellThrough ev => (s, [ev], .panicked m)
  | .abort => (s, [.abort], .aborted)

/-- `panic_catcher_set_hook` as one atomic API call (panic.rs:128-152). -/
def doSetHook (s : St) : St :=
  if s.hookSet then s else { s with hook := .catcher s.hook, hookSet := true }

/-- `panic_catcher_start_catching` when enabled: `checked_add(1)` or abort. -/
def enter (s : St) : St := { s with loc := { s.loc with level := s.loc.level + 1 } }

/-- `panic_catcher_stop_catching`: `checked_sub(1)` (the abort case is tested by the caller). -/
def leave (s : St) : St := { s with loc := { s.loc with level := s.loc.level - 1 } }

/-- The ops that neither call a closure nor panic. -/
def simple (s : St) : Op → St × List Ev
  | .enable => ({ s with loc := { s.loc with enabled := true } }, [])
  | .disable => ({ s with loc := { s.loc with enabled := false } }, [])
  | .setHook => (doSetHook s, [])
  | .setFallback f => ({ s with loc := { s.loc with fallback := f } }, [.prevFallback s.loc.fallback])
  | .query => (s, [.backtrace s.loc.lastMsg])
  | _ => (s, [])

/-- What `catch_panic` does after `catch_unwind` came back in the catching branch
(panic.rs:87-94): `stop_catching` (abort on underflow), then `Ok(v)` or the recorded text. -/
def finishCatch (s1 : St) (tr : List Ev) (out : Outcome) (v : Nat) : St × List Ev × Outcome :=
  match out with
  | .aborted => (s1, tr, .aborted)
  | .done =>
    if s1.loc.level = 0 then (s1, tr ++ [.abort], .aborted)
    else (leave s1, tr ++ [.caught (.ok v)], .done)
  | .panicked _ =>
    if s1.loc.level = 0 then (s1, tr ++ [.abort], .aborted)
    else (leave s1, tr ++ [.caught (.err (leave s1).loc.lastMsg)], .done)

/-- The non-catching branch `Ok(f())` (panic.rs:96): a panic of `f` just passes through. -/
def finishPlain (s1 : St) (tr : List Ev) (out : Outcome) (v : Nat) : St × List Ev × Outcome :=
  match out with
  | .done => (s1, tr ++ [.caught (.ok v)], .done)
  | o => (s1, tr, o)

mutual
/-- Big-step execution of one op: final state, events, and how control left the op. -/
def exec (s : St) : Op → St × List Ev × Outcome
  | .catch_ body v =>
    if s.loc.enabled then
      if s.loc.level + 1 < levelLimit then
        match execList (enter s) body with
        | (s1, tr, out) => finishCatch s1 tr out v
      else (s, [.abort], .aborted)
    else
      match execList s body with
      | (s1, tr, out) => finishPlain s1 tr out v
  | .panic m => raise s m
  | .enable => ((simple s .enable).1, (simple s .enable).2, .done)
  | .disable => ((simple s .disable).1, (simple s .disable).2, .done)
  | .setHook => ((simple s .setHook).1, (simple s .setHook).2, .done)
  | .setFallback f => ((simple s (.setFallback f)).1, (simple s (.setFallback f)).2, .done)
  | .query => ((simple s .query).1, (simple s .query).2, .done)

/-- A closure body / statement sequence: stops at the first op that does not complete. -/
def execList (s : St) : List Op → St × List Ev × Outcome
  | [] => (s, [], .done)
  | op :: rest =>
    match exec s op with
    | (s1, tr, .done) =>
      match execList s1 rest with
      | (s2, tr2, out) => (s2, tr ++ tr2, out)
    | r => r
end

/-- The outermost level of a history: the harness runs each top-level op inside its own
`std::panic::catch_unwind`, notes a panic that arrives there (`unwound m`) and goes on.
The `Bool` is "the process aborted". -/
def runTop (s : St) : List Op → St × List Ev × Bool
  | [] => (s, [], false)
  | op :: rest =>
    match exec s op with
    | (s1, tr, .done) =>
      match runTop s1 rest with
      | (s2, tr2, a) => (s2, tr ++ tr2, a)
    | (s1, tr, .panicked m) =>
      match runTop s1 rest with
      | (s2, tr2, a) => (s2, tr ++ [.unwound m] ++ tr2, a)
    | (s1, tr, .aborted) => (s1, tr, true)

mutual
/-- deepest nesting of `catch_` in an op -/
def Op.nesting : Op → Nat
  | .catch_ body _ => nestingList body + 1
  | _ => 0
def nestingList : List Op → Nat
  | [] => 0
  | op :: rest => max op.nesting (nestingList rest)
end

mutual
/-- number of small steps an op can take at most (op itself + one return per catch) -/
def Op.steps : Op → Nat
  | .catch_ body _ => stepsList body + 2
  | _ => 1
def stepsList : List Op → Nat
  | [] => 0
  | op :: rest => op.steps + stepsList rest
end

/-! ## Small-step machine -/

/-- An active `catch_panic` call: did `start_catching` return true, the closure's value, and
what the caller does after the call returns. -/
structure Frame where
  started : Bool
  val : Nat
  rest : List Op
deriving Repr, Inhabited

/-- Control state of a thread: ops left in the innermost closure, enclosing calls. -/
structure Code where
  cur : List Op := []
  stk : List Frame := []
deriving Repr, Inhabited

inductive StepRes
  | halt
  | next (s : St) (c : Code) (evs : List Ev)
  | abort (s : St) (evs : List Ev)
deriving Repr, Inhabited

/-- Unwinding after the hook returned: pop non-catching frames; the first catching frame
stops (`stop_catching`, error text from the recorded backtrace) and its caller continues.
`top` is where the outermost level continues once no frame is left. -/
def unwind (s : St) (m : Nat) (top : List Op) : List Frame → StepRes
  | [] => .next s { cur := top, stk := [] } [.unwound m]
  | f :: fs =>
    if f.started then
      if s.loc.level = 0 then .abort s [.abort]
      else .next (leave s) { cur := f.rest, stk := fs } [.caught (.err (leave s).loc.lastMsg)]
    else unwind s m f.rest fs

/-- One step of one thread. -/
def tstep (s : St) (c : Code) : StepRes :=
  match c.cur, c.stk with
  | [], [] => .halt
  | [], f :: fs =>
    -- the closure returns its value
    if f.started then
      if s.loc.level = 0 then .abort s [.abort]
      else .next (leave s) { cur := f.rest, stk := fs } [.caught (.ok f.val)]
    else .next s { cur := f.rest, stk := fs } [.caught (.ok f.val)]
  | .catch_ body v :: rest, stk =>
    if s.loc.enabled then
      if s.loc.level + 1 < levelLimit then
        .next (enter s) { cur := body, stk := { started := true, val := v, rest := rest } :: stk } []
      else .abort s [.abort]
    else .next s { cur := body, stk := { started := false, val := v, rest := rest } :: stk } []
  | .panic m :: rest, stk =>
    match runHook s.hook s.loc m with
    | .recorded l => unwind { s with loc := l } m rest stk |> addEvs []
    | .fellThrough ev => unwind s m rest stk |> addEvs [ev]
    | .abort => .abort s [.abort]
  | op :: rest, stk => .next (simple s op).1 { cur := rest, stk := stk } (simple s op).2
where
  addEvs (pre : List Ev) : StepRes → StepRes
    | .halt => .halt
    | .next s c evs => .next s c (pre ++ evs)
    | .abort s evs => .abort s (pre ++ evs)

/-- A single-thread machine configuration with its accumulated trace. -/
structure Cfg where
  st : St
  code : Code
  tr : List Ev := []
  aborted : Bool := false
deriving Repr, Inhabited

def Cfg.step (c : Cfg) : Option Cfg :=
  if c.aborted then none else
  match tstep c.st c.code with
  | .halt => none
  | .next s k evs => some { st := s, code := k, tr := c.tr ++ evs, aborted := false }
  | .abort s evs => some { st := s, code := {}, tr := c.tr ++ evs, aborted := true }

def Cfg.run : Nat → Cfg → Cfg
  | 0, c => c
  | n + 1, c => match c.step with
    | none => c
    | some c' => Cfg.run n c'

/-- Run a top-level history on the small-step machine (fuel = an upper bound on steps). -/
def runSmall (s : St) (ops : List Op) : St × List Ev × Bool :=
  let c := Cfg.run (stepsList ops + 1) { st := s, code := { cur := ops } }
  (c.st, c.tr, c.aborted)

/-! ## N threads -/

/-- One thread of the process: thread-locals, control state, own event trace. -/
structure Thread where
  loc : Local := {}
  code : Code := {}
  tr : List Ev := []
deriving Repr, Inhabited

/-- The process: threads plus the process-wide hook, its flag, and "aborted". -/
structure Sys where
  threads : List Thread
  hook : Hook := .sentinel
  hookSet : Bool := false
  dead : Bool := false
deriving Repr, Inhabited

/-- Thread `i` takes one step (nothing happens if the process is dead, `i` does not exist, or
the thread has finished). Only `threads[i]`, `hook`, `hookSet`, `dead` can change. -/
def Sys.step (y : Sys) (i : Nat) : Sys :=
  if y.dead then y else
  match y.threads[i]? with
  | none => y
  | some t =>
    match tstep { loc := t.loc, hook := y.hook, hookSet := y.hookSet } t.code with
    | .halt => y
    | .next s k evs =>
      { threads := y.threads.set i { loc := s.loc, code := k, tr := t.tr ++ evs },
        hook := s.hook, hookSet := s.hookSet, dead := false }
    | .abort s evs =>
      { threads := y.threads.set i { loc := s.loc, code := t.code, tr := t.tr ++ evs },
        hook := s.hook, hookSet := s.hookSet, dead := true }

/-- Run a schedule (a list of thread indices). -/
def Sys.run (y : Sys) : List Nat → Sys
  | [] => y
  | i :: rest => (y.step i).run rest

/-- A thread running alone for `n` steps against a fixed hook that is already installed. -/
def Thread.solo (hook : Hook) : Nat → Thread → Thread
  | 0, t => t
  | n + 1, t =>
    match tstep { loc := t.loc, hook := hook, hookSet := true } t.code with
    | .next s k evs => Thread.solo hook n { loc := s.loc, code := k, tr := t.tr ++ evs }
    | _ => t

/-! ## `panic_catcher_set_hook` at sub-call granularity (note F7)

The function is `load; take_hook; set_hook; store` without a lock.  Each thread has two
registers: what it loaded and what it took. -/

inductive SubStep
  | load | take | set | store
deriving DecidableEq, Repr

structure HookRegs where
  sawSet : Option Bool := none
  taken : Option Hook := none
deriving Repr, Inhabited

structure HookSys where
  hook : Hook := .sentinel
  hookSet : Bool := false
  regs : List HookRegs
deriving Repr, Inhabited

def HookSys.sub (y : HookSys) (i : Nat) (a : SubStep) : HookSys :=
  match y.regs[i]? with
  | none => y
  | some r =>
    match a with
    | .load => { y with regs := y.regs.set i { r with sawSet := some y.hookSet } }
    | .take =>
      if r.sawSet = some false then
        { y with hook := .default, regs := y.regs.set i { r with taken := some y.hook } }
      else y
    | .set =>
      match r.taken with
      | some h => { y with hook := .catcher h }
      | none => y
    | .store => if r.taken.isSome then { y with hookSet := true } else y

def HookSys.runSub (y : HookSys) : List (Nat × SubStep) → HookSys
  | [] => y
  | (i, a) :: rest => (y.sub i a).runSub rest

/-- Does a panic at level 0 in fallback mode Continue end up in the sentinel? -/
def Hook.reachesSentinel : Hook → Bool
  | .default => false
  | .sentinel => true
  | .catcher next => next.reachesSentinel

end WfModel.PanicCatcher
