import WfModel.Model.Ty
import WfModel.Model.Scheme
/-!
Execution context — `engine/src/execution_context.rs:49-291`, the checked container
constructors `lhs_types/array.rs:196-251`, `lhs_types/map.rs:168-194`, and the scheme check
of `Filter::execute` / `FilterValue::execute` (`filter.rs:203-237`).  No Mathlib/Std imports.

Where Rust would panic (`assert!`, slice index out of bounds) the model returns an explicit
`stuck`/`panic` outcome.
-/
namespace WfModel.Ctx
open WfModel WfModel.Scheme

/-! ### checked constructors of arrays and maps -/

/-- `TypeMismatchError { expected, actual }` -/
structure TypeMismatch where
  expected : Ty
  actual : Ty
deriving DecidableEq, Repr, Inhabited

/-- the element loop of `Array::try_from_vec` / `try_from_iter`: first element whose type
is not `t` aborts -/
def checkElems (t : Ty) : List Val → Except TypeMismatch Unit
  | [] => .ok ()
  | x :: xs => if x.typeOf = t then checkElems t xs else .error ⟨t, x.typeOf⟩

/-- `Array::try_from_vec(val_type, vec)` (and `try_from_iter`) -/
def arrayTryFromVec (t : Ty) (xs : List Val) : Except TypeMismatch Val :=
  match checkElems t xs with
  | .ok () => .ok (.array t xs)
  | .error e => .error e

def checkEntries (t : Ty) : List (Bytes × Val) → Except TypeMismatch Unit
  | [] => .ok ()
  | (_, x) :: xs => if x.typeOf = t then checkEntries t xs else .error ⟨t, x.typeOf⟩

/-- `BTreeMap::insert`: keeps keys strictly ascending, an equal key is overwritten -/
def insertKv (k : Bytes) (v : Val) : List (Bytes × Val) → List (Bytes × Val)
  | [] => [(k, v)]
  | (l, w) :: rest =>
    if Val.bytesLt k l then (k, v) :: (l, w) :: rest
    else if Val.bytesLt l k then (l, w) :: insertKv k v rest
    else (k, v) :: rest

/-- `collect::<BTreeMap<_, _>>()` in iteration order (later duplicates win) -/
def collectMap : List (Bytes × Val) → List (Bytes × Val) → List (Bytes × Val)
  | acc, [] => acc
  | acc, (k, v) :: rest => collectMap (insertKv k v acc) rest

/-- `Map::try_from_iter(val_type, iter)` -/
def mapTryFromIter (t : Ty) (kvs : List (Bytes × Val)) : Except TypeMismatch Val :=
  match checkEntries t kvs with
  | .ok () => .ok (.map t (collectMap [] kvs))
  | .error e => .error e

mutual
/-- Build a value bottom-up through the checked constructors from an unchecked description
(the tree that the line protocol carries): the only way client code can make containers. -/
def construct : Val → Except TypeMismatch Val
  | .array t xs =>
    match constructList xs with
    | .ok ys => arrayTryFromVec t ys
    | .error e => .error e
  | .map t kvs =>
    match constructKvs kvs with
    | .ok ys => mapTryFromIter t ys
    | .error e => .error e
  | v => .ok v
def constructList : List Val → Except TypeMismatch (List Val)
  | [] => .ok []
  | x :: xs =>
    match construct x with
    | .ok y =>
      match constructList xs with
      | .ok ys => .ok (y :: ys)
      | .error e => .error e
    | .error e => .error e
def constructKvs : List (Bytes × Val) → Except TypeMismatch (List (Bytes × Val))
  | [] => .ok []
  | (k, x) :: xs =>
    match construct x with
    | .ok y =>
      match constructKvs xs with
      | .ok ys => .ok ((k, y) :: ys)
      | .error e => .error e
    | .error e => .error e
end

/-! ### the context -/

/-- `ExecutionContext { scheme, values }` (list matchers and user data are not part of C08's
observations) -/
structure Ctx where
  scheme : Scheme
  values : List (Option Val)
deriving Repr, Inhabited

/-- `FieldRef { scheme, index }` -/
structure FieldRef where
  scheme : Scheme
  index : Nat
deriving Repr, Inhabited

/-- `SetFieldValueError`, plus `stuck` for a Rust panic (index out of bounds) -/
inductive SetErr
  | typeMismatch (expected actual : Ty)
  | schemeMismatch
  | unknownField
  | stuck
deriving DecidableEq, Repr, Inhabited

namespace Ctx

/-- `ExecutionContext::new` -/
def new (s : Scheme) : Ctx := ⟨s, List.replicate s.fieldCount none⟩

/-- the common tail of both setters: `if field_type == value_type { Ok(values[i].replace(v)) }
else { Err(TypeMismatch) }` -/
def setAt (c : Ctx) (i : Nat) (ft : Ty) (v : Val) : Except SetErr (Option Val × Ctx) :=
  if ft = v.typeOf then
    match c.values[i]? with
    | some prev => .ok (prev, { c with values := c.values.set i (some v) })
    | none => .error .stuck
  else .error (.typeMismatch ft v.typeOf)

/-- `set_field_value`: scheme identity first, then full type equality -/
def setByField (c : Ctx) (f : FieldRef) (v : Val) : Except SetErr (Option Val × Ctx) :=
  if c.scheme.same f.scheme then
    match f.scheme.fieldTy? f.index with
    | some ft => c.setAt f.index ft v
    | none => .error .stuck
  else .error .schemeMismatch

/-- `set_field_value_from_name` -/
def setByName (c : Ctx) (n : Name) (v : Val) : Except SetErr (Option Val × Ctx) :=
  match c.scheme.getField n with
  | none => .error .unknownField
  | some i =>
    match c.scheme.fieldTy? i with
    | some ft => c.setAt i ft v
    | none => .error .stuck

/-- `get_field_value`; `none` = panic (`assert!(self.scheme() == field.scheme())`, or index) -/
def get (c : Ctx) (f : FieldRef) : Option (Option Val) :=
  if c.scheme.same f.scheme then c.values[f.index]? else none

/-- `clear` -/
def clear (c : Ctx) : Ctx := { c with values := c.values.map fun _ => none }

/-- `clone_with` -/
def cloneWith (c : Ctx) : Ctx := { scheme := c.scheme, values := c.values }

/-- `take_with` -/
def takeWith (c : Ctx) : Ctx := { scheme := c.scheme, values := c.values }

/-- `Filter::execute` / `FilterValue::execute`: the evaluation `eval` runs only when the
context is bound to the scheme the filter was parsed with. `none` = `SchemeMismatchError`. -/
def execute {α} (c : Ctx) (filterScheme : Scheme) (eval : Ctx → α) : Option α :=
  if c.scheme.same filterScheme then some (eval c) else none

end Ctx

/-- `ExecutionContextGuard { old, new }` -/
structure Guard where
  old : Ctx
  new : Ctx
deriving Repr, Inhabited

/-- `borrow_with` → `ExecutionContextGuard::new`: `mem::take` empties the original -/
def Ctx.borrow (c : Ctx) : Guard := { old := { c with values := [] }, new := { scheme := c.scheme, values := c.values } }

/-- `impl Drop for ExecutionContextGuard` -/
def Guard.drop (g : Guard) : Ctx := { g.old with values := g.new.values }

/-! ### operation histories (what the `ctxop` stream runs)

The environment is the context's scheme `own` and a second scheme `other` (built by the
same calls). One original context, at most one live guard on it (while it lives every
operation on the original goes through the guard, as the borrow checker demands), at most
one clone. -/

inductive Target
  | orig | clone
deriving DecidableEq, Repr, Inhabited

/-- which scheme a `FieldRef` / filter was obtained from -/
inductive Sel
  | own | other
deriving DecidableEq, Repr, Inhabited

inductive Op
  | setField (t : Target) (s : Sel) (i : Nat) (v : Val)
  | setName (t : Target) (n : Name) (v : Val)
  | get (t : Target) (s : Sel) (i : Nat)
  | clear (t : Target)
  | clone
  | borrow
  | drop
  | take (t : Target)
  | exec (t : Target) (s : Sel)
deriving Repr, Inhabited

inductive Res
  /-- successful set: the previous value -/
  | prev (p : Option Val)
  | errType | errScheme | errUnknown
  /-- the value could not be built: a checked constructor refused it -/
  | ctorErr
  /-- get -/
  | value (v : Option Val)
  | done
  /-- the op had no object (no clone / no guard / guard already open) -/
  | nop
  | execOk
  | panic
deriving Repr, Inhabited

def SetErr.res : SetErr → Res
  | .typeMismatch _ _ => .errType
  | .schemeMismatch => .errScheme
  | .unknownField => .errUnknown
  | .stuck => .panic

structure Env where
  own : Scheme
  other : Scheme
deriving Repr, Inhabited

def Env.pick (e : Env) : Sel → Scheme
  | .own => e.own
  | .other => e.other

structure St where
  /-- the original context (its `values` are taken out while a guard lives) -/
  a : Ctx
  /-- the guard's context (`guard.new`) while a guard lives; `guard.old` is `a` -/
  g : Option Ctx
  /-- the clone -/
  b : Option Ctx
deriving Repr, Inhabited

namespace St

def init (e : Env) : St := { a := Ctx.new e.own, g := none, b := none }

/-- the context that operations on the original reach -/
def vis (st : St) : Ctx :=
  match st.g with
  | some gn => gn
  | none => st.a

def setVis (st : St) (c : Ctx) : St :=
  match st.g with
  | some _ => { st with g := some c }
  | none => { st with a := c }

def tgt (st : St) : Target → Option Ctx
  | .orig => some st.vis
  | .clone => st.b

def setTgt (st : St) : Target → Ctx → St
  | .orig, c => st.setVis c
  | .clone, c => { st with b := some c }

end St

def setRes (st : St) (t : Target) : Except SetErr (Option Val × Ctx) → St × Res
  | .ok (p, c') => (st.setTgt t c', .prev p)
  | .error e => (st, e.res)

def step (e : Env) (st : St) : Op → St × Res
  | .setField t s i v =>
    match st.tgt t with
    | none => (st, .nop)
    | some c =>
      match construct v with
      | .error _ => (st, .ctorErr)
      | .ok v' => setRes st t (c.setByField ⟨e.pick s, i⟩ v')
  | .setName t n v =>
    match st.tgt t with
    | none => (st, .nop)
    | some c =>
      match construct v with
      | .error _ => (st, .ctorErr)
      | .ok v' => setRes st t (c.setByName n v')
  | .get t s i =>
    match st.tgt t with
    | none => (st, .nop)
    | some c =>
      match c.get ⟨e.pick s, i⟩ with
      | some v => (st, .value v)
      | none => (st, .panic)
  | .clear t =>
    match st.tgt t with
    | none => (st, .nop)
    | some c => (st.setTgt t c.clear, .done)
  | .clone => ({ st with b := some st.vis.cloneWith }, .done)
  | .borrow =>
    match st.g with
    | some _ => (st, .nop)
    | none => let g := st.a.borrow; ({ st with a := g.old, g := some g.new }, .done)
  | .drop =>
    match st.g with
    | some gn => ({ st with a := Guard.drop ⟨st.a, gn⟩, g := none }, .done)
    | none => (st, .nop)
  | .take t =>
    match st.tgt t with
    | none => (st, .nop)
    | some c => (st.setTgt t c.takeWith, .done)
  | .exec t s =>
    match st.tgt t with
    | none => (st, .nop)
    | some c =>
      match c.execute (e.pick s) (fun _ => ()) with
      | some () => (st, .execOk)
      | none => (st, .errScheme)

def run (e : Env) : St → List Op → St × List Res
  | st, [] => (st, [])
  | st, op :: ops =>
    let (st', r) := step e st op
    let (stf, rs) := run e st' ops
    (stf, r :: rs)

/-- end of scope: a guard still alive is dropped -/
def finish (st : St) : St :=
  match st.g with
  | some gn => { st with a := Guard.drop ⟨st.a, gn⟩, g := none }
  | none => st

end WfModel.Ctx
