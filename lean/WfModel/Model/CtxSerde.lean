import WfModel.Model.Ty
import WfModel.Model.J
/-!
# Execution-context (de)serialization over a JSON tree  (property C14)

Mirrors, function by function,

* `engine/src/types.rs:780-828`        `Serialize for LhsValue`, `LhsValueSeed`
* `engine/src/lhs_types/bytes.rs:250-346`  `Bytes` as string **or** sequence of `u8`
* `engine/src/lhs_types/array.rs:399-440`  `Array` (de)serializer, element type re-check
* `engine/src/lhs_types/map.rs:334-487`    `Map` as object **or** array of `[key, value]` pairs
* `engine/src/execution_context.rs:293-535` context (de)serializer incl. the `$lists` section
* derived `Deserialize for Type` / `CompoundType` (`types.rs:901-941`) for the list `type` tag

over the JSON *tree* `J` (objects keep document order).  The text layer (serde_json) is glue and
lives in the driver, not here.  No imports outside the model (core Lean only).

Things the Rust does that are easy to get wrong and are mirrored here:

* Both map encodings are accepted at every level, whatever the keys look like; both go through
  `BTreeMap::insert`, so a **duplicate key is not an error: the last entry wins**, and the
  pair-array form may list its pairs in any order.
* A `[key, value]` pair must have exactly two elements; the key is a `Bytes` (string or `u8`
  sequence).
* At the context level a repeated field name overwrites; `$lists` may occur repeatedly; a list
  entry is `{"type": …, "data": …}` **in exactly that order** and nothing else (finding F6).
* Unknown field names are rejected before the value is looked at.
* `Type` tags: `"Int"` or `{"Int": null}` (serde accepts both for unit variants),
  `{"Array": …}`; the inner position is a `CompoundType`, which cannot hold more than 32 layers.
-/
namespace WfModel.CtxSerde
open WfModel

/-! ## UTF-8 (what `std::str::from_utf8` accepts; `str::as_bytes`) -/

/-- continuation byte `10xxxxxx` -/
def isCont (b : UInt8) : Bool := 128 ≤ b.toNat && b.toNat < 192

/-- Decode well-formed UTF-8 (shortest form, no surrogates, ≤ U+10FFFF); `none` exactly when
`std::str::from_utf8` returns `Err`. -/
def utf8Decode? : List UInt8 → Option (List Char)
  | [] => some []
  | b0 :: r =>
    if b0.toNat < 128 then (utf8Decode? r).map (Char.ofNat b0.toNat :: ·)
    else if b0.toNat < 194 then none
    else if b0.toNat < 224 then
      match r with
      | b1 :: r =>
        if isCont b1 then
          (utf8Decode? r).map (Char.ofNat ((b0.toNat - 192) * 64 + (b1.toNat - 128)) :: ·)
        else none
      | _ => none
    else if b0.toNat < 240 then
      match r with
      | b1 :: b2 :: r =>
        if isCont b1 && isCont b2
            && 2048 ≤ (b0.toNat - 224) * 4096 + (b1.toNat - 128) * 64 + (b2.toNat - 128)
            && !(55296 ≤ (b0.toNat - 224) * 4096 + (b1.toNat - 128) * 64 + (b2.toNat - 128)
                 && (b0.toNat - 224) * 4096 + (b1.toNat - 128) * 64 + (b2.toNat - 128) < 57344) then
          (utf8Decode? r).map
            (Char.ofNat ((b0.toNat - 224) * 4096 + (b1.toNat - 128) * 64 + (b2.toNat - 128)) :: ·)
        else none
      | _ => none
    else if b0.toNat < 245 then
      match r with
      | b1 :: b2 :: b3 :: r =>
        if isCont b1 && isCont b2 && isCont b3
            && 65536 ≤ (b0.toNat - 240) * 262144 + (b1.toNat - 128) * 4096
                        + (b2.toNat - 128) * 64 + (b3.toNat - 128)
            && (b0.toNat - 240) * 262144 + (b1.toNat - 128) * 4096
                        + (b2.toNat - 128) * 64 + (b3.toNat - 128) < 1114112 then
          (utf8Decode? r).map
            (Char.ofNat ((b0.toNat - 240) * 262144 + (b1.toNat - 128) * 4096
                        + (b2.toNat - 128) * 64 + (b3.toNat - 128)) :: ·)
        else none
      | _ => none
    else none

def utf8Valid (bs : List UInt8) : Bool := (utf8Decode? bs).isSome

/-- UTF-8 encoding of one code point -/
def encodeCp (n : Nat) : List UInt8 :=
  if n < 128 then [UInt8.ofNat n]
  else if n < 2048 then [UInt8.ofNat (192 + n / 64), UInt8.ofNat (128 + n % 64)]
  else if n < 65536 then
    [UInt8.ofNat (224 + n / 4096), UInt8.ofNat (128 + n / 64 % 64), UInt8.ofNat (128 + n % 64)]
  else
    [UInt8.ofNat (240 + n / 262144), UInt8.ofNat (128 + n / 4096 % 64),
     UInt8.ofNat (128 + n / 64 % 64), UInt8.ofNat (128 + n % 64)]

def utf8Encode : List Char → List UInt8
  | [] => []
  | c :: cs => encodeCp c.toNat ++ utf8Encode cs

/-- `String::as_bytes` / `into_bytes` -/
def strBytes (s : String) : Bytes := utf8Encode s.toList

/-! ## Errors -/

/-- Why a document is rejected.  Only `err` is compared with the implementation; the kinds
document the site.  `stuck` stands for the `unreachable!()` in the context visitor
(`SetFieldValueError::SchemeMismatch`) and is proved never to be returned. -/
inductive E
  | invalidType   -- JSON shape does not fit the seeded type (serde `invalid type`)
  | outOfRange    -- integer outside `i64` / `u8`
  | badIp         -- `IpAddr::from_str` failed
  | pairLength    -- `[key, value]` pair with ≠ 2 elements
  | typeMismatch  -- element / field type re-check failed
  | unknownField
  | badType       -- malformed `Type` tag
  | typeLayers    -- `Type` tag with ≥ 34 layers (unfixed code: panic in `CompoundType::from_type`, F3)
  | noList        -- no list registered for the tag's type
  | listKey       -- list entry is not exactly `type` then `data`
  | matcher       -- the list definition rejected the payload
  | stuck
deriving DecidableEq, Repr, Inhabited

/-! ## IP text (third-party: `std::net` formatter and parser) -/

/-- `Display for IpAddr` and `IpAddr::from_str`, abstract. -/
structure IpText where
  toStr : Ip → String
  ofStr : String → Option Ip

def ipInRange : Ip → Bool
  | .v4 a => a < 4294967296
  | .v6 a => a < 340282366920938463463374607431768211456

/-- parsing the canonical rendering gives the address back (explicit hypothesis of the
round-trip theorems; exercised for the real `std` by the correspondence run) -/
def IpText.RoundTrip (T : IpText) : Prop := ∀ a, ipInRange a = true → T.ofStr (T.toStr a) = some a

/-! ## Serialization of values -/

def serBytes (b : Bytes) : J :=
  match utf8Decode? b with
  | some cs => .str (String.ofList cs)
  | none => .arr (b.map fun x => .int (Int.ofNat x.toNat))

def allKeysUtf8 : List (Bytes × Val) → Bool
  | [] => true
  | (k, _) :: rest => utf8Valid k && allKeysUtf8 rest

/-- key of the object form: `std::str::from_utf8(k).unwrap()` — only reached when `to_map`. -/
def keyStr (k : Bytes) : String :=
  match utf8Decode? k with
  | some cs => String.ofList cs
  | none => ""

mutual
/-- `Serialize for LhsValue` (`Ip` via its `Display`, `Bytes`/`Map` with dual encodings).
Map entries are emitted in stored order, which for a `BTreeMap` is ascending key order
(`keys.sort()` in the pair-array arm is a no-op on it; `Val.wf` carries that invariant). -/
def serVal (T : IpText) : Val → J
  | .bool b => .bool b
  | .int i => .int i
  | .ip a => .str (T.toStr a)
  | .bytes b => serBytes b
  | .array _ xs => .arr (serList T xs)
  | .map _ kvs => if allKeysUtf8 kvs then .obj (serObj T kvs) else .arr (serPairs T kvs)
def serList (T : IpText) : List Val → List J
  | [] => []
  | x :: xs => serVal T x :: serList T xs
def serObj (T : IpText) : List (Bytes × Val) → List (String × J)
  | [] => []
  | (k, x) :: rest => (keyStr k, serVal T x) :: serObj T rest
def serPairs (T : IpText) : List (Bytes × Val) → List J
  | [] => []
  | (k, x) :: rest => .arr [serBytes k, serVal T x] :: serPairs T rest
end

/-! ## Deserialization of values (`LhsValueSeed`) -/

/-- `Vec<u8>` elements of the sequence form of `Bytes` -/
def deByteElems : List J → Except E Bytes
  | [] => .ok []
  | .int i :: rest =>
    if 0 ≤ i ∧ i ≤ 255 then
      match deByteElems rest with
      | .ok bs => .ok (UInt8.ofNat i.toNat :: bs)
      | .error e => .error e
    else .error .outOfRange
  | _ :: _ => .error .invalidType

/-- `Deserialize for Bytes`: a string (its UTF-8 bytes) or a sequence of `u8`. -/
def deBytes : J → Except E Bytes
  | .str s => .ok (strBytes s)
  | .arr xs => deByteElems xs
  | _ => .error .invalidType

/-- `BTreeMap::insert` on the ascending entry list: replace on equal key. -/
def mapInsert (k : Bytes) (v : Val) : List (Bytes × Val) → List (Bytes × Val)
  | [] => [(k, v)]
  | (l, w) :: rest =>
    if k = l then (k, v) :: rest
    else if Val.bytesLt k l then (k, v) :: (l, w) :: rest
    else (l, w) :: mapInsert k v rest

def insertAll (acc : List (Bytes × Val)) : List (Bytes × Val) → List (Bytes × Val)
  | [] => acc
  | (k, v) :: rest => insertAll (mapInsert k v acc) rest

mutual
/-- `LhsValueSeed(ty).deserialize`.  Containers start from `Array::new(ty)` / `Map::new(ty)`;
elements are deserialized with the element type as seed **and** re-checked against it
(`array.rs:425`, `map.rs:437,468`); map entries are inserted one by one (last wins). The
entry lists are converted first and inserted afterwards — same outcome as the interleaved
loop, because insertion cannot fail and the container is dropped on error. -/
def deVal (T : IpText) : Ty → J → Except E Val
  | .bool, .bool b => .ok (.bool b)
  | .int, .int i =>
    if -9223372036854775808 ≤ i ∧ i ≤ 9223372036854775807 then .ok (.int i) else .error .outOfRange
  | .ip, .str s =>
    match T.ofStr s with
    | some a => .ok (.ip a)
    | none => .error .badIp
  | .bytes, j =>
    match deBytes j with
    | .ok b => .ok (.bytes b)
    | .error e => .error e
  | .array t, .arr xs =>
    match deElems T t xs with
    | .ok vs => .ok (.array t vs)
    | .error e => .error e
  | .map t, .obj kvs =>
    match deObj T t kvs with
    | .ok es => .ok (.map t (insertAll [] es))
    | .error e => .error e
  | .map t, .arr xs =>
    match dePairs T t xs with
    | .ok es => .ok (.map t (insertAll [] es))
    | .error e => .error e
  | _, _ => .error .invalidType
/-- `ArrayVisitor::visit_seq` (elements in order, appended to the empty seed) -/
def deElems (T : IpText) (t : Ty) : List J → Except E (List Val)
  | [] => .ok []
  | j :: rest =>
    match deVal T t j with
    | .error e => .error e
    | .ok v =>
      if v.typeOf = t then
        match deElems T t rest with
        | .ok vs => .ok (v :: vs)
        | .error e => .error e
      else .error .typeMismatch
/-- `MapVisitor::visit_map` -/
def deObj (T : IpText) (t : Ty) : List (String × J) → Except E (List (Bytes × Val))
  | [] => .ok []
  | (k, j) :: rest =>
    match deVal T t j with
    | .error e => .error e
    | .ok v =>
      if v.typeOf = t then
        match deObj T t rest with
        | .ok es => .ok ((strBytes k, v) :: es)
        | .error e => .error e
      else .error .typeMismatch
/-- `MapVisitor::visit_seq` over `MapEntrySeed` -/
def dePairs (T : IpText) (t : Ty) : List J → Except E (List (Bytes × Val))
  | [] => .ok []
  | .arr [kj, vj] :: rest =>
    match deBytes kj with
    | .error e => .error e
    | .ok k =>
      match deVal T t vj with
      | .error e => .error e
      | .ok v =>
        if v.typeOf = t then
          match dePairs T t rest with
          | .ok es => .ok ((k, v) :: es)
          | .error e => .error e
        else .error .typeMismatch
  | .arr _ :: _ => .error .pairLength
  | _ :: _ => .error .invalidType
end

/-! ## `Type` tags -/

def tyToJ : Ty → J
  | .bool => .str "Bool"
  | .int => .str "Int"
  | .ip => .str "Ip"
  | .bytes => .str "Bytes"
  | .array t => .obj [("Array", tyToJ t)]
  | .map t => .obj [("Map", tyToJ t)]

def primOfName (s : String) : Option Ty :=
  if s = "Bool" then some .bool
  else if s = "Int" then some .int
  else if s = "Ip" then some .ip
  else if s = "Bytes" then some .bytes
  else none

/-- `CompoundType` holds at most this many layers (`push` fails at `len >= 32`). -/
def maxCompoundLayers : Nat := 32

mutual
/-- derived `Deserialize for Type`.  The payload of `Array`/`Map` is a `CompoundType`
(`Type::deserialize` then packing): more than 32 layers there cannot be represented. The
unfixed code panics at that point (F3); the property demands an error, which is what the
model returns (`E.typeLayers`). -/
def tyOfJ : J → Except E Ty
  | .str s =>
    match primOfName s with
    | some t => .ok t
    | none => .error .badType
  | .obj kvs => tyOfVariant kvs
  | _ => .error .badType
def tyOfVariant : List (String × J) → Except E Ty
  | [(k, j)] =>
    if k = "Array" then
      match tyOfJ j with
      | .ok t => if t.layers ≤ maxCompoundLayers then .ok (.array t) else .error .typeLayers
      | .error e => .error e
    else if k = "Map" then
      match tyOfJ j with
      | .ok t => if t.layers ≤ maxCompoundLayers then .ok (.map t) else .error .typeLayers
      | .error e => .error e
    else
      match primOfName k, j with
      | some t, .null => .ok t
      | _, _ => .error .badType
  | _ => .error .badType
end

/-! ## Scheme and context -/

structure Field where
  name : String
  ty : Ty
  optional : Bool := false
deriving Repr, DecidableEq

/-- A registered list: its type and the (harness- or user-defined) matcher, abstract: `M` is
the matcher state, `ser`/`de` are `erased_serde::Serialize for dyn ListMatcher` and
`ListDefinition::deserialize_matcher`, `new` is `new_matcher`. -/
structure ListDef (M : Type) where
  ty : Ty
  new : M
  ser : M → J
  de : J → Except E M

structure Scheme (M : Type) where
  fields : List Field
  lists : List (ListDef M)

/-- `ExecutionContext`: one slot per field (index = position in the scheme), one matcher per
list. -/
structure Ctx (M : Type) where
  values : List (Option Val)
  matchers : List M

def Ctx.new {M} (s : Scheme M) : Ctx M :=
  { values := s.fields.map fun _ => none, matchers := s.lists.map (·.new) }

/-- `Scheme::get_field(name)` → (index, type) -/
def findField (name : String) : List Field → Option (Nat × Ty)
  | [] => none
  | f :: fs =>
    if f.name = name then some (0, f.ty)
    else match findField name fs with
      | some (i, t) => some (i + 1, t)
      | none => none

/-- `Scheme::get_list(ty)` → index and definition -/
def findList {M} (ty : Ty) : List (ListDef M) → Option (Nat × ListDef M)
  | [] => none
  | d :: ds =>
    if d.ty = ty then some (0, d)
    else match findList ty ds with
      | some (i, d) => some (i + 1, d)
      | none => none

/-- `set_field_value_from_name`: unknown name / type mismatch are errors; otherwise the slot
is replaced. -/
def setFieldFromName {M} (s : Scheme M) (c : Ctx M) (name : String) (v : Val) : Except E (Ctx M) :=
  match findField name s.fields with
  | none => .error .unknownField
  | some (i, ty) =>
    if ty = v.typeOf then .ok { c with values := c.values.set i (some v) }
    else .error .typeMismatch

/-- well-formed scheme: names unique (`add_field` refuses duplicates), no field called
`$lists` (it would be shadowed by the list section), one list per type (`add_list`), list types
representable. -/
def Scheme.WF {M} (s : Scheme M) : Prop :=
  (s.fields.map (·.name)).Nodup ∧ "$lists" ∉ s.fields.map (·.name) ∧
  (s.lists.map (·.ty)).Nodup ∧ ∀ d ∈ s.lists, d.ty.layers ≤ maxCompoundLayers + 1

/-- every stored value has its field's declared type and is a well-formed value; the two
tables have the scheme's shape -/
def typedVals : List Field → List (Option Val) → Bool
  | [], [] => true
  | _ :: fs, none :: vs => typedVals fs vs
  | f :: fs, some v :: vs => (v.typeOf = f.ty) && v.wf && typedVals fs vs
  | _, _ => false

def CtxTyped {M} (s : Scheme M) (c : Ctx M) : Prop :=
  typedVals s.fields c.values = true ∧ c.matchers.length = s.lists.length

/-! ### value ranges (`i64`, 32/128-bit addresses) -/
mutual
def valInRange : Val → Bool
  | .int i => decide (-9223372036854775808 ≤ i ∧ i ≤ 9223372036854775807)
  | .ip a => ipInRange a
  | .array _ xs => listInRange xs
  | .map _ kvs => kvsInRange kvs
  | _ => true
def listInRange : List Val → Bool
  | [] => true
  | x :: xs => valInRange x && listInRange xs
def kvsInRange : List (Bytes × Val) → Bool
  | [] => true
  | (_, x) :: rest => valInRange x && kvsInRange rest
end

def valsInRange : List (Option Val) → Bool
  | [] => true
  | none :: vs => valsInRange vs
  | some v :: vs => valInRange v && valsInRange vs

/-- the model's `Int`/`Nat` payloads are ones the Rust types can hold -/
def CtxRepr {M} (c : Ctx M) : Prop := valsInRange c.values = true

/-- each matcher's own (de)serializer round-trips its current state (hypothesis on the
user-supplied `ListDefinition`) -/
def matchersRoundTrip {M} : List (ListDef M) → List M → Prop
  | d :: ds, m :: ms => d.de (d.ser m) = .ok m ∧ matchersRoundTrip ds ms
  | _, _ => True

/-! ## Serialization of a context -/

def serFields (T : IpText) : List Field → List (Option Val) → List (String × J)
  | f :: fs, some v :: vs => (f.name, serVal T v) :: serFields T fs vs
  | _ :: fs, none :: vs => serFields T fs vs
  | _, _ => []

def serLists {M} : List (ListDef M) → List M → List J
  | d :: ds, m :: ms => .obj [("type", tyToJ d.ty), ("data", d.ser m)] :: serLists ds ms
  | _, _ => []

/-- `Serialize for ExecutionContext`: set fields in scheme order, then `$lists` unless the
context has no matchers. -/
def serCtx {M} (T : IpText) (s : Scheme M) (c : Ctx M) : J :=
  .obj (serFields T s.fields c.values ++
    (if c.matchers.isEmpty then [] else [("$lists", .arr (serLists s.lists c.matchers))]))

/-! ## Deserialization of a context -/

/-- `ListMatcherEntryVisitor::visit_map`: first key must be `type`, second `data`, nothing may
follow (serde_json's `end_map`). -/
def deListEntry {M} (s : Scheme M) (c : Ctx M) : J → Except E (Ctx M)
  | .obj [] => .error .listKey
  | .obj ((k1, tj) :: rest) =>
    if k1 = "type" then
      match tyOfJ tj with
      | .error e => .error e
      | .ok ty =>
        match findList ty s.lists with
        | none => .error .noList
        | some (i, d) =>
          match rest with
          | [] => .error .listKey
          | (k2, dj) :: rest2 =>
            if k2 = "data" then
              match d.de dj with
              | .error _ => .error .matcher   -- `.map_err(D::Error::custom)`
              | .ok m =>
                match rest2 with
                | [] => .ok { c with matchers := c.matchers.set i m }
                | _ :: _ => .error .listKey
            else .error .listKey
    else .error .listKey
  | _ => .error .invalidType

def deListEntries {M} (s : Scheme M) : List J → Ctx M → Except E (Ctx M)
  | [], c => .ok c
  | j :: rest, c =>
    match deListEntry s c j with
    | .ok c' => deListEntries s rest c'
    | .error e => .error e

/-- `ListMatcherSlice` seed -/
def deLists {M} (s : Scheme M) (c : Ctx M) : J → Except E (Ctx M)
  | .arr es => deListEntries s es c
  | _ => .error .invalidType

/-- `ExecutionContextVisitor::visit_map` -/
def deEntries {M} (T : IpText) (s : Scheme M) : List (String × J) → Ctx M → Except E (Ctx M)
  | [], c => .ok c
  | (k, j) :: rest, c =>
    if k = "$lists" then
      match deLists s c j with
      | .ok c' => deEntries T s rest c'
      | .error e => .error e
    else
      match findField k s.fields with
      | none => .error .unknownField
      | some (_, ty) =>
        match deVal T ty j with
        | .error e => .error e
        | .ok v =>
          match setFieldFromName s c k v with
          | .ok c' => deEntries T s rest c'
          | .error .unknownField => .error .unknownField
          | .error .typeMismatch => .error .typeMismatch
          | .error _ => .error .stuck   -- `SchemeMismatch(_) => unreachable!()`

/-- `DeserializeSeed for &mut ExecutionContext` (on success; on error the Rust leaves the
fields processed so far in place — the model reports only the error). -/
def deCtx {M} (T : IpText) (s : Scheme M) (j : J) (c : Ctx M) : Except E (Ctx M) :=
  match j with
  | .obj kvs => deEntries T s kvs c
  | _ => .error .invalidType

/-! ## `serde_json::Value` (no `preserve_order`): objects are `BTreeMap<String, Value>` -/

/-- strict order of `String` = lexicographic by code point -/
def strLt : List Char → List Char → Bool
  | [], [] => false
  | [], _ :: _ => true
  | _ :: _, [] => false
  | a :: as, b :: bs =>
    if a.toNat < b.toNat then true else if b.toNat < a.toNat then false else strLt as bs

def strInsert (k : String) (v : J) : List (String × J) → List (String × J)
  | [] => [(k, v)]
  | (l, w) :: rest =>
    if k = l then (k, v) :: rest
    else if strLt k.toList l.toList then (k, v) :: (l, w) :: rest
    else (l, w) :: strInsert k v rest

end WfModel.CtxSerde

namespace WfModel
open CtxSerde

mutual
/-- What parsing a document into `serde_json::Value` does to it: every object becomes a
key-sorted map, a repeated key keeps its last value. -/
def J.sortKeys : J → J
  | .arr xs => .arr (J.sortKeysList xs)
  | .obj kvs => .obj (J.sortKeysObj kvs [])
  | j => j
def J.sortKeysList : List J → List J
  | [] => []
  | x :: xs => J.sortKeys x :: J.sortKeysList xs
def J.sortKeysObj : List (String × J) → List (String × J) → List (String × J)
  | [], acc => acc
  | (k, v) :: rest, acc => J.sortKeysObj rest (strInsert k (J.sortKeys v) acc)
end

end WfModel
