/-
`Type` (engine/src/types.rs, `declare_types!`): the recursive form of a field type, and
`LhsValue` as an immutable value.  Import-free.
-/
namespace WfModel

/-- `Type`; variant order as in `declare_types!` (Bool, Int, Ip, Bytes, Array, Map). -/
inductive Ty
  | bool | int | ip | bytes
  | array (t : Ty)
  | map (t : Ty)
deriving DecidableEq, Repr, Inhabited

namespace Ty

/-- `Type::next`. -/
def next : Ty → Option Ty
  | array t => some t
  | map t => some t
  | _ => none

/-- number of container layers -/
def layers : Ty → Nat
  | array t => t.layers + 1
  | map t => t.layers + 1
  | _ => 0

/-- the primitive at the bottom -/
def prim : Ty → Ty
  | array t => t.prim
  | map t => t.prim
  | t => t

def isPrim : Ty → Bool
  | array _ => false
  | map _ => false
  | _ => true

end Ty

/-- `IpAddr`: numeric value of the octets (big endian); `v4 a` has `a < 2^32`, `v6 a` has
`a < 2^128` (range predicates are explicit where needed). -/
inductive Ip
  | v4 (a : Nat)
  | v6 (a : Nat)
deriving DecidableEq, Repr, Inhabited

abbrev Bytes := List UInt8

/-- `LhsValue`. Arrays carry their element type (`Array::value_type`), maps their value
type; map entries are kept in strictly ascending key order (`BTreeMap`). -/
inductive Val
  | bool (b : Bool)
  | int (i : Int)
  | ip (a : Ip)
  | bytes (b : Bytes)
  | array (t : Ty) (xs : List Val)
  | map (t : Ty) (kvs : List (Bytes × Val))
deriving Repr, Inhabited

namespace Val

/-- `GetType for LhsValue`. -/
def typeOf : Val → Ty
  | bool _ => .bool
  | int _ => .int
  | ip _ => .ip
  | bytes _ => .bytes
  | array t _ => .array t
  | map t _ => .map t

mutual
def beq : Val → Val → Bool
  | bool a, bool b => a == b
  | int a, int b => a == b
  | ip a, ip b => a == b
  | bytes a, bytes b => a == b
  | array t xs, array u ys => t == u && beqList xs ys
  | map t xs, map u ys => t == u && beqKvs xs ys
  | _, _ => false
def beqList : List Val → List Val → Bool
  | [], [] => true
  | x :: xs, y :: ys => beq x y && beqList xs ys
  | _, _ => false
def beqKvs : List (Bytes × Val) → List (Bytes × Val) → Bool
  | [], [] => true
  | (k, x) :: xs, (l, y) :: ys => k == l && beq x y && beqKvs xs ys
  | _, _ => false
end

instance : BEq Val := ⟨beq⟩

/-- strict lexicographic order on byte strings (slice `Ord`) -/
def bytesLt : Bytes → Bytes → Bool
  | [], [] => false
  | [], _ :: _ => true
  | _ :: _, [] => false
  | a :: as, b :: bs => if a < b then true else if b < a then false else bytesLt as bs

def keysAscending : List (Bytes × Val) → Bool
  | [] => true
  | [_] => true
  | (k, _) :: (l, y) :: rest => bytesLt k l && keysAscending ((l, y) :: rest)

mutual
/-- Well-formedness: homogeneous containers, strictly ascending map keys. -/
def wf : Val → Bool
  | array t xs => wfList t xs
  | map t kvs => wfKvs t kvs && keysAscending kvs
  | _ => true
def wfList (t : Ty) : List Val → Bool
  | [] => true
  | x :: xs => (x.typeOf == t) && wf x && wfList t xs
def wfKvs (t : Ty) : List (Bytes × Val) → Bool
  | [] => true
  | (_, x) :: xs => (x.typeOf == t) && wf x && wfKvs t xs
end

/-- elements in iteration order (arrays: index order; maps: ascending key order) -/
def elements : Val → List Val
  | array _ xs => xs
  | map _ kvs => kvs.map (·.2)
  | _ => []

end Val
end WfModel
