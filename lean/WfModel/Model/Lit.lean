import WfModel.Model.Lex
import WfModel.Model.Ast
/-
Literal lexers: `rhs_types/int.rs`, `bytes.rs`, `ip.rs`, `list.rs`, `scheme.rs:50-86`
(`FieldIndex::lex`), `types.rs:18-32` (brace lists).  Third-party text parsers are modelled
by total functions: `i64/u8::from_str_radix`, std `IpAddr::from_str`, `cidr::IpCidr::from_str`.
Import-free.
-/
namespace WfModel

def i64Min : Int := -9223372036854775808
def i64Max : Int := 9223372036854775807
def inI64 (v : Int) : Bool := i64Min ≤ v && v ≤ i64Max

/-! ### integers -/

/-- `i64::from_str_radix`: optional sign, non-empty digits, result in range. -/
def fromStrRadixI64 (cs : List Char) (radix : Nat) : Option Int :=
  match cs with
  | '-' :: ds => (parseDigits radix ds).bind fun n =>
      let v : Int := -(n : Int); if inI64 v then some v else none
  | '+' :: ds => (parseDigits radix ds).bind fun n =>
      let v : Int := n; if inI64 v then some v else none
  | ds => (parseDigits radix ds).bind fun n =>
      let v : Int := n; if inI64 v then some v else none

/-- `parse_number((digits, rest), radix)`; error span = the digit span. -/
def parseNumber (digits rest : Input) (radix : Nat) (spanStart : Input) : LexRes Int :=
  match fromStrRadixI64 digits radix with
  | some v => .ok (v, rest)
  | none => errSpan .parseInt spanStart rest

/-- `impl Lex for i64`. Decimal literals are lexed over the maximal run of *hex* digits
(so `12ab` is one, invalid, decimal literal). -/
def lexInt (input : Input) : LexRes Int :=
  match expect input "0x" with
  | some r =>
    match takeWhile1 isAsciiHexDigit r with
    | .error e => .error e
    | .ok (ds, rest) => parseNumber ds rest 16 r
  | none =>
    if input.head? = some '0' then
      match takeWhile1 isAsciiHexDigit input with
      | .error e => .error e
      | .ok (ds, rest) => parseNumber ds rest 8 input
    else
      let withoutNeg := (expect input "-").getD input
      match takeWhile1 isAsciiHexDigit withoutNeg with
      | .error e => .error e
      | .ok (_, rest) =>
        parseNumber (input.take (input.length - rest.length)) rest 10 input

/-- `impl Lex for IntRange` -/
def lexIntRange (input : Input) : LexRes (Int × Int) :=
  match lexInt input with
  | .error e => .error e
  | .ok (first, r) =>
    match expect r ".." with
    | some r2 =>
      match lexInt r2 with
      | .error e => .error e
      | .ok (last, r3) =>
        if last < first then errSpan .incompatibleRangeBounds input r3
        else .ok ((first, last), r3)
    | none => .ok ((first, first), r)

/-! ### byte strings -/

/-- `fixed_byte(input, digits, radix)` as the language documents it: exactly `n` digits of
the radix (no sign), value ≤ 255. -/
def fixedByte (input : Input) (n radix : Nat) : LexRes UInt8 :=
  match take input n with
  | .error e => .error e
  | .ok (ds, rest) =>
    match parseDigits radix ds with
    | some v => if v ≤ 255 then .ok (UInt8.ofNat v, rest) else errSpan .parseInt input rest
    | none => errSpan .parseInt input rest

def utf8 (c : Char) : List UInt8 := String.utf8EncodeChar c

/-- `lex_quoted_string_as_vec` (input starts after the opening quote); `full` is that same
starting point (error span of a missing quote). -/
def lexQuotedGo (full : Input) : Nat → Input → List UInt8 → LexRes Bytes
  | 0, _, _ => errAt .outOfFuel full
  | _ + 1, [], _ => errAt .missingEndingQuote full
  | f + 1, '\\' :: r, acc =>
    match r with
    | [] => errAt .missingEndingQuote full
    | c :: r2 =>
      if c = '"' || c = '\\' then lexQuotedGo full f r2 (acc ++ utf8 c)
      else if c = 'x' then
        match fixedByte r2 2 16 with
        | .error e => .error e
        | .ok (b, r3) => lexQuotedGo full f r3 (acc ++ [b])
      else if '0' ≤ c && c ≤ '7' then
        match fixedByte r 3 8 with
        | .error e => .error e
        | .ok (b, r3) => lexQuotedGo full f r3 (acc ++ [b])
      else .error { kind := .invalidCharacterEscape, pos := r, len := 1 }
  | f + 1, c :: r, acc =>
    if c = '"' then .ok (acc, r) else lexQuotedGo full f r (acc ++ utf8 c)

def lexQuoted (input : Input) : LexRes Bytes := lexQuotedGo input (input.length + 1) input []

def countHashes : Input → Nat
  | '#' :: r => countHashes r + 1
  | _ => 0

/-- body scan of a raw string: the first `"` followed by at least `k` hashes ends it; the
rest starts after that quote and exactly `k` hashes. -/
def rawScan (k : Nat) : Input → List Char → Option (List Char × Input)
  | [], _ => none
  | c :: r, acc =>
    if c = '"' && countHashes r ≥ k then some (acc.reverse, r.drop k)
    else rawScan k r (c :: acc)

/-- `lex_raw_string_as_str` (input starts after the `r`) -/
def lexRawStr (input : Input) : LexRes (List Char × Nat) :=
  let k := countHashes input
  if k > 255 then errAt .invalidRawStringHashCount input
  else
    match input.drop k with
    | '"' :: body =>
      match rawScan k body [] with
      | some (s, rest) => .ok ((s, k), rest)
      | none => errAt .missingEndingQuote input
    | other => errAt .expectedName other

def utf8s (cs : List Char) : Bytes := cs.flatMap utf8

def isByteSep (c : Char) : Bool := c = ':' || c = '-' || c = '.'

/-- `ByteSeparator::lex` as an option -/
def lexByteSep : Input → Option Input
  | c :: r => if isByteSep c then some r else none
  | [] => none

/-- `ByteSeparator::lex` with its errors -/
def lexByteSepE (input : Input) : LexRes Unit :=
  match input with
  | [] => errAt .countMismatch input
  | c :: r => if isByteSep c then .ok ((), r) else .error { kind := .expectedName, pos := input, len := 1 }

/-- the loop of `lex_byte_string` after the first pair and separator -/
def lexByteStringGo : Nat → Input → Bytes → LexRes Bytes
  | 0, input, _ => errAt .outOfFuel input
  | f + 1, input, acc =>
    match fixedByte input 2 16 with
    | .error e => .error e
    | .ok (b, r) =>
      match lexByteSep r with
      | some r2 => lexByteStringGo f r2 (acc ++ [b])
      | none => .ok (acc ++ [b], r)

def lexByteString (input : Input) : LexRes Bytes :=
  match fixedByte input 2 16 with
  | .error e => .error e
  | .ok (b, r) =>
    match lexByteSepE r with
    | .error e => .error e
    | .ok (_, r2) => lexByteStringGo (r2.length + 1) r2 [b]

/-- `lex_quoted_or_raw_string` -/
def lexQuotedOrRaw (input : Input) : LexRes BytesLit :=
  match input with
  | '"' :: r => (lexQuoted r).map fun (b, rest) => ({ fmt := .quoted, data := b }, rest)
  | 'r' :: r => (lexRawStr r).map fun ((s, k), rest) => ({ fmt := .raw k, data := utf8s s }, rest)
  | [] => errAt .eof input
  | _ => errAt .expectedName input

/-- `impl Lex for BytesExpr` -/
def lexBytes (input : Input) : LexRes BytesLit :=
  match input with
  | '"' :: _ => lexQuotedOrRaw input
  | 'r' :: _ => lexQuotedOrRaw input
  | [] => errAt .eof input
  | _ => (lexByteString input).map fun (b, rest) => ({ fmt := .byte, data := b }, rest)

/-! ### IP addresses (std `IpAddr::from_str`, modelled) -/

def isRadixDigit (radix : Nat) (c : Char) : Bool :=
  match digitVal c with
  | some d => d < radix
  | none => false

/-- std `Parser::read_number(radix, Some(max_digits), allow_zero_prefix)` for a `u8`/`u16` -/
def readNum (radix maxDigits : Nat) (allowZeroPrefix : Bool) (maxVal : Nat) (s : Input) :
    Option (Nat × Input) :=
  let (ds, rest) := spanWhile (isRadixDigit radix) s
  if ds.isEmpty || ds.length > maxDigits then none
  else if !allowZeroPrefix && ds.head? = some '0' && ds.length > 1 then none
  else match parseDigits radix ds with
    | some v => if v ≤ maxVal then some (v, rest) else none
    | none => none

def expectChar (c : Char) : Input → Option Input
  | d :: r => if c = d then some r else none
  | [] => none

/-- std `read_ipv4_addr` -/
def readV4 (s : Input) : Option (Nat × Input) := do
  let (a, s) ← readNum 10 3 false 255 s
  let s ← expectChar '.' s
  let (b, s) ← readNum 10 3 false 255 s
  let s ← expectChar '.' s
  let (c, s) ← readNum 10 3 false 255 s
  let s ← expectChar '.' s
  let (d, s) ← readNum 10 3 false 255 s
  pure (a * 16777216 + b * 65536 + c * 256 + d, s)

def readSep (i : Nat) (s : Input) : Option Input :=
  if i = 0 then some s else expectChar ':' s

/-- std `read_groups` over a slice of `limit` slots, starting at slot `i`:
(groups read from `i` on, whether an embedded IPv4 ended the reading, rest). -/
def readGroups (limit : Nat) : Nat → Nat → Input → List Nat × Bool × Input
  | 0, _, s => ([], false, s)
  | fuel + 1, i, s =>
    if i ≥ limit then ([], false, s) else
    let v4 : Option (Nat × Input) :=
      if i + 1 < limit then (readSep i s).bind readV4 else none
    match v4 with
    | some (a, s') => ([a / 65536, a % 65536], true, s')
    | none =>
      match (readSep i s).bind (readNum 16 4 true 65535) with
      | some (g, s') =>
        let (gs, v, s'') := readGroups limit fuel (i + 1) s'
        (g :: gs, v, s'')
      | none => ([], false, s)

def groupsToNat (gs : List Nat) : Nat := gs.foldl (fun acc g => acc * 65536 + g) 0

/-- std `read_ipv6_addr` -/
def readV6 (s : Input) : Option (Nat × Input) :=
  let (head, headV4, s1) := readGroups 8 8 0 s
  if head.length = 8 then some (groupsToNat head, s1)
  else if headV4 then none
  else do
    let s2 ← expectChar ':' s1
    let s3 ← expectChar ':' s2
    let limit := 8 - (head.length + 1)
    let (tail, _, s4) := readGroups limit limit 0 s3
    let zeros := List.replicate (8 - head.length - tail.length) 0
    pure (groupsToNat (head ++ zeros ++ tail), s4)

/-- std `IpAddr::from_str` (whole string must be consumed) -/
def parseIpAddr (s : Input) : Option Ip :=
  match readV4 s with
  | some (a, []) => some (.v4 a)
  | some (_, _ :: _) => none
  | none =>
    match readV6 s with
    | some (a, []) => some (.v6 a)
    | _ => none

def isIpChar (c : Char) : Bool :=
  isAsciiHexDigit c || c = ':' || c = '.' || c = '/'

/-- `impl Lex for IpAddr` -/
def lexIpAddr (input : Input) : LexRes Ip :=
  match takeWhile1 isIpChar input with
  | .error e => .error e
  | .ok (chunk, rest) =>
    match parseIpAddr chunk with
    | some a => .ok (a, rest)
    | none => errSpan .parseNetwork input rest

/-- split on a character (like `str::split`) -/
def splitOn (c : Char) : Input → List Input
  | [] => [[]]
  | d :: r =>
    if d = c then [] :: splitOn c r
    else match splitOn c r with
      | [] => [[d]]
      | x :: xs => (d :: x) :: xs

/-- `str::parse::<u8>()` restricted to the characters an address chunk can hold -/
def parseU8 (s : Input) : Option Nat :=
  match parseDigits 10 s with
  | some v => if v ≤ 255 then some v else none
  | none => none

/-- `cidr`'s `_parse_short_ipv4_address_as_cidr(..).first_address()` -/
def parseShortV4 (s : Input) : Option Nat :=
  let parts := splitOn '.' s
  if parts.length > 4 then none else
  match (parts.map parseU8).foldr (fun o acc => do let a ← o; let l ← acc; pure (a :: l)) (some []) with
  | some os =>
    let os := os ++ List.replicate (4 - os.length) 0
    some (os.foldl (fun acc o => acc * 256 + o) 0)
  | none => none

/-- `cidr`'s `IpAddr::address_from_str`: std first, short IPv4 as a fallback -/
def parseCidrAddr (s : Input) : Option Ip :=
  match parseIpAddr s with
  | some a => some a
  | none => (parseShortV4 s).map .v4

def rfindSlash (s : Input) : Option Nat :=
  let rec go : Input → Nat → Option Nat → Option Nat
    | [], _, last => last
    | c :: r, i, last => go r (i + 1) (if c = '/' then some i else last)
  go s 0 none

def findDotDot : Input → Nat → Option Nat
  | '.' :: '.' :: _, i => some i
  | _ :: r, i => findDotDot r (i + 1)
  | [], _ => none

/-- `cidr::IpCidr::from_str` -/
def parseCidr (chunk : Input) : Option IpRangeLit :=
  match rfindSlash chunk with
  | none =>
    match parseCidrAddr chunk with
    | some (.v4 a) => some (.cidr false a 32)
    | some (.v6 a) => some (.cidr true a 128)
    | none => none
  | some pos =>
    match parseCidrAddr (chunk.take pos), parseU8 (chunk.drop (pos + 1)) with
    | some (.v4 a), some len =>
      if len > 32 then none else if a % 2 ^ (32 - len) ≠ 0 then none else some (.cidr false a len)
    | some (.v6 a), some len =>
      if len > 128 then none else if a % 2 ^ (128 - len) ≠ 0 then none else some (.cidr true a len)
    | _, _ => none

/-- `impl Lex for IpRange` -/
def lexIpRange (input : Input) : LexRes IpRangeLit :=
  match takeWhile1 isIpChar input with
  | .error e => .error e
  | .ok (chunk, rest) =>
    match findDotDot chunk 0 with
    | some pos =>
      match parseIpAddr (chunk.take pos), parseIpAddr (chunk.drop (pos + 2)) with
      | some (.v4 a), some (.v4 b) =>
        if a ≤ b then .ok (.explicit false a b, rest) else errSpan .incompatibleRangeBounds input rest
      | some (.v6 a), some (.v6 b) =>
        if a ≤ b then .ok (.explicit true a b, rest) else errSpan .incompatibleRangeBounds input rest
      | some _, some _ => errSpan .incompatibleRangeBounds input rest
      | _, _ => errSpan .parseNetwork input rest
    | none =>
      match parseCidr chunk with
      | some r => .ok (r, rest)
      | none => errSpan .parseNetwork input rest

/-! ### list names, indexes, brace lists -/

def isListNameChar (c : Char) : Bool :=
  ('a' ≤ c && c ≤ 'z') || isAsciiDigit c || c = '_' || c = '.'

/-- `impl Lex for ListName` -/
def lexListName (input : Input) : LexRes (List Char) :=
  match expect input "$" with
  | none => errAt .expectedLiteral input
  | some r =>
    let (name, rest) := spanWhile isListNameChar r
    if name.isEmpty then errAt .invalidListName r
    else if name.head? = some '.' || name.getLast? = some '.' then errAt .invalidListName r
    else .ok (name, rest)

/-- strict UTF-8 decoding (`String::from_utf8`): `none` on any invalid sequence -/
def utf8DecodeGo : Nat → Bytes → Option (List Char)
  | 0, _ => none
  | _ + 1, [] => some []
  | f + 1, b0 :: r =>
    let n0 := b0.toNat
    if n0 < 0x80 then (utf8DecodeGo f r).map (Char.ofNat n0 :: ·)
    else if n0 < 0xC2 then none
    else if n0 < 0xE0 then
      match r with
      | b1 :: r1 =>
        let n1 := b1.toNat
        if 0x80 ≤ n1 && n1 < 0xC0 then
          (utf8DecodeGo f r1).map (Char.ofNat ((n0 - 0xC0) * 64 + (n1 - 0x80)) :: ·)
        else none
      | _ => none
    else if n0 < 0xF0 then
      match r with
      | b1 :: b2 :: r2 =>
        let n1 := b1.toNat
        let n2 := b2.toNat
        let lo := if n0 = 0xE0 then 0xA0 else 0x80
        let hi := if n0 = 0xED then 0xA0 else 0xC0
        if lo ≤ n1 && n1 < hi && 0x80 ≤ n2 && n2 < 0xC0 then
          (utf8DecodeGo f r2).map
            (Char.ofNat ((n0 - 0xE0) * 4096 + (n1 - 0x80) * 64 + (n2 - 0x80)) :: ·)
        else none
      | _ => none
    else if n0 < 0xF5 then
      match r with
      | b1 :: b2 :: b3 :: r3 =>
        let n1 := b1.toNat
        let n2 := b2.toNat
        let n3 := b3.toNat
        let lo := if n0 = 0xF0 then 0x90 else 0x80
        let hi := if n0 = 0xF4 then 0x90 else 0xC0
        if lo ≤ n1 && n1 < hi && 0x80 ≤ n2 && n2 < 0xC0 && 0x80 ≤ n3 && n3 < 0xC0 then
          (utf8DecodeGo f r3).map
            (Char.ofNat ((n0 - 0xF0) * 262144 + (n1 - 0x80) * 4096 + (n2 - 0x80) * 64 + (n3 - 0x80)) :: ·)
        else none
      | _ => none
    else none

def utf8Decode (b : Bytes) : Option (List Char) := utf8DecodeGo (b.length + 1) b

/-- `impl Lex for FieldIndex` -/
def lexFieldIndex (input : Input) : LexRes FieldIndex :=
  match expect input "*" with
  | some r => .ok (.each, r)
  | none =>
    match input with
    | '"' :: _ =>
      match lexBytes input with
      | .error e => .error e
      | .ok (b, rest) =>
        match utf8Decode b.data with
        | some s => .ok (.key s, rest)
        | none => errAt .expectedLiteral input
    | _ =>
      match lexInt input with
      | .error _ => errAt .expectedLiteral input
      | .ok (i, rest) =>
        if 0 ≤ i && i < 4294967296 then .ok (.arr i.toNat, rest)
        else errAt .expectedLiteral input

/-- `lex_rhs_values`: `{` then items separated only by optional spaces, then `}` -/
def lexBraceGo {α} (item : Input → LexRes α) : Nat → Input → List α → LexRes (List α)
  | 0, input, _ => errAt .outOfFuel input
  | f + 1, input, acc =>
    let input := skipSpace input
    match expect input "}" with
    | some r => .ok (acc, r)
    | none =>
      match item input with
      | .error e => .error e
      | .ok (a, r) => lexBraceGo item f r (acc ++ [a])

def lexBrace {α} (item : Input → LexRes α) (input : Input) : LexRes (List α) :=
  match expect input "{" with
  | none => errAt .expectedLiteral input
  | some r => lexBraceGo item (r.length + 2) r []

/-- `RhsValue::lex_with(input, ty)` for the types that have literals -/
def lexRhsVal (ty : Ty) (input : Input) : Option (LexRes RhsVal) :=
  match ty with
  | .int => some ((lexInt input).map fun (v, r) => (.int v, r))
  | .ip => some ((lexIpAddr input).map fun (v, r) => (.ip v, r))
  | .bytes => some ((lexBytes input).map fun (v, r) => (.bytes v, r))
  | _ => none

/-- `RhsValues::lex_with(input, ty)` -/
def lexRhsVals (ty : Ty) (input : Input) : Option (LexRes RhsVals) :=
  match ty with
  | .int => some ((lexBrace lexIntRange input).map fun (v, r) => (.int v, r))
  | .ip => some ((lexBrace lexIpRange input).map fun (v, r) => (.ip v, r))
  | .bytes => some ((lexBrace lexBytes input).map fun (v, r) => (.bytes v, r))
  | _ => none

end WfModel
