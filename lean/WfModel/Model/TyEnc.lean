import WfModel.Model.Ty
/-!
# Type and scheme encodings (C15)

Executable model, import-free apart from `Model/Ty`.

* `Packed`, `push`, `pop`, `fromType`, `intoType`  — `CompoundType` of
  `engine/src/types.rs:901-1038` (bit operations written as in the Rust source; the
  arithmetic reading `layers * 2 + bit`, `/ 2`, `% 2` is proved in `Lemmas/TyEnc.lean`).
* `CType`, `CType.push/pop/ofType/toType`, `cPrimCode` — `ffi/src/lib.rs:38-131, 248-265`.
* `J` — a JSON tree with *ordered* object entries; `tyToJ` / `tyOfJ` — the derived serde form
  of `Type` (`"Int"`, `{"Array": …}`) with the hand-written `Deserialize for CompoundType`
  (`types.rs:934-942`) in between; `schemeToJ` / `schemeOfJ` — `scheme.rs:787-851`.

Every Rust `panic!/unwrap` on these paths is an explicit outcome: `fromType = none`
(the `panic!("Could not convert type to compound type")` site), `CType.toType = none`
(`CPrimitiveType::try_from(..).unwrap()`, and the `.into()` of a > 32 layer inner type),
`Outcome.stuck` for a panic reached while deserializing.
-/
namespace WfModel.TyEnc
open WfModel

/-- `enum PrimitiveType { Bool, Bytes, Int, Ip }` (types.rs:901-907), declaration order. -/
inductive Prim
  | bool | bytes | int | ip
deriving DecidableEq, Repr, Inhabited

/-- `enum Layer { Array, Map }`. -/
inductive Layer
  | array | map
deriving DecidableEq, Repr, Inhabited

namespace Prim
def toTy : Prim → Ty
  | bool => .bool | bytes => .bytes | int => .int | ip => .ip

/-- variant name: `Debug` output and serde name -/
def name : Prim → String
  | bool => "Bool" | bytes => "Bytes" | int => "Int" | ip => "Ip"

def ofName (s : String) : Option Prim :=
  if s = "Bool" then some bool else if s = "Bytes" then some bytes
  else if s = "Int" then some int else if s = "Ip" then some ip else none
end Prim

/-- the primitive at the bottom of a type -/
def primOf : Ty → Prim
  | .bool => .bool | .bytes => .bytes | .int => .int | .ip => .ip
  | .array t => primOf t
  | .map t => primOf t

namespace Layer
/-- `Layer::Array => 0, Layer::Map => 1` (types.rs:1008-1011, ffi/src/lib.rs:62-65). -/
def bit : Layer → Nat
  | array => 0 | map => 1

def wrap : Layer → Ty → Ty
  | array, t => .array t
  | map, t => .map t

/-- serde variant name of the container -/
def name : Layer → String
  | array => "Array" | map => "Map"
end Layer

/-- layer string of a type, outermost layer first -/
def layerString : Ty → List Layer
  | .array t => .array :: layerString t
  | .map t => .map :: layerString t
  | _ => []

/-- binary numeral of a layer string: the outermost layer is the lowest bit -/
def bitsOf : List Layer → Nat
  | [] => 0
  | l :: ls => bitsOf ls * 2 + l.bit

/-- `if self.len >= 32 { None }` (types.rs:1005). -/
def maxLayers : Nat := 32

/-- `u32` modulus -/
def u32Size : Nat := 4294967296

/-- `struct CompoundType { layers: u32, len: u8, primitive: PrimitiveType }`. -/
structure Packed where
  layers : Nat
  len : Nat
  prim : Prim
deriving DecidableEq, Repr, Inhabited

/-- Representation invariant of every `CompoundType` reachable through `new`/`push`/`pop`. -/
def Valid (p : Packed) : Prop := p.len ≤ maxLayers ∧ p.layers < 2 ^ p.len

instance (p : Packed) : Decidable (Valid p) := by unfold Valid; infer_instance

/-- `CompoundType::new`. -/
def Packed.new (pr : Prim) : Packed := { layers := 0, len := 0, prim := pr }

/-- `(self.layers << 1) | layer` on `u32`. -/
def pushBits (layers bit : Nat) : Nat := ((layers <<< 1) % u32Size) ||| bit

/-- `CompoundType::push` (types.rs:1003-1016). -/
def push (p : Packed) (l : Layer) : Option Packed :=
  if p.len ≥ maxLayers then none
  else some { p with layers := pushBits p.layers l.bit, len := p.len + 1 }

/-- `CompoundType::pop` (types.rs:986-1001): `is_array = (layers & 1) == 0; layers >>= 1`. -/
def pop (p : Packed) : Packed × Option Layer :=
  if p.len > 0 then
    let isArray := (p.layers &&& 1) == 0
    let q := { p with layers := p.layers >>> 1, len := p.len - 1 }
    (q, some (if isArray then .array else .map))
  else (p, none)

/-- `CompoundType::from_type` (types.rs:956-968); `none` = the `panic!` site. In Rust the
argument of `Type::Array(_)` is already a `CompoundType`; here the recursion converts it. -/
def fromType : Ty → Option Packed
  | .bool => some (.new .bool)
  | .bytes => some (.new .bytes)
  | .int => some (.new .int)
  | .ip => some (.new .ip)
  | .array t => (fromType t).bind (push · .array)
  | .map t => (fromType t).bind (push · .map)

/-- `CompoundType::into_type` (types.rs:972-984), unfolded all the way down
(`fuel` = number of layers still to pop). -/
def intoTypeAux : Nat → Packed → Ty
  | 0, p => p.prim.toTy
  | f + 1, p =>
    match pop p with
    | (q, some l) => l.wrap (intoTypeAux f q)
    | (q, none) => q.prim.toTy

def intoType (p : Packed) : Ty := intoTypeAux p.len p

/-! ## The C twin (`ffi/src/lib.rs`) -/

/-- `#[repr(u8)] enum CPrimitiveType { Ip = 1, Bytes = 2, Int = 3, Bool = 4 }`. -/
def cPrimCode : Prim → Nat
  | .ip => 1 | .bytes => 2 | .int => 3 | .bool => 4

/-- `CPrimitiveType::try_from(u8)`. -/
def cPrimOfCode (n : Nat) : Option Prim :=
  if n = 1 then some .ip else if n = 2 then some .bytes
  else if n = 3 then some .int else if n = 4 then some .bool else none

/-- `#[repr(C)] struct CType { layers: u32, len: u8, primitive: u8 }`. -/
structure CType where
  layers : Nat
  len : Nat
  prim : Nat
deriving DecidableEq, Repr, Inhabited

namespace CType

/-- `wirefilter_create_primitive_type`. -/
def ofPrim (pr : Prim) : CType := { layers := 0, len := 0, prim := cPrimCode pr }

/-- `CType::push` (ffi/src/lib.rs:61-69): **no** length check; `len: u8 += 1`
(`none` = the `u8` overflow at 255: panic with overflow checks, wrap without). -/
def push (c : CType) (l : Layer) : Option CType :=
  if c.len ≥ 255 then none
  else some { c with layers := pushBits c.layers l.bit, len := c.len + 1 }

/-- `CType::pop` (ffi/src/lib.rs:71-85). -/
def pop (c : CType) : CType × Option Layer :=
  if c.len > 0 then
    let isArray := (c.layers &&& 1) == 0
    ({ c with layers := c.layers >>> 1, len := c.len - 1 }, some (if isArray then .array else .map))
  else (c, none)

/-- `impl From<Type> for CType` (ffi/src/lib.rs:104-131). -/
def ofType : Ty → Option CType
  | .bool => some (ofPrim .bool)
  | .bytes => some (ofPrim .bytes)
  | .int => some (ofPrim .int)
  | .ip => some (ofPrim .ip)
  | .array t => (ofType t).bind (push · .array)
  | .map t => (ofType t).bind (push · .map)

/-- `impl From<CType> for Type` (ffi/src/lib.rs:88-102). `none` = a panic: unknown primitive
code (`try_from(..).unwrap()`), or an inner type with more than 32 layers at the
`Type::from(ty).into()` conversion to `CompoundType`. -/
def toTypeAux : Nat → CType → Option Ty
  | 0, c => (cPrimOfCode c.prim).map Prim.toTy
  | f + 1, c =>
    match c.pop with
    | (q, some l) =>
      match toTypeAux f q with
      | some inner =>
        match fromType inner with
        | some p => some (l.wrap (intoType p))
        | none => none
      | none => none
    | (q, none) => (cPrimOfCode q.prim).map Prim.toTy

def toType (c : CType) : Option Ty := toTypeAux c.len c

end CType

/-- the C struct with the same fields as a `CompoundType` -/
def asC (p : Packed) : CType := { layers := p.layers, len := p.len, prim := cPrimCode p.prim }

/-! ## JSON trees -/

/-- JSON value; objects keep their entries in document order (duplicates possible). -/
inductive J
  | null
  | bool (b : Bool)
  | int (i : Int)
  | str (s : String)
  | arr (xs : List J)
  | obj (kvs : List (String × J))
deriving Repr, Inhabited

/-- Result of a deserialization: a value, a (serde) error, or a panic. -/
inductive Outcome (α : Type)
  | ok (a : α)
  | error
  | stuck
deriving Repr, DecidableEq, Inhabited

/-- derived `Serialize for Type`: unit variants as strings, newtype variants as
single-entry objects. -/
def tyToJ : Ty → J
  | .bool => .str "Bool"
  | .bytes => .str "Bytes"
  | .int => .str "Int"
  | .ip => .str "Ip"
  | .array t => .obj [("Array", tyToJ t)]
  | .map t => .obj [("Map", tyToJ t)]

/-- number of `{"Array": …}` / `{"Map": …}` wrappers around the core of a descriptor -/
def jLayers : J → Nat
  | .obj [(k, v)] => if k = "Array" ∨ k = "Map" then jLayers v + 1 else 0
  | _ => 0

/-- `Deserialize for CompoundType` applied to an already deserialized inner type and
re-read as the content of `Type::Array(_)`/`Type::Map(_)`: `Type::deserialize(d).map(Self::from)`
(`onOverflow = .stuck`, the code as it stands) or a fallible conversion (`.error`). -/
def wrapCompound (onOverflow : Outcome Ty) (l : Layer) : Outcome Ty → Outcome Ty
  | .ok t =>
    match fromType t with
    | some p => .ok (l.wrap (intoType p))
    | none => onOverflow
  | .error => .error
  | .stuck => .stuck

/-- derived `Deserialize for Type` as serde_json drives it (externally tagged enum):
`"Int"`; `{"Int": null}`; `{"Array": <CompoundType>}`; everything else is an error. -/
def tyOfJWith (onOverflow : Outcome Ty) : J → Outcome Ty
  | .str s =>
    match Prim.ofName s with
    | some p => .ok p.toTy
    | none => .error
  | .obj [(k, v)] =>
    if k = "Array" then wrapCompound onOverflow .array (tyOfJWith onOverflow v)
    else if k = "Map" then wrapCompound onOverflow .map (tyOfJWith onOverflow v)
    else
      match Prim.ofName k, v with
      | some p, .null => .ok p.toTy
      | _, _ => .error
  | _ => .error

/-- The deserializer the property asks for: a type that cannot be packed is a serde error. -/
def tyOfJ : J → Outcome Ty := tyOfJWith .error

/-- The deserializer of the unchanged source: `.map(Self::from)` panics. -/
def tyOfJPanicking : J → Outcome Ty := tyOfJWith .stuck

/-- `Deserialize for CompoundType` at top level (fallible conversion). -/
def compoundOfJ (j : J) : Outcome Packed :=
  match tyOfJ j with
  | .ok t =>
    match fromType t with
    | some p => .ok p
    | none => .error
  | .error => .error
  | .stuck => .stuck

/-! ## Schemes -/

/-- One entry of `Scheme::fields()`. -/
structure Field where
  name : String
  ty : Ty
  optional : Bool
deriving DecidableEq, Repr, Inhabited

/-- `SchemeBuilder::add_field_full` (scheme.rs:645-671) on a builder that only holds fields:
an occupied name is refused, a fresh one is appended. -/
def addField (s : List Field) (f : Field) : Option (List Field) :=
  if s.any (fun g => g.name == f.name) then none else some (s ++ [f])

/-- `SerdeField { type, optional }`. -/
def fieldToJ (f : Field) : J := .obj [("type", tyToJ f.ty), ("optional", .bool f.optional)]

/-- `Serialize for Scheme`: a map name → SerdeField in `fields()` order. -/
def schemeToJ (s : List Field) : J := .obj (s.map fun f => (f.name, fieldToJ f))

def lookupAll (k : String) : List (String × J) → List J
  | [] => []
  | (k', v) :: rest => if k' = k then v :: lookupAll k rest else lookupAll k rest

/-- derived `Deserialize for SerdeField`: map form (unknown keys ignored, a repeated or a
missing known key is an error) or sequence form `[type, optional]`. -/
def fieldOfJ : J → Outcome (Ty × Bool)
  | .obj kvs =>
    match lookupAll "type" kvs, lookupAll "optional" kvs with
    | [tj], [.bool b] =>
      match tyOfJ tj with
      | .ok t => .ok (t, b)
      | .error => .error
      | .stuck => .stuck
    | _, _ => .error
  | .arr [tj, .bool b] =>
    match tyOfJ tj with
    | .ok t => .ok (t, b)
    | .error => .error
    | .stuck => .stuck
  | _ => .error

/-- the `while let Some((name, SerdeField{..})) = map.next_entry()?` loop of
`FieldMapVisitor::visit_map` (scheme.rs:830-844). -/
def schemeLoop : List Field → List (String × J) → Outcome (List Field)
  | acc, [] => .ok acc
  | acc, (k, v) :: rest =>
    match fieldOfJ v with
    | .ok (t, o) =>
      match addField acc { name := k, ty := t, optional := o } with
      | some acc' => schemeLoop acc' rest
      | none => .error
    | .error => .error
    | .stuck => .stuck

/-- `Deserialize for Scheme`. -/
def schemeOfJ : J → Outcome (List Field)
  | .obj kvs => schemeLoop [] kvs
  | _ => .error

/-! ## `serde_json::Value` as a carrier

Without the `preserve_order` feature a `Value::Object` is a `BTreeMap<String, Value>`:
entries sorted by key (byte order of the UTF-8 = code point order), a repeated key keeps
the last value. -/

def insertSorted (k : String) (v : J) : List (String × J) → List (String × J)
  | [] => [(k, v)]
  | (k', v') :: rest =>
    if k < k' then (k, v) :: (k', v') :: rest
    else if k = k' then (k, v) :: rest
    else (k', v') :: insertSorted k v rest

mutual
def valueNorm : J → J
  | .arr xs => .arr (valueNormList xs)
  | .obj kvs => .obj (valueNormEntries kvs [])
  | j => j
def valueNormList : List J → List J
  | [] => []
  | x :: xs => valueNorm x :: valueNormList xs
def valueNormEntries : List (String × J) → List (String × J) → List (String × J)
  | [], acc => acc
  | (k, v) :: rest, acc => valueNormEntries rest (insertSorted k (valueNorm v) acc)
end

end WfModel.TyEnc
