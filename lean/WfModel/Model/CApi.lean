/-
The C API's error string and status mapping (`ffi/src/cstring.rs`, `ffi/src/lib.rs`).
Import-free.

* `CStr`       — `ffi::cstring::CString(Vec<u8>)`: `append`, `clear`, `as_c_str`.
* `COp`, `run` — histories of writes / clears / `write_last_error!` on one thread's `LAST_ERROR`.
* `wrap`       — what each exported wrapper returns and does to `LAST_ERROR`, as a function of the
                 nested outcome `to_str!` → `catch_panic` → inner `Result`.
* `LeSys`      — one `LAST_ERROR` per thread.
* `fnv1a64`    — `fnv::FnvHasher` (used by `wirefilter_get_filter_hash` over the JSON bytes).
-/
namespace WfModel.CApi

/-- `SUBSTITUTE_BYTE` (cstring.rs:6). Pinned to the extracted constant in `Props/C20.lean`. -/
def substByte : UInt8 := 0x1a

/-- the closure of `append`'s `for_each`: NUL ↦ SUBSTITUTE_BYTE -/
def subst (b : UInt8) : UInt8 := if b = 0 then substByte else b

/-- `CString(Vec<u8>)`: the raw vector, terminator included when non-empty. -/
structure CStr where
  buf : List UInt8 := []
deriving DecidableEq, Repr, Inhabited

namespace CStr

/-- `CString::append` (cstring.rs:21-32): pop the terminator (no-op on an empty vector),
extend, substitute NULs *in the new part only*, push the terminator. -/
def append (c : CStr) (bs : List UInt8) : CStr :=
  ⟨c.buf.dropLast ++ bs.map subst ++ [0]⟩

/-- `CString::clear`. -/
def clear (_c : CStr) : CStr := ⟨[]⟩

/-- `CString::as_c_str`: NULL iff the vector is empty, else a pointer to it. -/
def asPtr (c : CStr) : Option (List UInt8) :=
  if c.buf.isEmpty then none else some c.buf

/-- What a C caller reads through that pointer: the bytes before the first NUL. -/
def cView (c : CStr) : Option (List UInt8) :=
  c.asPtr.map fun b => b.takeWhile (· ≠ 0)

/-- The string content: the vector without its last byte. -/
def content (c : CStr) : List UInt8 := c.buf.dropLast

/-- A buffer holding `content` (as left behind by an earlier error), or the cleared one. -/
def ofContent : Option (List UInt8) → CStr
  | none => ⟨[]⟩
  | some bs => ⟨bs ++ [0]⟩

end CStr

/-- Operations on one thread's `LAST_ERROR`. `write` is one `io::Write::write` /
`fmt::Write::write_str` call; `setError chunks` is `write_last_error!(…)` as expanded in
lib.rs (`std::io::Write` in scope): `clear()` followed by `write!`, i.e. `io::Write::write_fmt`,
which hands each formatted piece (`chunks`) to `write_all` — and `write_all` does not call
`write` at all for an empty piece. -/
inductive COp
  | write (bs : List UInt8)
  | clear
  | setError (chunks : List (List UInt8))
deriving DecidableEq, Repr, Inhabited

/-- the pieces that reach `append` -/
def nonEmpty (chunks : List (List UInt8)) : List (List UInt8) := chunks.filter fun p => !p.isEmpty

def CStr.apply (c : CStr) : COp → CStr
  | .write bs => c.append bs
  | .clear => c.clear
  | .setError chunks => (nonEmpty chunks).foldl CStr.append c.clear

def CStr.run (c : CStr) (h : List COp) : CStr := h.foldl CStr.apply c

/-! ## Specification of the content -/

/-- A history with `write_last_error!` spelled out as clear + writes. -/
def expand : List COp → List COp
  | [] => []
  | .setError chunks :: rest => .clear :: (nonEmpty chunks).map .write ++ expand rest
  | op :: rest => op :: expand rest

def COp.isWrite : COp → Bool
  | .write _ => true
  | _ => false

def COp.bytes : COp → List UInt8
  | .write bs => bs
  | _ => []

/-- The writes after the last clear, oldest first. -/
def writesSinceClear (h : List COp) : List COp :=
  ((expand h).reverse.takeWhile COp.isWrite).reverse

/-- **Spec**: NULL if nothing was written since the last clear, otherwise the concatenation of
those writes with every NUL replaced by 0x1a. -/
def specContent (h : List COp) : Option (List UInt8) :=
  if (writesSinceClear h).isEmpty then none
  else some (((writesSinceClear h).map COp.bytes).flatten.map subst)

/-- The invariant the C caller relies on. -/
def WellFormed (buf : List UInt8) : Prop :=
  buf = [] ∨ (buf.getLast? = some 0 ∧ (0 : UInt8) ∉ buf.dropLast)

/-! ## Status mapping -/

/-- `Status` (lib.rs:205-219), `#[repr(C)]`, discriminants 0, 1, 2. -/
inductive Status
  | success
  | error
  | panic
deriving DecidableEq, Repr, Inhabited

def Status.toNat : Status → Nat
  | .success => 0
  | .error => 1
  | .panic => 2

def Status.name : Status → String
  | .success => "Success"
  | .error => "Error"
  | .panic => "Panic"

/-- The exported functions that can fail, grouped where the code is literally the same
(`addScalarValue` = the int / bytes / ipv4 / ipv6 / bool setters, `serialize` = the four
`wirefilter_serialize_*_to_json`, `addList` = always/never list). -/
inductive Wrapper
  | parse
  | compile
  | match_
  | uses
  | usesList
  | hash
  | serialize
  | deserializeCtx
  | addJsonValue
  | addField
  | addScalarValue
  | addList
  | setFallbackMode
deriving DecidableEq, Repr, Inhabited

/-- Name of (a representative of) the wrapper in the source. -/
def Wrapper.cName : Wrapper → String
  | .parse => "wirefilter_parse_filter"
  | .compile => "wirefilter_compile_filter"
  | .match_ => "wirefilter_match"
  | .uses => "wirefilter_filter_uses"
  | .usesList => "wirefilter_filter_uses_list"
  | .hash => "wirefilter_get_filter_hash"
  | .serialize => "wirefilter_serialize_filter_to_json"
  | .deserializeCtx => "wirefilter_deserialize_json_to_execution_context"
  | .addJsonValue => "wirefilter_add_json_value_to_execution_context"
  | .addField => "wirefilter_add_type_field_to_scheme"
  | .addScalarValue => "wirefilter_add_int_value_to_execution_context"
  | .addList => "wirefilter_add_always_list_to_scheme"
  | .setFallbackMode => "wirefilter_set_panic_catcher_fallback_mode"

/-- the wrapper validates a name / text with `to_str!` first -/
def Wrapper.hasUtf8 : Wrapper → Bool
  | .parse | .uses | .usesList | .addJsonValue | .addField | .addScalarValue => true
  | _ => false

/-- the wrapper runs the engine call inside `catch_panic` -/
def Wrapper.catches : Wrapper → Bool
  | .parse | .compile | .match_ | .uses | .usesList => true
  | _ => false

/-- the engine call returns a `Result` (only `compile` does not) -/
def Wrapper.fallible : Wrapper → Bool
  | .compile => false
  | _ => true

/-- the wrapper returns a plain `bool` rather than a struct with a `Status` -/
def Wrapper.returnsBool : Wrapper → Bool
  | .deserializeCtx | .addJsonValue | .addField | .addScalarValue | .addList | .setFallbackMode => true
  | _ => false

/-- Wrappers whose tail is `engine_call(..).is_ok()` (the engine's error value dropped,
nothing written to `LAST_ERROR`). There are none: every fallible setter goes through
`report_result`, which writes the error text (the eight setters that used to end in `.is_ok()`
were a genuine defect, fixed in /repo). Pinned to the extracted list in `Props/C20.lean`. -/
def Wrapper.silentOnErr : Wrapper → Bool
  | _ => false

/-- Status in the wrapper's `Err(err)` arm of `catch_panic`.
**F8**: `wirefilter_filter_uses` returns `UsingResult::PANIC`, which the source defines with
`status: Status::Error` (lib.rs:729-732) — the model says what the code does. The property's
panic clause names parse, compile and match only, and no panic is reachable inside `uses`
with the shipped visitors, so this is a note, not a violation. -/
def Wrapper.panicStatus : Wrapper → Status
  | .uses => .error
  | _ => .panic

abbrev Msg := List UInt8

/-- The nested outcome: `to_str!` (UTF-8 error text) → `catch_panic` (panic text) → the engine's
`Result` (error `Display` text, or the payload: matched / used / `true`). -/
abbrev Nested := Except Msg (Except Msg (Except Msg Bool))

/-- What the call returns to C. -/
inductive Ret
  | status (s : Status) (flag : Bool)   -- flag: matched / used / result pointer non-null
  | bool (b : Bool)
deriving DecidableEq, Repr, Inhabited

/-- What the call does to the calling thread's `LAST_ERROR`. -/
inductive LeEffect
  | untouched
  | set (msg : Msg)
deriving DecidableEq, Repr, Inhabited

def Wrapper.fail (w : Wrapper) (s : Status) : Ret :=
  if w.returnsBool then .bool false else .status s false

/-- `flag` of a successful call: `matched` / `used` as computed; for the pointer-returning
wrappers "the pointer is non-null"; for `hash` "the hash is meaningful". -/
def Wrapper.ok (w : Wrapper) (b : Bool) : Ret :=
  if w.returnsBool then .bool true
  else match w with
    | .match_ | .uses | .usesList => .status .success b
    | _ => .status .success true

/-- Is this outcome possible for this wrapper at all (does the layer exist)? -/
def Wrapper.admits (w : Wrapper) : Nested → Bool
  | .error _ => w.hasUtf8
  | .ok (.error _) => w.catches
  | .ok (.ok (.error _)) => w.fallible
  | .ok (.ok (.ok _)) => true

/-- **The status mapping.** `none` = the wrapper has no such layer (never a default answer). -/
def wrap (w : Wrapper) (o : Nested) : Option (Ret × LeEffect) :=
  if w.admits o then
    some <| match o with
      | .error m => (w.fail .error, .set m)
      | .ok (.error m) => (w.fail w.panicStatus, .set m)
      | .ok (.ok (.error m)) => (w.fail .error, if w.silentOnErr then .untouched else .set m)
      | .ok (.ok (.ok b)) => (w.ok b, .untouched)
  else none

def LeEffect.op : LeEffect → List COp
  | .untouched => []
  | .set m => [.setError [m]]

/-! ## One `LAST_ERROR` per thread -/

abbrev LeSys := List CStr

def LeSys.step (y : LeSys) (i : Nat) (op : COp) : LeSys :=
  match y[i]? with
  | none => y
  | some c => y.set i (c.apply op)

def LeSys.run (y : LeSys) : List (Nat × COp) → LeSys
  | [] => y
  | (i, op) :: rest => (LeSys.step y i op).run rest

/-- the ops thread `j` performed, in order -/
def opsOf (j : Nat) (σ : List (Nat × COp)) : List COp :=
  σ.filterMap fun p => if p.1 = j then some p.2 else none

/-! ## FNV-1a, 64 bit (`fnv::FnvHasher::default()` + `write` + `finish`) -/

def fnvOffset : UInt64 := 0xcbf29ce484222325
def fnvPrime : UInt64 := 0x100000001b3

def fnv1a64 (bs : List UInt8) : UInt64 :=
  bs.foldl (fun h b => (h ^^^ b.toUInt64) * fnvPrime) fnvOffset

end WfModel.CApi
