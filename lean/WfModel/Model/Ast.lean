import WfModel.Model.Ty
/-
The AST of a filter (`engine/src/ast/*.rs`), scheme and function signatures as data.
Import-free.
-/
namespace WfModel

/-- `LogicalOp`; derived `Ord` = declaration order (Or < Xor < And). -/
inductive LogicalOp | or | xor | and
deriving DecidableEq, Repr, Inhabited

def LogicalOp.prec : LogicalOp → Nat
  | .or => 1 | .xor => 2 | .and => 3

inductive OrdOp | eq | ne | ge | le | gt | lt
deriving DecidableEq, Repr, Inhabited

inductive QOp | any | all
deriving DecidableEq, Repr, Inhabited

/-- `BytesFormat` -/
inductive BytesFmt | quoted | raw (hashes : Nat) | byte
deriving DecidableEq, Repr, Inhabited

/-- `BytesExpr` -/
structure BytesLit where
  fmt : BytesFmt
  data : Bytes
deriving DecidableEq, Repr, Inhabited

/-- `IpRange` -/
inductive IpRangeLit
  | explicit (v6 : Bool) (lo hi : Nat)
  | cidr (v6 : Bool) (addr len : Nat)
deriving DecidableEq, Repr, Inhabited

/-- `RhsValue` (inhabited variants only) -/
inductive RhsVal
  | int (i : Int)
  | ip (a : Ip)
  | bytes (b : BytesLit)
deriving DecidableEq, Repr, Inhabited

def RhsVal.typeOf : RhsVal → Ty
  | .int _ => .int | .ip _ => .ip | .bytes _ => .bytes

/-- `LhsValue::from(RhsValue)` -/
def RhsVal.toVal : RhsVal → Val
  | .int i => .int i | .ip a => .ip a | .bytes b => .bytes b.data

/-- `RhsValues` -/
inductive RhsVals
  | int (rs : List (Int × Int))
  | ip (rs : List IpRangeLit)
  | bytes (bs : List BytesLit)
deriving DecidableEq, Repr, Inhabited

/-- `FieldIndex` -/
inductive FieldIndex
  | arr (n : Nat)
  | key (k : List Char)
  | each
deriving DecidableEq, Repr, Inhabited

inductive RegexFmt | literal | raw (hashes : Nat)
deriving DecidableEq, Repr, Inhabited

/-- `ComparisonOpExpr` -/
inductive CmpOp
  | isTrue
  | ordering (op : OrdOp) (rhs : RhsVal)
  | bitAnd (rhs : Int)
  | contains (b : BytesLit)
  | matches (pattern : List Char) (fmt : RegexFmt)
  | wildcard (strict : Bool) (b : BytesLit)
  | oneOf (vs : RhsVals)
  | inList (list : Nat) (name : List Char)
deriving DecidableEq, Repr, Inhabited

mutual
/-- `LogicalExpr` -/
inductive LExpr
  | combining (op : LogicalOp) (items : List LExpr)
  | comparison (lhs : IExpr) (op : CmpOp)
  | paren (e : LExpr)
  | unaryNot (arg : LExpr)
  | quantifier (op : QOp) (arg : QArg)
/-- `IndexExpr` with its `IdentifierExpr` inlined: a field (by index) or a function call
(function index, arguments, per-call definition context as an opaque counter value). -/
inductive IExpr
  | field (f : Nat) (indexes : List FieldIndex)
  | call (fn : Nat) (args : List AExpr) (ctx : Option Nat) (indexes : List FieldIndex)
/-- `FunctionCallArgExpr` -/
inductive AExpr
  | index (e : IExpr)
  | literal (v : RhsVal)
  | logical (e : LExpr)
/-- `QuantifierArgExpr` -/
inductive QArg
  | index (e : IExpr)
  | logical (e : LExpr)
end

instance : Inhabited LExpr := ⟨.combining .or []⟩
instance : Inhabited IExpr := ⟨.field 0 []⟩
instance : Inhabited AExpr := ⟨.literal (.int 0)⟩

def IExpr.indexes : IExpr → List FieldIndex
  | .field _ ix => ix
  | .call _ _ _ ix => ix

def mapEachCount (ix : List FieldIndex) : Nat :=
  (ix.filter (· == FieldIndex.each)).length

/-! ### scheme -/

/-- `SimpleFunctionArgKind` -/
inductive ArgKindSpec | literal | field | both
deriving DecidableEq, Repr, Inhabited

/-- The functions the harness registers, as data (`SimpleFunctionDefinition`,
`ConcatFunction`, and one definition with a per-call context). `impl` names the
implementation in `Model/Funcs.lean` and in `harness/src/funcs.rs`. -/
inductive FuncSig
  | simple (params : List (ArgKindSpec × Ty)) (opt : List (ArgKindSpec × Val)) (ret : Ty)
      (impl : Nat)
  | concat
  /-- `ctxfn`: context counter incremented in every `check_param`; accepts any number ≥ 1
  of `Bytes` arguments; returns `Int` = the context value seen by `compile`. -/
  | ctxCounter
deriving Repr, Inhabited

structure FieldDef where
  name : List Char
  ty : Ty
  optional : Bool
deriving Repr, Inhabited

/-- what kind of matcher the harness installs for a registered list -/
inductive ListKind | always | never | sets
deriving DecidableEq, Repr, Inhabited

structure Scheme where
  fields : List FieldDef
  funcs : List (List Char × FuncSig)
  lists : List (Ty × ListKind)
  nilNe : Bool := true
deriving Repr, Inhabited

inductive Ident | field (i : Nat) | func (i : Nat)
deriving DecidableEq, Repr

def findIdx {α} (p : α → Bool) : List α → Nat → Option Nat
  | [], _ => none
  | a :: as, i => if p a then some i else findIdx p as (i + 1)

/-- `Scheme::get` (exact name). The builder guarantees names are unique over fields and
functions, so the search order is immaterial. -/
def Scheme.get (s : Scheme) (name : List Char) : Option Ident :=
  match findIdx (fun f => f.name == name) s.fields 0 with
  | some i => some (.field i)
  | none =>
    match findIdx (fun f => f.1 == name) s.funcs 0 with
    | some i => some (.func i)
    | none => none

def Scheme.fieldTy (s : Scheme) (i : Nat) : Ty :=
  match s.fields[i]? with
  | some f => f.ty
  | none => .bool

def Scheme.getList (s : Scheme) (t : Ty) : Option Nat :=
  findIdx (fun l => l.1 == t) s.lists 0

end WfModel
