/-
Model of `engine/src/range_set.rs` and of the `OneOf` compilation in
`engine/src/ast/field_expr.rs` (`ComparisonOpExpr::OneOf`), `rhs_types/ip.rs:100-141`.

Import-free (core Lean only) so that the driver links as a `lean_exe`.
-/
namespace WfModel.RangeSet

/-- `RangeInclusive<T>`; `T` is `i64`, `Ipv4Addr` (as its `u32`) or `Ipv6Addr` (as its
`u128`), all embedded in `Int` with their numeric order. -/
structure Rng where
  lo : Int
  hi : Int
deriving Repr, DecidableEq, Inhabited

/-- Declarative meaning of a brace list: some item contains `x`. -/
def Covers (l : List Rng) (x : Int) : Prop := ∃ r, r ∈ l ∧ r.lo ≤ x ∧ x ≤ r.hi

instance (l : List Rng) (x : Int) : Decidable (Covers l x) := by
  unfold Covers; exact List.decidableBEx _ l

/-- `Vec::dedup_by(|b, a| ...)` of `RangeSet::from`, with `cur` the last retained element
(`a` in the closure) and the list the not-yet-visited elements (`b`). -/
def merge (cur : Rng) : List Rng → List Rng
  | [] => [cur]
  | b :: rest =>
    if b.lo ≤ cur.hi then
      merge (if b.hi > cur.hi then { lo := cur.lo, hi := b.hi } else cur) rest
    else cur :: merge b rest

def dedup : List Rng → List Rng
  | [] => []
  | a :: rest => merge a rest

/-- Insertion into a list sorted by `lo` (one admissible outcome of
`sort_unstable_by_key(|r| r.start)`; the theorems quantify over *every* start-sorted
permutation). -/
def insertByLo (r : Rng) : List Rng → List Rng
  | [] => [r]
  | a :: rest => if r.lo ≤ a.lo then r :: a :: rest else a :: insertByLo r rest

def sortByLo : List Rng → List Rng
  | [] => []
  | a :: rest => insertByLo a (sortByLo rest)

/-- `RangeSet::from`. -/
def build (l : List Rng) : List Rng := dedup (sortByLo l)

/-- `binary_search_by` with the three-way comparator of `RangeSet::contains`
(`start > v ⇒ Greater`, `end ≥ v ⇒ Equal`, else `Less`), as a halving search. -/
def bsearch (x : Int) (xs : List Rng) : Bool :=
  match h : xs.splitAt (xs.length / 2) with
  | (_, []) => false
  | (l, m :: r) =>
    if m.lo > x then bsearch x l
    else if m.hi ≥ x then true
    else bsearch x r
termination_by xs.length
decreasing_by
  all_goals
    have hs := congrArg (fun p => (p.1.length, p.2.length)) h
    simp [List.splitAt_eq] at hs
    omega

/-- `RangeSet::contains`. -/
def contains (s : List Rng) (x : Int) : Bool := bsearch x s

/-- `x in {…}` for integers. -/
def inSetInt (items : List Rng) (x : Int) : Bool := contains (build items) x

/-! ### IP items -/

inductive Fam | v4 | v6
deriving Repr, DecidableEq, Inhabited

def Fam.width : Fam → Nat
  | .v4 => 32
  | .v6 => 128

/-- `IpRange`: explicit `first..=last` of one family, or a CIDR block. Addresses are the
numeric value of the octets (big endian). -/
inductive IpItem
  | explicit (f : Fam) (lo hi : Nat)
  | cidr (f : Fam) (addr : Nat) (len : Nat)
deriving Repr, DecidableEq, Inhabited

def IpItem.fam : IpItem → Fam
  | .explicit f _ _ => f
  | .cidr f _ _ => f

/-- `cidr.first_address()`: clear the host bits. -/
def cidrFirst (f : Fam) (addr len : Nat) : Nat :=
  addr - addr % 2 ^ (f.width - len)

/-- `cidr.last_address()`: set the host bits. -/
def cidrLast (f : Fam) (addr len : Nat) : Nat :=
  cidrFirst f addr len + (2 ^ (f.width - len) - 1)

/-- `From<IpRange> for ExplicitIpRange`. -/
def IpItem.toRng : IpItem → Rng
  | .explicit _ lo hi => { lo := lo, hi := hi }
  | .cidr f a n => { lo := cidrFirst f a n, hi := cidrLast f a n }

/-- Membership of an address in a listed item, as the language defines it. -/
def IpItem.Has (it : IpItem) (f : Fam) (x : Nat) : Prop :=
  it.fam = f ∧
  match it with
  | .explicit _ lo hi => lo ≤ x ∧ x ≤ hi
  | .cidr g a n => x / 2 ^ (g.width - n) = a / 2 ^ (g.width - n)

/-- `x in {…}` for IP addresses: split per family, one `RangeSet` each. -/
def inSetIp (items : List IpItem) (f : Fam) (x : Nat) : Bool :=
  contains (build ((items.filter (fun it => it.fam = f)).map IpItem.toRng)) x

/-- `x in {…}` for byte strings: `BTreeSet::contains`. -/
def inSetBytes (items : List (List UInt8)) (x : List UInt8) : Bool := items.contains x

end WfModel.RangeSet
