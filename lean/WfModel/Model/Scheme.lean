import WfModel.Model.Ty
/-!
Scheme registry — `engine/src/scheme.rs:628-960` (`SchemeBuilder`, `Scheme`), identifier
lexing `scheme.rs:428-452`.  No Mathlib/Std imports.

* `SchemeBuilder.items : HashMap<Arc<str>, SchemeItem>` is an association list (newest
  binding first; a binding is only ever pushed when the key is vacant).
* `Scheme { inner: Arc<SchemeBuilder> }` with `PartialEq = Arc::ptr_eq` is a builder plus a
  build-event id; `clone()` copies the id, every `build()` draws a fresh one.
* Function definitions are opaque to the registry: only their name is kept.
-/
namespace WfModel.Scheme

/-- an identifier name: any `str` (the builder does not validate names) -/
abbrev Name := List Char

/-- `SchemeItem` -/
inductive Item
  | field (i : Nat)
  | function (i : Nat)
deriving DecidableEq, Repr, Inhabited

inductive Kind
  | field | function
deriving DecidableEq, Repr, Inhabited

def Item.kind : Item → Kind
  | .field _ => .field
  | .function _ => .function

def Item.index : Item → Nat
  | .field i => i
  | .function i => i

/-- `IdentifierRedefinitionError::{Field,Function}` (carrying the name) and
`ListRedefinitionError` (carrying the type). The variant says which kind *already holds* the
name. -/
inductive Err
  | fieldRedef (n : Name)
  | functionRedef (n : Name)
  | listRedef (t : Ty)
deriving DecidableEq, Repr, Inhabited

/-- `FieldDefinition` -/
structure FieldDef where
  name : Name
  ty : Ty
  optional : Bool
deriving DecidableEq, Repr, Inhabited

/-- `HashMap::get` on an association list -/
def find {α β} [DecidableEq α] : List (α × β) → α → Option β
  | [], _ => none
  | (k, v) :: rest, a => if k = a then some v else find rest a

/-- `SchemeBuilder` -/
structure Builder where
  fields : List FieldDef := []
  functions : List Name := []
  items : List (Name × Item) := []
  listTypes : List (Ty × Nat) := []
  lists : List Ty := []
  /-- `nil_not_equal_is_false` -/
  nilNe : Bool := false
deriving DecidableEq, Repr, Inhabited

namespace Builder

/-- `SchemeBuilder::new()` -/
def new : Builder := {}

/-- `add_field_full` — `Entry::Occupied` reports the holder, `Entry::Vacant` pushes. -/
def addFieldFull (b : Builder) (n : Name) (ty : Ty) (optional : Bool) : Except Err Builder :=
  match find b.items n with
  | some (.field _) => .error (.fieldRedef n)
  | some (.function _) => .error (.functionRedef n)
  | none =>
    .ok { b with
      fields := b.fields ++ [⟨n, ty, optional⟩]
      items := (n, .field b.fields.length) :: b.items }

def addField (b : Builder) (n : Name) (ty : Ty) : Except Err Builder := b.addFieldFull n ty false
def addOptionalField (b : Builder) (n : Name) (ty : Ty) : Except Err Builder := b.addFieldFull n ty true

/-- `add_function` -/
def addFunction (b : Builder) (n : Name) : Except Err Builder :=
  match find b.items n with
  | some (.field _) => .error (.fieldRedef n)
  | some (.function _) => .error (.functionRedef n)
  | none =>
    .ok { b with
      functions := b.functions ++ [n]
      items := (n, .function b.functions.length) :: b.items }

/-- `add_list` -/
def addList (b : Builder) (ty : Ty) : Except Err Builder :=
  match find b.listTypes ty with
  | some _ => .error (.listRedef ty)
  | none =>
    .ok { b with
      lists := b.lists ++ [ty]
      listTypes := (ty, b.lists.length) :: b.listTypes }

/-- `set_nil_not_equal_behavior` -/
def setNilNotEqualBehavior (b : Builder) (behavior : Bool) : Builder :=
  { b with nilNe := !behavior }

end Builder

/-- one registration call -/
inductive Op
  | addField (n : Name) (ty : Ty)
  | addOptionalField (n : Name) (ty : Ty)
  | addFunction (n : Name)
  | addList (ty : Ty)
deriving DecidableEq, Repr, Inhabited

def Builder.apply (b : Builder) : Op → Except Err Builder
  | .addField n ty => b.addField n ty
  | .addOptionalField n ty => b.addOptionalField n ty
  | .addFunction n => b.addFunction n
  | .addList ty => b.addList ty

/-- A failed call leaves `&mut self` as it was (the model's `Except` carries no state, the
caller keeps the old builder); returns the per-call results, oldest first. -/
def Builder.run (b : Builder) : List Op → Builder × List (Option Err)
  | [] => (b, [])
  | op :: ops =>
    match b.apply op with
    | .ok b' => let (bf, rs) := b'.run ops; (bf, none :: rs)
    | .error e => let (bf, rs) := b.run ops; (bf, some e :: rs)

/-- `Scheme`: `Arc<SchemeBuilder>`; `id` stands for the `Arc` pointer. -/
structure Scheme where
  id : Nat
  b : Builder
deriving DecidableEq, Repr, Inhabited

/-- `SchemeBuilder::build` in a world that has already allocated `fresh` schemes -/
def build (b : Builder) (fresh : Nat) : Scheme := ⟨fresh, b⟩

/-- building a sequence of builders one after the other: the k-th build gets id `start + k` -/
def buildAll : Nat → List Builder → List Scheme
  | _, [] => []
  | start, b :: bs => build b start :: buildAll (start + 1) bs

namespace Scheme

/-- `impl PartialEq for Scheme` — `Arc::ptr_eq` -/
def same (s t : Scheme) : Bool := s.id == t.id

/-- `Scheme::get` -/
def get (s : Scheme) (n : Name) : Option Item := find s.b.items n

/-- `Scheme::get_field` (`Err(UnknownFieldError)` = `none`) -/
def getField (s : Scheme) (n : Name) : Option Nat :=
  match s.get n with
  | some (.field i) => some i
  | _ => none

/-- `Scheme::get_function` -/
def getFunction (s : Scheme) (n : Name) : Option Nat :=
  match s.get n with
  | some (.function i) => some i
  | _ => none

/-- `Scheme::get_list` -/
def getList (s : Scheme) (ty : Ty) : Option Nat := find s.b.listTypes ty

def fieldCount (s : Scheme) : Nat := s.b.fields.length
def functionCount (s : Scheme) : Nat := s.b.functions.length
def listCount (s : Scheme) : Nat := s.b.lists.length

/-- `FieldRef { scheme, index }` accessors `name()/get_type()/optional()`; an index that
is not a field of the scheme is a Rust panic (slice index) = `none` here. -/
def fieldDef? (s : Scheme) (i : Nat) : Option FieldDef := s.b.fields[i]?
def fieldTy? (s : Scheme) (i : Nat) : Option Ty := (s.fieldDef? i).map (·.ty)
def functionName? (s : Scheme) (i : Nat) : Option Name := s.b.functions[i]?
def listTy? (s : Scheme) (i : Nat) : Option Ty := s.b.lists[i]?

end Scheme

/-! ### Identifier lexing (`impl LexWith for Identifier`, scheme.rs:428-452) -/

/-- `c.is_ascii_alphanumeric() || c == '_'`, on code points -/
def isIdentChar (c : Char) : Bool :=
  let n := c.toNat
  (48 ≤ n && n ≤ 57) || (65 ≤ n && n ≤ 90) || (97 ≤ n && n ≤ 122) || n == 95

/-- The `loop { take_while(ident char)?; match expect(".") { Ok => continue, Err => break } }`
as a two-state scanner. `fresh = true`: a `take_while` has just started and has consumed
nothing yet (so an identifier character is *required*: `take_while` fails on an empty run);
`fresh = false`: inside a run. Returns `(name, rest)`, `none` = `ExpectedName` lex error. -/
def identGo : Bool → List Char → Option (Name × List Char)
  | fresh, [] => if fresh then none else some ([], [])
  | fresh, c :: cs =>
    if isIdentChar c then
      (identGo false cs).map fun (n, r) => (c :: n, r)
    else if fresh then none
    else if c = '.' then
      (identGo true cs).map fun (n, r) => ('.' :: n, r)
    else some ([], c :: cs)

/-- the identifier token at the start of `input` -/
def identifierSpan (input : List Char) : Option (Name × List Char) := identGo true input

/-- result of `Identifier::lex_with` -/
inductive Resolved
  /-- `take_while` failed: empty segment (`""`, `"x."`, `"x..y"`, `".x"`) -/
  | lexError
  /-- `LexErrorKind::UnknownIdentifier` with the span of the *whole* dotted name -/
  | unknown (name : Name)
  | found (item : Item) (name : Name) (rest : List Char)
deriving DecidableEq, Repr, Inhabited

/-- `Identifier::lex_with`: maximal dotted name, then one exact `items` lookup. -/
def resolve (s : Scheme) (input : List Char) : Resolved :=
  match identifierSpan input with
  | none => .lexError
  | some (n, rest) =>
    match s.get n with
    | none => .unknown n
    | some it => .found it n rest

/-! ### The little of the parser around an identifier that the `regop` stream observes

`parse(text)` / `parse_value(text)` where `text` is a bare name or `name()`; functions are
registered with no parameters and return type `Bool`. -/

inductive ParseOut
  /-- `UnknownIdentifier`, span (start, len) -/
  | unknown (start len : Nat)
  /-- any other parse error -/
  | err
  /-- parsed; the root identifier is field `i` -/
  | okField (i : Nat)
  /-- parsed; the root identifier is a call of function `i` -/
  | okFunction (i : Nat)
  /-- parsed; the root of the filter is not a comparison (a unary operator) -/
  | okOther
deriving DecidableEq, Repr, Inhabited

/-- `skip_space`: `SPACE_CHARS = [' ', '\r', '\n']` -/
def skipSpace : List Char → List Char
  | c :: cs => if c = ' ' ∨ c = '\r' ∨ c = '\n' then skipSpace cs else c :: cs
  | [] => []

/-- after a resolved *function* name: `skip_space; expect "("; skip_space; ")"` for a
zero-parameter definition (`lex_with_function`); returns the rest after `)` -/
def lexEmptyCall (rest : List Char) : Option (List Char) :=
  match skipSpace rest with
  | '(' :: r =>
    match skipSpace r with
    | ')' :: r' => some r'
    | _ => none
  | _ => none

/-- `IndexExpr::lex_with` restricted to texts without `[`: identifier, then (function) the
call parentheses. Gives root item, its type, and the rest. -/
def lexIndexExpr (s : Scheme) (input : List Char) : Except ParseOut (Item × Option Ty × List Char) :=
  match resolve s input with
  | .lexError => .error .err
  | .unknown n => .error (.unknown 0 n.length)
  | .found (.field i) _ rest => .ok (.field i, s.fieldTy? i, rest)
  | .found (.function i) _ rest =>
    match lexEmptyCall rest with
    | some r => .ok (.function i, some .bool, r)
    | none => .error .err

def Item.out : Item → ParseOut
  | .field i => .okField i
  | .function i => .okFunction i

/-- characters removed by `str::trim` that the streams use (ASCII white space) -/
def isWs (c : Char) : Bool :=
  c = ' ' || c = '\t' || c = '\n' || c = '\r' || c.toNat = 11 || c.toNat = 12

def trimStart : List Char → List Char
  | c :: cs => if isWs c then trimStart cs else c :: cs
  | [] => []

def trim (l : List Char) : List Char := (trimStart (trimStart l).reverse).reverse

/-- error spans are reported relative to the untrimmed input (`ParseError::new(input, …)`) -/
def ParseOut.shift (k : Nat) : ParseOut → ParseOut
  | .unknown st len => .unknown (st + k) len
  | o => o

/-- `Scheme::parse_value(text)` for texts without `[`: `complete(IndexExpr(text.trim()))`. -/
def parseValue (s : Scheme) (text : List Char) : ParseOut :=
  let out :=
    match lexIndexExpr s (trim text) with
    | .error e => e
    | .ok (it, _, []) => it.out
    | .ok (_, _, _ :: _) => .err
  out.shift (text.length - (trimStart text).length)

/-- `LogicalExpr::lex_unary_op` (logical_expr.rs): `!` always; the word `not` unless it is
directly followed by identifier characters (or `.`) AND the maximal dotted name starting at the
`n` is registered — `notes` is the field `notes`, never `not es`; an unregistered `nott` is
still `not t`. Returns the rest after the operator. -/
def unaryPrefix (s : Scheme) (t : List Char) : Option (List Char) :=
  match t with
  | '!' :: r => some r
  | 'n' :: 'o' :: 't' :: r =>
    let glued :=
      match r with
      | c :: _ => isIdentChar c || c == '.'
      | [] => false
    let registered :=
      match resolve s t with
      | .found _ _ _ => true
      | _ => false
    if glued && registered then none else some r
  | _ => none

/-- strips unary operators (each followed by `skip_space`); fuel = length of the text -/
def stripUnary (s : Scheme) : Nat → List Char → Nat → List Char × Nat
  | 0, t, k => (t, k)
  | fuel + 1, t, k =>
    match unaryPrefix s t with
    | some r => stripUnary s fuel (skipSpace r) (k + 1)
    | none => (t, k)

/-- `Scheme::parse(text)` for the same texts, possibly behind unary operators (`!`, `not`),
provided the operand does not begin with `(` or a quantifier: a bare `Bool` identifier is the
filter `IsTrue`; any other type needs a comparison operator (none follows in these texts) or is
not `Bool`. A filter with a unary operator at the root is reported as `okOther`. -/
def parseFilter (s : Scheme) (text : List Char) : ParseOut :=
  let t := trim text
  let (operand, k) := stripUnary s t.length t 0
  let out :=
    match lexIndexExpr s operand with
    | .error e => e
    | .ok (it, some .bool, []) => if k = 0 then it.out else .okOther
    | .ok _ => .err
  out.shift ((text.length - (trimStart text).length) + (t.length - operand.length))

end WfModel.Scheme
