/-
Model of `ParseError::new` and of its `Display` impl, `engine/src/ast/parse.rs:31-95`.

Generic over the unit type `α` of the input (`u8` for the byte offsets Rust really uses,
`Char` for all-ASCII examples) with a newline predicate `nl : α → Bool`.

Import-free (core Lean only) so that the driver links as a `lean_exe`.
-/
namespace WfModel.ParseErr

/-- The four location fields of `ParseError` (`kind` is carried separately):
`input` (the designated line), `line_number`, `span_start`, `span_len`. -/
structure PErr (α : Type) where
  lineNumber : Nat
  lineText : List α
  spanStart : Nat
  spanLen : Nat
deriving Repr, DecidableEq

variable {α : Type}

/-- `match_indices('\n').map(|(pos, _)| pos + 1).scan(0, ..).last()` as a left-to-right walk:
`pos` is the absolute position of the head of the list, `(ln, ls)` the last
`(line_number, line_start)` item produced so far (`(0, 0)` = `unwrap_or_default()`). -/
def scanAux (nl : α → Bool) : List α → Nat → Nat → Nat → Nat × Nat
  | [], _, ln, ls => (ln, ls)
  | c :: cs, pos, ln, ls =>
    if nl c then scanAux nl cs (pos + 1) (ln + 1) (pos + 1)
    else scanAux nl cs (pos + 1) ln ls

/-- `(line_number, line_start)` of the prefix `p = input[..span_start]`: the number of newlines
in `p` and the position just after the last of them (`(0, 0)` when there is none). -/
def scanLines (nl : α → Bool) (p : List α) : Nat × Nat := scanAux nl p 0 0 0

/-- `input.find('\n')`. -/
def findNl (nl : α → Bool) : List α → Option Nat
  | [] => none
  | c :: cs =>
    if nl c then some 0
    else match findNl nl cs with
      | some k => some (k + 1)
      | none => none

/-- `ParseError::new(input, (kind, span))` with `span = input[off .. off + len]`,
after the `assert!` (see `mkChecked`).  All subtractions are `Nat` (truncating) subtractions;
`Lemmas/ParseErr.lean` shows that they never truncate. -/
def mk (nl : α → Bool) (s : List α) (off len : Nat) : PErr α :=
  -- let (line_number, line_start) = input[..span_start].match_indices('\n')...
  let sc := scanLines nl (s.take off)
  -- input = &input[line_start..];
  let input := s.drop sc.2
  -- span_start -= line_start;
  let spanStart := off - sc.2
  -- if let Some(line_end) = input.find('\n') { .. }
  match findNl nl input with
  | some lineEnd =>
    { lineNumber := sc.1
      lineText := input.take lineEnd
      spanStart := spanStart
      spanLen := min len (lineEnd - spanStart) }
  | none =>
    { lineNumber := sc.1
      lineText := input
      spanStart := spanStart
      spanLen := len }

/-- `ParseError::new` including its `assert!` that the span lies inside the input
(`input_range.contains(span.start) && input_range.contains(span.end)`): `none` = panic. -/
def mkChecked (nl : α → Bool) (s : List α) (off len : Nat) : Option (PErr α) :=
  if off + len > s.length then none else some (mk nl s off len)

/-- `max(1, self.span_len)`: the number of `^` written by `Display`. -/
def caretCount (e : PErr α) : Nat := max 1 e.spanLen

/-- The `Display` impl: header with 1-based line and column, the line, the marker line. -/
def display (kindText : String) (lineToString : List α → String) (e : PErr α) : String :=
  "Filter parsing error (" ++ toString (e.lineNumber + 1) ++ ":" ++ toString (e.spanStart + 1)
    ++ "):\n"
    ++ lineToString e.lineText ++ "\n"
    ++ ("".pushn ' ' e.spanStart) ++ ("".pushn '^' (caretCount e)) ++ " " ++ kindText ++ "\n"

/-- Prepend a unit to the first piece. -/
def consHead (c : α) : List (List α) → List (List α)
  | [] => [[c]]
  | l :: ls => (c :: l) :: ls

/-- Specification side: `str::split('\n')` — the pieces between newline units
(`[]` ↦ `[[]]`, `k` newlines ↦ `k + 1` pieces). -/
def lines (nl : α → Bool) : List α → List (List α)
  | [] => [[]]
  | c :: cs => if nl c then [] :: lines nl cs else consHead c (lines nl cs)

end WfModel.ParseErr
