import WfModel.Model.Ast
/-
`ast/visitor.rs`: `UsesVisitor` / `UsesListVisitor` with their early-exit flag, walking the
AST exactly as the `walk` implementations forward.  Import-free.
-/
namespace WfModel

mutual
/-- `UsesVisitor`: `u` is the `uses` flag; nodes are walked only while it is false -/
def usesL (f : Nat) (u : Bool) : LExpr → Bool
  | .combining _ items => usesLs f u items
  | .comparison lhs _ => if u then u else usesI f u lhs
  | .paren e => if u then u else usesL f u e
  | .unaryNot e => if u then u else usesL f u e
  | .quantifier _ a => if u then u else usesQ f u a
def usesLs (f : Nat) (u : Bool) : List LExpr → Bool
  | [] => u
  | e :: es => usesLs f (if u then u else usesL f u e) es
def usesI (f : Nat) (u : Bool) : IExpr → Bool
  | .field g _ => if g = f then true else u
  | .call _ args _ _ => if u then u else usesAs f u args
def usesAs (f : Nat) (u : Bool) : List AExpr → Bool
  | [] => u
  | a :: as => usesAs f (if u then u else usesA f u a) as
def usesA (f : Nat) (u : Bool) : AExpr → Bool
  | .index e => if u then u else usesI f u e
  | .literal _ => u
  | .logical e => if u then u else usesL f u e
def usesQ (f : Nat) (u : Bool) : QArg → Bool
  | .index e => if u then u else usesI f u e
  | .logical e => if u then u else usesL f u e
end

def isInList : CmpOp → Bool
  | .inList _ _ => true
  | _ => false

mutual
/-- `UsesListVisitor` -/
def usesListL (f : Nat) (u : Bool) : LExpr → Bool
  | .combining _ items => usesListLs f u items
  | .comparison lhs op =>
    let u1 := if isInList op && usesI f false lhs then true else u
    if u1 then u1 else usesListI f u1 lhs
  | .paren e => if u then u else usesListL f u e
  | .unaryNot e => if u then u else usesListL f u e
  | .quantifier _ a => if u then u else usesListQ f u a
def usesListLs (f : Nat) (u : Bool) : List LExpr → Bool
  | [] => u
  | e :: es => usesListLs f (if u then u else usesListL f u e) es
def usesListI (f : Nat) (u : Bool) : IExpr → Bool
  | .field _ _ => u
  | .call _ args _ _ => if u then u else usesListAs f u args
def usesListAs (f : Nat) (u : Bool) : List AExpr → Bool
  | [] => u
  | a :: as => usesListAs f (if u then u else usesListA f u a) as
def usesListA (f : Nat) (u : Bool) : AExpr → Bool
  | .index e => if u then u else usesListI f u e
  | .literal _ => u
  | .logical e => if u then u else usesListL f u e
def usesListQ (f : Nat) (u : Bool) : QArg → Bool
  | .index e => if u then u else usesListI f u e
  | .logical e => if u then u else usesListL f u e
end

/-- `Scheme::get_field` -/
def Scheme.getField (s : Scheme) (name : List Char) : Option Nat :=
  match s.get name with
  | some (.field i) => some i
  | _ => none

/-- `FilterAst::uses` -/
def astUses (s : Scheme) (e : LExpr) (name : List Char) : Option Bool :=
  (s.getField name).map fun f => usesL f false e

/-- `FilterAst::uses_list` -/
def astUsesList (s : Scheme) (e : LExpr) (name : List Char) : Option Bool :=
  (s.getField name).map fun f => usesListL f false e

end WfModel
