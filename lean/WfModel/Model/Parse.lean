import WfModel.Model.Lit
/-
The parser: `ast/logical_expr.rs`, `ast/field_expr.rs` (lexing part), `ast/index_expr.rs`
(lexing part), `ast/function_expr.rs` (lexing part), `ast/mod.rs`, `ast/parse.rs`,
identifier lexing of `scheme.rs`.

Recursion structure = the one the Rust code relies on: every recursive descent
(parenthesis, `not`, quantifier, function call) goes through `with_increased_nesting`, so the
parser is defined by structural recursion on the *remaining nesting budget*
(`max_nesting_depth - current_nesting_depth`); loops take fuel bounded by the input length;
the precedence recursion is bounded by the three operator levels.
Import-free.
-/
namespace WfModel

/-! ### operator tables (hand-written; `Props` pin them to the tables extracted from the
`lex_enum!` invocations) -/

def logicalOps : List (String × LogicalOp) :=
  [("or", .or), ("||", .or), ("xor", .xor), ("^^", .xor), ("and", .and), ("&&", .and)]

def unaryOps : List (String × Unit) := [("not", ()), ("!", ())]

def quantOps : List (String × QOp) := [("any", .any), ("all", .all)]

def orderingOps : List (String × OrdOp) :=
  [("eq", .eq), ("==", .eq), ("ne", .ne), ("!=", .ne), ("ge", .ge), (">=", .ge),
   ("le", .le), ("<=", .le), ("gt", .gt), (">", .gt), ("lt", .lt), ("<", .lt)]

/-- `ComparisonOp` -/
inductive CompOp
  | in_ | ord (o : OrdOp) | bitAnd | contains | matches_ | wildcard | strictWildcard
deriving DecidableEq, Repr, Inhabited

/-- `ComparisonOp::lex` tries `"in"`, then `OrderingOp`, `IntOp`, `BytesOp`, each in its own
source order. -/
def comparisonOps : List (String × CompOp) :=
  [("in", .in_)] ++ orderingOps.map (fun (s, o) => (s, .ord o)) ++
  [("&", .bitAnd), ("bitwise_and", .bitAnd)] ++
  [("contains", .contains), ("~", .matches_), ("matches", .matches_),
   ("wildcard", .wildcard), ("strict wildcard", .strictWildcard)]

/-! ### settings and scheme lookups -/

structure Settings where
  maxDepth : Nat := 128
  starLimit : Option Nat := none   -- `usize::MAX` = unlimited
deriving Repr, Inhabited

/-- A verdict on a regex pattern from a model of (a subset of) the regex syntax:
`some true` valid, `some false` invalid, `none` = outside the modelled subset. -/
def isPlainRegexChar (c : Char) : Bool :=
  isAsciiAlnum c || c = ' ' || c = '_' || c = '-' || c = '/' || c = ':' || c = ',' ||
  c = '@' || c = '=' || c = '%' || c = '.'

def regexVerdict (p : List Char) : Option Bool :=
  if p.all isPlainRegexChar then some true else none

/-- Rust `char::is_whitespace` (Unicode `White_Space`), for `str::trim`. -/
def isRustWhitespace (c : Char) : Bool :=
  let n := c.toNat
  (9 ≤ n && n ≤ 13) || n = 0x20 || n = 0x85 || n = 0xA0 || n = 0x1680 ||
  (0x2000 ≤ n && n ≤ 0x200A) || n = 0x2028 || n = 0x2029 || n = 0x202F || n = 0x205F ||
  n = 0x3000

def trimStart : Input → Input
  | [] => []
  | c :: cs => if isRustWhitespace c then trimStart cs else c :: cs

def trimEnd (s : Input) : Input := (trimStart s.reverse).reverse

/-- number of characters `str::trim_start` removes -/
def trimStartCount (s : Input) : Nat := s.length - (trimStart s).length

def trim (s : Input) : Input := trimEnd (trimStart s)

/-! ### wildcard validation (`wildcard` crate with `?` disabled, then `validate_wildcard`) -/

inductive WTok | star | sym (b : UInt8)
deriving DecidableEq, Repr

/-- tokens of a pattern; `none` = invalid or incomplete escape -/
def wildTokens : Bytes → Option (List WTok)
  | [] => some []
  | b :: r =>
    if b = 92 then   -- '\\'
      match r with
      | c :: r2 => if c = 42 || c = 92 then (wildTokens r2).map (WTok.sym c :: ·) else none
      | [] => none
    else if b = 42 then (wildTokens r).map (WTok.star :: ·)
    else (wildTokens r).map (WTok.sym b :: ·)

def hasDoubleStar : List WTok → Bool
  | .star :: .star :: _ => true
  | _ :: r => hasDoubleStar r
  | [] => false

def wildcardOk (st : Settings) (pat : Bytes) : Bool :=
  match wildTokens pat with
  | none => false
  | some toks =>
    let stars := (toks.filter (· == WTok.star)).length
    (match st.starLimit with | some l => stars ≤ l | none => true) && !hasDoubleStar toks

/-! ### identifiers -/

def isIdentChar (c : Char) : Bool := isAsciiAlnum c || c = '_'

/-- the loop of `Identifier::lex_with`: returns the rest after the maximal dotted run -/
def identRest : Nat → Input → LexRes Unit
  | 0, input => errAt .outOfFuel input
  | f + 1, input =>
    match takeWhile1 isIdentChar input with
    | .error e => .error e
    | .ok (_, rest) =>
      match expect rest "." with
      | some r2 => identRest f r2
      | none => .ok ((), rest)

/-- `Identifier::lex_with` -/
def lexIdentifier (s : Scheme) (input : Input) : LexRes Ident :=
  match identRest (input.length + 1) input with
  | .error e => .error e
  | .ok (_, rest) =>
    let name := input.take (input.length - rest.length)
    match s.get name with
    | some id => .ok (id, rest)
    | none => errSpan .unknownIdentifier input rest

/-! ### function signatures -/

/-- `FunctionParam`: literal (with its type) or variable of a type -/
structure ParamInfo where
  isLiteral : Bool
  ty : Ty
deriving Repr, Inhabited

def kindOk (spec : ArgKindSpec) (isLit : Bool) : Bool :=
  match spec with
  | .literal => isLit
  | .field => !isLit
  | .both => true

/-- `definition.arg_count()` -/
def FuncSig.argCount : FuncSig → Nat × Option Nat
  | .simple ps os _ _ => (ps.length, some os.length)
  | .concat => (2, none)
  | .ctxCounter => (1, none)

inductive ParamErr | kind | ty | value
deriving Repr

/-- `definition.check_param(settings, params so far, next_param, ctx)` -/
def FuncSig.checkParam (sig : FuncSig) (prev : List ParamInfo) (next : ParamInfo) :
    Except ParamErr Unit :=
  match sig with
  | .simple ps os _ _ =>
    let i := prev.length
    match ps[i]? with
    | some (k, t) =>
      if !kindOk k next.isLiteral then .error .kind
      else if next.ty == t then .ok () else .error .ty
    | none =>
      match os[i - ps.length]? with
      | some (k, v) =>
        if !kindOk k next.isLiteral then .error .kind
        else if next.ty == v.typeOf then .ok () else .error .ty
      | none => .ok ()   -- `unreachable!()` in Rust; excluded by the arity check before
  | .concat =>
    match prev with
    | p :: _ => if next.ty == p.ty then .ok () else .error .ty
    | [] =>
      match next.ty with
      | .array _ => .ok ()
      | .bytes => .ok ()
      | _ => .error .ty
  | .ctxCounter => if next.ty == .bytes then .ok () else .error .ty

/-- `definition.return_type(params, ctx)` -/
def FuncSig.returnType (sig : FuncSig) (params : List ParamInfo) : Ty :=
  match sig with
  | .simple _ _ r _ => r
  | .concat => match params with | p :: _ => p.ty | [] => .bytes
  | .ctxCounter => .int

/-! ### results carried by the parser: node + its type (`GetType`) -/

structure Typed (α : Type) where
  node : α
  ty : Ty

/-- `IndexExpr::get_type` step -/
def indexStep (t : Ty) (ix : FieldIndex) : Option Ty :=
  match ix, t with
  | .arr _, .array e => some e
  | .key _, .map e => some e
  | .each, .array e => some e
  | .each, .map e => some e
  | _, _ => none

/-- the four recursive entry points at one nesting level -/
structure Level where
  /-- `LogicalExpr::lex_with` -/
  logical : Input → LexRes (Typed LExpr)
  /-- `LogicalExpr::lex_simple_expr` -/
  simple : Input → LexRes (Typed LExpr)
  /-- `QuantifierArgExpr::lex_with` -/
  quantArg : Input → LexRes QArg
  /-- `FunctionCallExpr::lex_with_function`: returns args, context, call type, first-arg map-each -/
  callBody : Nat → FuncSig → Input → LexRes (List AExpr × Option Nat × Ty)

structure PEnv where
  scheme : Scheme
  st : Settings

def nestErr {α} (span : Input) : Except LexErr α := errAt .nestingLimitExceeded span

/-- `LogicalExpr::lex_combining_op` -/
def lexCombiningOp (input : Input) : Option LogicalOp × Input :=
  match lexEnum logicalOps (skipSpace input) with
  | some (op, r) => (some op, skipSpace r)
  | none => (none, input)

/-- `rest.starts_with(|c| c.is_ascii_alphanumeric() || c == '_' || c == '.')` -/
def gluedTo (rest : Input) : Bool :=
  match rest with
  | c :: _ => isIdentChar c || c == '.'
  | [] => false

/-- `Identifier::lex_with(input, scheme).is_ok()`: the maximal dotted name at the start of the
input is a registered field or function -/
def isRegistered (s : Scheme) (input : Input) : Bool :=
  match lexIdentifier s input with
  | .ok _ => true
  | .error _ => false

/-- `LogicalExpr::lex_unary_op` (logical_expr.rs): `UnaryOp::lex` (`lexEnum unaryOps`), except
that the WORD operator directly followed by an identifier character or `.` (`glued`; never for
`!`) is *not* the operator when `Identifier::lex_with(input, scheme)` succeeds on the input
starting at the `n`, i.e. when the maximal dotted name there is a registered field or function:
`notes` is the field `notes`, never `not es`; an unregistered `nott` is still `not t`; a bare
`not` (nothing glued) is always the operator, even if a field is named `not`. -/
def lexUnary (env : PEnv) (input : Input) : Option (Unit × Input) :=
  match lexEnum unaryOps input with
  | none => none
  | some (op, rest) =>
    -- `glued = !input.starts_with('!') && rest.starts_with(name character)`
    if ((expect input "!").isNone && gluedTo rest) && isRegistered env.scheme input then none
    else some (op, rest)

def optPrec : Option LogicalOp → Nat
  | none => 0
  | some o => o.prec

def combine (op : LogicalOp) (lhs rhs : LExpr) : LExpr :=
  match lhs with
  | .combining lop items => if lop = op then .combining lop (items ++ [rhs]) else .combining op [lhs, rhs]
  | _ => .combining op [lhs, rhs]

def logicalTypesOk (l r : Ty) : Bool :=
  match l, r with
  | .bool, .bool => true
  | .array _, .array _ => true
  | _, _ => false

mutual
/-- `lex_more_with_precedence`: outer `while let Some(op) = lookahead.0` -/
def climb (simple : Input → LexRes (Typed LExpr)) :
    Nat → Typed LExpr → Option LogicalOp → Option LogicalOp × Input → LexRes (Typed LExpr)
  | 0, _, _, look => errAt .outOfFuel look.2
  | _ + 1, lhs, _, (none, rest) => .ok (lhs, rest)
  | f + 1, lhs, minPrec, (some op, inp) =>
    match simple inp with
    | .error e => .error e
    | .ok (rhs0, r0) =>
      match climbInner simple f op rhs0 r0 with
      | .error e => .error e
      | .ok ((rhs, rhsRest), look) =>
        if !logicalTypesOk lhs.ty rhs.ty then errAt .typeMismatch look.2
        else
          let lhs' : Typed LExpr := { node := combine op lhs.node rhs.node, ty := lhs.ty }
          let look' := if optPrec look.1 < optPrec minPrec then (none, rhsRest) else look
          climb simple f lhs' minPrec look'
/-- the inner `loop` of `lex_more_with_precedence`: extend `rhs` while the next operator
binds tighter than `op`. Returns the final rhs with the rest after it, and the lookahead. -/
def climbInner (simple : Input → LexRes (Typed LExpr)) :
    Nat → LogicalOp → Typed LExpr → Input →
      Except LexErr ((Typed LExpr × Input) × (Option LogicalOp × Input))
  | 0, _, _, r => errAt .outOfFuel r
  | f + 1, op, rhs, r =>
    let look := lexCombiningOp r
    if optPrec look.1 ≤ op.prec then .ok ((rhs, r), look)
    else
      match climb simple f rhs look.1 look with
      | .error e => .error e
      | .ok (rhs', r') => climbInner simple f op rhs' r'
end

/-- the `[ … ]` suffix loop of `IndexExpr::lex_with` -/
def lexIndexes : Nat → Input → Ty → List FieldIndex → LexRes (List FieldIndex × Ty)
  | 0, input, _, _ => errAt .outOfFuel input
  | f + 1, input, ty, acc =>
    match expect input "[" with
    | none => .ok ((acc, ty), input)
    | some r =>
      match lexFieldIndex (skipSpace r) with
      | .error e => .error e
      | .ok (ix, r2) =>
        match expect (skipSpace r2) "]" with
        | none => errAt .expectedLiteral (skipSpace r2)
        | some r3 =>
          match indexStep ty ix with
          | some ty' => lexIndexes f r3 ty' (acc ++ [ix])
          | none => errSpan .invalidIndexAccess input r3

/-- `ComparisonExpr::lex_with_lhs` -/
def cmpWithLhs (env : PEnv) (lhs : IExpr) (lhsTy : Ty) (input : Input) : LexRes (Typed LExpr) :=
  let mec := mapEachCount lhs.indexes
  let mk (op : CmpOp) (rest : Input) : LexRes (Typed LExpr) :=
    let ty : Ty := if mec > 0 then .array .bool else if op == CmpOp.isTrue then lhsTy else .bool
    .ok ({ node := .comparison lhs op, ty := ty }, rest)
  if lhsTy == .bool then mk .isTrue input
  else if lhsTy.next == some .bool then
    if mec > 0 then .error { kind := .unsupportedOp, pos := input, len := 0 }
    else mk .isTrue input
  else
    let initial := skipSpace input
    match lexEnum comparisonOps initial with
    | none => errAt .expectedName initial
    | some (op, afterOp) =>
      let inp := skipSpace afterOp
      let unsupported : LexRes (Typed LExpr) := errSpan .unsupportedOp initial afterOp
      match op with
      | .in_ =>
        if lhsTy == .ip || lhsTy == .bytes || lhsTy == .int then
          match expect inp "$" with
          | some _ =>
            match lexListName inp with
            | .error e => .error e
            | .ok (name, rest) =>
              match env.scheme.getList lhsTy with
              | some l => mk (.inList l name) rest
              | none => errSpan .unsupportedOp initial rest
          | none =>
            match lexRhsVals lhsTy inp with
            | some (.ok (vs, rest)) => mk (.oneOf vs) rest
            | some (.error e) => .error e
            | none => unsupported
        else unsupported
      | .ord o =>
        if lhsTy == .ip || lhsTy == .bytes || lhsTy == .int then
          match lexRhsVal lhsTy inp with
          | some (.ok (v, rest)) => mk (.ordering o v) rest
          | some (.error e) => .error e
          | none => unsupported
        else unsupported
      | .bitAnd =>
        if lhsTy == .int then
          match lexInt inp with
          | .ok (v, rest) => mk (.bitAnd v) rest
          | .error e => .error e
        else unsupported
      | .contains =>
        if lhsTy == .bytes then
          match lexBytes inp with
          | .ok (b, rest) => mk (.contains b) rest
          | .error e => .error e
        else unsupported
      | .matches_ =>
        if lhsTy == .bytes then
          match inp with
          | '"' :: r =>
            -- `lex_regex_from_literal`
            let rec scan : Input → Bool → List Char → Option (List Char × Input)
              | [], _, _ => none
              | '\\' :: c :: rest, cls, acc =>
                if cls || c ≠ '"' then scan rest cls (c :: '\\' :: acc) else scan rest cls (c :: acc)
              | ['\\'], _, _ => none
              | c :: rest, cls, acc =>
                if c = '"' && !cls then some (acc.reverse, rest)
                else if c = '[' && !cls then scan rest true (c :: acc)
                else if c = ']' && cls then scan rest false (c :: acc)
                else scan rest cls (c :: acc)
            match scan r false [] with
            | none => errAt .missingEndingQuote r
            | some (pat, rest) =>
              match regexVerdict pat with
              | some true => mk (.matches pat .literal) rest
              | some false => errSpan .parseRegex r rest
              | none => errAt .undecided r
          | 'r' :: r =>
            match lexRawStr r with
            | .error e => .error e
            | .ok ((pat, k), rest) =>
              match regexVerdict pat with
              | some true => mk (.matches pat (.raw k)) rest
              | some false => errAt .parseRegex rest
              | none => errAt .undecided r
          | [] => errAt .eof inp
          | _ => errAt .expectedName inp
        else unsupported
      | .wildcard =>
        if lhsTy == .bytes then
          match lexQuotedOrRaw inp with
          | .error e => .error e
          | .ok (b, rest) =>
            if wildcardOk env.st b.data then mk (.wildcard false b) rest else errAt .parseWildcard inp
        else unsupported
      | .strictWildcard =>
        if lhsTy == .bytes then
          match lexQuotedOrRaw inp with
          | .error e => .error e
          | .ok (b, rest) =>
            if wildcardOk env.st b.data then mk (.wildcard true b) rest else errAt .parseWildcard inp
        else unsupported

def cIsField (c : Char) : Bool := (isAsciiAlnum c && !isAsciiHexDigit c) || c = '_'
def cIsFieldOrInt (c : Char) : Bool := isAsciiAlnum c || c = '_'

/-- `QuantifierOp::lex_call` -/
def lexQuantCall (input : Input) : Option (QOp × Input) :=
  match lexEnum quantOps input with
  | some (op, rest) => if (expect (skipSpace rest) "(").isSome then some (op, rest) else none
  | none => none

def AExpr.mapEachCount : AExpr → Nat
  | .index e => WfModel.mapEachCount e.indexes
  | _ => 0

/-- `IndexExpr::lex_with` at a level whose lower level is `lower` (`none` = budget exhausted) -/
def indexExprL (env : PEnv) (lower : Option Level) (input : Input) : LexRes (Typed IExpr) :=
  match lexIdentifier env.scheme input with
  | .error e => .error e
  | .ok (.field i, rest) =>
    match lexIndexes (rest.length + 1) rest (env.scheme.fieldTy i) [] with
    | .error e => .error e
    | .ok ((ixs, ty), rest2) => .ok ({ node := .field i ixs, ty := ty }, rest2)
  | .ok (.func i, rest) =>
    match env.scheme.funcs[i]? with
    | none => errAt .unknownIdentifier input
    | some (_, sig) =>
      match lower with
      | none => nestErr (skipSpace rest)
      | some lw =>
        match lw.callBody i sig rest with
        | .error e => .error e
        | .ok ((args, ctx, callTy), rest2) =>
          match lexIndexes (rest2.length + 1) rest2 callTy [] with
          | .error e => .error e
          | .ok ((ixs, ty), rest3) => .ok ({ node := .call i args ctx ixs, ty := ty }, rest3)

/-- `ComparisonExpr::lex_with` -/
def comparisonL (env : PEnv) (lower : Option Level) (input : Input) : LexRes (Typed LExpr) :=
  match indexExprL env lower input with
  | .error e => .error e
  | .ok (lhs, rest) => cmpWithLhs env lhs.node lhs.ty rest

/-- `LogicalExpr::lex_simple_expr`; the unary operator is recognised by `lex_unary_op`
(`lexUnary`): a registered name that begins with the word `not` falls through to the
quantifier / comparison branches. -/
def simpleL (env : PEnv) (lower : Option Level) (input : Input) : LexRes (Typed LExpr) :=
  match expect input "(" with
  | some rest =>
    match lower with
    | none => nestErr input
    | some lw =>
      match lw.logical (skipSpace rest) with
      | .error e => .error e
      | .ok (e, r) =>
        match expect (skipSpace r) ")" with
        | some r2 => .ok ({ node := .paren e.node, ty := e.ty }, r2)
        | none => errAt .expectedLiteral (skipSpace r)
  | none =>
    match lexUnary env input with
    | some (_, rest) =>
      match lower with
      | none => nestErr input
      | some lw =>
        match lw.simple (skipSpace rest) with
        | .error e => .error e
        | .ok (e, r) => .ok ({ node := .unaryNot e.node, ty := e.ty }, r)
    | none =>
      match lexQuantCall input with
      | some (op, rest) =>
        match lower with
        | none => nestErr (skipSpace rest)
        | some lw =>
          match expect (skipSpace rest) "(" with
          | none => errAt .expectedLiteral (skipSpace rest)
          | some r1 =>
            match lw.quantArg (skipSpace r1) with
            | .error e => .error e
            | .ok (arg, r2) =>
              match expect (skipSpace r2) ")" with
              | some r3 => .ok ({ node := .quantifier op arg, ty := .bool }, r3)
              | none => errAt .expectedLiteral (skipSpace r2)
      | none => comparisonL env lower input

/-- `LogicalExpr::lex_with` -/
def logicalL (env : PEnv) (lower : Option Level) (input : Input) : LexRes (Typed LExpr) :=
  match simpleL env lower input with
  | .error e => .error e
  | .ok (lhs, rest) =>
    climb (simpleL env lower) (2 * rest.length + 8) lhs none (lexCombiningOp rest)

/-- the tail of `FunctionCallArgExpr::lex_with` once an index expression has been lexed -/
def argAfterIndex (env : PEnv) (lhs : Typed IExpr) (rest : Input) : LexRes (Typed AExpr) :=
  if (lexEnum comparisonOps (skipSpace rest)).isSome then
    match cmpWithLhs env lhs.node lhs.ty rest with
    | .error e => .error e
    | .ok (c, r) => .ok ({ node := .logical c.node, ty := c.ty }, r)
  else .ok ({ node := .index lhs.node, ty := lhs.ty }, rest)

def argLit (ty : Ty) (input : Input) : Option (LexRes (Typed AExpr)) :=
  (lexRhsVal ty input).map fun r =>
    r.map fun (v, rest) => ({ node := .literal v, ty := v.typeOf }, rest)

/-- "Fallback to blind parsing next argument" -/
def argFallback (env : PEnv) (lower : Option Level) (input : Input) : LexRes (Typed AExpr) :=
  match indexExprL env lower input with
  | .ok (lhs, rest) => argAfterIndex env lhs rest
  | .error _ =>
    match argLit .ip input with
    | some (.ok r) => .ok r
    | _ =>
      match argLit .int input with
      | some (.ok r) => .ok r
      | _ =>
        match argLit .bytes input with
        | some (.ok r) => .ok r
        | _ => errAt .eof input

/-- `FunctionCallArgExpr::lex_with`: the argument and its type. An argument is a logical
expression when it starts with `(`, with a unary operator in the sense of
`LogicalExpr::lex_unary_op` (`lexUnary`: not a registered name beginning with `not`) or with a
quantifier call. -/
def argL (env : PEnv) (lower : Option Level) (input : Input) : LexRes (Typed AExpr) :=
  match input with
  | [] => argFallback env lower input
  | c :: cs =>
    let c2 := cs.head?
    let c3 := (cs.drop 1).head?
    if c = '"' || (c = 'r' && (c2 = some '#' || c2 = some '"')) then
      match argLit .bytes input with
      | some r => r
      | none => errAt .eof input
    else if c = '(' || (lexUnary env input).isSome || (lexQuantCall input).isSome then
      match logicalL env lower input with
      | .error e => .error e
      | .ok (e, r) => .ok ({ node := .logical e.node, ty := e.ty }, r)
    else if cIsField c
        || (cIsFieldOrInt c && (c2.map cIsField).getD false)
        || (cIsFieldOrInt c && (c2.map cIsFieldOrInt).getD false && (c3.map cIsField).getD false) then
      match indexExprL env lower input with
      | .error e => .error e
      | .ok (lhs, rest) => argAfterIndex env lhs rest
    else argFallback env lower input

/-- the argument loop of `lex_with_function` -/
def callArgsLoop (env : PEnv) (lower : Option Level) (sig : FuncSig) :
    Nat → Input → List AExpr → List ParamInfo → Option Nat →
      LexRes (List AExpr × List ParamInfo × Option Nat)
  | 0, inp, _, _, _ => errAt .outOfFuel inp
  | f + 1, inp, args, params, ctx =>
    match inp with
    | [] => .ok ((args, params, ctx), inp)
    | c :: _ =>
      if c = ')' then .ok ((args, params, ctx), inp)
      else
        let index := args.length
        let afterComma : Except LexErr Input :=
          if index ≠ 0 then
            match expect inp "," with
            | some r => .ok r
            | none => errAt .expectedLiteral inp
          else .ok inp
        match afterComma with
        | .error e => .error e
        | .ok inp1 =>
          let inp2 := skipSpace inp1
          match argL env lower inp2 with
          | .error e => .error e
          | .ok (a, rest) =>
            if a.node.mapEachCount > 0 && index ≠ 0 then errSpan .invalidMapEachAccess inp2 rest
            else
              let tooMany : Bool := match sig.argCount.2 with
                | some o => decide (index ≥ sig.argCount.1 + o)
                | none => false
              if tooMany then errAt .invalidArgumentsCount inp2
              else
                let next : ParamInfo :=
                  { isLiteral := (match a.node with | .literal _ => true | _ => false), ty := a.ty }
                match sig.checkParam params next with
                | .error .kind => errSpan .invalidArgumentKind inp2 rest
                | .error .ty => errSpan .invalidArgumentType inp2 rest
                | .error .value => errSpan .invalidArgumentValue inp2 rest
                | .ok _ =>
                  let ctx' := match sig with
                    | .ctxCounter => ctx.map (· + 1)
                    | _ => ctx
                  callArgsLoop env lower sig f (skipSpace rest) (args ++ [a.node]) (params ++ [next]) ctx'

/-- `FunctionCallExpr::lex_with_function`: arguments, definition context, type of the call -/
def callBodyL (env : PEnv) (lower : Option Level) (_fn : Nat) (sig : FuncSig) (input : Input) :
    LexRes (List AExpr × Option Nat × Ty) :=
  let inp0 := skipSpace input
  match expect inp0 "(" with
  | none => errAt .expectedLiteral inp0
  | some r =>
    let r := skipSpace r
    let ctx0 : Option Nat := match sig with | .ctxCounter => some 0 | _ => none
    match callArgsLoop env lower sig (r.length + 2) r [] [] ctx0 with
    | .error e => .error e
    | .ok ((args, params, ctx), rest) =>
      if args.length < sig.argCount.1 then errAt .invalidArgumentsCount rest
      else
        match expect rest ")" with
        | none => errAt .expectedLiteral rest
        | some rest2 =>
          let ret := sig.returnType params
          let mapped : Bool := match args with | a :: _ => decide (a.mapEachCount > 0) | [] => false
          .ok ((args, ctx, if mapped then .array ret else ret), rest2)

/-- `QuantifierArgExpr::lex_with` -/
def quantArgL (env : PEnv) (lower : Option Level) (input : Input) : LexRes QArg :=
  match argL env lower input with
  | .error e => .error e
  | .ok (a, rest) =>
    match a.node with
    | .literal _ => errSpan .typeMismatch input rest
    | .index e =>
      -- an index expression with `[*]` evaluates to an array of its elements: never `Array(Bool)`
      if a.ty == .array .bool && mapEachCount e.indexes == 0 then .ok (.index e, rest)
      else errSpan .typeMismatch input rest
    | .logical e => if a.ty == .array .bool then .ok (.logical e, rest) else errSpan .typeMismatch input rest

/-- Builds one nesting level from the level below (`none` = nesting budget exhausted). -/
def mkLevel (env : PEnv) (lower : Option Level) : Level :=
  { logical := logicalL env lower, simple := simpleL env lower,
    quantArg := quantArgL env lower, callBody := callBodyL env lower }

/-- the parser with `budget` levels of nesting still allowed -/
def level (env : PEnv) : Nat → Level
  | 0 => mkLevel env none
  | n + 1 => mkLevel env (some (level env n))

/-- the level below the one with `budget` nesting levels left -/
def lowerOf (env : PEnv) : Nat → Option Level
  | 0 => none
  | n + 1 => some (level env n)

/-- `IndexExpr::lex_with` at the top level (`FilterValueAst`) -/
def topIndexExpr (env : PEnv) (input : Input) : LexRes (Typed IExpr) :=
  indexExprL env (lowerOf env env.st.maxDepth) input

/-- `complete` -/
def complete {α} (r : LexRes α) : Except LexErr α :=
  match r with
  | .error e => .error e
  | .ok (a, []) => .ok a
  | .ok (_, rest) => errAt .eof rest

/-- `FilterParser::parse` (on the trimmed input; the error span refers to it) -/
def parseFilter (env : PEnv) (src : Input) : Except LexErr LExpr :=
  let input := trim src
  complete <|
    match (level env env.st.maxDepth).logical input with
    | .error e => .error e
    | .ok (e, rest) =>
      if e.ty == .bool then .ok (e.node, rest) else errAt .typeMismatch rest

/-- `FilterParser::parse_value` -/
def parseValue (env : PEnv) (src : Input) : Except LexErr (Typed IExpr) :=
  let input := trim src
  complete <|
    match topIndexExpr env input with
    | .error e => .error e
    | .ok (e, rest) =>
      if mapEachCount e.node.indexes > 0 then errAt .typeMismatch input else .ok (e, rest)

end WfModel
