/-
Model of the `contains` operator: searcher selection in
`engine/src/ast/field_expr.rs:542-687` (`ComparisonOpExpr::Contains`), the searchers of
`engine/src/searcher.rs`, `sliceslice::MemchrSearcher` and the *scalar skeleton* of
`sliceslice::x86::Avx2Searcher::inlined_search_in` / `vector_search_in(_chunk)`.

Import-free (core Lean only) so that the driver links as a `lean_exe`.

What is and is not represented
* represented: which searcher is chosen from `(needle length, USE_AVX2)`; the early exit
  `haystack.len() <= needle.len() ⇒ haystack == needle`; the number of candidate offsets
  `end = |h| - |p| + 1`; a candidate offset is one where the first needle byte and the
  anchor byte (`position`) both match; a candidate is confirmed by comparing the
  remaining `|p| - 1` bytes (`memcmp(chunk+1, needle+1, size-1)`); `with_position`'s
  `assert!(position < needle.size())`; `MemchrSearcher`'s empty-haystack shortcut.
* not represented (third-party `unsafe` SIMD, sampled by the correspondence run only):
  how the offsets are grouped in 2/4/8/16/32-lane vectors, the overlapping last chunk and
  its mask, `memchr`/`memmem`'s own vector code.
-/
namespace WfModel.Search

abbrev Bytes := List UInt8

/-- Reference substring search: `p` occurs in `h` at the head or somewhere in the tail
(`haystack.windows(n).any(|w| w == needle)`, with the empty needle occurring everywhere,
also in the empty haystack). -/
def naive : Bytes → Bytes → Bool
  | [], p => p.isEmpty
  | b :: t, p => p.isPrefixOf (b :: t) || naive t p

/-- `memchr::memchr`: offset of the first occurrence of a byte. -/
def memchr (b : UInt8) : Bytes → Option Nat
  | [] => none
  | a :: t => if a == b then some 0 else (memchr b t).map (· + 1)

/-- `sliceslice::MemchrSearcher::inlined_search_in`. -/
def memchrSearch (b : UInt8) (h : Bytes) : Bool :=
  if h.isEmpty then false else (memchr b h).isSome

/-- `memchr::memmem::Finder::find` by its documented contract: offset of the first
occurrence of the needle. -/
def memmemFind (p : Bytes) : Bytes → Option Nat
  | [] => if p.isEmpty then some 0 else none
  | b :: t => if p.isPrefixOf (b :: t) then some 0 else (memmemFind p t).map (· + 1)

/-- One lane of `vector_search_in_chunk` at the offset where `w` starts: the first byte and
the anchor byte `k` are compared first (`eq_first & eq_last`); only then the remaining
`size - 1` bytes after the first are compared (`memcmp(chunk + 1, needle + 1, size - 1)`). -/
def anchoredAt (k : Nat) (p w : Bytes) : Bool :=
  match w, p with
  | b :: wt, a :: pt => b == a && w[k]? == p[k]? && wt.take pt.length == pt
  | _, _ => false

/-- The candidate offsets `0 .. n-1` (`n = end`), left to right. -/
def anchoredScan (k : Nat) (p : Bytes) : Nat → Bytes → Bool
  | 0, _ => false
  | n + 1, h => anchoredAt k p h || anchoredScan k p n h.tail

/-- `Avx2Searcher::inlined_search_in` (scalar skeleton). -/
def anchoredSearch (k : Nat) (h p : Bytes) : Bool :=
  if h.length ≤ p.length then h == p
  else anchoredScan k p (h.length - p.length + 1) h

/-- The compiled comparison closure of a `contains` expression. -/
inductive Searcher
  /-- `EmptySearcher` -/
  | empty
  /-- `sliceslice::MemchrSearcher` -/
  | memchr (b : UInt8)
  /-- `Avx2Searcher<[u8; N]>` (2 ≤ N ≤ 16) or `Avx2Searcher<Box<[u8]>>` with anchor `k` -/
  | anchored (k : Nat) (p : Bytes)
  /-- `MemmemSearcher` -/
  | memmem (p : Bytes)
deriving Repr, DecidableEq

/-- Searcher selection of `ComparisonOpExpr::Contains`. `useAvx2` is the latched
`USE_AVX2`; `k` is the position drawn by `rng().random_range(1..len)` (or forced through the
verification hook) — it is only looked at on the AVX2 path with `len ≥ 2`. -/
def dispatch (p : Bytes) (useAvx2 : Bool) (k : Nat) : Searcher :=
  match p with
  | [] => .empty
  | [b] => .memchr b
  | _ => if useAvx2 then .anchored k p else .memmem p

/-- Short name of the selected searcher kind (coverage). -/
def Searcher.kind : Searcher → String
  | .empty => "empty"
  | .memchr _ => "memchr"
  | .anchored _ p => if p.length ≤ 16 then "avx2array" else "avx2boxed"
  | .memmem _ => "memmem"

/-- Executing the compiled closure on a haystack. `none` = the Rust code panics
(`Avx2Searcher::with_position`: `assert!(position < needle.size())`). -/
def run : Searcher → Bytes → Option Bool
  | .empty, _ => some true
  | .memchr b, h => some (memchrSearch b h)
  | .anchored k p, h => if k < p.length then some (anchoredSearch k h p) else none
  | .memmem p, h => some (memmemFind p h).isSome

/-- `h contains p` as the engine computes it. -/
def containsOp (p : Bytes) (useAvx2 : Bool) (k : Nat) (h : Bytes) : Option Bool :=
  run (dispatch p useAvx2 k) h

end WfModel.Search
