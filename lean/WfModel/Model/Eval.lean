import WfModel.Model.Ast
import WfModel.Model.RangeSet
import WfModel.Model.Parse
/-
Evaluation: `compile_with_compiler` of every AST node + `execute`, modelled as direct
evaluation (closure capture is not represented).  Every Rust `unreachable!()` / `unwrap()` /
`cast_value!` / `assert!` on these paths is an explicit `Stuck` outcome.
Import-free.
-/
namespace WfModel

inductive Stuck
  | castValue | unreachable | unwrapIndex | missingMandatory | tryFromIter | outOfFuel
  | assertArgs | badFunction | undecided
deriving DecidableEq, Repr, Inhabited

abbrev EM (α : Type) := Except Stuck α

/-- a value or a typed absence (`CompiledValueResult = Result<LhsValue, Type>`) -/
abbrev VRes := Except Ty Val

/-- state of one list matcher of the harness: named sets of values -/
structure ListState where
  kind : ListKind
  sets : List (List Char × List Val)
deriving Inhabited

structure Ctx where
  values : List (Option Val)
  lists : List ListState
deriving Inhabited

/-! ### static types (`GetType`) -/

def applyIndexes (t : Ty) : List FieldIndex → Ty
  | [] => t
  | ix :: r => match indexStep t ix with
    | some t' => applyIndexes t' r
    | none => t   -- Rust: `unreachable!()`; excluded by the parser

mutual
def tyL (s : Scheme) : LExpr → Ty
  | .combining _ items => match items with
    | [] => .bool
    | i :: _ => tyL s i
  | .comparison lhs op =>
    if mapEachCount lhs.indexes > 0 then .array .bool
    else if op == CmpOp.isTrue then tyI s lhs else .bool
  | .paren e => tyL s e
  | .unaryNot e => tyL s e
  | .quantifier _ _ => .bool
def tyI (s : Scheme) : IExpr → Ty
  | .field f ixs => applyIndexes (s.fieldTy f) ixs
  | .call fn args _ ixs =>
    let ret := match s.funcs[fn]? with
      | some (_, .simple _ _ r _) => r
      | some (_, .concat) => (match args with | a :: _ => tyA s a | [] => .bytes)
      | some (_, .ctxCounter) => .int
      | none => .bool
    let callTy := match args with
      | a :: _ => if a.mapEachCount > 0 then .array ret else ret
      | [] => ret
    applyIndexes callTy ixs
def tyA (s : Scheme) : AExpr → Ty
  | .index e => tyI s e
  | .literal v => v.typeOf
  | .logical e => tyL s e
end

/-! ### value access -/

def mapGet (kvs : List (Bytes × Val)) (k : Bytes) : Option Val :=
  (kvs.find? (fun kv => kv.1 == k)).map (·.2)

/-- `LhsValue::get` -/
def Val.get (v : Val) (ix : FieldIndex) : EM (Option Val) :=
  match v, ix with
  | .array _ xs, .arr n => .ok xs[n]?
  | .map _ kvs, .key k => .ok (mapGet kvs (utf8s k))
  | _, _ => .error .unwrapIndex

/-- `LhsValue::get_nested` / `extract_nested`: `try_fold` with `unwrap` on each step -/
def getNested (v : Val) : List FieldIndex → EM (Option Val)
  | [] => .ok (some v)
  | ix :: r =>
    match v.get ix with
    | .error e => .error e
    | .ok none => .ok none
    | .ok (some v') => getNested v' r

/-- `FieldIndexIterator::new(val, idx)` followed by exhausting it: the items it will yield -/
def indexIterItems (v : Val) (ix : FieldIndex) : EM (List Val) :=
  match ix, v with
  | .arr n, .array _ xs => .ok (match xs[n]? with | some x => [x] | none => [])
  | .key k, .map _ kvs => .ok (match mapGet kvs (utf8s k) with | some x => [x] | none => [])
  | .each, .array _ xs => .ok xs
  | .each, .map _ kvs => .ok (kvs.map (·.2))
  | _, _ => .error .unwrapIndex

/-- `MapEachIterator`: explicit stack of per-index iterators (deepest last); one `next()`.
Returns the produced item (if any) and the new stack. -/
def mapEachNext (ixs : List FieldIndex) : Nat → List (List Val) → EM (Option Val × List (List Val))
  | 0, _ => .error .outOfFuel
  | f + 1, stack =>
    match stack.reverse with
    | [] => .ok (none, [])
    | top :: belowRev =>
      match top with
      | x :: top' =>
        let stack' := (top' :: belowRev).reverse
        if stack.length = ixs.length then .ok (some x, stack')
        else
          match ixs[stack.length]? with
          | none => .error .unreachable
          | some ix =>
            match indexIterItems x ix with
            | .error e => .error e
            | .ok items => mapEachNext ixs f (stack' ++ [items])
      | [] => mapEachNext ixs f belowRev.reverse

mutual
def valNodes : Val → Nat
  | .array _ xs => valNodesList xs + 1
  | .map _ kvs => valNodesKvs kvs + 1
  | _ => 1
def valNodesList : List Val → Nat
  | [] => 0
  | x :: xs => valNodes x + valNodesList xs
def valNodesKvs : List (Bytes × Val) → Nat
  | [] => 0
  | (_, x) :: xs => valNodes x + valNodesKvs xs
end

/-- drain the iterator after `reset(val)` -/
def mapEachCollect (ixs : List FieldIndex) (fuel : Nat) :
    Nat → List (List Val) → List Val → EM (List Val)
  | 0, _, _ => .error .outOfFuel
  | n + 1, stack, acc =>
    match mapEachNext ixs fuel stack with
    | .error e => .error e
    | .ok (none, _) => .ok acc
    | .ok (some x, stack') => mapEachCollect ixs fuel n stack' (acc ++ [x])

/-- `MapEachIterator::from_indexes(ixs)`, `reset(v)`, collect -/
def mapEachRun (ixs : List FieldIndex) (v : Val) : EM (List Val) :=
  match ixs with
  | [] => .error .unwrapIndex   -- `self.indexes.first().unwrap()`
  | ix :: _ =>
    match indexIterItems v ix with
    | .error e => .error e
    | .ok items =>
      let fuel := 2 * valNodes v + 2 * ixs.length + 4
      mapEachCollect ixs fuel fuel [items] []

/-! ### comparisons -/

def cmpBytes : Bytes → Bytes → Ordering
  | [], [] => .eq
  | [], _ :: _ => .lt
  | _ :: _, [] => .gt
  | a :: as, b :: bs => if a < b then .lt else if b < a then .gt else cmpBytes as bs

def cmpInt (a b : Int) : Ordering := if a < b then .lt else if b < a then .gt else .eq
def cmpNat (a b : Nat) : Ordering := if a < b then .lt else if b < a then .gt else .eq

/-- `OrderingOp::matches` through the bit masks `LESS=1, GREATER=2, EQUAL=4` -/
def OrdOp.mask : OrdOp → Nat
  | .eq => 4 | .ne => 3 | .ge => 6 | .le => 5 | .gt => 2 | .lt => 1

def orderingFlag : Ordering → Nat
  | .lt => 1 | .gt => 2 | .eq => 4

def OrdOp.matchesOrd (op : OrdOp) (o : Ordering) : Bool := op.mask &&& orderingFlag o ≠ 0

/-- `strict_partial_cmp` for `IpAddr` -/
def cmpIp : Ip → Ip → Option Ordering
  | .v4 a, .v4 b => some (cmpNat a b)
  | .v6 a, .v6 b => some (cmpNat a b)
  | _, _ => none

/-- `OrderingOp::matches_opt` -/
def OrdOp.matchesOpt (op : OrdOp) : Option Ordering → Bool
  | some o => op.matchesOrd o
  | none => op == .ne

/-- two's complement bitwise and of two `i64`, tested against zero -/
def bitAndNonZero (a b : Int) : Bool :=
  (BitVec.ofInt 64 a &&& BitVec.ofInt 64 b) ≠ 0#64

def isPrefixOf (p h : Bytes) : Bool :=
  match p, h with
  | [], _ => true
  | _ :: _, [] => false
  | a :: as, b :: bs => a == b && isPrefixOf as bs

/-- substring search (reference semantics of `contains`) -/
def containsBytes (h p : Bytes) : Bool :=
  match h with
  | [] => p.isEmpty
  | _ :: t => isPrefixOf p h || containsBytes t p

def foldByte (strict : Bool) (b : UInt8) : UInt8 :=
  if !strict && 65 ≤ b.toNat && b.toNat ≤ 90 then b + 32 else b

/-- whole-value wildcard match over tokens -/
def wildMatch (strict : Bool) : List WTok → Bytes → Bool
  | [], v => v.isEmpty
  | .sym b :: ts, v =>
    match v with
    | c :: v' => foldByte strict b == foldByte strict c && wildMatch strict ts v'
    | [] => false
  | .star :: ts, v =>
    wildMatch strict ts v ||
    match v with
    | _ :: v' => wildMatch strict (.star :: ts) v'
    | [] => false
termination_by ts v => ts.length + v.length + ts.length
decreasing_by all_goals simp_wf <;> omega

/-- plain-regex subset (`isPlainRegexChar`): literal bytes, `.` = any byte but `\n`;
unanchored search -/
def plainMatchHere : List Char → Bytes → Bool
  | [], _ => true
  | _ :: _, [] => false
  | c :: cs, b :: bs =>
    (if c = '.' then b ≠ 10 else b.toNat = c.toNat) && plainMatchHere cs bs

def plainSearch (p : List Char) : Bytes → Bool
  | [] => plainMatchHere p []
  | b :: bs => plainMatchHere p (b :: bs) || plainSearch p bs

def IpRangeLit.toItem : IpRangeLit → RangeSet.IpItem
  | .explicit v6 lo hi => .explicit (if v6 then .v6 else .v4) lo hi
  | .cidr v6 a n => .cidr (if v6 then .v6 else .v4) a n

def listMatch (c : Ctx) (l : Nat) (name : List Char) (v : Val) : EM Bool :=
  match c.lists[l]? with
  | none => .error .unreachable
  | some st =>
    match st.kind with
    | .always => .ok true
    | .never => .ok false
    | .sets =>
      .ok (match st.sets.find? (fun s => s.1 == name) with
        | some (_, vs) => vs.any (· == v)
        | none => false)

/-- `Compare::compare` of the comparator each `ComparisonOpExpr` compiles to -/
def compareVal (c : Ctx) (op : CmpOp) (v : Val) : EM Bool :=
  match op, v with
  | .isTrue, .bool b => .ok b
  | .ordering o (.int r), .int l => .ok (o.matchesOrd (cmpInt l r))
  | .ordering o (.bytes r), .bytes l => .ok (o.matchesOrd (cmpBytes l r.data))
  | .ordering o (.ip r), .ip l => .ok (o.matchesOpt (cmpIp l r))
  | .bitAnd r, .int l => .ok (bitAndNonZero l r)
  | .contains p, .bytes h => .ok (containsBytes h p.data)
  | .matches p _, .bytes h => .ok (plainSearch p h)
  | .wildcard strict p, .bytes h =>
    (match wildTokens p.data with
     | some toks => .ok (wildMatch strict toks h)
     | none => .error .unreachable)
  | .oneOf (.int rs), .int l => .ok (RangeSet.inSetInt (rs.map fun (a, b) => ⟨a, b⟩) l)
  | .oneOf (.ip rs), .ip (.v4 a) => .ok (RangeSet.inSetIp (rs.map IpRangeLit.toItem) .v4 a)
  | .oneOf (.ip rs), .ip (.v6 a) => .ok (RangeSet.inSetIp (rs.map IpRangeLit.toItem) .v6 a)
  | .oneOf (.bytes bs), .bytes l => .ok (RangeSet.inSetBytes (bs.map (·.data)) l)
  | .inList l name, v => listMatch c l name v
  | _, _ => .error .castValue

/-! ### harness functions -/

def asciiLower (b : UInt8) : UInt8 := if 65 ≤ b.toNat && b.toNat ≤ 90 then b + 32 else b

def natDigits (n : Nat) : Bytes := (toString n).toList.map fun c => UInt8.ofNat c.toNat
def intBytes (i : Int) : Bytes := (toString i).toList.map fun c => UInt8.ofNat c.toNat

/-- implementations of the harness' `SimpleFunctionDefinition`s, by id -/
def simpleImpl (id : Nat) (args : List VRes) : EM (Option Val) :=
  match id, args with
  | 0, [.ok (.bytes b)] => .ok (some (.bytes b))                      -- echo
  | 0, [.error _] => .ok none
  | 1, [.ok (.bytes b)] => .ok (some (.bytes (b.map asciiLower)))     -- lower
  | 1, [.error _] => .ok none
  | 2, [.ok (.bytes b)] => .ok (some (.int b.length))                 -- len
  | 2, [.error _] => .ok none
  | 3, [.ok (.array _ xs)] => .ok xs.head?                            -- first
  | 3, [.error _] => .ok none
  | 4, [a, .ok (.int i), .ok (.bytes s)] =>                           -- opt2
    (match a with
     | .ok (.bytes b) => .ok (some (.bytes (b ++ [124] ++ intBytes i ++ [124] ++ s)))
     | .error _ => .ok (some (.bytes ([33, 124] ++ intBytes i ++ [124] ++ s)))
     | _ => .error .badFunction)
  | 4, [a, .ok (.int i), .error _] =>                                 -- opt2, absent third argument
    (match a with
     | .ok (.bytes b) => .ok (some (.bytes (b ++ [124] ++ intBytes i ++ [124] ++ [63])))
     | .error _ => .ok (some (.bytes ([33, 124] ++ intBytes i ++ [124] ++ [63])))
     | _ => .error .badFunction)
  | 5, [.ok (.bytes b)] => .ok (if b.isEmpty then none else some (.bytes b))  -- dropempty
  | 5, [.error _] => .ok none
  | 6, [.ok (.array _ xs)] => .ok (some (.int xs.length))             -- alen
  | 6, [.error _] => .ok (some (.int (-1)))
  | 7, [.ok (.int a), .ok (.int b)] => .ok (some (.int (BitVec.ofInt 64 (a + b)).toInt))  -- addlit (wrapping)
  | 7, [.error _, .ok (.int b)] => .ok (some (.int b))
  | 8, [.ok (.bool b)] => .ok (some (.int (if b then 1 else 0)))      -- b2i(Bool)
  | 8, [.error _] => .ok none
  | 9, [.ok (.array _ xs)] => .ok (some (.int xs.length))             -- blen(Array(Bool))
  | 9, [.error _] => .ok (some (.int (-1)))
  | 10, [.ok (.bytes a), .ok (.bytes b)] => .ok (some (.int (a.length + b.length)))  -- len2
  | 10, [.ok (.bytes a), .error _] => .ok (some (.int ((a.length : Int) - 1)))
  | 10, [.error _, _] => .ok none
  | 11, [] => .ok (some (.bool true))                                  -- nil0()
  | 12, [.ok (.bool c), x] =>                                          -- when(cond, x)
    .ok (if c then (match x with | .ok v => some v | .error _ => none) else none)
  | 12, [.error _, _] => .ok none
  | _, _ => .error .badFunction

/-- `concat_impl` -/
def concatImpl (args : List VRes) : EM (Option Val) :=
  let present : List Val := args.filterMap fun a => match a with | .ok v => some v | .error _ => none
  match present with
  | [] => .ok none
  | Val.array t xs :: rest =>
    let go := rest.foldl (fun (acc : EM (List Val)) v =>
      match acc, v with
      | .ok l, .array _ ys => .ok (l ++ ys)
      | .ok _, _ => .error .unreachable
      | .error e, _ => .error e) (.ok xs)
    (match go with
     | .error e => .error e
     | .ok l => if l.all (fun x => x.typeOf == t) then .ok (some (.array t l)) else .error .tryFromIter)
  | Val.bytes b :: rest =>
    .ok (some (.bytes (rest.foldl (fun acc v => match v with | .bytes c => acc ++ c | _ => acc) b)))
  | _ => .error .unreachable

/-- the compiled function: `definition.compile(params, ctx)` applied to evaluated args -/
def callImpl (sig : FuncSig) (nArgs : Nat) (ctx : Option Nat) (args : List VRes) : EM (Option Val) :=
  match sig with
  | .simple ps os _ id =>
    if args.length ≠ nArgs then .error .assertArgs
    else simpleImpl id (args ++ (os.drop (nArgs - ps.length)).map (fun o => .ok o.2))
  | .concat => concatImpl args
  | .ctxCounter => .ok (some (.int (ctx.getD 0)))

/-! ### evaluation -/

inductive BV
  | one (b : Bool)
  | vec (bs : List Bool)
deriving Repr, Inhabited, DecidableEq

def zipTrunc (f : Bool → Bool → Bool) : List Bool → List Bool → List Bool
  | a :: as, b :: bs => f a b :: zipTrunc f as bs
  | _, _ => []

def Ctx.fieldVal (c : Ctx) (s : Scheme) (f : Nat) : EM (Option Val) :=
  match c.values[f]? with
  | some (some v) => .ok (some v)
  | _ =>
    match s.fields[f]? with
    | some fd => if fd.optional then .ok none else .error .missingMandatory
    | none => .error .unreachable

def popTrailingEach (ixs : List FieldIndex) : List FieldIndex :=
  match ixs.reverse with
  | .each :: r => r.reverse
  | _ => ixs

def mapM' {α β} (f : α → EM β) : List α → EM (List β)
  | [] => .ok []
  | a :: as => match f a with
    | .error e => .error e
    | .ok b => match mapM' f as with
      | .error e => .error e
      | .ok bs => .ok (b :: bs)

/-- `compile_with(default, comp)` given the already evaluated identifier value
(`none` = absent field / `Err(_)` from a call) -/
def compareWith (c : Ctx) (base : Option Val) (ixs : List FieldIndex) (default : Bool) (op : CmpOp) :
    EM BV :=
  let mec := mapEachCount ixs
  if mec = 0 then
    -- compile_one_with
    match base with
    | none => .ok (.one default)
    | some v =>
      match getNested v ixs with
      | .error e => .error e
      | .ok none => .ok (.one default)
      | .ok (some x) => (compareVal c op x).map .one
  else if mec = 1 && ixs.getLast? = some .each then
    -- compile_vec_with
    match base with
    | none => .ok (.vec [])
    | some v =>
      match getNested v (popTrailingEach ixs) with
      | .error e => .error e
      | .ok none => .ok (.vec [])
      | .ok (some x) =>
        match x with
        | .array _ xs => (mapM' (compareVal c op) xs).map .vec
        | .map _ kvs => (mapM' (compareVal c op) (kvs.map (·.2))).map .vec
        | _ => .error .unwrapIndex
  else
    -- compile_iter_with
    match base with
    | none => .ok (.vec [])
    | some v =>
      match mapEachRun ixs v with
      | .error e => .error e
      | .ok items => (mapM' (compareVal c op) items).map .vec

/-- `compile_vec_with` called directly (IsTrue on a container of booleans) -/
def compareVecDirect (c : Ctx) (base : Option Val) (ixs : List FieldIndex) (op : CmpOp) : EM BV :=
  match base with
  | none => .ok (.vec [])
  | some v =>
    match getNested v (popTrailingEach ixs) with
    | .error e => .error e
    | .ok none => .ok (.vec [])
    | .ok (some x) =>
      match x with
      | .array _ xs => (mapM' (compareVal c op) xs).map .vec
      | .map _ kvs => (mapM' (compareVal c op) (kvs.map (·.2))).map .vec
      | _ => .error .unwrapIndex

/-- `IndexExpr::compile_with_compiler` (value expression) given the identifier's value -/
def indexValue (base : VRes) (ixs : List FieldIndex) (ty : Ty) : EM VRes :=
  let mec := mapEachCount ixs
  if mec = 0 then
    match base with
    | .error _ => .ok (.error ty)
    | .ok v =>
      match getNested v ixs with
      | .error e => .error e
      | .ok none => .ok (.error ty)
      | .ok (some x) => .ok (.ok x)
  else if mec = 1 && ixs.getLast? = some .each then
    let ty' := Ty.array ty
    match base with
    | .error _ => .ok (.error ty')
    | .ok v =>
      match getNested v (ixs.take (ixs.length - 1)) with
      | .error e => .error e
      | .ok none => .ok (.error ty')
      | .ok (some x) => .ok (.ok x)
  else
    let ret := Ty.array ty
    match base with
    | .error _ => .ok (.error ret)
    | .ok v =>
      match mapEachRun ixs v with
      | .error e => .error e
      | .ok items =>
        if items.all (fun x => x.typeOf == ty) then .ok (.ok (.array ty items)) else .error .tryFromIter

def nilDefault (s : Scheme) : CmpOp → Bool
  | .ordering .ne _ => s.nilNe
  | _ => false

mutual
/-- `LogicalExpr::compile_with_compiler` + `execute` -/
def evalL (s : Scheme) (c : Ctx) : LExpr → EM BV
  | .combining op items =>
    match items with
    | [] => .error .unwrapIndex
    | first :: rest =>
      match evalL s c first with
      | .error e => .error e
      | .ok (.one b) => evalOnes s c op b rest
      | .ok (.vec bs) => evalVecs s c op bs rest
  | .comparison lhs op =>
    match evalBase s c lhs with
    | .error e => .error e
    | .ok base =>
      let baseOpt : Option Val := match base with | .ok v => some v | .error _ => none
      if op == CmpOp.isTrue then
        let lt := tyI s lhs
        if lt == .bool then compareWith c baseOpt lhs.indexes false op
        else if lt.next == some .bool then compareVecDirect c baseOpt lhs.indexes op
        else .error .unreachable
      else compareWith c baseOpt lhs.indexes (nilDefault s op) op
  | .paren e => evalL s c e
  | .unaryNot e =>
    match evalL s c e with
    | .error e => .error e
    | .ok (.one b) => .ok (.one (!b))
    | .ok (.vec bs) => .ok (.vec (bs.map (!·)))
  | .quantifier q arg =>
    match arg with
    | .index e =>
      match evalI s c e with
      | .error e => .error e
      | .ok (.error _) => .ok (.one false)
      | .ok (.ok (.array _ xs)) =>
        let bs := mapM' (fun x => match x with | Val.bool b => .ok b | _ => .error Stuck.castValue) xs
        (match bs with
         | .error e => .error e
         | .ok bs => .ok (.one (match q with | .any => bs.any id | .all => bs.all id)))
      | .ok (.ok _) => .error .unreachable
    | .logical e =>
      match evalL s c e with
      | .error e => .error e
      | .ok (.one _) => .error .unreachable
      | .ok (.vec bs) => .ok (.one (match q with | .any => bs.any id | .all => bs.all id))
/-- single booleans: `first && items.all(..)`, `first || items.any(..)`, xor fold
(short-circuiting is unobservable: evaluation has no effects) -/
def evalOnes (s : Scheme) (c : Ctx) (op : LogicalOp) (acc : Bool) : List LExpr → EM BV
  | [] => .ok (.one acc)
  | e :: rest =>
    match evalL s c e with
    | .error e => .error e
    | .ok (.vec _) => .error .unreachable
    | .ok (.one b) =>
      evalOnes s c op (match op with | .and => acc && b | .or => acc || b | .xor => acc != b) rest
/-- boolean arrays: element-wise, truncating to the shorter operand -/
def evalVecs (s : Scheme) (c : Ctx) (op : LogicalOp) (acc : List Bool) : List LExpr → EM BV
  | [] => .ok (.vec acc)
  | e :: rest =>
    match evalL s c e with
    | .error e => .error e
    | .ok (.one _) => .error .unreachable
    | .ok (.vec bs) =>
      evalVecs s c op
        (zipTrunc (match op with | .and => (· && ·) | .or => (· || ·) | .xor => (· != ·)) acc bs) rest
/-- the identifier's value: field lookup or function call -/
def evalBase (s : Scheme) (c : Ctx) : IExpr → EM VRes
  | .field f _ =>
    match c.fieldVal s f with
    | .error e => .error e
    | .ok (some v) => .ok (.ok v)
    | .ok none => .ok (.error (s.fieldTy f))
  | .call fn args ctx _ =>
    match s.funcs[fn]? with
    | none => .error .badFunction
    | some (_, sig) =>
      let ret : Ty := match sig with
        | .simple _ _ r _ => r
        | .concat => (match args with | a :: _ => tyA s a | [] => .bytes)
        | .ctxCounter => .int
      match args with
      | [] =>
        (match callImpl sig 0 ctx [] with
         | .error e => .error e
         | .ok (some v) => .ok (.ok v)
         | .ok none => .ok (.error ret))
      | a0 :: rest =>
        if a0.mapEachCount > 0 then
          -- map-each application
          match evalA s c a0 with
          | .error e => .error e
          | .ok (.error _) => .ok (.error (.array ret))
          | .ok (.ok first) =>
            match evalAs s c rest with
            | .error e => .error e
            | .ok extra =>
              let n := args.length
              let apply (elem : Val) : EM (Option Val) := callImpl sig n ctx (.ok elem :: extra)
              let collect (elems : List Val) : EM (List Val) :=
                elems.foldl (fun acc e =>
                  match acc with
                  | .error x => .error x
                  | .ok l => match apply e with
                    | .error x => .error x
                    | .ok none => .ok l
                    | .ok (some r) => .ok (l ++ [r])) (.ok [])
              match first with
              | .map _ kvs =>
                (match collect (kvs.map (·.2)) with
                 | .error e => .error e
                 | .ok l => if l.all (fun x => x.typeOf == ret) then .ok (.ok (.array ret l)) else .error .tryFromIter)
              | .array _ xs =>
                if xs.isEmpty then .ok (.ok (.array ret []))
                else
                  (match collect xs with
                   | .error e => .error e
                   | .ok l => if l.all (fun x => x.typeOf == ret) then .ok (.ok (.array ret l)) else .error .assertArgs)
              | _ => .error .unreachable
        else
          match evalAs s c (a0 :: rest) with
          | .error e => .error e
          | .ok vs =>
            match callImpl sig args.length ctx vs with
            | .error e => .error e
            | .ok (some v) => .ok (.ok v)
            | .ok none => .ok (.error ret)
/-- `compile_index_expr`: value of an index expression -/
def evalI (s : Scheme) (c : Ctx) (e : IExpr) : EM VRes :=
  match evalBase s c e with
  | .error x => .error x
  | .ok base => indexValue base e.indexes (tyI s e)
/-- `compile_function_call_arg_expr` -/
def evalA (s : Scheme) (c : Ctx) : AExpr → EM VRes
  | .index e => evalI s c e
  | .literal v => .ok (.ok v.toVal)
  | .logical e =>
    match evalL s c e with
    | .error x => .error x
    | .ok (.one b) => .ok (.ok (.bool b))
    | .ok (.vec bs) => .ok (.ok (.array .bool (bs.map .bool)))
def evalAs (s : Scheme) (c : Ctx) : List AExpr → EM (List VRes)
  | [] => .ok []
  | a :: as =>
    match evalA s c a with
    | .error x => .error x
    | .ok v => match evalAs s c as with
      | .error x => .error x
      | .ok vs => .ok (v :: vs)
end

/-- `Filter::execute` (scheme identity is checked by the caller) -/
def execFilter (s : Scheme) (c : Ctx) (e : LExpr) : EM Bool :=
  match evalL s c e with
  | .error x => .error x
  | .ok (.one b) => .ok b
  | .ok (.vec _) => .error .unreachable

end WfModel
