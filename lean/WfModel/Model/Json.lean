import WfModel.Model.J
import WfModel.Model.Ast
import WfModel.Model.Lit
/-
The JSON document of an AST: the hand-written / derived `Serialize` impls of
`ast/*.rs`, `rhs_types/*.rs`, `scheme.rs` (untagged enums, flattened operator, transparent
parentheses, adjacently tagged indexes and arguments), and FNV-1a (64 bit) of its compact
text (`wirefilter_get_filter_hash`).  Import-free.
-/
namespace WfModel

def LogicalOp.name : LogicalOp → String
  | .or => "Or" | .xor => "Xor" | .and => "And"

def OrdOp.name : OrdOp → String
  | .eq => "Equal" | .ne => "NotEqual" | .ge => "GreaterThanEqual"
  | .le => "LessThanEqual" | .gt => "GreaterThan" | .lt => "LessThan"

def QOp.name : QOp → String
  | .any => "Any" | .all => "All"

def bytesArrJ (b : Bytes) : J := .arr (b.map fun x => .int x.toNat)

/-- `Serialize for BytesExpr` -/
def bytesLitJ (b : BytesLit) : J :=
  match b.fmt with
  | .byte => bytesArrJ b.data
  | _ => match utf8Decode b.data with
    | some s => .str (String.ofList s)
    | none => bytesArrJ b.data

def natToHexLower (n : Nat) : List Char :=
  if n < 16 then [J.hexDigitLower n] else natToHexLower (n / 16) ++ [J.hexDigitLower (n % 16)]
termination_by n
decreasing_by omega

def v4Str (a : Nat) : String :=
  s!"{a / 16777216 % 256}.{a / 65536 % 256}.{a / 256 % 256}.{a % 256}"

def v6Groups (a : Nat) : List Nat :=
  (List.range 8).map fun i => a / 65536 ^ (7 - i) % 65536

/-- longest run of zero groups (first one wins ties): (start, len) -/
def longestZeroRun (gs : List Nat) : Nat × Nat :=
  let rec go : List Nat → Nat → (Nat × Nat) → (Nat × Nat) → (Nat × Nat)
    | [], _, _, best => best
    | g :: r, i, cur, best =>
      if g = 0 then
        let cur' := if cur.2 = 0 then (i, 1) else (cur.1, cur.2 + 1)
        let best' := if cur'.2 > best.2 then cur' else best
        go r (i + 1) cur' best'
      else go r (i + 1) (0, 0) best
  go gs 0 (0, 0) (0, 0)

def groupsStr (gs : List Nat) : String :=
  String.intercalate ":" (gs.map fun g => String.ofList (natToHexLower g))

/-- std `Display for Ipv6Addr` -/
def v6Str (a : Nat) : String :=
  let gs := v6Groups a
  if gs.take 5 = [0, 0, 0, 0, 0] && gs[5]? = some 0xffff then
    "::ffff:" ++ v4Str (a % 4294967296)
  else
    let (st, len) := longestZeroRun gs
    if len > 1 then groupsStr (gs.take st) ++ "::" ++ groupsStr (gs.drop (st + len))
    else groupsStr gs

def ipStr : Ip → String
  | .v4 a => v4Str a
  | .v6 a => v6Str a

def rhsValJ : RhsVal → J
  | .int i => .int i
  | .ip a => .str (ipStr a)
  | .bytes b => bytesLitJ b

def rangeJ (lo hi : J) : J := .obj [("start", lo), ("end", hi)]

def ipRangeJ : IpRangeLit → J
  | .explicit v6 lo hi =>
    if v6 then rangeJ (.str (v6Str lo)) (.str (v6Str hi)) else rangeJ (.str (v4Str lo)) (.str (v4Str hi))
  | .cidr v6 a n =>
    let addr := if v6 then v6Str a else v4Str a
    let host := if v6 then n = 128 else n = 32
    .str (if host then addr else addr ++ "/" ++ toString n)

def rhsValsJ : RhsVals → J
  | .int rs => .arr (rs.map fun (a, b) => rangeJ (.int a) (.int b))
  | .ip rs => .arr (rs.map ipRangeJ)
  | .bytes bs => .arr (bs.map bytesLitJ)

def fieldIndexJ : FieldIndex → J
  | .arr n => .obj [("kind", .str "ArrayIndex"), ("value", .int n)]
  | .key k => .obj [("kind", .str "MapKey"), ("value", .str (String.ofList k))]
  | .each => .obj [("kind", .str "MapEach")]

/-- the flattened `ComparisonOpExpr` fields -/
def cmpOpFields : CmpOp → List (String × J)
  | .isTrue => [("op", .str "IsTrue")]
  | .ordering o r => [("op", .str o.name), ("rhs", rhsValJ r)]
  | .bitAnd r => [("op", .str "BitwiseAnd"), ("rhs", .int r)]
  | .contains b => [("op", .str "Contains"), ("rhs", bytesLitJ b)]
  | .matches p _ => [("op", .str "Matches"), ("rhs", .str (String.ofList p))]
  | .wildcard false b => [("op", .str "Wildcard"), ("rhs", bytesLitJ b)]
  | .wildcard true b => [("op", .str "Strict Wildcard"), ("rhs", bytesLitJ b)]
  | .oneOf vs => [("op", .str "OneOf"), ("rhs", rhsValsJ vs)]
  | .inList _ name => [("op", .str "InList"), ("rhs", .str (String.ofList name))]

def Scheme.fieldName (s : Scheme) (i : Nat) : String :=
  match s.fields[i]? with | some f => String.ofList f.name | none => "?"
def Scheme.funcName (s : Scheme) (i : Nat) : String :=
  match s.funcs[i]? with | some f => String.ofList f.1 | none => "?"

mutual
def lexprJ (s : Scheme) : LExpr → J
  | .combining op items => .obj [("op", .str op.name), ("items", .arr (lexprsJ s items))]
  | .comparison lhs op => .obj (("lhs", iexprJ s lhs) :: cmpOpFields op)
  | .paren e => lexprJ s e
  | .unaryNot e => .obj [("op", .str "Not"), ("arg", lexprJ s e)]
  | .quantifier q a => .obj [("op", .str q.name), ("arg", qargJ s a)]
def lexprsJ (s : Scheme) : List LExpr → List J
  | [] => []
  | e :: es => lexprJ s e :: lexprsJ s es
def iexprJ (s : Scheme) : IExpr → J
  | .field f ixs =>
    if ixs.isEmpty then .str (s.fieldName f)
    else .arr (.str (s.fieldName f) :: ixs.map fieldIndexJ)
  | .call fn args _ ixs =>
    let c : J := .obj [("name", .str (s.funcName fn)), ("args", .arr (aexprsJ s args))]
    if ixs.isEmpty then c else .arr (c :: ixs.map fieldIndexJ)
def aexprJ (s : Scheme) : AExpr → J
  | .index e => .obj [("kind", .str "IndexExpr"), ("value", iexprJ s e)]
  | .literal v => .obj [("kind", .str "Literal"), ("value", rhsValJ v)]
  | .logical e => .obj [("kind", .str "SimpleExpr"), ("value", lexprJ s e)]
def aexprsJ (s : Scheme) : List AExpr → List J
  | [] => []
  | e :: es => aexprJ s e :: aexprsJ s es
def qargJ (s : Scheme) : QArg → J
  | .index e => .obj [("kind", .str "IndexExpr"), ("value", iexprJ s e)]
  | .logical e => .obj [("kind", .str "SimpleExpr"), ("value", lexprJ s e)]
end

/-- FNV-1a, 64 bit, over the UTF-8 bytes -/
def fnv1a64 (bs : Bytes) : Nat :=
  bs.foldl (fun h b => ((h ^^^ b.toNat) * 0x100000001b3) % 18446744073709551616) 0xcbf29ce484222325

def astJsonText (s : Scheme) (e : LExpr) : String := (lexprJ s e).render

end WfModel
