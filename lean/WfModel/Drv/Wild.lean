import WfModel.Basic
import WfModel.Model.Wild
import WfModel.Model.RxScan
/-!
Line protocol for C11.

  `wildp <strict 0|1> <hex literal> <limit,limit,...>`
      parse-time outcome of `b [strict ]wildcard <literal>` under each star limit
      (`max` = `usize::MAX`): comma-joined `ok | err.lex | err.escape | err.incomplete |
      err.stars | err.doublestar`
  `wild <strict> <limit> <hex literal> <hex value>`          → `true | false | err.*`
  `wildm <strict> <limit> <hex literal> <hex alphabet> <n>`  → `ok <0/1 per value>` over all
      values over the alphabet of length 0..n (shorter first, then lexicographic in alphabet
      order) | `err.*`
  `rxscan <hex utf-8 text after the opening quote> <p|e>`
      `p`: the engine parsed the regex → `ok <hex pattern> <hex rest>` | `err`
      `e`: the engine reported a regex *compile* error → `rxerr` (the scanner did find the
           end of the literal) | `err` (unterminated literal)
      `o`: the engine reported some other parse error → `other` | `err`
      `r`: the engine stopped at trailing input after the literal → `rest <hex trimmed rest>` | `err`
  `rxm …` regex matching cases: answered by `WfModel/Drv/Rx.lean` (registered before this
      handler) with the proved derivative matcher; the fallback here declines (`skip`).
`<hex literal>` is the literal as written in the filter (`"…"`, `r"…"`, `r#"…"#`).
-/
namespace WfModel.Drv.Wild
open WfModel WfModel.Wild

def rejectStr : Reject → String
  | .invalidEscape => "err.escape"
  | .incompleteEscape => "err.incomplete"
  | .tooManyStars => "err.stars"
  | .doubleStar => "err.doublestar"

def parseLimit (s : String) : Option Nat :=
  if s == "max" then some (2 ^ 64 - 1) else parseNat? s

def parseStrict (s : String) : Option Bool :=
  if s == "1" then some true else if s == "0" then some false else none

/-- the pattern bytes of the literal, `none` = the string lexer rejects it (or text follows) -/
def patternOf (lit : Bytes) : Option Bytes :=
  match lexQuotedOrRaw lit with
  | some (p, []) => some p
  | _ => none

def outcome (limit : Nat) (lit : Bytes) : Except String (List Tok) :=
  match patternOf lit with
  | none => .error "err.lex"
  | some p =>
    match accept limit p with
    | .ok t => .ok t
    | .error e => .error (rejectStr e)

def allOfLen (al : Bytes) : Nat → List Bytes
  | 0 => [[]]
  | n + 1 => al.flatMap (fun a => (allOfLen al n).map (a :: ·))

def allUpTo (al : Bytes) (n : Nat) : List Bytes := (List.range (n + 1)).flatMap (allOfLen al)

def handle : List String → Option String
  | ["wildp", strict, lit, limits] => do
    let _ ← parseStrict strict
    let lit ← hexDecode lit
    let ls ← allSome ((splitOnChar limits ',').map parseLimit)
    let outs := ls.map (fun l => match outcome l lit with | .ok _ => "ok" | .error e => e)
    pure (String.intercalate "," outs)
  | ["wild", strict, limit, lit, value] => do
    let strict ← parseStrict strict
    let limit ← parseLimit limit
    let lit ← hexDecode lit
    let v ← hexDecode value
    match outcome limit lit with
    | .ok t => pure (boolStr (matchToks (caseInsensitive strict) t v))
    | .error e => pure e
  | ["wildm", strict, limit, lit, al, n] => do
    let strict ← parseStrict strict
    let limit ← parseLimit limit
    let lit ← hexDecode lit
    let al ← hexDecode al
    let n ← parseNat? n
    match outcome limit lit with
    | .ok t =>
      let bits := (allUpTo al n).map (fun v => if matchToks (caseInsensitive strict) t v then '1' else '0')
      pure ("ok " ++ String.ofList bits)
    | .error e => pure e
  | ["rxscan", src, mode] => do
    let bs ← hexDecode src
    let s ← String.fromUTF8? (ByteArray.mk bs.toArray)
    match RxScan.scanQuoted s.toList with
    | none => pure "err"
    | some (p, rest) =>
      if mode == "e" then pure "rxerr"
      else if mode == "o" then pure "other"
      else if mode == "r" then
        pure ("rest " ++ hexEncode (String.ofList rest).trimAscii.toString.toUTF8.toList)
      else if mode == "p" then
        pure ("ok " ++ hexEncode (String.ofList p).toUTF8.toList ++ " " ++ hexEncode (String.ofList rest).toUTF8.toList)
      else none
  | "rxm" :: _ => some "skip"
  | _ => none

end WfModel.Drv.Wild
