import WfModel.Basic
import WfModel.Model.RangeSet
/-!
Line protocol for C09:
  `inset int <x> <lo:hi,lo:hi,...|->`
  `inset ip <4|6> <x> <e.<4|6>.lo.hi | c.<4|6>.addr.len , ...|->`
  `inset bytes <hex> <hex,hex,...|->`    (item `-` = empty string; list `.` = empty list)
-/
namespace WfModel.Drv.RangeSet
open WfModel WfModel.RangeSet

def parseRng (s : String) : Option Rng :=
  match splitOnChar s ':' with
  | [a, b] => do pure { lo := ← parseInt? a, hi := ← parseInt? b }
  | _ => none

def parseFam (s : String) : Option Fam :=
  if s == "4" then some .v4 else if s == "6" then some .v6 else none

def parseIpItem (s : String) : Option IpItem :=
  match splitOnChar s '.' with
  | ["e", f, a, b] => do pure (.explicit (← parseFam f) (← parseNat? a) (← parseNat? b))
  | ["c", f, a, n] => do pure (.cidr (← parseFam f) (← parseNat? a) (← parseNat? n))
  | _ => none

def parseList {α} (f : String → Option α) (s : String) : Option (List α) :=
  if s == "." then some [] else allSome ((splitOnChar s ',').map f)

def handle : List String → Option String
  | ["inset", "int", x, items, _] => do
    let x ← parseInt? x
    let l ← parseList parseRng items
    pure (boolStr (inSetInt l x))
  | ["inset", "ip", f, x, items, _] => do
    let f ← parseFam f
    let x ← parseNat? x
    let l ← parseList parseIpItem items
    pure (boolStr (inSetIp l f x))
  | ["inset", "bytes", x, items, _] => do
    let x ← hexDecode x
    let l ← parseList hexDecode items
    pure (boolStr (inSetBytes l x))
  | _ => none

end WfModel.Drv.RangeSet
