import WfModel.Basic
import WfModel.Model.TyEnc
import WfModel.Drv.Codec
/-!
Line protocol for C15 (stream `tyenc`).  `<T>` is a type code of `Drv/Codec.lean`
(`AMI` = Array(Map(Int))), `<entry>` one of `str slice reader value` (the serde_json entry
point the harness used), `<fields>` = `.` or `hexname:T:0|1,…`.

  `tyenc pack <T>`                → `ok <layers> <len> <Prim> <T back>` | `refused`
  `tyenc cpack <T>`               → `ok <layers> <len> <code> <T back|refused>` | `refused`
  `tyenc cunpack <layers> <len> <code>` → `ok <T>` | `refused`
  `tyenc json <T>`                → `ok <hex JSON text>`
  `tyenc tyde <entry> <hex JSON>` → `ok <T>` | `err`          (deserialize as `Type`)
  `tyenc ctde <entry> <hex JSON>` → `ok <layers> <len> <Prim>` | `err`   (as `CompoundType`)
  `tyenc sch <entry> <fields>`    → `dup` | `<hex JSON> ok <fields>` | `<hex JSON> err`
  `tyenc schdoc <entry> <hex JSON>` → `ok <fields>` | `err`

`refused` is the documented refusal of the *programmatic* conversions (the `panic!` in
`CompoundType::from_type`, the `unwrap` on an unknown C primitive code).  The model never
answers `panic`; the harness does when the implementation panics while deserializing.

The serde_json *text layer* (compact writer with its string escaping, the recursive-descent
reader with its 128-level recursion limit, `Value` objects as sorted maps) is modelled here
and not verified; it is exercised on every correspondence case.
-/
namespace WfModel.Drv.TyEnc
open WfModel WfModel.TyEnc WfModel.Codec

/-! ### compact writer (serde_json `to_string`) -/

def hex4 (n : Nat) : String :=
  String.ofList [hexNibble (n / 4096 % 16), hexNibble (n / 256 % 16), hexNibble (n / 16 % 16), hexNibble (n % 16)]

def escapeChar (c : Char) : String :=
  if c = '"' then "\\\"" else if c = '\\' then "\\\\"
  else if c.toNat = 8 then "\\b" else if c.toNat = 12 then "\\f"
  else if c = '\n' then "\\n" else if c = '\r' then "\\r" else if c = '\t' then "\\t"
  else if c.toNat < 32 then "\\u" ++ hex4 c.toNat
  else String.singleton c

def renderStr (s : String) : String :=
  "\"" ++ String.join (s.toList.map escapeChar) ++ "\""

mutual
def render : J → String
  | .null => "null"
  | .bool b => if b then "true" else "false"
  | .int i => toString i
  | .str s => renderStr s
  | .arr xs => "[" ++ renderList xs ++ "]"
  | .obj kvs => "{" ++ renderEntries kvs ++ "}"
def renderList : List J → String
  | [] => ""
  | [x] => render x
  | x :: xs => render x ++ "," ++ renderList xs
def renderEntries : List (String × J) → String
  | [] => ""
  | [(k, v)] => renderStr k ++ ":" ++ render v
  | (k, v) :: rest => renderStr k ++ ":" ++ render v ++ "," ++ renderEntries rest
end

/-! ### reader (serde_json `from_str`/`from_slice`/`from_reader`) -/

def isWs (c : Char) : Bool := c = ' ' || c = '\n' || c = '\t' || c = '\r'

def skipWs : List Char → List Char
  | c :: r => if isWs c then skipWs r else c :: r
  | [] => []

def hexVal4 : List Char → Option (Nat × List Char)
  | a :: b :: c :: d :: r => do
    let a ← hexDigitVal a
    let b ← hexDigitVal b
    let c ← hexDigitVal c
    let d ← hexDigitVal d
    pure (a * 4096 + b * 256 + c * 16 + d, r)
  | _ => none

/-- body of a string literal after the opening quote; `acc` reversed -/
def parseStrBody : Nat → List Char → List Char → Option (String × List Char)
  | 0, _, _ => none
  | _ + 1, [], _ => none
  | f + 1, c :: r, acc =>
    if c = '"' then some (String.ofList acc.reverse, r)
    else if c = '\\' then
      match r with
      | '"' :: r => parseStrBody f r ('"' :: acc)
      | '\\' :: r => parseStrBody f r ('\\' :: acc)
      | '/' :: r => parseStrBody f r ('/' :: acc)
      | 'b' :: r => parseStrBody f r (Char.ofNat 8 :: acc)
      | 'f' :: r => parseStrBody f r (Char.ofNat 12 :: acc)
      | 'n' :: r => parseStrBody f r ('\n' :: acc)
      | 'r' :: r => parseStrBody f r ('\r' :: acc)
      | 't' :: r => parseStrBody f r ('\t' :: acc)
      | 'u' :: r =>
        match hexVal4 r with
        | none => none
        | some (n, r) =>
          if 0xD800 ≤ n ∧ n ≤ 0xDBFF then
            match r with
            | '\\' :: 'u' :: r =>
              match hexVal4 r with
              | some (m, r) =>
                if 0xDC00 ≤ m ∧ m ≤ 0xDFFF then
                  parseStrBody f r (Char.ofNat (0x10000 + (n - 0xD800) * 1024 + (m - 0xDC00)) :: acc)
                else none
              | none => none
            | _ => none
          else if 0xDC00 ≤ n ∧ n ≤ 0xDFFF then none
          else parseStrBody f r (Char.ofNat n :: acc)
      | _ => none
    else if c.toNat < 32 then none
    else parseStrBody f r (c :: acc)

def takeDigits : List Char → List Char × List Char
  | c :: r => if c.isDigit then let (a, b) := takeDigits r; (c :: a, b) else ([], c :: r)
  | [] => ([], [])

/-- integer literals only (`-?(0|[1-9][0-9]*)`); a fraction or exponent is outside the
modelled subset (the harness does not generate them) and reads as a syntax error -/
def parseNumber (cs : List Char) : Option (J × List Char) :=
  let (neg, r) := match cs with
    | '-' :: r => (true, r)
    | _ => (false, cs)
  let (ds, r) := takeDigits r
  match ds, r with
  | [], _ => none
  | _, '.' :: _ => none
  | _, 'e' :: _ => none
  | _, 'E' :: _ => none
  | '0' :: _ :: _, _ => none
  | ds, r =>
    match (String.ofList ds).toNat? with
    | some n => some (.int (if neg then -(n : Int) else n), r)
    | none => none

def stripPrefix (p cs : List Char) : Option (List Char) :=
  match p, cs with
  | [], r => some r
  | a :: p, c :: r => if a = c then stripPrefix p r else none
  | _ :: _, [] => none

mutual
/-- `depth` = serde_json's `remaining_depth` (128 at the start; entering an array or object
decrements it and fails at 0) -/
def parseValue : Nat → Nat → List Char → Option (J × List Char)
  | 0, _, _ => none
  | f + 1, depth, cs =>
    match skipWs cs with
    | 'n' :: r => (stripPrefix "ull".toList r).map fun r => (.null, r)
    | 't' :: r => (stripPrefix "rue".toList r).map fun r => (.bool true, r)
    | 'f' :: r => (stripPrefix "alse".toList r).map fun r => (.bool false, r)
    | '"' :: r => (parseStrBody (r.length + 1) r []).map fun (s, r) => (.str s, r)
    | '[' :: r =>
      if depth ≤ 1 then none else
      match skipWs r with
      | ']' :: r => some (.arr [], r)
      | r => (parseElems f (depth - 1) r).map fun (xs, r) => (.arr xs, r)
    | '{' :: r =>
      if depth ≤ 1 then none else
      match skipWs r with
      | '}' :: r => some (.obj [], r)
      | r => (parseMembers f (depth - 1) r).map fun (kvs, r) => (.obj kvs, r)
    | c :: r => if c = '-' || c.isDigit then parseNumber (c :: r) else none
    | [] => none
def parseElems : Nat → Nat → List Char → Option (List J × List Char)
  | 0, _, _ => none
  | f + 1, depth, cs =>
    match parseValue f depth cs with
    | none => none
    | some (v, r) =>
      match skipWs r with
      | ',' :: r => (parseElems f depth r).map fun (vs, r) => (v :: vs, r)
      | ']' :: r => some ([v], r)
      | _ => none
def parseMembers : Nat → Nat → List Char → Option (List (String × J) × List Char)
  | 0, _, _ => none
  | f + 1, depth, cs =>
    match skipWs cs with
    | '"' :: r =>
      match parseStrBody (r.length + 1) r [] with
      | none => none
      | some (k, r) =>
        match skipWs r with
        | ':' :: r =>
          match parseValue f depth r with
          | none => none
          | some (v, r) =>
            match skipWs r with
            | ',' :: r => (parseMembers f depth r).map fun (kvs, r) => ((k, v) :: kvs, r)
            | '}' :: r => some ([(k, v)], r)
            | _ => none
        | _ => none
    | _ => none
end

/-- whole-document parse; `limit` = recursion limit (128 for the text entry points) -/
def parseJson (limit : Nat) (s : String) : Option J :=
  let cs := s.toList
  match parseValue (2 * cs.length + 4) limit cs with
  | some (j, r) => if (skipWs r).isEmpty then some j else none
  | none => none

def utf8Decode (bs : List UInt8) : Option String := String.fromUTF8? (ByteArray.mk bs.toArray)

def hexOfString (s : String) : String := hexEncode s.toUTF8.toList

/-- what the deserializer sees for a text supplied through `entry` -/
def readVia (entry : String) (text : String) : Option J :=
  if entry == "value" then (parseJson 1000000000 text).map valueNorm
  else parseJson 128 text

def isEntry (e : String) : Bool := e == "str" || e == "slice" || e == "reader" || e == "value"

/-! ### field lists -/

def fieldStr (f : Field) : String :=
  hexOfString f.name ++ ":" ++ tyStr f.ty ++ ":" ++ (if f.optional then "1" else "0")

def fieldsStr (s : List Field) : String :=
  if s.isEmpty then "." else ",".intercalate (s.map fieldStr)

def parseField (s : String) : Option Field :=
  match splitOnChar s ':' with
  | [n, t, o] => do
    let bs ← hexDecode n
    let name ← utf8Decode bs
    let ty ← parseTy t
    let opt ← if o == "1" then some true else if o == "0" then some false else none
    pure { name := name, ty := ty, optional := opt }
  | _ => none

def parseFields (s : String) : Option (List Field) :=
  if s == "." then some [] else allSome ((splitOnChar s ',').map parseField)

def buildScheme : List Field → List Field → Option (List Field)
  | acc, [] => some acc
  | acc, f :: rest => (addField acc f).bind (buildScheme · rest)

def schemeAnswer : Outcome (List Field) → String
  | .ok s => "ok " ++ fieldsStr s
  | .error => "err"
  | .stuck => "panic"

def packedStr (p : Packed) : String :=
  toString p.layers ++ " " ++ toString p.len ++ " " ++ p.prim.name

def handle : List String → Option String
  | ["tyenc", "pack", t] => do
    let t ← parseTy t
    match fromType t with
    | some p => pure ("ok " ++ packedStr p ++ " " ++ tyStr (intoType p))
    | none => pure "refused"
  | ["tyenc", "cpack", t] => do
    let t ← parseTy t
    match CType.ofType t with
    | some c =>
      let back := match c.toType with
        | some u => tyStr u
        | none => "refused"
      pure ("ok " ++ toString c.layers ++ " " ++ toString c.len ++ " " ++ toString c.prim ++ " " ++ back)
    | none => pure "refused"
  | ["tyenc", "cunpack", l, n, c] => do
    let l ← parseNat? l
    let n ← parseNat? n
    let c ← parseNat? c
    match CType.toType { layers := l, len := n, prim := c } with
    | some u => pure ("ok " ++ tyStr u)
    | none => pure "refused"
  | ["tyenc", "json", t] => do
    let t ← parseTy t
    pure ("ok " ++ hexOfString (render (tyToJ t)))
  | ["tyenc", "tyde", e, h] => do
    if !isEntry e then none
    let bs ← hexDecode h
    match (utf8Decode bs).bind (readVia e) with
    | none => pure "err"
    | some j =>
      match tyOfJ j with
      | .ok t => pure ("ok " ++ tyStr t)
      | .error => pure "err"
      | .stuck => pure "panic"
  | ["tyenc", "ctde", e, h] => do
    if !isEntry e then none
    let bs ← hexDecode h
    match (utf8Decode bs).bind (readVia e) with
    | none => pure "err"
    | some j =>
      match compoundOfJ j with
      | .ok p => pure ("ok " ++ packedStr p)
      | .error => pure "err"
      | .stuck => pure "panic"
  | ["tyenc", "sch", e, fs] => do
    if !isEntry e then none
    let fs ← parseFields fs
    match buildScheme [] fs with
    | none => pure "dup"
    | some s =>
      let text := render (schemeToJ s)
      let res := match readVia e text with
        | some j => schemeAnswer (schemeOfJ j)
        | none => "err"
      pure (hexOfString text ++ " " ++ res)
  | ["tyenc", "schdoc", e, h] => do
    if !isEntry e then none
    let bs ← hexDecode h
    match (utf8Decode bs).bind (readVia e) with
    | none => pure "err"
    | some j => pure (schemeAnswer (schemeOfJ j))
  | _ => none

end WfModel.Drv.TyEnc
