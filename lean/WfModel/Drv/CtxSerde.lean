import WfModel.Basic
import WfModel.Drv.Codec
import WfModel.Model.CtxSerde
/-!
Line protocol for C14 (stream `ctxser`).  Everything here is *glue around* the proved model
(`Model/CtxSerde.lean`): the serde_json text layer (compact printer, reader with its recursion
limit), the `std::net` address formatter/parser as the concrete `IpText`, and the harness'
set-matcher as the concrete `ListDef`.  None of it is covered by a theorem; it is exercised by
the correspondence run.

  F  = `.` | item,item,…    item = `<hexname>:<ty>:<o|m>:<val|->`      (fields, scheme order)
  L  = `.` | item,item,…    item = `<ty>:<state>`                      (lists, scheme order)
  state = `-` | `<hexname>=<v;v;…>/…`   (v = `i<int>` for an Int list, `4:n`/`6:n` for Ip)

  every op: `ctxser <rt|de> entry=<e> lists=<n> class=<c> fields=<n> len=<n> case=<n> shard=<n> F L [doc]`
  (`lists … shard` are labels, ignored here)

  `ctxser rt entry=<str|slice|reader|value|capi> … F L`   (`capi`: the C API entry point, which
        reads like `reader`; the harness overwrites the caller's buffer after the call)
        answer `rt verdict=same text=<hex of the compact JSON of serCtx>`
        — the *property's* demand: the serialized context deserializes to an equal context
        whatever the entry point.  (For `entry=value` with a list in the scheme the model
        itself predicts `err`, see `C14.valueTree_general_fails`; that prediction is compared
        on the companion `de` line.)  If the model's own round trip fails where the theorems
        say it cannot, the verdict is `model-roundtrip-failed`.
  `ctxser de entry=<…> … F L <hexdoc>`
        deserialize the document into the context given by F/L:
        `err` | `ok <val|-,…|.> <state,…|.>` | `skip` (document outside the modelled JSON
        subset: floats / `-0`, lone surrogate escapes, bytes that are not UTF-8)
-/
namespace WfModel.Drv.CtxSerde
open WfModel WfModel.CtxSerde

/-! ## `std::net` text forms -/

def natToHex (n : Nat) : String :=
  let rec go : Nat → Nat → List Char → List Char
    | 0, _, acc => acc
    | fuel + 1, n, acc =>
      if n < 16 then hexNibble n :: acc else go fuel (n / 16) (hexNibble (n % 16) :: acc)
  String.ofList (go 40 n [])

def v4Str (a : Nat) : String :=
  s!"{a / 16777216 % 256}.{a / 65536 % 256}.{a / 256 % 256}.{a % 256}"

def segments (a : Nat) : List Nat :=
  (List.range 8).map fun i => a / 2 ^ (16 * (7 - i)) % 65536

/-- first longest run of zero segments: (start, len) -/
def longestZeroRun (segs : List Nat) : Nat × Nat :=
  let step := fun (st : (Nat × Nat) × (Nat × Nat) × Nat) (s : Nat) =>
    let (longest, cur, i) := st
    if s = 0 then
      let cur := if cur.2 = 0 then (i, 1) else (cur.1, cur.2 + 1)
      let longest := if cur.2 > longest.2 then cur else longest
      (longest, cur, i + 1)
    else (longest, (0, 0), i + 1)
  (segs.foldl step ((0, 0), (0, 0), 0)).1

def hexGroups (segs : List Nat) : String := ":".intercalate (segs.map natToHex)

/-- `Display for IpAddr` -/
def ipToStr : Ip → String
  | .v4 a => v4Str a
  | .v6 a =>
    let segs := segments a
    if a / 4294967296 = 65535 then "::ffff:" ++ v4Str (a % 4294967296)
    else
      let (start, len) := longestZeroRun segs
      if len > 1 then hexGroups (segs.take start) ++ "::" ++ hexGroups (segs.drop (start + len))
      else hexGroups segs

def digitVal (radix : Nat) (c : Char) : Option Nat :=
  match hexDigitVal c with
  | some d => if d < radix then some d else none
  | none => none

/-- `Parser::read_number(radix, Some(max_digits), allow_zero_prefix)`; `maxVal` = the target
integer type's maximum -/
def readNumber (radix maxDigits maxVal : Nat) (allowZero : Bool) (cs : List Char) :
    Option (Nat × List Char) :=
  let rec go : List Char → Nat → Nat → Nat × Nat × List Char
    | [], n, v => (n, v, [])
    | c :: r, n, v =>
      match digitVal radix c with
      | some d => go r (n + 1) (v * radix + d)
      | none => (n, v, c :: r)
  let (n, v, rest) := go cs 0 0
  if n = 0 ∨ n > maxDigits then none
  else if !allowZero && cs.head? == some '0' && n > 1 then none
  else if v > maxVal then none
  else some (v, rest)

def readSep (sep : Char) (i : Nat) (cs : List Char) : Option (List Char) :=
  if i = 0 then some cs else
  match cs with
  | c :: r => if c = sep then some r else none
  | [] => none

def readV4 (cs : List Char) : Option (Nat × List Char) := do
  let (a, r) ← readNumber 10 3 255 false cs
  let r ← readSep '.' 1 r
  let (b, r) ← readNumber 10 3 255 false r
  let r ← readSep '.' 1 r
  let (c, r) ← readNumber 10 3 255 false r
  let r ← readSep '.' 1 r
  let (d, r) ← readNumber 10 3 255 false r
  pure (a * 16777216 + b * 65536 + c * 256 + d, r)

/-- `read_groups`: groups read, whether an embedded IPv4 ended them, rest -/
def readGroups (limit : Nat) : Nat → Nat → List Char → List Nat → List Nat × Bool × List Char
  | 0, _, cs, acc => (acc, false, cs)
  | fuel + 1, i, cs, acc =>
    if i ≥ limit then (acc, false, cs) else
    let v4 := if i + 1 < limit then (readSep ':' i cs).bind readV4 else none
    match v4 with
    | some (a, rest) => (acc ++ [a / 65536, a % 65536], true, rest)
    | none =>
      match (readSep ':' i cs).bind (readNumber 16 4 65535 true) with
      | some (g, rest) => readGroups limit fuel (i + 1) rest (acc ++ [g])
      | none => (acc, false, cs)

def groupsVal (gs : List Nat) : Nat := gs.foldl (fun a g => a * 65536 + g) 0

def readV6 (cs : List Char) : Option (Nat × List Char) :=
  let (head, v4, rest) := readGroups 8 9 0 cs []
  if head.length = 8 then some (groupsVal head, rest)
  else if v4 then none
  else
    match rest with
    | ':' :: ':' :: rest =>
      let limit := 8 - (head.length + 1)
      let (tail, _, rest) := readGroups limit (limit + 1) 0 rest []
      some (groupsVal (head ++ List.replicate (8 - head.length - tail.length) 0 ++ tail), rest)
    | _ => none

/-- `IpAddr::from_str` -/
def ipOfStr (s : String) : Option Ip :=
  let cs := s.toList
  match readV4 cs with
  | some (a, rest) => if rest.isEmpty then some (.v4 a) else none
  | none =>
    match readV6 cs with
    | some (a, []) => some (.v6 a)
    | _ => none

def stdIp : IpText := { toStr := ipToStr, ofStr := ipOfStr }

/-! ## serde_json compact writer -/

def escChar (c : Char) : List Char :=
  if c = '"' then ['\\', '"']
  else if c = '\\' then ['\\', '\\']
  else if c.toNat = 8 then ['\\', 'b']
  else if c.toNat = 9 then ['\\', 't']
  else if c.toNat = 10 then ['\\', 'n']
  else if c.toNat = 12 then ['\\', 'f']
  else if c.toNat = 13 then ['\\', 'r']
  else if c.toNat < 32 then ['\\', 'u', '0', '0', hexNibble (c.toNat / 16), hexNibble (c.toNat % 16)]
  else [c]

def renderStr (s : String) : String := String.ofList ('"' :: s.toList.flatMap escChar ++ ['"'])

mutual
def render : J → String
  | .null => "null"
  | .bool b => if b then "true" else "false"
  | .int i => toString i
  | .str s => renderStr s
  | .arr xs => "[" ++ renderList xs ++ "]"
  | .obj kvs => "{" ++ renderObj kvs ++ "}"
def renderList : List J → String
  | [] => ""
  | [x] => render x
  | x :: xs => render x ++ "," ++ renderList xs
def renderObj : List (String × J) → String
  | [] => ""
  | [(k, v)] => renderStr k ++ ":" ++ render v
  | (k, v) :: rest => renderStr k ++ ":" ++ render v ++ "," ++ renderObj rest
end

/-! ## serde_json reader (`Deserializer::from_str/from_slice/from_reader`), modelled subset -/

inductive P (α : Type)
  | ok (a : α) (rest : List Char)
  | bad            -- serde_json reports a syntax / recursion-limit error
  | unsupported    -- outside the modelled subset

def skipWs : List Char → List Char
  | c :: r => if c = ' ' ∨ c = '\t' ∨ c = '\n' ∨ c = '\r' then skipWs r else c :: r
  | [] => []

def hex4 : List Char → Option (Nat × List Char)
  | a :: b :: c :: d :: r => do
    let a ← hexDigitVal a; let b ← hexDigitVal b; let c ← hexDigitVal c; let d ← hexDigitVal d
    pure (a * 4096 + b * 256 + c * 16 + d, r)
  | _ => none

/-- after the opening quote -/
def parseStrBody : Nat → List Char → List Char → P String
  | 0, _, _ => .bad
  | _ + 1, [], _ => .bad
  | fuel + 1, c :: r, acc =>
    if c = '"' then .ok (String.ofList acc.reverse) r
    else if c = '\\' then
      match r with
      | '"' :: r => parseStrBody fuel r ('"' :: acc)
      | '\\' :: r => parseStrBody fuel r ('\\' :: acc)
      | '/' :: r => parseStrBody fuel r ('/' :: acc)
      | 'b' :: r => parseStrBody fuel r (Char.ofNat 8 :: acc)
      | 'f' :: r => parseStrBody fuel r (Char.ofNat 12 :: acc)
      | 'n' :: r => parseStrBody fuel r ('\n' :: acc)
      | 'r' :: r => parseStrBody fuel r ('\r' :: acc)
      | 't' :: r => parseStrBody fuel r ('\t' :: acc)
      | 'u' :: r =>
        match hex4 r with
        | none => .bad
        | some (n, r) =>
          if 0xD800 ≤ n ∧ n < 0xDC00 then
            match r with
            | '\\' :: 'u' :: r2 =>
              match hex4 r2 with
              | some (m, r3) =>
                if 0xDC00 ≤ m ∧ m < 0xE000 then
                  parseStrBody fuel r3 (Char.ofNat (0x10000 + (n - 0xD800) * 1024 + (m - 0xDC00)) :: acc)
                else .unsupported
              | none => .bad
            | _ => .unsupported
          else if 0xDC00 ≤ n ∧ n < 0xE000 then .unsupported
          else parseStrBody fuel r (Char.ofNat n :: acc)
      | _ => .bad
    else if c.toNat < 32 then .bad
    else parseStrBody fuel r (c :: acc)

def isDigit (c : Char) : Bool := '0'.toNat ≤ c.toNat && c.toNat ≤ '9'.toNat

def takeDigits : List Char → Nat → Nat × List Char
  | c :: r, v => if isDigit c then takeDigits r (v * 10 + (c.toNat - '0'.toNat)) else (v, c :: r)
  | [], v => (v, [])

/-- after an optional `-`; `neg` tells which -/
def parseNumber (neg : Bool) (cs : List Char) : P J :=
  match cs with
  | [] => .bad
  | c :: r =>
    if !isDigit c then .bad
    else
      let (v, rest) := if c = '0' then (0, r) else takeDigits (c :: r) 0
      match rest with
      | d :: _ =>
        if c = '0' ∧ isDigit d then .bad
        else if d = '.' ∨ d = 'e' ∨ d = 'E' then .unsupported
        else if neg ∧ v = 0 then .unsupported
        else .ok (.int (if neg then -(Int.ofNat v) else Int.ofNat v)) rest
      | [] =>
        if neg ∧ v = 0 then .unsupported
        else .ok (.int (if neg then -(Int.ofNat v) else Int.ofNat v)) rest

def expectLit (lit : List Char) (v : J) (cs : List Char) : P J :=
  if lit.isPrefixOf cs then .ok v (cs.drop lit.length) else .bad

mutual
/-- `depth` = number of enclosing containers; serde_json refuses the 128th. -/
def parseValue : Nat → Nat → List Char → P J
  | 0, _, _ => .bad
  | fuel + 1, depth, cs =>
    match skipWs cs with
    | [] => .bad
    | 'n' :: r => expectLit ['u', 'l', 'l'] .null r
    | 't' :: r => expectLit ['r', 'u', 'e'] (.bool true) r
    | 'f' :: r => expectLit ['a', 'l', 's', 'e'] (.bool false) r
    | '"' :: r =>
      match parseStrBody (r.length + 1) r [] with
      | .ok s rest => .ok (.str s) rest
      | .bad => .bad
      | .unsupported => .unsupported
    | '-' :: r => parseNumber true r
    | '[' :: r =>
      if depth + 1 ≥ 128 then .bad else
      match skipWs r with
      | ']' :: rest => .ok (.arr []) rest
      | r =>
        match parseElems fuel (depth + 1) r with
        | .ok xs rest => .ok (.arr xs) rest
        | .bad => .bad
        | .unsupported => .unsupported
    | '{' :: r =>
      if depth + 1 ≥ 128 then .bad else
      match skipWs r with
      | '}' :: rest => .ok (.obj []) rest
      | r =>
        match parseMembers fuel (depth + 1) r with
        | .ok kvs rest => .ok (.obj kvs) rest
        | .bad => .bad
        | .unsupported => .unsupported
    | c :: r => if isDigit c then parseNumber false (c :: r) else .bad
/-- at least one element, up to and including the closing bracket -/
def parseElems : Nat → Nat → List Char → P (List J)
  | 0, _, _ => .bad
  | fuel + 1, depth, cs =>
    match parseValue fuel depth cs with
    | .bad => .bad
    | .unsupported => .unsupported
    | .ok x rest =>
      match skipWs rest with
      | ',' :: rest =>
        match parseElems fuel depth rest with
        | .ok xs rest => .ok (x :: xs) rest
        | .bad => .bad
        | .unsupported => .unsupported
      | ']' :: rest => .ok [x] rest
      | _ => .bad
def parseMembers : Nat → Nat → List Char → P (List (String × J))
  | 0, _, _ => .bad
  | fuel + 1, depth, cs =>
    match skipWs cs with
    | '"' :: r =>
      match parseStrBody (r.length + 1) r [] with
      | .bad => .bad
      | .unsupported => .unsupported
      | .ok k rest =>
        match skipWs rest with
        | ':' :: rest =>
          match parseValue fuel depth rest with
          | .bad => .bad
          | .unsupported => .unsupported
          | .ok v rest =>
            match skipWs rest with
            | ',' :: rest =>
              match parseMembers fuel depth rest with
              | .ok kvs rest => .ok ((k, v) :: kvs) rest
              | .bad => .bad
              | .unsupported => .unsupported
            | '}' :: rest => .ok [(k, v)] rest
            | _ => .bad
        | _ => .bad
    | _ => .bad
end

/-- One document, as the given entry point sees it.  `str`/`slice`/`reader`: the engine's
callers (`ffi`, `test_serde`) never call `Deserializer::end`, so bytes after the first value
are not looked at.  `value`: `serde_json::from_slice::<Value>` reads the whole input, and the
tree has sorted keys. -/
def readDoc (entry : String) (bytes : List UInt8) : P J :=
  match utf8Decode? bytes with
  | none => .unsupported
  | some cs =>
    match parseValue (cs.length + 2) 0 cs with
    | .bad => .bad
    | .unsupported => .unsupported
    | .ok j rest =>
      if entry == "value" then
        if (skipWs rest).isEmpty then .ok j.sortKeys [] else .bad
      else .ok j rest

/-! ## the harness' set matcher (`harness/src/streams/ctxser.rs: SetMatcher`) -/

/-- `BTreeMap<String, Vec<i64>>` / `BTreeMap<String, Vec<IpAddr>>`, ascending names -/
abbrev MState := List (String × List Val)

def msInsert (k : String) (v : List Val) : MState → MState
  | [] => [(k, v)]
  | (l, w) :: rest =>
    if k = l then (k, v) :: rest
    else if strLt k.toList l.toList then (k, v) :: (l, w) :: rest
    else (l, w) :: msInsert k v rest

def msItems (t : Ty) : List J → Except E (List Val)
  | [] => .ok []
  | j :: rest =>
    match deVal stdIp t j, msItems t rest with
    | .ok v, .ok vs => .ok (v :: vs)
    | _, _ => .error .matcher

def msDe (t : Ty) : J → Except E MState
  | .obj kvs =>
    kvs.foldlM (fun acc (kv : String × J) =>
      match kv.2 with
      | .arr xs => (msItems t xs).map fun vs => msInsert kv.1 vs acc
      | _ => .error .matcher) []
  | _ => .error .matcher

def msSer (m : MState) : J := .obj (m.map fun (k, vs) => (k, .arr (vs.map (serVal stdIp))))

def setList (t : Ty) : ListDef MState := { ty := t, new := [], ser := msSer, de := msDe t }

/-! ## op-line codec -/

def splitFirst (s : String) (c : Char) : String × String :=
  match splitOnChar s c with
  | [] => ("", "")
  | a :: rest => (a, (String.singleton c).intercalate rest)

def parseItems {α} (f : String → Option α) (s : String) : Option (List α) :=
  if s == "." then some [] else allSome ((splitOnChar s ',').map f)

def parseFieldItem (s : String) : Option (Field × Option Val) :=
  match splitOnChar s ':' with
  | n :: t :: o :: v => do
    let name ← (hexDecode n).bind utf8Decode?
    let ty ← Codec.parseTy t
    let vs := ":".intercalate v
    let v ← if vs == "-" then some none else (Codec.parseVal vs).map some
    pure ({ name := String.ofList name, ty := ty, optional := o == "o" }, v)
  | _ => none

def parseStateEntry (s : String) : Option (String × List Val) := do
  let (n, items) := splitFirst s '='
  let name ← (hexDecode n).bind utf8Decode?
  let vs ← if items == "" then some [] else allSome ((splitOnChar items ';').map Codec.parseVal)
  pure (String.ofList name, vs)

def parseState (s : String) : Option MState :=
  if s == "-" then some [] else allSome ((splitOnChar s '/').map parseStateEntry)

def parseListItem (s : String) : Option (ListDef MState × MState) := do
  let (t, st) := splitFirst s ':'
  let ty ← Codec.parseTy t
  let m ← parseState st
  pure (setList ty, m)

def stateStr (m : MState) : String :=
  if m.isEmpty then "-" else
  "/".intercalate (m.map fun (k, vs) =>
    hexEncode (strBytes k) ++ "=" ++ ";".intercalate (vs.map Codec.valStr))

def joinOrDot (xs : List String) : String := if xs.isEmpty then "." else ",".intercalate xs

def ctxStr (c : Ctx MState) : String :=
  joinOrDot (c.values.map fun | none => "-" | some v => Codec.valStr v) ++ " " ++
  joinOrDot (c.matchers.map stateStr)

def optValBeq : Option Val → Option Val → Bool
  | none, none => true
  | some a, some b => a == b
  | _, _ => false

def listBeq {α} (f : α → α → Bool) : List α → List α → Bool
  | [], [] => true
  | a :: as, b :: bs => f a b && listBeq f as bs
  | _, _ => false

def stateBeq (a b : MState) : Bool :=
  listBeq (fun (x y : String × List Val) => x.1 == y.1 && listBeq (· == ·) x.2 y.2) a b

def ctxBeq (a b : Ctx MState) : Bool :=
  listBeq optValBeq a.values b.values && listBeq stateBeq a.matchers b.matchers

def parseEntry (s : String) : Option String :=
  match splitOnChar s '=' with
  | ["entry", e] => if e == "str" ∨ e == "slice" ∨ e == "reader" ∨ e == "value" ∨ e == "capi" then some e else none
  | _ => none

def setup (f l : String) : Option (Scheme MState × Ctx MState) := do
  let fs ← parseItems parseFieldItem f
  let ls ← parseItems parseListItem l
  pure ({ fields := fs.map (·.1), lists := ls.map (·.1) },
        { values := fs.map (·.2), matchers := ls.map (·.2) })

def handle : List String → Option String
  | ["ctxser", "rt", entry, _, _, _, _, _, _, f, l] => do
    let e ← parseEntry entry
    let (s, c) ← setup f l
    let text := render (serCtx stdIp s c)
    let hex := hexEncode (strBytes text)
    -- the model's own verdict, where the theorems promise `same`
    let names := s.fields.map (·.name)
    let wf := names.eraseDups.length == names.length && !names.contains "$lists"
      && ((s.lists.map (·.ty)).eraseDups.length == s.lists.length)
    let promised := e != "value" || s.lists.isEmpty
    let own : String :=
      match readDoc e (strBytes text) with
      | .ok j _ =>
        match deCtx stdIp s j (Ctx.new s) with
        | .ok c' => if ctxBeq c' c then "same" else "diff"
        | .error _ => "err"
      | _ => "err"
    -- outside `Scheme.WF` (e.g. a field literally called `$lists`) nothing is promised:
    -- answer what the model computes
    if !wf then pure s!"rt verdict={own} text={hex}"
    else if promised && own != "same" then pure s!"rt verdict=model-roundtrip-failed text={hex}"
    else pure s!"rt verdict=same text={hex}"
  | ["ctxser", "de", entry, _, _, _, _, _, _, f, l, doc] => do
    let e ← parseEntry entry
    let (s, c) ← setup f l
    let bytes ← hexDecode doc
    match readDoc e bytes with
    | .unsupported => pure "skip"
    | .bad => pure "err"
    | .ok j _ =>
      match deCtx stdIp s j c with
      | .ok c' => pure ("ok " ++ ctxStr c')
      | .error _ => pure "err"
  | _ => none

end WfModel.Drv.CtxSerde
