import WfModel.Basic
import WfModel.Model.Ty
/-!
Text codec of types and values for the line protocol (no spaces inside a token).

  Ty  : `B` `I` `P` `Y`  |  `A<ty>`  |  `M<ty>`           e.g. `AMI` = Array(Map(Int))
  Val : `b0` `b1` | `i<int>` | `4:<nat>` `6:<nat>` | `y<hex or ->`
      | `a<ty>[v;v;...]` | `m<ty>{<hexkey>=v;...}`        (entries in the order given)
-/
namespace WfModel.Codec
open WfModel

def parseTyChars : List Char → Option (Ty × List Char)
  | 'B' :: r => some (.bool, r)
  | 'I' :: r => some (.int, r)
  | 'P' :: r => some (.ip, r)
  | 'Y' :: r => some (.bytes, r)
  | 'A' :: r => (parseTyChars r).map fun (t, r) => (.array t, r)
  | 'M' :: r => (parseTyChars r).map fun (t, r) => (.map t, r)
  | _ => none

def parseTy (s : String) : Option Ty :=
  match parseTyChars s.toList with
  | some (t, []) => some t
  | _ => none

def tyStr : Ty → String
  | .bool => "B" | .int => "I" | .ip => "P" | .bytes => "Y"
  | .array t => "A" ++ tyStr t
  | .map t => "M" ++ tyStr t

def takeWhileC (p : Char → Bool) : List Char → List Char × List Char
  | [] => ([], [])
  | c :: r => if p c then let (a, b) := takeWhileC p r; (c :: a, b) else ([], c :: r)

def isValEnd (c : Char) : Bool := c == ';' || c == ']' || c == '}' || c == '='

mutual
def parseValChars : Nat → List Char → Option (Val × List Char)
  | 0, _ => none
  | _ + 1, 'b' :: '0' :: r => some (.bool false, r)
  | _ + 1, 'b' :: '1' :: r => some (.bool true, r)
  | _ + 1, 'i' :: r =>
    let (d, r) := takeWhileC (fun c => !isValEnd c) r
    (String.ofList d).toInt?.map fun i => (.int i, r)
  | _ + 1, '4' :: ':' :: r =>
    let (d, r) := takeWhileC (fun c => !isValEnd c) r
    (String.ofList d).toNat?.map fun n => (.ip (.v4 n), r)
  | _ + 1, '6' :: ':' :: r =>
    let (d, r) := takeWhileC (fun c => !isValEnd c) r
    (String.ofList d).toNat?.map fun n => (.ip (.v6 n), r)
  | _ + 1, 'y' :: r =>
    let (d, r) := takeWhileC (fun c => !isValEnd c) r
    (hexDecode (String.ofList d)).map fun b => (.bytes b, r)
  | f + 1, 'a' :: r =>
    match parseTyChars r with
    | some (t, '[' :: r) => (parseElems f r).map fun (xs, r) => (.array t xs, r)
    | _ => none
  | f + 1, 'm' :: r =>
    match parseTyChars r with
    | some (t, '{' :: r) => (parseEntries f r).map fun (xs, r) => (.map t xs, r)
    | _ => none
  | _, _ => none
def parseElems : Nat → List Char → Option (List Val × List Char)
  | 0, _ => none
  | _ + 1, ']' :: r => some ([], r)
  | f + 1, cs =>
    match parseValChars f cs with
    | some (v, ';' :: r) => (parseElems f r).map fun (vs, r) => (v :: vs, r)
    | some (v, ']' :: r) => some ([v], r)
    | _ => none
def parseEntries : Nat → List Char → Option (List (Bytes × Val) × List Char)
  | 0, _ => none
  | _ + 1, '}' :: r => some ([], r)
  | f + 1, cs =>
    let (kd, r) := takeWhileC (fun c => !isValEnd c) cs
    match hexDecode (String.ofList kd), r with
    | some k, '=' :: r =>
      match parseValChars f r with
      | some (v, ';' :: r) => (parseEntries f r).map fun (vs, r) => ((k, v) :: vs, r)
      | some (v, '}' :: r) => some ([(k, v)], r)
      | _ => none
    | _, _ => none
end

def parseVal (s : String) : Option Val :=
  let cs := s.toList
  match parseValChars (cs.length + 1) cs with
  | some (v, []) => some v
  | _ => none

mutual
def valStr : Val → String
  | .bool b => if b then "b1" else "b0"
  | .int i => "i" ++ toString i
  | .ip (.v4 n) => "4:" ++ toString n
  | .ip (.v6 n) => "6:" ++ toString n
  | .bytes b => "y" ++ hexEncode b
  | .array t xs => "a" ++ tyStr t ++ "[" ++ elemsStr xs ++ "]"
  | .map t kvs => "m" ++ tyStr t ++ "{" ++ entriesStr kvs ++ "}"
def elemsStr : List Val → String
  | [] => ""
  | [x] => valStr x
  | x :: xs => valStr x ++ ";" ++ elemsStr xs
def entriesStr : List (Bytes × Val) → String
  | [] => ""
  | [(k, x)] => hexEncode k ++ "=" ++ valStr x
  | (k, x) :: xs => hexEncode k ++ "=" ++ valStr x ++ ";" ++ entriesStr xs
end

end WfModel.Codec
