import WfModel.Drv.Codec
import WfModel.Model.Parse
import WfModel.Model.Eval
import WfModel.Model.Json
import WfModel.Model.Visitor
import WfModel.Model.ParseErr
/-!
Stateful part of the line protocol: a current scheme + settings and a current context.

  scheme <nilne 0|1> <maxDepth> <starLimit|-> <fields|.> <funcs|.> <lists|.>
      fields: `hexname:Ty:opt` comma separated;  funcs: `hexname:fname`;  lists: `Ty:a|n|s`
  ctx <idx~val|idx~val...|.> <listidx~hexname~v^v^...|...|.>
  parse <hex>      -> ok | err | skip
  perr <hex>       -> ok | err <Kind> <offset> <len> | skip      (offsets in chars of the trimmed input)
  exec <hex>       -> true | false | err | stuck:<site> | skip
  value <hex>      -> ok <val> | absent <ty> | err | stuck:<site> | skip
  json <hex>       -> ok <hex json> | err | skip
  hash <hex>       -> ok <u64> | err | skip
  uses <hex> <hexname>      -> true | false | unknown | err | skip
  useslist <hex> <hexname>  -> same
-/
namespace WfModel.Drv.Core
open WfModel Codec

structure St where
  env : PEnv := { scheme := { fields := [], funcs := [], lists := [] }, st := {} }
  ctx : Ctx := { values := [], lists := [] }

def bytesToChars (b : Bytes) : Option (List Char) := utf8Decode b

def hexText (s : String) : Option (List Char) := (hexDecode s).bind bytesToChars

def funcByName : String → Option FuncSig
  | "echo" => some (.simple [(.both, .bytes)] [] .bytes 0)
  | "lower" => some (.simple [(.field, .bytes)] [] .bytes 1)
  | "len" => some (.simple [(.field, .bytes)] [] .int 2)
  | "first" => some (.simple [(.field, .array .bytes)] [] .bytes 3)
  | "opt2" => some (.simple [(.field, .bytes)]
      [(.literal, .int 10), (.both, .bytes [100, 102, 108, 116])] .bytes 4)
  | "dropempty" => some (.simple [(.field, .bytes)] [] .bytes 5)
  | "alen" => some (.simple [(.field, .array .bytes)] [] .int 6)
  | "addlit" => some (.simple [(.field, .int), (.literal, .int)] [] .int 7)
  | "b2i" => some (.simple [(.field, .bool)] [] .int 8)
  | "blen" => some (.simple [(.field, .array .bool)] [] .int 9)
  | "len2" => some (.simple [(.field, .bytes)] [(.both, .bytes [])] .int 10)
  | "nil0" => some (.simple [] [] .bool 11)
  | "when" => some (.simple [(.field, .bool), (.field, .bytes)] [] .bytes 12)
  | "concat" => some .concat
  | "ctxfn" => some .ctxCounter
  | _ => none

def parseField (s : String) : Option FieldDef :=
  match splitOnChar s ':' with
  | [n, t, o] => do
    let name ← hexText n
    let ty ← parseTy t
    pure { name := name, ty := ty, optional := o == "1" }
  | _ => none

def parseFunc (s : String) : Option (List Char × FuncSig) :=
  match splitOnChar s ':' with
  | [n, f] => do pure (← hexText n, ← funcByName f)
  | _ => none

def parseListDecl (s : String) : Option (Ty × ListKind) :=
  match splitOnChar s ':' with
  | [t, k] => do
    let ty ← parseTy t
    let kind ← (if k == "a" then some ListKind.always else if k == "n" then some .never
                else if k == "s" then some .sets else none)
    pure (ty, kind)
  | _ => none

def parseItems {α} (f : String → Option α) (sep : Char) (s : String) : Option (List α) :=
  if s == "." then some [] else allSome ((splitOnChar s sep).map f)

def setNth {α} (l : List α) (i : Nat) (a : α) : List α :=
  l.zipIdx.map fun (x, j) => if j = i then a else x

/-- a context without values and with empty matchers -/
def freshCtx (st : St) : Ctx :=
  { values := List.replicate st.env.scheme.fields.length none,
    lists := st.env.scheme.lists.map fun (_, k) => { kind := k, sets := [] } }

/-- `sets.entry(name).or_default().extend(members)` of the harness matcher -/
def addMembers (sets : List (List Char × List Val)) (nm : List Char) (vs : List Val) :
    List (List Char × List Val) :=
  if sets.any (fun e => e.1 == nm) then sets.map fun e => if e.1 == nm then (e.1, e.2 ++ vs) else e
  else sets ++ [(nm, vs)]

/-- the entries of a `ctx` / `ctxmut set` line applied on top of `onto` -/
def parseCtxOnto (onto : Ctx) (vals lists : String) : Option Ctx := do
  let entries ← parseItems (fun e => match splitOnChar e '~' with
    | [i, v] => do pure ((← parseNat? i), (← parseVal v))
    | _ => none) '|' vals
  let values := entries.foldl (fun acc (i, v) => setNth acc i (some v)) onto.values
  let lentries ← parseItems (fun e => match splitOnChar e '~' with
    | [i, nm, vs] => do
      let i ← parseNat? i
      let nm ← hexText nm
      let vs ← parseItems parseVal '^' vs
      pure (i, nm, vs)
    | _ => none) '|' lists
  let ls := lentries.foldl (fun acc (i, nm, vs) =>
    acc.zipIdx.map fun (l, j) => if j = i then { l with sets := addMembers l.sets nm vs } else l) onto.lists
  pure { values := values, lists := ls }

def parseCtx (st : St) (vals lists : String) : Option Ctx := do
  let n := st.env.scheme.fields.length
  let entries ← parseItems (fun e => match splitOnChar e '~' with
    | [i, v] => do pure ((← parseNat? i), (← parseVal v))
    | _ => none) '|' vals
  let values := entries.foldl (fun acc (i, v) => setNth acc i (some v)) (List.replicate n none)
  let base : List ListState := st.env.scheme.lists.map fun (_, k) => { kind := k, sets := [] }
  let lentries ← parseItems (fun e => match splitOnChar e '~' with
    | [i, nm, vs] => do
      let i ← parseNat? i
      let nm ← hexText nm
      let vs ← parseItems parseVal '^' vs
      pure (i, nm, vs)
    | _ => none) '|' lists
  let ls := lentries.foldl (fun acc (i, nm, vs) =>
    acc.zipIdx.map fun (l, j) => if j = i then { l with sets := l.sets ++ [(nm, vs)] } else l) base
  pure { values := values, lists := ls }

def kindStr (k : ErrKind) : String := (reprStr k).replace "WfModel.ErrKind." ""

def stuckStr (s : Stuck) : String := "stuck:" ++ (reprStr s).replace "WfModel.Stuck." ""

/-- kinds whose span inside a literal is only approximated by the model (third-party
parsers report sub-spans): compared by kind only -/
def kindOnlySpan (k : ErrKind) : Bool :=
  k == .parseNetwork || k == .parseRegex || k == .parseWildcard || k == .incompatibleRangeBounds

def locate (src : List Char) (e : LexErr) : String :=
  if kindOnlySpan e.kind then "* * *" else
  let off := if (trim src).isEmpty then 0 else trimStartCount src + ((trim src).length - e.pos.length)
  let pe := ParseErr.mk (fun c => c == '\n') src off e.len
  s!"{pe.lineNumber} {pe.spanStart} {pe.spanLen}"

def errAnswer (txt : List Char) (e : LexErr) (detail : Bool) : String :=
  if e.kind == .undecided then "skip"
  else if detail then
    if txt.any (fun c => c.toNat ≥ 128) then "err nonascii"
    else s!"err {kindStr e.kind} {locate txt e}"
  else "err"

def parseAnswer (st : St) (txt : List Char) (detail : Bool) : String :=
  match parseFilter st.env txt with
  | .ok _ => "ok"
  | .error e => errAnswer txt e detail

def withAst (st : St) (txt : List Char) (k : LExpr → String) : String :=
  match parseFilter st.env txt with
  | .ok e => k e
  | .error e => if e.kind == .undecided then "skip" else "err"

def step (st : St) : List String → Option (St × String)
  | ["scheme", nilne, depth, star, fields, funcs, lists] => do
    let fs ← parseItems parseField ',' fields
    let fn ← parseItems parseFunc ',' funcs
    let ls ← parseItems parseListDecl ',' lists
    let d ← parseNat? depth
    let star : Option Nat ← (if star == "-" then some none else (parseNat? star).map some)
    let sch : Scheme := { fields := fs, funcs := fn, lists := ls, nilNe := nilne.startsWith "1" }
    let st' : St := { env := { scheme := sch, st := { maxDepth := d, starLimit := star } },
                      ctx := { values := List.replicate fs.length none,
                               lists := ls.map fun (_, k) => { kind := k, sets := [] } } }
    pure (st', "ok")
  | ["ctx", vals, lists] => do
    let c ← parseCtx st vals lists
    pure ({ st with ctx := c }, "ok")
  | ["ctxmut", "clear"] => pure ({ st with ctx := freshCtx st }, "ok")
  | ["ctxmut", "set", vals, lists] => do
    let c ← parseCtxOnto st.ctx vals lists
    pure ({ st with ctx := c }, "ok")
  | ["parse", h] => do
    let txt ← hexText h
    pure (st, parseAnswer st txt false)
  | ["parsev", h] => do
    let txt ← hexText h
    pure (st, match parseValue st.env txt with
      | .ok _ => "ok"
      | .error e => if e.kind == .undecided then "skip" else "err")
  | ["perr", h] => do
    let txt ← hexText h
    pure (st, parseAnswer st txt true)
  | ["perrv", h] => do
    let txt ← hexText h
    pure (st, match parseValue st.env txt with
      | .ok _ => "ok"
      | .error e => errAnswer txt e true)
  | ["exec", h] => do
    let txt ← hexText h
    pure (st, withAst st txt fun e =>
      match execFilter st.env.scheme st.ctx e with
      | .ok b => boolStr b
      | .error s => stuckStr s)
  | ["execrt", h] => do
    -- execution on a context that went through a serialization round trip: by C14
    -- (`serde_roundtrip`) that context equals the original one
    let txt ← hexText h
    pure (st, withAst st txt fun e =>
      match execFilter st.env.scheme st.ctx e with
      | .ok b => boolStr b
      | .error s => stuckStr s)
  | ["value", h] => do
    let txt ← hexText h
    pure (st, match parseValue st.env txt with
      | .error e => if e.kind == .undecided then "skip" else "err"
      | .ok e =>
        match evalI st.env.scheme st.ctx e.node with
        | .error s => stuckStr s
        | .ok (.ok v) => "ok " ++ valStr v
        | .ok (.error t) => "absent " ++ tyStr t)
  | ["json", h] => do
    let txt ← hexText h
    pure (st, withAst st txt fun e =>
      "ok " ++ hexEncode (astJsonText st.env.scheme e).toUTF8.toList)
  | ["hash", h] => do
    let txt ← hexText h
    pure (st, withAst st txt fun e =>
      "ok " ++ toString (fnv1a64 (astJsonText st.env.scheme e).toUTF8.toList))
  | ["uses", h, n] => do
    let txt ← hexText h
    let name ← hexText n
    pure (st, withAst st txt fun e =>
      match astUses st.env.scheme e name with
      | some b => boolStr b
      | none => "unknown")
  | ["useslist", h, n] => do
    let txt ← hexText h
    let name ← hexText n
    pure (st, withAst st txt fun e =>
      match astUsesList st.env.scheme e name with
      | some b => boolStr b
      | none => "unknown")
  | _ => none

end WfModel.Drv.Core
