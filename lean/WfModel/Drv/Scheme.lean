import WfModel.Basic
import WfModel.Drv.Codec
import WfModel.Model.Scheme
/-!
Line protocol for C16 (stream `regop`), one registration history per line:

  `regop <op,op,...|.> <hexname,hexname,...|.> <ty,ty,...|.>`

  op   : `f:<hexname>:<ty>` add_field | `o:<hexname>:<ty>` add_optional_field
       | `u:<hexname>` add_function | `l:<ty>` add_list
  2nd  : texts looked up on the built scheme (ASCII, hex; `-` = empty text)
  3rd  : types looked up through get_list

Answer:

  `R=<ok|ef|eu|el,...> F=<hexname:ty:opt,...> U=<hexname,...> L=<ty,...> N=<lookup;lookup;...> T=<idx|-,...>`

  R  per-call result; `ef`/`eu` = rejected, a field / a function already holds the name
  F U L  `fields()`, `functions()`, `lists()` of the built scheme, in iteration order
  N  per text `gf/gn/pf/pv/cf/cv`: get_field (`idx:ty:opt` | `-`), get_function (`idx` | `-`),
     parse(text), parse_value(text), parse(text ++ "()"), parse_value(text ++ "()")
     each `f<idx>` | `u<idx>` (root identifier) | `k<start>:<len>` (unknown identifier
     span) | `e` (other error)
-/
namespace WfModel.Drv.Scheme
open WfModel WfModel.Scheme WfModel.Codec

def parseName (s : String) : Option Name := do
  let bs ← hexDecode s
  if bs.all (fun b => b.toNat < 128) then some (bs.map fun b => Char.ofNat b.toNat)
  else (String.fromUTF8? (ByteArray.mk bs.toArray)).map (·.toList)

def nameHex (n : Name) : String := hexEncode (n.map fun c => UInt8.ofNat c.toNat)

def parseOp (s : String) : Option Op :=
  match splitOnChar s ':' with
  | ["f", n, t] => do pure (.addField (← parseName n) (← parseTy t))
  | ["o", n, t] => do pure (.addOptionalField (← parseName n) (← parseTy t))
  | ["u", n] => do pure (.addFunction (← parseName n))
  | ["l", t] => do pure (.addList (← parseTy t))
  | _ => none

def parseListOf {α} (f : String → Option α) (s : String) : Option (List α) :=
  if s == "." then some [] else allSome ((splitOnChar s ',').map f)

def resStr : Option Err → String
  | none => "ok"
  | some (.fieldRedef _) => "ef"
  | some (.functionRedef _) => "eu"
  | some (.listRedef _) => "el"

def outStr : ParseOut → String
  | .unknown st len => s!"k{st}:{len}"
  | .err => "e"
  | .okField i => s!"f{i}"
  | .okFunction i => s!"u{i}"
  | .okOther => "ok?"

def optNat : Option Nat → String
  | some i => toString i
  | none => "-"

def lookupStr (s : Scheme.Scheme) (n : Name) : String :=
  let gf :=
    match s.getField n with
    | some i =>
      match s.fieldDef? i with
      | some d => s!"{i}:{tyStr d.ty}:{if d.optional then 1 else 0}"
      | none => "stuck"
    | none => "-"
  let call := n ++ ['(', ')']
  String.intercalate "/" [gf, optNat (s.getFunction n), outStr (parseFilter s n), outStr (parseValue s n),
    outStr (parseFilter s call), outStr (parseValue s call)]

def joinOr (sep : String) (l : List String) : String :=
  if l.isEmpty then "." else String.intercalate sep l

def handle : List String → Option String
  | ["regop", ops, names, tys] => do
    let ops ← parseListOf parseOp ops
    let names ← parseListOf parseName names
    let tys ← parseListOf parseTy tys
    let (b, rs) := Builder.new.run ops
    let s := build b 0
    let f := s.b.fields.map fun d => s!"{nameHex d.name}:{tyStr d.ty}:{if d.optional then 1 else 0}"
    let u := s.b.functions.map nameHex
    let l := s.b.lists.map tyStr
    pure (s!"R={joinOr "," (rs.map resStr)} F={joinOr "," f} U={joinOr "," u} L={joinOr "," l} " ++
      s!"N={joinOr ";" (names.map (lookupStr s))} T={joinOr "," (tys.map fun t => optNat (s.getList t))}")
  | _ => none

end WfModel.Drv.Scheme
