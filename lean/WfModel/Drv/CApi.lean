import WfModel.Basic
import WfModel.Model.CApi
/-!
Line protocol for C20:
  `cstr <op,op,...|.>`      ops on one thread's LAST_ERROR, starting cleared:
                            `w<hex>` one write call (`w-` = empty slice), `c` clear,
                            `e<hex>` `write_last_error!("{}", text)`
      answer: `<raw vector hex|-> <C view: null | hex | ->`
  `capi hash <hex json>`    answer: FNV-1a-64 of the bytes, decimal
  `capi seq <call,call,...>` calls on one thread, LAST_ERROR cleared first; a call is `clear` or
                            `<wrapper>:<outcome>:<hex text>` with outcome `utf8|panic|err|ok0|ok1`
                            (the text is the UTF-8 error / panic marker / engine error Display)
  `capi thr <callsA|.> <callsB|.> <schedule of 0/1>`  two threads, each with its own LAST_ERROR,
                            performing their calls in the scheduled order
      answer: `<last error of A> <last error of B>` at the end
  answers of `capi seq`: per call `<ret>/<last error as C sees it>` joined by `,` where ret is
              `S<status><flag>` | `B<0|1>` | `c`, last error `null` | hex | `-` | `P<n>` (the
              text contains the panic marker `wfpanic#n#`)
-/
namespace WfModel.Drv.CApi
open WfModel WfModel.CApi

def parseCOp (s : String) : Option COp :=
  match s.toList with
  | ['c'] => some .clear
  | 'w' :: rest => (hexDecode (String.ofList rest)).map .write
  | 'e' :: rest => (hexDecode (String.ofList rest)).map fun b => .setError [b]
  | _ => none

def parseList {α} (f : String → Option α) (s : String) : Option (List α) :=
  if s == "." then some [] else allSome ((splitOnChar s ',').map f)

def panicMarker : List UInt8 := "wfpanic#".toUTF8.toList

def isDigit (b : UInt8) : Bool := 48 ≤ b.toNat && b.toNat ≤ 57

def showView : Option (List UInt8) → String
  | none => "null"
  | some bs =>
    if panicMarker.isPrefixOf bs then
      "P" ++ String.ofList (((bs.drop panicMarker.length).takeWhile isDigit).map fun b => Char.ofNat b.toNat)
    else hexEncode bs

def parseWrapper : String → Option Wrapper
  | "parse" => some .parse
  | "compile" => some .compile
  | "match" => some .match_
  | "uses" => some .uses
  | "useslist" => some .usesList
  | "hash" => some .hash
  | "serialize" => some .serialize
  | "dectx" => some .deserializeCtx
  | "addjson" => some .addJsonValue
  | "addfield" => some .addField
  | "addscalar" => some .addScalarValue
  | "addlist" => some .addList
  | "setfb" => some .setFallbackMode
  | _ => none

def parseOutcome (o : String) (m : Msg) : Option Nested :=
  match o with
  | "utf8" => some (.error m)
  | "panic" => some (.ok (.error m))
  | "err" => some (.ok (.ok (.error m)))
  | "ok0" => some (.ok (.ok (.ok false)))
  | "ok1" => some (.ok (.ok (.ok true)))
  | _ => none

def showRet : Ret → String
  | .status s f => s!"S{s.toNat}{if f then 1 else 0}"
  | .bool b => s!"B{if b then 1 else 0}"

/-- one call: new LAST_ERROR and the answer token -/
def doCall (c : CStr) (call : String) : Option (CStr × String) :=
  if call == "clear" then
    let c' := c.apply .clear
    some (c', s!"c/{showView c'.cView}")
  else
    match splitOnChar call ':' with
    | [w, o, m] => do
      let w ← parseWrapper w
      let m ← hexDecode m
      let o ← parseOutcome o m
      let (ret, eff) ← wrap w o
      let c' := c.run eff.op
      pure (c', s!"{showRet ret}/{showView c'.cView}")
    | _ => none

def doCalls (c : CStr) : List String → Option (List String)
  | [] => some []
  | call :: rest => do
    let (c', a) ← doCall c call
    let as ← doCalls c' rest
    pure (a :: as)

/-- the LAST_ERROR ops a call performs -/
def callOps (call : String) : Option (List COp) :=
  if call == "clear" then some [.clear]
  else match splitOnChar call ':' with
    | [w, o, m] => do
      let w ← parseWrapper w
      let m ← hexDecode m
      let o ← parseOutcome o m
      let (_, eff) ← wrap w o
      pure eff.op
    | _ => none

/-- interleave the calls of two threads as the schedule says (a thread with no call left
skips its turn) -/
def interleave (a b : List (List COp)) : List Nat → List (Nat × COp)
  | [] => []
  | 0 :: rest =>
    match a with
    | [] => interleave a b rest
    | ops :: a' => ops.map (fun op => (0, op)) ++ interleave a' b rest
  | _ :: rest =>
    match b with
    | [] => interleave a b rest
    | ops :: b' => ops.map (fun op => (1, op)) ++ interleave a b' rest

def parseSched (s : String) : Option (List Nat) :=
  if s == "." then some [] else
  allSome (s.toList.map fun c => if c == '0' then some 0 else if c == '1' then some 1 else none)

def handle : List String → Option String
  | ["cstr", ops] => do
    let h ← parseList parseCOp ops
    let c := (⟨[]⟩ : CStr).run h
    pure s!"{hexEncode c.buf} {match c.cView with | none => "null" | some v => hexEncode v}"
  | ["capi", "hash", js] => do
    let b ← hexDecode js
    pure (toString (fnv1a64 b).toNat)
  | ["capi", "seq", calls] => do
    let as ← doCalls ⟨[]⟩ (splitOnChar calls ',')
    pure (",".intercalate as)
  | ["capi", "thr", ca, cb, sched] => do
    let a ← parseList callOps ca
    let b ← parseList callOps cb
    let σ ← parseSched sched
    match LeSys.run [⟨[]⟩, ⟨[]⟩] (interleave a b σ) with
    | [x, y] => pure s!"{showView x.cView} {showView y.cView}"
    | _ => none
  | _ => none

end WfModel.Drv.CApi
