import WfModel.Basic
import WfModel.Drv.Codec
import WfModel.Drv.Scheme
import WfModel.Model.Ctx
/-!
Line protocol for C08 (stream `ctxop`), one history per line:

  `ctxop <hexname:ty:opt,...> <op,op,...|.>`

The scheme is built from the field list by `add_field`/`add_optional_field` calls followed by
`add_function("__t")`; a second scheme is built by the same calls.

  op : `sf/<t>/<s>/<idx>/<val>`  set_field_value(FieldRef idx of scheme s, val) on target t
     | `sn/<t>/<hexname>/<val>`  set_field_value_from_name
     | `g/<t>/<s>/<idx>`         get_field_value
     | `cl/<t>` clear | `cn` clone_with (from the original) | `bw` borrow_with | `dr` drop guard
     | `tk/<t>` take_with | `ex/<t>/<s>` execute a filter parsed with scheme s
  t  : `o` original (through the guard while one lives) | `c` clone
  s  : `s` the context's own scheme | `x` the structurally identical second scheme
  val: codec text of an *unchecked* tree; it is built through the checked constructors first

Answer: `r=<res,...> A=<val|none/...> B=<...|-> eq=<0|1|->`
  res: `p:<val|none>` set ok, previous value | `err-type` | `err-scheme` | `err-unknown`
     | `ctor-err` | `v:<val|none>` | `ok` | `nop` | `exec-ok` | `panic`
-/
namespace WfModel.Drv.Ctx
open WfModel WfModel.Scheme WfModel.Ctx WfModel.Codec

def parseTarget (s : String) : Option Target :=
  if s == "o" then some .orig else if s == "c" then some .clone else none

def parseSel (s : String) : Option Sel :=
  if s == "s" then some .own else if s == "x" then some .other else none

def parseOp (s : String) : Option Ctx.Op :=
  match splitOnChar s '/' with
  | ["sf", t, sel, i, v] => do pure (.setField (← parseTarget t) (← parseSel sel) (← parseNat? i) (← parseVal v))
  | ["sn", t, n, v] => do pure (.setName (← parseTarget t) (← Drv.Scheme.parseName n) (← parseVal v))
  | ["g", t, sel, i] => do pure (.get (← parseTarget t) (← parseSel sel) (← parseNat? i))
  | ["cl", t] => do pure (.clear (← parseTarget t))
  | ["cn"] => some .clone
  | ["bw"] => some .borrow
  | ["dr"] => some .drop
  -- `px`: a panic inside the borrow scope, caught outside it: the guard is dropped while the
  -- stack unwinds; for the contexts this is the same as leaving the scope normally
  | ["px"] => some .drop
  | ["tk", t] => do pure (.take (← parseTarget t))
  | ["ex", t, sel] => do pure (.exec (← parseTarget t) (← parseSel sel))
  | _ => none

def parseFieldDecl (s : String) : Option Scheme.Op :=
  match splitOnChar s ':' with
  | [n, t, "0"] => do pure (.addField (← Drv.Scheme.parseName n) (← parseTy t))
  | [n, t, "1"] => do pure (.addOptionalField (← Drv.Scheme.parseName n) (← parseTy t))
  | _ => none

def optValStr : Option Val → String
  | some v => valStr v
  | none => "none"

def resStr : Res → String
  | .prev p => "p:" ++ optValStr p
  | .errType => "err-type"
  | .errScheme => "err-scheme"
  | .errUnknown => "err-unknown"
  | .ctorErr => "ctor-err"
  | .value v => "v:" ++ optValStr v
  | .done => "ok"
  | .nop => "nop"
  | .execOk => "exec-ok"
  | .panic => "panic"

def dump (c : Ctx.Ctx) : String :=
  if c.values.isEmpty then "." else String.intercalate "/" (c.values.map optValStr)

def optEq : Option Val → Option Val → Bool
  | some a, some b => a == b
  | none, none => true
  | _, _ => false

def valuesEq : List (Option Val) → List (Option Val) → Bool
  | [], [] => true
  | x :: xs, y :: ys => optEq x y && valuesEq xs ys
  | _, _ => false

def handle : List String → Option String
  | ["ctxop", fields, ops] => do
    let decls ← Drv.Scheme.parseListOf parseFieldDecl fields
    let ops ← Drv.Scheme.parseListOf parseOp ops
    let (b, rs) := Builder.new.run (decls ++ [.addFunction "__t".toList])
    if rs.any (·.isSome) then none
    let env : Env := { own := build b 0, other := build b 1 }
    let (st, res) := run env (St.init env) ops
    let st := finish st
    let (bs, eq) :=
      match st.b with
      | some c => (dump c, if st.a.scheme.same c.scheme && valuesEq st.a.values c.values then "1" else "0")
      | none => ("-", "-")
    pure s!"r={Drv.Scheme.joinOr "," (res.map resStr)} A={dump st.a} B={bs} eq={eq}"
  | _ => none

end WfModel.Drv.Ctx
