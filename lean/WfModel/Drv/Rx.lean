import WfModel.Basic
import WfModel.Model.Wild
import WfModel.Model.RxScan
import WfModel.Model.Rx
/-!
Line protocol for the regex-matching half of C11 (`rxm` lines of stream `rx`).

  `rxm match <hex utf-8 pattern> <hex value> [m|s]`
      the pattern string as handed to the regex engine (raw spelling on the engine side)
  `rxm lit <hex literal as written> <hex value> [m|s]`
  `rxm targeted <hex literal as written> <hex value> [m|s]`
      the literal is `"…"` (goes through the model of the quoted-regex scanner,
      `RxScan.scanQuoted`) or `r"…"`, `r#"…"#` (raw string: verbatim)
  → `true | false` = `Rx.search` of the parsed pattern over the value bytes, i.e. the verdict
    of the proved derivative matcher (`WfModel/Props/C11.lean`: `deriv_correct`,
    `search_unanchored`), when `Rx.parse` accepts the pattern;
    otherwise `skip` (pattern outside the model's subset) — unless the line carries the flag
    `m` (the generator claims the pattern is inside the subset): then `nosubset`, which is
    a disagreement.
  `rxm <anything else>` → `skip` (invalid-regex and size-limit cases are checked harness-side).
-/
namespace WfModel.Drv.Rx
open WfModel

def decodeUtf8 (bs : List UInt8) : Option (List Char) :=
  (String.fromUTF8? (ByteArray.mk bs.toArray)).map (·.toList)

/-- the pattern string of a regex literal as written in the filter -/
def patternOfLit : List UInt8 → Option (List Char)
  | 0x22 :: s => do
    let cs ← decodeUtf8 s
    match RxScan.scanQuoted cs with
    | some (p, []) => some p
    | _ => none
  | 0x72 :: s =>
    match Wild.lexRaw s with
    | some (p, []) => decodeUtf8 p
    | _ => none
  | _ => none

def verdict (p : Option (List Char)) (v : List UInt8) (flag : String) : String :=
  match p.bind (Rx.matchesOp · v) with
  | some b => boolStr b
  | none => if flag == "m" then "nosubset" else "skip"

def handle : List String → Option String
  | ["rxm", "match", p, v] => do
    let p ← hexDecode p
    let v ← hexDecode v
    pure (verdict (decodeUtf8 p) v "s")
  | ["rxm", "match", p, v, flag] => do
    let p ← hexDecode p
    let v ← hexDecode v
    pure (verdict (decodeUtf8 p) v flag)
  | ["rxm", kind, l, v] => do
    if kind == "lit" || kind == "targeted" then
      let l ← hexDecode l
      let v ← hexDecode v
      pure (verdict (patternOfLit l) v "s")
    else pure "skip"
  | ["rxm", kind, l, v, flag] => do
    if kind == "lit" || kind == "targeted" then
      let l ← hexDecode l
      let v ← hexDecode v
      pure (verdict (patternOfLit l) v flag)
    else pure "skip"
  | "rxm" :: _ => some "skip"
  | _ => none

end WfModel.Drv.Rx
