import WfModel.Basic
import WfModel.Model.PanicCatcher
/-!
Line protocol for C19:
  `pcop  <h0|h1> <tok,tok,...|.>`                 one thread, fresh thread-locals
  `pcop2 <h0|h1> <toksA|.> <toksB|.> <schedule>`  two threads; schedule = string of `0`/`1`,
                                                  one small step of that thread per character
`h1`: the catcher's hook is already installed on top of the sentinel; `h0`: pristine process
(only the sentinel is installed).
Tokens: `E` enable, `D` disable, `H` set hook, `Fc`/`Fa` set fallback Continue/Abort,
`Q` query backtrace, `C` enter catch_panic, `R` return from it, `P<n>` panic with message n.
An `R` with no open `C` is ignored; `C`s still open at the end are closed there. The k-th `C`
(0-based) returns the value k.
Answer: the events, comma separated (`-` if none): `k<v>` catch_panic returned Ok(v),
`e<m>` Err containing message m, `e?` Err with the '<unknown>' text, `s<m>` the sentinel hook
saw panic m, `d<m>` std's hook saw it, `u<m>` panic m arrived at the outermost level,
`q<m>`/`q-` backtrace query, `fc`/`fa` previous fallback mode, `abort`.
-/
namespace WfModel.Drv.PanicCatcher
open WfModel WfModel.PanicCatcher

inductive Tok
  | op (o : Op)
  | enter
  | ret

def parseTok (s : String) : Option Tok :=
  match s.toList with
  | ['E'] => some (.op .enable)
  | ['D'] => some (.op .disable)
  | ['H'] => some (.op .setHook)
  | ['F', 'c'] => some (.op (.setFallback .cont))
  | ['F', 'a'] => some (.op (.setFallback .abort))
  | ['Q'] => some (.op .query)
  | ['C'] => some .enter
  | ['R'] => some .ret
  | 'P' :: ds => (String.ofList ds).toNat?.map fun n => .op (.panic n)
  | _ => none

def parseToks (s : String) : Option (List Tok) :=
  if s == "." then some [] else allSome ((splitOnChar s ',').map parseTok)

/-- close the innermost open catch -/
def closeTop (cur : List Op) (stack : List (Nat × List Op)) : List Op × List (Nat × List Op) :=
  match stack with
  | [] => (cur, [])
  | (v, parent) :: st => (.catch_ cur.reverse v :: parent, st)

def closeAll (cur : List Op) : List (Nat × List Op) → List Op
  | [] => cur.reverse
  | (v, parent) :: st => closeAll (.catch_ cur.reverse v :: parent) st

/-- tokens → op tree; `cur` is the reversed current body, `stack` the enclosing ones. -/
def build (cur : List Op) (stack : List (Nat × List Op)) (nextVal : Nat) : List Tok → List Op
  | [] => closeAll cur stack
  | .op o :: rest => build (o :: cur) stack nextVal rest
  | .enter :: rest => build [] ((nextVal, cur) :: stack) (nextVal + 1) rest
  | .ret :: rest =>
    match stack with
    | [] => build cur stack nextVal rest
    | (v, parent) :: st => build (.catch_ cur.reverse v :: parent) st nextVal rest

def tree (toks : List Tok) : List Op := build [] [] 0 toks

def showMsg : Option Nat → String
  | some m => toString m
  | none => "?"

def showEv : Ev → String
  | .caught (.ok v) => s!"k{v}"
  | .caught (.err m) => s!"e{showMsg m}"
  | .sentinel m => s!"s{m}"
  | .stdhook m => s!"d{m}"
  | .unwound m => s!"u{m}"
  | .backtrace (some m) => s!"q{m}"
  | .backtrace none => "q-"
  | .prevFallback .cont => "fc"
  | .prevFallback .abort => "fa"
  | .abort => "abort"

def showTrace (tr : List Ev) : String :=
  if tr.isEmpty then "-" else ",".intercalate (tr.map showEv)

def initSt (h : String) : Option St :=
  if h == "h1" then some { hook := .catcher .sentinel, hookSet := true }
  else if h == "h0" then some { hook := .sentinel, hookSet := false }
  else none

def parseSched (s : String) : Option (List Nat) :=
  if s == "." then some [] else
  allSome (s.toList.map fun c => if c == '0' then some 0 else if c == '1' then some 1 else none)

def handle : List String → Option String
  | ["pcop", h, toks] => do
    let s ← initSt h
    let ops := tree (← parseToks toks)
    let big := runTop s ops
    let small := runSmall s ops
    -- both semantics of the model must agree (theorem `small_step_agrees`); say so if not
    if big.2.1 == small.2.1 && big.2.2 == small.2.2 && big.1 == small.1 then
      pure (showTrace big.2.1)
    else pure "model-inconsistent"
  | ["pcop2", h, ta, tb, sched] => do
    let s ← initSt h
    let a := tree (← parseToks ta)
    let b := tree (← parseToks tb)
    let σ ← parseSched sched
    let y : Sys := { threads := [{ code := { cur := a } }, { code := { cur := b } }],
                     hook := s.hook, hookSet := s.hookSet }
    let y' := y.run σ
    match y'.threads with
    | [t0, t1] => pure s!"{showTrace t0.tr} {showTrace t1.tr}{if y'.dead then " dead" else ""}"
    | _ => none
  | _ => none

end WfModel.Drv.PanicCatcher
