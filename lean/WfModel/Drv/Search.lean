import WfModel.Basic
import WfModel.Model.Search
/-!
Line protocol for C10:
  `contains <hex haystack> <hex needle> <anchor|-> <avx 0|1>`
`anchor` is the position forced through the verification hook (`-` = not forced: the
engine drew one from `1..len`, any in-range value gives the same model answer by
`C10.dispatch_total_and_correct`; the driver uses 1). Answer: `true` / `false` / `panic`.
-/
namespace WfModel.Drv.Search
open WfModel WfModel.Search

def handle : List String → Option String
  | ["contains", hay, needle, anchor, avx] => do
    let h ← hexDecode hay
    let p ← hexDecode needle
    let k ← if anchor == "-" then some 1 else parseNat? anchor
    let a ← if avx == "1" then some true else if avx == "0" then some false else none
    match containsOp p a k h with
    | some b => pure (boolStr b)
    | none => pure "panic"
  | _ => none

end WfModel.Drv.Search
