import WfModel.Lemmas.C01Climb

/-!
# Character-level rendering of logical skeletons (`parse_render_logical`, C01-S / C07-S)

Definitions used in the statements of `Props/C07Render.lean` and of the precedence corollary in
`Props/C01.lean`:

* `Sk α` — a *skeleton*: the logical structure of a filter over abstract atoms `α`;
* `Atoms α` — the text and the AST node of every atom; `GoodAtom` — what is assumed of an atom;
* `canon` — the declarative meaning of a skeleton (`layered` = and > xor > or, flattened);
* `Renders` / `RendersSimple` / `RendersTail` — ALL the character strings that spell a skeleton:
  any alias of the model's tables at every operator occurrence, any amount of layout wherever
  the grammar skips spaces (the word `not` may be glued to its operand unless the glued text
  spells a registered name: `glueOk`, from `LogicalExpr::lex_unary_op`);
* `Stop`, `NoOp`, `Admissible` — what may follow a rendering.

No property statements here.
-/
namespace WfModel.Render

open WfModel

/-- The logical structure of a filter. `chain first [(o₁,e₁),…,(oₙ,eₙ)]` is the unparenthesised
sequence `first o₁ e₁ … oₙ eₙ`. Operands of a chain and the argument of `not` must be *simple*
(`atom`, `not`, `paren`) — that is what the grammar offers; a chain nested in a chain is written
with `paren`. Skeletons violating this have no rendering (see `RendersSimple`). -/
inductive Sk (α : Type)
  | atom (a : α)
  | not (s : Sk α)
  | paren (s : Sk α)
  | chain (first : Sk α) (rest : List (LogicalOp × Sk α))

/-- text and AST node of every atom -/
structure Atoms (α : Type) where
  txt : α → List Char
  node : α → LExpr

variable {α : Type}

/-! ### meaning, nesting depth -/

mutual
/-- **the declarative meaning**: atoms are their nodes, `not` is `unaryNot`, parentheses are
kept, a chain is the `layered` tree of its operands (split at `or`, chunks at `xor`, chunks of
those at `and`; single chunks stand for themselves, several form one flat node) -/
def canon (A : Atoms α) : Sk α → LExpr
  | .atom a => A.node a
  | .not s => .unaryNot (canon A s)
  | .paren s => .paren (canon A s)
  | .chain f r => layered (canon A f) (canonRest A r)
def canonRest (A : Atoms α) : List (LogicalOp × Sk α) → List (LogicalOp × LExpr)
  | [] => []
  | (o, s) :: r => (o, canon A s) :: canonRest A r
end

mutual
/-- nesting the parser needs: one level per parenthesis and per `not` -/
def depth : Sk α → Nat
  | .atom _ => 0
  | .not s => depth s + 1
  | .paren s => depth s + 1
  | .chain f r => max (depth f) (depthRest r)
def depthRest : List (LogicalOp × Sk α) → Nat
  | [] => 0
  | (_, s) :: r => max (depth s) (depthRest r)
end

mutual
/-- does the text of the skeleton end with the text of an atom (and not with `)`)? -/
def endsAtom : Sk α → Bool
  | .atom _ => true
  | .not s => endsAtom s
  | .paren _ => false
  | .chain f r => lastEnds (endsAtom f) r
/-- `endsAtom` of the last operand (`b` = that of the operand before the list) -/
def lastEnds : Bool → List (LogicalOp × Sk α) → Bool
  | b, [] => b
  | _, (_, s) :: r => lastEnds (endsAtom s) r
end

/-! ### layout and what may follow an atom -/

/-- `ws` consists of `SPACE_CHARS` only (any length, also empty) -/
def Layout (ws : Input) : Bool := ws.all isSpace

/-- first character of the symbolic aliases `&&`, `||`, `^^` -/
def symStart (c : Char) : Bool := c == '&' || c == '|' || c == '^'

/-- **What may follow an atom**: end of input, a space, `)`; with `tight = true` also the first
character of a symbolic combining operator (`a&&b`). -/
def Stop (tight : Bool) : Input → Bool
  | [] => true
  | c :: _ => isSpace c || c == ')' || (tight && symStart c)

/-- the spelling starts with a symbol (`&&`, `||`, `^^`), not with a letter -/
def symbolic (al : String) : Bool :=
  match al.toList with
  | c :: _ => symStart c
  | [] => false

/-- **The only place where layout is mandatory**: between an operand whose text ends with an
atom (`prevAtom`) and the following combining operator there is at least one space — unless
atoms are known to stop before symbols (`tight`) and the operator is spelled symbolically.
Everywhere else (after any operator incl. `not`/`and`/`or`/`xor`, inside parentheses, after `)`)
zero or more spaces are allowed: the lexer does not look for a word boundary after an operator
(`a andb` parses as `a and b`, and `nota` as `not a` unless `nota` is a registered name — see
`glueOk` —, in the model as in the Rust lexers). -/
def sepOk (tight prevAtom : Bool) (ws : Input) (al : String) : Bool :=
  !prevAtom || !ws.isEmpty || (tight && symbolic al)

/-- no combining operator follows (after optional spaces) -/
def NoOp (rest : Input) : Bool := (lexEnum logicalOps (skipSpace rest)).isNone

/-- **What may follow a rendering of `sk`**: no combining operator, and – if the rendering ends
with an atom – something the atom stops at. `[]`, `")…"`, `" )…"` are always admissible. -/
def Admissible (tight : Bool) (sk : Sk α) (rest : Input) : Prop :=
  (endsAtom sk = true → Stop tight rest = true) ∧ NoOp rest = true

/-! ### atoms -/

/-- **GoodAtom**: at every nesting budget and before every continuation the atom stops at, the
comparison lexer reads exactly the atom's text, returns the atom's node with type `Bool` and
leaves the continuation; the text is not taken for a unary operator (`lex_unary_op`: a registered
name that merely begins with `not` is NOT taken for one) or a quantifier call; the
node is not a bare `combining` node. (That the text is non-empty and starts neither with a space
nor with `(` follows from the first clause: it starts with an identifier character.) -/
structure GoodAtom (env : PEnv) (A : Atoms α) (tight : Bool) (a : α) : Prop where
  parses : ∀ (n : Nat) (rest : Input), Stop tight rest = true →
    comparisonL env (lowerOf env n) (A.txt a ++ rest) =
      .ok ({ node := A.node a, ty := .bool }, rest)
  noUnary : ∀ rest : Input, Stop tight rest = true → lexUnary env (A.txt a ++ rest) = none
  noQuant : ∀ rest : Input, Stop tight rest = true → lexQuantCall (A.txt a ++ rest) = none
  notCombining : isCombining (A.node a) = false

/-! ### renderings -/

/-- the maximal run of name characters (identifier characters and dots) at the start of a text:
what `Identifier::lex_with` looks up when it succeeds -/
def nameRun : Input → Input
  | [] => []
  | c :: cs => if isIdentChar c || c == '.' then c :: nameRun cs else []

/-- **Where the word `not` may be written without a space** (`LogicalExpr::lex_unary_op`):
always when layout follows (`ws ≠ []`), always for `!`, always when the operand `t` starts with
no name character (`not(a)`, `not!a`); glued to a name character (`nota`, `not.a`, `notnot a`)
only if the maximal run of name characters starting at the `n` is not a registered name —
otherwise the lexer reads that identifier, not the operator. Decidable on a given text; vacuous
for schemes without names that begin with `not`. -/
def glueOk (env : PEnv) (al : String) (ws t : Input) : Bool :=
  !ws.isEmpty || al != "not" || !gluedTo t ||
    (env.scheme.get (nameRun (al.toList ++ t))).isNone

mutual
/-- renderings of a *simple* expression: an atom's text; `not`/`!` + layout + simple (no layout
at all only where `glueOk` allows it: the scheme `env` is a parameter for this one side
condition); `(` layout logical layout `)` -/
inductive RendersSimple (env : PEnv) (A : Atoms α) (tight : Bool) : Sk α → Input → Prop
  | atom (a : α) : RendersSimple env A tight (.atom a) (A.txt a)
  | not {s : Sk α} {t : Input} (al : String) (ws : Input) :
      (al, ()) ∈ unaryOps → Layout ws = true → glueOk env al ws t = true →
      RendersSimple env A tight s t →
      RendersSimple env A tight (.not s) (al.toList ++ (ws ++ t))
  | paren {s : Sk α} {t : Input} (ws₁ ws₂ : Input) :
      Layout ws₁ = true → Layout ws₂ = true → Renders env A tight s t →
      RendersSimple env A tight (.paren s) ('(' :: (ws₁ ++ (t ++ (ws₂ ++ [')']))))
/-- **renderings of a skeleton** as a logical expression: a simple one, or a chain = first operand
followed by the renderings of `(operator, operand)` pairs -/
inductive Renders (env : PEnv) (A : Atoms α) (tight : Bool) : Sk α → Input → Prop
  | simple {s : Sk α} {t : Input} : RendersSimple env A tight s t → Renders env A tight s t
  | chain {f : Sk α} {r : List (LogicalOp × Sk α)} {t u : Input} :
      RendersSimple env A tight f t → RendersTail env A tight (endsAtom f) r u →
      Renders env A tight (.chain f r) (t ++ u)
/-- renderings of `o₁ e₁ … oₙ eₙ` after an operand (`prevAtom` = does it end with an atom):
layout, ANY spelling of `oᵢ` from `logicalOps`, layout, a simple rendering of `eᵢ` -/
inductive RendersTail (env : PEnv) (A : Atoms α) (tight : Bool) :
    Bool → List (LogicalOp × Sk α) → Input → Prop
  | nil (b : Bool) : RendersTail env A tight b [] []
  | cons {b : Bool} {o : LogicalOp} {s : Sk α} {r : List (LogicalOp × Sk α)} {t u : Input}
      (ws₁ : Input) (al : String) (ws₂ : Input) :
      Layout ws₁ = true → (al, o) ∈ logicalOps → Layout ws₂ = true →
      sepOk tight b ws₁ al = true →
      RendersSimple env A tight s t → RendersTail env A tight (endsAtom s) r u →
      RendersTail env A tight b ((o, s) :: r) (ws₁ ++ (al.toList ++ (ws₂ ++ (t ++ u))))
end

/-- operands as the stream items of `Unfolds` -/
def itemsOf (A : Atoms α) (r : List (LogicalOp × Sk α)) : List Item :=
  (canonRest A r).map fun p => (p.1, ({ node := p.2, ty := .bool } : Typed LExpr))

end WfModel.Render
