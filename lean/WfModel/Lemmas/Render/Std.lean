import WfModel.Lemmas.Render.Main

/-!
# A canonical rendering: every well-formed skeleton has a rendering

`renderStd` spells every operator with its word alias and single spaces; `WF` is the decidable
well-formedness of skeletons (chain operands and `not` arguments are simple). Helper lemmas only.
-/
namespace WfModel.Render

open WfModel

variable {α : Type}

/-- `atom`, `not`, `paren`: what `lex_simple_expr` can return -/
def isSimple : Sk α → Bool
  | .chain _ _ => false
  | _ => true

mutual
/-- chain operands and `not` arguments are simple (a chain inside a chain needs `paren`) -/
def WF : Sk α → Bool
  | .atom _ => true
  | .not s => isSimple s && WF s
  | .paren s => WF s
  | .chain f r => isSimple f && WF f && WFRest r
def WFRest : List (LogicalOp × Sk α) → Bool
  | [] => true
  | (_, s) :: r => isSimple s && WF s && WFRest r
end

/-- the word spelling of a combining operator -/
def stdAlias : LogicalOp → String
  | .or => "or" | .xor => "xor" | .and => "and"

theorem stdAlias_mem (o : LogicalOp) : (stdAlias o, o) ∈ logicalOps := by
  cases o <;> decide

mutual
/-- word aliases, one space around every combining operator and after `not`, none inside
parentheses -/
def renderStd (A : Atoms α) : Sk α → Input
  | .atom a => A.txt a
  | .not s => "not".toList ++ ([' '] ++ renderStd A s)
  | .paren s => '(' :: ([] ++ (renderStd A s ++ ([] ++ [')'])))
  | .chain f r => renderStd A f ++ renderStdRest A r
def renderStdRest (A : Atoms α) : List (LogicalOp × Sk α) → Input
  | [] => []
  | (o, s) :: r =>
    [' '] ++ ((stdAlias o).toList ++ ([' '] ++ (renderStd A s ++ renderStdRest A r)))
end

mutual
theorem renders_std_simple (env : PEnv) (A : Atoms α) (tight : Bool) :
    ∀ sk : Sk α, WF sk = true → isSimple sk = true → RendersSimple env A tight sk (renderStd A sk)
  | .atom a, _, _ => .atom a
  | .not s, h, _ => by
    simp only [WF, Bool.and_eq_true] at h
    exact .not "not" [' '] (by decide) rfl rfl (renders_std_simple env A tight s h.2 h.1)
  | .paren s, h, _ => by
    simp only [WF] at h
    exact .paren [] [] rfl rfl (renders_std env A tight s h)
  | .chain _ _, _, h => by simp [isSimple] at h
theorem renders_std (env : PEnv) (A : Atoms α) (tight : Bool) :
    ∀ sk : Sk α, WF sk = true → Renders env A tight sk (renderStd A sk)
  | .atom a, _ => .simple (.atom a)
  | .not s, h => .simple (renders_std_simple env A tight (.not s) h rfl)
  | .paren s, h => .simple (renders_std_simple env A tight (.paren s) h rfl)
  | .chain f r, h => by
    simp only [WF, Bool.and_eq_true] at h
    exact .chain (renders_std_simple env A tight f h.1.2 h.1.1) (renders_std_tail env A tight r _ h.2)
theorem renders_std_tail (env : PEnv) (A : Atoms α) (tight : Bool) :
    ∀ (r : List (LogicalOp × Sk α)) (b : Bool), WFRest r = true →
      RendersTail env A tight b r (renderStdRest A r)
  | [], b, _ => .nil b
  | (o, s) :: r, b, h => by
    simp only [WFRest, Bool.and_eq_true] at h
    exact .cons [' '] (stdAlias o) [' '] rfl (stdAlias_mem o) rfl (by simp [sepOk])
      (renders_std_simple env A tight s h.1.2 h.1.1) (renders_std_tail env A tight r _ h.2)
end

end WfModel.Render
