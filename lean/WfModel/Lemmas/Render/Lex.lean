import WfModel.Lemmas.Render.Defs
import WfModel.Lemmas.C07.Lex
import WfModel.Lemmas.C05Level

/-!
# `parse_render_logical`, layer 1–2: lexing of rendered operators, `simpleL` on rendered
`not` / parenthesis / atom. Helper lemmas only.
-/
namespace WfModel.Render

open WfModel WfModel.C07L

variable {α : Type}

/-! ### layout -/

theorem layout_iff {ws : Input} : Layout ws = true ↔ ∀ c ∈ ws, isSpace c = true := by
  simp [Layout, List.all_eq_true]

theorem skipSpace_layout {ws : Input} (h : Layout ws = true) (s : Input) :
    skipSpace (ws ++ s) = skipSpace s :=
  skipSpace_append_spaces ws s (layout_iff.mp h)

theorem skipSpace_cons_of_not_space {c : Char} (cs : Input) (h : isSpace c = false) :
    skipSpace (c :: cs) = c :: cs := by
  simp [skipSpace, h]

/-- a string that starts with a non-space character -/
def Solid (s : Input) : Prop := ∃ c cs, s = c :: cs ∧ isSpace c = false

theorem Solid.append {s : Input} (h : Solid s) (t : Input) : Solid (s ++ t) := by
  obtain ⟨c, cs, rfl, hc⟩ := h
  exact ⟨c, cs ++ t, rfl, hc⟩

theorem Solid.skip {s : Input} (h : Solid s) : skipSpace s = s := by
  obtain ⟨c, cs, rfl, hc⟩ := h
  exact skipSpace_cons_of_not_space cs hc

theorem Solid.head {s : Input} (h : Solid s) : ∀ c, s.head? = some c → isSpace c = false := by
  obtain ⟨c, cs, rfl, hc⟩ := h
  intro d hd
  simp at hd
  subst hd
  exact hc

theorem Solid.length_pos {s : Input} (h : Solid s) : 0 < s.length := by
  obtain ⟨c, cs, rfl, _⟩ := h
  simp

theorem skipSpace_layout_solid {ws s : Input} (h : Layout ws = true) (hs : Solid s) :
    skipSpace (ws ++ s) = s := by
  rw [skipSpace_layout h, hs.skip]

/-! ### the comparison lexer starts with an identifier character -/

theorem takeWhile1_ok_head {p : Char → Bool} {input a b : Input}
    (h : takeWhile1 p input = .ok (a, b)) : ∃ c cs, input = c :: cs ∧ p c = true := by
  cases input with
  | nil => simp [takeWhile1, spanWhile, errAt] at h
  | cons c cs =>
    refine ⟨c, cs, rfl, ?_⟩
    by_cases hp : p c = true
    · exact hp
    · simp [takeWhile1, spanWhile, hp, errAt] at h

theorem identRest_ok_head {f : Nat} {input : Input} {r : Unit × Input}
    (h : identRest f input = .ok r) : ∃ c cs, input = c :: cs ∧ isIdentChar c = true := by
  cases f with
  | zero => simp [identRest, errAt] at h
  | succ f =>
    unfold identRest at h
    split at h
    · cases h
    · rename_i a b htw
      exact takeWhile1_ok_head htw

theorem lexIdentifier_ok_head {s : Scheme} {input : Input} {r : Ident × Input}
    (h : lexIdentifier s input = .ok r) : ∃ c cs, input = c :: cs ∧ isIdentChar c = true := by
  unfold lexIdentifier at h
  split at h
  · cases h
  · rename_i u rest hid
    exact identRest_ok_head hid

theorem indexExprL_ok_head {env : PEnv} {lower : Option Level} {input : Input}
    {r : Typed IExpr × Input} (h : indexExprL env lower input = .ok r) :
    ∃ c cs, input = c :: cs ∧ isIdentChar c = true := by
  unfold indexExprL at h
  split at h
  · cases h
  · rename_i i rest hid; exact lexIdentifier_ok_head hid
  · rename_i i rest hid; exact lexIdentifier_ok_head hid

theorem comparisonL_ok_head {env : PEnv} {lower : Option Level} {input : Input}
    {r : Typed LExpr × Input} (h : comparisonL env lower input = .ok r) :
    ∃ c cs, input = c :: cs ∧ isIdentChar c = true := by
  unfold comparisonL at h
  split at h
  · cases h
  · rename_i lhs rest hix; exact indexExprL_ok_head hix

theorem identChar_not_space {c : Char} (h : isIdentChar c = true) : isSpace c = false := by
  cases hs : isSpace c with
  | false => rfl
  | true =>
    simp only [isSpace, Bool.or_eq_true, decide_eq_true_eq] at hs
    rcases hs with (rfl | rfl) | rfl <;> revert h <;> decide

theorem identChar_ne_paren {c : Char} (h : isIdentChar c = true) : c ≠ '(' := by
  rintro rfl; revert h; decide

/-! ### atoms -/

section atoms
variable {env : PEnv} {A : Atoms α} {tight : Bool} {a : α}

/-- the text of a good atom starts with an identifier character -/
theorem GoodAtom.txt_head (h : GoodAtom env A tight a) :
    ∃ c cs, A.txt a = c :: cs ∧ isIdentChar c = true := by
  have := h.parses 0 [] rfl
  obtain ⟨c, cs, hc, hi⟩ := comparisonL_ok_head this
  exact ⟨c, cs, by simpa using hc, hi⟩

theorem GoodAtom.solid (h : GoodAtom env A tight a) : Solid (A.txt a) := by
  obtain ⟨c, cs, hc, hi⟩ := h.txt_head
  exact ⟨c, cs, hc, identChar_not_space hi⟩

theorem GoodAtom.noParen (h : GoodAtom env A tight a) (rest : Input) :
    expect (A.txt a ++ rest) "(" = none := by
  obtain ⟨c, cs, hc, hi⟩ := h.txt_head
  have := identChar_ne_paren hi
  simp [hc, expect, stripPrefix, this]

/-- `lex_simple_expr` on a good atom -/
theorem GoodAtom.simple (h : GoodAtom env A tight a) (n : Nat) (rest : Input)
    (hr : Stop tight rest = true) :
    simpleL env (lowerOf env n) (A.txt a ++ rest) =
      .ok ({ node := A.node a, ty := .bool }, rest) := by
  unfold simpleL
  simp only [h.noParen rest, h.noUnary rest hr, h.noQuant rest hr, h.parses n rest hr]

end atoms

/-! ### `not`, parentheses -/

theorem simpleL_unary (env : PEnv) (lw : Level) (al : String) (hal : (al, ()) ∈ unaryOps)
    (x : Input) :
    simpleL env (some lw) (al.toList ++ x) =
      match lw.simple (skipSpace x) with
      | .error e => .error e
      | .ok (e, r) => .ok ({ node := .unaryNot e.node, ty := e.ty }, r) := by
  simp only [unaryOps, List.mem_cons, Prod.mk.injEq, and_true, List.not_mem_nil, or_false] at hal
  rcases hal with rfl | rfl
  · exact simpleL_not env lw x
  · exact simpleL_bang env lw x

theorem unary_solid {al : String} (hal : (al, ()) ∈ unaryOps) (x : Input) :
    Solid (al.toList ++ x) := by
  simp only [unaryOps, List.mem_cons, Prod.mk.injEq, and_true, List.not_mem_nil, or_false] at hal
  rcases hal with rfl | rfl
  · exact ⟨'n', 'o' :: 't' :: x, rfl, by decide⟩
  · exact ⟨'!', x, rfl, by decide⟩

theorem unary_length {al : String} (hal : (al, ()) ∈ unaryOps) : 0 < al.toList.length := by
  simp only [unaryOps, List.mem_cons, Prod.mk.injEq, and_true, List.not_mem_nil, or_false] at hal
  rcases hal with rfl | rfl <;> decide

theorem simpleL_paren (env : PEnv) (lw : Level) (x : Input) :
    simpleL env (some lw) ('(' :: x) =
      match lw.logical (skipSpace x) with
      | .error e => .error e
      | .ok (e, r) =>
        match expect (skipSpace r) ")" with
        | some r2 => .ok ({ node := .paren e.node, ty := e.ty }, r2)
        | none => errAt .expectedLiteral (skipSpace r) := by
  simp [simpleL, expect, stripPrefix]
  rfl

theorem noOp_close (ws rest : Input) (h : Layout ws = true) : NoOp (ws ++ ')' :: rest) = true := by
  unfold NoOp
  rw [skipSpace_layout h, skipSpace_cons_of_not_space _ (by decide)]
  simp [lexEnum, logicalOps, expect, stripPrefix]

theorem stop_layout_close (tight : Bool) (ws rest : Input) (h : Layout ws = true) :
    Stop tight (ws ++ ')' :: rest) = true := by
  cases ws with
  | nil => simp [Stop]
  | cons c ws =>
    have : isSpace c = true := layout_iff.mp h c (by simp)
    simp [Stop, this]

theorem expect_close (ws rest : Input) (h : Layout ws = true) :
    expect (skipSpace (ws ++ ')' :: rest)) ")" = some rest := by
  rw [skipSpace_layout h, skipSpace_cons_of_not_space _ (by decide)]
  simp [expect, stripPrefix]

/-! ### combining operators -/

theorem noOp_lex {rest : Input} (h : NoOp rest = true) : lexCombiningOp rest = (none, rest) := by
  unfold NoOp at h
  unfold lexCombiningOp
  cases hl : lexEnum logicalOps (skipSpace rest) with
  | none => rfl
  | some p => simp [hl] at h

theorem logical_length {al : String} {o : LogicalOp} (hal : (al, o) ∈ logicalOps) :
    0 < al.toList.length := by
  simp only [logicalOps, List.mem_cons, Prod.mk.injEq, List.not_mem_nil, or_false] at hal
  rcases hal with ⟨rfl, _⟩ | ⟨rfl, _⟩ | ⟨rfl, _⟩ | ⟨rfl, _⟩ | ⟨rfl, _⟩ | ⟨rfl, _⟩ <;> decide

/-- a rendered operator: layout, any alias, layout, then something solid -/
theorem lexCombiningOp_rendered {al : String} {o : LogicalOp} (hal : (al, o) ∈ logicalOps)
    {ws₁ ws₂ s : Input} (h₁ : Layout ws₁ = true) (h₂ : Layout ws₂ = true) (hs : Solid s) :
    lexCombiningOp (ws₁ ++ (al.toList ++ (ws₂ ++ s))) = (some o, s) := by
  have := lexCombiningOp_layout al o hal ws₁ ws₂ s (layout_iff.mp h₁) (layout_iff.mp h₂) hs.head
  simpa [List.append_assoc] using this

/-- what follows an operand that ends with an atom, when an operator is rendered next -/
theorem stop_of_sepOk {tight b : Bool} {ws : Input} {al : String} {o : LogicalOp}
    (hal : (al, o) ∈ logicalOps) (hws : Layout ws = true) (h : sepOk tight b ws al = true)
    (hb : b = true) (x : Input) : Stop tight (ws ++ (al.toList ++ x)) = true := by
  subst hb
  cases ws with
  | cons c ws =>
    have : isSpace c = true := layout_iff.mp hws c (by simp)
    simp [Stop, this]
  | nil =>
    simp only [sepOk, Bool.not_true, List.isEmpty_nil, Bool.false_or, Bool.and_eq_true] at h
    obtain ⟨ht, hsym⟩ := h
    subst ht
    simp only [logicalOps, List.mem_cons, Prod.mk.injEq, List.not_mem_nil, or_false] at hal
    rcases hal with ⟨rfl, _⟩ | ⟨rfl, _⟩ | ⟨rfl, _⟩ | ⟨rfl, _⟩ | ⟨rfl, _⟩ | ⟨rfl, _⟩ <;>
      first
      | (exfalso; revert hsym; decide)
      | rfl

/-! ### `level` -/

theorem level_eq (env : PEnv) (n : Nat) : level env n = mkLevel env (lowerOf env n) := by
  cases n <;> rfl

theorem level_logical (env : PEnv) (n : Nat) :
    (level env n).logical = logicalL env (lowerOf env n) := by rw [level_eq]; rfl

theorem level_simple (env : PEnv) (n : Nat) :
    (level env n).simple = simpleL env (lowerOf env n) := by rw [level_eq]; rfl

theorem simpleL_shrinks (env : PEnv) (n : Nat) :
    ∀ inp e r', simpleL env (lowerOf env n) inp = .ok (e, r') → r'.length ≤ inp.length :=
  fun inp e r' h => Nat.le_of_lt ((simpleL_good (lowerOf_good env n) inp).2.2 e r' h)

/-- `LogicalExpr::lex_with` = first operand, then the layered tree of what unfolds
(`logical_layered` of C01, restated over the lemma layer) -/
theorem logicalL_layered (env : PEnv) (n : Nat) (input rest₀ fin : Input)
    (e₀ : Typed LExpr) (items : List Item)
    (h₀ : simpleL env (lowerOf env n) input = .ok (e₀, rest₀))
    (hnc₀ : isCombining e₀.node = false)
    (hnc : ∀ it ∈ items, isCombining it.2.node = false)
    (hty : ∀ it ∈ items, logicalTypesOk e₀.ty it.2.ty = true)
    (hU : Unfolds (simpleL env (lowerOf env n)) rest₀ items fin) :
    logicalL env (lowerOf env n) input =
      .ok ({ node := layered e₀.node (nodesOf items), ty := e₀.ty }, fin) := by
  unfold logicalL
  simp only [h₀]
  have hlen := unfolds_length (simpleL_shrinks env n) hU
  rw [climb_Lv _ _ e₀ items rest₀ fin hnc₀ hnc hty hU (by omega), Lv_zero_eq_layered]

end WfModel.Render
