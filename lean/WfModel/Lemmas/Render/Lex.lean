import WfModel.Lemmas.Render.Defs
import WfModel.Lemmas.C07.Lex
import WfModel.Lemmas.C05Level

/-!
# `parse_render_logical`, layer 1–2: lexing of rendered operators, `simpleL` on rendered
`not` / parenthesis / atom. Helper lemmas only.
-/
namespace WfModel.Render

open WfModel WfModel.C07L

variable {α : Type}

/-! ### layout -/

theorem layout_iff {ws : Input} : Layout ws = true ↔ ∀ c ∈ ws, isSpace c = true := by
  simp [Layout, List.all_eq_true]

theorem skipSpace_layout {ws : Input} (h : Layout ws = true) (s : Input) :
    skipSpace (ws ++ s) = skipSpace s :=
  skipSpace_append_spaces ws s (layout_iff.mp h)

theorem skipSpace_cons_of_not_space {c : Char} (cs : Input) (h : isSpace c = false) :
    skipSpace (c :: cs) = c :: cs := by
  simp [skipSpace, h]

/-- a string that starts with a non-space character -/
def Solid (s : Input) : Prop := ∃ c cs, s = c :: cs ∧ isSpace c = false

theorem Solid.append {s : Input} (h : Solid s) (t : Input) : Solid (s ++ t) := by
  obtain ⟨c, cs, rfl, hc⟩ := h
  exact ⟨c, cs ++ t, rfl, hc⟩

theorem Solid.skip {s : Input} (h : Solid s) : skipSpace s = s := by
  obtain ⟨c, cs, rfl, hc⟩ := h
  exact skipSpace_cons_of_not_space cs hc

theorem Solid.head {s : Input} (h : Solid s) : ∀ c, s.head? = some c → isSpace c = false := by
  obtain ⟨c, cs, rfl, hc⟩ := h
  intro d hd
  simp at hd
  subst hd
  exact hc

theorem Solid.length_pos {s : Input} (h : Solid s) : 0 < s.length := by
  obtain ⟨c, cs, rfl, _⟩ := h
  simp

theorem skipSpace_layout_solid {ws s : Input} (h : Layout ws = true) (hs : Solid s) :
    skipSpace (ws ++ s) = s := by
  rw [skipSpace_layout h, hs.skip]

/-! ### the comparison lexer starts with an identifier character -/

theorem takeWhile1_ok_head {p : Char → Bool} {input a b : Input}
    (h : takeWhile1 p input = .ok (a, b)) : ∃ c cs, input = c :: cs ∧ p c = true := by
  cases input with
  | nil => simp [takeWhile1, spanWhile, errAt] at h
  | cons c cs =>
    refine ⟨c, cs, rfl, ?_⟩
    by_cases hp : p c = true
    · exact hp
    · simp [takeWhile1, spanWhile, hp, errAt] at h

theorem identRest_ok_head {f : Nat} {input : Input} {r : Unit × Input}
    (h : identRest f input = .ok r) : ∃ c cs, input = c :: cs ∧ isIdentChar c = true := by
  cases f with
  | zero => simp [identRest, errAt] at h
  | succ f =>
    unfold identRest at h
    split at h
    · cases h
    · rename_i a b htw
      exact takeWhile1_ok_head htw

theorem lexIdentifier_ok_head {s : Scheme} {input : Input} {r : Ident × Input}
    (h : lexIdentifier s input = .ok r) : ∃ c cs, input = c :: cs ∧ isIdentChar c = true := by
  unfold lexIdentifier at h
  split at h
  · cases h
  · rename_i u rest hid
    exact identRest_ok_head hid

theorem indexExprL_ok_head {env : PEnv} {lower : Option Level} {input : Input}
    {r : Typed IExpr × Input} (h : indexExprL env lower input = .ok r) :
    ∃ c cs, input = c :: cs ∧ isIdentChar c = true := by
  unfold indexExprL at h
  split at h
  · cases h
  · rename_i i rest hid; exact lexIdentifier_ok_head hid
  · rename_i i rest hid; exact lexIdentifier_ok_head hid

theorem comparisonL_ok_head {env : PEnv} {lower : Option Level} {input : Input}
    {r : Typed LExpr × Input} (h : comparisonL env lower input = .ok r) :
    ∃ c cs, input = c :: cs ∧ isIdentChar c = true := by
  unfold comparisonL at h
  split at h
  · cases h
  · rename_i lhs rest hix; exact indexExprL_ok_head hix

theorem identChar_not_space {c : Char} (h : isIdentChar c = true) : isSpace c = false := by
  cases hs : isSpace c with
  | false => rfl
  | true =>
    simp only [isSpace, Bool.or_eq_true, decide_eq_true_eq] at hs
    rcases hs with (rfl | rfl) | rfl <;> revert h <;> decide

theorem identChar_ne_paren {c : Char} (h : isIdentChar c = true) : c ≠ '(' := by
  rintro rfl; revert h; decide

/-! ### atoms -/

section atoms
variable {env : PEnv} {A : Atoms α} {tight : Bool} {a : α}

/-- the text of a good atom starts with an identifier character -/
theorem GoodAtom.txt_head (h : GoodAtom env A tight a) :
    ∃ c cs, A.txt a = c :: cs ∧ isIdentChar c = true := by
  have := h.parses 0 [] rfl
  obtain ⟨c, cs, hc, hi⟩ := comparisonL_ok_head this
  exact ⟨c, cs, by simpa using hc, hi⟩

theorem GoodAtom.solid (h : GoodAtom env A tight a) : Solid (A.txt a) := by
  obtain ⟨c, cs, hc, hi⟩ := h.txt_head
  exact ⟨c, cs, hc, identChar_not_space hi⟩

theorem GoodAtom.noParen (h : GoodAtom env A tight a) (rest : Input) :
    expect (A.txt a ++ rest) "(" = none := by
  obtain ⟨c, cs, hc, hi⟩ := h.txt_head
  have := identChar_ne_paren hi
  simp [hc, expect, stripPrefix, this]

/-- `lex_simple_expr` on a good atom -/
theorem GoodAtom.simple (h : GoodAtom env A tight a) (n : Nat) (rest : Input)
    (hr : Stop tight rest = true) :
    simpleL env (lowerOf env n) (A.txt a ++ rest) =
      .ok ({ node := A.node a, ty := .bool }, rest) := by
  rw [simpleL_noUnary env _ (h.noParen rest) (h.noUnary rest hr) (h.noQuant rest hr)]
  exact h.parses n rest hr

end atoms

/-! ### `not`, parentheses -/

/-! #### the maximal run of name characters, and `Identifier::lex_with` -/

theorem nameRun_nil_of_not_glued {x : Input} (h : gluedTo x = false) : nameRun x = [] := by
  cases x with
  | nil => rfl
  | cons c cs =>
    simp only [gluedTo] at h
    simp [nameRun, h]

/-- a run of name characters is copied -/
theorem nameRun_append_all {a : Input} (ha : ∀ c ∈ a, (isIdentChar c || c == '.') = true)
    (x : Input) : nameRun (a ++ x) = a ++ nameRun x := by
  induction a with
  | nil => rfl
  | cons c cs ih =>
    have hc := ha c (by simp)
    simp only [List.cons_append, nameRun, hc, if_true]
    rw [ih (fun d hd => ha d (by simp [hd]))]

/-- a continuation that does not go on with a name character does not extend the run -/
theorem nameRun_append_stop (t : Input) {rest : Input} (h : gluedTo rest = false) :
    nameRun (t ++ rest) = nameRun t := by
  induction t with
  | nil => rw [List.nil_append, nameRun_nil_of_not_glued h]; rfl
  | cons c cs ih =>
    simp only [List.cons_append, nameRun]
    split
    · rw [ih]
    · rfl

/-- the run ends inside a text that contains a character which is no name character -/
theorem nameRun_append_mem {t : Input} {d : Char} (hd : d ∈ t)
    (hn : (isIdentChar d || d == '.') = false) (rest : Input) :
    nameRun (t ++ rest) = nameRun t := by
  induction t with
  | nil => cases hd
  | cons c cs ih =>
    simp only [List.cons_append, nameRun]
    split
    · rename_i hc
      rcases List.mem_cons.mp hd with rfl | hd'
      · rw [hn] at hc; cases hc
      · rw [ih hd']
    · rfl

theorem spanWhile_snd_head (p : Char → Bool) (i : Input) :
    ∀ c, (spanWhile p i).2.head? = some c → p c = false := by
  induction i with
  | nil => intro c h; cases h
  | cons d ds ih =>
    intro c h
    simp only [spanWhile] at h
    split at h
    · exact ih c h
    · rename_i hp
      simp only [List.head?_cons, Option.some.injEq] at h
      subst h
      simpa using hp

theorem takeWhile1_ok_rest {p : Char → Bool} {i a b : Input} (h : takeWhile1 p i = .ok (a, b)) :
    ∀ c, b.head? = some c → p c = false := by
  unfold takeWhile1 at h
  have hs := spanWhile_snd_head p i
  split at h
  · cases h
  · next x y hne heq =>
    simp only [Except.ok.injEq, Prod.mk.injEq] at h
    rw [heq] at hs
    rw [← h.2]
    exact hs

/-- **the identifier loop reads the maximal run of name characters** (when it succeeds) -/
theorem identRest_nameRun : ∀ (f : Nat) (input rest : Input) (u : Unit),
    identRest f input = .ok (u, rest) → ∃ name, input = name ++ rest ∧ nameRun input = name
  | 0, _, _, _, h => by simp [identRest, errAt] at h
  | f + 1, input, rest, u, h => by
    unfold identRest at h
    split at h
    · cases h
    · rename_i a b htw
      obtain ⟨hab, _, hall⟩ := takeWhile1_ok htw
      have hb := takeWhile1_ok_rest htw
      have hall' : ∀ c ∈ a, (isIdentChar c || c == '.') = true := fun c hc => by
        rw [hall c hc]; rfl
      split at h
      · rename_i r2 hdot
        obtain ⟨name2, h2, hrun2⟩ := identRest_nameRun f r2 rest u h
        have hbdot : b = '.' :: r2 := expect_eq_some.mp hdot
        refine ⟨a ++ '.' :: name2, ?_, ?_⟩
        · rw [← hab, hbdot, h2]; simp
        · rw [← hab, hbdot, nameRun_append_all hall']
          simp only [nameRun, show (isIdentChar '.' || '.' == '.') = true by decide, if_true, hrun2]
      · rename_i hdot
        simp only [Except.ok.injEq, Prod.mk.injEq] at h
        obtain ⟨_, rfl⟩ := h
        refine ⟨a, hab.symm, ?_⟩
        have hg : gluedTo b = false := by
          cases b with
          | nil => rfl
          | cons c cs =>
            have h1 := hb c rfl
            have h2 : c ≠ '.' := by
              rintro rfl
              simp [expect, stripPrefix] at hdot
            simp [gluedTo, h1, h2]
        rw [← hab, nameRun_append_all hall', nameRun_nil_of_not_glued hg, List.append_nil]

/-- `Identifier::lex_with` succeeds only if the maximal run of name characters is registered -/
theorem lexIdentifier_ok_nameRun {s : Scheme} {input : Input} {id : Ident} {r : Input}
    (h : lexIdentifier s input = .ok (id, r)) : s.get (nameRun input) = some id := by
  unfold lexIdentifier at h
  split at h
  · cases h
  · rename_i u rest hid
    obtain ⟨name, hin, hrun⟩ := identRest_nameRun _ _ _ _ hid
    have ht : input.take (input.length - rest.length) = name := by
      rw [hin]; simp
    rw [hrun]
    cases hget : s.get name with
    | none => simp [ht, hget, errSpan] at h
    | some id' =>
      simp only [ht, hget, Except.ok.injEq, Prod.mk.injEq] at h
      rw [h.1]

theorem isRegistered_false_of_get {s : Scheme} {input : Input}
    (h : s.get (nameRun input) = none) : isRegistered s input = false := by
  unfold isRegistered
  split
  · rename_i p hp
    obtain ⟨id, r⟩ := p
    rw [lexIdentifier_ok_nameRun hp] at h
    cases h
  · rfl

/-- a space is no name character -/
theorem gluedTo_space {c : Char} (hc : isSpace c = true) (cs : Input) :
    gluedTo (c :: cs) = false := by
  have : c = ' ' ∨ c = '\r' ∨ c = '\n' := by simpa [isSpace, or_assoc] using hc
  rcases this with rfl | rfl | rfl <;> (rw [gluedTo_cons]; decide)

/-- what an atom stops at is no name character -/
theorem gluedTo_stop {tight : Bool} {rest : Input} (h : Stop tight rest = true) :
    gluedTo rest = false := by
  cases rest with
  | nil => rfl
  | cons c cs =>
    have hc : c = ' ' ∨ c = '\r' ∨ c = '\n' ∨ c = ')' ∨ c = '&' ∨ c = '|' ∨ c = '^' := by
      simp only [Stop, isSpace, symStart, Bool.or_eq_true, Bool.and_eq_true, decide_eq_true_eq,
        beq_iff_eq] at h
      rcases h with ((((h | h) | h) | h) | ⟨_, ((h | h) | h)⟩) <;> simp [h]
    rcases hc with rfl | rfl | rfl | rfl | rfl | rfl | rfl <;> (rw [gluedTo_cons]; decide)

theorem gluedTo_append {t : Input} (ht : Solid t) (x : Input) : gluedTo (t ++ x) = gluedTo t := by
  obtain ⟨c, cs, rfl, _⟩ := ht
  rfl

/-- **`lex_unary_op` on a rendered operator**: any alias, any layout, glued only where `glueOk`
allows; `hrun` = the continuation does not extend the run of name characters of the operand -/
theorem lexUnary_rendered (env : PEnv) {al : String} (hal : (al, ()) ∈ unaryOps)
    {ws t rest : Input} (hws : Layout ws = true) (hg : glueOk env al ws t = true)
    (ht : Solid t) (hrun : nameRun (t ++ rest) = nameRun t) :
    lexUnary env (al.toList ++ (ws ++ (t ++ rest))) = some ((), ws ++ (t ++ rest)) := by
  simp only [unaryOps, List.mem_cons, Prod.mk.injEq, and_true, List.not_mem_nil, or_false] at hal
  rcases hal with rfl | rfl
  · refine (lexUnary_eq_some_iff env _ _ ()).mpr (.inr ⟨rfl, ?_⟩)
    cases ws with
    | cons w ws' => exact .inl (gluedTo_space (layout_iff.mp hws w (by simp)) _)
    | nil =>
      simp only [glueOk, List.isEmpty_nil, Bool.not_true, Bool.false_or, bne_self_eq_false,
        Bool.or_eq_true, Bool.not_eq_true', Option.isNone_iff_eq_none] at hg
      rw [List.nil_append]
      rcases hg with hg | hg
      · left; rw [gluedTo_append ht]; exact hg
      · right
        apply isRegistered_false_of_get
        have e : "not".toList ++ (t ++ rest) = ("not".toList ++ t) ++ rest := by simp
        have hn : ∀ c ∈ "not".toList, (isIdentChar c || c == '.') = true := by decide
        rw [nameRun_append_all hn, hrun, ← nameRun_append_all hn]
        exact hg
  · exact lexUnary_bang env _

/-- for a scheme none of whose names begins with `not`, `glueOk` always holds -/
theorem glueOk_of_no_not_names (env : PEnv)
    (h : ∀ name, (env.scheme.get name).isSome = true → "not".toList.isPrefixOf name = false)
    (al : String) (ws t : Input) : glueOk env al ws t = true := by
  unfold glueOk
  by_cases hal : al = "not"
  · subst hal
    have hn : ∀ c ∈ "not".toList, (isIdentChar c || c == '.') = true := by decide
    cases hg : env.scheme.get (nameRun ("not".toList ++ t)) with
    | none => simp
    | some id =>
      have := h _ (by rw [hg]; rfl)
      rw [nameRun_append_all hn] at this
      simp at this
  · simp [hal]

theorem simpleL_unary (env : PEnv) (lw : Level) (al : String) (hal : (al, ()) ∈ unaryOps)
    {ws t rest : Input} (hws : Layout ws = true) (hg : glueOk env al ws t = true)
    (ht : Solid t) (hrun : nameRun (t ++ rest) = nameRun t) :
    simpleL env (some lw) (al.toList ++ (ws ++ (t ++ rest))) =
      match lw.simple (skipSpace (ws ++ (t ++ rest))) with
      | .error e => .error e
      | .ok (e, r) => .ok ({ node := .unaryNot e.node, ty := e.ty }, r) := by
  refine simpleL_unaryOp env lw ?_ (lexUnary_rendered env hal hws hg ht hrun)
  simp only [unaryOps, List.mem_cons, Prod.mk.injEq, and_true, List.not_mem_nil, or_false] at hal
  rcases hal with rfl | rfl <;> simp [expect, stripPrefix]

theorem unary_solid {al : String} (hal : (al, ()) ∈ unaryOps) (x : Input) :
    Solid (al.toList ++ x) := by
  simp only [unaryOps, List.mem_cons, Prod.mk.injEq, and_true, List.not_mem_nil, or_false] at hal
  rcases hal with rfl | rfl
  · exact ⟨'n', 'o' :: 't' :: x, rfl, by decide⟩
  · exact ⟨'!', x, rfl, by decide⟩

theorem unary_length {al : String} (hal : (al, ()) ∈ unaryOps) : 0 < al.toList.length := by
  simp only [unaryOps, List.mem_cons, Prod.mk.injEq, and_true, List.not_mem_nil, or_false] at hal
  rcases hal with rfl | rfl <;> decide

theorem simpleL_paren (env : PEnv) (lw : Level) (x : Input) :
    simpleL env (some lw) ('(' :: x) =
      match lw.logical (skipSpace x) with
      | .error e => .error e
      | .ok (e, r) =>
        match expect (skipSpace r) ")" with
        | some r2 => .ok ({ node := .paren e.node, ty := e.ty }, r2)
        | none => errAt .expectedLiteral (skipSpace r) := by
  simp [simpleL, expect, stripPrefix]
  rfl

theorem noOp_close (ws rest : Input) (h : Layout ws = true) : NoOp (ws ++ ')' :: rest) = true := by
  unfold NoOp
  rw [skipSpace_layout h, skipSpace_cons_of_not_space _ (by decide)]
  simp [lexEnum, logicalOps, expect, stripPrefix]

theorem stop_layout_close (tight : Bool) (ws rest : Input) (h : Layout ws = true) :
    Stop tight (ws ++ ')' :: rest) = true := by
  cases ws with
  | nil => simp [Stop]
  | cons c ws =>
    have : isSpace c = true := layout_iff.mp h c (by simp)
    simp [Stop, this]

theorem expect_close (ws rest : Input) (h : Layout ws = true) :
    expect (skipSpace (ws ++ ')' :: rest)) ")" = some rest := by
  rw [skipSpace_layout h, skipSpace_cons_of_not_space _ (by decide)]
  simp [expect, stripPrefix]

/-! ### combining operators -/

theorem noOp_lex {rest : Input} (h : NoOp rest = true) : lexCombiningOp rest = (none, rest) := by
  unfold NoOp at h
  unfold lexCombiningOp
  cases hl : lexEnum logicalOps (skipSpace rest) with
  | none => rfl
  | some p => simp [hl] at h

theorem logical_length {al : String} {o : LogicalOp} (hal : (al, o) ∈ logicalOps) :
    0 < al.toList.length := by
  simp only [logicalOps, List.mem_cons, Prod.mk.injEq, List.not_mem_nil, or_false] at hal
  rcases hal with ⟨rfl, _⟩ | ⟨rfl, _⟩ | ⟨rfl, _⟩ | ⟨rfl, _⟩ | ⟨rfl, _⟩ | ⟨rfl, _⟩ <;> decide

/-- a rendered operator: layout, any alias, layout, then something solid -/
theorem lexCombiningOp_rendered {al : String} {o : LogicalOp} (hal : (al, o) ∈ logicalOps)
    {ws₁ ws₂ s : Input} (h₁ : Layout ws₁ = true) (h₂ : Layout ws₂ = true) (hs : Solid s) :
    lexCombiningOp (ws₁ ++ (al.toList ++ (ws₂ ++ s))) = (some o, s) := by
  have := lexCombiningOp_layout al o hal ws₁ ws₂ s (layout_iff.mp h₁) (layout_iff.mp h₂) hs.head
  simpa [List.append_assoc] using this

/-- what follows an operand that ends with an atom, when an operator is rendered next -/
theorem stop_of_sepOk {tight b : Bool} {ws : Input} {al : String} {o : LogicalOp}
    (hal : (al, o) ∈ logicalOps) (hws : Layout ws = true) (h : sepOk tight b ws al = true)
    (hb : b = true) (x : Input) : Stop tight (ws ++ (al.toList ++ x)) = true := by
  subst hb
  cases ws with
  | cons c ws =>
    have : isSpace c = true := layout_iff.mp hws c (by simp)
    simp [Stop, this]
  | nil =>
    simp only [sepOk, Bool.not_true, List.isEmpty_nil, Bool.false_or, Bool.and_eq_true] at h
    obtain ⟨ht, hsym⟩ := h
    subst ht
    simp only [logicalOps, List.mem_cons, Prod.mk.injEq, List.not_mem_nil, or_false] at hal
    rcases hal with ⟨rfl, _⟩ | ⟨rfl, _⟩ | ⟨rfl, _⟩ | ⟨rfl, _⟩ | ⟨rfl, _⟩ | ⟨rfl, _⟩ <;>
      first
      | (exfalso; revert hsym; decide)
      | rfl

/-! ### `level` -/

theorem level_eq (env : PEnv) (n : Nat) : level env n = mkLevel env (lowerOf env n) := by
  cases n <;> rfl

theorem level_logical (env : PEnv) (n : Nat) :
    (level env n).logical = logicalL env (lowerOf env n) := by rw [level_eq]; rfl

theorem level_simple (env : PEnv) (n : Nat) :
    (level env n).simple = simpleL env (lowerOf env n) := by rw [level_eq]; rfl

theorem simpleL_shrinks (env : PEnv) (n : Nat) :
    ∀ inp e r', simpleL env (lowerOf env n) inp = .ok (e, r') → r'.length ≤ inp.length :=
  fun inp e r' h => Nat.le_of_lt ((simpleL_good (lowerOf_good env n) inp).2.2 e r' h)

/-- `LogicalExpr::lex_with` = first operand, then the layered tree of what unfolds
(`logical_layered` of C01, restated over the lemma layer) -/
theorem logicalL_layered (env : PEnv) (n : Nat) (input rest₀ fin : Input)
    (e₀ : Typed LExpr) (items : List Item)
    (h₀ : simpleL env (lowerOf env n) input = .ok (e₀, rest₀))
    (hnc₀ : isCombining e₀.node = false)
    (hnc : ∀ it ∈ items, isCombining it.2.node = false)
    (hty : ∀ it ∈ items, logicalTypesOk e₀.ty it.2.ty = true)
    (hU : Unfolds (simpleL env (lowerOf env n)) rest₀ items fin) :
    logicalL env (lowerOf env n) input =
      .ok ({ node := layered e₀.node (nodesOf items), ty := e₀.ty }, fin) := by
  unfold logicalL
  simp only [h₀]
  have hlen := unfolds_length (simpleL_shrinks env n) hU
  rw [climb_Lv _ _ e₀ items rest₀ fin hnc₀ hnc hty hU (by omega), Lv_zero_eq_layered]

end WfModel.Render
