import WfModel.Lemmas.Render.Main

/-!
# A concrete instance of `GoodAtom`: boolean fields with one-letter names

Used by the non-vacuity examples of `Props/C07Render.lean` / `Props/C01.lean`.
Helper lemmas only.
-/
namespace WfModel.Render

open WfModel

/-- a continuation that ends an identifier and starts no index: end of input, or a character
that is neither an identifier character nor `.` nor `[` -/
def IdStop : Input → Bool
  | [] => true
  | c :: _ => !isIdentChar c && c != '.' && c != '['

theorem idStop_cons (c : Char) (cs : Input) :
    IdStop (c :: cs) = (!isIdentChar c && c != '.' && c != '[') := rfl

theorem stop_idStop {tight : Bool} {rest : Input} (h : Stop tight rest = true) :
    IdStop rest = true := by
  cases rest with
  | nil => rfl
  | cons c cs =>
    have hc : c = ' ' ∨ c = '\r' ∨ c = '\n' ∨ c = ')' ∨ c = '&' ∨ c = '|' ∨ c = '^' := by
      simp only [Stop, isSpace, symStart, Bool.or_eq_true, Bool.and_eq_true, decide_eq_true_eq,
        beq_iff_eq] at h
      rcases h with ((((h | h) | h) | h) | ⟨_, ((h | h) | h)⟩) <;> simp [h]
    rcases hc with rfl | rfl | rfl | rfl | rfl | rfl | rfl <;>
      (rw [idStop_cons]; decide)

/-- a one-letter boolean field followed by an `IdStop` continuation is read as the bare field
(`ComparisonOpExpr::IsTrue`) at every nesting level -/
theorem boolField_parses (env : PEnv) (lower : Option Level) (c0 : Char) (i : Nat)
    (hc0 : isIdentChar c0 = true) (hget : env.scheme.get [c0] = some (.field i))
    (hty : env.scheme.fieldTy i = .bool) (rest : Input) (h : IdStop rest = true) :
    comparisonL env lower (c0 :: rest) =
      .ok ({ node := .comparison (.field i []) .isTrue, ty := .bool }, rest) := by
  have harith : ∀ n : Nat, n + 1 + 1 - (n + 1) = 1 := by intro n; omega
  cases rest with
  | nil =>
    simp [comparisonL, indexExprL, lexIdentifier, identRest, takeWhile1, spanWhile, hc0, expect,
      stripPrefix, hget, lexIndexes, hty, cmpWithLhs, mapEachCount, IExpr.indexes]
  | cons c cs =>
    simp only [IdStop, Bool.and_eq_true, Bool.not_eq_true', bne_iff_ne, ne_eq] at h
    obtain ⟨⟨hc, hdot⟩, hbr⟩ := h
    simp [comparisonL, indexExprL, lexIdentifier, identRest, takeWhile1, spanWhile, hc0, hc, expect,
      stripPrefix, hdot, hbr, harith, hget, lexIndexes, hty, cmpWithLhs, mapEachCount, IExpr.indexes]

/-! ### the instance: scheme `a : Bool`, `b : Bool` -/

inductive AB | a | b
deriving DecidableEq, Repr

def exEnv : PEnv :=
  { scheme := { fields := [⟨['a'], .bool, false⟩, ⟨['b'], .bool, false⟩], funcs := [], lists := [] },
    st := {} }

def exAtoms : Atoms AB :=
  { txt := fun x => match x with | .a => ['a'] | .b => ['b'],
    node := fun x => match x with
      | .a => .comparison (.field 0 []) .isTrue
      | .b => .comparison (.field 1 []) .isTrue }

theorem idStop_noUnary (env : PEnv) (c0 : Char) (h0 : c0 ≠ 'n') (h1 : c0 ≠ '!') (rest : Input) :
    lexUnary env (c0 :: rest) = none := by
  apply lexUnary_none_of_enum
  simp [lexEnum, unaryOps, expect, stripPrefix, h0, h1]

theorem idStop_noQuant (c0 : Char) (h0 : c0 ≠ 'a') (rest : Input) :
    lexQuantCall (c0 :: rest) = none := by
  simp [lexQuantCall, lexEnum, quantOps, expect, stripPrefix, h0]

/-- a one-letter text `a` is not the start of `any`/`all` before an atom continuation -/
theorem a_noQuant {tight : Bool} (rest : Input) (h : Stop tight rest = true) :
    lexQuantCall ('a' :: rest) = none := by
  have := stop_idStop h
  cases rest with
  | nil => simp [lexQuantCall, lexEnum, quantOps, expect, stripPrefix]
  | cons c cs =>
    simp only [IdStop, Bool.and_eq_true, Bool.not_eq_true', bne_iff_ne, ne_eq] at this
    obtain ⟨⟨hc, _⟩, _⟩ := this
    have h1 : c ≠ 'n' := by rintro rfl; revert hc; decide
    have h2 : c ≠ 'l' := by rintro rfl; revert hc; decide
    simp [lexQuantCall, lexEnum, quantOps, expect, stripPrefix, h1, h2]

theorem exAtoms_good (tight : Bool) : ∀ x : AB, GoodAtom exEnv exAtoms tight x := by
  intro x
  cases x with
  | a =>
    exact
      { parses := fun n rest h =>
          boolField_parses exEnv (lowerOf exEnv n) 'a' 0 (by decide) (by decide) (by decide) rest
            (stop_idStop h)
        noUnary := fun rest _ => idStop_noUnary _ 'a' (by decide) (by decide) rest
        noQuant := fun rest h => a_noQuant rest h
        notCombining := rfl }
  | b =>
    exact
      { parses := fun n rest h =>
          boolField_parses exEnv (lowerOf exEnv n) 'b' 1 (by decide) (by decide) (by decide) rest
            (stop_idStop h)
        noUnary := fun rest _ => idStop_noUnary _ 'b' (by decide) (by decide) rest
        noQuant := fun rest _ => idStop_noQuant 'b' (by decide) rest
        notCombining := rfl }

/-! ### concrete renderings of one skeleton -/

theorem Renders.cast {α : Type} {env : PEnv} {A : Atoms α} {tight : Bool} {sk : Sk α}
    {s s' : Input} (h : Renders env A tight sk s) (e : s = s') : Renders env A tight sk s' := e ▸ h

/-- the skeleton of `not a and (b or a) xor b` -/
def exSk : Sk AB :=
  .chain (.not (.atom .a))
    [(.and, .paren (.chain (.atom .b) [(.or, .atom .a)])), (.xor, .atom .b)]

def exText₁ : Input := "not a and (b or a) xor b".toList
def exText₂ : Input := "!a&&(\n b||a )^^b".toList
def exText₃ : Input := "nota  and( b ||a)\r\n  xorb".toList

/-- word aliases, single spaces -/
theorem exRenders₁ : Renders exEnv exAtoms true exSk exText₁ :=
  Renders.cast
    (.chain (.not "not" [' '] (by decide) rfl rfl (.atom AB.a))
      (.cons (o := .and) [' '] "and" [' '] rfl (by decide) rfl rfl
        (.paren [] [] rfl rfl
          (.chain (.atom AB.b)
            (.cons (o := .or) [' '] "or" [' '] rfl (by decide) rfl rfl (.atom AB.a) (.nil _))))
        (.cons (o := .xor) [' '] "xor" [' '] rfl (by decide) rfl rfl (.atom AB.b) (.nil _))))
    rfl

/-- symbolic aliases, no space around them (needs `tight`), a newline inside the parentheses -/
theorem exRenders₂ : Renders exEnv exAtoms true exSk exText₂ :=
  Renders.cast
    (.chain (.not "!" [] (by decide) rfl (by decide) (.atom AB.a))
      (.cons (o := .and) [] "&&" [] rfl (by decide) rfl rfl
        (.paren ['\n', ' '] [' '] rfl rfl
          (.chain (.atom AB.b)
            (.cons (o := .or) [] "||" [] rfl (by decide) rfl rfl (.atom AB.a) (.nil _))))
        (.cons (o := .xor) [] "^^" [] rfl (by decide) rfl rfl (.atom AB.b) (.nil _))))
    rfl

/-- no space AFTER word operators (`nota`, `and(`, `xorb`), mixed aliases, CR LF; `nota` is
`not a` because the scheme has no name `nota` (`glueOk`, decided) -/
theorem exRenders₃ : Renders exEnv exAtoms true exSk exText₃ :=
  Renders.cast
    (.chain (.not "not" [] (by decide) rfl (by decide) (.atom AB.a))
      (.cons (o := .and) [' ', ' '] "and" [] rfl (by decide) rfl rfl
        (.paren [' '] [] rfl rfl
          (.chain (.atom AB.b)
            (.cons (o := .or) [' '] "||" [] rfl (by decide) rfl rfl (.atom AB.a) (.nil _))))
        (.cons (o := .xor) ['\r', '\n', ' ', ' '] "xor" [] rfl (by decide) rfl rfl (.atom AB.b)
          (.nil _))))
    rfl

/-- the eight-operand chain of the engine's test-suite, over the atoms `a`, `b` -/
def exSk8 : Sk AB :=
  .chain (.atom .a)
    [(.or, .atom .b), (.and, .atom .a), (.and, .atom .b), (.or, .atom .a), (.xor, .atom .b),
     (.and, .atom .a), (.or, .atom .b)]

def exText8 : Input := "a or b && a and b or a ^^ b and a || b".toList

theorem exRenders8 : Renders exEnv exAtoms false exSk8 exText8 :=
  Renders.cast
    (.chain (.atom AB.a)
      (.cons (o := .or) [' '] "or" [' '] rfl (by decide) rfl rfl (.atom AB.b)
      (.cons (o := .and) [' '] "&&" [' '] rfl (by decide) rfl rfl (.atom AB.a)
      (.cons (o := .and) [' '] "and" [' '] rfl (by decide) rfl rfl (.atom AB.b)
      (.cons (o := .or) [' '] "or" [' '] rfl (by decide) rfl rfl (.atom AB.a)
      (.cons (o := .xor) [' '] "^^" [' '] rfl (by decide) rfl rfl (.atom AB.b)
      (.cons (o := .and) [' '] "and" [' '] rfl (by decide) rfl rfl (.atom AB.a)
      (.cons (o := .or) [' '] "||" [' '] rfl (by decide) rfl rfl (.atom AB.b)
      (.nil _)))))))))
    rfl

end WfModel.Render
