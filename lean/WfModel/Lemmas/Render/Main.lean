import WfModel.Lemmas.Render.Lex

/-!
# `parse_render_logical`, layers 3–4: `Unfolds` for a rendered chain, assembly by induction on
the length of the rendering. Helper lemmas only; the property statements are in
`Props/C07Render.lean`.
-/
namespace WfModel.Render

open WfModel WfModel.C07L

variable {α : Type}

section
variable {env : PEnv} {A : Atoms α} {tight : Bool}

/-! ### shape of renderings -/

theorem RendersSimple.solid (hA : ∀ a, GoodAtom env A tight a) {sk : Sk α} {t : Input}
    (h : RendersSimple env A tight sk t) : Solid t := by
  cases h with
  | atom a => exact (hA a).solid
  | not al ws hal _ _ _ => exact unary_solid hal _
  | paren ws₁ ws₂ _ _ _ => exact ⟨'(', _, rfl, by decide⟩

theorem Renders.solid (hA : ∀ a, GoodAtom env A tight a) {sk : Sk α} {t : Input}
    (h : Renders env A tight sk t) : Solid t := by
  cases h with
  | simple hs => exact hs.solid hA
  | chain hf _ => exact (hf.solid hA).append _

theorem RendersSimple.notCombining (hA : ∀ a, GoodAtom env A tight a) {sk : Sk α} {t : Input}
    (h : RendersSimple env A tight sk t) : isCombining (canon A sk) = false := by
  cases h with
  | atom a => exact (hA a).notCombining
  | not al ws _ _ _ _ => rfl
  | paren ws₁ ws₂ _ _ _ => rfl

/-- a simple rendering that does not end with an atom contains a `)` (it ends with one) -/
theorem RendersSimple.mem_paren : ∀ (sk : Sk α) (t : Input), RendersSimple env A tight sk t →
    endsAtom sk = false → ')' ∈ t
  | .atom _, _, _, he => by simp [endsAtom] at he
  | .not s, _, h, he => by
    cases h with
    | not al ws _ _ _ hx =>
      have := RendersSimple.mem_paren s _ hx (by simpa [endsAtom] using he)
      simp [this]
  | .paren _, _, h, _ => by
    cases h with
    | paren ws₁ ws₂ _ _ _ => simp
  | .chain _ _, _, h, _ => by cases h

/-- what may follow a simple rendering does not extend its first run of name characters -/
theorem RendersSimple.nameRun_stop {sk : Sk α} {t : Input} (h : RendersSimple env A tight sk t)
    (rest : Input) (hrest : endsAtom sk = true → Stop tight rest = true) :
    nameRun (t ++ rest) = nameRun t := by
  cases he : endsAtom sk with
  | true => exact nameRun_append_stop t (gluedTo_stop (hrest he))
  | false => exact nameRun_append_mem (RendersSimple.mem_paren sk t h he) (by decide) rest

theorem nodesOf_itemsOf (A : Atoms α) (r : List (LogicalOp × Sk α)) :
    nodesOf (itemsOf A r) = canonRest A r := by
  unfold nodesOf itemsOf
  generalize canonRest A r = l
  induction l with
  | nil => rfl
  | cons p l ih => simp only [List.map_cons, ih]

theorem itemsOf_cons (A : Atoms α) (o : LogicalOp) (s : Sk α) (r : List (LogicalOp × Sk α)) :
    itemsOf A ((o, s) :: r) = (o, { node := canon A s, ty := .bool }) :: itemsOf A r := rfl

theorem itemsOf_ty (A : Atoms α) (r : List (LogicalOp × Sk α)) :
    ∀ it ∈ itemsOf A r, logicalTypesOk .bool it.2.ty = true := by
  intro it hit
  simp only [itemsOf, List.mem_map] at hit
  obtain ⟨p, _, rfl⟩ := hit
  rfl

theorem tail_notCombining (hA : ∀ a, GoodAtom env A tight a) :
    ∀ (r : List (LogicalOp × Sk α)) (b : Bool) (u : Input), RendersTail env A tight b r u →
      ∀ it ∈ itemsOf A r, isCombining it.2.node = false := by
  intro r
  induction r with
  | nil => intro b u _ it hit; simp [itemsOf, canonRest] at hit
  | cons p r ih =>
    intro b u h it hit
    obtain ⟨o, s⟩ := p
    cases h with
    | cons ws₁ al ws₂ _ _ _ _ hs ht =>
      rw [itemsOf_cons] at hit
      rcases List.mem_cons.mp hit with rfl | hit
      · exact hs.notCombining hA
      · exact ih _ _ ht it hit

/-- what follows the operand before a rendered tail -/
theorem tail_stop {r : List (LogicalOp × Sk α)} {b : Bool} {u : Input}
    (h : RendersTail env A tight b r u) (rest : Input)
    (hrest : lastEnds b r = true → Stop tight rest = true) (hb : b = true) :
    Stop tight (u ++ rest) = true := by
  cases h with
  | nil => exact hrest hb
  | cons ws₁ al ws₂ h1 hal _ hsep _ _ =>
    simp only [List.append_assoc]
    exact stop_of_sepOk hal h1 hsep hb _

/-! ### the two statements proved together -/

/-- `lex_simple_expr` on renderings shorter than `K` -/
def SimpleOK (env : PEnv) (A : Atoms α) (tight : Bool) (K : Nat) : Prop :=
  ∀ (sk : Sk α) (t : Input), t.length < K → RendersSimple env A tight sk t →
    ∀ n, depth sk ≤ n → ∀ rest, (endsAtom sk = true → Stop tight rest = true) →
      simpleL env (lowerOf env n) (t ++ rest) = .ok ({ node := canon A sk, ty := .bool }, rest)

/-- `lex_with` on renderings shorter than `K` -/
def LogicalOK (env : PEnv) (A : Atoms α) (tight : Bool) (K : Nat) : Prop :=
  ∀ (sk : Sk α) (t : Input), t.length < K → Renders env A tight sk t →
    ∀ n, depth sk ≤ n → ∀ rest, Admissible tight sk rest →
      logicalL env (lowerOf env n) (t ++ rest) = .ok ({ node := canon A sk, ty := .bool }, rest)

/-- layer 3: a rendered tail unfolds into its operands -/
theorem tail_unfolds (hA : ∀ a, GoodAtom env A tight a) (K : Nat)
    (hS : SimpleOK env A tight K) (n : Nat) :
    ∀ (r : List (LogicalOp × Sk α)) (b : Bool) (u : Input), RendersTail env A tight b r u →
      u.length < K → depthRest r ≤ n →
      ∀ rest, (lastEnds b r = true → Stop tight rest = true) → NoOp rest = true →
        Unfolds (simpleL env (lowerOf env n)) (u ++ rest) (itemsOf A r) rest := by
  intro r
  induction r with
  | nil =>
    intro b u h _ _ rest _ hno
    cases h
    have := noOp_lex hno
    exact Unfolds.done (by rw [List.nil_append, this])
  | cons p r ih =>
    intro b u h hlen hd rest hrest hno
    obtain ⟨o, s⟩ := p
    cases h with
    | @cons _ _ _ _ t u' ws₁ al ws₂ h1 hal h2 hsep hs ht =>
      have hd1 : depth s ≤ n := Nat.le_trans (Nat.le_max_left _ _) hd
      have hd2 : depthRest r ≤ n := Nat.le_trans (Nat.le_max_right _ _) hd
      simp only [List.length_append] at hlen
      have hsol : Solid (t ++ (u' ++ rest)) := (hs.solid hA).append _
      have e : ws₁ ++ (al.toList ++ (ws₂ ++ (t ++ u'))) ++ rest =
          ws₁ ++ (al.toList ++ (ws₂ ++ (t ++ (u' ++ rest)))) := by simp [List.append_assoc]
      rw [e, itemsOf_cons]
      refine Unfolds.step (r' := u' ++ rest) (lexCombiningOp_rendered hal h1 h2 hsol) ?_ ?_
      · exact hS s t (by omega) hs n hd1 (u' ++ rest) (fun hb => tail_stop ht rest hrest hb)
      · exact ih _ _ ht (by omega) hd2 rest hrest hno

theorem lowerOf_succ (env : PEnv) (m : Nat) : lowerOf env (m + 1) = some (level env m) := rfl

/-- layer 4 -/
theorem all_ok (hA : ∀ a, GoodAtom env A tight a) :
    ∀ K, SimpleOK env A tight K ∧ LogicalOK env A tight K := by
  intro K
  induction K with
  | zero => exact ⟨fun _ _ h => absurd h (Nat.not_lt_zero _), fun _ _ h => absurd h (Nat.not_lt_zero _)⟩
  | succ K ih =>
    obtain ⟨ihS, ihL⟩ := ih
    have hS : SimpleOK env A tight (K + 1) := by
      intro sk t hlen h n hd rest hstop
      cases h with
      | atom a => exact (hA a).simple n rest (hstop rfl)
      | @not s t' al ws hal hws hglue hx =>
        have hd' : depth s + 1 ≤ n := hd
        obtain ⟨m, rfl⟩ : ∃ m, n = m + 1 := ⟨n - 1, by omega⟩
        have hl := unary_length hal
        simp only [List.length_append] at hlen
        rw [lowerOf_succ, List.append_assoc, List.append_assoc,
          simpleL_unary env _ al hal hws hglue (hx.solid hA) (hx.nameRun_stop rest hstop),
          skipSpace_layout_solid hws ((hx.solid hA).append rest), level_simple,
          ihS s t' (by omega) hx m (by omega) rest hstop]
        rfl
      | @paren s t' ws₁ ws₂ h1 h2 hx =>
        have hd' : depth s + 1 ≤ n := hd
        obtain ⟨m, rfl⟩ : ∃ m, n = m + 1 := ⟨n - 1, by omega⟩
        simp only [List.length_append, List.length_cons] at hlen
        have e : '(' :: (ws₁ ++ (t' ++ (ws₂ ++ [')']))) ++ rest =
            '(' :: (ws₁ ++ (t' ++ (ws₂ ++ ')' :: rest))) := by simp [List.append_assoc]
        rw [e, lowerOf_succ, simpleL_paren,
          skipSpace_layout_solid h1 ((hx.solid hA).append _), level_logical,
          ihL s t' (by omega) hx m (by omega) (ws₂ ++ ')' :: rest)
            ⟨fun _ => stop_layout_close tight ws₂ rest h2, noOp_close ws₂ rest h2⟩]
        simp only [expect_close ws₂ rest h2]
        rfl
    refine ⟨hS, ?_⟩
    intro sk t hlen h n hd rest hadm
    cases h with
    | simple hs =>
      unfold logicalL
      rw [hS sk t hlen hs n hd rest hadm.1]
      simp only [noOp_lex hadm.2]
      exact climb_none _ (2 * rest.length + 7) _ _ _
    | @chain f r tf u hf ht =>
      have hd1 : depth f ≤ n := Nat.le_trans (Nat.le_max_left _ _) hd
      have hd2 : depthRest r ≤ n := Nat.le_trans (Nat.le_max_right _ _) hd
      simp only [List.length_append] at hlen
      have h0 := hS f tf (by omega) hf n hd1 (u ++ rest)
        (fun hb => tail_stop ht rest hadm.1 hb)
      have hU := tail_unfolds hA (K + 1) hS n r _ u ht (by omega) hd2 rest hadm.1 hadm.2
      rw [List.append_assoc,
        logicalL_layered env n _ _ rest { node := canon A f, ty := .bool } (itemsOf A r) h0
          (hf.notCombining hA) (tail_notCombining hA r _ u ht) (itemsOf_ty A r) hU,
        nodesOf_itemsOf]
      rfl

end

end WfModel.Render
