import WfModel.Lemmas.C06Ip
import WfModel.Lemmas.C07.Str

/-!
# C06/C07 — std's `Display for Ipv6Addr` (`v6Str`) is read back by `IpAddr::from_str`

`parseIpAddr (v6Str a).toList = some (.v6 a)` for every `a < 2 ^ 128`, through the three
shapes of the printer (`::ffff:a.b.c.d`, `pre::post`, eight plain groups); corollaries:
`v6Str` is injective on 128-bit values (`WfModel.C07.V6StrInjective`, the side condition of
`json_injective`) and `lexIpAddr` reads a printed address back.
-/
namespace WfModel

/-! ### bridges between the printers of `Model/Json.lean` and the renderers of `C06Ip.lean` -/

theorem v6_hexDigitLower_eq (n : Nat) : J.hexDigitLower n = digitChar n := rfl

theorem v6_natDigitChar_eq : ∀ d, d < 16 → Nat.digitChar d = digitChar d := by decide

theorem v6_natToHexLower_eq (n : Nat) : natToHexLower n = digits 16 n := by
  fun_induction natToHexLower n with
  | case1 n h => rw [digits_small h]; rfl
  | case2 n h ih => rw [digits_big (by omega) (by omega), ih]; rfl

theorem v6_toDigits10_eq (n : Nat) : Nat.toDigits 10 n = digits 10 n := by
  induction n using digits.induct 10 with
  | case1 x hx =>
    have hx' : x < 10 := by omega
    rw [digits_small hx', Nat.toDigits_of_lt_base hx', v6_natDigitChar_eq x (by omega)]
  | case2 x hx ih =>
    have hx' : 10 ≤ x := by omega
    rw [digits_big (by omega) hx', Nat.toDigits_of_base_le (by omega) hx', ih,
      v6_natDigitChar_eq _ (by omega)]

theorem v6groups_cons2 (g g' : Nat) (gs : List Nat) :
    v6groups (g :: g' :: gs) = digits 16 g ++ ':' :: v6groups (g' :: gs) := rfl

theorem v6_intercalate_eq : ∀ gs : List Nat,
    [':'].intercalate (gs.map natToHexLower) = v6groups gs
  | [] => by simp [List.intercalate, v6groups]
  | [g] => by simp [List.intercalate, v6groups, v6_natToHexLower_eq]
  | g :: g' :: gs => by
    rw [List.map_cons, List.map_cons, C07L.intercalate_cons_cons, ← List.map_cons,
      v6_intercalate_eq (g' :: gs), v6groups_cons2, v6_natToHexLower_eq]
    simp

theorem v6_groupsStr_toList (gs : List Nat) : (groupsStr gs).toList = v6groups gs := by
  rw [C07L.groupsStr_toList, v6_intercalate_eq]

theorem v6_v4Str_toList (a : Nat) : (v4Str a).toList = dotted a := by
  rw [C07L.v4Str_toList, dotted_eq]
  simp only [v6_toDigits10_eq]

theorem v6_v6Groups_eq (a : Nat) : v6Groups a = v6parts a := by
  simp [v6Groups, v6parts, List.range, List.range.loop]

/-- `v6Str` with its `let`s unfolded -/
theorem v6_v6Str_eq (a : Nat) : v6Str a =
    if ((v6Groups a).take 5 = [0, 0, 0, 0, 0] && (v6Groups a)[5]? = some 0xffff) = true then
      "::ffff:" ++ v4Str (a % 4294967296)
    else if (longestZeroRun (v6Groups a)).2 > 1 then
      groupsStr ((v6Groups a).take (longestZeroRun (v6Groups a)).1) ++ "::" ++
        groupsStr ((v6Groups a).drop
          ((longestZeroRun (v6Groups a)).1 + (longestZeroRun (v6Groups a)).2))
    else groupsStr (v6Groups a) := by
  unfold v6Str
  rfl

/-! ### `read_groups` stops at the end of input or at a `::` -/
/-- nothing to read at slot `i`: neither an embedded IPv4 address nor a group -/
def v6NoCont (i : Nat) (r : Input) : Prop :=
  (readSep i r).bind readV4 = none ∧ (readSep i r).bind (readNum 16 4 true 65535) = none

theorem readGroups_noCont {limit i : Nat} {r : Input} (h : v6NoCont i r) (fuel : Nat) :
    readGroups limit fuel i r = ([], false, r) := by
  cases fuel with
  | zero => rfl
  | succ f =>
    rw [readGroups]
    by_cases h1 : i ≥ limit
    · simp [h1]
    · by_cases h2 : i + 1 < limit <;> simp [h1, h2, h.1, h.2]

theorem v6_readNum_colon (radix m : Nat) (z : Bool) (mv : Nat) (s : Input) :
    readNum radix m z mv (':' :: s) = none := by
  have : isRadixDigit radix ':' = false := by
    have : digitVal ':' = none := by decide
    simp [isRadixDigit, this]
  simp [readNum, spanWhile, this]

theorem v6_readNum_nil (radix m : Nat) (z : Bool) (mv : Nat) :
    readNum radix m z mv [] = none := by
  simp [readNum, spanWhile]

theorem v6_readV4_colon (s : Input) : readV4 (':' :: s) = none := by
  simp [readV4, v6_readNum_colon]

theorem v6_readV4_nil : readV4 [] = none := by
  simp [readV4, v6_readNum_nil]

/-- where `read_groups` stops: end of input or a `::` -/
def v6Stop (r : Input) : Prop := r = [] ∨ ∃ t, r = ':' :: ':' :: t

theorem v6Stop_noCont {r : Input} (h : v6Stop r) (i : Nat) : v6NoCont i r := by
  rcases h with rfl | ⟨t, rfl⟩
  · unfold v6NoCont readSep
    by_cases hi : i = 0 <;> simp [hi, expectChar, v6_readV4_nil, v6_readNum_nil]
  · unfold v6NoCont readSep
    by_cases hi : i = 0 <;> simp [hi, expectChar, v6_readV4_colon, v6_readNum_colon]

theorem v6Stop_headNot {r : Input} (h : v6Stop r) : headNot (isRadixDigit 16) r = true := by
  rcases h with rfl | ⟨t, rfl⟩
  · rfl
  · exact headNot_colon_hex _

theorem v6Stop_nodot {r : Input} (h : v6Stop r) : r.head? ≠ some '.' := by
  rcases h with rfl | ⟨t, rfl⟩ <;> simp

/-- `read_groups` reads rendered groups up to the end of input or a `::` -/
theorem readGroups_v6groups_stop (limit : Nat) : ∀ (gs : List Nat) (fuel i : Nat) (r : Input),
    gs ≠ [] → (∀ g ∈ gs, g < 65536) → i + gs.length ≤ limit → gs.length ≤ fuel →
    v6Stop r →
    readGroups limit fuel i (sepStr i ++ (v6groups gs ++ r)) = (gs, false, r)
  | [], _, _, _, hne, _, _, _, _ => absurd rfl hne
  | [g], fuel, i, r, _, hg, hi, hf, hr => by
    obtain ⟨f, rfl⟩ : ∃ f, fuel = f + 1 := ⟨fuel - 1, by simp at hf; omega⟩
    simp only [List.length_cons, List.length_nil] at hi
    have h1 : ¬ i ≥ limit := by omega
    have hv4 : readV4 (digits 16 g ++ r) = none :=
      readV4_hexrun_none (digits_all_hex (by omega) (by omega) g) (v6Stop_headNot hr)
        (v6Stop_nodot hr)
    rw [readGroups]
    simp only [h1, if_false, readSep_sepStr, v6groups, Option.bind_some, hv4, ite_self,
      readNum_group (hg g (by simp)) (v6Stop_headNot hr),
      readGroups_noCont (v6Stop_noCont hr (i + 1))]
  | g :: g' :: gs, fuel, i, r, _, hg, hi, hf, hr => by
    obtain ⟨f, rfl⟩ : ∃ f, fuel = f + 1 := ⟨fuel - 1, by simp at hf; omega⟩
    simp only [List.length_cons] at hi hf
    have h1 : ¬ i ≥ limit := by omega
    have h2 : i + 1 < limit := by omega
    have ih := readGroups_v6groups_stop limit (g' :: gs) f (i + 1) r (by simp)
      (fun x hx => hg x (by simp [hx])) (by simp only [List.length_cons]; omega)
      (by simp only [List.length_cons]; omega) hr
    have hsep : sepStr (i + 1) = [':'] := by simp [sepStr]
    rw [hsep] at ih
    have hv4 : readV4 (digits 16 g ++ (':' :: (v6groups (g' :: gs) ++ r))) = none :=
      readV4_hexrun_none (digits_all_hex (by omega) (by omega) g) (headNot_colon_hex _)
        (by simp)
    rw [readGroups]
    simp only [h1, h2, if_false, if_true, readSep_sepStr, v6groups_cons2, Option.bind_some,
      List.append_assoc, List.cons_append, hv4,
      readNum_group (hg g (by simp)) (headNot_colon_hex _)]
    simp only [List.singleton_append] at ih
    rw [ih]

/-- slot-0 form, the list of groups may be empty -/
theorem readGroups_v6groups0 {limit fuel : Nat} {gs : List Nat} {r : Input}
    (hg : ∀ g ∈ gs, g < 65536) (hl : gs.length ≤ limit) (hf : gs.length ≤ fuel) (hr : v6Stop r) :
    readGroups limit fuel 0 (v6groups gs ++ r) = (gs, false, r) := by
  cases gs with
  | nil => exact readGroups_noCont (v6Stop_noCont hr 0) fuel
  | cons g gs =>
    have := readGroups_v6groups_stop limit (g :: gs) fuel 0 r (by simp) hg (by omega) hf hr
    simpa [sepStr] using this


theorem v6groups_head_colon : ∀ (gs : List Nat) (r : Input), gs ≠ [] →
    ∃ g t, v6groups gs ++ ':' :: r = digits 16 g ++ ':' :: t
  | [], _, h => absurd rfl h
  | [g], r, _ => ⟨g, r, rfl⟩
  | g :: g' :: gs, r, _ => ⟨g, v6groups (g' :: gs) ++ ':' :: r, by
      rw [v6groups_cons2]; simp⟩

theorem readV4_compressed_none (pre : List Nat) (t : Input) :
    readV4 (v6groups pre ++ ':' :: t) = none := by
  by_cases h : pre = []
  · subst h; exact v6_readV4_colon _
  · obtain ⟨g, t', e⟩ := v6groups_head_colon pre t h
    rw [e]
    exact readV4_hexrun_none (digits_all_hex (by omega) (by omega) g) (headNot_colon_hex _)
      (by simp)

/-- std `read_ipv6_addr` on `pre::post` -/
theorem readV6_compressed {pre post : List Nat} (hpre : ∀ g ∈ pre, g < 65536)
    (hpost : ∀ g ∈ post, g < 65536) (hlen : pre.length + post.length ≤ 7) :
    readV6 (v6groups pre ++ ':' :: ':' :: v6groups post) =
      some (groupsToNat (pre ++ List.replicate (8 - pre.length - post.length) 0 ++ post), []) := by
  have h1 : readGroups 8 8 0 (v6groups pre ++ ':' :: ':' :: v6groups post) =
      (pre, false, ':' :: ':' :: v6groups post) :=
    readGroups_v6groups0 hpre (by omega) (by omega) (Or.inr ⟨_, rfl⟩)
  have h2 : readGroups (8 - (pre.length + 1)) (8 - (pre.length + 1)) 0 (v6groups post) =
      (post, false, []) := by
    have := readGroups_v6groups0 (limit := 8 - (pre.length + 1)) (fuel := 8 - (pre.length + 1))
      (r := []) hpost (by omega) (by omega) (Or.inl rfl)
    rwa [List.append_nil] at this
  have h8 : ¬ pre.length = 8 := by omega
  unfold readV6
  rw [h1]
  simp only [h8, if_false, Bool.false_eq_true, expectChar, if_true, Option.bind_eq_bind,
    Option.bind_some, h2, Option.pure_def]

theorem parseIpAddr_compressed {pre post : List Nat} (hpre : ∀ g ∈ pre, g < 65536)
    (hpost : ∀ g ∈ post, g < 65536) (hlen : pre.length + post.length ≤ 7) :
    parseIpAddr (v6groups pre ++ ':' :: ':' :: v6groups post) =
      some (.v6 (groupsToNat (pre ++ List.replicate (8 - pre.length - post.length) 0 ++ post))) := by
  unfold parseIpAddr
  rw [readV4_compressed_none, readV6_compressed hpre hpost hlen]

/-! ### `longestZeroRun` reports a run of zeros inside the list -/

/-- the reported run lies inside the list and consists of zeros -/
def v6RunOk (full : List Nat) (b : Nat × Nat) : Prop :=
  b.1 + b.2 ≤ full.length ∧ ∀ k, b.1 ≤ k → k < b.1 + b.2 → full[k]? = some 0

/-- the current run ends right before position `i` and consists of zeros -/
def v6CurOk (full : List Nat) (i : Nat) (c : Nat × Nat) : Prop :=
  c.2 = 0 ∨ (c.1 + c.2 = i ∧ ∀ k, c.1 ≤ k → k < i → full[k]? = some 0)

theorem v6CurOk_step {full : List Nat} {i : Nat} {cur : Nat × Nat} (hc : v6CurOk full i cur)
    (hi : full[i]? = some 0) :
    v6CurOk full (i + 1) (if cur.2 = 0 then (i, 1) else (cur.1, cur.2 + 1)) ∧
    (if cur.2 = 0 then (i, 1) else (cur.1, cur.2 + 1)).2 ≠ 0 := by
  by_cases h0 : cur.2 = 0
  · simp only [h0, if_true]
    refine ⟨Or.inr ⟨rfl, fun k h1 h2 => ?_⟩, by simp⟩
    have : k = i := by simp only at h1; omega
    subst this; exact hi
  · simp only [h0, if_false]
    rcases hc with hc | ⟨hc1, hc2⟩
    · exact absurd hc h0
    · refine ⟨Or.inr ⟨by simp only; omega, fun k h1 h2 => ?_⟩, by simp⟩
      by_cases hk : k < i
      · exact hc2 k h1 hk
      · have : k = i := by omega
        subst this; exact hi

theorem longestZeroRun_go_ok (full : List Nat) : ∀ (l pre : List Nat) (cur best : Nat × Nat),
    full = pre ++ l → v6CurOk full pre.length cur →
    v6RunOk full best → v6RunOk full (longestZeroRun.go l pre.length cur best)
  | [], _, _, _, _, _, hb => by rw [longestZeroRun.go]; exact hb
  | g :: r, pre, cur, best, hf, hc, hb => by
    have hfull : full = (pre ++ [g]) ++ r := by simp [hf]
    have hlen : (pre ++ [g]).length = pre.length + 1 := by simp
    have hgi : full[pre.length]? = some g := by simp [hf]
    have hle : pre.length + 1 ≤ full.length := by simp [hf]
    rw [longestZeroRun.go]
    by_cases hg : g = 0
    · rw [hg] at hgi
      obtain ⟨hc', hne⟩ := v6CurOk_step hc hgi
      simp only [hg, if_true]
      generalize (if cur.2 = 0 then (pre.length, 1) else (cur.1, cur.2 + 1)) = c' at hc' hne ⊢
      have hb' : v6RunOk full (if c'.2 > best.2 then c' else best) := by
        by_cases hgt : c'.2 > best.2
        · simp only [hgt, if_true]
          rcases hc' with h | ⟨h1, h2⟩
          · exact absurd h hne
          · exact ⟨by omega, fun k k1 k2 => h2 k k1 (by omega)⟩
        · simp only [hgt, if_false]; exact hb
      have := longestZeroRun_go_ok full r (pre ++ [g]) c' _ hfull (by rw [hlen]; exact hc') hb'
      rw [hlen] at this
      exact this
    · simp only [hg, if_false]
      have := longestZeroRun_go_ok full r (pre ++ [g]) (0, 0) best hfull (Or.inl rfl) hb
      rw [hlen] at this
      exact this

theorem longestZeroRun_ok (gs : List Nat) : v6RunOk gs (longestZeroRun gs) :=
  longestZeroRun_go_ok gs gs [] (0, 0) (0, 0) rfl (Or.inl rfl)
    ⟨by simp, fun k h1 h2 => by simp only at h1 h2; omega⟩

theorem v6_run_decomp (l : List Nat) (st len : Nat) (h : v6RunOk l (st, len)) :
    l = l.take st ++ List.replicate len 0 ++ l.drop (st + len) := by
  obtain ⟨h1, h2⟩ := h
  simp only at h1 h2
  apply List.ext_getElem?
  intro k
  by_cases hk : k < st
  · simp [List.getElem?_append, hk, List.length_take,
      show min st l.length = st by omega]
  · by_cases hk2 : k < st + len
    · rw [h2 k (by omega) hk2]
      simp [List.getElem?_append, List.length_take, show min st l.length = st by omega, hk,
        show k - st < len by omega]
    · simp [List.getElem?_append, List.length_take, show min st l.length = st by omega, hk,
        show ¬ k - st < len by omega]
      congr 1; omega

/-! ### the v4-mapped form `::ffff:a.b.c.d` -/

theorem v6_digits_ffff : digits 16 65535 = ['f', 'f', 'f', 'f'] := by
  rw [digits_big (by omega) (by omega), digits_big (by omega) (by omega),
    digits_big (by omega) (by omega), digits_small (by omega)]
  decide

theorem readGroups_mapped_tail {low : Nat} (h : low < 2 ^ 32) :
    readGroups 7 7 0 (digits 16 65535 ++ ':' :: dotted low) =
      ([65535, low / 65536, low % 65536], true, []) := by
  have hv4 : readV4 (digits 16 65535 ++ ':' :: dotted low) = none :=
    readV4_hexrun_none (digits_all_hex (by omega) (by omega) _) (headNot_colon_hex _) (by simp)
  have hd : readV4 (dotted low) = some (low, []) := by
    have := readV4_dotted h (headNot_nil _)
    rwa [List.append_nil] at this
  have hs1 : readSep 1 (':' :: dotted low) = some (dotted low) := by simp [readSep, expectChar]
  have hs0 : ∀ s, readSep 0 s = some s := fun s => by simp [readSep]
  rw [readGroups]
  simp only [hs0, Option.bind_some, hv4,
    readNum_group (show 65535 < 65536 by omega) (headNot_colon_hex _)]
  rw [readGroups]
  simp [hs1, hd]

theorem parseIpAddr_mapped {low : Nat} (h : low < 2 ^ 32) :
    parseIpAddr ("::ffff:".toList ++ dotted low) = some (.v6 (65535 * 4294967296 + low)) := by
  have e : "::ffff:".toList ++ dotted low = ':' :: ':' :: (digits 16 65535 ++ ':' :: dotted low) := by
    rw [v6_digits_ffff]; rfl
  have h1 : readGroups 8 8 0 (':' :: ':' :: (digits 16 65535 ++ ':' :: dotted low)) =
      ([], false, ':' :: ':' :: (digits 16 65535 ++ ':' :: dotted low)) :=
    readGroups_noCont (v6Stop_noCont (Or.inr ⟨_, rfl⟩) 0) 8
  have h6 : readV6 (':' :: ':' :: (digits 16 65535 ++ ':' :: dotted low)) =
      some (65535 * 4294967296 + low, []) := by
    unfold readV6
    rw [h1]
    simp only [List.length_nil, Nat.zero_add, Nat.reduceSub, expectChar, if_true,
      Option.bind_eq_bind, Option.bind_some, readGroups_mapped_tail h, Option.pure_def,
      Bool.false_eq_true, if_false, Nat.reduceEqDiff]
    simp only [List.length_cons, List.length_nil, groupsToNat, List.replicate, List.nil_append,
      List.cons_append, List.foldl_cons, List.foldl_nil, Option.some.injEq, Prod.mk.injEq,
      and_true, Nat.reduceAdd, Nat.reduceSub]
    omega
  rw [e]
  unfold parseIpAddr
  rw [v6_readV4_colon, h6]

/-! ### the three shapes of `v6Str` -/

theorem v6parts_take_lt (a n : Nat) : ∀ g ∈ (v6parts a).take n, g < 65536 :=
  fun g hg => v6parts_lt a g (List.mem_of_mem_take hg)

theorem v6parts_drop_lt (a n : Nat) : ∀ g ∈ (v6parts a).drop n, g < 65536 :=
  fun g hg => v6parts_lt a g (List.mem_of_mem_drop hg)

/-- shape (1): groups 0–4 are zero and group 5 is `ffff` -/
theorem parseIpAddr_v6Str_mapped {a : Nat} (ha : a < 2 ^ 128)
    (hc : ((v6Groups a).take 5 = [0, 0, 0, 0, 0] && (v6Groups a)[5]? = some 0xffff) = true) :
    parseIpAddr (v6Str a).toList = some (.v6 a) := by
  rw [v6_v6Str_eq, if_pos hc, String.toList_append, v6_v4Str_toList,
    parseIpAddr_mapped (Nat.mod_lt _ (by omega))]
  rw [v6_v6Groups_eq] at hc
  simp only [v6parts, List.take, Bool.and_eq_true, decide_eq_true_eq, List.cons.injEq, and_true,
    Nat.reducePow] at hc
  have h5 : a / 4294967296 % 65536 = 65535 := by simpa using hc.2
  obtain ⟨⟨h0, h1, h2, h3, h4⟩, -⟩ := hc
  simp only [Nat.reducePow] at ha
  congr 2
  omega

/-- shape (2): the longest run of zero groups is longer than one -/
theorem parseIpAddr_v6Str_compressed {a : Nat} (ha : a < 2 ^ 128)
    (hc : ¬ ((v6Groups a).take 5 = [0, 0, 0, 0, 0] && (v6Groups a)[5]? = some 0xffff) = true)
    (hl : (longestZeroRun (v6Groups a)).2 > 1) :
    parseIpAddr (v6Str a).toList = some (.v6 a) := by
  rw [v6_v6Str_eq, if_neg hc, if_pos hl]
  rw [v6_v6Groups_eq] at hl ⊢
  have hok := longestZeroRun_ok (v6parts a)
  generalize longestZeroRun (v6parts a) = b at hl hok ⊢
  obtain ⟨st, len⟩ := b
  simp only at hl ⊢
  have hb : st + len ≤ 8 := hok.1
  have hdec := v6_run_decomp _ st len hok
  have e : ("::" : String).toList = [':', ':'] := rfl
  rw [String.toList_append, String.toList_append, v6_groupsStr_toList, v6_groupsStr_toList, e,
    List.append_assoc]
  have hlt : ((v6parts a).take st).length = st := by
    rw [List.length_take, v6parts_length]; omega
  have hld : ((v6parts a).drop (st + len)).length = 8 - (st + len) := by
    rw [List.length_drop, v6parts_length]
  show parseIpAddr (v6groups _ ++ ':' :: ':' :: v6groups _) = _
  rw [parseIpAddr_compressed (v6parts_take_lt a st) (v6parts_drop_lt a (st + len))
    (by rw [hlt, hld]; omega), hlt, hld,
    show 8 - st - (8 - (st + len)) = len by omega, ← hdec, groupsToNat_v6parts ha]

/-- shape (3): all eight groups -/
theorem parseIpAddr_v6Str_plain {a : Nat} (ha : a < 2 ^ 128)
    (hc : ¬ ((v6Groups a).take 5 = [0, 0, 0, 0, 0] && (v6Groups a)[5]? = some 0xffff) = true)
    (hl : ¬ (longestZeroRun (v6Groups a)).2 > 1) :
    parseIpAddr (v6Str a).toList = some (.v6 a) := by
  rw [v6_v6Str_eq, if_neg hc, if_neg hl, v6_groupsStr_toList, v6_v6Groups_eq]
  exact ip_roundtrip_v6 ha

/-! ### main results -/

/-- std `IpAddr::from_str` reads back what std `Display for Ipv6Addr` prints -/
theorem parseIpAddr_v6Str (a : Nat) (ha : a < 2 ^ 128) :
    parseIpAddr (v6Str a).toList = some (.v6 a) := by
  by_cases hc : ((v6Groups a).take 5 = [0, 0, 0, 0, 0] && (v6Groups a)[5]? = some 0xffff) = true
  · exact parseIpAddr_v6Str_mapped ha hc
  · by_cases hl : (longestZeroRun (v6Groups a)).2 > 1
    · exact parseIpAddr_v6Str_compressed ha hc hl
    · exact parseIpAddr_v6Str_plain ha hc hl

theorem v6Str_injective : ∀ a b, a < 2 ^ 128 → b < 2 ^ 128 → v6Str a = v6Str b → a = b := by
  intro a b ha hb h
  have h1 := parseIpAddr_v6Str a ha
  rw [h, parseIpAddr_v6Str b hb] at h1
  simpa using h1.symm

/-- side condition (4) of `json_injective` -/
theorem v6StrInjective : C07.V6StrInjective := by
  intro a b ha hb h
  simp only [C07.in128, decide_eq_true_eq] at ha hb
  exact v6Str_injective a b ha hb h

/-! ### lexer level -/

theorem v6_ipChar_isIpChar {c : Char} (h : C07L.ipChar c = true) : isIpChar c = true := by
  unfold C07L.ipChar at h
  unfold isIpChar isAsciiHexDigit isAsciiDigit
  simp only [Char.isDigit, Bool.or_eq_true, Bool.and_eq_true, decide_eq_true_eq] at h ⊢
  rcases h with ((h | h) | h) | h
  · exact Or.inl (Or.inl (Or.inl (Or.inl (Or.inl h))))
  · exact Or.inl (Or.inr h)
  · exact Or.inl (Or.inl (Or.inr h))
  · exact Or.inl (Or.inl (Or.inl (Or.inl (Or.inr h))))

theorem v6Str_all_ipchar (a : Nat) : ∀ c ∈ (v6Str a).toList, isIpChar c = true :=
  fun c hc => v6_ipChar_isIpChar (C07L.v6Str_chars a c hc)

theorem v6Str_toList_ne_nil (a : Nat) : (v6Str a).toList ≠ [] := fun h => by
  have := C07L.v6Str_colon a
  rw [h] at this
  cases this

/-- `impl Lex for IpAddr` reads a printed IPv6 address back -/
theorem lexIpAddr_v6Str {a : Nat} {rest : Input} (ha : a < 2 ^ 128)
    (hr : headNot isIpChar rest = true) :
    lexIpAddr ((v6Str a).toList ++ rest) = .ok (.v6 a, rest) := by
  rw [lexIpAddr_of_chunk (v6Str_all_ipchar a) (v6Str_toList_ne_nil a) hr, parseIpAddr_v6Str a ha]

end WfModel
