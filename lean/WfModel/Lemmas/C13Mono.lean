import WfModel.Lemmas.C13Bound
import WfModel.Lemmas.C13Tok
/-!
# C13 — `limit_monotone`: more nesting budget never changes an accepted parse
-/
set_option linter.unusedSimpArgs false
namespace WfModel
open Spec Tok

/-- every success of `a` is the same success of `b` -/
structure Level.Le (a b : Level) : Prop where
  logical : ∀ i r, a.logical i = .ok r → b.logical i = .ok r
  simple : ∀ i r, a.simple i = .ok r → b.simple i = .ok r
  quantArg : ∀ i r, a.quantArg i = .ok r → b.quantArg i = .ok r
  callBody : ∀ k sig i r, a.callBody k sig i = .ok r → b.callBody k sig i = .ok r

/-- a successful `callBody` saw an opening parenthesis -/
def Level.CallParen (lv : Level) : Prop :=
  ∀ k sig i r, lv.callBody k sig i = .ok r → ∃ r1, expect (skipSpace i) "(" = some r1

def LowerLe (lo lo' : Option Level) : Prop :=
  (∀ lw, lo = some lw → ∃ lw', lo' = some lw' ∧ lw.Le lw') ∧
  (∀ lw', lo' = some lw' → lw'.CallParen)

theorem Level.Le.refl (a : Level) : a.Le a :=
  ⟨fun _ _ h => h, fun _ _ h => h, fun _ _ h => h, fun _ _ _ _ h => h⟩

theorem Level.Le.trans {a b c : Level} (h1 : a.Le b) (h2 : b.Le c) : a.Le c :=
  ⟨fun _ _ h => h2.logical _ _ (h1.logical _ _ h), fun _ _ h => h2.simple _ _ (h1.simple _ _ h),
   fun _ _ h => h2.quantArg _ _ (h1.quantArg _ _ h),
   fun _ _ _ _ h => h2.callBody _ _ _ _ (h1.callBody _ _ _ _ h)⟩

theorem indexExprL_mono {env : PEnv} {lo lo' : Option Level} (hl : LowerLe lo lo')
    {i : Input} {r : Typed IExpr × Input} (h : indexExprL env lo i = .ok r) :
    indexExprL env lo' i = .ok r := by
  unfold indexExprL at h ⊢
  split at h
  · cases h
  · rename_i hid; exact h
  · rename_i hid
    try simp only [hid]
    split at h
    · cases h
    · rename_i hf
      try simp only [hf]
      split at h
      · cases h
      · rename_i lw
        obtain ⟨lw', rfl, hle⟩ := hl.1 lw rfl
        simp only []
        split at h
        · cases h
        · rename_i hcb
          rw [hle.callBody _ _ _ _ hcb]; exact h

/-- when the richer level lexes an index expression that the poorer one rejects, the input
starts with an identifier followed by `(` -/
theorem indexExprL_shape {env : PEnv} {lo lo' : Option Level} (hl : LowerLe lo lo')
    {i : Input} {x : Typed IExpr × Input} {e : LexErr}
    (h' : indexExprL env lo' i = .ok x) (h : indexExprL env lo i = .error e) :
    ∃ id rest0 r1, lexIdentifier env.scheme i = .ok (id, rest0) ∧
      expect (skipSpace rest0) "(" = some r1 := by
  unfold indexExprL at h h'
  split at h'
  · cases h'
  · rename_i hid
    simp only [hid] at h
    rw [h'] at h; cases h
  · rename_i fi rest0 hid
    split at h'
    · cases h'
    · split at h'
      · cases h'
      · rename_i lw'
        split at h'
        · cases h'
        · rename_i hcb
          obtain ⟨r1, hr1⟩ := hl.2 lw' rfl _ _ _ _ hcb
          exact ⟨_, _, _, hid, hr1⟩

theorem comparisonL_mono {env : PEnv} {lo lo' : Option Level} (hl : LowerLe lo lo')
    {i : Input} {r : Typed LExpr × Input} (h : comparisonL env lo i = .ok r) :
    comparisonL env lo' i = .ok r := by
  unfold comparisonL at h ⊢
  split at h
  · cases h
  · rename_i hi
    rw [indexExprL_mono hl hi]; exact h

theorem simpleL_mono {env : PEnv} {lo lo' : Option Level} (hl : LowerLe lo lo')
    {i : Input} {r : Typed LExpr × Input} (h : simpleL env lo i = .ok r) :
    simpleL env lo' i = .ok r := by
  unfold simpleL at h ⊢
  split at h
  · rename_i hp
    try simp only [hp]
    split at h
    · cases h
    · rename_i lw
      obtain ⟨lw', rfl, hle⟩ := hl.1 lw rfl
      simp only []
      split at h
      · cases h
      · rename_i hlg
        rw [hle.logical _ _ hlg]; exact h
  · rename_i hp
    try simp only [hp]
    split at h
    · rename_i hu
      try simp only [hu]
      split at h
      · cases h
      · rename_i lw
        obtain ⟨lw', rfl, hle⟩ := hl.1 lw rfl
        simp only []
        split at h
        · cases h
        · rename_i hs
          rw [hle.simple _ _ hs]; exact h
    · rename_i hu
      try simp only [hu]
      split at h
      · rename_i hq
        try simp only [hq]
        split at h
        · cases h
        · rename_i lw
          obtain ⟨lw', rfl, hle⟩ := hl.1 lw rfl
          simp only []
          split at h
          · cases h
          · rename_i hp2
            try simp only [hp2]
            split at h
            · cases h
            · rename_i hqa
              rw [hle.quantArg _ _ hqa]; exact h
      · rename_i hq
        try simp only [hq]
        exact comparisonL_mono hl h

theorem climb_mono (s s' : Input → LexRes (Typed LExpr))
    (hs : ∀ i r, s i = .ok r → s' i = .ok r) (f : Nat) :
    (∀ lhs mp look r, climb s f lhs mp look = .ok r → climb s' f lhs mp look = .ok r) ∧
    (∀ op rhs r0 r, climbInner s f op rhs r0 = .ok r → climbInner s' f op rhs r0 = .ok r) := by
  induction f with
  | zero =>
    constructor
    · intro lhs mp look r h; simp [climb, errAt] at h
    · intro op rhs r0 r h; simp [climbInner, errAt] at h
  | succ f ih =>
    constructor
    · intro lhs mp look r h
      obtain ⟨lo, inp⟩ := look
      cases lo with
      | none => simp only [climb] at h ⊢; exact h
      | some op =>
        simp only [climb] at h ⊢
        split at h
        · cases h
        · rename_i rhs0 r0 hs0
          rw [hs _ _ hs0]
          simp only []
          split at h
          · cases h
          · rename_i rhs rhsRest look hin
            rw [ih.2 _ _ _ _ hin]
            simp only []
            split at h
            · cases h
            · rename_i hc
              rw [if_neg hc]
              exact ih.1 _ _ _ _ h
    · intro op rhs r0 r h
      simp only [climbInner] at h ⊢
      split at h
      · rename_i hc; rw [if_pos hc]; exact h
      · rename_i hc
        rw [if_neg hc]
        split at h
        · cases h
        · rename_i rhs1 r1 hcl
          rw [ih.1 _ _ _ _ hcl]
          exact ih.2 _ _ _ _ h

theorem logicalL_mono {env : PEnv} {lo lo' : Option Level} (hl : LowerLe lo lo')
    {i : Input} {r : Typed LExpr × Input} (h : logicalL env lo i = .ok r) :
    logicalL env lo' i = .ok r := by
  unfold logicalL at h ⊢
  split at h
  · cases h
  · rename_i lhs rest hs
    rw [simpleL_mono hl hs]
    exact (climb_mono _ _ (fun _ _ h => simpleL_mono hl h) _).1 _ _ _ _ h

/-- the argument lexer is monotone except when the poorer level falls back to a literal
where the richer one lexes a call; then what follows the literal kills the argument list -/
theorem argFallback_mono {env : PEnv} {lo lo' : Option Level} (hl : LowerLe lo lo')
    {i : Input} {a : Typed AExpr} {rest : Input} (h : argFallback env lo i = .ok (a, rest)) :
    argFallback env lo' i = .ok (a, rest) ∨ ((∃ v, a.node = .literal v) ∧ BadFollow rest) := by
  unfold argFallback at h ⊢
  split at h
  · rename_i hi
    rw [indexExprL_mono hl hi]; exact Or.inl h
  · rename_i e hi
    cases hi' : indexExprL env lo' i with
    | error e' => simp only []; exact Or.inl h
    | ok x =>
      right
      obtain ⟨id, rest0, r1, hid, hp⟩ := indexExprL_shape hl hi' hi
      split_all h
      all_goals first
        | (rename_i hlit; cases h
           exact ⟨argLit_literal hlit, fallback_follow hid hp hlit⟩)
        | (simp [errAt] at h; done)

theorem argL_mono {env : PEnv} {lo lo' : Option Level} (hl : LowerLe lo lo')
    {i : Input} {a : Typed AExpr} {rest : Input} (h : argL env lo i = .ok (a, rest)) :
    argL env lo' i = .ok (a, rest) ∨ ((∃ v, a.node = .literal v) ∧ BadFollow rest) := by
  unfold argL at h ⊢
  split at h
  · exact argFallback_mono hl h
  · dsimp only at h ⊢
    split at h
    · rename_i hc; rw [if_pos hc]; exact Or.inl h
    · rename_i hc
      rw [if_neg hc]
      split at h
      · rename_i hc2
        rw [if_pos hc2]
        split at h
        · cases h
        · rename_i hlg
          rw [logicalL_mono hl hlg]; exact Or.inl h
      · rename_i hc2
        rw [if_neg hc2]
        split at h
        · rename_i hc3
          rw [if_pos hc3]
          split at h
          · cases h
          · rename_i hi
            rw [indexExprL_mono hl hi]; exact Or.inl h
        · rename_i hc3
          rw [if_neg hc3]
          exact argFallback_mono hl h

theorem callArgsLoop_bad {env : PEnv} {lo : Option Level} {sig : FuncSig} {f : Nat}
    {rest : Input} {args : List AExpr} {ps : List ParamInfo} {ctx : Option Nat}
    {r : (List AExpr × List ParamInfo × Option Nat) × Input}
    (hb : BadFollow rest) (hne : args.length ≠ 0) :
    callArgsLoop env lo sig f (skipSpace rest) args ps ctx ≠ .ok r := by
  intro h
  obtain ⟨c, t, hs, h1, h2⟩ := hb
  cases f with
  | zero => simp [callArgsLoop, errAt] at h
  | succ f =>
    rw [hs] at h
    simp only [callArgsLoop] at h
    rw [if_neg h1] at h
    have hex : expect (c :: t) "," = none := by
      simp [expect, stripPrefix, h2]
    simp [hne, hex, errAt] at h

theorem callArgsLoop_mono {env : PEnv} {lo lo' : Option Level} (hl : LowerLe lo lo')
    (sig : FuncSig) (f : Nat) : ∀ inp args params ctx r,
      callArgsLoop env lo sig f inp args params ctx = .ok r →
      callArgsLoop env lo' sig f inp args params ctx = .ok r := by
  induction f with
  | zero => intro inp args params ctx r h; simp [callArgsLoop, errAt] at h
  | succ f ih =>
    intro inp args params ctx r h
    simp only [callArgsLoop] at h ⊢
    split at h
    · exact h
    · split at h
      · rename_i hc; rw [if_pos hc]; exact h
      · rename_i hc
        rw [if_neg hc]
        split at h
        · cases h
        · rename_i inp1 hcomma
          try simp only [hcomma]
          split at h
          · cases h
          · rename_i a rest harg
            rcases argL_mono hl harg with h' | ⟨⟨v, hv⟩, hbad⟩
            · simp only [h']
              split_all h
              all_goals first
                | (cases h; done)
                | (simp [errAt, errSpan] at h; done)
                | ((repeat' split) <;> first | contradiction | exact ih _ _ _ _ _ h)
            · exfalso
              split_all h
              all_goals first
                | (cases h; done)
                | (simp [errAt, errSpan] at h; done)
                | exact callArgsLoop_bad hbad (by simp) h

theorem callBodyL_mono {env : PEnv} {lo lo' : Option Level} (hl : LowerLe lo lo')
    {k : Nat} {sig : FuncSig} {i : Input} {r : (List AExpr × Option Nat × Ty) × Input}
    (h : callBodyL env lo k sig i = .ok r) : callBodyL env lo' k sig i = .ok r := by
  unfold callBodyL at h ⊢
  dsimp only at h ⊢
  split at h
  · cases h
  · rename_i r1 hp
    try simp only [hp]
    split at h
    · cases h
    · rename_i hloop
      rw [callArgsLoop_mono hl _ _ _ _ _ _ _ hloop]
      exact h

theorem callBodyL_paren {env : PEnv} {lo : Option Level}
    {k : Nat} {sig : FuncSig} {i : Input} {r : (List AExpr × Option Nat × Ty) × Input}
    (h : callBodyL env lo k sig i = .ok r) : ∃ r1, expect (skipSpace i) "(" = some r1 := by
  unfold callBodyL at h
  dsimp only at h
  split at h
  · simp [errAt] at h
  · rename_i r1 hp; exact ⟨r1, hp⟩

theorem quantArgL_mono {env : PEnv} {lo lo' : Option Level} (hl : LowerLe lo lo')
    {i : Input} {r : QArg × Input} (h : quantArgL env lo i = .ok r) :
    quantArgL env lo' i = .ok r := by
  unfold quantArgL at h ⊢
  split at h
  · cases h
  · rename_i a rest harg
    rcases argL_mono hl harg with h' | ⟨⟨v, hv⟩, _⟩
    · rw [h']; exact h
    · exfalso
      simp only [hv] at h
      simp [errSpan] at h

theorem mkLevel_le {env : PEnv} {lo lo' : Option Level} (hl : LowerLe lo lo') :
    (mkLevel env lo).Le (mkLevel env lo') where
  logical := fun _ _ h => logicalL_mono hl h
  simple := fun _ _ h => simpleL_mono hl h
  quantArg := fun _ _ h => quantArgL_mono hl h
  callBody := fun k _ _ _ h => callBodyL_mono hl (k := k) h

theorem mkLevel_callParen (env : PEnv) (lo : Option Level) : (mkLevel env lo).CallParen :=
  fun k _ _ _ h => callBodyL_paren (k := k) h

theorem level_callParen (env : PEnv) (n : Nat) : (level env n).CallParen := by
  rw [level_eq_mkLevel]; exact mkLevel_callParen env _

/-- one more level of budget preserves every successful parse, at all four entry points -/
theorem level_le_succ (env : PEnv) (n : Nat) : (level env n).Le (level env (n + 1)) := by
  induction n with
  | zero =>
    show (mkLevel env none).Le (mkLevel env (some (level env 0)))
    refine mkLevel_le ⟨fun lw h => (by cases h), fun lw' h => ?_⟩
    cases h; exact level_callParen env 0
  | succ n ih =>
    show (mkLevel env (some (level env n))).Le (mkLevel env (some (level env (n + 1))))
    refine mkLevel_le ⟨fun lw h => ?_, fun lw' h => ?_⟩
    · cases h; exact ⟨_, rfl, ih⟩
    · cases h; exact level_callParen env (n + 1)

theorem level_le (env : PEnv) {n m : Nat} (h : n ≤ m) : (level env n).Le (level env m) := by
  induction m with
  | zero => cases Nat.le_zero.mp h; exact Level.Le.refl _
  | succ m ih =>
    rcases Nat.lt_or_eq_of_le h with h | h
    · exact (ih (Nat.le_of_lt_succ h)).trans (level_le_succ env m)
    · subst h; exact Level.Le.refl _

theorem lowerOf_le (env : PEnv) {n m : Nat} (h : n ≤ m) :
    LowerLe (lowerOf env n) (lowerOf env m) := by
  constructor
  · intro lw hlw
    cases n with
    | zero => cases hlw
    | succ n =>
      cases m with
      | zero => omega
      | succ m =>
        simp only [lowerOf, Option.some.injEq] at hlw
        subst hlw
        exact ⟨level env m, rfl, level_le env (by omega)⟩
  · intro lw' hlw
    cases m with
    | zero => cases hlw
    | succ m => simp only [lowerOf, Option.some.injEq] at hlw; subst hlw; exact level_callParen env m

end WfModel
