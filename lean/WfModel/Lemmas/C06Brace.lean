import WfModel.Lemmas.C06Key

/-! Helper lemmas for C06: the brace-list item loop (`types.rs:18-32`, `lex_rhs_values`). -/
namespace WfModel

/-- one list entry: the item's text, the spaces written after it, the value it denotes -/
structure BraceEntry (α : Type) where
  text : List Char
  ws : List Char
  val : α

/-- `item₁ ws₁ item₂ ws₂ … itemₙ wsₙ` -/
def renderBraceBody {α} : List (BraceEntry α) → List Char
  | [] => []
  | e :: r => e.text ++ (e.ws ++ renderBraceBody r)

/-- an item's text starts with a character that is neither a space nor `}` -/
def itemHeadOk : List Char → Bool
  | [] => false
  | c :: _ => !isSpace c && c != '}'

/-- every entry but the last is followed by at least one space -/
def sepOk {α} : List (BraceEntry α) → Bool
  | [] => true
  | [_] => true
  | e :: r => !e.ws.isEmpty && sepOk r

/-- the continuation starts with a space or `}` -/
def SpaceOrCloseHead : Input → Bool
  | [] => false
  | c :: _ => isSpace c || c == '}'

theorem skipSpace_spaces_app (ws s : Input) (h : ∀ c ∈ ws, isSpace c = true) :
    skipSpace (ws ++ s) = skipSpace s := by
  induction ws with
  | nil => rfl
  | cons c ws ih =>
    have hc := h c List.mem_cons_self
    show skipSpace (c :: (ws ++ s)) = _
    rw [skipSpace, hc]
    exact ih (fun d hd => h d (List.mem_cons_of_mem _ hd))

theorem skipSpace_nonspace (c : Char) (s : Input) (h : isSpace c = false) :
    skipSpace (c :: s) = c :: s := by
  rw [skipSpace, h]; rfl

theorem lexBraceGo_render {α} (item : Input → LexRes α) (C : Input → Bool)
    (hC : ∀ t, SpaceOrCloseHead t = true → C t = true)
    (entries : List (BraceEntry α)) (rest : Input) (f : Nat) (ws0 : List Char) (acc : List α)
    (hws0 : ∀ c ∈ ws0, isSpace c = true)
    (hws : ∀ e ∈ entries, ∀ c ∈ e.ws, isSpace c = true)
    (hhead : ∀ e ∈ entries, itemHeadOk e.text = true)
    (hsep : sepOk entries = true)
    (hitem : ∀ e ∈ entries, ∀ tail, C tail = true → item (e.text ++ tail) = .ok (e.val, tail)) :
    lexBraceGo item (f + entries.length + 1) (ws0 ++ (renderBraceBody entries ++ '}' :: rest)) acc =
      .ok (acc ++ entries.map (·.val), rest) := by
  induction entries generalizing ws0 acc with
  | nil =>
    show lexBraceGo item (f + 1) (ws0 ++ ([] ++ '}' :: rest)) acc = _
    rw [List.nil_append, lexBraceGo]
    simp only [skipSpace_spaces_app ws0 _ hws0, skipSpace_nonspace '}' rest (by decide)]
    have : expect ('}' :: rest) "}" = some rest := by
      show stripPrefix ('}' :: rest) ['}'] = _
      simp [stripPrefix]
    simp [this]
  | cons e entries ih =>
    have hh := hhead e List.mem_cons_self
    obtain ⟨c, t, ht⟩ : ∃ c t, e.text = c :: t := by
      cases h : e.text with
      | nil => rw [h] at hh; cases hh
      | cons c t => exact ⟨c, t, rfl⟩
    rw [ht] at hh
    simp only [itemHeadOk, Bool.and_eq_true, Bool.not_eq_true', bne_iff_ne, ne_eq] at hh
    have htail : C (e.ws ++ (renderBraceBody entries ++ '}' :: rest)) = true := by
      apply hC
      cases hw : e.ws with
      | cons w ws' =>
        have := hws e List.mem_cons_self w (by rw [hw]; exact List.mem_cons_self)
        simp [SpaceOrCloseHead, this]
      | nil =>
        cases entries with
        | nil => simp [renderBraceBody, SpaceOrCloseHead]
        | cons e2 r2 =>
          simp only [sepOk, Bool.and_eq_true, Bool.not_eq_true'] at hsep
          rw [hw] at hsep
          simp at hsep
    have hi := hitem e List.mem_cons_self _ htail
    have hsep' : sepOk entries = true := by
      cases entries with
      | nil => rfl
      | cons e2 r2 =>
        simp only [sepOk, Bool.and_eq_true] at hsep
        exact hsep.2
    have := ih e.ws (acc ++ [e.val]) (hws e List.mem_cons_self)
      (fun x hx => hws x (List.mem_cons_of_mem _ hx))
      (fun x hx => hhead x (List.mem_cons_of_mem _ hx)) hsep'
      (fun x hx => hitem x (List.mem_cons_of_mem _ hx))
    have ebody : renderBraceBody (e :: entries) ++ '}' :: rest =
        e.text ++ (e.ws ++ (renderBraceBody entries ++ '}' :: rest)) := by
      simp [renderBraceBody]
    rw [ebody, List.length_cons, ← Nat.add_assoc, lexBraceGo]
    simp only [skipSpace_spaces_app ws0 _ hws0]
    have esk : skipSpace (e.text ++ (e.ws ++ (renderBraceBody entries ++ '}' :: rest))) =
        e.text ++ (e.ws ++ (renderBraceBody entries ++ '}' :: rest)) := by
      rw [ht]; exact skipSpace_nonspace c _ hh.1
    have eex : expect (e.text ++ (e.ws ++ (renderBraceBody entries ++ '}' :: rest))) "}" = none := by
      rw [ht]
      show stripPrefix (c :: _) ['}'] = none
      simp [stripPrefix, hh.2]
    simp only [esk, eex, hi]
    rw [this]
    simp

theorem renderBraceBody_length {α} (entries : List (BraceEntry α))
    (hhead : ∀ e ∈ entries, itemHeadOk e.text = true) :
    entries.length ≤ (renderBraceBody entries).length := by
  induction entries with
  | nil => simp [renderBraceBody]
  | cons e entries ih =>
    have hh := hhead e List.mem_cons_self
    have : 1 ≤ e.text.length := by
      cases h : e.text with
      | nil => rw [h] at hh; cases hh
      | cons c t => simp
    have := ih (fun x hx => hhead x (List.mem_cons_of_mem _ hx))
    simp only [renderBraceBody, List.length_append, List.length_cons]
    omega

/-- **brace lists**: `{ ws₀ item₁ ws₁ … itemₙ wsₙ }` denotes the list of the items' values, for
any item lexer whose round trip holds under a continuation condition `C` that spaces and `}`
satisfy. -/
theorem lexBrace_render {α} (item : Input → LexRes α) (C : Input → Bool)
    (hC : ∀ t, SpaceOrCloseHead t = true → C t = true)
    (entries : List (BraceEntry α)) (rest : Input) (ws0 : List Char)
    (hws0 : ∀ c ∈ ws0, isSpace c = true)
    (hws : ∀ e ∈ entries, ∀ c ∈ e.ws, isSpace c = true)
    (hhead : ∀ e ∈ entries, itemHeadOk e.text = true)
    (hsep : sepOk entries = true)
    (hitem : ∀ e ∈ entries, ∀ tail, C tail = true → item (e.text ++ tail) = .ok (e.val, tail)) :
    lexBrace item ('{' :: (ws0 ++ (renderBraceBody entries ++ '}' :: rest))) =
      .ok (entries.map (·.val), rest) := by
  unfold lexBrace
  have e : expect ('{' :: (ws0 ++ (renderBraceBody entries ++ '}' :: rest))) "{" =
      some (ws0 ++ (renderBraceBody entries ++ '}' :: rest)) := by
    show stripPrefix ('{' :: _) ['{'] = _
    simp [stripPrefix]
  simp only [e]
  have hl := renderBraceBody_length entries hhead
  have hlen : (ws0 ++ (renderBraceBody entries ++ '}' :: rest)).length + 2 =
      ((ws0 ++ (renderBraceBody entries ++ '}' :: rest)).length + 1 - entries.length) +
        entries.length + 1 := by
    simp only [List.length_append, List.length_cons]; omega
  rw [hlen, lexBraceGo_render item C hC entries rest _ ws0 [] hws0 hws hhead hsep hitem]
  simp

/-! ### instance: a list of decimal integers -/

def intEntries (vs : List Int) : List (BraceEntry (Int × Int)) :=
  vs.map fun v => { text := renderDec v, ws := [' '], val := (v, v) }

/-- continuation condition under which a single integer item round-trips -/
def IntItemRest (t : Input) : Bool :=
  NoHexDigitHead t && NoXHead t && (expect t "..").isNone

theorem intItemRest_of_space_or_close (t : Input) (h : SpaceOrCloseHead t = true) :
    IntItemRest t = true := by
  cases t with
  | nil => cases h
  | cons c r =>
    simp only [SpaceOrCloseHead, Bool.or_eq_true, beq_iff_eq] at h
    have hc : c = ' ' ∨ c = '\r' ∨ c = '\n' ∨ c = '}' := by
      rcases h with h | h
      · simp only [isSpace, Bool.or_eq_true, decide_eq_true_eq] at h
        rcases h with (h | h) | h
        · exact Or.inl h
        · exact Or.inr (Or.inl h)
        · exact Or.inr (Or.inr (Or.inl h))
      · exact Or.inr (Or.inr (Or.inr h))
    have key : ∀ d : Char, (d = ' ' ∨ d = '\r' ∨ d = '\n' ∨ d = '}') →
        isAsciiHexDigit d = false ∧ d ≠ 'x' ∧ d ≠ '.' := by
      intro d hd
      rcases hd with h | h | h | h <;> subst h <;> decide
    obtain ⟨k1, k2, k3⟩ := key c hc
    have e : expect (c :: r) ".." = none := by
      show stripPrefix (c :: r) ['.', '.'] = none
      simp [stripPrefix, k3]
    simp [IntItemRest, NoHexDigitHead, NoXHead, headNot, k1, k2, e]

theorem digitChar_head_ok : ∀ d, d < 16 → (!isSpace (digitChar d) && digitChar d != '}') = true := by
  decide

theorem renderDec_itemHeadOk (v : Int) : itemHeadOk (renderDec v) = true := by
  unfold renderDec
  split
  · rfl
  · obtain ⟨d, tl, he, hd, _⟩ := digits_head (by omega : 2 ≤ 10) v.natAbs
    rw [he]
    exact digitChar_head_ok d (by omega)

theorem sepOk_intEntries (vs : List Int) : sepOk (intEntries vs) = true := by
  induction vs with
  | nil => rfl
  | cons v vs ih =>
    cases vs with
    | nil => rfl
    | cons w ws => simp only [intEntries, List.map_cons, sepOk] at ih ⊢; simp [ih]

theorem lexBrace_int_list (vs : List Int) (hv : ∀ v ∈ vs, inI64 v = true) (ws0 rest : Input)
    (hws0 : ∀ c ∈ ws0, isSpace c = true) :
    lexBrace lexIntRange ('{' :: (ws0 ++ (renderBraceBody (intEntries vs) ++ '}' :: rest))) =
      .ok (vs.map fun v => (v, v), rest) := by
  have := lexBrace_render lexIntRange IntItemRest intItemRest_of_space_or_close (intEntries vs)
    rest ws0 hws0
    (by
      intro e he c hc
      simp only [intEntries, List.mem_map] at he
      obtain ⟨v, _, rfl⟩ := he
      simp at hc; subst hc; decide)
    (by
      intro e he
      simp only [intEntries, List.mem_map] at he
      obtain ⟨v, _, rfl⟩ := he
      exact renderDec_itemHeadOk v)
    (sepOk_intEntries vs)
    (by
      intro e he tail ht
      simp only [intEntries, List.mem_map] at he
      obtain ⟨v, hvm, rfl⟩ := he
      simp only [IntItemRest, Bool.and_eq_true, Option.isNone_iff_eq_none] at ht
      exact lexIntRange_single .dec v tail rfl (hv v hvm) ht.1.1 (fun _ _ => ht.1.2) ht.2)
  rw [this]
  simp [intEntries]

end WfModel
