import WfModel.Model.Parse
import WfModel.Lemmas.Unary
/-!
# C13 — the level functions read the settings only through `starLimit`

`PEnv.withDepth env d` is `env` with `max_nesting_depth := d`; the parser levels do not look
at `maxDepth` (only `parseFilter` / `parseValue` do, to pick the starting budget).
-/
namespace WfModel

/-- `ParserSettings::set_max_nesting_depth` / `FilterParser::set_max_nesting_depth` -/
def PEnv.withDepth (env : PEnv) (d : Nat) : PEnv :=
  { env with st := { env.st with maxDepth := d } }

@[simp] theorem PEnv.withDepth_maxDepth (env : PEnv) (d : Nat) :
    (env.withDepth d).st.maxDepth = d := rfl
@[simp] theorem PEnv.withDepth_scheme (env : PEnv) (d : Nat) :
    (env.withDepth d).scheme = env.scheme := rfl
@[simp] theorem PEnv.withDepth_starLimit (env : PEnv) (d : Nat) :
    (env.withDepth d).st.starLimit = env.st.starLimit := rfl
theorem PEnv.withDepth_self (env : PEnv) : env.withDepth env.st.maxDepth = env := rfl

section
variable (s : Scheme) (l : Option Nat) (d1 d2 : Nat)

local notation "E1" => (PEnv.mk s (Settings.mk d1 l))
local notation "E2" => (PEnv.mk s (Settings.mk d2 l))

theorem cmpWithLhs_congr : cmpWithLhs E1 = cmpWithLhs E2 := by
  funext lhs ty i
  unfold cmpWithLhs wildcardOk
  rfl

theorem indexExprL_congr : indexExprL E1 = indexExprL E2 := by
  funext lo i
  unfold indexExprL
  rfl

theorem comparisonL_congr : comparisonL E1 = comparisonL E2 := by
  funext lo i
  unfold comparisonL
  simp only [indexExprL_congr s l d1 d2, cmpWithLhs_congr s l d1 d2]

theorem lexUnary_congr : lexUnary E1 = lexUnary E2 := lexUnary_scheme _ _ rfl

theorem simpleL_congr : simpleL E1 = simpleL E2 := by
  funext lo i
  unfold simpleL
  simp only [comparisonL_congr s l d1 d2, lexUnary_congr s l d1 d2]

theorem logicalL_congr : logicalL E1 = logicalL E2 := by
  funext lo i
  unfold logicalL
  simp only [simpleL_congr s l d1 d2]

theorem argAfterIndex_congr : argAfterIndex E1 = argAfterIndex E2 := by
  funext lhs rest
  unfold argAfterIndex
  simp only [cmpWithLhs_congr s l d1 d2]

theorem argFallback_congr : argFallback E1 = argFallback E2 := by
  funext lo i
  unfold argFallback
  simp only [indexExprL_congr s l d1 d2, argAfterIndex_congr s l d1 d2]

theorem argL_congr : argL E1 = argL E2 := by
  funext lo i
  unfold argL
  simp only [indexExprL_congr s l d1 d2, argAfterIndex_congr s l d1 d2,
    argFallback_congr s l d1 d2, logicalL_congr s l d1 d2, lexUnary_congr s l d1 d2]

theorem callArgsLoop_congr (lo : Option Level) (sig : FuncSig) (f : Nat) :
    callArgsLoop E1 lo sig f = callArgsLoop E2 lo sig f := by
  induction f with
  | zero => funext inp args ps ctx; simp only [callArgsLoop]
  | succ f ih =>
    funext inp args ps ctx
    simp only [callArgsLoop, argL_congr s l d1 d2, ih]

theorem callBodyL_congr : callBodyL E1 = callBodyL E2 := by
  funext lo k sig i
  unfold callBodyL
  simp only [callArgsLoop_congr s l d1 d2]

theorem quantArgL_congr : quantArgL E1 = quantArgL E2 := by
  funext lo i
  unfold quantArgL
  simp only [argL_congr s l d1 d2]

theorem mkLevel_congr : mkLevel E1 = mkLevel E2 := by
  funext lo
  unfold mkLevel
  rw [logicalL_congr s l d1 d2, simpleL_congr s l d1 d2, quantArgL_congr s l d1 d2,
    callBodyL_congr s l d1 d2]

theorem level_congr (n : Nat) : level E1 n = level E2 n := by
  induction n with
  | zero => simp only [level, mkLevel_congr s l d1 d2]
  | succ n ih => simp only [level, mkLevel_congr s l d1 d2, ih]

end

theorem level_withDepth (env : PEnv) (d n : Nat) : level (env.withDepth d) n = level env n := by
  obtain ⟨s, ⟨d0, l⟩⟩ := env
  exact level_congr s l d d0 n

theorem lowerOf_withDepth (env : PEnv) (d n : Nat) :
    lowerOf (env.withDepth d) n = lowerOf env n := by
  cases n with
  | zero => rfl
  | succ n => simp only [lowerOf, level_withDepth]

theorem indexExprL_withDepth (env : PEnv) (d : Nat) :
    indexExprL (env.withDepth d) = indexExprL env := by
  obtain ⟨s, ⟨d0, l⟩⟩ := env
  exact indexExprL_congr s l d d0

end WfModel
