import WfModel.Lemmas.C04Matrix
import WfModel.Generated
namespace WfModel
open Spec

theorem cmpArms_exact (t : Ty) (op : CompOp) :
    Spec.allowed t op = true ↔ (tyName t, classOf op) ∈ Generated.cmpArms := by
  cases t <;> cases op <;> simp [Spec.allowed, tyName, classOf, Generated.cmpArms]

theorem cmpArms_real : ∀ p ∈ Generated.cmpArms, ∃ t op, p = (tyName t, classOf op) ∧ Spec.allowed t op = true := by
  intro p hp
  simp only [Generated.cmpArms, List.mem_cons, List.mem_nil_iff, or_false] at hp
  rcases hp with rfl | rfl | rfl | rfl | rfl | rfl | rfl | rfl
  · exact ⟨.ip, .in_, rfl, rfl⟩
  · exact ⟨.bytes, .in_, rfl, rfl⟩
  · exact ⟨.int, .in_, rfl, rfl⟩
  · exact ⟨.ip, .ord .eq, rfl, rfl⟩
  · exact ⟨.bytes, .ord .eq, rfl, rfl⟩
  · exact ⟨.int, .ord .eq, rfl, rfl⟩
  · exact ⟨.int, .bitAnd, rfl, rfl⟩
  · exact ⟨.bytes, .contains, rfl, rfl⟩

theorem cmpBytesOps_exact (op : CompOp) :
    classOf op = "Bytes" ↔ ∃ n, bytesOpName op = some n ∧ n ∈ Generated.cmpBytesOps := by
  cases op <;> simp [classOf, bytesOpName, Generated.cmpBytesOps]

end WfModel
