import WfModel.Model.CApi
/-!
Helper lemmas for C20 (`CStr` invariant and content, per-thread frame lemma).
Property statements are in `Props/C20.lean`.
-/
namespace WfModel.CApi

theorem subst_ne_zero (b : UInt8) : subst b ≠ 0 := by
  unfold subst
  split
  · decide
  · assumption

theorem zero_not_mem_map_subst (bs : List UInt8) : (0 : UInt8) ∉ bs.map subst := by
  intro h
  obtain ⟨b, _, hb⟩ := List.mem_map.mp h
  exact subst_ne_zero b hb

theorem CStr.append_buf (c : CStr) (bs : List UInt8) :
    (c.append bs).buf = c.buf.dropLast ++ bs.map subst ++ [0] := rfl

theorem wf_dropLast {buf : List UInt8} (h : WellFormed buf) : (0 : UInt8) ∉ buf.dropLast := by
  rcases h with h | h
  · subst h; simp
  · exact h.2

theorem CStr.append_wf (c : CStr) (bs : List UInt8) (h : WellFormed c.buf) :
    WellFormed (c.append bs).buf := by
  right
  rw [CStr.append_buf]
  constructor
  · simp
  · rw [List.dropLast_concat]
    intro hm
    rcases List.mem_append.mp hm with hm | hm
    · exact wf_dropLast h hm
    · exact zero_not_mem_map_subst bs hm

theorem CStr.foldl_append_wf (chunks : List (List UInt8)) (c : CStr) (h : WellFormed c.buf) :
    WellFormed (chunks.foldl CStr.append c).buf := by
  induction chunks generalizing c with
  | nil => exact h
  | cons a rest ih => exact ih _ (CStr.append_wf c a h)

theorem CStr.apply_wf (c : CStr) (op : COp) (h : WellFormed c.buf) : WellFormed (c.apply op).buf := by
  cases op with
  | write bs => exact CStr.append_wf c bs h
  | clear => left; rfl
  | setError chunks => exact CStr.foldl_append_wf (nonEmpty chunks) _ (Or.inl rfl)

theorem CStr.run_wf (h : List COp) (c : CStr) (hc : WellFormed c.buf) : WellFormed (c.run h).buf := by
  induction h generalizing c with
  | nil => exact hc
  | cons op rest ih => exact ih _ (CStr.apply_wf c op hc)

/-- Splitting a write into pieces does not matter. -/
theorem CStr.append_append (c : CStr) (a b : List UInt8) :
    (c.append a).append b = c.append (a ++ b) := by
  cases c with
  | mk buf =>
    simp only [CStr.append, CStr.mk.injEq]
    rw [List.dropLast_concat]
    simp [List.append_assoc]

theorem CStr.foldl_append_eq (chunks : List (List UInt8)) (c : CStr) (a : List UInt8) :
    chunks.foldl CStr.append (c.append a) = c.append (a ++ chunks.flatten) := by
  induction chunks generalizing a with
  | nil => simp
  | cons x rest ih =>
    simp only [List.foldl_cons, List.flatten_cons]
    rw [CStr.append_append, ih, List.append_assoc]

theorem flatten_nonEmpty (chunks : List (List UInt8)) : (nonEmpty chunks).flatten = chunks.flatten := by
  induction chunks with
  | nil => rfl
  | cons a rest ih =>
    unfold nonEmpty at ih ⊢
    cases a with
    | nil => simpa [List.filter_cons] using ih
    | cons x t => simp [List.filter_cons, ih]

theorem CStr.foldl_append_flat (chunks : List (List UInt8)) (c : CStr) (h : chunks ≠ []) :
    chunks.foldl CStr.append c = c.append chunks.flatten := by
  cases chunks with
  | nil => exact absurd rfl h
  | cons a rest => simpa using CStr.foldl_append_eq rest c a

theorem takeWhile_ne_zero (xs : List UInt8) (h : (0 : UInt8) ∉ xs) (rest : List UInt8) :
    (xs ++ 0 :: rest).takeWhile (· ≠ 0) = xs := by
  induction xs with
  | nil => simp
  | cons x t ih =>
    have hx : x ≠ 0 := fun e => h (by simp [e])
    have ht : (0 : UInt8) ∉ t := fun e => h (by simp [e])
    have := ih ht
    simpa [List.takeWhile_cons, hx] using this

/-- On a well-formed buffer the C caller (reading up to the first NUL) sees the whole
content. -/
theorem cView_of_wf (c : CStr) (h : WellFormed c.buf) (hne : c.buf ≠ []) :
    c.cView = some c.content := by
  rcases h with h | ⟨hl, hz⟩
  · exact absurd h hne
  · have hsplit : c.buf = c.buf.dropLast ++ [0] := by
      have h1 := List.dropLast_concat_getLast hne
      have h2 : c.buf.getLast hne = 0 := by
        rw [List.getLast?_eq_some_getLast hne] at hl
        exact Option.some.inj hl
      rw [h2] at h1
      exact h1.symm
    unfold CStr.cView CStr.asPtr CStr.content
    have : c.buf.isEmpty = false := by
      cases hb : c.buf with
      | nil => exact absurd hb hne
      | cons _ _ => rfl
    simp only [this, Bool.false_eq_true, if_false, Option.map_some]
    congr 1
    conv => lhs; rw [hsplit]
    exact takeWhile_ne_zero _ hz []

/-! ### content = writes since the last clear -/

def COp.isPrim : COp → Bool
  | .setError _ => false
  | _ => true

theorem run_append (c : CStr) (a b : List COp) : c.run (a ++ b) = (c.run a).run b := by
  simp [CStr.run, List.foldl_append]

theorem run_map_write (c : CStr) (chunks : List (List UInt8)) :
    c.run (chunks.map .write) = chunks.foldl CStr.append c := by
  induction chunks generalizing c with
  | nil => rfl
  | cons a rest ih => simpa [CStr.run, CStr.apply] using ih (c.append a)

theorem run_expand (h : List COp) (c : CStr) : c.run h = c.run (expand h) := by
  induction h generalizing c with
  | nil => rfl
  | cons op rest ih =>
    cases op with
    | write bs => simpa [expand, CStr.run] using ih (c.apply (.write bs))
    | clear => simpa [expand, CStr.run] using ih (c.apply .clear)
    | setError chunks =>
      simp only [expand]
      rw [show (COp.clear :: (nonEmpty chunks).map COp.write ++ expand rest) =
            [COp.clear] ++ ((nonEmpty chunks).map COp.write ++ expand rest) from rfl,
        run_append, run_append, run_map_write, ← ih]
      rfl

theorem expand_prim (h : List COp) : ∀ op ∈ expand h, op.isPrim = true := by
  induction h with
  | nil => simp [expand]
  | cons op rest ih =>
    cases op with
    | write bs => intro o ho; simp [expand] at ho; rcases ho with rfl | ho; rfl; exact ih o ho
    | clear => intro o ho; simp [expand] at ho; rcases ho with rfl | ho; rfl; exact ih o ho
    | setError chunks =>
      intro o ho
      simp [expand] at ho
      rcases ho with rfl | ⟨a, _, rfl⟩ | ho
      · rfl
      · rfl
      · exact ih o ho

/-- buffer that holds the given (pending) writes -/
def bufOf (ws : List COp) : List UInt8 :=
  if ws.isEmpty then [] else ((ws.map COp.bytes).flatten.map subst) ++ [0]

theorem rev_ind {α : Type} {P : List α → Prop} (hnil : P [])
    (hsnoc : ∀ q x, P q → P (q ++ [x])) : ∀ l, P l := by
  intro l
  rw [← List.reverse_reverse l]
  induction l.reverse with
  | nil => exact hnil
  | cons x t ih => simpa using hsnoc _ x ih

theorem run_prim (p : List COp) (hp : ∀ op ∈ p, op.isPrim = true) :
    ((⟨[]⟩ : CStr).run p).buf = bufOf ((p.reverse.takeWhile COp.isWrite).reverse) := by
  induction p using rev_ind with
  | hnil => rfl
  | hsnoc q x ih =>
    have hq : ∀ op ∈ q, op.isPrim = true := fun o ho => hp o (by simp [ho])
    have ih := ih hq
    rw [run_append]
    simp only [List.reverse_append, List.reverse_cons, List.reverse_nil, List.nil_append,
      List.singleton_append]
    cases x with
    | setError chunks => have := hp (.setError chunks) (by simp); simp [COp.isPrim] at this
    | clear => simp [CStr.run, CStr.apply, CStr.clear, List.takeWhile_cons, COp.isWrite, bufOf]
    | write bs =>
      simp only [CStr.run, List.foldl_cons, List.foldl_nil, CStr.apply, List.takeWhile_cons,
        COp.isWrite, if_true, List.reverse_cons]
      rw [CStr.append_buf]
      have ih' : (List.foldl CStr.apply ({ buf := [] } : CStr) q).buf =
          bufOf (List.takeWhile COp.isWrite q.reverse).reverse := ih
      rw [ih']
      generalize (List.takeWhile COp.isWrite q.reverse).reverse = ws
      unfold bufOf
      cases ws with
      | nil => simp [COp.bytes]
      | cons w rest => simp [COp.bytes, List.dropLast_concat]

/-! ### one LAST_ERROR per thread -/

theorem opsOf_cons (j i : Nat) (op : COp) (σ : List (Nat × COp)) :
    opsOf j ((i, op) :: σ) = if i = j then op :: opsOf j σ else opsOf j σ := by
  unfold opsOf
  by_cases h : i = j <;> simp [List.filterMap_cons, h]

theorem LeSys.run_frame (σ : List (Nat × COp)) (y : LeSys) (j : Nat) :
    (y.run σ)[j]? = (y[j]?).map (fun c => c.run (opsOf j σ)) := by
  induction σ generalizing y with
  | nil => simp [LeSys.run, opsOf, CStr.run]
  | cons p rest ih =>
    obtain ⟨i, op⟩ := p
    simp only [LeSys.run]
    rw [ih, opsOf_cons]
    unfold LeSys.step
    cases hi : y[i]? with
    | none =>
      by_cases hij : i = j
      · subst hij; simp [hi]
      · simp [hij]
    | some c =>
      by_cases hij : i = j
      · subst hij
        have hlt : i < y.length := by
          rcases Nat.lt_or_ge i y.length with hl | hl
          · exact hl
          · rw [List.getElem?_eq_none hl] at hi; cases hi
        have hti : y[i] = c := by
          have := List.getElem?_eq_getElem hlt
          rw [hi] at this; exact (Option.some.inj this).symm
        simp [hlt, CStr.run, hti]
      · simp [hij, List.getElem?_set_ne hij]

end WfModel.CApi
