import WfModel.Lemmas.Atoms.Ident
import WfModel.Lemmas.C06Key

/-!
# Concrete atoms, part 1b: index suffixes (`IndexExpr::lex_with`, the `[ … ]` loop)

An index suffix as it is WRITTEN (`Ix`): `[ ws₁ k ws₂ ]` with `k < 2^32` in any of the three
integer forms (`FieldIndex::lex` goes through `RhsValue::lex_with(_, Type::Int)`), or
`[ ws₁ "…" ws₂ ]` with the quoted-string rendering of C06 (any escape choice per byte) whose
bytes are valid UTF-8. Layout is allowed exactly where the Rust loop calls `skip_space`: after
`[` and before `]` — not between the name and `[`, not between `]` and the next `[`.
`lexIndexes_path`: on the text of a path that is well-typed for the starting type (`pathTy`) the
loop returns the path's indexes and the final type. `indexExprL_path`: `IndexExpr::lex_with` on
`name` followed by such a path. Helper lemmas only.
-/
namespace WfModel.Atoms

open WfModel WfModel.Render WfModel.C07L

/-! ### syntax -/

/-- one index suffix as written -/
inductive Ix
  /-- `[ws₁ k ws₂]`, `k` written in `form` (decimal by default) -/
  | arr (ws₁ : Input) (k : Nat) (ws₂ : Input) (form : IntForm := .dec)
  /-- `[ws₁ "…" ws₂]`, the key written with the escapes of `items` -/
  | key (ws₁ : Input) (items : List (Esc × UInt8)) (ws₂ : Input)
deriving DecidableEq, Repr

/-- the string a key literal denotes (`String::from_utf8` of its bytes; `[]` when they are not
UTF-8: excluded by `Ix.ok`) -/
def keyOf (items : List (Esc × UInt8)) : List Char :=
  (utf8Decode (items.map (·.2))).getD []

/-- a key written without escapes -/
def plainItems (key : List Char) : List (Esc × UInt8) :=
  key.map fun c => (Esc.lit, UInt8.ofNat c.toNat)

/-- `[ws₁ "key" ws₂]` with the key's characters written as themselves -/
abbrev Ix.plainKey (ws₁ : Input) (key : List Char) (ws₂ : Input) : Ix :=
  .key ws₁ (plainItems key) ws₂

def Ix.txt : Ix → List Char
  | .arr ws₁ k ws₂ form => '[' :: (ws₁ ++ (renderInt form (k : Int) ++ (ws₂ ++ [']'])))
  | .key ws₁ items ws₂ => '[' :: (ws₁ ++ ('"' :: (renderQuoted items ++ '"' :: (ws₂ ++ [']']))))

/-- the `FieldIndex` it denotes -/
def Ix.val : Ix → FieldIndex
  | .arr _ k _ _ => .arr k
  | .key _ items _ => .key (keyOf items)

/-- side conditions: layout is layout; an array index is a `u32`; unescaped key bytes are
printable ASCII and the key's bytes are UTF-8 -/
def Ix.ok : Ix → Bool
  | .arr ws₁ k ws₂ _ => Layout ws₁ && Layout ws₂ && decide (k < 4294967296)
  | .key ws₁ items ws₂ =>
    Layout ws₁ && Layout ws₂ && items.all escOk && (utf8Decode (items.map (·.2))).isSome

def pathTxt : List Ix → List Char
  | [] => []
  | ix :: r => ix.txt ++ pathTxt r

/-- **the type an index path leads to** (`IndexExpr::get_type`): `none` when some step does
not fit (array index on a non-array, key on a non-map) -/
def pathTy : Ty → List FieldIndex → Option Ty
  | t, [] => some t
  | t, ix :: r =>
    match indexStep t ix with
    | some t' => pathTy t' r
    | none => none

/-- the same by recursion on the TYPE: an array takes an index, a map takes a key, a primitive
type takes nothing -/
def tyAt : Ty → List FieldIndex → Option Ty
  | t, [] => some t
  | .array e, .arr _ :: r => tyAt e r
  | .map e, .key _ :: r => tyAt e r
  | .array e, .each :: r => tyAt e r
  | .map e, .each :: r => tyAt e r
  | _, _ :: _ => none

theorem pathTy_eq_tyAt : ∀ (p : List FieldIndex) (t : Ty), pathTy t p = tyAt t p
  | [], t => by cases t <;> rfl
  | ix :: r, t => by
    cases t <;> cases ix <;> simp [pathTy, tyAt, indexStep, pathTy_eq_tyAt r]

/-! ### what may follow a name when index suffixes are allowed -/

/-- no identifier character and no dot (`[` is allowed: compare `IdStop`) -/
def NameStop : Input → Bool
  | [] => true
  | c :: _ => !isIdentChar c && c != '.'

theorem nameStop_cons (c : Char) (cs : Input) :
    NameStop (c :: cs) = (!isIdentChar c && c != '.') := rfl

theorem idStop_nameStop {rest : Input} (h : IdStop rest = true) : NameStop rest = true := by
  cases rest with
  | nil => rfl
  | cons c cs =>
    simp only [IdStop, Bool.and_eq_true] at h
    simp only [NameStop, Bool.and_eq_true]
    exact h.1

theorem nameStop_bracket (cs : Input) : NameStop ('[' :: cs) = true := by
  rw [nameStop_cons]; decide

theorem nameStop_span {rest : Input} (h : NameStop rest = true) :
    spanWhile isIdentChar rest = ([], rest) := by
  cases rest with
  | nil => rfl
  | cons c cs =>
    simp only [NameStop, Bool.and_eq_true, Bool.not_eq_true', bne_iff_ne, ne_eq] at h
    simp [spanWhile, h.1]

theorem nameStop_no_dot {rest : Input} (h : NameStop rest = true) : expect rest "." = none := by
  cases rest with
  | nil => rfl
  | cons c cs =>
    simp only [NameStop, Bool.and_eq_true, Bool.not_eq_true', bne_iff_ne, ne_eq] at h
    show stripPrefix (c :: cs) ['.'] = none
    simp [stripPrefix, h.2]

theorem nameStop_head {rest : Input} (h : NameStop rest = true) :
    ∀ c, rest.head? = some c → isIdentChar c = false := by
  cases rest with
  | nil => simp
  | cons d ds =>
    simp only [NameStop, Bool.and_eq_true, Bool.not_eq_true', bne_iff_ne, ne_eq] at h
    intro c hc
    simp at hc
    subst hc
    exact h.1

theorem nameStop_notGlued {rest : Input} (h : NameStop rest = true) : gluedTo rest = false := by
  cases rest with
  | nil => rfl
  | cons c cs =>
    simp only [NameStop, Bool.and_eq_true, Bool.not_eq_true', bne_iff_ne, ne_eq] at h
    simp [gluedTo_cons, h.1, h.2]

/-- the identifier loop on a valid name before a `NameStop` continuation (generalises
`identRest_name_aux` from `IdStop`) -/
theorem identRest_name_ns_aux (rest : Input) (hrest : NameStop rest = true) :
    ∀ (name : List Char) (f : Nat), name.length ≤ f →
      (nameOkAux true name = true →
        afterRun f (spanWhile isIdentChar (name ++ rest)).2 = .ok ((), rest)) ∧
      (nameOkAux false name = true → identRest f (name ++ rest) = .ok ((), rest)) := by
  intro name
  induction name with
  | nil =>
    intro f _
    refine ⟨fun _ => ?_, fun h => by simp [nameOkAux] at h⟩
    simp only [List.nil_append, nameStop_span hrest, afterRun, nameStop_no_dot hrest]
  | cons c cs ih =>
    intro f hf
    simp only [List.length_cons] at hf
    by_cases hc : isIdentChar c = true
    · refine ⟨fun h => ?_, fun h => ?_⟩
      · rw [nameOkAux_ident hc] at h
        rw [List.cons_append, spanWhile_ident_cons hc]
        exact (ih f (by omega)).1 h
      · rw [nameOkAux_ident hc] at h
        obtain ⟨f', rfl⟩ : ∃ f', f = f' + 1 := ⟨f - 1, by omega⟩
        rw [List.cons_append, identRest_ident_cons hc]
        exact (ih f' (by omega)).1 h
    · simp only [Bool.not_eq_true] at hc
      by_cases hd : c = '.'
      · subst hd
        refine ⟨fun h => ?_, fun h => by simp [nameOkAux_dot] at h⟩
        rw [nameOkAux_dot] at h
        simp only [Bool.true_and] at h
        rw [List.cons_append, spanWhile_dot, afterRun_dot]
        exact (ih f (by omega)).2 h
      · exact ⟨fun h => by simp [nameOkAux_other hc hd] at h,
          fun h => by simp [nameOkAux_other hc hd] at h⟩

/-- **`Identifier::lex_with` on a valid name**, also when `[` follows -/
theorem lexIdentifier_name_ns (s : Scheme) {name rest : Input} (hn : nameOk name = true)
    (hrest : NameStop rest = true) :
    lexIdentifier s (name ++ rest) =
      match s.get name with
      | some id => .ok (id, rest)
      | none => errSpan .unknownIdentifier (name ++ rest) rest := by
  unfold lexIdentifier
  rw [(identRest_name_ns_aux rest hrest name _ (by simp; omega)).2 hn]
  simp only [take_length_append]
  rfl

/-- `lex_unary_op` declines every registered name other than `not` itself, also before `[` -/
theorem name_noUnary_ns (env : PEnv) {name more : Input} (hn : nameOk name = true)
    (hreg : (env.scheme.get name).isSome = true) (hne : name ≠ "not".toList)
    (hmore : NameStop more = true) :
    lexUnary env (name ++ more) = none := by
  rw [lexUnary_eq_none_iff]
  cases he : lexEnum unaryOps (name ++ more) with
  | none => exact .inl rfl
  | some p =>
    obtain ⟨u, r⟩ := p
    right
    rcases lexEnum_unary_cases he with hin | hin
    · have hpre : "not".toList <+: name :=
        prefix_of_name (by decide) (nameStop_head hmore) ⟨r, hin.symm⟩
      obtain ⟨tl, htl⟩ := hpre
      have hr : r = tl ++ more := by
        have : "not".toList ++ r = "not".toList ++ (tl ++ more) := by
          rw [← List.append_assoc, htl]; exact hin.symm
        exact List.append_cancel_left this
      refine ⟨r, hin, ?_, ?_⟩
      · cases tl with
        | nil => exact absurd (by rw [← htl]; rfl) hne
        | cons d ds =>
          have h1 : nameOkAux false ("not".toList ++ d :: ds) = true := by rw [htl]; exact hn
          have h2 : nameOkAux true (d :: ds) = true := by
            simpa [nameOkAux, show isIdentChar 'n' = true by decide,
              show isIdentChar 'o' = true by decide, show isIdentChar 't' = true by decide]
              using h1
          rw [hr, List.cons_append, gluedTo_cons]
          rcases nameOkAux_head h2 with h | rfl
          · simp [h]
          · decide
      · unfold isRegistered
        rw [lexIdentifier_name_ns env.scheme hn hmore]
        cases hg : env.scheme.get name with
        | none => rw [hg] at hreg; cases hreg
        | some id => rfl
    · obtain ⟨c, cs, rfl, hc, _⟩ := nameOk_head hn
      simp only [List.cons_append, List.cons.injEq] at hin
      obtain ⟨rfl, _⟩ := hin
      exact absurd hc (by decide)

/-- no quantifier call, also before `[` -/
theorem name_noQuant_ns {name more : Input} (hn : nameOk name = true)
    (hmore : NameStop more = true)
    (hparen : (name = "any".toList ∨ name = "all".toList) → expect (skipSpace more) "(" = none) :
    lexQuantCall (name ++ more) = none := by
  unfold lexQuantCall
  cases hq : lexEnum quantOps (name ++ more) with
  | none => rfl
  | some r =>
    obtain ⟨op, rest⟩ := r
    obtain ⟨sp, hmem, hin⟩ := lexEnum_sound hq
    have hsp : sp.toList = "any".toList ∨ sp.toList = "all".toList := by
      rcases quantOps_spellings hmem with h | h <;> simp only at h <;> subst h <;> simp
    have hid : ∀ c ∈ sp.toList, isIdentChar c = true := by
      rcases hsp with h | h <;> rw [h] <;> decide
    have hpre : sp.toList <+: name :=
      prefix_of_name hid (nameStop_head hmore) ⟨rest, hin.symm⟩
    obtain ⟨tl, htl⟩ := hpre
    have hrest : rest = tl ++ more := by
      rw [← htl, List.append_assoc] at hin
      exact (List.append_cancel_left hin).symm
    have hnone : expect (skipSpace rest) "(" = none := by
      cases tl with
      | nil =>
        rw [hrest, List.nil_append]
        apply hparen
        rw [← htl, List.append_nil]
        exact hsp
      | cons d ds =>
        have hd : isIdentChar d = true ∨ d = '.' := by
          have h1 : nameOkAux false (sp.toList ++ d :: ds) = true := by rw [htl]; exact hn
          have h2 : nameOkAux true (d :: ds) = true := by
            rcases hsp with h | h <;> rw [h] at h1 <;>
              simpa [nameOkAux, show isIdentChar 'a' = true by decide,
                show isIdentChar 'n' = true by decide, show isIdentChar 'y' = true by decide,
                show isIdentChar 'l' = true by decide] using h1
          exact nameOkAux_head h2
        have hsp' : isSpace d = false := by
          rcases hd with h | rfl
          · exact identChar_not_space h
          · decide
        have hpar : d ≠ '(' := by
          rcases hd with h | rfl
          · exact identChar_ne_paren h
          · decide
        rw [hrest, List.cons_append, skipSpace_cons_of_not_space _ hsp']
        show stripPrefix (d :: (ds ++ more)) ['('] = none
        simp [stripPrefix, hpar]
    simp [hnone]

/-! ### one suffix -/

theorem digitChar_index_head : ∀ d, d < 16 →
    digitChar d ≠ '*' ∧ digitChar d ≠ '"' ∧ isSpace (digitChar d) = false ∧ digitChar d ≠ '}' := by
  decide

/-- an integer rendering starts with `-` or a digit: no `*`, no quote, no space, no `}` -/
theorem renderInt_head (form : IntForm) (v : Int) :
    ∃ c tl, renderInt form v = c :: tl ∧ c ≠ '*' ∧ c ≠ '"' ∧ isSpace c = false ∧ c ≠ '}' := by
  cases form with
  | dec =>
    simp only [renderInt, renderDec]
    split
    · exact ⟨'-', _, rfl, by decide, by decide, by decide, by decide⟩
    · obtain ⟨d, tl, he, hd, _⟩ := digits_head (by omega : 2 ≤ 10) v.natAbs
      obtain ⟨h1, h2, h3, h4⟩ := digitChar_index_head d (by omega)
      exact ⟨digitChar d, tl, he, h1, h2, h3, h4⟩
  | hex => exact ⟨'0', _, rfl, by decide, by decide, by decide, by decide⟩
  | oct => exact ⟨'0', _, rfl, by decide, by decide, by decide, by decide⟩

theorem noHex_cons_of {c : Char} (r : Input) (h : isAsciiHexDigit c = false) :
    NoHexDigitHead (c :: r) = true := by
  simp [NoHexDigitHead, headNot, h]

theorem noX_cons_of {c : Char} (r : Input) (h : c ≠ 'x') : NoXHead (c :: r) = true := by
  simp [NoXHead, headNot, h]

/-- before layout or `]` no digit run goes on -/
theorem noHex_close {ws : Input} (h : Layout ws = true) (more : Input) :
    NoHexDigitHead (ws ++ ']' :: more) = true ∧ NoXHead (ws ++ ']' :: more) = true := by
  cases ws with
  | nil => exact ⟨noHex_cons_of _ (by decide), noX_cons_of _ (by decide)⟩
  | cons w ws =>
    have hw : isSpace w = true := by
      simp only [Layout, List.all_cons, Bool.and_eq_true] at h
      exact h.1
    have : w = ' ' ∨ w = '\r' ∨ w = '\n' := by simpa [isSpace, or_assoc] using hw
    rcases this with rfl | rfl | rfl <;>
      exact ⟨noHex_cons_of _ (by decide), noX_cons_of _ (by decide)⟩

theorem closeSolid (more : Input) : Solid (']' :: more) := ⟨']', more, rfl, by decide⟩

theorem expect_close_bracket (more : Input) : expect (']' :: more) "]" = some more := by
  show stripPrefix (']' :: more) [']'] = some more
  simp [stripPrefix]

theorem expect_open_bracket (x : Input) : expect ('[' :: x) "[" = some x := by
  show stripPrefix ('[' :: x) ['['] = some x
  simp [stripPrefix]

/-- **`FieldIndex::lex` on what is written between the brackets** (after the leading layout),
leaving the trailing layout and `]` -/
theorem lexFieldIndex_ix (ix : Ix) (hok : ix.ok = true) (more : Input) :
    ∃ ws₁ body ws₂, ix.txt ++ more = '[' :: (ws₁ ++ (body ++ (ws₂ ++ ']' :: more))) ∧
      Layout ws₁ = true ∧ Layout ws₂ = true ∧ Solid (body ++ (ws₂ ++ ']' :: more)) ∧
      lexFieldIndex (body ++ (ws₂ ++ ']' :: more)) = .ok (ix.val, ws₂ ++ ']' :: more) := by
  cases ix with
  | arr ws₁ k ws₂ form =>
    simp only [Ix.ok, Bool.and_eq_true, decide_eq_true_eq] at hok
    obtain ⟨⟨h₁, h₂⟩, hk⟩ := hok
    refine ⟨ws₁, renderInt form (k : Int), ws₂, by simp [Ix.txt], h₁, h₂, ?_, ?_⟩
    · obtain ⟨c, tl, he, _, _, hs, _⟩ := renderInt_head form (k : Int)
      exact ⟨c, tl ++ (ws₂ ++ ']' :: more), by rw [he]; rfl, hs⟩
    · obtain ⟨c, tl, he, h1, h2, _, _⟩ := renderInt_head form (k : Int)
      obtain ⟨hh, hx⟩ := noHex_close h₂ more
      have hadm : form.admits (k : Int) = true := by
        cases form <;> simp [IntForm.admits]
      have hi : inI64 (k : Int) = true := (inI64_iff _).mpr ⟨by omega, by omega⟩
      have hl := lexInt_renderInt form (k : Int) (ws₂ ++ ']' :: more) hadm hi hh (fun _ _ => hx)
      rw [he, List.cons_append] at hl ⊢
      rw [lexFieldIndex_noquote c _ h1 h2, hl]
      have : (decide (0 ≤ (k : Int)) && decide ((k : Int) < 4294967296)) = true := by
        simp only [Bool.and_eq_true, decide_eq_true_eq]; omega
      show (if (decide (0 ≤ (k : Int)) && decide ((k : Int) < 4294967296)) = true then _ else _) = _
      rw [if_pos this]
      simp [Ix.val]
  | key ws₁ items ws₂ =>
    simp only [Ix.ok, Bool.and_eq_true, List.all_eq_true] at hok
    obtain ⟨⟨⟨h₁, h₂⟩, hitems⟩, hdec⟩ := hok
    refine ⟨ws₁, '"' :: (renderQuoted items ++ ['"']), ws₂, by simp [Ix.txt], h₁, h₂,
      ⟨'"', _, rfl, by decide⟩, ?_⟩
    have e : ('"' :: (renderQuoted items ++ ['"'])) ++ (ws₂ ++ ']' :: more) =
        '"' :: (renderQuoted items ++ '"' :: (ws₂ ++ ']' :: more)) := by simp
    rw [e, lexFieldIndex_key items _ hitems]
    cases hd : utf8Decode (items.map (·.2)) with
    | none => rw [hd] at hdec; cases hdec
    | some s => simp [Ix.val, keyOf, hd]

/-- **one turn of the `[ … ]` loop** -/
theorem lexIndexes_step (f : Nat) (ix : Ix) (hok : ix.ok = true) (more : Input) (ty ty' : Ty)
    (acc : List FieldIndex) (hstep : indexStep ty ix.val = some ty') :
    lexIndexes (f + 1) (ix.txt ++ more) ty acc = lexIndexes f more ty' (acc ++ [ix.val]) := by
  obtain ⟨ws₁, body, ws₂, he, h₁, h₂, hsolid, hlex⟩ := lexFieldIndex_ix ix hok more
  rw [he, lexIndexes]
  simp only [expect_open_bracket, skipSpace_layout_solid h₁ hsolid, hlex,
    skipSpace_layout_solid h₂ (closeSolid more), expect_close_bracket, hstep]

/-! ### a whole path -/

theorem lexIndexes_stop {more : Input} (h : expect more "[" = none) (f : Nat) (ty : Ty)
    (acc : List FieldIndex) : lexIndexes (f + 1) more ty acc = .ok ((acc, ty), more) := by
  simp only [lexIndexes, h]

/-- **the `[ … ]` loop on a well-typed path**: all suffixes are read, the type is the path's -/
theorem lexIndexes_path : ∀ (path : List Ix) (f : Nat) (more : Input) (ty ty' : Ty)
    (acc : List FieldIndex), path.all Ix.ok = true → pathTy ty (path.map Ix.val) = some ty' →
    expect more "[" = none → path.length < f →
    lexIndexes f (pathTxt path ++ more) ty acc = .ok ((acc ++ path.map Ix.val, ty'), more)
  | [], f, more, ty, ty', acc, _, hty, hmore, hf => by
    obtain ⟨f', rfl⟩ : ∃ f', f = f' + 1 := ⟨f - 1, by simp at hf; omega⟩
    simp only [List.map_nil, pathTy, Option.some.injEq] at hty
    subst hty
    simpa [pathTxt] using lexIndexes_stop hmore f' ty acc
  | ix :: r, f, more, ty, ty', acc, hok, hty, hmore, hf => by
    obtain ⟨f', rfl⟩ : ∃ f', f = f' + 1 := ⟨f - 1, by simp at hf; omega⟩
    simp only [List.all_cons, Bool.and_eq_true] at hok
    simp only [List.map_cons, pathTy] at hty
    cases hs : indexStep ty ix.val with
    | none => rw [hs] at hty; cases hty
    | some t1 =>
      rw [hs] at hty
      have e : pathTxt (ix :: r) ++ more = ix.txt ++ (pathTxt r ++ more) := by
        simp [pathTxt]
      rw [e, lexIndexes_step f' ix hok.1 _ ty t1 acc hs,
        lexIndexes_path r f' more t1 ty' _ hok.2 hty hmore (by simp at hf; omega)]
      simp

theorem ix_txt_length (ix : Ix) : 1 ≤ ix.txt.length := by
  cases ix <;> simp [Ix.txt]

theorem length_le_pathTxt : ∀ path : List Ix, path.length ≤ (pathTxt path).length
  | [] => Nat.le_refl _
  | ix :: r => by
    have := length_le_pathTxt r
    have := ix_txt_length ix
    simp only [pathTxt, List.length_cons, List.length_append]
    omega

/-- a non-empty path's text starts with `[` -/
theorem pathTxt_head {ix : Ix} {r : List Ix} (more : Input) :
    ∃ x, pathTxt (ix :: r) ++ more = '[' :: x := by
  cases ix <;> exact ⟨_, by simp [pathTxt, Ix.txt]; rfl⟩

/-- the indexes of a written path contain no `[*]` -/
theorem mapEachCount_path (path : List Ix) : mapEachCount (path.map Ix.val) = 0 := by
  induction path with
  | nil => rfl
  | cons ix r ih =>
    simp only [mapEachCount, List.length_eq_zero_iff] at ih ⊢
    cases ix <;> simp [Ix.val, ih]

/-- what follows `name path`: never `[`; after a bare name (empty path) also no name character -/
structure PathStop (path : List Ix) (more : Input) : Prop where
  noBracket : expect more "[" = none
  nameStop : path = [] → NameStop more = true

theorem PathStop.of_idStop {path : List Ix} {more : Input} (h : IdStop more = true) :
    PathStop path more :=
  ⟨idStop_no_bracket h, fun _ => idStop_nameStop h⟩

theorem PathStop.name {path : List Ix} {more : Input} (h : PathStop path more) :
    NameStop (pathTxt path ++ more) = true := by
  cases path with
  | nil => simpa [pathTxt] using h.nameStop rfl
  | cons ix r =>
    obtain ⟨x, hx⟩ := pathTxt_head (ix := ix) (r := r) more
    rw [hx]; exact nameStop_bracket x

/-- **`IndexExpr::lex_with` on `name path`** -/
theorem indexExprL_path (env : PEnv) (lower : Option Level) {name more : Input} {path : List Ix}
    {i : Nat} {t : Ty} (hn : nameOk name = true) (hget : env.scheme.get name = some (.field i))
    (hpath : path.all Ix.ok = true)
    (hty : pathTy (env.scheme.fieldTy i) (path.map Ix.val) = some t)
    (hmore : PathStop path more) :
    indexExprL env lower (name ++ (pathTxt path ++ more)) =
      .ok ({ node := .field i (path.map Ix.val), ty := t }, more) := by
  unfold indexExprL
  rw [lexIdentifier_name_ns env.scheme hn hmore.name]
  simp only [hget]
  rw [lexIndexes_path path _ more _ t [] hpath hty hmore.noBracket
    (by have := length_le_pathTxt path; simp only [List.length_append]; omega)]
  simp

/-! ### keys written without escapes -/

/-- a character that may stand for itself inside a quoted key: printable ASCII other than `"`
(34) and `\` (92) -/
def keyChar (c : Char) : Bool :=
  decide (32 ≤ c.toNat) && decide (c.toNat ≤ 126) && decide (c.toNat ≠ 34) &&
    decide (c.toNat ≠ 92)

theorem keyChar_spec {c : Char} (h : keyChar c = true) :
    32 ≤ c.toNat ∧ c.toNat ≤ 126 ∧ c.toNat ≠ 34 ∧ c.toNat ≠ 92 := by
  simp only [keyChar, Bool.and_eq_true, decide_eq_true_eq] at h
  exact ⟨h.1.1.1, h.1.1.2, h.1.2, h.2⟩

theorem plainByte_toNat {c : Char} (h : keyChar c = true) :
    (UInt8.ofNat c.toNat).toNat = c.toNat := by
  obtain ⟨_, h2, _, _⟩ := keyChar_spec h
  simp only [UInt8.toNat_ofNat']
  omega

theorem renderEsc_plain {c : Char} (h : keyChar c = true) :
    renderEsc (Esc.lit, UInt8.ofNat c.toNat) = [c] := by
  obtain ⟨_, _, h3, h4⟩ := keyChar_spec h
  simp only [renderEsc, plainByte_toNat h, h3, h4, if_false]
  congr 1
  exact Char.ofNat_toNat c

/-- the text of an escape-free key is the key -/
theorem plainItems_render : ∀ {key : List Char}, key.all keyChar = true →
    renderQuoted (plainItems key) = key
  | [], _ => rfl
  | c :: cs, h => by
    simp only [List.all_cons, Bool.and_eq_true] at h
    have ih := plainItems_render h.2
    simp only [renderQuoted, plainItems, List.map_cons, List.flatMap_cons] at ih ⊢
    rw [renderEsc_plain h.1, ih]
    rfl

theorem plainItems_ok {key : List Char} (h : key.all keyChar = true) :
    (plainItems key).all escOk = true := by
  simp only [List.all_eq_true] at h ⊢
  intro it hit
  simp only [plainItems, List.mem_map] at hit
  obtain ⟨c, hc, rfl⟩ := hit
  obtain ⟨h1, h2, _, _⟩ := keyChar_spec (h c hc)
  simp only [escOk, plainByte_toNat (h c hc), Bool.and_eq_true, decide_eq_true_eq]
  exact ⟨h1, h2⟩

theorem plainItems_bytes : ∀ {key : List Char}, key.all keyChar = true →
    (plainItems key).map (·.2) = utf8s key
  | [], _ => rfl
  | c :: cs, h => by
    simp only [List.all_cons, Bool.and_eq_true] at h
    have ih := plainItems_bytes h.2
    obtain ⟨_, h2, _, _⟩ := keyChar_spec h.1
    have hu : utf8 c = [UInt8.ofNat c.toNat] := utf8_one c (by show c.toNat ≤ 127; omega)
    rw [utf8s_cons, hu, ← ih]
    rfl

/-- an escape-free key denotes itself -/
theorem keyOf_plain {key : List Char} (h : key.all keyChar = true) :
    keyOf (plainItems key) = key := by
  simp [keyOf, plainItems_bytes h, utf8Decode_utf8s]

/-- **`["key"]`** (escape-free): text, value, side conditions -/
theorem plainKey_spec {ws₁ ws₂ : Input} {key : List Char} (h₁ : Layout ws₁ = true)
    (h₂ : Layout ws₂ = true) (hkey : key.all keyChar = true) :
    (Ix.plainKey ws₁ key ws₂).txt = '[' :: (ws₁ ++ ('"' :: (key ++ '"' :: (ws₂ ++ [']'])))) ∧
    (Ix.plainKey ws₁ key ws₂).val = .key key ∧ (Ix.plainKey ws₁ key ws₂).ok = true := by
  refine ⟨by simp [Ix.txt, plainItems_render hkey], by simp [Ix.val, keyOf_plain hkey], ?_⟩
  simp [Ix.ok, h₁, h₂, plainItems_ok hkey, plainItems_bytes hkey, utf8Decode_utf8s]

end WfModel.Atoms
