import WfModel.Lemmas.Atoms
import WfModel.Lemmas.Atoms.Each

/-!
# A concrete scheme, concrete atoms, concrete renderings

Scheme `i : Int`, `b : Bool`, `tcp.port : Int`, `ip.src : Ip`, `http.host : Bytes`,
`tcp.ports : Array Int`, `http.headers : Map Bytes`, `m : Map (Array Bytes)`, `flags : Map Bool`;
lists registered for `Int` (0) and `Ip` (1), none for `Bytes`. Two
spellings of one filter — `tcp.port ge 80 and not (i ==  -5 or b)` and
`tcp.port>=80&&!(i eq -5||b)` — and a third one with a hexadecimal literal; a filter with a byte
string and an address; atoms with index suffixes, `in { … }` and `contains`. Used by the non-vacuity examples of `Props/C01Atoms.lean`.
Helper lemmas only.
-/
namespace WfModel.Atoms

open WfModel WfModel.Render

def cScheme : Scheme :=
  { fields := [⟨"i".toList, .int, false⟩, ⟨"b".toList, .bool, false⟩,
      ⟨"tcp.port".toList, .int, false⟩, ⟨"ip.src".toList, .ip, false⟩,
      ⟨"http.host".toList, .bytes, false⟩,
      ⟨"tcp.ports".toList, .array .int, false⟩, ⟨"http.headers".toList, .map .bytes, false⟩,
      ⟨"m".toList, .map (.array .bytes), false⟩, ⟨"flags".toList, .map .bool, false⟩],
    funcs := [], lists := [(.int, .always), (.ip, .never)] }

def cEnv : PEnv := { scheme := cScheme, st := {} }

/-! ### digit strings (`digits` is defined by well-founded recursion: unfold by rewriting) -/

theorem digits10_80 : digits 10 80 = ['8', '0'] := by
  rw [digits_big (by omega) (by omega), digits_small (by omega)]; decide

theorem digits16_80 : digits 16 80 = ['5', '0'] := by
  rw [digits_big (by omega) (by omega), digits_small (by omega)]; decide

theorem digits10_5 : digits 10 5 = ['5'] := by rw [digits_small (by omega)]; decide
theorem digits10_10 : digits 10 10 = ['1', '0'] := by
  rw [digits_big (by omega) (by omega), digits_small (by omega)]; decide
theorem digits10_0 : digits 10 0 = ['0'] := by rw [digits_small (by omega)]; decide
theorem digits10_1 : digits 10 1 = ['1'] := by rw [digits_small (by omega)]; decide

/-! ### the atoms -/

/-- `tcp.port ge 80` -/
def aPortWord : CAtom := .intCmp "tcp.port".toList [' '] .ge false [' '] 80
/-- `tcp.port>=80` -/
def aPortSym : CAtom := .intCmp "tcp.port".toList [] .ge true [] 80
/-- `tcp.port  >= 0x50` -/
def aPortHex : CAtom := .intCmp "tcp.port".toList [' ', ' '] .ge true [' '] 80 .hex
/-- `i ==  -5` -/
def aISym : CAtom := .intCmp "i".toList [' '] .eq true [' ', ' '] (-5)
/-- `i eq -5` -/
def aIWord : CAtom := .intCmp "i".toList [' '] .eq false [' '] (-5)
/-- `b` -/
def aB : CAtom := .boolField "b".toList
/-- `http.host eq "a\x2e\"z"`: the bytes `a . " z` -/
def aHost : CAtom :=
  .bytesCmp "http.host".toList [' '] .eq false [' ']
    [(.lit, 97), (.hex false true, 46), (.lit, 34), (.lit, 122)]
/-- `ip.src!=10.0.0.1` -/
def aSrc : CAtom := .ipCmp "ip.src".toList [] .ne true [] 167772161

theorem txt_aPortWord : (atoms cScheme).txt aPortWord = "tcp.port ge 80".toList := by
  show "tcp.port".toList ++ ([' '] ++ ("ge".toList ++ ([' '] ++ digits 10 80))) = _
  rw [digits10_80]; rfl

theorem txt_aPortSym : (atoms cScheme).txt aPortSym = "tcp.port>=80".toList := by
  show "tcp.port".toList ++ ([] ++ (">=".toList ++ ([] ++ digits 10 80))) = _
  rw [digits10_80]; rfl

theorem txt_aPortHex : (atoms cScheme).txt aPortHex = "tcp.port  >= 0x50".toList := by
  show "tcp.port".toList ++ ([' ', ' '] ++ (">=".toList ++ ([' '] ++ ('0' :: 'x' :: digits 16 80)))) = _
  rw [digits16_80]; rfl

theorem txt_aISym : (atoms cScheme).txt aISym = "i ==  -5".toList := by
  show "i".toList ++ ([' '] ++ ("==".toList ++ ([' ', ' '] ++ ('-' :: digits 10 5)))) = _
  rw [digits10_5]; rfl

theorem txt_aIWord : (atoms cScheme).txt aIWord = "i eq -5".toList := by
  show "i".toList ++ ([' '] ++ ("eq".toList ++ ([' '] ++ ('-' :: digits 10 5)))) = _
  rw [digits10_5]; rfl

theorem txt_aB : (atoms cScheme).txt aB = "b".toList := rfl

theorem txt_aHost : (atoms cScheme).txt aHost = "http.host eq \"a\\x2E\\\"z\"".toList := by
  decide

theorem txt_aSrc : (atoms cScheme).txt aSrc = "ip.src!=10.0.0.1".toList := by
  show "ip.src".toList ++ ([] ++ ("!=".toList ++ ([] ++ dotted 167772161))) = _
  have : dotted 167772161 = "10.0.0.1".toList := by
    simp only [dotted, Nat.reduceDiv, Nat.reduceMod, digits10_10, digits10_0, digits10_1]
    rfl
  rw [this]; rfl

/-! ### one filter, three spellings -/

/-- `tcp.port ge 80 and not (i ==  -5 or b)` -/
def cSk₁ : Sk CAtom :=
  .chain (.atom aPortWord)
    [(.and, .not (.paren (.chain (.atom aISym) [(.or, .atom aB)])))]

/-- `tcp.port>=80&&!(i eq -5||b)` -/
def cSk₂ : Sk CAtom :=
  .chain (.atom aPortSym)
    [(.and, .not (.paren (.chain (.atom aIWord) [(.or, .atom aB)])))]

/-- `tcp.port  >= 0x50⏎&& not( i eq -5 or b )`: hexadecimal literal, a newline, `not(` -/
def cSk₃ : Sk CAtom :=
  .chain (.atom aPortHex)
    [(.and, .not (.paren (.chain (.atom aIWord) [(.or, .atom aB)])))]

def cText₁ : Input := "tcp.port ge 80 and not (i ==  -5 or b)".toList
def cText₂ : Input := "tcp.port>=80&&!(i eq -5||b)".toList
def cText₃ : Input := "tcp.port  >= 0x50\n&& not( i eq -5 or b )".toList

/-- the AST all of them stand for -/
def cAst : LExpr :=
  .combining .and
    [.comparison (.field 2 []) (.ordering .ge (.int 80)),
     .unaryNot (.paren (.combining .or
       [.comparison (.field 0 []) (.ordering .eq (.int (-5))),
        .comparison (.field 1 []) .isTrue]))]

theorem cRenders₁ : Renders cEnv (atoms cScheme) true cSk₁ cText₁ :=
  Renders.cast
    (.chain (.atom aPortWord)
      (.cons (o := .and) [' '] "and" [' '] rfl (by decide) rfl rfl
        (.not "not" [' '] (by decide) rfl rfl
          (.paren [] [] rfl rfl
            (.chain (.atom aISym)
              (.cons (o := .or) [' '] "or" [' '] rfl (by decide) rfl rfl (.atom aB) (.nil _)))))
        (.nil _)))
    (by rw [txt_aPortWord, txt_aISym, txt_aB]; rfl)

theorem cRenders₂ : Renders cEnv (atoms cScheme) true cSk₂ cText₂ :=
  Renders.cast
    (.chain (.atom aPortSym)
      (.cons (o := .and) [] "&&" [] rfl (by decide) rfl rfl
        (.not "!" [] (by decide) rfl (by decide)
          (.paren [] [] rfl rfl
            (.chain (.atom aIWord)
              (.cons (o := .or) [] "||" [] rfl (by decide) rfl rfl (.atom aB) (.nil _)))))
        (.nil _)))
    (by rw [txt_aPortSym, txt_aIWord, txt_aB]; rfl)

theorem cRenders₃ : Renders cEnv (atoms cScheme) true cSk₃ cText₃ :=
  Renders.cast
    (.chain (.atom aPortHex)
      (.cons (o := .and) ['\n'] "&&" [' '] rfl (by decide) rfl rfl
        (.not "not" [] (by decide) rfl rfl
          (.paren [' '] [' '] rfl rfl
            (.chain (.atom aIWord)
              (.cons (o := .or) [' '] "or" [' '] rfl (by decide) rfl rfl (.atom aB) (.nil _)))))
        (.nil _)))
    (by rw [txt_aPortHex, txt_aIWord, txt_aB]; rfl)

/-! ### bytes and addresses -/

/-- `http.host eq "a\x2E\"z" or ip.src!=10.0.0.1` -/
def cSk₄ : Sk CAtom := .chain (.atom aHost) [(.or, .atom aSrc)]

def cText₄ : Input := "http.host eq \"a\\x2E\\\"z\" or ip.src!=10.0.0.1".toList

def cAst₄ : LExpr :=
  .combining .or
    [.comparison (.field 4 []) (.ordering .eq (.bytes { fmt := .quoted, data := [97, 46, 34, 122] })),
     .comparison (.field 3 []) (.ordering .ne (.ip (.v4 167772161)))]

theorem cRenders₄ : Renders cEnv (atoms cScheme) false cSk₄ cText₄ :=
  Renders.cast
    (.chain (.atom aHost)
      (.cons (o := .or) [' '] "or" [' '] rfl (by decide) rfl rfl (.atom aSrc) (.nil _)))
    (by rw [txt_aHost, txt_aSrc]; rfl)

/-! ### no space is needed after a word operator, none around a symbol -/

/-- `i eq5` -/
def aI5Word : CAtom := .intCmp "i".toList [' '] .eq false [] 5
/-- `i==5` -/
def aI5Sym : CAtom := .intCmp "i".toList [] .eq true [] 5

theorem txt_aI5Word : (atoms cScheme).txt aI5Word = "i eq5".toList := by
  show "i".toList ++ ([' '] ++ ("eq".toList ++ ([] ++ digits 10 5))) = _
  rw [digits10_5]; rfl

theorem txt_aI5Sym : (atoms cScheme).txt aI5Sym = "i==5".toList := by
  show "i".toList ++ ([] ++ ("==".toList ++ ([] ++ digits 10 5))) = _
  rw [digits10_5]; rfl

theorem cRenders₅ : Renders cEnv (atoms cScheme) false (.atom aI5Word) "i eq5".toList :=
  Renders.cast (.simple (.atom aI5Word)) txt_aI5Word

theorem cRenders₆ : Renders cEnv (atoms cScheme) false (.atom aI5Sym) "i==5".toList :=
  Renders.cast (.simple (.atom aI5Sym)) txt_aI5Sym

/-! ### index suffixes, `in { … }`, `contains` -/

theorem digits10_443 : digits 10 443 = ['4', '4', '3'] := by
  rw [digits_big (by omega) (by omega), digits_big (by omega) (by omega),
    digits_small (by omega)]; decide

theorem digits10_8000 : digits 10 8000 = ['8', '0', '0', '0'] := by
  rw [digits_big (by omega) (by omega), digits_big (by omega) (by omega),
    digits_big (by omega) (by omega), digits_small (by omega)]; decide

theorem digits10_8100 : digits 10 8100 = ['8', '1', '0', '0'] := by
  rw [digits_big (by omega) (by omega), digits_big (by omega) (by omega),
    digits_big (by omega) (by omega), digits_small (by omega)]; decide

theorem digits16_0 : digits 16 0 = ['0'] := by rw [digits_small (by omega)]; decide

/-- `tcp.ports[0] == 80` -/
def aPorts0 : CAtom :=
  ⟨"tcp.ports".toList, [.arr [] 0 []], .ord [' '] .eq true [' '] (.int .dec 80)⟩
/-- `tcp.ports[ 0x0\n]eq 0x50`: layout inside the brackets, hexadecimal index and literal, the
word operator glued to `]` -/
def aPorts0Alt : CAtom :=
  ⟨"tcp.ports".toList, [.arr [' '] 0 ['\n'] .hex], .ord [] .eq false [' '] (.int .hex 80)⟩
/-- `http.headers["host"] contains "x"` -/
def aHdr : CAtom :=
  ⟨"http.headers".toList, [.plainKey [] "host".toList []],
    .contains [' '] [' '] (.quoted [(.lit, 120)])⟩
/-- `http.headers[ "ho\x73t" ]contains"\x78"`: the same key and needle with escapes -/
def aHdrAlt : CAtom :=
  ⟨"http.headers".toList,
    [.key [' '] [(.lit, 104), (.lit, 111), (.hex false false, 115), (.lit, 116)] [' ']],
    .contains [] [] (.quoted [(.hex false false, 120)])⟩
/-- `m["a"][0] == "v"`: a chain through `Map (Array Bytes)` -/
def aM : CAtom :=
  ⟨"m".toList, [.plainKey [] "a".toList [], .arr [] 0 []],
    .ord [' '] .eq true [' '] (.quoted [(.lit, 118)])⟩
/-- `flags["x"]`: a bare atom of type `Bool` behind a key -/
def aFlag : CAtom := ⟨"flags".toList, [.plainKey [] "x".toList []], .isTrue⟩
/-- `tcp.port in {80 443 8000..8100}` -/
def aIn : CAtom :=
  .inSet "tcp.port".toList [' '] [' '] []
    [.single .dec 80 [' '], .single .dec 443 [' '], .range .dec 8000 .dec 8100 []]
/-- `tcp.port in{ 0x50 443\n8000..8100 }` -/
def aInAlt : CAtom :=
  .inSet "tcp.port".toList [' '] [] [' ']
    [.single .hex 80 [' '], .single .dec 443 ['\n'], .range .dec 8000 .dec 8100 [' ']]

theorem txt_aPorts0 : (atoms cScheme).txt aPorts0 = "tcp.ports[0] == 80".toList := by
  show "tcp.ports".toList ++ (('[' :: ([] ++ (digits 10 0 ++ ([] ++ [']']))) ++ []) ++
    ([' '] ++ ("==".toList ++ ([' '] ++ digits 10 80)))) = _
  rw [digits10_0, digits10_80]; rfl

theorem txt_aPorts0Alt : (atoms cScheme).txt aPorts0Alt = "tcp.ports[ 0x0\n]eq 0x50".toList := by
  show "tcp.ports".toList ++ (('[' :: ([' '] ++ (('0' :: 'x' :: digits 16 0) ++ (['\n'] ++ [']']))) ++ []) ++
    ([] ++ ("eq".toList ++ ([' '] ++ ('0' :: 'x' :: digits 16 80))))) = _
  rw [digits16_0, digits16_80]; rfl

theorem txt_aHdr : (atoms cScheme).txt aHdr = "http.headers[\"host\"] contains \"x\"".toList := by
  decide

theorem txt_aHdrAlt :
    (atoms cScheme).txt aHdrAlt = "http.headers[ \"ho\\x73t\" ]contains\"\\x78\"".toList := by
  decide

theorem txt_aM : (atoms cScheme).txt aM = "m[\"a\"][0] == \"v\"".toList := by
  show "m".toList ++ ((Ix.txt (.plainKey [] "a".toList []) ++
    ('[' :: ([] ++ (digits 10 0 ++ ([] ++ [']']))) ++ [])) ++
      ([' '] ++ ("==".toList ++ ([' '] ++ (Lit.quoted [(.lit, 118)]).txt)))) = _
  rw [digits10_0]; decide

theorem txt_aFlag : (atoms cScheme).txt aFlag = "flags[\"x\"]".toList := by decide

/-! integer renderings of non-negative values without unfolding `digits` in the kernel (it is
defined by well-founded recursion: cheap on `80`, hopeless on `8000`) -/

theorem renderInt_dec_nat (n : Nat) : renderInt .dec (n : Int) = digits 10 n := by
  simp only [renderInt, renderDec]
  have : ¬ ((n : Int) < 0) := by omega
  simp [this]

theorem renderInt_hex_nat (n : Nat) : renderInt .hex (n : Int) = '0' :: 'x' :: digits 16 n := by
  simp [renderInt, renderHex]

theorem r80 : renderInt .dec 80 = ['8', '0'] := (renderInt_dec_nat 80).trans digits10_80
theorem r443 : renderInt .dec 443 = ['4', '4', '3'] := (renderInt_dec_nat 443).trans digits10_443
theorem r8000 : renderInt .dec 8000 = ['8', '0', '0', '0'] :=
  (renderInt_dec_nat 8000).trans digits10_8000
theorem r8100 : renderInt .dec 8100 = ['8', '1', '0', '0'] :=
  (renderInt_dec_nat 8100).trans digits10_8100
theorem rx80 : renderInt .hex 80 = ['0', 'x', '5', '0'] := by
  rw [show (80 : Int) = ((80 : Nat) : Int) from rfl, renderInt_hex_nat, digits16_80]

theorem txt_aIn : (atoms cScheme).txt aIn = "tcp.port in {80 443 8000..8100}".toList := by
  have e : (atoms cScheme).txt aIn = "tcp.port".toList ++ ([] ++ ([' '] ++ ("in".toList ++
    ([' '] ++ ('{' :: ([] ++ ((renderInt .dec 80 ++ ([' '] ++ (renderInt .dec 443 ++ ([' '] ++
      ((renderInt .dec 8000 ++ ('.' :: '.' :: renderInt .dec 8100)) ++ ([] ++ [])))))) ++
        ['}']))))))) := rfl
  rw [e, r80, r443, r8000, r8100]; decide

theorem txt_aInAlt : (atoms cScheme).txt aInAlt = "tcp.port in{ 0x50 443\n8000..8100 }".toList := by
  have e : (atoms cScheme).txt aInAlt = "tcp.port".toList ++ ([] ++ ([' '] ++ ("in".toList ++
    ([] ++ ('{' :: ([' '] ++ ((renderInt .hex 80 ++ ([' '] ++ (renderInt .dec 443 ++ (['\n'] ++
      ((renderInt .dec 8000 ++ ('.' :: '.' :: renderInt .dec 8100)) ++ ([' '] ++ [])))))) ++
        ['}']))))))) := rfl
  rw [e, rx80, r443, r8000, r8100]; decide

/-- `tcp.port in {80 443 8000..8100} and http.headers["host"] contains "x" or m["a"][0] == "v"` -/
def cSk₇ : Sk CAtom := .chain (.atom aIn) [(.and, .atom aHdr), (.or, .atom aM)]

/-- the same filter, every atom spelled differently:
`tcp.port in{ 0x50 443⏎8000..8100 }&&http.headers[ "ho\x73t" ]contains"\x78"||m["a"][0] == "v"` -/
def cSk₈ : Sk CAtom := .chain (.atom aInAlt) [(.and, .atom aHdrAlt), (.or, .atom aM)]

def cText₇ : Input :=
  "tcp.port in {80 443 8000..8100} and http.headers[\"host\"] contains \"x\" or m[\"a\"][0] == \"v\"".toList

def cText₈ : Input :=
  "tcp.port in{ 0x50 443\n8000..8100 }&&http.headers[ \"ho\\x73t\" ]contains\"\\x78\"||m[\"a\"][0] == \"v\"".toList

/-- the AST both stand for: `or[ and[ tcp.port in {80..80, 443..443, 8000..8100},
http.headers["host"] contains "x" ], m["a"][0] == "v" ]` -/
def cAst₇ : LExpr :=
  .combining .or
    [.combining .and
      [.comparison (.field 2 []) (.oneOf (.int [(80, 80), (443, 443), (8000, 8100)])),
       .comparison (.field 6 [.key "host".toList]) (.contains { fmt := .quoted, data := [120] })],
     .comparison (.field 7 [.key "a".toList, .arr 0])
       (.ordering .eq (.bytes { fmt := .quoted, data := [118] }))]

theorem cRenders₇ : Renders cEnv (atoms cScheme) true cSk₇ cText₇ :=
  Renders.cast
    (.chain (.atom aIn)
      (.cons (o := .and) [' '] "and" [' '] rfl (by decide) rfl rfl (.atom aHdr)
        (.cons (o := .or) [' '] "or" [' '] rfl (by decide) rfl rfl (.atom aM) (.nil _))))
    (by rw [txt_aIn, txt_aHdr, txt_aM]; rfl)

theorem cRenders₈ : Renders cEnv (atoms cScheme) true cSk₈ cText₈ :=
  Renders.cast
    (.chain (.atom aInAlt)
      (.cons (o := .and) [] "&&" [] rfl (by decide) rfl rfl (.atom aHdrAlt)
        (.cons (o := .or) [] "||" [] rfl (by decide) rfl rfl (.atom aM) (.nil _))))
    (by rw [txt_aInAlt, txt_aHdrAlt, txt_aM]; rfl)

/-- `tcp.ports[0] == 80 and not flags["x"]` -/
def cSk₉ : Sk CAtom := .chain (.atom aPorts0) [(.and, .not (.atom aFlag))]
/-- `tcp.ports[ 0x0⏎]eq 0x50&&!flags["x"]` -/
def cSk₁₀ : Sk CAtom := .chain (.atom aPorts0Alt) [(.and, .not (.atom aFlag))]

def cText₉ : Input := "tcp.ports[0] == 80 and not flags[\"x\"]".toList
def cText₁₀ : Input := "tcp.ports[ 0x0\n]eq 0x50&&!flags[\"x\"]".toList

def cAst₉ : LExpr :=
  .combining .and
    [.comparison (.field 5 [.arr 0]) (.ordering .eq (.int 80)),
     .unaryNot (.comparison (.field 8 [.key "x".toList]) .isTrue)]

theorem cRenders₉ : Renders cEnv (atoms cScheme) true cSk₉ cText₉ :=
  Renders.cast
    (.chain (.atom aPorts0)
      (.cons (o := .and) [' '] "and" [' '] rfl (by decide) rfl rfl
        (.not "not" [' '] (by decide) rfl rfl (.atom aFlag)) (.nil _)))
    (by rw [txt_aPorts0, txt_aFlag]; rfl)

theorem cRenders₁₀ : Renders cEnv (atoms cScheme) true cSk₁₀ cText₁₀ :=
  Renders.cast
    (.chain (.atom aPorts0Alt)
      (.cons (o := .and) [] "&&" [] rfl (by decide) rfl rfl
        (.not "!" [] (by decide) rfl (by decide) (.atom aFlag)) (.nil _)))
    (by rw [txt_aPorts0Alt, txt_aFlag]; rfl)

/-! ### `in {…}` on `Bytes` / `Ip`, `&` / `bitwise_and`, `in $list` -/

theorem digits10_16 : digits 10 16 = ['1', '6'] := by
  rw [digits_big (by omega) (by omega), digits_small (by omega)]; decide
theorem digits16_16 : digits 16 16 = ['1', '0'] := by
  rw [digits_big (by omega) (by omega), digits_small (by omega)]; decide
theorem digits10_255 : digits 10 255 = ['2', '5', '5'] := by
  rw [digits_big (by omega) (by omega), digits_big (by omega) (by omega),
    digits_small (by omega)]; decide
theorem digits10_192 : digits 10 192 = ['1', '9', '2'] := by
  rw [digits_big (by omega) (by omega), digits_big (by omega) (by omega),
    digits_small (by omega)]; decide
theorem digits10_168 : digits 10 168 = ['1', '6', '8'] := by
  rw [digits_big (by omega) (by omega), digits_big (by omega) (by omega),
    digits_small (by omega)]; decide

theorem dotted_10_0_0_1 : dotted 167772161 = "10.0.0.1".toList := by
  simp only [dotted, Nat.reduceDiv, Nat.reduceMod, digits10_10, digits10_0, digits10_1]; rfl
theorem dotted_10_0_0_0 : dotted 167772160 = "10.0.0.0".toList := by
  simp only [dotted, Nat.reduceDiv, Nat.reduceMod, digits10_10, digits10_0]; rfl
theorem dotted_10_0_0_255 : dotted 167772415 = "10.0.0.255".toList := by
  simp only [dotted, Nat.reduceDiv, Nat.reduceMod, digits10_10, digits10_0, digits10_255]; rfl
theorem dotted_192_168_0_0 : dotted 3232235520 = "192.168.0.0".toList := by
  simp only [dotted, Nat.reduceDiv, Nat.reduceMod, digits10_192, digits10_168, digits10_0]; rfl

theorem r16 : renderInt .dec 16 = ['1', '6'] := (renderInt_dec_nat 16).trans digits10_16
theorem rx16 : renderInt .hex 16 = ['0', 'x', '1', '0'] := by
  rw [show (16 : Int) = ((16 : Nat) : Int) from rfl, renderInt_hex_nat, digits16_16]

/-- `http.host in {"a" r#"b"#}` -/
def aHostIn : CAtom :=
  .inBytesSet "http.host".toList [' '] [' '] []
    [(.quoted [(.lit, 97)], [' ']), (.raw 1 "b".toList, [])]
/-- `http.host in{ "\x61"
r"b" }`: the same strings, escaped / without hashes -/
def aHostInAlt : CAtom :=
  .inBytesSet "http.host".toList [' '] [] [' ']
    [(.quoted [(.hex false false, 97)], ['\n']), (.raw 0 "b".toList, [' '])]
/-- `ip.src in {10.0.0.1 10.0.0.0..10.0.0.255 192.168.0.0/16}` -/
def aSrcIn : CAtom :=
  .inIpSet "ip.src".toList [' '] [' '] []
    [.single 167772161 [' '], .range 167772160 167772415 [' '], .cidr 3232235520 16 []]
/-- `ip.src in{ 10.0.0.1
10.0.0.0..10.0.0.255 192.168.0.0/16 }` -/
def aSrcInAlt : CAtom :=
  .inIpSet "ip.src".toList [' '] [] [' ']
    [.single 167772161 ['\n'], .range 167772160 167772415 [' '], .cidr 3232235520 16 [' ']]
/-- `i & 0x10` -/
def aMask : CAtom := .bitAndCmp "i".toList [' '] true [' '] 16 .hex
/-- `i&16`: the symbol glued on both sides -/
def aMaskSym : CAtom := .bitAndCmp "i".toList [] true [] 16
/-- `i bitwise_and 16` -/
def aMaskWord : CAtom := .bitAndCmp "i".toList [' '] false [' '] 16
/-- `tcp.port in $bad.ports` -/
def aList : CAtom := .inListCmp "tcp.port".toList [' '] [' '] .int 0 "bad.ports".toList
/-- `tcp.port in$bad.ports` -/
def aListAlt : CAtom := .inListCmp "tcp.port".toList [' '] [] .int 0 "bad.ports".toList
/-- `ip.src in $nets_1` -/
def aListIp : CAtom := .inListCmp "ip.src".toList [' '] [' '] .ip 1 "nets_1".toList

theorem txt_aHostIn : (atoms cScheme).txt aHostIn = "http.host in {\"a\" r#\"b\"#}".toList := by
  decide
theorem txt_aHostInAlt :
    (atoms cScheme).txt aHostInAlt = "http.host in{ \"\\x61\"\nr\"b\" }".toList := by decide

theorem txt_aSrcIn :
    (atoms cScheme).txt aSrcIn =
      "ip.src in {10.0.0.1 10.0.0.0..10.0.0.255 192.168.0.0/16}".toList := by
  have e : (atoms cScheme).txt aSrcIn = "ip.src".toList ++ ([] ++ ([' '] ++ ("in".toList ++
    ([' '] ++ ('{' :: ([] ++ ((dotted 167772161 ++ ([' '] ++
      ((dotted 167772160 ++ ('.' :: '.' :: dotted 167772415)) ++ ([' '] ++
        ((dotted 3232235520 ++ ('/' :: digits 10 16)) ++ ([] ++ [])))))) ++ ['}']))))))) := rfl
  rw [e, dotted_10_0_0_1, dotted_10_0_0_0, dotted_10_0_0_255, dotted_192_168_0_0, digits10_16]
  decide

theorem txt_aSrcInAlt :
    (atoms cScheme).txt aSrcInAlt =
      "ip.src in{ 10.0.0.1\n10.0.0.0..10.0.0.255 192.168.0.0/16 }".toList := by
  have e : (atoms cScheme).txt aSrcInAlt = "ip.src".toList ++ ([] ++ ([' '] ++ ("in".toList ++
    ([] ++ ('{' :: ([' '] ++ ((dotted 167772161 ++ (['\n'] ++
      ((dotted 167772160 ++ ('.' :: '.' :: dotted 167772415)) ++ ([' '] ++
        ((dotted 3232235520 ++ ('/' :: digits 10 16)) ++ ([' '] ++ [])))))) ++ ['}']))))))) := rfl
  rw [e, dotted_10_0_0_1, dotted_10_0_0_0, dotted_10_0_0_255, dotted_192_168_0_0, digits10_16]
  decide

theorem txt_aMask : (atoms cScheme).txt aMask = "i & 0x10".toList := by
  have e : (atoms cScheme).txt aMask =
    "i".toList ++ ([] ++ ([' '] ++ ("&".toList ++ ([' '] ++ renderInt .hex 16)))) := rfl
  rw [e, rx16]; decide
theorem txt_aMaskSym : (atoms cScheme).txt aMaskSym = "i&16".toList := by
  have e : (atoms cScheme).txt aMaskSym =
    "i".toList ++ ([] ++ ([] ++ ("&".toList ++ ([] ++ renderInt .dec 16)))) := rfl
  rw [e, r16]; decide
theorem txt_aMaskWord : (atoms cScheme).txt aMaskWord = "i bitwise_and 16".toList := by
  have e : (atoms cScheme).txt aMaskWord =
    "i".toList ++ ([] ++ ([' '] ++ ("bitwise_and".toList ++ ([' '] ++ renderInt .dec 16)))) := rfl
  rw [e, r16]; decide
theorem txt_aList : (atoms cScheme).txt aList = "tcp.port in $bad.ports".toList := by decide
theorem txt_aListAlt : (atoms cScheme).txt aListAlt = "tcp.port in$bad.ports".toList := by decide
theorem txt_aListIp : (atoms cScheme).txt aListIp = "ip.src in $nets_1".toList := by decide

/-- `i & 0x10 and ip.src in {…} or tcp.port in $bad.ports` -/
def cSk₁₁ : Sk CAtom := .chain (.atom aMask) [(.and, .atom aSrcIn), (.or, .atom aList)]
/-- `i&16&&ip.src in{ … }||tcp.port in$bad.ports` -/
def cSk₁₂ : Sk CAtom := .chain (.atom aMaskSym) [(.and, .atom aSrcInAlt), (.or, .atom aListAlt)]

def cText₁₁ : Input :=
  "i & 0x10 and ip.src in {10.0.0.1 10.0.0.0..10.0.0.255 192.168.0.0/16} or tcp.port in $bad.ports".toList
def cText₁₂ : Input :=
  "i&16&&ip.src in{ 10.0.0.1\n10.0.0.0..10.0.0.255 192.168.0.0/16 }||tcp.port in$bad.ports".toList

/-- `or[ and[ i & 16, ip.src in {10.0.0.1/32, 10.0.0.0..10.0.0.255, 192.168.0.0/16} ],
tcp.port in $bad.ports (list 0) ]` -/
def cAst₁₁ : LExpr :=
  .combining .or
    [.combining .and
      [.comparison (.field 0 []) (.bitAnd 16),
       .comparison (.field 3 [])
         (.oneOf (.ip [.cidr false 167772161 32, .explicit false 167772160 167772415,
           .cidr false 3232235520 16]))],
     .comparison (.field 2 []) (.inList 0 "bad.ports".toList)]

theorem cRenders₁₁ : Renders cEnv (atoms cScheme) true cSk₁₁ cText₁₁ :=
  Renders.cast
    (.chain (.atom aMask)
      (.cons (o := .and) [' '] "and" [' '] rfl (by decide) rfl rfl (.atom aSrcIn)
        (.cons (o := .or) [' '] "or" [' '] rfl (by decide) rfl rfl (.atom aList) (.nil _))))
    (by rw [txt_aMask, txt_aSrcIn, txt_aList]; rfl)

theorem cRenders₁₂ : Renders cEnv (atoms cScheme) true cSk₁₂ cText₁₂ :=
  Renders.cast
    (.chain (.atom aMaskSym)
      (.cons (o := .and) [] "&&" [] rfl (by decide) rfl rfl (.atom aSrcInAlt)
        (.cons (o := .or) [] "||" [] rfl (by decide) rfl rfl (.atom aListAlt) (.nil _))))
    (by rw [txt_aMaskSym, txt_aSrcInAlt, txt_aListAlt]; rfl)

/-- `http.host in {"a" r#"b"#} and i bitwise_and 16` -/
def cSk₁₃ : Sk CAtom := .chain (.atom aHostIn) [(.and, .atom aMaskWord)]
/-- `http.host in{ "\x61"⏎r"b" }&&i&16` -/
def cSk₁₄ : Sk CAtom := .chain (.atom aHostInAlt) [(.and, .atom aMaskSym)]

def cText₁₃ : Input := "http.host in {\"a\" r#\"b\"#} and i bitwise_and 16".toList
def cText₁₄ : Input := "http.host in{ \"\\x61\"\nr\"b\" }&&i&16".toList

theorem cRenders₁₃ : Renders cEnv (atoms cScheme) true cSk₁₃ cText₁₃ :=
  Renders.cast
    (.chain (.atom aHostIn)
      (.cons (o := .and) [' '] "and" [' '] rfl (by decide) rfl rfl (.atom aMaskWord) (.nil _)))
    (by rw [txt_aHostIn, txt_aMaskWord]; rfl)

theorem cRenders₁₄ : Renders cEnv (atoms cScheme) true cSk₁₄ cText₁₄ :=
  Renders.cast
    (.chain (.atom aHostInAlt)
      (.cons (o := .and) [] "&&" [] rfl (by decide) rfl rfl (.atom aMaskSym) (.nil _)))
    (by rw [txt_aHostInAlt, txt_aMaskSym]; rfl)

/-! ### `[*]` and quantifier calls -/

/-- `http.headers[ * ] contains "x"` -/
def eHdr : EAtom :=
  ⟨"http.headers".toList, [.each [' '] [' ']], .contains [' '] [' '] (.quoted [(.lit, 120)])⟩
/-- `m["a"][*] in {"v" r"w"}` -/
def eM : EAtom :=
  ⟨"m".toList, [.ix (.plainKey [] "a".toList []), .each [] []],
    .inBytes [' '] [' '] [] [(.quoted [(.lit, 118)], [' ']), (.raw 0 "w".toList, [])]⟩
/-- `tcp.ports[*] == 80` -/
def ePorts : EAtom :=
  ⟨"tcp.ports".toList, [.each [] []], .ord [' '] .eq true [' '] (.int .dec 80)⟩
/-- `m[*][*]=="v"`: two `[*]` -/
def eMM : EAtom :=
  ⟨"m".toList, [.each [] [], .each [] []], .ord [] .eq true [] (.quoted [(.lit, 118)])⟩

theorem txt_eHdr : eHdr.txt = "http.headers[ * ] contains \"x\"".toList := by decide
theorem txt_eM : eM.txt = "m[\"a\"][*] in {\"v\" r\"w\"}".toList := by decide
theorem txt_ePorts : ePorts.txt = "tcp.ports[*] == 80".toList := by
  have e : ePorts.txt = "tcp.ports".toList ++ (['[', '*', ']'] ++
    ([' '] ++ ("==".toList ++ ([' '] ++ renderInt .dec 80)))) := rfl
  rw [e, r80]; decide
theorem txt_eMM : eMM.txt = "m[*][*]==\"v\"".toList := by decide

/-! ### IPv6 items in address sets -/

theorem digits16_1 : digits 16 1 = ['1'] := by rw [digits_small (by omega)]; decide
theorem digits10_127 : digits 10 127 = ['1', '2', '7'] := by
  rw [digits_big (by omega) (by omega), digits_big (by omega) (by omega),
    digits_small (by omega)]; decide

theorem v6full_0 : v6full 0 = "0:0:0:0:0:0:0:0".toList := by
  simp only [v6full, v6parts, v6groups, Nat.reducePow, Nat.reduceDiv, Nat.reduceMod, digits16_0]
  rfl
theorem v6full_1 : v6full 1 = "0:0:0:0:0:0:0:1".toList := by
  simp only [v6full, v6parts, v6groups, Nat.reducePow, Nat.reduceDiv, Nat.reduceMod, digits16_0,
    digits16_1]
  rfl

/-- `ip.src in {0:0:0:0:0:0:0:1 0:0:0:0:0:0:0:0..0:0:0:0:0:0:0:1 0:0:0:0:0:0:0:0/127 10.0.0.1}` -/
def aSrc6In : CAtom :=
  .inIpSet "ip.src".toList [' '] [' '] []
    [.single6 1 [' '], .range6 0 1 [' '], .cidr6 0 127 [' '], .single 167772161 []]

theorem txt_aSrc6In : (atoms cScheme).txt aSrc6In =
    "ip.src in {0:0:0:0:0:0:0:1 0:0:0:0:0:0:0:0..0:0:0:0:0:0:0:1 0:0:0:0:0:0:0:0/127 10.0.0.1}".toList := by
  have e : (atoms cScheme).txt aSrc6In = "ip.src".toList ++ ([] ++ ([' '] ++ ("in".toList ++
    ([' '] ++ ('{' :: ([] ++ ((v6full 1 ++ ([' '] ++
      ((v6full 0 ++ ('.' :: '.' :: v6full 1)) ++ ([' '] ++
        ((v6full 0 ++ ('/' :: digits 10 127)) ++ ([' '] ++
          (dotted 167772161 ++ ([] ++ [])))))))) ++ ['}']))))))) := rfl
  rw [e, v6full_0, v6full_1, digits10_127, dotted_10_0_0_1]
  decide

end WfModel.Atoms
