import WfModel.Lemmas.Atoms

/-!
# A concrete scheme, concrete atoms, concrete renderings

Scheme `i : Int`, `b : Bool`, `tcp.port : Int`, `ip.src : Ip`, `http.host : Bytes`. Two
spellings of one filter — `tcp.port ge 80 and not (i ==  -5 or b)` and
`tcp.port>=80&&!(i eq -5||b)` — and a third one with a hexadecimal literal; a filter with a byte
string and an address. Used by the non-vacuity examples of `Props/C01Atoms.lean`.
Helper lemmas only.
-/
namespace WfModel.Atoms

open WfModel WfModel.Render

def cScheme : Scheme :=
  { fields := [⟨"i".toList, .int, false⟩, ⟨"b".toList, .bool, false⟩,
      ⟨"tcp.port".toList, .int, false⟩, ⟨"ip.src".toList, .ip, false⟩,
      ⟨"http.host".toList, .bytes, false⟩],
    funcs := [], lists := [] }

def cEnv : PEnv := { scheme := cScheme, st := {} }

/-! ### digit strings (`digits` is defined by well-founded recursion: unfold by rewriting) -/

theorem digits10_80 : digits 10 80 = ['8', '0'] := by
  rw [digits_big (by omega) (by omega), digits_small (by omega)]; decide

theorem digits16_80 : digits 16 80 = ['5', '0'] := by
  rw [digits_big (by omega) (by omega), digits_small (by omega)]; decide

theorem digits10_5 : digits 10 5 = ['5'] := by rw [digits_small (by omega)]; decide
theorem digits10_10 : digits 10 10 = ['1', '0'] := by
  rw [digits_big (by omega) (by omega), digits_small (by omega)]; decide
theorem digits10_0 : digits 10 0 = ['0'] := by rw [digits_small (by omega)]; decide
theorem digits10_1 : digits 10 1 = ['1'] := by rw [digits_small (by omega)]; decide

/-! ### the atoms -/

/-- `tcp.port ge 80` -/
def aPortWord : CAtom := .intCmp "tcp.port".toList [' '] .ge false [' '] 80
/-- `tcp.port>=80` -/
def aPortSym : CAtom := .intCmp "tcp.port".toList [] .ge true [] 80
/-- `tcp.port  >= 0x50` -/
def aPortHex : CAtom := .intCmp "tcp.port".toList [' ', ' '] .ge true [' '] 80 .hex
/-- `i ==  -5` -/
def aISym : CAtom := .intCmp "i".toList [' '] .eq true [' ', ' '] (-5)
/-- `i eq -5` -/
def aIWord : CAtom := .intCmp "i".toList [' '] .eq false [' '] (-5)
/-- `b` -/
def aB : CAtom := .boolField "b".toList
/-- `http.host eq "a\x2e\"z"`: the bytes `a . " z` -/
def aHost : CAtom :=
  .bytesCmp "http.host".toList [' '] .eq false [' ']
    [(.lit, 97), (.hex false true, 46), (.lit, 34), (.lit, 122)]
/-- `ip.src!=10.0.0.1` -/
def aSrc : CAtom := .ipCmp "ip.src".toList [] .ne true [] 167772161

theorem txt_aPortWord : (atoms cScheme).txt aPortWord = "tcp.port ge 80".toList := by
  show "tcp.port".toList ++ ([' '] ++ ("ge".toList ++ ([' '] ++ digits 10 80))) = _
  rw [digits10_80]; rfl

theorem txt_aPortSym : (atoms cScheme).txt aPortSym = "tcp.port>=80".toList := by
  show "tcp.port".toList ++ ([] ++ (">=".toList ++ ([] ++ digits 10 80))) = _
  rw [digits10_80]; rfl

theorem txt_aPortHex : (atoms cScheme).txt aPortHex = "tcp.port  >= 0x50".toList := by
  show "tcp.port".toList ++ ([' ', ' '] ++ (">=".toList ++ ([' '] ++ ('0' :: 'x' :: digits 16 80)))) = _
  rw [digits16_80]; rfl

theorem txt_aISym : (atoms cScheme).txt aISym = "i ==  -5".toList := by
  show "i".toList ++ ([' '] ++ ("==".toList ++ ([' ', ' '] ++ ('-' :: digits 10 5)))) = _
  rw [digits10_5]; rfl

theorem txt_aIWord : (atoms cScheme).txt aIWord = "i eq -5".toList := by
  show "i".toList ++ ([' '] ++ ("eq".toList ++ ([' '] ++ ('-' :: digits 10 5)))) = _
  rw [digits10_5]; rfl

theorem txt_aB : (atoms cScheme).txt aB = "b".toList := rfl

theorem txt_aHost : (atoms cScheme).txt aHost = "http.host eq \"a\\x2E\\\"z\"".toList := by
  decide

theorem txt_aSrc : (atoms cScheme).txt aSrc = "ip.src!=10.0.0.1".toList := by
  show "ip.src".toList ++ ([] ++ ("!=".toList ++ ([] ++ dotted 167772161))) = _
  have : dotted 167772161 = "10.0.0.1".toList := by
    simp only [dotted, Nat.reduceDiv, Nat.reduceMod, digits10_10, digits10_0, digits10_1]
    rfl
  rw [this]; rfl

/-! ### one filter, three spellings -/

/-- `tcp.port ge 80 and not (i ==  -5 or b)` -/
def cSk₁ : Sk CAtom :=
  .chain (.atom aPortWord)
    [(.and, .not (.paren (.chain (.atom aISym) [(.or, .atom aB)])))]

/-- `tcp.port>=80&&!(i eq -5||b)` -/
def cSk₂ : Sk CAtom :=
  .chain (.atom aPortSym)
    [(.and, .not (.paren (.chain (.atom aIWord) [(.or, .atom aB)])))]

/-- `tcp.port  >= 0x50⏎&& not( i eq -5 or b )`: hexadecimal literal, a newline, `not(` -/
def cSk₃ : Sk CAtom :=
  .chain (.atom aPortHex)
    [(.and, .not (.paren (.chain (.atom aIWord) [(.or, .atom aB)])))]

def cText₁ : Input := "tcp.port ge 80 and not (i ==  -5 or b)".toList
def cText₂ : Input := "tcp.port>=80&&!(i eq -5||b)".toList
def cText₃ : Input := "tcp.port  >= 0x50\n&& not( i eq -5 or b )".toList

/-- the AST all of them stand for -/
def cAst : LExpr :=
  .combining .and
    [.comparison (.field 2 []) (.ordering .ge (.int 80)),
     .unaryNot (.paren (.combining .or
       [.comparison (.field 0 []) (.ordering .eq (.int (-5))),
        .comparison (.field 1 []) .isTrue]))]

theorem cRenders₁ : Renders cEnv (atoms cScheme) true cSk₁ cText₁ :=
  Renders.cast
    (.chain (.atom aPortWord)
      (.cons (o := .and) [' '] "and" [' '] rfl (by decide) rfl rfl
        (.not "not" [' '] (by decide) rfl rfl
          (.paren [] [] rfl rfl
            (.chain (.atom aISym)
              (.cons (o := .or) [' '] "or" [' '] rfl (by decide) rfl rfl (.atom aB) (.nil _)))))
        (.nil _)))
    (by rw [txt_aPortWord, txt_aISym, txt_aB]; rfl)

theorem cRenders₂ : Renders cEnv (atoms cScheme) true cSk₂ cText₂ :=
  Renders.cast
    (.chain (.atom aPortSym)
      (.cons (o := .and) [] "&&" [] rfl (by decide) rfl rfl
        (.not "!" [] (by decide) rfl (by decide)
          (.paren [] [] rfl rfl
            (.chain (.atom aIWord)
              (.cons (o := .or) [] "||" [] rfl (by decide) rfl rfl (.atom aB) (.nil _)))))
        (.nil _)))
    (by rw [txt_aPortSym, txt_aIWord, txt_aB]; rfl)

theorem cRenders₃ : Renders cEnv (atoms cScheme) true cSk₃ cText₃ :=
  Renders.cast
    (.chain (.atom aPortHex)
      (.cons (o := .and) ['\n'] "&&" [' '] rfl (by decide) rfl rfl
        (.not "not" [] (by decide) rfl rfl
          (.paren [' '] [' '] rfl rfl
            (.chain (.atom aIWord)
              (.cons (o := .or) [' '] "or" [' '] rfl (by decide) rfl rfl (.atom aB) (.nil _)))))
        (.nil _)))
    (by rw [txt_aPortHex, txt_aIWord, txt_aB]; rfl)

/-! ### bytes and addresses -/

/-- `http.host eq "a\x2E\"z" or ip.src!=10.0.0.1` -/
def cSk₄ : Sk CAtom := .chain (.atom aHost) [(.or, .atom aSrc)]

def cText₄ : Input := "http.host eq \"a\\x2E\\\"z\" or ip.src!=10.0.0.1".toList

def cAst₄ : LExpr :=
  .combining .or
    [.comparison (.field 4 []) (.ordering .eq (.bytes { fmt := .quoted, data := [97, 46, 34, 122] })),
     .comparison (.field 3 []) (.ordering .ne (.ip (.v4 167772161)))]

theorem cRenders₄ : Renders cEnv (atoms cScheme) false cSk₄ cText₄ :=
  Renders.cast
    (.chain (.atom aHost)
      (.cons (o := .or) [' '] "or" [' '] rfl (by decide) rfl rfl (.atom aSrc) (.nil _)))
    (by rw [txt_aHost, txt_aSrc]; rfl)

/-! ### no space is needed after a word operator, none around a symbol -/

/-- `i eq5` -/
def aI5Word : CAtom := .intCmp "i".toList [' '] .eq false [] 5
/-- `i==5` -/
def aI5Sym : CAtom := .intCmp "i".toList [] .eq true [] 5

theorem txt_aI5Word : (atoms cScheme).txt aI5Word = "i eq5".toList := by
  show "i".toList ++ ([' '] ++ ("eq".toList ++ ([] ++ digits 10 5))) = _
  rw [digits10_5]; rfl

theorem txt_aI5Sym : (atoms cScheme).txt aI5Sym = "i==5".toList := by
  show "i".toList ++ ([] ++ ("==".toList ++ ([] ++ digits 10 5))) = _
  rw [digits10_5]; rfl

theorem cRenders₅ : Renders cEnv (atoms cScheme) false (.atom aI5Word) "i eq5".toList :=
  Renders.cast (.simple (.atom aI5Word)) txt_aI5Word

theorem cRenders₆ : Renders cEnv (atoms cScheme) false (.atom aI5Sym) "i==5".toList :=
  Renders.cast (.simple (.atom aI5Sym)) txt_aI5Sym

end WfModel.Atoms
