import WfModel.Lemmas.Render.Example
import WfModel.Lemmas.C06Base

/-!
# Concrete atoms, part 1: field names (`Identifier::lex_with`, `IndexExpr::lex_with`)

A field name as the lexer sees it is a maximal *dotted run*: non-empty runs of identifier
characters separated by single dots (`nameOk`, decidable). Before a continuation that starts with
neither an identifier character nor `.` nor `[` (`IdStop`), `lexIdentifier` reads exactly the
name and `indexExprL` returns the bare field. Helper lemmas only.
-/
namespace WfModel.Atoms

open WfModel WfModel.Render WfModel.C07L

/-! ### valid names -/

/-- non-empty runs of identifier characters separated by single dots; `seen` = the current run
is non-empty -/
def nameOkAux : Bool → List Char → Bool
  | seen, [] => seen
  | seen, c :: cs =>
    if isIdentChar c then nameOkAux true cs
    else if c = '.' then seen && nameOkAux false cs
    else false

/-- **valid field name** (what `Identifier::lex_with` can return as one identifier):
`seg(.seg)*` with `seg` a non-empty run of `[A-Za-z0-9_]` -/
def nameOk (name : List Char) : Bool := nameOkAux false name

theorem nameOkAux_ident {c : Char} (hc : isIdentChar c = true) (seen : Bool) (cs : List Char) :
    nameOkAux seen (c :: cs) = nameOkAux true cs := by
  simp [nameOkAux, hc]

theorem nameOkAux_dot (seen : Bool) (cs : List Char) :
    nameOkAux seen ('.' :: cs) = (seen && nameOkAux false cs) := by
  have : isIdentChar '.' = false := by decide
  simp [nameOkAux, this]

theorem nameOkAux_other {c : Char} (hc : isIdentChar c = false) (hd : c ≠ '.') (seen : Bool)
    (cs : List Char) : nameOkAux seen (c :: cs) = false := by
  simp [nameOkAux, hc, hd]

/-- a valid name starts with an identifier character -/
theorem nameOk_head {name : List Char} (h : nameOk name = true) :
    ∃ c cs, name = c :: cs ∧ isIdentChar c = true ∧ nameOkAux true cs = true := by
  cases name with
  | nil => simp [nameOk, nameOkAux] at h
  | cons c cs =>
    refine ⟨c, cs, rfl, ?_⟩
    by_cases hc : isIdentChar c = true
    · exact ⟨hc, by rwa [nameOk, nameOkAux_ident hc] at h⟩
    · simp only [Bool.not_eq_true] at hc
      by_cases hd : c = '.'
      · subst hd; simp [nameOk, nameOkAux_dot] at h
      · simp [nameOk, nameOkAux_other hc hd] at h

/-- inside a valid name every character is an identifier character or a dot -/
theorem nameOkAux_head {seen : Bool} {c : Char} {cs : List Char}
    (h : nameOkAux seen (c :: cs) = true) : isIdentChar c = true ∨ c = '.' := by
  by_cases hc : isIdentChar c = true
  · exact .inl hc
  · simp only [Bool.not_eq_true] at hc
    by_cases hd : c = '.'
    · exact .inr hd
    · simp [nameOkAux_other hc hd] at h

/-! ### what may follow a name -/

theorem idStop_span {rest : Input} (h : IdStop rest = true) :
    spanWhile isIdentChar rest = ([], rest) := by
  cases rest with
  | nil => rfl
  | cons c cs =>
    simp only [IdStop, Bool.and_eq_true, Bool.not_eq_true', bne_iff_ne, ne_eq] at h
    simp [spanWhile, h.1.1]

theorem idStop_no_dot {rest : Input} (h : IdStop rest = true) : expect rest "." = none := by
  cases rest with
  | nil => rfl
  | cons c cs =>
    simp only [IdStop, Bool.and_eq_true, Bool.not_eq_true', bne_iff_ne, ne_eq] at h
    show stripPrefix (c :: cs) ['.'] = none
    simp [stripPrefix, h.1.2]

theorem idStop_no_bracket {rest : Input} (h : IdStop rest = true) : expect rest "[" = none := by
  cases rest with
  | nil => rfl
  | cons c cs =>
    simp only [IdStop, Bool.and_eq_true, Bool.not_eq_true', bne_iff_ne, ne_eq] at h
    show stripPrefix (c :: cs) ['['] = none
    simp [stripPrefix, h.2]

/-- a space character ends an identifier -/
theorem idStop_of_space {c : Char} (hc : isSpace c = true) (cs : Input) :
    IdStop (c :: cs) = true := by
  have : c = ' ' ∨ c = '\r' ∨ c = '\n' := by
    simpa [isSpace, or_assoc] using hc
  rcases this with rfl | rfl | rfl <;> (rw [idStop_cons]; decide)

/-! ### the identifier loop -/

/-- `identRest` after one run has been consumed up to `b` -/
def afterRun (f : Nat) (b : Input) : LexRes Unit :=
  match expect b "." with
  | some r2 => identRest f r2
  | none => .ok ((), b)

theorem spanWhile_ident_cons {c : Char} (hc : isIdentChar c = true) (cs : Input) :
    spanWhile isIdentChar (c :: cs) =
      (c :: (spanWhile isIdentChar cs).1, (spanWhile isIdentChar cs).2) := by
  simp [spanWhile, hc]

theorem identRest_ident_cons {c : Char} (hc : isIdentChar c = true) (f : Nat) (cs : Input) :
    identRest (f + 1) (c :: cs) = afterRun f (spanWhile isIdentChar cs).2 := by
  simp only [identRest, takeWhile1, spanWhile_ident_cons hc, afterRun]
  rfl

theorem afterRun_dot (f : Nat) (cs : Input) : afterRun f ('.' :: cs) = identRest f cs := by
  have : expect ('.' :: cs) "." = some cs := by
    show stripPrefix ('.' :: cs) ['.'] = some cs
    simp [stripPrefix]
  simp only [afterRun, this]

theorem spanWhile_dot (cs : Input) :
    spanWhile isIdentChar ('.' :: cs) = ([], '.' :: cs) := by
  have : isIdentChar '.' = false := by decide
  simp [spanWhile, this]

/-- both entry points of the loop on a valid name followed by an `IdStop` continuation -/
theorem identRest_name_aux (rest : Input) (hrest : IdStop rest = true) :
    ∀ (name : List Char) (f : Nat), name.length ≤ f →
      (nameOkAux true name = true →
        afterRun f (spanWhile isIdentChar (name ++ rest)).2 = .ok ((), rest)) ∧
      (nameOkAux false name = true → identRest f (name ++ rest) = .ok ((), rest)) := by
  intro name
  induction name with
  | nil =>
    intro f _
    refine ⟨fun _ => ?_, fun h => by simp [nameOkAux] at h⟩
    simp only [List.nil_append, idStop_span hrest, afterRun, idStop_no_dot hrest]
  | cons c cs ih =>
    intro f hf
    simp only [List.length_cons] at hf
    by_cases hc : isIdentChar c = true
    · refine ⟨fun h => ?_, fun h => ?_⟩
      · rw [nameOkAux_ident hc] at h
        rw [List.cons_append, spanWhile_ident_cons hc]
        exact (ih f (by omega)).1 h
      · rw [nameOkAux_ident hc] at h
        obtain ⟨f', rfl⟩ : ∃ f', f = f' + 1 := ⟨f - 1, by omega⟩
        rw [List.cons_append, identRest_ident_cons hc]
        exact (ih f' (by omega)).1 h
    · simp only [Bool.not_eq_true] at hc
      by_cases hd : c = '.'
      · subst hd
        refine ⟨fun h => ?_, fun h => by simp [nameOkAux_dot] at h⟩
        rw [nameOkAux_dot] at h
        simp only [Bool.true_and] at h
        rw [List.cons_append, spanWhile_dot, afterRun_dot]
        exact (ih f (by omega)).2 h
      · exact ⟨fun h => by simp [nameOkAux_other hc hd] at h,
          fun h => by simp [nameOkAux_other hc hd] at h⟩

theorem identRest_name {name rest : Input} (hn : nameOk name = true) (hrest : IdStop rest = true)
    (f : Nat) (hf : name.length ≤ f) : identRest f (name ++ rest) = .ok ((), rest) :=
  (identRest_name_aux rest hrest name f hf).2 hn

/-- **`Identifier::lex_with` on a valid name**: the whole name is looked up in the scheme -/
theorem lexIdentifier_name (s : Scheme) {name rest : Input} (hn : nameOk name = true)
    (hrest : IdStop rest = true) :
    lexIdentifier s (name ++ rest) =
      match s.get name with
      | some id => .ok (id, rest)
      | none => errSpan .unknownIdentifier (name ++ rest) rest := by
  unfold lexIdentifier
  rw [identRest_name hn hrest _ (by simp; omega)]
  simp only [take_length_append]
  rfl

/-- `lexIndexes` when no `[` follows -/
theorem lexIndexes_none {rest : Input} (h : expect rest "[" = none) (f : Nat) (ty : Ty) :
    lexIndexes (f + 1) rest ty [] = .ok (([], ty), rest) := by
  simp only [lexIndexes, h]

/-- **`IndexExpr::lex_with` on a bare field** -/
theorem indexExprL_field (env : PEnv) (lower : Option Level) {name rest : Input} {i : Nat}
    (hn : nameOk name = true) (hget : env.scheme.get name = some (.field i))
    (hrest : IdStop rest = true) :
    indexExprL env lower (name ++ rest) =
      .ok ({ node := .field i [], ty := env.scheme.fieldTy i }, rest) := by
  unfold indexExprL
  rw [lexIdentifier_name env.scheme hn hrest]
  simp only [hget, lexIndexes_none (idStop_no_bracket hrest)]

/-! ### a registered valid name is not taken for `not`, `any(`, `all(` -/

/-- a word that is a prefix of `name ++ more`, where `more` does not go on with an identifier
character, is a prefix of `name` -/
theorem prefix_of_name {p name more : List Char} (hp : ∀ c ∈ p, isIdentChar c = true)
    (hmore : ∀ c, more.head? = some c → isIdentChar c = false) (h : p <+: name ++ more) :
    p <+: name := by
  induction p generalizing name with
  | nil => exact List.nil_prefix
  | cons c p ih =>
    cases name with
    | nil =>
      obtain ⟨t, ht⟩ := h
      rw [List.nil_append] at ht
      have := hmore c (by rw [← ht]; rfl)
      rw [hp c (by simp)] at this
      cases this
    | cons d ds =>
      rw [List.cons_append, List.cons_prefix_cons] at h
      rw [List.cons_prefix_cons]
      exact ⟨h.1, ih (fun c hc => hp c (by simp [hc])) h.2⟩

theorem idStop_head {rest : Input} (h : IdStop rest = true) :
    ∀ c, rest.head? = some c → isIdentChar c = false := by
  cases rest with
  | nil => simp
  | cons d ds =>
    simp only [IdStop, Bool.and_eq_true, Bool.not_eq_true', bne_iff_ne, ne_eq] at h
    intro c hc
    simp at hc
    subst hc
    exact h.1.1

/-- a name that does not start with `not`, before an `IdStop` continuation, is no spelling of
the unary operator at all (`!` is no identifier character) -/
theorem name_noUnaryEnum {name more : Input} (hn : nameOk name = true)
    (hnot : "not".toList.isPrefixOf name = false) (hmore : IdStop more = true) :
    lexEnum unaryOps (name ++ more) = none := by
  rw [lexEnum_eq_none]
  intro e he
  simp only [unaryOps, List.mem_cons, List.not_mem_nil, or_false] at he
  rcases he with rfl | rfl
  · intro hp
    have := prefix_of_name (p := "not".toList) (by decide) (idStop_head hmore) hp
    rw [← List.isPrefixOf_iff_prefix, hnot] at this
    cases this
  · obtain ⟨c, cs, rfl, hc, _⟩ := nameOk_head hn
    intro hp
    have : c = '!' := by
      have := hp
      simp only [List.cons_append] at this
      exact ((List.cons_prefix_cons (a := '!') (b := c)).mp this).1.symm
    subst this
    revert hc; decide

/-- **`lex_unary_op` declines every registered name other than `not` itself**, also one that
begins with the word `not` (`notes`, `not_b`, `not.x`): such a name goes on after the `t` with an
identifier character or a dot (`glued`) and `Identifier::lex_with` finds it in the scheme. The
name exactly `not` is excluded: nothing is glued to it, so it IS the operator. -/
theorem name_noUnary (env : PEnv) {name more : Input} (hn : nameOk name = true)
    (hreg : (env.scheme.get name).isSome = true) (hne : name ≠ "not".toList)
    (hmore : IdStop more = true) :
    lexUnary env (name ++ more) = none := by
  rw [lexUnary_eq_none_iff]
  cases he : lexEnum unaryOps (name ++ more) with
  | none => exact .inl rfl
  | some p =>
    obtain ⟨u, r⟩ := p
    right
    rcases lexEnum_unary_cases he with hin | hin
    · -- `not` is a prefix of the name
      have hpre : "not".toList <+: name :=
        prefix_of_name (by decide) (idStop_head hmore) ⟨r, hin.symm⟩
      obtain ⟨tl, htl⟩ := hpre
      have hr : r = tl ++ more := by
        have : "not".toList ++ r = "not".toList ++ (tl ++ more) := by
          rw [← List.append_assoc, htl]; exact hin.symm
        exact List.append_cancel_left this
      refine ⟨r, hin, ?_, ?_⟩
      · cases tl with
        | nil => exact absurd (by rw [← htl]; rfl) hne
        | cons d ds =>
          have h1 : nameOkAux false ("not".toList ++ d :: ds) = true := by rw [htl]; exact hn
          have h2 : nameOkAux true (d :: ds) = true := by
            simpa [nameOkAux, show isIdentChar 'n' = true by decide,
              show isIdentChar 'o' = true by decide, show isIdentChar 't' = true by decide]
              using h1
          rw [hr, List.cons_append, gluedTo_cons]
          rcases nameOkAux_head h2 with h | rfl
          · simp [h]
          · decide
      · unfold isRegistered
        rw [lexIdentifier_name env.scheme hn hmore]
        cases hg : env.scheme.get name with
        | none => rw [hg] at hreg; cases hreg
        | some id => rfl
    · -- `!` is no identifier character
      obtain ⟨c, cs, rfl, hc, _⟩ := nameOk_head hn
      simp only [List.cons_append, List.cons.injEq] at hin
      obtain ⟨rfl, _⟩ := hin
      exact absurd hc (by decide)

theorem quantOps_spellings {e : String × QOp} (he : e ∈ quantOps) :
    e.1 = "any" ∨ e.1 = "all" := by
  simp only [quantOps, List.mem_cons, List.not_mem_nil, or_false] at he
  rcases he with rfl | rfl <;> simp

/-- **no quantifier call**: whatever `any`/`all` leaves of `name ++ more` does not go on with
`(` — inside the name an identifier character or a dot follows; after the whole name, `more`. -/
theorem name_noQuant {name more : Input} (hn : nameOk name = true) (hmore : IdStop more = true)
    (hparen : (name = "any".toList ∨ name = "all".toList) → expect (skipSpace more) "(" = none) :
    lexQuantCall (name ++ more) = none := by
  unfold lexQuantCall
  cases hq : lexEnum quantOps (name ++ more) with
  | none => rfl
  | some r =>
    obtain ⟨op, rest⟩ := r
    obtain ⟨sp, hmem, hin⟩ := lexEnum_sound hq
    have hsp : sp.toList = "any".toList ∨ sp.toList = "all".toList := by
      rcases quantOps_spellings hmem with h | h <;> simp only at h <;> subst h <;> simp
    have hid : ∀ c ∈ sp.toList, isIdentChar c = true := by
      rcases hsp with h | h <;> rw [h] <;> decide
    have hpre : sp.toList <+: name :=
      prefix_of_name hid (idStop_head hmore) ⟨rest, hin.symm⟩
    obtain ⟨tl, htl⟩ := hpre
    have hrest : rest = tl ++ more := by
      rw [← htl, List.append_assoc] at hin
      exact (List.append_cancel_left hin).symm
    have hnone : expect (skipSpace rest) "(" = none := by
      cases tl with
      | nil =>
        rw [hrest, List.nil_append]
        apply hparen
        rw [← htl, List.append_nil]
        exact hsp
      | cons d ds =>
        -- inside the name: `d` is an identifier character or a dot
        have hd : isIdentChar d = true ∨ d = '.' := by
          have h1 : nameOkAux false (sp.toList ++ d :: ds) = true := by rw [htl]; exact hn
          have h2 : nameOkAux true (d :: ds) = true := by
            rcases hsp with h | h <;> rw [h] at h1 <;>
              simpa [nameOkAux, show isIdentChar 'a' = true by decide,
                show isIdentChar 'n' = true by decide, show isIdentChar 'y' = true by decide,
                show isIdentChar 'l' = true by decide] using h1
          exact nameOkAux_head h2
        have hsp' : isSpace d = false := by
          rcases hd with h | rfl
          · exact identChar_not_space h
          · decide
        have hpar : d ≠ '(' := by
          rcases hd with h | rfl
          · exact identChar_ne_paren h
          · decide
        rw [hrest, List.cons_append, skipSpace_cons_of_not_space _ hsp']
        show stripPrefix (d :: (ds ++ more)) ['('] = none
        simp [stripPrefix, hpar]
    simp [hnone]

end WfModel.Atoms
