import WfModel.Lemmas.Render.Std

/-!
# `parse_render_logical` when only the atoms that OCCUR in the skeleton are good

`all_ok` (Lemmas/Render/Main) asks `GoodAtom` of every inhabitant of the atom type. For a syntax
of concrete atoms only those meeting decidable side conditions are good; `logical_on` /
`simple_on` relativise the theorem to a predicate `p` that holds of every atom of the skeleton
(`allAtoms p sk`). Proof: replace the other atoms by the first atom of the skeleton
(`totalise`) — renderings and meaning of `sk` do not change. Helper lemmas only.
-/
namespace WfModel.Atoms

open WfModel WfModel.Render

variable {α : Type}

mutual
/-- every atom occurring in the skeleton satisfies `p` -/
def allAtoms (p : α → Bool) : Sk α → Bool
  | .atom a => p a
  | .not s => allAtoms p s
  | .paren s => allAtoms p s
  | .chain f r => allAtoms p f && allAtomsRest p r
def allAtomsRest (p : α → Bool) : List (LogicalOp × Sk α) → Bool
  | [] => true
  | (_, s) :: r => allAtoms p s && allAtomsRest p r
end

/-- the leftmost atom (every skeleton has one) -/
def firstAtom : Sk α → α
  | .atom a => a
  | .not s => firstAtom s
  | .paren s => firstAtom s
  | .chain f _ => firstAtom f

theorem firstAtom_all (p : α → Bool) : ∀ sk : Sk α, allAtoms p sk = true → p (firstAtom sk) = true
  | .atom _, h => by simpa [allAtoms, firstAtom] using h
  | .not s, h => by
    simp only [allAtoms] at h
    simpa [firstAtom] using firstAtom_all p s h
  | .paren s, h => by
    simp only [allAtoms] at h
    simpa [firstAtom] using firstAtom_all p s h
  | .chain f _, h => by
    simp only [allAtoms, Bool.and_eq_true] at h
    simpa [firstAtom] using firstAtom_all p f h.1

/-- atoms outside `p` are replaced by `d` -/
def totalise (A : Atoms α) (p : α → Bool) (d : α) : Atoms α :=
  { txt := fun a => if p a then A.txt a else A.txt d,
    node := fun a => if p a then A.node a else A.node d }

theorem totalise_txt (A : Atoms α) {p : α → Bool} (d : α) {a : α} (h : p a = true) :
    (totalise A p d).txt a = A.txt a := by simp [totalise, h]

theorem totalise_node (A : Atoms α) {p : α → Bool} (d : α) {a : α} (h : p a = true) :
    (totalise A p d).node a = A.node a := by simp [totalise, h]

theorem goodAtom_transfer {env : PEnv} {A A' : Atoms α} {tight : Bool} {a b : α}
    (h : GoodAtom env A tight b) (ht : A'.txt a = A.txt b) (hn : A'.node a = A.node b) :
    GoodAtom env A' tight a :=
  { parses := by rw [ht, hn]; exact h.parses
    noUnary := by rw [ht]; exact h.noUnary
    noQuant := by rw [ht]; exact h.noQuant
    notCombining := by rw [hn]; exact h.notCombining }

theorem totalise_good {env : PEnv} {A : Atoms α} {tight : Bool} {p : α → Bool} {d : α}
    (hA : ∀ a, p a = true → GoodAtom env A tight a) (hd : p d = true) :
    ∀ a, GoodAtom env (totalise A p d) tight a := by
  intro a
  by_cases h : p a = true
  · exact goodAtom_transfer (hA a h) (totalise_txt A d h) (totalise_node A d h)
  · exact goodAtom_transfer (hA d hd) (by simp [totalise, h]) (by simp [totalise, h])

section congr
variable {A B : Atoms α} {p : α → Bool}

mutual
theorem canon_congr (hn : ∀ a, p a = true → A.node a = B.node a) :
    ∀ sk : Sk α, allAtoms p sk = true → canon A sk = canon B sk
  | .atom a, h => by simpa [canon] using hn a (by simpa [allAtoms] using h)
  | .not s, h => by
    simp only [allAtoms] at h
    simp only [canon, canon_congr hn s h]
  | .paren s, h => by
    simp only [allAtoms] at h
    simp only [canon, canon_congr hn s h]
  | .chain f r, h => by
    simp only [allAtoms, Bool.and_eq_true] at h
    simp only [canon, canon_congr hn f h.1, canonRest_congr hn r h.2]
theorem canonRest_congr (hn : ∀ a, p a = true → A.node a = B.node a) :
    ∀ r : List (LogicalOp × Sk α), allAtomsRest p r = true → canonRest A r = canonRest B r
  | [], _ => rfl
  | (o, s) :: r, h => by
    simp only [allAtomsRest, Bool.and_eq_true] at h
    simp only [canonRest, canon_congr hn s h.1, canonRest_congr hn r h.2]
end

mutual
theorem rendersSimple_congr (env : PEnv) (tight : Bool) (ht : ∀ a, p a = true → A.txt a = B.txt a) :
    ∀ (sk : Sk α) (t : Input), allAtoms p sk = true → RendersSimple env A tight sk t →
      RendersSimple env B tight sk t
  | .atom a, _, h, hr => by
    cases hr
    rw [ht a (by simpa [allAtoms] using h)]
    exact .atom a
  | .not s, _, h, hr => by
    simp only [allAtoms] at h
    cases hr with
    | not al ws hal hws hg hx => exact .not al ws hal hws hg (rendersSimple_congr env tight ht s _ h hx)
  | .paren s, _, h, hr => by
    simp only [allAtoms] at h
    cases hr with
    | paren ws₁ ws₂ h1 h2 hx => exact .paren ws₁ ws₂ h1 h2 (renders_congr env tight ht s _ h hx)
  | .chain _ _, _, _, hr => by cases hr
theorem renders_congr (env : PEnv) (tight : Bool) (ht : ∀ a, p a = true → A.txt a = B.txt a) :
    ∀ (sk : Sk α) (t : Input), allAtoms p sk = true → Renders env A tight sk t →
      Renders env B tight sk t
  | .atom a, _, h, hr => by
    cases hr with
    | simple hs => exact .simple (rendersSimple_congr env tight ht (.atom a) _ h hs)
  | .not s, _, h, hr => by
    cases hr with
    | simple hs => exact .simple (rendersSimple_congr env tight ht (.not s) _ h hs)
  | .paren s, _, h, hr => by
    cases hr with
    | simple hs => exact .simple (rendersSimple_congr env tight ht (.paren s) _ h hs)
  | .chain f r, _, h, hr => by
    simp only [allAtoms, Bool.and_eq_true] at h
    cases hr with
    | simple hs => cases hs
    | chain hf htl =>
      exact .chain (rendersSimple_congr env tight ht f _ h.1 hf) (rendersTail_congr env tight ht r _ _ h.2 htl)
theorem rendersTail_congr (env : PEnv) (tight : Bool) (ht : ∀ a, p a = true → A.txt a = B.txt a) :
    ∀ (r : List (LogicalOp × Sk α)) (b : Bool) (u : Input), allAtomsRest p r = true →
      RendersTail env A tight b r u → RendersTail env B tight b r u
  | [], _, _, _, hr => by cases hr; exact .nil _
  | (o, s) :: r, _, _, h, hr => by
    simp only [allAtomsRest, Bool.and_eq_true] at h
    cases hr with
    | cons ws₁ al ws₂ h1 hal h2 hsep hs htl =>
      exact .cons ws₁ al ws₂ h1 hal h2 hsep (rendersSimple_congr env tight ht s _ h.1 hs)
        (rendersTail_congr env tight ht r _ _ h.2 htl)
end

end congr

/-- **`parse_render_logical` relativised to the atoms of the skeleton** -/
theorem logical_on (env : PEnv) (A : Atoms α) (tight : Bool) (p : α → Bool)
    (hA : ∀ a, p a = true → GoodAtom env A tight a) (sk : Sk α) (hp : allAtoms p sk = true)
    (s : Input) (n : Nat) (hr : Renders env A tight sk s) (hn : depth sk ≤ n)
    (rest : Input) (hrest : Admissible tight sk rest) :
    (level env n).logical (s ++ rest) = .ok ({ node := canon A sk, ty := .bool }, rest) := by
  have hd := firstAtom_all p sk hp
  have hA' := totalise_good (d := firstAtom sk) hA hd
  have hr' : Renders env (totalise A p (firstAtom sk)) tight sk s :=
    renders_congr env tight (fun a h => (totalise_txt A _ h).symm) sk s hp hr
  have hc : canon (totalise A p (firstAtom sk)) sk = canon A sk :=
    canon_congr (fun a h => totalise_node A _ h) sk hp
  rw [level_logical, ← hc]
  exact (all_ok hA' (s.length + 1)).2 sk s (Nat.lt_succ_self _) hr' n hn rest hrest

/-- whole filters: `FilterParser::parse` -/
theorem filter_on (env : PEnv) (A : Atoms α) (tight : Bool) (p : α → Bool)
    (hA : ∀ a, p a = true → GoodAtom env A tight a) (sk : Sk α) (hp : allAtoms p sk = true)
    (s : Input) (hr : Renders env A tight sk s) (hd : depth sk ≤ env.st.maxDepth)
    (htrim : trim s = s) : parseFilter env s = .ok (canon A sk) := by
  have h := logical_on env A tight p hA sk hp s env.st.maxDepth hr hd [] ⟨fun _ => rfl, rfl⟩
  rw [List.append_nil] at h
  simp [parseFilter, htrim, h, complete]

/-! ### renaming atoms -/

mutual
/-- the same skeleton over other atoms -/
def mapSk {β : Type} (f : α → β) : Sk α → Sk β
  | .atom a => .atom (f a)
  | .not s => .not (mapSk f s)
  | .paren s => .paren (mapSk f s)
  | .chain g r => .chain (mapSk f g) (mapRest f r)
def mapRest {β : Type} (f : α → β) : List (LogicalOp × Sk α) → List (LogicalOp × Sk β)
  | [] => []
  | (o, s) :: r => (o, mapSk f s) :: mapRest f r
end

mutual
theorem depth_mapSk {β : Type} (f : α → β) : ∀ sk : Sk α, depth (mapSk f sk) = depth sk
  | .atom _ => rfl
  | .not s => by simp only [mapSk, depth, depth_mapSk f s]
  | .paren s => by simp only [mapSk, depth, depth_mapSk f s]
  | .chain g r => by simp only [mapSk, depth, depth_mapSk f g, depthRest_mapRest f r]
theorem depthRest_mapRest {β : Type} (f : α → β) :
    ∀ r : List (LogicalOp × Sk α), depthRest (mapRest f r) = depthRest r
  | [] => rfl
  | (o, s) :: r => by simp only [mapRest, depthRest, depth_mapSk f s, depthRest_mapRest f r]
end

mutual
/-- the meaning only depends on the nodes of the atoms -/
theorem canon_mapSk {β : Type} (A : Atoms α) (B : Atoms β) (f : α → β)
    (h : ∀ a, A.node a = B.node (f a)) : ∀ sk : Sk α, canon A sk = canon B (mapSk f sk)
  | .atom a => by simpa [canon, mapSk] using h a
  | .not s => by simp only [canon, mapSk, canon_mapSk A B f h s]
  | .paren s => by simp only [canon, mapSk, canon_mapSk A B f h s]
  | .chain g r => by simp only [canon, mapSk, canon_mapSk A B f h g, canonRest_mapRest A B f h r]
theorem canonRest_mapRest {β : Type} (A : Atoms α) (B : Atoms β) (f : α → β)
    (h : ∀ a, A.node a = B.node (f a)) :
    ∀ r : List (LogicalOp × Sk α), canonRest A r = canonRest B (mapRest f r)
  | [] => rfl
  | (o, s) :: r => by
    simp only [canonRest, mapRest, canon_mapSk A B f h s, canonRest_mapRest A B f h r]
end

end WfModel.Atoms
