import WfModel.Lemmas.Atoms.Lit
import WfModel.Lemmas.Atoms.Path
import WfModel.Lemmas.C06Brace

/-!
# Concrete atoms, part 3: what follows the left-hand side (`ComparisonExpr::lex_with_lhs`)

`Tail` is the syntax of what may follow `name path` in a concrete atom:

* nothing (`isTrue`: the left-hand side is a `Bool`);
* `ws₁ op ws₂ literal` with an ordering operator (`ord`);
* `ws₁ in ws₂ { ws₀ item ws … item ws }` with integer items `a` / `a..b` (`inInts`);
* `ws₁ contains ws₂ "…"` / `r#"…"#` (`contains`).

`cmpWithLhs_tail`: on the text of a tail meeting its side conditions, before every continuation
an atom stops at, `lex_with_lhs` returns `lhs op` of type `Bool` for ANY left-hand side without
`[*]` whose type is the tail's. Helper lemmas only.
-/
namespace WfModel.Atoms

open WfModel WfModel.Render WfModel.C07L

/-! ### integer sets -/

/-- one item of `{ … }` as written: a single value or `a..b`, and the layout after it -/
inductive IntItem
  | single (f : IntForm) (a : Int) (ws : Input)
  | range (f : IntForm) (a : Int) (g : IntForm) (b : Int) (ws : Input)
deriving DecidableEq, Repr

/-- text, following layout and value (`IntRange`: a single value `a` is `a..=a`) -/
def IntItem.entry : IntItem → BraceEntry (Int × Int)
  | .single f a ws => { text := renderInt f a, ws := ws, val := (a, a) }
  | .range f a g b ws =>
    { text := renderInt f a ++ ('.' :: '.' :: renderInt g b), ws := ws, val := (a, b) }

/-- both bounds are `i64` written in a form that admits them, `a ≤ b`, layout is layout -/
def IntItem.ok : IntItem → Bool
  | .single f a ws => f.admits a && inI64 a && Layout ws
  | .range f a g b ws =>
    f.admits a && inI64 a && g.admits b && inI64 b && decide (a ≤ b) && Layout ws

/-- `item ws item ws …` -/
def itemsTxt (items : List IntItem) : List Char := renderBraceBody (items.map IntItem.entry)

/-- the ranges in the order written (`RhsValues::Int`; nothing is merged or sorted at parse
time) -/
def itemsVal (items : List IntItem) : List (Int × Int) := (items.map IntItem.entry).map (·.val)

/-- every item but the last is followed by at least one layout character -/
def itemsSep (items : List IntItem) : Bool := WfModel.sepOk (items.map IntItem.entry)

theorem renderInt_itemHeadOk (f : IntForm) (v : Int) (t : List Char) :
    itemHeadOk (renderInt f v ++ t) = true := by
  obtain ⟨c, tl, he, _, _, hs, hb⟩ := renderInt_head f v
  rw [he]
  simp [itemHeadOk, hs, hb]

theorem IntItem.headOk (it : IntItem) : itemHeadOk it.entry.text = true := by
  cases it with
  | single f a ws => simpa [IntItem.entry] using renderInt_itemHeadOk f a []
  | range f a g b ws => exact renderInt_itemHeadOk f a _

theorem IntItem.lex (it : IntItem) (hok : it.ok = true) (tail : Input)
    (ht : IntItemRest tail = true) :
    lexIntRange (it.entry.text ++ tail) = .ok (it.entry.val, tail) := by
  simp only [IntItemRest, Bool.and_eq_true, Option.isNone_iff_eq_none] at ht
  cases it with
  | single f a ws =>
    simp only [IntItem.ok, Bool.and_eq_true] at hok
    exact lexIntRange_single f a tail hok.1.1 hok.1.2 ht.1.1 (fun _ _ => ht.1.2) ht.2
  | range f a g b ws =>
    simp only [IntItem.ok, Bool.and_eq_true, decide_eq_true_eq] at hok
    obtain ⟨⟨⟨⟨⟨hfa, hia⟩, hgb⟩, hib⟩, hab⟩, _⟩ := hok
    have := lexIntRange_render f g a b tail hfa hgb hia hib ht.1.1 (fun _ _ => ht.1.2)
    have hnlt : ¬ b < a := by omega
    simp only [hnlt, if_false] at this
    simpa [IntItem.entry, List.append_assoc] using this

theorem IntItem.ws_layout (it : IntItem) (hok : it.ok = true) :
    ∀ c ∈ it.entry.ws, isSpace c = true := by
  cases it with
  | single f a ws =>
    simp only [IntItem.ok, Bool.and_eq_true] at hok
    exact layout_iff.mp hok.2
  | range f a g b ws =>
    simp only [IntItem.ok, Bool.and_eq_true] at hok
    exact layout_iff.mp hok.2

/-- **`RhsValues::lex_with(_, Type::Int)` on a written set** -/
theorem lexBrace_items (items : List IntItem) (hok : items.all IntItem.ok = true)
    (hsep : itemsSep items = true) {ws₀ : Input} (h₀ : Layout ws₀ = true) (rest : Input) :
    lexBrace lexIntRange ('{' :: (ws₀ ++ (itemsTxt items ++ '}' :: rest))) =
      .ok (itemsVal items, rest) := by
  simp only [List.all_eq_true] at hok
  exact lexBrace_render lexIntRange IntItemRest intItemRest_of_space_or_close
    (items.map IntItem.entry) rest ws₀ (layout_iff.mp h₀)
    (by
      intro e he
      simp only [List.mem_map] at he
      obtain ⟨it, hit, rfl⟩ := he
      exact it.ws_layout (hok it hit))
    (by
      intro e he
      simp only [List.mem_map] at he
      obtain ⟨it, _, rfl⟩ := he
      exact it.headOk)
    hsep
    (by
      intro e he tail ht
      simp only [List.mem_map] at he
      obtain ⟨it, hit, rfl⟩ := he
      exact it.lex (hok it hit) tail ht)

/-! ### byte-string literals under `contains` -/

/-- the `BytesExpr` a quoted or raw literal stands for (`default` for the others: excluded by
`Tail.ok`) -/
def Lit.bytes : Lit → BytesLit
  | .quoted items => { fmt := .quoted, data := items.map (·.2) }
  | .raw k body => { fmt := .raw k, data := utf8s body }
  | _ => { fmt := .quoted, data := [] }

/-- `impl Lex for BytesExpr` on a quoted or raw literal, whatever follows -/
theorem Lit.lexBytes (l : Lit) (hok : l.ok = true) (hty : l.ty = .bytes) (rest : Input) :
    WfModel.lexBytes (l.txt ++ rest) = .ok (l.bytes, rest) := by
  cases l with
  | quoted items =>
    simp only [Lit.ok, List.all_eq_true] at hok
    have := lexBytes_quoted items rest hok
    simpa [Lit.txt, Lit.bytes, List.append_assoc] using this
  | raw k body =>
    simp only [Lit.ok, Bool.and_eq_true, decide_eq_true_eq] at hok
    have := lexBytes_raw k hok.1 body rest hok.2
    simpa [Lit.txt, Lit.bytes, List.append_assoc] using this
  | int f v => cases hty
  | ip4 a => cases hty
  | ip6 a => cases hty
  | ip6std a => cases hty

/-! ### byte-string sets: `in { "…" r#"…"# … }` -/

/-- one item of a `Bytes` set: a quoted or raw literal and the layout written after it -/
def bytesEntry (it : Lit × Input) : BraceEntry BytesLit :=
  { text := it.1.txt, ws := it.2, val := it.1.bytes }

/-- the literal is well-formed (`Lit.ok`), quoted or raw, and the layout is layout -/
def bytesItemOk (it : Lit × Input) : Bool := it.1.ok && it.1.ty == .bytes && Layout it.2

def bytesItemsTxt (items : List (Lit × Input)) : List Char :=
  renderBraceBody (items.map bytesEntry)

/-- the byte strings in the order written (`RhsValues::Bytes`) -/
def bytesItemsVal (items : List (Lit × Input)) : List BytesLit :=
  (items.map bytesEntry).map (·.val)

def bytesItemsSep (items : List (Lit × Input)) : Bool := WfModel.sepOk (items.map bytesEntry)

theorem bytes_itemHeadOk (l : Lit) (hty : l.ty = .bytes) : itemHeadOk l.txt = true := by
  cases l with
  | quoted items => show (!isSpace '"' && '"' != '}') = true; decide
  | raw k body => show (!isSpace 'r' && 'r' != '}') = true; decide
  | int f v => cases hty
  | ip4 a => cases hty
  | ip6 a => cases hty
  | ip6std a => cases hty

/-- **`RhsValues::lex_with(_, Type::Bytes)` on a written set** -/
theorem lexBrace_bytesItems (items : List (Lit × Input))
    (hok : items.all bytesItemOk = true) (hsep : bytesItemsSep items = true) {ws₀ : Input}
    (h₀ : Layout ws₀ = true) (rest : Input) :
    lexBrace WfModel.lexBytes ('{' :: (ws₀ ++ (bytesItemsTxt items ++ '}' :: rest))) =
      .ok (bytesItemsVal items, rest) := by
  simp only [List.all_eq_true, bytesItemOk, Bool.and_eq_true, beq_iff_eq] at hok
  exact lexBrace_render WfModel.lexBytes (fun _ => true) (fun _ _ => rfl)
    (items.map bytesEntry) rest ws₀ (layout_iff.mp h₀)
    (by
      intro e he
      simp only [List.mem_map] at he
      obtain ⟨it, hit, rfl⟩ := he
      exact layout_iff.mp (hok it hit).2)
    (by
      intro e he
      simp only [List.mem_map] at he
      obtain ⟨it, hit, rfl⟩ := he
      exact bytes_itemHeadOk it.1 (hok it hit).1.2)
    hsep
    (by
      intro e he tail _
      simp only [List.mem_map] at he
      obtain ⟨it, hit, rfl⟩ := he
      exact it.1.lexBytes (hok it hit).1.1 (hok it hit).1.2 tail)

/-! ### address sets: `in { a.b.c.d  a.b.c.d..e.f.g.h  a.b.c.d/len … }` -/

/-- one item of an `Ip` set as written (IPv4 dotted quads, or IPv6 in full form): a single address,
an explicit range `a..b`, a CIDR block `a/len`; and the layout after it -/
inductive IpItem
  | single (a : Nat) (ws : Input)
  | range (a b : Nat) (ws : Input)
  | cidr (a len : Nat) (ws : Input)
  /-- the same three for IPv6 addresses written in full (eight groups, `v6full`) -/
  | single6 (a : Nat) (ws : Input)
  | range6 (a b : Nat) (ws : Input)
  | cidr6 (a len : Nat) (ws : Input)
deriving DecidableEq, Repr

/-- text, following layout and value (`IpRange`): a single address is the `/32` block (`cidr`'s
`IpCidr::from_str` without `/`), `a..b` the explicit range, `a/len` the block -/
def IpItem.entry : IpItem → BraceEntry IpRangeLit
  | .single a ws => { text := dotted a, ws := ws, val := .cidr false a 32 }
  | .range a b ws =>
    { text := dotted a ++ ('.' :: '.' :: dotted b), ws := ws, val := .explicit false a b }
  | .cidr a len ws =>
    { text := dotted a ++ ('/' :: digits 10 len), ws := ws, val := .cidr false a len }
  | .single6 a ws => { text := v6full a, ws := ws, val := .cidr true a 128 }
  | .range6 a b ws =>
    { text := v6full a ++ ('.' :: '.' :: v6full b), ws := ws, val := .explicit true a b }
  | .cidr6 a len ws =>
    { text := v6full a ++ ('/' :: digits 10 len), ws := ws, val := .cidr true a len }

/-- addresses fit 32 bits; `a ≤ b` in a range; `len ≤ 32` and no host bit set in a block;
layout is layout -/
def IpItem.ok : IpItem → Bool
  | .single a ws => decide (a < 2 ^ 32) && Layout ws
  | .range a b ws => decide (a < 2 ^ 32) && decide (b < 2 ^ 32) && decide (a ≤ b) && Layout ws
  | .cidr a len ws =>
    decide (a < 2 ^ 32) && decide (len ≤ 32) && decide (a % 2 ^ (32 - len) = 0) && Layout ws
  | .single6 a ws => decide (a < 2 ^ 128) && Layout ws
  | .range6 a b ws =>
    decide (a < 2 ^ 128) && decide (b < 2 ^ 128) && decide (a ≤ b) && Layout ws
  | .cidr6 a len ws =>
    decide (a < 2 ^ 128) && decide (len ≤ 128) && decide (a % 2 ^ (128 - len) = 0) && Layout ws

def ipItemsTxt (items : List IpItem) : List Char := renderBraceBody (items.map IpItem.entry)

/-- the ranges in the order written (`RhsValues::Ip`) -/
def ipItemsVal (items : List IpItem) : List IpRangeLit := (items.map IpItem.entry).map (·.val)

def ipItemsSep (items : List IpItem) : Bool := WfModel.sepOk (items.map IpItem.entry)

theorem dotted_itemHeadOk (a : Nat) (t : List Char) : itemHeadOk (dotted a ++ t) = true := by
  rw [dotted_eq]
  obtain ⟨d, tl, he, hd, _⟩ := digits_head (by omega : 2 ≤ 10) (a / 16777216 % 256)
  rw [he]
  exact digitChar_head_ok d (by omega)

theorem v6full_itemHeadOk (a : Nat) (t : List Char) : itemHeadOk (v6full a ++ t) = true := by
  rw [v6full_eq]
  obtain ⟨d, tl, he, hd, _⟩ := digits_head (by omega : 2 ≤ 16) (a / 2 ^ 112 % 65536)
  simp only [Nat.reducePow] at he
  rw [he]
  exact digitChar_head_ok d (by omega)

/-- a full IPv6 address alone is the `/128` block -/
theorem cidr_v6full_bare {a : Nat} {rest : Input} (ha : a < 2 ^ 128)
    (hr : headNot isIpChar rest = true) :
    lexIpRange (v6full a ++ rest) = .ok (.cidr true a 128, rest) := by
  have hnd : ∀ c ∈ v6full a, c ≠ '.' := fun c hc => (v6full_no_dot_slash a c hc).1
  have hns : ∀ c ∈ v6full a, c ≠ '/' := fun c hc => (v6full_no_dot_slash a c hc).2
  have hfd : findDotDot (v6full a) 0 = none := by
    have := findDotDot_nodot hnd [] 0
    rw [List.append_nil] at this
    rw [this]; rfl
  refine lexIpRange_parseCidr_some (v6full_all_ipchar a) (v6full_ne_nil a) hr hfd ?_
  unfold parseCidr
  rw [rfindSlash_none hns]
  simp only [parseCidrAddr_v6full ha]

theorem IpItem.headOk (it : IpItem) : itemHeadOk it.entry.text = true := by
  cases it with
  | single a ws => simpa [IpItem.entry] using dotted_itemHeadOk a []
  | range a b ws => exact dotted_itemHeadOk a _
  | cidr a len ws => exact dotted_itemHeadOk a _
  | single6 a ws => simpa [IpItem.entry] using v6full_itemHeadOk a []
  | range6 a b ws => exact v6full_itemHeadOk a _
  | cidr6 a len ws => exact v6full_itemHeadOk a _

theorem IpItem.lex (it : IpItem) (hok : it.ok = true) (tail : Input)
    (ht : headNot isIpChar tail = true) :
    lexIpRange (it.entry.text ++ tail) = .ok (it.entry.val, tail) := by
  cases it with
  | single a ws =>
    simp only [IpItem.ok, Bool.and_eq_true, decide_eq_true_eq] at hok
    exact cidr_dotted_bare hok.1 ht
  | range a b ws =>
    simp only [IpItem.ok, Bool.and_eq_true, decide_eq_true_eq] at hok
    have := iprange_dotted_ok (rest := tail) hok.1.1.1 hok.1.1.2 hok.1.2 ht
    simpa [IpItem.entry, List.append_assoc] using this
  | cidr a len ws =>
    simp only [IpItem.ok, Bool.and_eq_true, decide_eq_true_eq] at hok
    have := cidr_dotted_ok (rest := tail) hok.1.1.1 hok.1.1.2 hok.1.2 ht
    simpa [IpItem.entry, List.append_assoc] using this
  | single6 a ws =>
    simp only [IpItem.ok, Bool.and_eq_true, decide_eq_true_eq] at hok
    exact cidr_v6full_bare hok.1 ht
  | range6 a b ws =>
    simp only [IpItem.ok, Bool.and_eq_true, decide_eq_true_eq] at hok
    have := iprange_v6full_ok (rest := tail) hok.1.1.1 hok.1.1.2 hok.1.2 ht
    simpa [IpItem.entry, List.append_assoc] using this
  | cidr6 a len ws =>
    simp only [IpItem.ok, Bool.and_eq_true, decide_eq_true_eq] at hok
    have := cidr_v6full_ok (rest := tail) hok.1.1.1 hok.1.1.2 hok.1.2 ht
    simpa [IpItem.entry, List.append_assoc] using this

theorem IpItem.ws_layout (it : IpItem) (hok : it.ok = true) :
    ∀ c ∈ it.entry.ws, isSpace c = true := by
  cases it <;>
    (simp only [IpItem.ok, Bool.and_eq_true] at hok; exact layout_iff.mp hok.2)

theorem noIpHead_of_space_or_close (t : Input) (h : SpaceOrCloseHead t = true) :
    headNot isIpChar t = true := by
  cases t with
  | nil => cases h
  | cons c r =>
    simp only [SpaceOrCloseHead, Bool.or_eq_true, beq_iff_eq] at h
    have hc : c = ' ' ∨ c = '\r' ∨ c = '\n' ∨ c = '}' := by
      rcases h with h | h
      · simp only [isSpace, Bool.or_eq_true, decide_eq_true_eq] at h
        rcases h with (h | h) | h
        · exact Or.inl h
        · exact Or.inr (Or.inl h)
        · exact Or.inr (Or.inr (Or.inl h))
      · exact Or.inr (Or.inr (Or.inr h))
    rcases hc with rfl | rfl | rfl | rfl <;> exact headNot_cons (by decide)

/-- **`RhsValues::lex_with(_, Type::Ip)` on a written set** -/
theorem lexBrace_ipItems (items : List IpItem) (hok : items.all IpItem.ok = true)
    (hsep : ipItemsSep items = true) {ws₀ : Input} (h₀ : Layout ws₀ = true) (rest : Input) :
    lexBrace lexIpRange ('{' :: (ws₀ ++ (ipItemsTxt items ++ '}' :: rest))) =
      .ok (ipItemsVal items, rest) := by
  simp only [List.all_eq_true] at hok
  exact lexBrace_render lexIpRange (fun t => headNot isIpChar t) noIpHead_of_space_or_close
    (items.map IpItem.entry) rest ws₀ (layout_iff.mp h₀)
    (by
      intro e he
      simp only [List.mem_map] at he
      obtain ⟨it, hit, rfl⟩ := he
      exact it.ws_layout (hok it hit))
    (by
      intro e he
      simp only [List.mem_map] at he
      obtain ⟨it, _, rfl⟩ := he
      exact it.headOk)
    hsep
    (by
      intro e he tail ht
      simp only [List.mem_map] at he
      obtain ⟨it, hit, rfl⟩ := he
      exact it.lex (hok it hit) tail ht)

/-! ### list names: `in $name` -/

/-- `ListName`: a non-empty run of `a-z 0-9 _ .` that neither begins nor ends with `.` -/
def listNameOk (name : List Char) : Bool :=
  !name.isEmpty && name.all isListNameChar && name.head? != some '.' &&
    name.getLast? != some '.'

/-- **`impl Lex for ListName`** on `$name` before a continuation that does not extend the run -/
theorem lexListName_name {name : List Char} (hok : listNameOk name = true) (rest : Input)
    (hr : headNot isListNameChar rest = true) :
    lexListName ('$' :: (name ++ rest)) = .ok (name, rest) := by
  simp only [listNameOk, Bool.and_eq_true, Bool.not_eq_true', bne_iff_ne, ne_eq,
    List.all_eq_true] at hok
  obtain ⟨⟨⟨hne, hall⟩, hhd⟩, hlast⟩ := hok
  unfold lexListName
  have e : expect ('$' :: (name ++ rest)) "$" = some (name ++ rest) := by
    show stripPrefix ('$' :: _) ['$'] = _
    simp [stripPrefix]
  simp only [e, spanWhile_run isListNameChar name rest hall hr, hne]
  simp [hhd, hlast]

theorem stop_noListName {tight : Bool} {rest : Input} (h : Stop tight rest = true) :
    headNot isListNameChar rest = true := stop_headNot h _ (by decide)

/-! ### syntax of tails -/

inductive Tail
  /-- nothing: a `Bool` left-hand side (`ComparisonOpExpr::IsTrue`) -/
  | isTrue
  /-- `ws₁ op ws₂ lit`; `sym` chooses the symbolic spelling -/
  | ord (ws₁ : Input) (op : OrdOp) (sym : Bool) (ws₂ : Input) (lit : Lit)
  /-- `ws₁ in ws₂ { ws₀ items }` -/
  | inInts (ws₁ ws₂ ws₀ : Input) (items : List IntItem)
  /-- `ws₁ contains ws₂ lit` (quoted or raw) -/
  | contains (ws₁ ws₂ : Input) (lit : Lit)
  /-- `ws₁ in ws₂ { ws₀ items }` with byte-string items (each a literal and the layout after it) -/
  | inBytes (ws₁ ws₂ ws₀ : Input) (items : List (Lit × Input))
  /-- `ws₁ in ws₂ { ws₀ items }` with address items -/
  | inIps (ws₁ ws₂ ws₀ : Input) (items : List IpItem)
  /-- `ws₁ & ws₂ v` (`sym`) / `ws₁ bitwise_and ws₂ v`, the integer written in `form` -/
  | bitAnd (ws₁ : Input) (sym : Bool) (ws₂ : Input) (form : IntForm) (v : Int)
  /-- `ws₁ in ws₂ $name` on a left-hand side of type `ty`; `list` is the index of the list
  registered for `ty` in the scheme (`Tail.schemeOk`) -/
  | inList (ws₁ ws₂ : Input) (ty : Ty) (list : Nat) (name : List Char)
deriving DecidableEq, Repr

/-- the two spellings of `IntOp::BitwiseAnd` -/
def andAlias (sym : Bool) : String := if sym then "&" else "bitwise_and"

def Tail.txt : Tail → List Char
  | .isTrue => []
  | .ord ws₁ op sym ws₂ lit => ws₁ ++ ((ordAlias op sym).toList ++ (ws₂ ++ lit.txt))
  | .inInts ws₁ ws₂ ws₀ items =>
    ws₁ ++ ("in".toList ++ (ws₂ ++ ('{' :: (ws₀ ++ (itemsTxt items ++ ['}'])))))
  | .contains ws₁ ws₂ lit => ws₁ ++ ("contains".toList ++ (ws₂ ++ lit.txt))
  | .inBytes ws₁ ws₂ ws₀ items =>
    ws₁ ++ ("in".toList ++ (ws₂ ++ ('{' :: (ws₀ ++ (bytesItemsTxt items ++ ['}'])))))
  | .inIps ws₁ ws₂ ws₀ items =>
    ws₁ ++ ("in".toList ++ (ws₂ ++ ('{' :: (ws₀ ++ (ipItemsTxt items ++ ['}'])))))
  | .bitAnd ws₁ sym ws₂ form v => ws₁ ++ ((andAlias sym).toList ++ (ws₂ ++ renderInt form v))
  | .inList ws₁ ws₂ _ _ name => ws₁ ++ ("in".toList ++ (ws₂ ++ ('$' :: name)))

/-- the type the left-hand side must have -/
def Tail.ty : Tail → Ty
  | .isTrue => .bool
  | .ord _ _ _ _ lit => lit.ty
  | .inInts _ _ _ _ => .int
  | .contains _ _ _ => .bytes
  | .inBytes _ _ _ _ => .bytes
  | .inIps _ _ _ _ => .ip
  | .bitAnd _ _ _ _ _ => .int
  | .inList _ _ ty _ _ => ty

/-- the `ComparisonOpExpr` -/
def Tail.op : Tail → CmpOp
  | .isTrue => .isTrue
  | .ord _ op _ _ lit => .ordering op lit.val
  | .inInts _ _ _ items => .oneOf (.int (itemsVal items))
  | .contains _ _ lit => .contains lit.bytes
  | .inBytes _ _ _ items => .oneOf (.bytes (bytesItemsVal items))
  | .inIps _ _ _ items => .oneOf (.ip (ipItemsVal items))
  | .bitAnd _ _ _ _ v => .bitAnd v
  | .inList _ _ _ list name => .inList list name

/-- side conditions local to the tail -/
def Tail.ok : Tail → Bool
  | .isTrue => true
  | .ord ws₁ _ _ ws₂ lit => Layout ws₁ && Layout ws₂ && lit.ok
  | .inInts ws₁ ws₂ ws₀ items =>
    Layout ws₁ && Layout ws₂ && Layout ws₀ && items.all IntItem.ok && itemsSep items
  | .contains ws₁ ws₂ lit => Layout ws₁ && Layout ws₂ && lit.ok && lit.ty == .bytes
  | .inBytes ws₁ ws₂ ws₀ items =>
    Layout ws₁ && Layout ws₂ && Layout ws₀ && items.all bytesItemOk && bytesItemsSep items
  | .inIps ws₁ ws₂ ws₀ items =>
    Layout ws₁ && Layout ws₂ && Layout ws₀ && items.all IpItem.ok && ipItemsSep items
  | .bitAnd ws₁ _ ws₂ form v => Layout ws₁ && Layout ws₂ && form.admits v && inI64 v
  | .inList ws₁ ws₂ ty _ name =>
    Layout ws₁ && Layout ws₂ && listNameOk name && (ty == .int || ty == .ip || ty == .bytes)

/-- the side condition on the SCHEME: for `in $name` the scheme has a list registered for the
left-hand side's type, and `list` is its index (`Scheme::get_list`); nothing for the others -/
def Tail.schemeOk (s : Scheme) : Tail → Bool
  | .inList _ _ ty list _ => s.getList ty == some list
  | _ => true

/-- **may the tail be glued to a bare NAME?** A symbolic operator may (`i==5`, `i&1`); a word
operator needs layout before it (`ieq 5`, `iin {1}` are identifiers). After an index suffix `]`
nothing is needed (`a[0]eq 5`): see `CAtom.ok`. -/
def Tail.sepFromName : Tail → Bool
  | .isTrue => true
  | .ord ws₁ _ sym _ _ => sym || !ws₁.isEmpty
  | .inInts ws₁ _ _ _ => !ws₁.isEmpty
  | .contains ws₁ _ _ => !ws₁.isEmpty
  | .inBytes ws₁ _ _ _ => !ws₁.isEmpty
  | .inIps ws₁ _ _ _ => !ws₁.isEmpty
  | .bitAnd ws₁ sym _ _ _ => sym || !ws₁.isEmpty
  | .inList ws₁ _ _ _ _ => !ws₁.isEmpty

/-! ### `lex_with_lhs`, by its lexing steps, for any left-hand side without `[*]` -/

theorem cmpWithLhs_isTrue (env : PEnv) (lhs : IExpr) (hmec : mapEachCount lhs.indexes = 0)
    (rest : Input) :
    cmpWithLhs env lhs .bool rest =
      .ok ({ node := .comparison lhs .isTrue, ty := .bool }, rest) := by
  simp [cmpWithLhs, hmec]

theorem cmpWithLhs_ord_steps' (env : PEnv) (lhs : IExpr) (hmec : mapEachCount lhs.indexes = 0)
    (ty : Ty) (hty : ty = .int ∨ ty = .ip ∨ ty = .bytes) (op : OrdOp) (v : RhsVal)
    (input afterLayout afterOp lit rest : Input)
    (e1 : skipSpace input = afterLayout)
    (e2 : lexEnum comparisonOps afterLayout = some (CompOp.ord op, afterOp))
    (e3 : skipSpace afterOp = lit)
    (e4 : lexRhsVal ty lit = some (.ok (v, rest))) :
    cmpWithLhs env lhs ty input =
      .ok ({ node := .comparison lhs (.ordering op v), ty := .bool }, rest) := by
  unfold cmpWithLhs
  rcases hty with rfl | rfl | rfl <;>
    simp [hmec, Ty.next, e1, e2, e3, e4]

theorem cmpWithLhs_in_steps (env : PEnv) (lhs : IExpr) (hmec : mapEachCount lhs.indexes = 0)
    (vs : List (Int × Int)) (input afterLayout afterOp set rest : Input)
    (e1 : skipSpace input = afterLayout)
    (e2 : lexEnum comparisonOps afterLayout = some (CompOp.in_, afterOp))
    (e3 : skipSpace afterOp = set)
    (e4 : expect set "$" = none)
    (e5 : lexBrace lexIntRange set = .ok (vs, rest)) :
    cmpWithLhs env lhs .int input =
      .ok ({ node := .comparison lhs (.oneOf (.int vs)), ty := .bool }, rest) := by
  unfold cmpWithLhs
  simp [hmec, Ty.next, e1, e2, e3, e4, e5, lexRhsVals, Except.map]

theorem cmpWithLhs_contains_steps (env : PEnv) (lhs : IExpr)
    (hmec : mapEachCount lhs.indexes = 0) (b : BytesLit)
    (input afterLayout afterOp lit rest : Input)
    (e1 : skipSpace input = afterLayout)
    (e2 : lexEnum comparisonOps afterLayout = some (CompOp.contains, afterOp))
    (e3 : skipSpace afterOp = lit)
    (e4 : WfModel.lexBytes lit = .ok (b, rest)) :
    cmpWithLhs env lhs .bytes input =
      .ok ({ node := .comparison lhs (.contains b), ty := .bool }, rest) := by
  unfold cmpWithLhs
  simp [hmec, Ty.next, e1, e2, e3, e4]

theorem cmpWithLhs_inBytes_steps (env : PEnv) (lhs : IExpr)
    (hmec : mapEachCount lhs.indexes = 0) (vs : List BytesLit)
    (input afterLayout afterOp set rest : Input)
    (e1 : skipSpace input = afterLayout)
    (e2 : lexEnum comparisonOps afterLayout = some (CompOp.in_, afterOp))
    (e3 : skipSpace afterOp = set)
    (e4 : expect set "$" = none)
    (e5 : lexBrace WfModel.lexBytes set = .ok (vs, rest)) :
    cmpWithLhs env lhs .bytes input =
      .ok ({ node := .comparison lhs (.oneOf (.bytes vs)), ty := .bool }, rest) := by
  unfold cmpWithLhs
  simp [hmec, Ty.next, e1, e2, e3, e4, e5, lexRhsVals, Except.map]

theorem cmpWithLhs_inIps_steps (env : PEnv) (lhs : IExpr)
    (hmec : mapEachCount lhs.indexes = 0) (vs : List IpRangeLit)
    (input afterLayout afterOp set rest : Input)
    (e1 : skipSpace input = afterLayout)
    (e2 : lexEnum comparisonOps afterLayout = some (CompOp.in_, afterOp))
    (e3 : skipSpace afterOp = set)
    (e4 : expect set "$" = none)
    (e5 : lexBrace lexIpRange set = .ok (vs, rest)) :
    cmpWithLhs env lhs .ip input =
      .ok ({ node := .comparison lhs (.oneOf (.ip vs)), ty := .bool }, rest) := by
  unfold cmpWithLhs
  simp [hmec, Ty.next, e1, e2, e3, e4, e5, lexRhsVals, Except.map]

theorem cmpWithLhs_bitAnd_steps (env : PEnv) (lhs : IExpr)
    (hmec : mapEachCount lhs.indexes = 0) (v : Int)
    (input afterLayout afterOp lit rest : Input)
    (e1 : skipSpace input = afterLayout)
    (e2 : lexEnum comparisonOps afterLayout = some (CompOp.bitAnd, afterOp))
    (e3 : skipSpace afterOp = lit)
    (e4 : lexInt lit = .ok (v, rest)) :
    cmpWithLhs env lhs .int input =
      .ok ({ node := .comparison lhs (.bitAnd v), ty := .bool }, rest) := by
  unfold cmpWithLhs
  simp [hmec, Ty.next, e1, e2, e3, e4]

theorem cmpWithLhs_inList_steps (env : PEnv) (lhs : IExpr)
    (hmec : mapEachCount lhs.indexes = 0) (ty : Ty) (hty : ty = .int ∨ ty = .ip ∨ ty = .bytes)
    (l : Nat) (name : List Char) (input afterLayout afterOp set afterDollar rest : Input)
    (e1 : skipSpace input = afterLayout)
    (e2 : lexEnum comparisonOps afterLayout = some (CompOp.in_, afterOp))
    (e3 : skipSpace afterOp = set)
    (e4 : expect set "$" = some afterDollar)
    (e5 : lexListName set = .ok (name, rest))
    (e6 : env.scheme.getList ty = some l) :
    cmpWithLhs env lhs ty input =
      .ok ({ node := .comparison lhs (.inList l name), ty := .bool }, rest) := by
  unfold cmpWithLhs
  rcases hty with rfl | rfl | rfl <;>
    simp [hmec, Ty.next, e1, e2, e3, e4, e5, e6]

/-! ### the same steps for ANY left-hand side (also with `[*]`: the result is `Array(Bool)`) -/

theorem cmpWithLhs_isTrueG (env : PEnv) (lhs : IExpr)
    (rest : Input) :
    cmpWithLhs env lhs .bool rest =
      .ok ({ node := .comparison lhs .isTrue, ty := if mapEachCount lhs.indexes > 0 then .array .bool else .bool }, rest) := by
  simp [cmpWithLhs]

theorem cmpWithLhs_ord_stepsG (env : PEnv) (lhs : IExpr)
    (ty : Ty) (hty : ty = .int ∨ ty = .ip ∨ ty = .bytes) (op : OrdOp) (v : RhsVal)
    (input afterLayout afterOp lit rest : Input)
    (e1 : skipSpace input = afterLayout)
    (e2 : lexEnum comparisonOps afterLayout = some (CompOp.ord op, afterOp))
    (e3 : skipSpace afterOp = lit)
    (e4 : lexRhsVal ty lit = some (.ok (v, rest))) :
    cmpWithLhs env lhs ty input =
      .ok ({ node := .comparison lhs (.ordering op v), ty := if mapEachCount lhs.indexes > 0 then .array .bool else .bool }, rest) := by
  unfold cmpWithLhs
  rcases hty with rfl | rfl | rfl <;>
    simp [Ty.next, e1, e2, e3, e4]

theorem cmpWithLhs_in_stepsG (env : PEnv) (lhs : IExpr)
    (vs : List (Int × Int)) (input afterLayout afterOp set rest : Input)
    (e1 : skipSpace input = afterLayout)
    (e2 : lexEnum comparisonOps afterLayout = some (CompOp.in_, afterOp))
    (e3 : skipSpace afterOp = set)
    (e4 : expect set "$" = none)
    (e5 : lexBrace lexIntRange set = .ok (vs, rest)) :
    cmpWithLhs env lhs .int input =
      .ok ({ node := .comparison lhs (.oneOf (.int vs)), ty := if mapEachCount lhs.indexes > 0 then .array .bool else .bool }, rest) := by
  unfold cmpWithLhs
  simp [Ty.next, e1, e2, e3, e4, e5, lexRhsVals, Except.map]

theorem cmpWithLhs_contains_stepsG (env : PEnv) (lhs : IExpr)
    (b : BytesLit)
    (input afterLayout afterOp lit rest : Input)
    (e1 : skipSpace input = afterLayout)
    (e2 : lexEnum comparisonOps afterLayout = some (CompOp.contains, afterOp))
    (e3 : skipSpace afterOp = lit)
    (e4 : WfModel.lexBytes lit = .ok (b, rest)) :
    cmpWithLhs env lhs .bytes input =
      .ok ({ node := .comparison lhs (.contains b), ty := if mapEachCount lhs.indexes > 0 then .array .bool else .bool }, rest) := by
  unfold cmpWithLhs
  simp [Ty.next, e1, e2, e3, e4]

theorem cmpWithLhs_inBytes_stepsG (env : PEnv) (lhs : IExpr)
    (vs : List BytesLit)
    (input afterLayout afterOp set rest : Input)
    (e1 : skipSpace input = afterLayout)
    (e2 : lexEnum comparisonOps afterLayout = some (CompOp.in_, afterOp))
    (e3 : skipSpace afterOp = set)
    (e4 : expect set "$" = none)
    (e5 : lexBrace WfModel.lexBytes set = .ok (vs, rest)) :
    cmpWithLhs env lhs .bytes input =
      .ok ({ node := .comparison lhs (.oneOf (.bytes vs)), ty := if mapEachCount lhs.indexes > 0 then .array .bool else .bool }, rest) := by
  unfold cmpWithLhs
  simp [Ty.next, e1, e2, e3, e4, e5, lexRhsVals, Except.map]

theorem cmpWithLhs_inIps_stepsG (env : PEnv) (lhs : IExpr)
    (vs : List IpRangeLit)
    (input afterLayout afterOp set rest : Input)
    (e1 : skipSpace input = afterLayout)
    (e2 : lexEnum comparisonOps afterLayout = some (CompOp.in_, afterOp))
    (e3 : skipSpace afterOp = set)
    (e4 : expect set "$" = none)
    (e5 : lexBrace lexIpRange set = .ok (vs, rest)) :
    cmpWithLhs env lhs .ip input =
      .ok ({ node := .comparison lhs (.oneOf (.ip vs)), ty := if mapEachCount lhs.indexes > 0 then .array .bool else .bool }, rest) := by
  unfold cmpWithLhs
  simp [Ty.next, e1, e2, e3, e4, e5, lexRhsVals, Except.map]

theorem cmpWithLhs_bitAnd_stepsG (env : PEnv) (lhs : IExpr)
    (v : Int)
    (input afterLayout afterOp lit rest : Input)
    (e1 : skipSpace input = afterLayout)
    (e2 : lexEnum comparisonOps afterLayout = some (CompOp.bitAnd, afterOp))
    (e3 : skipSpace afterOp = lit)
    (e4 : lexInt lit = .ok (v, rest)) :
    cmpWithLhs env lhs .int input =
      .ok ({ node := .comparison lhs (.bitAnd v), ty := if mapEachCount lhs.indexes > 0 then .array .bool else .bool }, rest) := by
  unfold cmpWithLhs
  simp [Ty.next, e1, e2, e3, e4]

theorem cmpWithLhs_inList_stepsG (env : PEnv) (lhs : IExpr)
    (ty : Ty) (hty : ty = .int ∨ ty = .ip ∨ ty = .bytes)
    (l : Nat) (name : List Char) (input afterLayout afterOp set afterDollar rest : Input)
    (e1 : skipSpace input = afterLayout)
    (e2 : lexEnum comparisonOps afterLayout = some (CompOp.in_, afterOp))
    (e3 : skipSpace afterOp = set)
    (e4 : expect set "$" = some afterDollar)
    (e5 : lexListName set = .ok (name, rest))
    (e6 : env.scheme.getList ty = some l) :
    cmpWithLhs env lhs ty input =
      .ok ({ node := .comparison lhs (.inList l name), ty := if mapEachCount lhs.indexes > 0 then .array .bool else .bool }, rest) := by
  unfold cmpWithLhs
  rcases hty with rfl | rfl | rfl <;>
    simp [Ty.next, e1, e2, e3, e4, e5, e6]

/-! ### operator words -/

theorem lexEnum_in (x : Input) : lexEnum comparisonOps ("in".toList ++ x) = some (CompOp.in_, x) :=
  comparisonOps_complete ("in", .in_) (by decide) x (fun h => by rcases h with h | h <;> exact absurd h (by decide))

theorem lexEnum_contains (x : Input) :
    lexEnum comparisonOps ("contains".toList ++ x) = some (CompOp.contains, x) :=
  comparisonOps_complete ("contains", .contains) (by decide) x
    (fun h => by rcases h with h | h <;> exact absurd h (by decide))

theorem lexEnum_andAlias (sym : Bool) (x : Input) :
    lexEnum comparisonOps ((andAlias sym).toList ++ x) = some (CompOp.bitAnd, x) := by
  cases sym
  · exact comparisonOps_complete ("bitwise_and", .bitAnd) (by decide) x
      (fun h => by rcases h with h | h <;> exact absurd h (by decide))
  · exact comparisonOps_complete ("&", .bitAnd) (by decide) x
      (fun h => by rcases h with h | h <;> exact absurd h (by decide))

/-- first character of a spelling of `bitwise_and` -/
theorem andAlias_head (sym : Bool) :
    ∃ c cs, (andAlias sym).toList = c :: cs ∧ isSpace c = false ∧ c ≠ '(' ∧ c ≠ '[' ∧
      (sym = true → isIdentChar c = false ∧ c ≠ '.') := by
  cases sym
  · exact ⟨'b', _, rfl, by decide, by decide, by decide, fun h => by cases h⟩
  · exact ⟨'&', _, rfl, by decide, by decide, by decide, fun _ => ⟨by decide, by decide⟩⟩

/-- first character of an ordering spelling, with everything the atoms need of it -/
theorem ordAlias_head' (op : OrdOp) (sym : Bool) :
    ∃ c cs, (ordAlias op sym).toList = c :: cs ∧ isSpace c = false ∧ c ≠ '(' ∧ c ≠ '[' ∧
      (sym = true → isIdentChar c = false ∧ c ≠ '.') := by
  cases op <;> cases sym <;>
    exact ⟨_, _, rfl, by decide, by decide, by decide,
      by first | (intro _; exact ⟨by decide, by decide⟩) | (intro h; cases h)⟩

/-! ### the shape of a tail's text -/

/-- the text of a non-empty tail followed by anything: layout, then an operator whose first
character is no space, no `(`, no `[`; if the tail may be glued to a name and there is no layout,
that character is no name character -/
theorem Tail.shape (t : Tail) (hok : t.ok = true) (hne : t ≠ .isTrue) (rest : Input) :
    ∃ ws₁ c x, t.txt ++ rest = ws₁ ++ (c :: x) ∧ Layout ws₁ = true ∧ isSpace c = false ∧
      c ≠ '(' ∧ c ≠ '[' ∧
      (t.sepFromName = true → ws₁ = [] → isIdentChar c = false ∧ c ≠ '.') := by
  cases t with
  | isTrue => exact absurd rfl hne
  | ord ws₁ op sym ws₂ lit =>
    simp only [Tail.ok, Bool.and_eq_true] at hok
    obtain ⟨c, cs, hal, hs, hp, hb, hid⟩ := ordAlias_head' op sym
    refine ⟨ws₁, c, cs ++ (ws₂ ++ lit.txt) ++ rest, ?_, hok.1.1, hs, hp, hb, ?_⟩
    · simp [Tail.txt, hal, List.append_assoc]
    · intro hsep hnil
      subst hnil
      simp only [Tail.sepFromName, List.isEmpty_nil, Bool.not_true, Bool.or_false] at hsep
      exact hid hsep
  | inInts ws₁ ws₂ ws₀ items =>
    simp only [Tail.ok, Bool.and_eq_true] at hok
    refine ⟨ws₁, 'i', 'n' :: (ws₂ ++ '{' :: (ws₀ ++ (itemsTxt items ++ '}' :: rest))), ?_,
      hok.1.1.1.1, by decide, by decide, by decide, ?_⟩
    · simp only [Tail.txt, List.append_assoc, List.cons_append, List.nil_append]; rfl
    · intro hsep hnil
      subst hnil
      simp [Tail.sepFromName] at hsep
  | contains ws₁ ws₂ lit =>
    simp only [Tail.ok, Bool.and_eq_true] at hok
    refine ⟨ws₁, 'c', "ontains".toList ++ (ws₂ ++ (lit.txt ++ rest)), ?_,
      hok.1.1.1, by decide, by decide, by decide, ?_⟩
    · simp only [Tail.txt, List.append_assoc]; rfl
    · intro hsep hnil
      subst hnil
      simp [Tail.sepFromName] at hsep
  | inBytes ws₁ ws₂ ws₀ items =>
    simp only [Tail.ok, Bool.and_eq_true] at hok
    refine ⟨ws₁, 'i', 'n' :: (ws₂ ++ '{' :: (ws₀ ++ (bytesItemsTxt items ++ '}' :: rest))), ?_,
      hok.1.1.1.1, by decide, by decide, by decide, ?_⟩
    · simp only [Tail.txt, List.append_assoc, List.cons_append, List.nil_append]; rfl
    · intro hsep hnil
      subst hnil
      simp [Tail.sepFromName] at hsep
  | inIps ws₁ ws₂ ws₀ items =>
    simp only [Tail.ok, Bool.and_eq_true] at hok
    refine ⟨ws₁, 'i', 'n' :: (ws₂ ++ '{' :: (ws₀ ++ (ipItemsTxt items ++ '}' :: rest))), ?_,
      hok.1.1.1.1, by decide, by decide, by decide, ?_⟩
    · simp only [Tail.txt, List.append_assoc, List.cons_append, List.nil_append]; rfl
    · intro hsep hnil
      subst hnil
      simp [Tail.sepFromName] at hsep
  | bitAnd ws₁ sym ws₂ form v =>
    simp only [Tail.ok, Bool.and_eq_true] at hok
    obtain ⟨c, cs, hal, hs, hp, hb, hid⟩ := andAlias_head sym
    refine ⟨ws₁, c, cs ++ (ws₂ ++ renderInt form v) ++ rest, ?_, hok.1.1.1, hs, hp, hb, ?_⟩
    · simp [Tail.txt, hal, List.append_assoc]
    · intro hsep hnil
      subst hnil
      simp only [Tail.sepFromName, List.isEmpty_nil, Bool.not_true, Bool.or_false] at hsep
      exact hid hsep
  | inList ws₁ ws₂ ty l name =>
    simp only [Tail.ok, Bool.and_eq_true] at hok
    refine ⟨ws₁, 'i', 'n' :: (ws₂ ++ '$' :: (name ++ rest)), ?_,
      hok.1.1.1, by decide, by decide, by decide, ?_⟩
    · simp only [Tail.txt, List.append_assoc, List.cons_append, List.nil_append]; rfl
    · intro hsep hnil
      subst hnil
      simp [Tail.sepFromName] at hsep

theorem layout_head_space {w : Char} {ws : Input} (h : Layout (w :: ws) = true) :
    isSpace w = true := by
  simp only [Layout, List.all_cons, Bool.and_eq_true] at h
  exact h.1

/-- **what follows `name path` in an atom is a `PathStop`** (no `[`; after a bare name no name
character), provided the tail is separated from a bare name -/
theorem Tail.pathStop {tight : Bool} (t : Tail) (hok : t.ok = true) (path : List Ix)
    (hsep : path = [] → t.sepFromName = true) (rest : Input) (hstop : Stop tight rest = true) :
    PathStop path (t.txt ++ rest) := by
  by_cases hne : t = .isTrue
  · subst hne
    simpa [Tail.txt] using PathStop.of_idStop (path := path) (stop_idStop hstop)
  · obtain ⟨ws₁, c, x, he, hl, hs, _, hb, hid⟩ := t.shape hok hne rest
    rw [he]
    cases ws₁ with
    | nil =>
      refine ⟨?_, fun hp => ?_⟩
      · show stripPrefix (c :: x) ['['] = none
        simp [stripPrefix, hb]
      · obtain ⟨h1, h2⟩ := hid (hsep hp) rfl
        simp [NameStop, h1, h2]
    | cons w ws =>
      exact PathStop.of_idStop (idStop_of_space (layout_head_space hl) _)

/-- after the layout a tail does not go on with `(` -/
theorem Tail.noParen (t : Tail) (hok : t.ok = true) (hne : t ≠ .isTrue) (rest : Input) :
    expect (skipSpace (t.txt ++ rest)) "(" = none := by
  obtain ⟨ws₁, c, x, he, hl, hs, hp, _, _⟩ := t.shape hok hne rest
  rw [he, skipSpace_layout_solid hl ⟨c, x, rfl, hs⟩]
  show stripPrefix (c :: x) ['('] = none
  simp [stripPrefix, hp]

/-! ### `lex_with_lhs` on a tail -/

/-- **`ComparisonExpr::lex_with_lhs` on the text of a tail**, for any left-hand side of the
tail's type: with a `[*]` among the indexes the comparison is mapped over the elements and has
type `Array(Bool)` -/
theorem cmpWithLhs_tailG {tight : Bool} (env : PEnv) (lhs : IExpr) (t : Tail) (hok : t.ok = true)
    (hsch : t.schemeOk env.scheme = true) (rest : Input)
    (hstop : Stop tight rest = true) :
    cmpWithLhs env lhs t.ty (t.txt ++ rest) =
      .ok ({ node := .comparison lhs t.op, ty := if mapEachCount lhs.indexes > 0 then .array .bool else .bool }, rest) := by
  cases t with
  | isTrue => simpa [Tail.txt, Tail.ty, Tail.op] using cmpWithLhs_isTrueG env lhs rest
  | ord ws₁ op sym ws₂ l =>
    simp only [Tail.ok, Bool.and_eq_true] at hok
    obtain ⟨⟨h₁, h₂⟩, hlit⟩ := hok
    obtain ⟨c, cs, hal, hsp, _, _⟩ := ordAlias_head op sym
    obtain ⟨d, ds, hl, hd⟩ := l.txt_head
    have e : (Tail.ord ws₁ op sym ws₂ l).txt ++ rest =
        ws₁ ++ ((ordAlias op sym).toList ++ (ws₂ ++ (l.txt ++ rest))) := by
      simp [Tail.txt, List.append_assoc]
    rw [e]
    refine cmpWithLhs_ord_stepsG env lhs l.ty l.ty_cases op l.val _ _ _ _ rest
      (skipSpace_layout_solid h₁ ⟨c, cs ++ (ws₂ ++ (l.txt ++ rest)), by rw [hal]; rfl, hsp⟩)
      (lexEnum_ordAlias op sym _ ?_)
      (skipSpace_layout_solid h₂ ⟨d, ds ++ rest, by rw [hl]; rfl, (litStart_iff hd).1⟩)
      (l.lex hlit rest hstop)
    -- what follows the operator is layout or a literal start, never `=`
    cases ws₂ with
    | nil =>
      rw [List.nil_append, hl]
      simpa using (litStart_iff hd).2
    | cons w ws =>
      have hw := layout_head_space h₂
      intro h
      simp only [List.cons_append, List.head?_cons, Option.some.injEq] at h
      subst h
      revert hw; decide
  | inInts ws₁ ws₂ ws₀ items =>
    simp only [Tail.ok, Bool.and_eq_true] at hok
    obtain ⟨⟨⟨⟨h₁, h₂⟩, h₀⟩, hitems⟩, hsep⟩ := hok
    have e : (Tail.inInts ws₁ ws₂ ws₀ items).txt ++ rest =
        ws₁ ++ ("in".toList ++ (ws₂ ++ ('{' :: (ws₀ ++ (itemsTxt items ++ '}' :: rest))))) := by
      simp [Tail.txt, List.append_assoc]
    rw [e]
    exact cmpWithLhs_in_stepsG env lhs (itemsVal items) _ _ _ _ rest
      (skipSpace_layout_solid h₁ ⟨'i', _, rfl, by decide⟩)
      (lexEnum_in _)
      (skipSpace_layout_solid h₂ ⟨'{', _, rfl, by decide⟩)
      (by show stripPrefix ('{' :: _) ['$'] = none; simp [stripPrefix])
      (lexBrace_items items hitems hsep h₀ rest)
  | contains ws₁ ws₂ l =>
    simp only [Tail.ok, Bool.and_eq_true, beq_iff_eq] at hok
    obtain ⟨⟨⟨h₁, h₂⟩, hlit⟩, hty⟩ := hok
    obtain ⟨d, ds, hl, hd⟩ := l.txt_head
    have e : (Tail.contains ws₁ ws₂ l).txt ++ rest =
        ws₁ ++ ("contains".toList ++ (ws₂ ++ (l.txt ++ rest))) := by
      simp [Tail.txt, List.append_assoc]
    rw [e]
    exact cmpWithLhs_contains_stepsG env lhs l.bytes _ _ _ _ rest
      (skipSpace_layout_solid h₁ ⟨'c', _, rfl, by decide⟩)
      (lexEnum_contains _)
      (skipSpace_layout_solid h₂ ⟨d, ds ++ rest, by rw [hl]; rfl, (litStart_iff hd).1⟩)
      (l.lexBytes hlit hty rest)
  | inBytes ws₁ ws₂ ws₀ items =>
    simp only [Tail.ok, Bool.and_eq_true] at hok
    obtain ⟨⟨⟨⟨h₁, h₂⟩, h₀⟩, hitems⟩, hsep⟩ := hok
    have e : (Tail.inBytes ws₁ ws₂ ws₀ items).txt ++ rest =
        ws₁ ++ ("in".toList ++ (ws₂ ++ ('{' :: (ws₀ ++ (bytesItemsTxt items ++ '}' :: rest))))) := by
      simp [Tail.txt, List.append_assoc]
    rw [e]
    exact cmpWithLhs_inBytes_stepsG env lhs (bytesItemsVal items) _ _ _ _ rest
      (skipSpace_layout_solid h₁ ⟨'i', _, rfl, by decide⟩)
      (lexEnum_in _)
      (skipSpace_layout_solid h₂ ⟨'{', _, rfl, by decide⟩)
      (by show stripPrefix ('{' :: _) ['$'] = none; simp [stripPrefix])
      (lexBrace_bytesItems items hitems hsep h₀ rest)
  | inIps ws₁ ws₂ ws₀ items =>
    simp only [Tail.ok, Bool.and_eq_true] at hok
    obtain ⟨⟨⟨⟨h₁, h₂⟩, h₀⟩, hitems⟩, hsep⟩ := hok
    have e : (Tail.inIps ws₁ ws₂ ws₀ items).txt ++ rest =
        ws₁ ++ ("in".toList ++ (ws₂ ++ ('{' :: (ws₀ ++ (ipItemsTxt items ++ '}' :: rest))))) := by
      simp [Tail.txt, List.append_assoc]
    rw [e]
    exact cmpWithLhs_inIps_stepsG env lhs (ipItemsVal items) _ _ _ _ rest
      (skipSpace_layout_solid h₁ ⟨'i', _, rfl, by decide⟩)
      (lexEnum_in _)
      (skipSpace_layout_solid h₂ ⟨'{', _, rfl, by decide⟩)
      (by show stripPrefix ('{' :: _) ['$'] = none; simp [stripPrefix])
      (lexBrace_ipItems items hitems hsep h₀ rest)
  | bitAnd ws₁ sym ws₂ form v =>
    simp only [Tail.ok, Bool.and_eq_true] at hok
    obtain ⟨⟨⟨h₁, h₂⟩, hadm⟩, hi64⟩ := hok
    obtain ⟨c, cs, hal, hsp, _, _, _⟩ := andAlias_head sym
    obtain ⟨d, ds, hl, _, _, hd, _⟩ := renderInt_head form v
    have e : (Tail.bitAnd ws₁ sym ws₂ form v).txt ++ rest =
        ws₁ ++ ((andAlias sym).toList ++ (ws₂ ++ (renderInt form v ++ rest))) := by
      simp [Tail.txt, List.append_assoc]
    rw [e]
    exact cmpWithLhs_bitAnd_stepsG env lhs v _ _ _ _ rest
      (skipSpace_layout_solid h₁ ⟨c, cs ++ (ws₂ ++ (renderInt form v ++ rest)), by rw [hal]; rfl, hsp⟩)
      (lexEnum_andAlias sym _)
      (skipSpace_layout_solid h₂ ⟨d, ds ++ rest, by rw [hl]; rfl, hd⟩)
      (lexInt_renderInt form v rest hadm hi64 (stop_noHex hstop) (fun _ _ => stop_noX hstop))
  | inList ws₁ ws₂ ty l name =>
    simp only [Tail.ok, Bool.and_eq_true, Bool.or_eq_true, beq_iff_eq] at hok
    obtain ⟨⟨⟨h₁, h₂⟩, hname⟩, hty⟩ := hok
    simp only [Tail.schemeOk, beq_iff_eq] at hsch
    have e : (Tail.inList ws₁ ws₂ ty l name).txt ++ rest =
        ws₁ ++ ("in".toList ++ (ws₂ ++ ('$' :: (name ++ rest)))) := by
      simp [Tail.txt, List.append_assoc]
    rw [e]
    exact cmpWithLhs_inList_stepsG env lhs ty
      (by rcases hty with (h | h) | h <;> simp [h]) l name _ _ _ _ (name ++ rest) rest
      (skipSpace_layout_solid h₁ ⟨'i', _, rfl, by decide⟩)
      (lexEnum_in _)
      (skipSpace_layout_solid h₂ ⟨'$', _, rfl, by decide⟩)
      (by show stripPrefix ('$' :: _) ['$'] = _; simp [stripPrefix])
      (lexListName_name hname rest (stop_noListName hstop))
      hsch

/-- **`ComparisonExpr::lex_with_lhs` on the text of a tail** (no `[*]` on the left) -/
theorem cmpWithLhs_tail {tight : Bool} (env : PEnv) (lhs : IExpr)
    (hmec : mapEachCount lhs.indexes = 0) (t : Tail) (hok : t.ok = true)
    (hsch : t.schemeOk env.scheme = true) (rest : Input)
    (hstop : Stop tight rest = true) :
    cmpWithLhs env lhs t.ty (t.txt ++ rest) =
      .ok ({ node := .comparison lhs t.op, ty := .bool }, rest) := by
  simpa [hmec] using cmpWithLhs_tailG (tight := tight) env lhs t hok hsch rest hstop

end WfModel.Atoms
