import WfModel.Lemmas.Atoms.Lit
import WfModel.Lemmas.Atoms.Path
import WfModel.Lemmas.C06Brace

/-!
# Concrete atoms, part 3: what follows the left-hand side (`ComparisonExpr::lex_with_lhs`)

`Tail` is the syntax of what may follow `name path` in a concrete atom:

* nothing (`isTrue`: the left-hand side is a `Bool`);
* `ws₁ op ws₂ literal` with an ordering operator (`ord`);
* `ws₁ in ws₂ { ws₀ item ws … item ws }` with integer items `a` / `a..b` (`inInts`);
* `ws₁ contains ws₂ "…"` / `r#"…"#` (`contains`).

`cmpWithLhs_tail`: on the text of a tail meeting its side conditions, before every continuation
an atom stops at, `lex_with_lhs` returns `lhs op` of type `Bool` for ANY left-hand side without
`[*]` whose type is the tail's. Helper lemmas only.
-/
namespace WfModel.Atoms

open WfModel WfModel.Render WfModel.C07L

/-! ### integer sets -/

/-- one item of `{ … }` as written: a single value or `a..b`, and the layout after it -/
inductive IntItem
  | single (f : IntForm) (a : Int) (ws : Input)
  | range (f : IntForm) (a : Int) (g : IntForm) (b : Int) (ws : Input)
deriving DecidableEq, Repr

/-- text, following layout and value (`IntRange`: a single value `a` is `a..=a`) -/
def IntItem.entry : IntItem → BraceEntry (Int × Int)
  | .single f a ws => { text := renderInt f a, ws := ws, val := (a, a) }
  | .range f a g b ws =>
    { text := renderInt f a ++ ('.' :: '.' :: renderInt g b), ws := ws, val := (a, b) }

/-- both bounds are `i64` written in a form that admits them, `a ≤ b`, layout is layout -/
def IntItem.ok : IntItem → Bool
  | .single f a ws => f.admits a && inI64 a && Layout ws
  | .range f a g b ws =>
    f.admits a && inI64 a && g.admits b && inI64 b && decide (a ≤ b) && Layout ws

/-- `item ws item ws …` -/
def itemsTxt (items : List IntItem) : List Char := renderBraceBody (items.map IntItem.entry)

/-- the ranges in the order written (`RhsValues::Int`; nothing is merged or sorted at parse
time) -/
def itemsVal (items : List IntItem) : List (Int × Int) := (items.map IntItem.entry).map (·.val)

/-- every item but the last is followed by at least one layout character -/
def itemsSep (items : List IntItem) : Bool := WfModel.sepOk (items.map IntItem.entry)

theorem renderInt_itemHeadOk (f : IntForm) (v : Int) (t : List Char) :
    itemHeadOk (renderInt f v ++ t) = true := by
  obtain ⟨c, tl, he, _, _, hs, hb⟩ := renderInt_head f v
  rw [he]
  simp [itemHeadOk, hs, hb]

theorem IntItem.headOk (it : IntItem) : itemHeadOk it.entry.text = true := by
  cases it with
  | single f a ws => simpa [IntItem.entry] using renderInt_itemHeadOk f a []
  | range f a g b ws => exact renderInt_itemHeadOk f a _

theorem IntItem.lex (it : IntItem) (hok : it.ok = true) (tail : Input)
    (ht : IntItemRest tail = true) :
    lexIntRange (it.entry.text ++ tail) = .ok (it.entry.val, tail) := by
  simp only [IntItemRest, Bool.and_eq_true, Option.isNone_iff_eq_none] at ht
  cases it with
  | single f a ws =>
    simp only [IntItem.ok, Bool.and_eq_true] at hok
    exact lexIntRange_single f a tail hok.1.1 hok.1.2 ht.1.1 (fun _ _ => ht.1.2) ht.2
  | range f a g b ws =>
    simp only [IntItem.ok, Bool.and_eq_true, decide_eq_true_eq] at hok
    obtain ⟨⟨⟨⟨⟨hfa, hia⟩, hgb⟩, hib⟩, hab⟩, _⟩ := hok
    have := lexIntRange_render f g a b tail hfa hgb hia hib ht.1.1 (fun _ _ => ht.1.2)
    have hnlt : ¬ b < a := by omega
    simp only [hnlt, if_false] at this
    simpa [IntItem.entry, List.append_assoc] using this

theorem IntItem.ws_layout (it : IntItem) (hok : it.ok = true) :
    ∀ c ∈ it.entry.ws, isSpace c = true := by
  cases it with
  | single f a ws =>
    simp only [IntItem.ok, Bool.and_eq_true] at hok
    exact layout_iff.mp hok.2
  | range f a g b ws =>
    simp only [IntItem.ok, Bool.and_eq_true] at hok
    exact layout_iff.mp hok.2

/-- **`RhsValues::lex_with(_, Type::Int)` on a written set** -/
theorem lexBrace_items (items : List IntItem) (hok : items.all IntItem.ok = true)
    (hsep : itemsSep items = true) {ws₀ : Input} (h₀ : Layout ws₀ = true) (rest : Input) :
    lexBrace lexIntRange ('{' :: (ws₀ ++ (itemsTxt items ++ '}' :: rest))) =
      .ok (itemsVal items, rest) := by
  simp only [List.all_eq_true] at hok
  exact lexBrace_render lexIntRange IntItemRest intItemRest_of_space_or_close
    (items.map IntItem.entry) rest ws₀ (layout_iff.mp h₀)
    (by
      intro e he
      simp only [List.mem_map] at he
      obtain ⟨it, hit, rfl⟩ := he
      exact it.ws_layout (hok it hit))
    (by
      intro e he
      simp only [List.mem_map] at he
      obtain ⟨it, _, rfl⟩ := he
      exact it.headOk)
    hsep
    (by
      intro e he tail ht
      simp only [List.mem_map] at he
      obtain ⟨it, hit, rfl⟩ := he
      exact it.lex (hok it hit) tail ht)

/-! ### byte-string literals under `contains` -/

/-- the `BytesExpr` a quoted or raw literal stands for (`default` for the others: excluded by
`Tail.ok`) -/
def Lit.bytes : Lit → BytesLit
  | .quoted items => { fmt := .quoted, data := items.map (·.2) }
  | .raw k body => { fmt := .raw k, data := utf8s body }
  | _ => { fmt := .quoted, data := [] }

/-- `impl Lex for BytesExpr` on a quoted or raw literal, whatever follows -/
theorem Lit.lexBytes (l : Lit) (hok : l.ok = true) (hty : l.ty = .bytes) (rest : Input) :
    WfModel.lexBytes (l.txt ++ rest) = .ok (l.bytes, rest) := by
  cases l with
  | quoted items =>
    simp only [Lit.ok, List.all_eq_true] at hok
    have := lexBytes_quoted items rest hok
    simpa [Lit.txt, Lit.bytes, List.append_assoc] using this
  | raw k body =>
    simp only [Lit.ok, Bool.and_eq_true, decide_eq_true_eq] at hok
    have := lexBytes_raw k hok.1 body rest hok.2
    simpa [Lit.txt, Lit.bytes, List.append_assoc] using this
  | int f v => cases hty
  | ip4 a => cases hty
  | ip6 a => cases hty
  | ip6std a => cases hty

/-! ### syntax of tails -/

inductive Tail
  /-- nothing: a `Bool` left-hand side (`ComparisonOpExpr::IsTrue`) -/
  | isTrue
  /-- `ws₁ op ws₂ lit`; `sym` chooses the symbolic spelling -/
  | ord (ws₁ : Input) (op : OrdOp) (sym : Bool) (ws₂ : Input) (lit : Lit)
  /-- `ws₁ in ws₂ { ws₀ items }` -/
  | inInts (ws₁ ws₂ ws₀ : Input) (items : List IntItem)
  /-- `ws₁ contains ws₂ lit` (quoted or raw) -/
  | contains (ws₁ ws₂ : Input) (lit : Lit)
deriving DecidableEq, Repr

def Tail.txt : Tail → List Char
  | .isTrue => []
  | .ord ws₁ op sym ws₂ lit => ws₁ ++ ((ordAlias op sym).toList ++ (ws₂ ++ lit.txt))
  | .inInts ws₁ ws₂ ws₀ items =>
    ws₁ ++ ("in".toList ++ (ws₂ ++ ('{' :: (ws₀ ++ (itemsTxt items ++ ['}'])))))
  | .contains ws₁ ws₂ lit => ws₁ ++ ("contains".toList ++ (ws₂ ++ lit.txt))

/-- the type the left-hand side must have -/
def Tail.ty : Tail → Ty
  | .isTrue => .bool
  | .ord _ _ _ _ lit => lit.ty
  | .inInts _ _ _ _ => .int
  | .contains _ _ _ => .bytes

/-- the `ComparisonOpExpr` -/
def Tail.op : Tail → CmpOp
  | .isTrue => .isTrue
  | .ord _ op _ _ lit => .ordering op lit.val
  | .inInts _ _ _ items => .oneOf (.int (itemsVal items))
  | .contains _ _ lit => .contains lit.bytes

/-- side conditions local to the tail -/
def Tail.ok : Tail → Bool
  | .isTrue => true
  | .ord ws₁ _ _ ws₂ lit => Layout ws₁ && Layout ws₂ && lit.ok
  | .inInts ws₁ ws₂ ws₀ items =>
    Layout ws₁ && Layout ws₂ && Layout ws₀ && items.all IntItem.ok && itemsSep items
  | .contains ws₁ ws₂ lit => Layout ws₁ && Layout ws₂ && lit.ok && lit.ty == .bytes

/-- **may the tail be glued to a bare NAME?** A symbolic operator may (`i==5`); a word operator
needs layout before it (`ieq 5`, `iin {1}` are identifiers). After an index suffix `]` nothing
is needed (`a[0]eq 5`): see `CAtom.ok`. -/
def Tail.sepFromName : Tail → Bool
  | .isTrue => true
  | .ord ws₁ _ sym _ _ => sym || !ws₁.isEmpty
  | .inInts ws₁ _ _ _ => !ws₁.isEmpty
  | .contains ws₁ _ _ => !ws₁.isEmpty

/-! ### `lex_with_lhs`, by its lexing steps, for any left-hand side without `[*]` -/

theorem cmpWithLhs_isTrue (env : PEnv) (lhs : IExpr) (hmec : mapEachCount lhs.indexes = 0)
    (rest : Input) :
    cmpWithLhs env lhs .bool rest =
      .ok ({ node := .comparison lhs .isTrue, ty := .bool }, rest) := by
  simp [cmpWithLhs, hmec]

theorem cmpWithLhs_ord_steps' (env : PEnv) (lhs : IExpr) (hmec : mapEachCount lhs.indexes = 0)
    (ty : Ty) (hty : ty = .int ∨ ty = .ip ∨ ty = .bytes) (op : OrdOp) (v : RhsVal)
    (input afterLayout afterOp lit rest : Input)
    (e1 : skipSpace input = afterLayout)
    (e2 : lexEnum comparisonOps afterLayout = some (CompOp.ord op, afterOp))
    (e3 : skipSpace afterOp = lit)
    (e4 : lexRhsVal ty lit = some (.ok (v, rest))) :
    cmpWithLhs env lhs ty input =
      .ok ({ node := .comparison lhs (.ordering op v), ty := .bool }, rest) := by
  unfold cmpWithLhs
  rcases hty with rfl | rfl | rfl <;>
    simp [hmec, Ty.next, e1, e2, e3, e4]

theorem cmpWithLhs_in_steps (env : PEnv) (lhs : IExpr) (hmec : mapEachCount lhs.indexes = 0)
    (vs : List (Int × Int)) (input afterLayout afterOp set rest : Input)
    (e1 : skipSpace input = afterLayout)
    (e2 : lexEnum comparisonOps afterLayout = some (CompOp.in_, afterOp))
    (e3 : skipSpace afterOp = set)
    (e4 : expect set "$" = none)
    (e5 : lexBrace lexIntRange set = .ok (vs, rest)) :
    cmpWithLhs env lhs .int input =
      .ok ({ node := .comparison lhs (.oneOf (.int vs)), ty := .bool }, rest) := by
  unfold cmpWithLhs
  simp [hmec, Ty.next, e1, e2, e3, e4, e5, lexRhsVals, Except.map]

theorem cmpWithLhs_contains_steps (env : PEnv) (lhs : IExpr)
    (hmec : mapEachCount lhs.indexes = 0) (b : BytesLit)
    (input afterLayout afterOp lit rest : Input)
    (e1 : skipSpace input = afterLayout)
    (e2 : lexEnum comparisonOps afterLayout = some (CompOp.contains, afterOp))
    (e3 : skipSpace afterOp = lit)
    (e4 : WfModel.lexBytes lit = .ok (b, rest)) :
    cmpWithLhs env lhs .bytes input =
      .ok ({ node := .comparison lhs (.contains b), ty := .bool }, rest) := by
  unfold cmpWithLhs
  simp [hmec, Ty.next, e1, e2, e3, e4]

/-! ### operator words -/

theorem lexEnum_in (x : Input) : lexEnum comparisonOps ("in".toList ++ x) = some (CompOp.in_, x) :=
  comparisonOps_complete ("in", .in_) (by decide) x (fun h => by rcases h with h | h <;> exact absurd h (by decide))

theorem lexEnum_contains (x : Input) :
    lexEnum comparisonOps ("contains".toList ++ x) = some (CompOp.contains, x) :=
  comparisonOps_complete ("contains", .contains) (by decide) x
    (fun h => by rcases h with h | h <;> exact absurd h (by decide))

/-- first character of an ordering spelling, with everything the atoms need of it -/
theorem ordAlias_head' (op : OrdOp) (sym : Bool) :
    ∃ c cs, (ordAlias op sym).toList = c :: cs ∧ isSpace c = false ∧ c ≠ '(' ∧ c ≠ '[' ∧
      (sym = true → isIdentChar c = false ∧ c ≠ '.') := by
  cases op <;> cases sym <;>
    exact ⟨_, _, rfl, by decide, by decide, by decide,
      by first | (intro _; exact ⟨by decide, by decide⟩) | (intro h; cases h)⟩

/-! ### the shape of a tail's text -/

/-- the text of a non-empty tail followed by anything: layout, then an operator whose first
character is no space, no `(`, no `[`; if the tail may be glued to a name and there is no layout,
that character is no name character -/
theorem Tail.shape (t : Tail) (hok : t.ok = true) (hne : t ≠ .isTrue) (rest : Input) :
    ∃ ws₁ c x, t.txt ++ rest = ws₁ ++ (c :: x) ∧ Layout ws₁ = true ∧ isSpace c = false ∧
      c ≠ '(' ∧ c ≠ '[' ∧
      (t.sepFromName = true → ws₁ = [] → isIdentChar c = false ∧ c ≠ '.') := by
  cases t with
  | isTrue => exact absurd rfl hne
  | ord ws₁ op sym ws₂ lit =>
    simp only [Tail.ok, Bool.and_eq_true] at hok
    obtain ⟨c, cs, hal, hs, hp, hb, hid⟩ := ordAlias_head' op sym
    refine ⟨ws₁, c, cs ++ (ws₂ ++ lit.txt) ++ rest, ?_, hok.1.1, hs, hp, hb, ?_⟩
    · simp [Tail.txt, hal, List.append_assoc]
    · intro hsep hnil
      subst hnil
      simp only [Tail.sepFromName, List.isEmpty_nil, Bool.not_true, Bool.or_false] at hsep
      exact hid hsep
  | inInts ws₁ ws₂ ws₀ items =>
    simp only [Tail.ok, Bool.and_eq_true] at hok
    refine ⟨ws₁, 'i', 'n' :: (ws₂ ++ '{' :: (ws₀ ++ (itemsTxt items ++ '}' :: rest))), ?_,
      hok.1.1.1.1, by decide, by decide, by decide, ?_⟩
    · simp only [Tail.txt, List.append_assoc, List.cons_append, List.nil_append]; rfl
    · intro hsep hnil
      subst hnil
      simp [Tail.sepFromName] at hsep
  | contains ws₁ ws₂ lit =>
    simp only [Tail.ok, Bool.and_eq_true] at hok
    refine ⟨ws₁, 'c', "ontains".toList ++ (ws₂ ++ (lit.txt ++ rest)), ?_,
      hok.1.1.1, by decide, by decide, by decide, ?_⟩
    · simp only [Tail.txt, List.append_assoc]; rfl
    · intro hsep hnil
      subst hnil
      simp [Tail.sepFromName] at hsep

theorem layout_head_space {w : Char} {ws : Input} (h : Layout (w :: ws) = true) :
    isSpace w = true := by
  simp only [Layout, List.all_cons, Bool.and_eq_true] at h
  exact h.1

/-- **what follows `name path` in an atom is a `PathStop`** (no `[`; after a bare name no name
character), provided the tail is separated from a bare name -/
theorem Tail.pathStop {tight : Bool} (t : Tail) (hok : t.ok = true) (path : List Ix)
    (hsep : path = [] → t.sepFromName = true) (rest : Input) (hstop : Stop tight rest = true) :
    PathStop path (t.txt ++ rest) := by
  by_cases hne : t = .isTrue
  · subst hne
    simpa [Tail.txt] using PathStop.of_idStop (path := path) (stop_idStop hstop)
  · obtain ⟨ws₁, c, x, he, hl, hs, _, hb, hid⟩ := t.shape hok hne rest
    rw [he]
    cases ws₁ with
    | nil =>
      refine ⟨?_, fun hp => ?_⟩
      · show stripPrefix (c :: x) ['['] = none
        simp [stripPrefix, hb]
      · obtain ⟨h1, h2⟩ := hid (hsep hp) rfl
        simp [NameStop, h1, h2]
    | cons w ws =>
      exact PathStop.of_idStop (idStop_of_space (layout_head_space hl) _)

/-- after the layout a tail does not go on with `(` -/
theorem Tail.noParen (t : Tail) (hok : t.ok = true) (hne : t ≠ .isTrue) (rest : Input) :
    expect (skipSpace (t.txt ++ rest)) "(" = none := by
  obtain ⟨ws₁, c, x, he, hl, hs, hp, _, _⟩ := t.shape hok hne rest
  rw [he, skipSpace_layout_solid hl ⟨c, x, rfl, hs⟩]
  show stripPrefix (c :: x) ['('] = none
  simp [stripPrefix, hp]

/-! ### `lex_with_lhs` on a tail -/

/-- **`ComparisonExpr::lex_with_lhs` on the text of a tail** -/
theorem cmpWithLhs_tail {tight : Bool} (env : PEnv) (lhs : IExpr)
    (hmec : mapEachCount lhs.indexes = 0) (t : Tail) (hok : t.ok = true) (rest : Input)
    (hstop : Stop tight rest = true) :
    cmpWithLhs env lhs t.ty (t.txt ++ rest) =
      .ok ({ node := .comparison lhs t.op, ty := .bool }, rest) := by
  cases t with
  | isTrue => simpa [Tail.txt, Tail.ty, Tail.op] using cmpWithLhs_isTrue env lhs hmec rest
  | ord ws₁ op sym ws₂ l =>
    simp only [Tail.ok, Bool.and_eq_true] at hok
    obtain ⟨⟨h₁, h₂⟩, hlit⟩ := hok
    obtain ⟨c, cs, hal, hsp, _, _⟩ := ordAlias_head op sym
    obtain ⟨d, ds, hl, hd⟩ := l.txt_head
    have e : (Tail.ord ws₁ op sym ws₂ l).txt ++ rest =
        ws₁ ++ ((ordAlias op sym).toList ++ (ws₂ ++ (l.txt ++ rest))) := by
      simp [Tail.txt, List.append_assoc]
    rw [e]
    refine cmpWithLhs_ord_steps' env lhs hmec l.ty l.ty_cases op l.val _ _ _ _ rest
      (skipSpace_layout_solid h₁ ⟨c, cs ++ (ws₂ ++ (l.txt ++ rest)), by rw [hal]; rfl, hsp⟩)
      (lexEnum_ordAlias op sym _ ?_)
      (skipSpace_layout_solid h₂ ⟨d, ds ++ rest, by rw [hl]; rfl, (litStart_iff hd).1⟩)
      (l.lex hlit rest hstop)
    -- what follows the operator is layout or a literal start, never `=`
    cases ws₂ with
    | nil =>
      rw [List.nil_append, hl]
      simpa using (litStart_iff hd).2
    | cons w ws =>
      have hw := layout_head_space h₂
      intro h
      simp only [List.cons_append, List.head?_cons, Option.some.injEq] at h
      subst h
      revert hw; decide
  | inInts ws₁ ws₂ ws₀ items =>
    simp only [Tail.ok, Bool.and_eq_true] at hok
    obtain ⟨⟨⟨⟨h₁, h₂⟩, h₀⟩, hitems⟩, hsep⟩ := hok
    have e : (Tail.inInts ws₁ ws₂ ws₀ items).txt ++ rest =
        ws₁ ++ ("in".toList ++ (ws₂ ++ ('{' :: (ws₀ ++ (itemsTxt items ++ '}' :: rest))))) := by
      simp [Tail.txt, List.append_assoc]
    rw [e]
    exact cmpWithLhs_in_steps env lhs hmec (itemsVal items) _ _ _ _ rest
      (skipSpace_layout_solid h₁ ⟨'i', _, rfl, by decide⟩)
      (lexEnum_in _)
      (skipSpace_layout_solid h₂ ⟨'{', _, rfl, by decide⟩)
      (by show stripPrefix ('{' :: _) ['$'] = none; simp [stripPrefix])
      (lexBrace_items items hitems hsep h₀ rest)
  | contains ws₁ ws₂ l =>
    simp only [Tail.ok, Bool.and_eq_true, beq_iff_eq] at hok
    obtain ⟨⟨⟨h₁, h₂⟩, hlit⟩, hty⟩ := hok
    obtain ⟨d, ds, hl, hd⟩ := l.txt_head
    have e : (Tail.contains ws₁ ws₂ l).txt ++ rest =
        ws₁ ++ ("contains".toList ++ (ws₂ ++ (l.txt ++ rest))) := by
      simp [Tail.txt, List.append_assoc]
    rw [e]
    exact cmpWithLhs_contains_steps env lhs hmec l.bytes _ _ _ _ rest
      (skipSpace_layout_solid h₁ ⟨'c', _, rfl, by decide⟩)
      (lexEnum_contains _)
      (skipSpace_layout_solid h₂ ⟨d, ds ++ rest, by rw [hl]; rfl, (litStart_iff hd).1⟩)
      (l.lexBytes hlit hty rest)

end WfModel.Atoms
