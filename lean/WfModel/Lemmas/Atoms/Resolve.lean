import WfModel.Lemmas.Atoms

/-!
# Whole filters consisting of one concrete atom: a registered name is resolved by its
complete dotted name (also when it begins with the word `not`)

`str::trim` leaves a valid name alone; `FilterParser::parse` on the text of one concrete atom.
Helper lemmas only; the property statements are in `Props/C16Ident.lean`.
-/
namespace WfModel.Atoms

open WfModel WfModel.Render WfModel.C07L

/-! ### `str::trim` on a name -/

theorem identChar_toNat {c : Char} (h : isIdentChar c = true) :
    (48 ≤ c.toNat ∧ c.toNat ≤ 57) ∨ (65 ≤ c.toNat ∧ c.toNat ≤ 90) ∨
      (97 ≤ c.toNat ∧ c.toNat ≤ 122) ∨ c.toNat = 95 := by
  unfold isIdentChar isAsciiAlnum isAsciiAlpha isAsciiDigit at h
  simp only [Bool.or_eq_true, Bool.and_eq_true, decide_eq_true_eq, char_le_iff] at h
  have e0 : ('0' : Char).toNat = 48 := by decide
  have e9 : ('9' : Char).toNat = 57 := by decide
  have ea : ('a' : Char).toNat = 97 := by decide
  have ez : ('z' : Char).toNat = 122 := by decide
  have eA : ('A' : Char).toNat = 65 := by decide
  have eZ : ('Z' : Char).toNat = 90 := by decide
  simp only [e0, e9, ea, ez, eA, eZ] at h
  rcases h with ((h | h) | h) | h
  · omega
  · omega
  · omega
  · subst h; right; right; right; decide

/-- an identifier character is no Unicode white space -/
theorem identChar_not_rustWs {c : Char} (h : isIdentChar c = true) :
    isRustWhitespace c = false := by
  have hn := identChar_toNat h
  cases hw : isRustWhitespace c with
  | false => rfl
  | true =>
    exfalso
    simp only [isRustWhitespace, Bool.or_eq_true, Bool.and_eq_true, decide_eq_true_eq] at hw
    omega

/-- a non-empty text accepted by `nameOkAux` ends with an identifier character -/
theorem nameOkAux_last : ∀ (l : List Char) (seen : Bool), nameOkAux seen l = true → l ≠ [] →
    ∃ init c, l = init ++ [c] ∧ isIdentChar c = true
  | [], _, _, hne => absurd rfl hne
  | [c], seen, h, _ => by
    refine ⟨[], c, rfl, ?_⟩
    rcases nameOkAux_head h with hc | rfl
    · exact hc
    · rw [nameOkAux_dot] at h
      simp [nameOkAux] at h
  | c :: d :: ds, seen, h, _ => by
    have h' : ∃ seen', nameOkAux seen' (d :: ds) = true := by
      rcases nameOkAux_head h with hc | rfl
      · exact ⟨true, by rwa [nameOkAux_ident hc] at h⟩
      · rw [nameOkAux_dot] at h
        simp only [Bool.and_eq_true] at h
        exact ⟨false, h.2⟩
    obtain ⟨seen', hs⟩ := h'
    obtain ⟨init, e, he, hc⟩ := nameOkAux_last (d :: ds) seen' hs (by simp)
    exact ⟨c :: init, e, by rw [he]; rfl, hc⟩

theorem trimStart_cons_of_not_ws {c : Char} (h : isRustWhitespace c = false) (cs : Input) :
    trimStart (c :: cs) = c :: cs := by
  simp [trimStart, h]

/-- **`str::trim` leaves a valid name alone** -/
theorem trim_name {name : List Char} (hn : nameOk name = true) : trim name = name := by
  obtain ⟨c, cs, rfl, hc, _⟩ := nameOk_head hn
  obtain ⟨init, e, he, hec⟩ := nameOkAux_last (c :: cs) false hn (by simp)
  unfold trim trimEnd
  rw [trimStart_cons_of_not_ws (identChar_not_rustWs hc), he, List.reverse_append,
    List.reverse_singleton, List.singleton_append,
    trimStart_cons_of_not_ws (identChar_not_rustWs hec)]
  simp

/-! ### one atom as a whole filter -/

/-- `FilterParser::parse` on the text of one concrete atom -/
theorem filter_atom (env : PEnv) (a : CAtom) (hok : a.ok env.scheme = true)
    (htrim : trim a.txt = a.txt) : parseFilter env a.txt = .ok (a.node env.scheme) :=
  filter_concrete env false (.atom a) (by simpa [allAtoms] using hok) a.txt
    (.simple (.atom a)) (Nat.zero_le _) htrim

/-- the bare field: the whole filter `name` -/
theorem filter_boolField (env : PEnv) {name : List Char} (hname : nameOk name = true)
    (hnot : name ≠ "not".toList) (hany : name ≠ "any".toList) (hall : name ≠ "all".toList)
    (hfield : fieldHasTy env.scheme name .bool = true) :
    parseFilter env name = .ok (.comparison (.field (fieldIx env.scheme name) []) .isTrue) := by
  have e : (CAtom.boolField name).txt = name := by simp [CAtom.txt, pathTxt, Tail.txt]
  have := filter_atom env (.boolField name) (CAtom.ok_boolField hname hnot hany hall hfield)
    (by rw [e]; exact trim_name hname)
  rw [e] at this
  exact this

/-! ### the argument lexer (`FunctionCallArgExpr::lex_with`) -/

/-- a function argument that starts with a registered field name beginning with `not` is lexed
as that field (then an optional comparison), not as a logical expression `not …` -/
theorem argL_not_prefixed (env : PEnv) (lower : Option Level) {name more : Input} {i : Nat}
    (hn : nameOk name = true) (hpre : "not".toList <+: name) (hne : name ≠ "not".toList)
    (hget : env.scheme.get name = some (.field i)) (hmore : IdStop more = true) :
    argL env lower (name ++ more) =
      argAfterIndex env { node := .field i [], ty := env.scheme.fieldTy i } more := by
  have hu := name_noUnary env hn (by rw [hget]; rfl) hne hmore
  have hq : lexQuantCall (name ++ more) = none :=
    name_noQuant hn hmore (fun h => by
      obtain ⟨tl, rfl⟩ := hpre
      rcases h with h | h <;> simp at h)
  have hix := indexExprL_field env lower hn hget hmore
  obtain ⟨tl, rfl⟩ := hpre
  have e : "not".toList ++ tl ++ more = 'n' :: 'o' :: 't' :: (tl ++ more) := by simp
  rw [e] at hu hq hix ⊢
  have hf : cIsField 'n' = true := by decide
  simp [argL, hu, hq, hix, hf]

end WfModel.Atoms
