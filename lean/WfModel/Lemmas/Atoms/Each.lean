import WfModel.Lemmas.Atoms

/-!
# Concrete atoms, part 5: the map-each suffix `[*]` and quantifier calls

`EIx` extends the written index suffixes by `[ws₁ * ws₂]`; `EAtom` is `name path tail` with at
least one `[*]` in the path. Such a comparison is mapped over the elements: `ComparisonExpr`
has type `Array(Bool)` (`eachAtom_comparison`), so it is NOT a `GoodAtom` (whose first clause asks
for type `Bool`) and cannot be an operand of a filter by itself. It is what `any( … )` / `all( … )`
take: `quantifier_simple` shows that `LogicalExpr::lex_simple_expr` reads
`any ws₀ ( ws₁ name path tail ws₂ )` to `Quantifier { op, arg: Logical(comparison) }` of type
`Bool`, whatever follows. Helper lemmas only.
-/
namespace WfModel.Atoms

open WfModel WfModel.Render WfModel.C07L

/-! ### index suffixes with `[*]` -/

/-- an index suffix as written: one of `Ix`, or `[ws₁ * ws₂]` -/
inductive EIx
  | ix (i : Ix)
  | each (ws₁ ws₂ : Input)
deriving DecidableEq, Repr

def EIx.txt : EIx → List Char
  | .ix i => i.txt
  | .each ws₁ ws₂ => '[' :: (ws₁ ++ ('*' :: (ws₂ ++ [']'])))

def EIx.val : EIx → FieldIndex
  | .ix i => i.val
  | .each _ _ => .each

def EIx.ok : EIx → Bool
  | .ix i => i.ok
  | .each ws₁ ws₂ => Layout ws₁ && Layout ws₂

def epathTxt : List EIx → List Char
  | [] => []
  | ix :: r => ix.txt ++ epathTxt r

theorem lexFieldIndex_star (x : Input) : lexFieldIndex ('*' :: x) = .ok (.each, x) := by
  unfold lexFieldIndex
  have : expect ('*' :: x) "*" = some x := by
    show stripPrefix ('*' :: x) ['*'] = _
    simp [stripPrefix]
  simp [this]

theorem lexFieldIndex_eix (ix : EIx) (hok : ix.ok = true) (more : Input) :
    ∃ ws₁ body ws₂, ix.txt ++ more = '[' :: (ws₁ ++ (body ++ (ws₂ ++ ']' :: more))) ∧
      Layout ws₁ = true ∧ Layout ws₂ = true ∧ Solid (body ++ (ws₂ ++ ']' :: more)) ∧
      lexFieldIndex (body ++ (ws₂ ++ ']' :: more)) = .ok (ix.val, ws₂ ++ ']' :: more) := by
  cases ix with
  | ix i => exact lexFieldIndex_ix i hok more
  | each ws₁ ws₂ =>
    simp only [EIx.ok, Bool.and_eq_true] at hok
    exact ⟨ws₁, ['*'], ws₂, by simp [EIx.txt], hok.1, hok.2, ⟨'*', _, rfl, by decide⟩,
      lexFieldIndex_star _⟩

theorem lexIndexes_estep (f : Nat) (ix : EIx) (hok : ix.ok = true) (more : Input) (ty ty' : Ty)
    (acc : List FieldIndex) (hstep : indexStep ty ix.val = some ty') :
    lexIndexes (f + 1) (ix.txt ++ more) ty acc = lexIndexes f more ty' (acc ++ [ix.val]) := by
  obtain ⟨ws₁, body, ws₂, he, h₁, h₂, hsolid, hlex⟩ := lexFieldIndex_eix ix hok more
  rw [he, lexIndexes]
  simp only [expect_open_bracket, skipSpace_layout_solid h₁ hsolid, hlex,
    skipSpace_layout_solid h₂ (closeSolid more), expect_close_bracket, hstep]

/-- **the `[ … ]` loop on a well-typed path with `[*]`** (`[*]` on an array or a map steps to
the element type: `indexStep`) -/
theorem lexIndexes_epath : ∀ (path : List EIx) (f : Nat) (more : Input) (ty ty' : Ty)
    (acc : List FieldIndex), path.all EIx.ok = true → pathTy ty (path.map EIx.val) = some ty' →
    expect more "[" = none → path.length < f →
    lexIndexes f (epathTxt path ++ more) ty acc = .ok ((acc ++ path.map EIx.val, ty'), more)
  | [], f, more, ty, ty', acc, _, hty, hmore, hf => by
    obtain ⟨f', rfl⟩ : ∃ f', f = f' + 1 := ⟨f - 1, by simp at hf; omega⟩
    simp only [List.map_nil, pathTy, Option.some.injEq] at hty
    subst hty
    simpa [epathTxt] using lexIndexes_stop hmore f' ty acc
  | ix :: r, f, more, ty, ty', acc, hok, hty, hmore, hf => by
    obtain ⟨f', rfl⟩ : ∃ f', f = f' + 1 := ⟨f - 1, by simp at hf; omega⟩
    simp only [List.all_cons, Bool.and_eq_true] at hok
    simp only [List.map_cons, pathTy] at hty
    cases hs : indexStep ty ix.val with
    | none => rw [hs] at hty; cases hty
    | some t1 =>
      rw [hs] at hty
      have e : epathTxt (ix :: r) ++ more = ix.txt ++ (epathTxt r ++ more) := by
        simp [epathTxt]
      rw [e, lexIndexes_estep f' ix hok.1 _ ty t1 acc hs,
        lexIndexes_epath r f' more t1 ty' _ hok.2 hty hmore (by simp at hf; omega)]
      simp

theorem eix_txt_length (ix : EIx) : 1 ≤ ix.txt.length := by
  cases ix with
  | ix i => exact ix_txt_length i
  | each ws₁ ws₂ => simp [EIx.txt]

theorem length_le_epathTxt : ∀ path : List EIx, path.length ≤ (epathTxt path).length
  | [] => Nat.le_refl _
  | ix :: r => by
    have := length_le_epathTxt r
    have := eix_txt_length ix
    simp only [epathTxt, List.length_cons, List.length_append]
    omega

theorem epathTxt_head {ix : EIx} {r : List EIx} (more : Input) :
    ∃ x, epathTxt (ix :: r) ++ more = '[' :: x := by
  cases ix with
  | ix i =>
    cases i <;> exact ⟨_, by simp [epathTxt, EIx.txt, Ix.txt]; rfl⟩
  | each ws₁ ws₂ => exact ⟨_, by simp [epathTxt, EIx.txt]; rfl⟩

/-- **`IndexExpr::lex_with` on `name path`**, `path` non-empty, possibly with `[*]` -/
theorem indexExprL_epath (env : PEnv) (lower : Option Level) {name more : Input}
    {path : List EIx} {i : Nat} {t : Ty} (hn : nameOk name = true)
    (hget : env.scheme.get name = some (.field i)) (hne : path ≠ [])
    (hpath : path.all EIx.ok = true)
    (hty : pathTy (env.scheme.fieldTy i) (path.map EIx.val) = some t)
    (hmore : expect more "[" = none) :
    indexExprL env lower (name ++ (epathTxt path ++ more)) =
      .ok ({ node := .field i (path.map EIx.val), ty := t }, more) := by
  have hns : NameStop (epathTxt path ++ more) = true := by
    cases path with
    | nil => exact absurd rfl hne
    | cons ix r =>
      obtain ⟨x, hx⟩ := epathTxt_head (ix := ix) (r := r) more
      rw [hx]; exact nameStop_bracket x
  unfold indexExprL
  rw [lexIdentifier_name_ns env.scheme hn hns]
  simp only [hget]
  rw [lexIndexes_epath path _ more _ t [] hpath hty hmore
    (by have := length_le_epathTxt path; simp only [List.length_append]; omega)]
  simp

/-! ### atoms with `[*]` -/

/-- `name path tail` with `[*]` allowed in the path -/
structure EAtom where
  name : List Char
  path : List EIx
  tail : Tail
deriving DecidableEq, Repr

def EAtom.txt (a : EAtom) : List Char := a.name ++ (epathTxt a.path ++ a.tail.txt)

/-- the left-hand side `IndexExpr { field, indexes }` -/
def EAtom.lhs (s : Scheme) (a : EAtom) : IExpr :=
  .field (fieldIx s a.name) (a.path.map EIx.val)

def EAtom.node (s : Scheme) (a : EAtom) : LExpr := .comparison (a.lhs s) a.tail.op

/-- **side conditions**: as for `CAtom` (valid name other than the word `not` — `not[*] == 1` is
the operator `not` applied to `[*] == 1` —, well-formed suffixes, well-formed tail, the
scheme has the field, the path is well-typed for it — `[*]` on an array or a map — and ends in
the tail's type, a list is registered for `in $name`), and the path contains at least one `[*]`
(so it is non-empty: nothing is asked where the tail meets the name) -/
def EAtom.ok (s : Scheme) (a : EAtom) : Bool :=
  nameGood a.name && a.path.all EIx.ok && a.tail.ok &&
    fieldPathTy s a.name (a.path.map EIx.val) a.tail.ty && a.tail.schemeOk s &&
    decide (0 < mapEachCount (a.path.map EIx.val))

theorem EAtom.path_ne_nil {a : EAtom} (h : 0 < mapEachCount (a.path.map EIx.val)) :
    a.path ≠ [] := by
  intro hp
  rw [hp] at h
  simp [mapEachCount] at h

/-- what follows the path of an atom never is `[` -/
theorem Tail.noBracket {tight : Bool} (t : Tail) (hok : t.ok = true) (rest : Input)
    (hstop : Stop tight rest = true) : expect (t.txt ++ rest) "[" = none :=
  (t.pathStop hok [.arr [] 0 []] (fun h => by cases h) rest hstop).noBracket

/-- **`ComparisonExpr::lex_with` on an atom with `[*]`**: the node is the comparison on the
indexed field, its type is `Array(Bool)` -/
theorem eachAtom_comparison (env : PEnv) (lower : Option Level) (tight : Bool) (a : EAtom)
    (h : a.ok env.scheme = true) (rest : Input) (hstop : Stop tight rest = true) :
    comparisonL env lower (a.txt ++ rest) =
      .ok ({ node := a.node env.scheme, ty := .array .bool }, rest) := by
  obtain ⟨name, path, tail⟩ := a
  simp only [EAtom.ok, Bool.and_eq_true, decide_eq_true_eq] at h
  obtain ⟨⟨⟨⟨⟨hg, hpath⟩, htail⟩, hf⟩, hsch⟩, hmec⟩ := h
  obtain ⟨hn, _⟩ := nameGood_spec hg
  obtain ⟨hget, hty⟩ := fieldPathTy_spec hf
  have hne : path ≠ [] := EAtom.path_ne_nil (a := ⟨name, path, tail⟩) hmec
  have eq : EAtom.txt ⟨name, path, tail⟩ ++ rest = name ++ (epathTxt path ++ (tail.txt ++ rest)) := by
    simp [EAtom.txt, List.append_assoc]
  rw [eq]
  unfold comparisonL
  rw [indexExprL_epath env lower hn hget hne hpath hty (tail.noBracket htail rest hstop)]
  have := cmpWithLhs_tailG (tight := tight) env
    (.field (fieldIx env.scheme name) (path.map EIx.val)) tail htail hsch rest hstop
  have hm : mapEachCount (IExpr.field (fieldIx env.scheme name) (path.map EIx.val)).indexes > 0 :=
    hmec
  simp only [hm, if_true] at this
  exact this

/-! ### quantifier calls -/

/-- the two quantifier words -/
def quantWord : QOp → String
  | .any => "any"
  | .all => "all"

theorem Tail.ty_cases (t : Tail) (hok : t.ok = true) (hne : t ≠ .isTrue) :
    t.ty = .int ∨ t.ty = .ip ∨ t.ty = .bytes := by
  cases t with
  | isTrue => exact absurd rfl hne
  | ord _ _ _ _ lit => exact lit.ty_cases
  | inInts _ _ _ _ => exact .inl rfl
  | contains _ _ _ => exact .inr (.inr rfl)
  | inBytes _ _ _ _ => exact .inr (.inr rfl)
  | inIps _ _ _ _ => exact .inr (.inl rfl)
  | bitAnd _ _ _ _ _ => exact .inl rfl
  | inList _ _ ty _ _ =>
    simp only [Tail.ok, Bool.and_eq_true, Bool.or_eq_true, beq_iff_eq] at hok
    rcases hok.2 with (h | h) | h
    · exact .inl h
    · exact .inr (.inl h)
    · exact .inr (.inr h)

/-- a successful comparison on an `Int` / `Ip` / `Bytes` left-hand side has read an operator -/
theorem cmpWithLhs_ok_op {env : PEnv} {lhs : IExpr} {ty : Ty} {input : Input}
    {r : Typed LExpr × Input} (hty : ty = .int ∨ ty = .ip ∨ ty = .bytes)
    (h : cmpWithLhs env lhs ty input = .ok r) :
    (lexEnum comparisonOps (skipSpace input)).isSome = true := by
  cases hl : lexEnum comparisonOps (skipSpace input) with
  | some _ => rfl
  | none =>
    unfold cmpWithLhs at h
    rcases hty with rfl | rfl | rfl <;> simp [hl, Ty.next, errAt] at h

/-- **`FunctionCallArgExpr::lex_with` on a text that begins with a field name followed by `[`**:
neither a string, nor a parenthesis, unary operator or quantifier call — it is an index expression
(by the look-ahead or by the fallback), possibly continued by a comparison -/
theorem argL_name (env : PEnv) (lower : Option Level) {name x : Input} (hn : nameOk name = true)
    (hnu : lexUnary env (name ++ '[' :: x) = none)
    (hnq : lexQuantCall (name ++ '[' :: x) = none)
    {lhs : Typed IExpr} {rest : Input}
    (hidx : indexExprL env lower (name ++ '[' :: x) = .ok (lhs, rest)) :
    argL env lower (name ++ '[' :: x) = argAfterIndex env lhs rest := by
  obtain ⟨c, cs, rfl, hc, haux⟩ := nameOk_head hn
  have hcq : c ≠ '"' := by intro h; subst h; revert hc; decide
  have hcp : c ≠ '(' := by intro h; subst h; revert hc; decide
  have hc2 : (cs ++ '[' :: x).head? ≠ some '#' ∧ (cs ++ '[' :: x).head? ≠ some '"' := by
    cases cs with
    | nil => exact ⟨by simp, by simp⟩
    | cons d ds =>
      have hd : d ≠ '#' ∧ d ≠ '"' := by
        rcases nameOkAux_head haux with h | h
        · exact ⟨by intro e; subst e; revert h; decide, by intro e; subst e; revert h; decide⟩
        · subst h; exact ⟨by decide, by decide⟩
      exact ⟨by simp [hd.1], by simp [hd.2]⟩
  rw [List.cons_append] at hnu hnq hidx ⊢
  unfold argL
  simp only [hcq, hcp, hnu, hnq, hc2.1, hc2.2, hidx, argFallback, decide_false, Bool.false_or,
    Bool.or_false, Bool.and_false, Option.isSome_none, Bool.false_eq_true, if_false]
  split <;> rfl

theorem lexEnum_quantWord (q : QOp) (x : Input) :
    lexEnum quantOps ((quantWord q).toList ++ x) = some (q, x) := by
  cases q <;> simp [quantWord, lexEnum, quantOps, expect, stripPrefix]

theorem lexUnary_quantWord (env : PEnv) (q : QOp) (x : Input) :
    lexUnary env ((quantWord q).toList ++ x) = none := by
  cases q <;> simp [quantWord, lexUnary, lexEnum, unaryOps, expect, stripPrefix]

theorem level_quantArg (env : PEnv) (n : Nat) :
    (level env n).quantArg = quantArgL env (lowerOf env n) := by
  cases n <;> rfl

/-- **`QuantifierArgExpr::lex_with` on an atom with `[*]`** and a proper comparison: the argument
is `Logical(comparison)` (its type is `Array(Bool)`) -/
theorem quantArg_each (env : PEnv) (lower : Option Level) (tight : Bool) (a : EAtom)
    (h : a.ok env.scheme = true) (hcmp : a.tail ≠ .isTrue) (rest : Input)
    (hstop : Stop tight rest = true) :
    quantArgL env lower (a.txt ++ rest) = .ok (.logical (a.node env.scheme), rest) := by
  obtain ⟨name, path, tail⟩ := a
  have h' := h
  simp only [EAtom.ok, Bool.and_eq_true, decide_eq_true_eq] at h
  obtain ⟨⟨⟨⟨⟨hg, hpath⟩, htail⟩, hf⟩, hsch⟩, hmec⟩ := h
  obtain ⟨hn, hnot⟩ := nameGood_spec hg
  obtain ⟨hget, hty⟩ := fieldPathTy_spec hf
  have hne : path ≠ [] := EAtom.path_ne_nil (a := ⟨name, path, tail⟩) hmec
  have eq : EAtom.txt ⟨name, path, tail⟩ ++ rest = name ++ (epathTxt path ++ (tail.txt ++ rest)) := by
    simp [EAtom.txt, List.append_assoc]
  obtain ⟨ix, r, rfl⟩ : ∃ ix r, path = ix :: r := by
    cases path with
    | nil => exact absurd rfl hne
    | cons ix r => exact ⟨ix, r, rfl⟩
  obtain ⟨x, hx⟩ := epathTxt_head (ix := ix) (r := r) (tail.txt ++ rest)
  have hidx := indexExprL_epath env lower hn hget hne hpath hty (tail.noBracket htail rest hstop)
  have hcmpL := cmpWithLhs_tailG (tight := tight) env
    (.field (fieldIx env.scheme name) ((ix :: r).map EIx.val)) tail htail hsch rest hstop
  have hm : mapEachCount
      (IExpr.field (fieldIx env.scheme name) ((ix :: r).map EIx.val)).indexes > 0 := hmec
  simp only [hm, if_true] at hcmpL
  have hop := cmpWithLhs_ok_op (tail.ty_cases htail hcmp) hcmpL
  have hns : NameStop ('[' :: x) = true := nameStop_bracket x
  have hnu : lexUnary env (name ++ '[' :: x) = none :=
    name_noUnary_ns env hn (by rw [hget]; rfl) hnot hns
  have hnq : lexQuantCall (name ++ '[' :: x) = none :=
    name_noQuant_ns hn hns (fun _ => by
      rw [skipSpace_cons_of_not_space _ (by decide)]
      show stripPrefix ('[' :: x) ['('] = none
      simp [stripPrefix])
  rw [eq, hx] at *
  unfold quantArgL
  rw [argL_name env lower hn hnu hnq hidx]
  simp only [argAfterIndex, hop, hcmpL, if_true]
  simp [EAtom.node, EAtom.lhs]

/-- **`LogicalExpr::lex_simple_expr` on a quantifier call over an atom with `[*]`**:
`any ws₀ ( ws₁ name path tail ws₂ )` (and `all`) is read to
`Quantifier { op, arg: Logical(comparison) }` of type `Bool`, at every nesting budget ≥ 1 and
whatever follows the closing parenthesis -/
theorem quantifier_simple (env : PEnv) (n : Nat) (q : QOp) (ws₀ ws₁ ws₂ : Input) (a : EAtom)
    (h₀ : Layout ws₀ = true) (h₁ : Layout ws₁ = true) (h₂ : Layout ws₂ = true)
    (h : a.ok env.scheme = true) (hcmp : a.tail ≠ .isTrue) (rest : Input) :
    simpleL env (lowerOf env (n + 1))
        ((quantWord q).toList ++ (ws₀ ++ '(' :: (ws₁ ++ (a.txt ++ (ws₂ ++ ')' :: rest))))) =
      .ok ({ node := .quantifier q (.logical (a.node env.scheme)), ty := .bool }, rest) := by
  have hname : ∃ c cs, a.txt = c :: cs ∧ isSpace c = false := by
    simp only [EAtom.ok, Bool.and_eq_true] at h
    obtain ⟨c, cs, hc, hid, _⟩ := nameOk_head (nameGood_spec h.1.1.1.1.1).1
    refine ⟨c, cs ++ (epathTxt a.path ++ a.tail.txt), by simp [EAtom.txt, hc], ?_⟩
    cases hs : isSpace c with
    | false => rfl
    | true =>
      have : c = ' ' ∨ c = '\r' ∨ c = '\n' := by
        simp only [isSpace, Bool.or_eq_true, decide_eq_true_eq] at hs
        rcases hs with (h | h) | h <;> simp [h]
      rcases this with rfl | rfl | rfl <;> revert hid <;> decide
  obtain ⟨c, cs, hc, hsp⟩ := hname
  have hstop : Stop false (ws₂ ++ ')' :: rest) = true := by
    cases ws₂ with
    | nil => simp [Stop]
    | cons w ws => simp [Stop, layout_head_space h₂]
  have harg := quantArg_each env (lowerOf env n) false a h hcmp (ws₂ ++ ')' :: rest) hstop
  have e0 : expect ((quantWord q).toList ++ (ws₀ ++ '(' :: (ws₁ ++ (a.txt ++ (ws₂ ++ ')' :: rest))))) "(" = none := by
    cases q <;> (show stripPrefix _ ['('] = none; simp [quantWord, stripPrefix])
  have e1 : skipSpace (ws₀ ++ '(' :: (ws₁ ++ (a.txt ++ (ws₂ ++ ')' :: rest)))) =
      '(' :: (ws₁ ++ (a.txt ++ (ws₂ ++ ')' :: rest))) :=
    skipSpace_layout_solid h₀ ⟨'(', _, rfl, by decide⟩
  have e2 : expect ('(' :: (ws₁ ++ (a.txt ++ (ws₂ ++ ')' :: rest)))) "(" =
      some (ws₁ ++ (a.txt ++ (ws₂ ++ ')' :: rest))) := by
    show stripPrefix ('(' :: _) ['('] = _
    simp [stripPrefix]
  have e3 : skipSpace (ws₁ ++ (a.txt ++ (ws₂ ++ ')' :: rest))) = a.txt ++ (ws₂ ++ ')' :: rest) :=
    skipSpace_layout_solid h₁ ⟨c, cs ++ (ws₂ ++ ')' :: rest), by rw [hc]; rfl, hsp⟩
  have e4 : skipSpace (ws₂ ++ ')' :: rest) = ')' :: rest :=
    skipSpace_layout_solid h₂ ⟨')', _, rfl, by decide⟩
  have e5 : expect (')' :: rest) ")" = some rest := by
    show stripPrefix (')' :: rest) [')'] = _
    simp [stripPrefix]
  have hq : lexQuantCall ((quantWord q).toList ++ (ws₀ ++ '(' :: (ws₁ ++ (a.txt ++ (ws₂ ++ ')' :: rest))))) =
      some (q, ws₀ ++ '(' :: (ws₁ ++ (a.txt ++ (ws₂ ++ ')' :: rest)))) := by
    unfold lexQuantCall
    simp [lexEnum_quantWord, e1, e2]
  have hl : lowerOf env (n + 1) = some (level env n) := rfl
  rw [hl]
  unfold simpleL
  simp only [e0, lexUnary_quantWord, hq, level_quantArg, e1, e2, e3, harg, e4, e5]

/-- **`FilterParser::parse` on a quantifier call over an atom with `[*]`** (nesting budget ≥ 1;
`htrim`: the text is what `str::trim` leaves, e.g. no layout after the closing parenthesis) -/
theorem quantifier_filter (env : PEnv) (q : QOp) (ws₀ ws₁ ws₂ : Input) (a : EAtom)
    (h₀ : Layout ws₀ = true) (h₁ : Layout ws₁ = true) (h₂ : Layout ws₂ = true)
    (h : a.ok env.scheme = true) (hcmp : a.tail ≠ .isTrue) (hd : 1 ≤ env.st.maxDepth)
    (htrim : trim ((quantWord q).toList ++ (ws₀ ++ '(' :: (ws₁ ++ (a.txt ++ (ws₂ ++ [')']))))) =
      (quantWord q).toList ++ (ws₀ ++ '(' :: (ws₁ ++ (a.txt ++ (ws₂ ++ [')']))))) :
    parseFilter env ((quantWord q).toList ++ (ws₀ ++ '(' :: (ws₁ ++ (a.txt ++ (ws₂ ++ [')']))))) =
      .ok (.quantifier q (.logical (a.node env.scheme))) := by
  obtain ⟨m, hm⟩ : ∃ m, env.st.maxDepth = m + 1 := ⟨env.st.maxDepth - 1, by omega⟩
  have hs := quantifier_simple env m q ws₀ ws₁ ws₂ a h₀ h₁ h₂ h hcmp []
  have hl : (level env (m + 1)).logical = logicalL env (lowerOf env (m + 1)) := rfl
  unfold parseFilter
  simp only [htrim, hm, hl]
  unfold logicalL
  rw [hs]
  simp [lexCombiningOp, skipSpace, lexEnum, logicalOps, expect, stripPrefix, climb, complete]

/-! ### why these are not `GoodAtom`s -/

/-- an atom with `[*]` is no `GoodAtom`, whatever node is intended for it: `comparisonL` gives it
the type `Array(Bool)`, the first clause of `GoodAtom` asks for `Bool` -/
theorem eachAtom_not_goodAtom {α : Type} (env : PEnv) (A : Atoms α) (tight : Bool) (x : α)
    (a : EAtom) (h : a.ok env.scheme = true) (htxt : A.txt x = a.txt) :
    ¬ GoodAtom env A tight x := by
  intro g
  have h1 := g.parses 0 [] rfl
  rw [htxt, eachAtom_comparison env (lowerOf env 0) tight a h [] rfl] at h1
  simp at h1

/-- a quantifier call is no `GoodAtom`: `GoodAtom.noQuant` says that the text is NOT taken for a
quantifier call (and `GoodAtom.parses` is about `ComparisonExpr::lex_with`, which a quantifier
call does not go through) -/
theorem quantifier_not_goodAtom {α : Type} (env : PEnv) (A : Atoms α) (tight : Bool) (x : α)
    (q : QOp) (ws₀ t : Input) (h₀ : Layout ws₀ = true)
    (htxt : A.txt x = (quantWord q).toList ++ (ws₀ ++ '(' :: t)) : ¬ GoodAtom env A tight x := by
  intro g
  have h1 := g.noQuant [] rfl
  rw [List.append_nil, htxt] at h1
  unfold lexQuantCall at h1
  rw [lexEnum_quantWord] at h1
  have e1 : skipSpace (ws₀ ++ '(' :: t) = '(' :: t :=
    skipSpace_layout_solid h₀ ⟨'(', t, rfl, by decide⟩
  have e2 : expect ('(' :: t) "(" = some t := by
    show stripPrefix ('(' :: t) ['('] = _
    simp [stripPrefix]
  simp [e1, e2] at h1

end WfModel.Atoms
