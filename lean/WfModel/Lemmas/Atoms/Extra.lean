import WfModel.Lemmas.Atoms

/-!
# Concrete atoms: side conditions from explicit hypotheses; ill-typed paths are rejected

`CAtom.ok_of` derives the decidable side condition `CAtom.ok` from hypotheses spelled out as
propositions (used by the `goodAtom_*` theorems of `Props/C01Atoms.lean`).
`lexIndexes_illtyped` / `comparisonL_illtyped` show that the typing side condition on index paths
is necessary: on a written path that is NOT well-typed for the field's declared type the `[ … ]`
loop fails with `InvalidIndexAccess`. Helper lemmas only.
-/
namespace WfModel.Atoms

open WfModel WfModel.Render WfModel.C07L

/-- `CAtom.ok` from its parts -/
theorem CAtom.ok_of {s : Scheme} {name : List Char} {path : List Ix} {tail : Tail}
    (hname : nameOk name = true) (hnot : name ≠ "not".toList)
    (hpath : path.all Ix.ok = true) (htail : tail.ok = true)
    (hfield : fieldPathTy s name (path.map Ix.val) tail.ty = true)
    (hj : path ≠ [] ∨ (tail.sepFromName = true ∧
      (tail = .isTrue → name ≠ "any".toList ∧ name ≠ "all".toList)))
    (hsch : tail.schemeOk s = true := by rfl) :
    (CAtom.mk name path tail).ok s = true := by
  have e0 : (name != "not".toList) = true := bne_iff_ne.mpr hnot
  have hjb : (CAtom.mk name path tail).junctionOk = true := by
    rcases hj with h | ⟨h1, h2⟩
    · cases path with
      | nil => exact absurd rfl h
      | cons _ _ => simp [CAtom.junctionOk]
    · by_cases ht : tail = .isTrue
      · obtain ⟨a, b⟩ := h2 ht
        have a' : (name != "any".toList) = true := bne_iff_ne.mpr a
        have b' : (name != "all".toList) = true := bne_iff_ne.mpr b
        simp only [CAtom.junctionOk, h1, a', b']
        simp
      · simp [CAtom.junctionOk, h1, ht]
  simp only [CAtom.ok, nameGood]
  rw [hname, e0, hpath, htail, hfield, hjb, hsch]
  rfl

/-! ### ill-typed paths -/

/-- one turn of the loop on a suffix that does not fit the current type -/
theorem lexIndexes_step_bad (f : Nat) (ix : Ix) (hok : ix.ok = true) (more : Input) (ty : Ty)
    (acc : List FieldIndex) (hstep : indexStep ty ix.val = none) :
    lexIndexes (f + 1) (ix.txt ++ more) ty acc =
      errSpan .invalidIndexAccess (ix.txt ++ more) more := by
  obtain ⟨ws₁, body, ws₂, he, h₁, h₂, hsolid, hlex⟩ := lexFieldIndex_ix ix hok more
  rw [he, lexIndexes]
  simp only [expect_open_bracket, skipSpace_layout_solid h₁ hsolid, hlex,
    skipSpace_layout_solid h₂ (closeSolid more), expect_close_bracket, hstep]

/-- **the loop rejects an ill-typed path** with `InvalidIndexAccess` (at its first suffix that
does not fit) -/
theorem lexIndexes_illtyped : ∀ (path : List Ix) (f : Nat) (more : Input) (ty : Ty)
    (acc : List FieldIndex), path.all Ix.ok = true → pathTy ty (path.map Ix.val) = none →
    path.length ≤ f →
    ∃ e, lexIndexes f (pathTxt path ++ more) ty acc = .error e ∧ e.kind = .invalidIndexAccess
  | [], _, _, _, _, _, hty, _ => by simp [pathTy] at hty
  | ix :: r, f, more, ty, acc, hok, hty, hf => by
    obtain ⟨f', rfl⟩ : ∃ f', f = f' + 1 := ⟨f - 1, by simp at hf; omega⟩
    simp only [List.all_cons, Bool.and_eq_true] at hok
    simp only [List.map_cons, pathTy] at hty
    have e : pathTxt (ix :: r) ++ more = ix.txt ++ (pathTxt r ++ more) := by
      simp [pathTxt]
    cases hs : indexStep ty ix.val with
    | none =>
      rw [e, lexIndexes_step_bad f' ix hok.1 _ ty acc hs]
      exact ⟨_, rfl, rfl⟩
    | some t1 =>
      rw [hs] at hty
      rw [e, lexIndexes_step f' ix hok.1 _ ty t1 acc hs]
      exact lexIndexes_illtyped r f' more t1 _ hok.2 hty (by simp at hf; omega)

/-- **`ComparisonExpr::lex_with` rejects `name path …` when the path is ill-typed** for the
field's declared type, whatever follows -/
theorem comparisonL_illtyped (env : PEnv) (lower : Option Level) {name more : Input}
    {path : List Ix} {i : Nat} (hn : nameOk name = true)
    (hget : env.scheme.get name = some (.field i)) (hpath : path.all Ix.ok = true)
    (hty : pathTy (env.scheme.fieldTy i) (path.map Ix.val) = none) :
    ∃ e, comparisonL env lower (name ++ (pathTxt path ++ more)) = .error e ∧
      e.kind = .invalidIndexAccess := by
  have hne : path ≠ [] := by
    intro h; subst h; simp [pathTy] at hty
  have hns : NameStop (pathTxt path ++ more) = true := by
    cases path with
    | nil => exact absurd rfl hne
    | cons ix r =>
      obtain ⟨x, hx⟩ := pathTxt_head (ix := ix) (r := r) more
      rw [hx]; exact nameStop_bracket x
  obtain ⟨e, he, hk⟩ := lexIndexes_illtyped path ((pathTxt path ++ more).length + 1) more
    (env.scheme.fieldTy i) [] hpath hty
    (by have := length_le_pathTxt path; simp only [List.length_append]; omega)
  refine ⟨e, ?_, hk⟩
  unfold comparisonL indexExprL
  rw [lexIdentifier_name_ns env.scheme hn hns]
  simp only [hget, he]

/-! ### `in $name` needs a registered list -/

/-- without a list registered for the left-hand side's type `in $…` is an error, whatever the
name is -/
theorem inList_unregistered (env : PEnv) (lhs : IExpr) (ty : Ty)
    (hty : ty = .int ∨ ty = .ip ∨ ty = .bytes) (hnone : env.scheme.getList ty = none)
    (ws₁ ws₂ : Input) (h₁ : Layout ws₁ = true) (h₂ : Layout ws₂ = true) (listName rest : Input) :
    ∃ e, cmpWithLhs env lhs ty (ws₁ ++ ("in".toList ++ (ws₂ ++ ('$' :: (listName ++ rest))))) =
      .error e := by
  have e1 : skipSpace (ws₁ ++ ("in".toList ++ (ws₂ ++ ('$' :: (listName ++ rest))))) =
      "in".toList ++ (ws₂ ++ ('$' :: (listName ++ rest))) :=
    skipSpace_layout_solid h₁ ⟨'i', _, rfl, by decide⟩
  have e3 : skipSpace (ws₂ ++ ('$' :: (listName ++ rest))) = '$' :: (listName ++ rest) :=
    skipSpace_layout_solid h₂ ⟨'$', _, rfl, by decide⟩
  have e4 : expect ('$' :: (listName ++ rest)) "$" = some (listName ++ rest) := by
    show stripPrefix ('$' :: _) ['$'] = _
    simp [stripPrefix]
  unfold cmpWithLhs
  rcases hty with rfl | rfl | rfl <;>
    (simp only [e1, lexEnum_in, e3, e4, hnone]
     cases lexListName ('$' :: (listName ++ rest)) <;> simp [Ty.next, errSpan_eq])

end WfModel.Atoms
